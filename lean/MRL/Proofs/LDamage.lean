/-
One frame of an item tape damaged (checksum and/or payload bytes replaced, same lengths, the check
fails): the frame becomes one more junk item. What the reader reassembles from the damaged tape
(`asm_damaged`): the frames of the same entry written before it deliver nothing (an unfinished
entry), the junk slot gives one `corrupt` event, the frames of the same entry after it are skipped
(non-first frames outside an entry); every other retained entry is delivered, attributed to a file
between the first tracked one and the one where it starts. So the entries delivered are the
retained entries of the journal — all of them if the frame was a lead frame or belonged to an entry
that was never finished, all but the one the frame belongs to otherwise.
-/
import MRL.Proofs.LRunReach

namespace MRL.LR
open MRL Codec Consts G H Log C05 Torn L

theorem ofFlags_false_first (e : Bool) : (FrameType.ofFlags false e).isFirst = false := by cases e <;> rfl

theorem entryFrames_false_nonfirst : ∀ (fs : List Frm), EntryFrames false fs → ∀ y ∈ fs, y.1.isFirst = false
  | [], h, _, _ => h.elim
  | fr :: fs, h, y, hy => by
    rcases List.mem_cons.mp hy with rfl | hy
    · rw [h.1]; exact ofFlags_false_first _
    · exact entryFrames_false_nonfirst fs (h.2 (List.ne_nil_of_mem hy)) y hy

/-- the frames after any frame of an entry are not first frames -/
theorem entryFrames_after : ∀ (A : List Frm) (b : Bool) (x : Frm) (B : List Frm),
    EntryFrames b (A ++ x :: B) → ∀ y ∈ B, y.1.isFirst = false
  | [], _, _, B, h, y, hy => entryFrames_false_nonfirst B (h.2 (List.ne_nil_of_mem hy)) y hy
  | _ :: A, _, x, B, h, y, hy => entryFrames_after A false x B (h.2 (by simp)) y hy

/-- the frame-type discipline only looks at the types -/
theorem entryFrames_types : ∀ (fs fs' : List Frm) (b : Bool), fs.map (·.1) = fs'.map (·.1) →
    EntryFrames b fs → EntryFrames b fs'
  | [], _, _, _, h => h.elim
  | fr :: fs, [], _, hm, _ => by simp at hm
  | fr :: fs, fr' :: fs', b, hm, h => by
    simp only [List.map_cons, List.cons.injEq] at hm
    have hemp : fs.isEmpty = fs'.isEmpty := by
      cases fs with
      | nil =>
        have : fs' = [] := by simpa using hm.2.symm
        rw [this]
      | cons x xs =>
        cases fs' with
        | nil => simp at hm
        | cons y ys => rfl
    refine ⟨by rw [← hm.1, ← hemp]; exact h.1, ?_⟩
    intro hne
    have hne' : fs ≠ [] := by
      intro e; rw [e] at hm; simp at hm; exact hne hm.2
    exact entryFrames_types fs fs' false hm.2 (h.2 hne')

theorem all2_append {α β : Type} {R : α → β → Prop} {a : List α} {b : List β} {c : List α} {d : List β}
    (h1 : All2 R a b) (h2 : All2 R c d) : All2 R (a ++ c) (b ++ d) := by
  induction h1 with
  | nil => exact h2
  | cons hab _ ih => exact All2.cons hab ih

/-- where an element of a `flatMap` lies -/
theorem flatMap_split {α β : Type} (f : α → List β) : ∀ (L : List α) (A1 : List β) (a : β) (A2 : List β),
    L.flatMap f = A1 ++ a :: A2 →
    ∃ g1 x g2 pre post, L = g1 ++ x :: g2 ∧ f x = pre ++ a :: post ∧ A1 = g1.flatMap f ++ pre ∧
      A2 = post ++ g2.flatMap f := by
  intro L
  induction L with
  | nil => intro A1 a A2 h; simp at h
  | cons y L ih =>
    intro A1 a A2 h
    rw [List.flatMap_cons] at h
    rcases List.append_eq_append_iff.mp h with ⟨c, h1, h2⟩ | ⟨c, h1, h2⟩
    · obtain ⟨g1, x, g2, pre, post, e1, e2, e3, e4⟩ := ih c a A2 h2
      exact ⟨y :: g1, x, g2, pre, post, by rw [e1]; rfl, e2, by rw [h1, e3, List.flatMap_cons, List.append_assoc], e4⟩
    · cases c with
      | nil =>
        simp only [List.nil_append] at h2
        obtain ⟨g1, x, g2, pre, post, e1, e2, e3, e4⟩ := ih [] a A2 h2.symm
        refine ⟨y :: g1, x, g2, pre, post, by rw [e1]; rfl, e2, ?_, e4⟩
        rw [List.flatMap_cons, List.append_assoc, ← e3, List.append_nil]
        simpa using h1.symm
      | cons c0 c =>
        simp only [List.cons_append, List.cons.injEq] at h2
        obtain ⟨rfl, h2⟩ := h2
        exact ⟨[], y, L, A1, c, rfl, h1, by simp, h2⟩

/-- the entry of `j'` is that of `j`, located where it was, attributed between `F` and there -/
def Rel (F : Nat) (a b : JE) : Prop := a.e = b.e ∧ a.loc = b.loc ∧ F ≤ a.attr ∧ a.attr ≤ a.loc

def liveJ (gs : List Grp) : List JE := (liveOf gs).map (·.1)

theorem liveJ_append (a b : List Grp) : liveJ (a ++ b) = liveJ a ++ liveJ b := by
  simp [liveJ, liveOf_append]

/-- `L.asm_groups`, keeping only what is delivered -/
theorem asm_groups' (F : Nat) (gs : List Grp) (st : AsmSt) (tail : List RdEv)
    (hok : ∀ x ∈ gs, GrpOK x) (hmono : (tfs (gs.flatMap (·.2))).Pairwise (fun a b => a.1 ≤ b.1))
    (hlo : ∀ a ∈ tfs (gs.flatMap (·.2)), st.attr ≤ a.1) (hF : F ≤ st.attr) :
    ∃ (Jd : List JE) (st' : AsmSt) (R : List RecEv),
      assemble st (evsJ (gs.flatMap (·.2)) ++ tail) = R ++ assemble st' tail ∧
      entriesOf R = entriesEv Jd ∧ All2 (Rel F) Jd (liveJ gs) := by
  obtain ⟨gs', st', R, _, _, g3, g4, g5⟩ := asm_groups F gs st tail hok hmono hlo hF
  refine ⟨(liveOf gs').map (·.1), st', R, g4, g5, ?_⟩
  exact All2.map_right (R := Rel F) (fun s : Seg => s.1) (g3.imp (fun a b hab => hab))

/-- the group of the damaged frame: the frames before it deliver nothing, the junk slot one
    `corrupt` event, the frames after it are skipped -/
theorem asm_damaged_part (pre : List AItm) (a' : AItm) (post : List AItm) (rest0 : List Frm) (st : AsmSt)
    (evs : List RdEv) (hpre : ∀ x ∈ pre, x.2 = none) (hpost : ∀ x ∈ post, x.2 = none) (r : Bytes)
    (ha' : a'.2 = some r) (hE : EntryFrames true (frs pre ++ a'.1.2 :: (frs post ++ rest0))) :
    ∃ buf, assemble st (evsJ (pre ++ a' :: post) ++ evs) =
      RecEv.corrupt :: assemble { within := false, buf := buf, attr := a'.1.1 } evs := by
  have hev : evJ a' = RdEv.corrupt a'.1.1 := by simp [evJ, ha']
  rw [evsJ_append, evsJ_cons, evsJ_none hpre, evsJ_none hpost, hev, List.append_assoc, List.cons_append]
  obtain ⟨st1, _, h1⟩ := assemble_partA (tfs pre) true (a'.1.2 :: (frs post ++ rest0)) st
    (RdEv.corrupt a'.1.1 :: (evsOf (tfs post) ++ evs)) (by simp) hE (Or.inl rfl)
  rw [h1]
  simp only [assemble]
  refine ⟨st1.buf, ?_⟩
  rw [assemble_lead _ rfl (tfs post) evs]
  intro y hy
  have : y.2 ∈ frs post := by
    unfold frs untag
    exact List.mem_map_of_mem (f := fun x : TFrm => x.2) hy
  exact entryFrames_after (frs pre) true a'.1.2 (frs post ++ rest0) hE y.2 (List.mem_append_left _ this)

theorem frs_types_congr (pre : List AItm) (a a' : AItm) (post : List AItm) (ht : a'.1.2.1 = a.1.2.1) :
    (frs (pre ++ a :: post)).map (·.1) = (frs pre ++ a'.1.2 :: frs post).map (·.1) := by
  rw [frs_append, frs_cons]
  simp [ht]

/-- the group of the damaged frame, whatever its kind -/
theorem grp_damaged (x : Grp) (hokx : GrpOK x) (pre : List AItm) (a : AItm) (post : List AItm)
    (hx : x.2 = pre ++ a :: post) (ha : a.2 = none) (a' : AItm) (ht : a'.1.2.1 = a.1.2.1) (r : Bytes)
    (hr : a'.2 = some r) (st : AsmSt) (evs : List RdEv) :
    ∃ buf, assemble st (evsJ (pre ++ a' :: post) ++ evs) =
      RecEv.corrupt :: assemble { within := false, buf := buf, attr := a'.1.1 } evs := by
  obtain ⟨oj, fs⟩ := x
  simp only at hx
  subst hx
  cases oj with
  | some j =>
    obtain ⟨hso, hnone⟩ : SegOK (j, tfs (pre ++ a :: post)) ∧ ∀ y ∈ pre ++ a :: post, y.2 = none := hokx
    have hE : EntryFrames true (frs pre ++ a'.1.2 :: (frs post ++ [])) := by
      rw [List.append_nil]
      exact entryFrames_types _ _ true (frs_types_congr pre a a' post ht) hso.frames
    exact asm_damaged_part pre a' post [] st evs
      (fun y hy => hnone y (List.mem_append_left _ hy))
      (fun y hy => hnone y (List.mem_append_right _ (List.mem_cons_of_mem _ hy))) r hr hE
  | none =>
    rcases hokx with ⟨rest, hrest, hE0, hnone⟩ | ⟨a0, r0, hfs, har⟩
    · simp only at hE0 hnone
      have hE : EntryFrames true (frs pre ++ a'.1.2 :: (frs post ++ rest)) := by
        apply entryFrames_types _ _ true _ hE0
        rw [List.map_append, frs_types_congr pre a a' post ht]
        simp
      exact asm_damaged_part pre a' post rest st evs
        (fun y hy => hnone y (List.mem_append_left _ hy))
        (fun y hy => hnone y (List.mem_append_right _ (List.mem_cons_of_mem _ hy))) r hr hE
    · simp only at hfs har
      have hmem : a ∈ [a0] := by rw [← hfs]; simp
      rw [List.mem_singleton] at hmem
      rw [hmem, har] at ha
      cases ha

/-- **reassembly of a tape with one damaged frame** -/
theorem asm_damaged (F : Nat) (lead : List AItm) (gs : List Grp)
    (hlead : ∀ a ∈ lead, a.2 = none ∧ a.1.2.1.isFirst = false) (hok : ∀ y ∈ gs, GrpOK y)
    (hmono : (tfs (lead ++ gs.flatMap (·.2))).Pairwise (fun a b => a.1 ≤ b.1))
    (hF : ∀ x ∈ tfs (lead ++ gs.flatMap (·.2)), F ≤ x.1)
    (A1 : List AItm) (a : AItm) (A2 : List AItm) (hsplit : lead ++ gs.flatMap (·.2) = A1 ++ a :: A2)
    (ha : a.2 = none) (a' : AItm) (hf : a'.1.1 = a.1.1) (ht : a'.1.2.1 = a.1.2.1) (r : Bytes)
    (hr : a'.2 = some r) (tail : List RdEv) :
    ∃ (Jd : List JE) (st' : AsmSt) (R : List RecEv),
      assemble { within := false, buf := [], attr := F } (evsJ (A1 ++ a' :: A2) ++ tail) = R ++ assemble st' tail ∧
      entriesOf R = entriesEv Jd ∧
      (All2 (Rel F) Jd (liveJ gs) ∨ ∃ k, k < (liveJ gs).length ∧ All2 (Rel F) Jd ((liveJ gs).eraseIdx k)) := by
  -- tags after the damaged frame
  rw [hsplit] at hmono hF
  have hFa : F ≤ a'.1.1 := by rw [hf]; exact hF a.1 (by rw [tfs_append, tfs_cons]; simp)
  have hafter : ∀ b ∈ tfs A2, a'.1.1 ≤ b.1 := by
    intro b hb
    rw [tfs_append, tfs_cons] at hmono
    rw [hf]
    exact (List.pairwise_cons.mp (List.pairwise_append.mp hmono).2.1).1 b hb
  have hmonoA2 : (tfs A2).Pairwise (fun a b => a.1 ≤ b.1) := by
    rw [tfs_append, tfs_cons] at hmono
    exact (List.pairwise_cons.mp (List.pairwise_append.mp hmono).2.1).2
  have hmonoA1 : (tfs A1).Pairwise (fun a b => a.1 ≤ b.1) := by
    rw [tfs_append] at hmono
    exact (List.pairwise_append.mp hmono).1
  have hcase : (∃ l2, lead = A1 ++ a :: l2 ∧ A2 = l2 ++ gs.flatMap (·.2)) ∨
      (∃ c, A1 = lead ++ c ∧ gs.flatMap (·.2) = c ++ a :: A2) := by
    rcases List.append_eq_append_iff.mp hsplit with ⟨c, h1, h2⟩ | ⟨c, h1, h2⟩
    · exact Or.inr ⟨c, h1, h2⟩
    · cases c with
      | nil => exact Or.inr ⟨[], by simpa using h1.symm, by simpa using h2.symm⟩
      | cons c0 c =>
        simp only [List.cons_append, List.cons.injEq] at h2
        obtain ⟨rfl, h2⟩ := h2
        exact Or.inl ⟨c, h1, h2⟩
  rcases hcase with ⟨l2, hl, hA2⟩ | ⟨c, hA1, hG⟩
  · -- a lead frame
    have hA1n : ∀ x ∈ A1, x.2 = none ∧ x.1.2.1.isFirst = false :=
      fun x hx => hlead x (by rw [hl]; exact List.mem_append_left _ hx)
    have hl2n : ∀ x ∈ l2, x.2 = none ∧ x.1.2.1.isFirst = false :=
      fun x hx => hlead x (by rw [hl]; exact List.mem_append_right _ (List.mem_cons_of_mem _ hx))
    have hnf : ∀ (X : List AItm), (∀ x ∈ X, x.2 = none ∧ x.1.2.1.isFirst = false) →
        ∀ y ∈ tfs X, y.2.1.isFirst = false := by
      intro X hX y hy
      obtain ⟨x, hx, rfl⟩ := List.mem_map.mp hy
      exact (hX x hx).2
    have hev : evJ a' = RdEv.corrupt a'.1.1 := by simp [evJ, hr]
    rw [hA2] at hafter hmonoA2
    rw [tfs_append] at hafter hmonoA2
    obtain ⟨Jd, st', R, g4, g5, g3⟩ := asm_groups' F gs { within := false, buf := [], attr := a'.1.1 } tail hok
      (List.pairwise_append.mp hmonoA2).2.1 (fun b hb => hafter b (List.mem_append_right _ hb)) hFa
    refine ⟨Jd, st', RecEv.corrupt :: R, ?_, by simpa [entriesOf, List.filter_cons] using g5, Or.inl g3⟩
    rw [hA2, evsJ_append, evsJ_cons, evsJ_append, evsJ_none (fun x hx => (hA1n x hx).1),
      evsJ_none (fun x hx => (hl2n x hx).1), hev, List.append_assoc, assemble_lead _ rfl (tfs A1) _ (hnf A1 hA1n)]
    simp only [List.cons_append, assemble, List.append_assoc]
    rw [assemble_lead _ rfl (tfs l2) _ (hnf l2 hl2n), g4]
  · -- a frame of a group
    obtain ⟨g1, x, g2, pre, post, hgs, hx, hc, hA2⟩ := flatMap_split (fun y : Grp => y.2) gs c a A2 hG
    have hok1 : ∀ y ∈ g1, GrpOK y := fun y hy => hok y (by rw [hgs]; exact List.mem_append_left _ hy)
    have hok2 : ∀ y ∈ g2, GrpOK y := fun y hy =>
      hok y (by rw [hgs]; exact List.mem_append_right _ (List.mem_cons_of_mem _ hy))
    have hokx : GrpOK x := hok x (by rw [hgs]; simp)
    -- tags
    rw [hA1, hc] at hmonoA1 hF
    have hmono1 : (tfs (g1.flatMap (·.2))).Pairwise (fun a b => a.1 ≤ b.1) := by
      rw [tfs_append, tfs_append] at hmonoA1
      exact (List.pairwise_append.mp (List.pairwise_append.mp hmonoA1).2.1).1
    have hF1 : ∀ b ∈ tfs (g1.flatMap (·.2)), F ≤ b.1 := by
      intro b hb
      apply hF b
      rw [tfs_append, tfs_append, tfs_append]
      exact List.mem_append_left _ (List.mem_append_right _ (List.mem_append_left _ hb))
    rw [hA2, tfs_append] at hafter hmonoA2
    -- the three parts
    have hnf : ∀ y ∈ tfs lead, y.2.1.isFirst = false := by
      intro y hy
      obtain ⟨z, hz, rfl⟩ := List.mem_map.mp hy
      exact (hlead z hz).2
    obtain ⟨Jd1, st1, R1, p4, p5, p3⟩ := asm_groups' F g1 { within := false, buf := [], attr := F }
      (evsJ (pre ++ a' :: post) ++ (evsJ (g2.flatMap (·.2)) ++ tail)) hok1 hmono1 hF1 (Nat.le_refl _)
    obtain ⟨buf, hb⟩ := grp_damaged x hokx pre a post hx ha a' ht r hr st1 (evsJ (g2.flatMap (·.2)) ++ tail)
    obtain ⟨Jd2, st2, R2, q4, q5, q3⟩ := asm_groups' F g2 { within := false, buf := buf, attr := a'.1.1 } tail hok2
      (List.pairwise_append.mp hmonoA2).2.1 (fun b hb => hafter b (List.mem_append_right _ hb)) hFa
    have hasm : assemble { within := false, buf := [], attr := F } (evsJ (A1 ++ a' :: A2) ++ tail) =
        (R1 ++ RecEv.corrupt :: R2) ++ assemble st2 tail := by
      rw [hA1, hc, hA2]
      have e1 : evsJ ((lead ++ (g1.flatMap (·.2) ++ pre)) ++ a' :: (post ++ g2.flatMap (·.2))) ++ tail =
          evsOf (tfs lead) ++ (evsJ (g1.flatMap (·.2)) ++
            (evsJ (pre ++ a' :: post) ++ (evsJ (g2.flatMap (·.2)) ++ tail))) := by
        rw [← evsJ_none (fun y hy => (hlead y hy).1)]
        simp only [evsJ_append, evsJ_cons, List.append_assoc, List.cons_append]
      rw [e1, assemble_lead _ rfl (tfs lead) _ hnf, p4, hb, q4]
      simp only [List.append_assoc, List.cons_append]
    have hents : entriesOf (R1 ++ RecEv.corrupt :: R2) = entriesEv (Jd1 ++ Jd2) := by
      have : entriesOf (R1 ++ RecEv.corrupt :: R2) = entriesOf R1 ++ entriesOf R2 := by
        simp [entriesOf, List.filter_append, List.filter_cons]
      rw [this, p5, q5]
      simp [entriesEv]
    refine ⟨Jd1 ++ Jd2, st2, R1 ++ RecEv.corrupt :: R2, hasm, hents, ?_⟩
    rw [hgs, liveJ_append]
    cases hx1 : x.1 with
    | none =>
      left
      have : liveJ (x :: g2) = liveJ g2 := by
        obtain ⟨oj, fs⟩ := x
        simp only at hx1
        subst hx1
        simp [liveJ, liveOf_cons_none]
      rw [this]
      exact all2_append p3 q3
    | some j =>
      right
      have : liveJ (x :: g2) = j :: liveJ g2 := by
        obtain ⟨oj, fs⟩ := x
        simp only at hx1
        subst hx1
        simp [liveJ, liveOf_cons_some]
      rw [this]
      refine ⟨(liveJ g1).length, by simp, ?_⟩
      rw [List.eraseIdx_append_of_length_le (Nat.le_refl _), Nat.sub_self]
      exact all2_append p3 q3

end MRL.LR
