/-
The replay-level discipline of a journal, up to the file handles. `RunOK J q`: the journal `J`
replays, entry by entry (`Drop.Run`: every entry is one the API writes in the state it is written
in), from SOME well-formed start `L0` — the queues as they were when the oldest retained entry was
written — to queues with the abstract state of `q`. This is what the drop-one simulation of C09
needs (`drop_coreX`: `Img.drop_core` from an arbitrary start), and it is stable under what a
restart or a crash-recovery does to the hidden journal of a state: dropping the entries of
unlinked files and re-attributing the retained ones (`RunOK.retained`).
-/
import MRL.Proofs.ImgDrop
import MRL.Proofs.ImgOneFrame
import MRL.Proofs.LCrash

namespace MRL.LR
open MRL Log C05 C01J Rec Drop H L

theorem abs_recs_nil {x y : MemQueue} (h : x.abs = y.abs) (hx : x.recs = []) : y.recs = [] := by
  have := congrArg SQueue.recs h
  simp only [MemQueue.abs, hx, List.map_nil] at this
  exact List.map_eq_nil_iff.mp this.symm

theorem abs_next' {x y : MemQueue} (h : x.abs = y.abs) : x.nextPosition = y.nextPosition := by
  have := congrArg SQueue.next h
  simpa [MemQueue.abs] using this

theorem okEntry_abs {a b : MemQueues} (h : AbsEq a b) {e : Entry} (ho : OkEntry a e) : OkEntry b e := by
  cases e with
  | append q pos recs =>
    obtain ⟨⟨z, hz⟩, hw⟩ := ho
    obtain ⟨y, hy, _⟩ := h.get_some hz
    exact ⟨⟨y, hy⟩, hw⟩
  | truncate q p =>
    obtain ⟨z, hz⟩ := ho
    obtain ⟨y, hy, _⟩ := h.get_some hz
    exact ⟨y, hy⟩
  | delete q p =>
    obtain ⟨z, hz⟩ := ho
    obtain ⟨y, hy, _⟩ := h.get_some hz
    exact ⟨y, hy⟩
  | touch q n =>
    rcases ho with ⟨hn, h0⟩ | ⟨z, hz, he, hnx⟩
    · exact Or.inl ⟨h.get_none hn, h0⟩
    · obtain ⟨y, hy, hxy⟩ := h.get_some hz
      exact Or.inr ⟨y, hy, abs_recs_nil hxy he, by rw [← abs_next' hxy]; exact hnx⟩

/-- a run transported to a start with the same abstract state, the entries re-attributed -/
theorem run_abs {a a' : MemQueues} {js : List JE} (h : Run a js a') : ∀ {js' : List JE} {b : MemQueues},
    All2 (fun x y : JE => x.e = y.e) js' js → AbsEq a b → QsWF a → QsWF b →
    ∃ b', Run b js' b' ∧ AbsEq a' b' ∧ QsWF b' := by
  induction h with
  | nil =>
    intro js' b hrel he _ hb
    cases hrel
    exact ⟨b, Run.nil, he, hb⟩
  | @cons lq lq' lq'' j js ho hr _ ih =>
    intro js' b hrel he ha hb
    cases hrel with
    | @cons j' _ js'' _ hjj hrest =>
      obtain ⟨b1, hb1, he1⟩ := replayEntry_abs (f' := j'.attr) he ha hb hr
      obtain ⟨b', hrun, he', hw'⟩ := ih hrest he1 (replayEntry_wf ha hr) (replayEntry_wf hb hb1)
      refine ⟨b', Run.cons (by rw [hjj]; exact okEntry_abs he ho) (by rw [hjj]; exact hb1) hrun, he', hw'⟩

theorem all2_refl {α : Type} {R : α → α → Prop} (hR : ∀ a, R a a) : ∀ l : List α, All2 R l l
  | [] => All2.nil
  | a :: l => All2.cons (hR a) (all2_refl hR l)

/-- the journal replays as the API wrote it, to queues with the abstract state of `q` -/
def RunOK (J : List JE) (q : MemQueues) : Prop :=
  ∃ L0 Lf, QsWF L0 ∧ Run L0 J Lf ∧ QsWF Lf ∧ AbsEq Lf q

theorem RunOK.congr {J : List JE} {q q' : MemQueues} (h : RunOK J q) (he : AbsEq q q') : RunOK J q' := by
  obtain ⟨L0, Lf, h0, hr, hf, ha⟩ := h
  exact ⟨L0, Lf, h0, hr, hf, ha.trans he⟩

theorem RunOK.append {J Jn : List JE} {q q' : MemQueues} (h : RunOK J q) (hq : QsWF q) (hn : Run q Jn q') :
    RunOK (J ++ Jn) q' := by
  obtain ⟨L0, Lf, h0, hr, hf, ha⟩ := h
  obtain ⟨Lf', hr', ha', hf'⟩ := run_abs hn (all2_refl (R := fun x y : JE => x.e = y.e) (fun _ => rfl) Jn) ha.symm hq hf
  exact ⟨L0, Lf', h0, hr.append hr', hf', ha'.symm⟩

theorem RunOK.nil : RunOK [] [] := ⟨[], [], QsWF.nil, Run.nil, QsWF.nil, AbsEq.refl _⟩

/-- dropping the entries of the unlinked files and re-attributing the others -/
theorem RunOK.retained {Jx J' : List JE} {q : MemQueues} (F : Nat) (h : RunOK Jx q)
    (hmono : Jx.Pairwise (fun a b => a.loc ≤ b.loc))
    (hrel : All2 (fun a b : JE => a.e = b.e) J' (Jx.filter fun j => decide (F ≤ j.loc))) : RunOK J' q := by
  obtain ⟨L0, Lf, h0, hr, hf, ha⟩ := h
  obtain ⟨J1, J2, hJ, h1, h2⟩ := C09R.split_loc F Jx hmono
  subst hJ
  rw [Img.filter_split F J1 J2 h1 h2] at hrel
  obtain ⟨Lk, hr1, hr2⟩ := C09R.run_split (c := Lf) J1 J2 hr
  have hwk : QsWF Lk := C09R.run_wf hr1 h0
  obtain ⟨Lf', hr', ha', hf'⟩ := run_abs hr2 hrel (AbsEq.refl Lk) hwk hwk
  exact ⟨Lk, Lf', hwk, hr', hf', ha'.symm.trans ha⟩

/-- one call -/
theorem RunOK.step (g : Geom) {l : Log} {J : List JE} (h : RunOK J l.queues) (hI : Inv l) (c : Call) (tick : Bool)
    (order : List Bytes) : RunOK (J ++ l.stepJ g c order) (l.step g c tick order).1.queues :=
  h.append (QsWF.of_inv hI) (Img.run_step g l hI c tick order)

/-- a GC pass -/
theorem RunOK.gc (g : Geom) {l : Log} {J : List JE} (h : RunOK J l.queues) (hI : Inv l) (order : List Bytes) :
    RunOK (J ++ gcJ g l order) l.queues :=
  h.append (QsWF.of_inv hI) (run_gc g l order hI.1)

/-- **the drop-one simulation** from a run of the whole journal (from any well-formed start) and
    the intact replay (`Img.drop_core` with the start generalised) -/
theorem drop_coreX (F : Nat) (J : List JE) (L0 Lf qsA lq : MemQueues) (hw0 : QsWF L0) (hrun : Run L0 J Lf)
    (hmono : J.Pairwise (fun a b => a.loc ≤ b.loc)) (hA : replayJ F [] J = some qsA) (hEq : QsEquiv qsA lq)
    (a : Nat) (ha : a < J.length) :
    ∃ qs', replayJ F [] (J.eraseIdx a) = some qs' ∧ QsWF qs' ∧
      ∀ name q, lq.get? name = some q →
        ∀ r ∈ q.recs, ¬ C09R.RecordOf (J[a]) name r →
          ∃ q', qs'.get? name = some q' ∧ (r.pos, r.payload) ∈ Rec.plain q' := by
  obtain ⟨J1, J2, hJ, h1, h2⟩ := C09R.split_loc F J hmono
  subst hJ
  obtain ⟨Lk, hr1, hr2⟩ := C09R.run_split (c := Lf) J1 J2 hrun
  have hwk : QsWF Lk := C09R.run_wf hr1 hw0
  have hskip : ∀ js : List JE, (∀ j ∈ js, j.loc < F) → ∀ js', replayJ F [] (js ++ js') = replayJ F [] js' := by
    intro js hjs js'
    rw [replayJ_append, replayJ_skip F [] js hjs]; rfl
  have hwA : QsWF qsA := replayJ_wf F _ QsWF.nil hA
  by_cases hlt : a < J1.length
  · have hers : (J1 ++ J2).eraseIdx a = J1.eraseIdx a ++ J2 := List.eraseIdx_append_of_lt_length hlt J2
    refine ⟨qsA, ?_, hwA, ?_⟩
    · rw [hers, hskip _ (fun j hj => h1 j (List.mem_of_mem_eraseIdx hj)), ← hskip J1 h1]
      exact hA
    · intro name q hq r hr _
      obtain ⟨x, hx, hxq⟩ := hEq.symm.get_some hq
      refine ⟨x, hx, ?_⟩
      unfold Rec.plain; rw [← hxq.1]
      exact List.mem_map_of_mem (f := fun r : MRL.Rec => (r.pos, r.payload)) hr
  · have hge : J1.length ≤ a := by omega
    have hb : a - J1.length < J2.length := by simp at ha; omega
    have hsplit2 : J2 = J2.take (a - J1.length) ++ J2[a - J1.length] :: J2.drop (a - J1.length + 1) := by
      rw [← List.drop_eq_getElem_cons hb, List.take_append_drop]
    have hers : (J1 ++ J2).eraseIdx a = J1 ++ (J2.take (a - J1.length) ++ J2.drop (a - J1.length + 1)) := by
      rw [List.eraseIdx_append_of_length_le hge, List.eraseIdx_eq_take_drop_succ]
    have hget : (J1 ++ J2)[a] = J2[a - J1.length] := List.getElem_append_right hge
    generalize hP : J2.take (a - J1.length) = P at hsplit2 hers
    generalize hS : J2.drop (a - J1.length + 1) = S at hsplit2 hers
    generalize hx : J2[a - J1.length] = x at hsplit2 hget
    have h2P : ∀ j ∈ P, F ≤ j.loc := fun j hj => h2 j (by rw [hsplit2]; exact List.mem_append_left _ hj)
    have h2x : F ≤ x.loc := h2 x (by rw [hsplit2]; simp)
    have h2S : ∀ j ∈ S, F ≤ j.loc := fun j hj => h2 j (by rw [hsplit2]; simp [hj])
    rw [hsplit2] at hr2
    obtain ⟨L1, hrP, hrxS⟩ := C09R.run_split (c := Lf) P (x :: S) hr2
    cases hrxS with
    | @cons _ L2 _ _ _ hok hrx hrS =>
      obtain ⟨A1, B1, hA1, hB1, hI1⟩ := inv3_run (F := F) hrP h2P (C09R.inv3_nil (erasedOf x.e) x.e.queue Lk hwk)
      have hAB : B1 = A1 := by rw [hA1] at hB1; exact (Option.some.inj hB1).symm
      subst hAB
      obtain ⟨A2, hA2, hI2⟩ := inv3_erase (fA := max x.attr F) hok hrx hI1
      obtain ⟨A3, B3, hA3, hB3, hI3⟩ := inv3_run (F := F) hrS h2S hI2
      have hAfull : replayJ F [] (J1 ++ J2) = some A3 := by
        rw [hskip J1 h1, hsplit2, replayJ_append, hA1]
        simp only [Option.bind_some]
        rw [replayJ_cons_ge F B1 x S h2x, hA2]
        exact hA3
      rw [hA] at hAfull
      cases hAfull
      refine ⟨B3, ?_, hI3.2.2.1, ?_⟩
      · rw [hers, hskip J1 h1, replayJ_append, hA1]
        exact hB3
      · intro name q hq r hr hnot
        rw [hget] at hnot
        obtain ⟨xq, hxq, hxe⟩ := hEq.symm.get_some hq
        have hmem : (r.pos, r.payload) ∈ Rec.plain xq := by
          unfold Rec.plain
          rw [← hxe.1]
          exact List.mem_map_of_mem (f := fun r : MRL.Rec => (r.pos, r.payload)) hr
        have hT := hI3.2.2.2 name
        rw [hxq] at hT
        have hnotEr : (r.pos, r.payload) ∉ (if name = x.e.queue then erasedOf x.e else []) :=
          fun hin => hnot (C09R.mem_erasedOf hin)
        cases hB : B3.get? name with
        | none =>
          rw [hB] at hT
          exact absurd (hT.2 _ hmem) hnotEr
        | some y =>
          rw [hB] at hT
          exact ⟨y, rfl, hT.2.2 _ hmem hnotEr⟩

end MRL.LR
