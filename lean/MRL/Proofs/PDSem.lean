/-
Power loss with a lazy directory, generically (`PX.power_prefix` for `prunD`). For effects obeying
the discipline `PX.pd`, from a state in which everything is durable: as long as no `fsync(file)` has
made new content durable while unlinks were pending (`hard = false`), the image left by a power
loss after `n` effects, the first `u` pending unlinks being durable, is — for EVERY `u` — the
volatile image after some `q ≤ n` of the effects: an undone unlink just moves the instant back to
the unlink itself, because unlinks are issued only when everything is durable and nothing that
follows them (before the next `fsync(dir)`) is durable.
-/
import MRL.Proofs.PDBuf
import MRL.Proofs.PXSem

namespace MRL.PD
open MRL Buf H L P PX

/-! ### sorted listings -/

def SortedK (img : Image) : Prop := (img.map (·.1)).Pairwise (· < ·)

theorem insertFile_keys_sub : ∀ (img : Image) (f : Nat) (c : Bytes) (k : Nat),
    k ∈ (insertFile img f c).map (·.1) → k = f ∨ k ∈ img.map (·.1) := by
  intro img
  induction img with
  | nil => intro f c k h; simpa [insertFile] using h
  | cons a img ih =>
    intro f c k h
    obtain ⟨f', c'⟩ := a
    simp only [insertFile] at h
    split at h
    · simpa using h
    · split at h
      · exact Or.inr h
      · simp only [List.map_cons, List.mem_cons] at h ⊢
        rcases h with h | h
        · exact Or.inr (Or.inl h)
        · rcases ih f c k h with h | h
          · exact Or.inl h
          · exact Or.inr (Or.inr h)

theorem insertFile_sorted : ∀ (img : Image) (f : Nat) (c : Bytes), SortedK img → SortedK (insertFile img f c) := by
  intro img
  induction img with
  | nil => intro f c _; simp [SortedK, insertFile]
  | cons a img ih =>
    intro f c hs
    obtain ⟨f', c'⟩ := a
    unfold SortedK at hs ⊢
    simp only [List.map_cons, List.pairwise_cons] at hs
    simp only [insertFile]
    split
    · rename_i hlt
      simp only [List.map_cons, List.pairwise_cons, List.mem_cons]
      refine ⟨?_, hs⟩
      rintro k (rfl | hk)
      · exact hlt
      · exact Nat.lt_trans hlt (hs.1 k hk)
    · split
      · simp only [List.map_cons, List.pairwise_cons]; exact hs
      · rename_i h1 h2
        simp only [List.map_cons, List.pairwise_cons]
        refine ⟨?_, ih f c hs.2⟩
        intro k hk
        rcases insertFile_keys_sub img f c k hk with rfl | hk
        · omega
        · exact hs.1 k hk

theorem sorted_applyOs (img : Image) (op : OsOp) (h : SortedK img) : SortedK (applyOs img op) := by
  cases op with
  | write f off d => unfold SortedK; simp only [applyOs]; rw [mapFile_keys]; exact h
  | setLen f n => unfold SortedK; simp only [applyOs]; rw [mapFile_keys]; exact h
  | ensureLen f n => unfold SortedK; simp only [applyOs]; rw [mapFile_keys]; exact h
  | create f => exact insertFile_sorted img f [] h
  | unlink f =>
    unfold SortedK at h ⊢
    exact h.sublist (List.Sublist.map _ List.filter_sublist)
  | sync => exact h

theorem sorted_applyOsOps (ops : List OsOp) : ∀ img, SortedK img → SortedK (applyOsOps img ops) := by
  induction ops with
  | nil => intro img h; exact h
  | cons o ops ih => intro img h; exact ih _ (sorted_applyOs img o h)

theorem filter_no_key (V : Image) (f : Nat) (h : ∀ kv ∈ V, kv.1 ≠ f) : V.filter (fun x => x.1 != f) = V := by
  rw [List.filter_eq_self]
  intro kv hkv
  simpa using h kv hkv

/-- putting back the file that was removed -/
theorem putFile_filter : ∀ (V : Image) (f : Nat) (c : Bytes), SortedK V → (f, c) ∈ V →
    putFile (V.filter (fun x => x.1 != f)) f c = V := by
  intro V
  induction V with
  | nil => intro f c _ h; cases h
  | cons a V ih =>
    intro f c hs hm
    obtain ⟨f', c'⟩ := a
    unfold SortedK at hs
    simp only [List.map_cons, List.pairwise_cons] at hs
    have hgt : ∀ kv ∈ V, f' < kv.1 := fun kv hkv => hs.1 kv.1 (List.mem_map_of_mem (f := (·.1)) hkv)
    by_cases hf : f' = f
    · subst hf
      have hc : c' = c := by
        rcases List.mem_cons.mp hm with h | h
        · exact (Prod.mk.inj h).2.symm
        · have := hgt _ h; simp at this
      subst hc
      have hrest : V.filter (fun x => x.1 != f') = V :=
        filter_no_key V f' (fun kv hkv => Nat.ne_of_gt (hgt kv hkv))
      simp only [List.filter_cons, bne_self_eq_false, Bool.false_eq_true, if_false, hrest]
      cases V with
      | nil => rfl
      | cons b V' =>
        obtain ⟨f'', c''⟩ := b
        have : f' < f'' := hgt (f'', c'') List.mem_cons_self
        simp only [putFile, this, if_true]
    · have hm' : (f, c) ∈ V := by
        rcases List.mem_cons.mp hm with h | h
        · exact absurd (Prod.mk.inj h).1.symm hf
        · exact h
      have hlt : f' < f := hgt _ hm'
      have hne : (f' != f) = true := by simpa using hf
      simp only [List.filter_cons, hne, if_true, putFile]
      rw [if_neg (by omega), if_neg (by omega), ih f c hs.2 hm']

theorem lookupF_some_mem {m : List (Nat × Bytes)} {f : Nat} {c : Bytes} (h : lookupF m f = some c) : (f, c) ∈ m := by
  induction m with
  | nil => cases h
  | cons a m ih =>
    rw [lookupF_cons] at h
    split at h
    · rename_i he
      injection h with h
      rw [← he, ← h]; exact List.mem_cons_self
    · exact List.mem_cons_of_mem _ (ih h)

/-! ### one effect -/

/-- what one effect of the discipline does to the pending unlinks and to the power-loss image -/
inductive Outcome (d d' : DState) : Prop
  | reset : d'.und = [] → (d'.s.image = d'.s.vol ∨ d'.s.image = d.s.image) → Outcome d d'
  | same : d.hard = false → d'.und = d.und → d'.s.image = d.s.image → Outcome d d'
  | unl (f : Nat) (c : Bytes) : d.hard = false → d'.und = d.und ++ [(f, c)] → (f, c) ∈ d.s.vol → d.s.image = d.s.vol →
      d'.s.image = d'.s.vol → d'.s.vol = d.s.vol.filter (fun x => x.1 != f) → Outcome d d'

theorem prunD_directP_quiet (d : DState) (e : Effect) (he : isSyncE e = false) (hu : isUnl e = false) :
    prunD d (directP e) = { d with s := prun d.s (directP e) } := by
  rw [directP_nonsync e he]
  exact prunD_quiet _ (direct_quiet e he hu) d

theorem pinvD_step (fb : Nat) (hfb : 0 < fb) {σ σ' : PDX} {d : DState} {e : Effect} (h : PInvX σ d.s)
    (hp : PX.pd1 fb σ e = some σ') (hf0 : FullOrEmpty fb d.s.vol)
    (hf1 : FullOrEmpty fb (prun d.s (directP e)).vol)
    (hlate : ∀ f n, e = Effect.ensureLen f n → d.und = [] ∨ (prun d.s (directP e)).vol = d.s.vol)
    (hhard : (prunD d (directP e)).hard = false) : Outcome d (prunD d (directP e)) := by
  obtain ⟨hI', hdisj⟩ := PX.pinv_step fb hfb h hp hf0 hf1
  have hs' : (prunD d (directP e)).s = prun d.s (directP e) := prunD_s _ d
  cases e with
  | flush => exact Outcome.same hhard rfl rfl
  | listDir => exact Outcome.same hhard rfl rfl
  | openFile f => exact Outcome.same hhard rfl rfl
  | readBlock f => exact Outcome.same hhard rfl rfl
  | write f off dt =>
    have hq := prunD_directP_quiet d (.write f off dt) rfl rfl
    simp only [PX.pd1] at hp
    split at hp
    · rename_i hc
      obtain ⟨rfl, hd⟩ := hc
      refine Outcome.same (by rw [hq] at hhard; exact hhard) (by rw [hq]) ?_
      rw [hs', prun_directP_vol d.s _ rfl]
      rw [prun_directP_vol d.s _ rfl] at hf1
      simp only [direct, applyOsOps, List.foldl_cons, List.foldl_nil, applyOs] at hf1 ⊢
      apply PX.image_mapFile h
      intro hn kv hkv hw
      have hne : kv.2 ≠ [] := h.wrt (h.nw hn) kv hkv hw
      have h0 : kv.2.length = fb := by
        rcases hf0 kv hkv with h0 | h0
        · exact h0
        · exact absurd h0 hne
      have hm : (kv.1, overwrite kv.2 off dt) ∈ mapFile d.s.vol σ.wf (fun c => overwrite c off dt) := by
        unfold mapFile
        exact List.mem_map.mpr ⟨kv, hkv, by simp [hw]⟩
      rcases hf1 _ hm with h1 | h1
      · rw [h0]; exact h1
      · exact absurd h1 (overwrite_ne_nil _ off dt hd)
    · cases hp
  | setLen f n =>
    have hq := prunD_directP_quiet d (.setLen f n) rfl rfl
    simp only [PX.pd1] at hp
    split at hp
    · rename_i hc
      obtain ⟨rfl, hn, _⟩ := hc
      refine Outcome.same (by rw [hq] at hhard; exact hhard) (by rw [hq]) ?_
      rw [hs', prun_directP_vol d.s _ rfl]
      simp only [direct, applyOsOps, List.foldl_cons, List.foldl_nil, applyOs]
      apply PX.image_mapFile h
      intro hx; rw [hn] at hx; cases hx
    · cases hp
  | create f =>
    have hq := prunD_directP_quiet d (.create f) rfl rfl
    simp only [PX.pd1] at hp
    split at hp
    · rename_i hc
      obtain ⟨hd, hn, _, hlt, hnx⟩ := hc
      refine Outcome.same (by rw [hq] at hhard; exact hhard) (by rw [hq]) ?_
      rw [hs', prun_directP_vol d.s _ rfl]
      simp only [direct, applyOsOps, List.foldl_cons, List.foldl_nil, applyOs]
      have hle : ∀ kv ∈ d.s.vol, kv.1 ≤ σ.wf := by
        intro kv hkv
        rcases h.le_wf kv hkv with h1 | h1
        · exact h1
        · rw [hnx] at h1; cases h1
      have hfresh : f ∉ d.s.vol.map (·.1) := by
        intro hm
        obtain ⟨kv, hkv, rfl⟩ := List.mem_map.mp hm
        have := hle kv hkv
        omega
      have hnd : d.s.dirs.contains f = false := by
        cases hx : d.s.dirs.contains f with
        | false => rfl
        | true =>
          have : f ∈ d.s.dirs := by simpa using hx
          rcases h.dirs_le f this with h1 | h1
          · omega
          · rw [hnx] at h1; cases h1
      unfold PState.image
      simp only
      apply filterMap_insertFile _ _ _ _ hfresh
      simp only [hnd]
      rfl
    · cases hp
  | ensureLen f n =>
    have hq := prunD_directP_quiet d (.ensureLen f n) rfl rfl
    rcases hlate f n rfl with hu | hv
    · refine Outcome.reset (by rw [hq]; exact hu) ?_
      rw [hs']; exact hdisj
    · refine Outcome.same (by rw [hq] at hhard; exact hhard) (by rw [hq]) ?_
      rw [hs']
      have : prun d.s (directP (Effect.ensureLen f n)) = d.s := by
        rw [prun_directP_vol d.s _ rfl] at hv ⊢
        simp only at hv
        rw [hv]
      rw [this]
  | fsyncDir =>
    exact Outcome.reset rfl (by rw [hs']; exact hdisj)
  | fsyncFile f =>
    simp only [PX.pd1] at hp
    split at hp
    · rename_i hc
      obtain ⟨rfl, _⟩ := hc
      have hund : (prunD d (directP (Effect.fsyncFile σ.wf))).und = d.und := rfl
      have hhd : (prunD d (directP (Effect.fsyncFile σ.wf))).hard =
          (d.hard || (!d.und.isEmpty && (match lookupF d.s.vol σ.wf with
            | some c => lookupF d.s.dur σ.wf != some c
            | none => false))) := rfl
      rw [hhd] at hhard
      simp only [Bool.or_eq_false_iff, Bool.and_eq_false_iff] at hhard
      rcases hhard.2 with hu | hc
      · have hu' : d.und = [] := by simpa using hu
        exact Outcome.reset (by rw [hund]; exact hu') (by rw [hs']; exact hdisj)
      · refine Outcome.same hhard.1 hund ?_
        rw [hs']
        have hrun : prun d.s (directP (Effect.fsyncFile σ.wf)) = pstep d.s (.syncFile σ.wf) := rfl
        rw [hrun]
        cases hl : lookupF d.s.vol σ.wf with
        | none => simp only [pstep, hl]
        | some c =>
          rw [hl] at hc
          have hdur : lookupF d.s.dur σ.wf = some c := by simpa using hc
          have hS : pstep d.s (.syncFile σ.wf) = { d.s with dur := (σ.wf, c) :: d.s.dur } := by simp only [pstep, hl]
          rw [hS]
          unfold PState.image
          simp only
          apply filterMap_congr'
          intro kv _
          have hlk : lookupF ((σ.wf, c) :: d.s.dur) kv.1 = lookupF d.s.dur kv.1 := by
            rw [lookupF_cons]
            split
            · rename_i he
              simp only at he
              rw [← he, hdur]
            · rfl
          simp only [hlk]
    · cases hp
  | unlink f =>
    simp only [PX.pd1] at hp
    split at hp
    · rename_i hc
      obtain ⟨hlt, hd, hn, _⟩ := hc
      injection hp with hp
      subst hp
      have himg : d.s.image = d.s.vol := PX.image_alldur h hd hn
      have himg' : (prun d.s (directP (Effect.unlink f))).image = (prun d.s (directP (Effect.unlink f))).vol :=
        PX.image_alldur hI' hd hn
      have hvol' : (prun d.s (directP (Effect.unlink f))).vol = d.s.vol.filter (fun x => x.1 != f) := by
        rw [prun_directP_vol d.s _ rfl]; rfl
      have hstep : prunD d (directP (Effect.unlink f)) = pstepD d (.unlink f) := rfl
      have hkeep : (pstepD d (.unlink f)).hard = d.hard := by
        simp only [pstepD]
        split
        · split <;> rfl
        · rfl
      rw [hstep, hkeep] at hhard
      cases hl : lookupF d.s.vol f with
      | none =>
        have hund : (prunD d (directP (Effect.unlink f))).und = d.und := by
          rw [hstep]; simp only [pstepD, hl]
        have hnk : ∀ kv ∈ d.s.vol, kv.1 ≠ f := by
          intro kv hkv he
          have := lookupF_of_mem h.nodup hkv
          rw [he, hl] at this; cases this
        refine Outcome.same hhard hund ?_
        rw [hs', himg', hvol', filter_no_key _ _ hnk, himg]
      | some c =>
        have hmem := lookupF_some_mem hl
        have hold := h.old (f, c) hmem (by show f ≠ σ.wf; omega)
        have hund : (prunD d (directP (Effect.unlink f))).und = d.und ++ [(f, c)] := by
          rw [hstep]
          simp only [pstepD, hl, hold.1, if_true]
          have : lookupF d.s.dur f = some c := hold.2
          rw [this, Option.getD_some, fitLen_self]
        exact Outcome.unl f c hhard hund hmem himg (by rw [hs']; exact himg') (by rw [hs']; exact hvol')
    · cases hp

/-! ### the theorem -/

theorem image_nil (d : DState) (h : d.und = []) (u : Nat) : d.image u = d.s.image := by
  unfold DState.image; rw [h]; simp

/-- **power loss with a lazy directory after `n` effects = volatile image after `q ≤ n` effects,
    whatever the number `u` of pending unlinks that are durable** -/
theorem powerD_prefix (fb : Nat) (hfb : 0 < fb) (es : List Effect) (σ : PDX) (S : PState) (hI : PInvX σ S)
    (hd : σ.dirty = false) (hn : σ.named = true) (σe : PDX) (hpd : PX.pd fb σ es = some σe)
    (hfoe : ∀ i, i ≤ es.length → FullOrEmpty fb (applyOsOps S.vol (directOps (es.take i))))
    (hsort : SortedK S.vol)
    (hlate : ∀ i f n, es[i]? = some (Effect.ensureLen f n) →
      (prunD ⟨S, [], false⟩ (directOpsP (es.take i))).und = [] ∨
      applyOsOps S.vol (directOps (es.take (i + 1))) = applyOsOps S.vol (directOps (es.take i))) :
    ∀ n, n ≤ es.length → (prunD ⟨S, [], false⟩ (directOpsP (es.take n))).hard = false →
      ∀ u, ∃ q, q ≤ n ∧ (prunD ⟨S, [], false⟩ (directOpsP (es.take n))).image u =
        applyOsOps S.vol (directOps (es.take q)) := by
  intro n
  induction n with
  | zero =>
    intro _ _ u
    refine ⟨0, Nat.le_refl _, ?_⟩
    simp only [List.take_zero, directOpsP, directOps, List.flatMap_nil, prunD, List.foldl_nil, applyOsOps]
    rw [image_nil _ rfl]
    exact PX.image_alldur hI hd hn
  | succ n ih =>
    intro hle hhard u
    obtain ⟨e, he⟩ : ∃ e, es[n]? = some e := ⟨es[n], by simp [List.getElem?_eq_getElem (by omega : n < es.length)]⟩
    have htk := take_succ_get' he
    have hrunD : prunD ⟨S, [], false⟩ (directOpsP (es.take (n + 1))) =
        prunD (prunD ⟨S, [], false⟩ (directOpsP (es.take n))) (directP e) := by
      rw [htk, directOpsP_append, prunD_append]
      simp [directOpsP]
    generalize hdn : prunD ⟨S, [], false⟩ (directOpsP (es.take n)) = dn at *
    have hdns : dn.s = prun S (directOpsP (es.take n)) := by rw [← hdn]; exact prunD_s _ _
    -- the standard facts at `n` and `n + 1`
    obtain ⟨p, σn, hp, hpdn, hIn, himg⟩ := PX.power_prefix fb hfb es σ S hI hd hn σe hpd hfoe n (by omega)
    rw [← hdns] at hIn himg
    have hsplit : es = es.take n ++ e :: es.drop (n + 1) := split_at' he
    obtain ⟨σ1, hσ1⟩ : ∃ σ1, PX.pd1 fb σn e = some σ1 := by
      rw [hsplit, PX.pd_append, hpdn] at hpd
      simp only [Option.bind_some, PX.pd] at hpd
      cases h1 : PX.pd1 fb σn e with
      | none => rw [h1] at hpd; cases hpd
      | some σ1 => exact ⟨σ1, rfl⟩
    have hvoln : dn.s.vol = applyOsOps S.vol (directOps (es.take n)) := by rw [hdns]; exact prun_vol_direct _ _
    have hvol1 : (prun dn.s (directP e)).vol = applyOsOps S.vol (directOps (es.take (n + 1))) := by
      rw [hdns, ← prun_append]
      have : directOpsP (es.take n) ++ directP e = directOpsP (es.take (n + 1)) := by
        rw [htk, directOpsP_append]; simp [directOpsP]
      rw [this]; exact prun_vol_direct _ _
    have hf0 : FullOrEmpty fb dn.s.vol := by rw [hvoln]; exact hfoe n (by omega)
    have hf1 : FullOrEmpty fb (prun dn.s (directP e)).vol := by rw [hvol1]; exact hfoe (n + 1) hle
    have hsn : SortedK dn.s.vol := by rw [hvoln]; exact sorted_applyOsOps _ _ hsort
    rw [hrunD] at hhard ⊢
    have hout := pinvD_step fb hfb hIn hσ1 hf0 hf1
      (by
        intro f m hef
        rcases hlate n f m (by rw [he, hef]) with h1 | h1
        · left; rw [hdn] at h1; exact h1
        · right; rw [hvol1, hvoln]; exact h1)
      hhard
    cases hout with
    | reset hu hdisj =>
      rw [image_nil _ hu]
      rcases hdisj with h1 | h1
      · exact ⟨n + 1, Nat.le_refl _, by rw [h1, prunD_s, hvol1]⟩
      · exact ⟨p, by omega, by rw [h1]; exact himg⟩
    | same hhn hu hi =>
      obtain ⟨q, hq, hqi⟩ := ih (by omega) hhn u
      refine ⟨q, by omega, ?_⟩
      unfold DState.image at hqi ⊢
      rw [hu, hi]; exact hqi
    | unl f c hhn hu hmem hi hi' hv =>
      by_cases hule : u ≤ dn.und.length
      · -- the last unlink is undone: back to the state before it
        obtain ⟨q, hq, hqi⟩ := ih (by omega) hhn u
        refine ⟨q, by omega, ?_⟩
        unfold DState.image at hqi ⊢
        rw [hu, List.drop_append_of_le_length hule, List.foldr_append]
        simp only [List.foldr_cons, List.foldr_nil]
        rw [hi', hv, putFile_filter _ f c hsn hmem, ← hi]
        exact hqi
      · -- all the pending unlinks are durable
        refine ⟨n + 1, Nat.le_refl _, ?_⟩
        unfold DState.image
        rw [hu, List.drop_of_length_le (by simp; omega)]
        simp only [List.foldr_nil]
        rw [hi', prunD_s, hvol1]

end MRL.PD
