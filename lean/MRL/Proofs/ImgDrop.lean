/-
`C09R.C09_drop_one` for histories WITH restarts (`C01R.ReachD`): the journal of such a history
still replays, entry by entry (`Drop.Run`), through queues observationally equal to the in-memory
ones (a restart replaces the queues by equivalent ones), and the drop-one simulation goes through.
-/
import MRL.Props.C09Replay
import MRL.Props.C01Restart

namespace MRL.Img
open MRL Log C05 Rec Drop

theorem okEntry_congr {a b : MemQueues} (h : QsEquiv a b) {e : Entry} (ho : OkEntry a e) : OkEntry b e := by
  cases e with
  | append q pos recs =>
    obtain ⟨⟨z, hz⟩, hw⟩ := ho
    obtain ⟨y, hy, _⟩ := h.get_some hz
    exact ⟨⟨y, hy⟩, hw⟩
  | truncate q p =>
    obtain ⟨z, hz⟩ := ho
    obtain ⟨y, hy, _⟩ := h.get_some hz
    exact ⟨y, hy⟩
  | delete q p =>
    obtain ⟨z, hz⟩ := ho
    obtain ⟨y, hy, _⟩ := h.get_some hz
    exact ⟨y, hy⟩
  | touch q n =>
    rcases ho with ⟨hn, h0⟩ | ⟨z, hz, he, hnx⟩
    · exact Or.inl ⟨h.get_none hn, h0⟩
    · obtain ⟨y, hy, hxy⟩ := h.get_some hz
      exact Or.inr ⟨y, hy, by rw [← hxy.1]; exact he, by rw [← hxy.2]; exact hnx⟩

/-- a run transported to an equivalent start -/
theorem run_congr {a a' : MemQueues} {js : List JE} (h : Run a js a') : ∀ {b : MemQueues}, QsEquiv a b →
    QsWF a → QsWF b → ∃ b', Run b js b' ∧ QsEquiv a' b' ∧ QsWF b' := by
  induction h with
  | nil => intro b he _ hb; exact ⟨b, Run.nil, he, hb⟩
  | cons ho hr _ ih =>
    intro b he ha hb
    obtain ⟨b1, hb1, he1⟩ := replayEntry_congr he ha hb hr
    obtain ⟨b', hrun, he', hw'⟩ := ih he1 (replayEntry_wf ha hr) (replayEntry_wf hb hb1)
    exact ⟨b', Run.cons (okEntry_congr he ho) hb1 hrun, he', hw'⟩

/-- one call, as a run on the in-memory queues -/
theorem run_step (g : Geom) (l : Log) (hI : Inv l) (c : Call) (tick : Bool) (order : List Bytes) :
    Run l.queues (l.stepJ g c order) (l.step g c tick order).1.queues := by
  rcases step_shape g l hI c tick order with
    ⟨hj, hl⟩ | ⟨e, qs', hewf, hre, (⟨hj, hl⟩ | ⟨hj, hl⟩)⟩
  · rw [hj, hl]; exact Run.nil
  · have hok := step_ok g l c order e [] hewf hj
    rw [hj, hl]
    exact Run.cons hok hre Run.nil
  · have hok := step_ok g l c order e _ hewf hj
    have hInv' : Inv (l.step g c tick order).1 := (C05_refines g l hI c tick order).2.2
    rw [hl] at hInv'
    have hq' : (runGc g { (Log.writeEntry g l e).1 with queues := qs' } order).1.queues = qs' :=
      runGc_queues g _ order
    have hn : (qs'.map (·.1)).Nodup := by
      have := hInv'.1; rwa [hq'] at this
    have hgc := run_gc g { (Log.writeEntry g l e).1 with queues := qs' } order hn
    rw [hj, hl, hq']
    exact Run.cons hok hre hgc

/-- **the journal of a history with restarts** replays through queues equivalent to the in-memory
    ones -/
theorem reachD_run (g : Geom) (hB : g.B ≤ 65542) (cap : Nat) {l : Log} {J : List JE} {img : Image} {b : BufSt}
    (h : C01R.ReachD g cap l J img b) : (∀ j ∈ J, C07.WF j.e) →
    ∃ Lf, Run [] J Lf ∧ QsEquiv Lf l.queues ∧ QsWF Lf := by
  induction h with
  | init policy order r hr =>
    intro _
    have hinv := C01R.rinv_init g hB cap policy order r hr
    obtain ⟨qs, hrep, heq, _⟩ := hinv.c.jinv.rep
    simp only [replayJ, Option.some.injEq] at hrep
    subst hrep
    exact ⟨[], Run.nil, heq, QsWF.nil⟩
  | @step l J img b c tick order hreach ih =>
    intro hwf
    have hwf' := fun j hj => hwf j (List.mem_append_left _ hj)
    obtain ⟨Lf, hrun, heq, hw⟩ := ih hwf'
    have hI := (C01R.reach_rinv g hB cap hreach hwf').c.jinv.h.inv
    have hstep := run_step g l hI c tick order
    obtain ⟨Lf', hrun', heq', hw'⟩ := run_congr hstep heq.symm (QsWF.of_inv hI) hw
    exact ⟨Lf', hrun.append hrun', heq'.symm, hw'⟩
  | @reopen l J img b policy order lp e0 io r hreach hpre hrec ih =>
    intro hwf
    have hwf' := fun j hj => hwf j (List.mem_append_left _ hj)
    obtain ⟨Lf, hrun, heq, hw⟩ := ih hwf'
    have hr := C01R.reach_rinv g hB cap hreach hwf'
    obtain ⟨lp', io', r', hpre', hrec', hlog, _, hc, hq, _, _⟩ := G.recover_ok g hB hr.c hwf' policy order
    rw [hpre] at hpre'
    simp only [Except.ok.injEq, Prod.mk.injEq] at hpre'
    obtain ⟨rfl, _, _⟩ := hpre'
    rw [hrec] at hrec'
    simp only [Except.ok.injEq] at hrec'
    subst hrec'
    have hIlp := hc.jinv.h.inv
    have hgc := run_gc g lp order hIlp.1
    obtain ⟨Lf', hrun', heq', hw'⟩ := run_congr hgc (heq.trans hq.symm).symm (QsWF.of_inv hIlp) hw
    refine ⟨Lf', hrun.append hrun', ?_, hw'⟩
    rw [hlog, runGc_queues]
    exact heq'.symm

/-- the drop-one simulation, from a run of the whole journal and the intact replay -/
theorem drop_core (F : Nat) (J : List JE) (Lf qsA lq : MemQueues) (hrun : Run [] J Lf)
    (hmono : J.Pairwise (fun a b => a.loc ≤ b.loc)) (hA : replayJ F [] J = some qsA) (hEq : QsEquiv qsA lq)
    (a : Nat) (ha : a < J.length) :
    ∃ qs', replayJ F [] (J.eraseIdx a) = some qs' ∧ QsWF qs' ∧
      ∀ name q, lq.get? name = some q →
        ∀ r ∈ q.recs, ¬ C09R.RecordOf (J[a]) name r →
          ∃ q', qs'.get? name = some q' ∧ (r.pos, r.payload) ∈ plain q' := by
  obtain ⟨J1, J2, hJ, h1, h2⟩ := C09R.split_loc F J hmono
  subst hJ
  obtain ⟨Lk, hr1, hr2⟩ := C09R.run_split (c := Lf) J1 J2 hrun
  have hwk : QsWF Lk := C09R.run_wf hr1 QsWF.nil
  have hskip : ∀ js : List JE, (∀ j ∈ js, j.loc < F) → ∀ js', replayJ F [] (js ++ js') = replayJ F [] js' := by
    intro js hjs js'
    rw [replayJ_append, replayJ_skip F [] js hjs]; rfl
  have hwA : QsWF qsA := replayJ_wf F _ QsWF.nil hA
  by_cases hlt : a < J1.length
  · have hers : (J1 ++ J2).eraseIdx a = J1.eraseIdx a ++ J2 := List.eraseIdx_append_of_lt_length hlt J2
    refine ⟨qsA, ?_, hwA, ?_⟩
    · rw [hers, hskip _ (fun j hj => h1 j (List.mem_of_mem_eraseIdx hj)), ← hskip J1 h1]
      exact hA
    · intro name q hq r hr _
      obtain ⟨x, hx, hxq⟩ := hEq.symm.get_some hq
      refine ⟨x, hx, ?_⟩
      unfold plain; rw [← hxq.1]
      exact List.mem_map_of_mem (f := fun r : MRL.Rec => (r.pos, r.payload)) hr
  · have hge : J1.length ≤ a := by omega
    have hb : a - J1.length < J2.length := by simp at ha; omega
    have hsplit2 : J2 = J2.take (a - J1.length) ++ J2[a - J1.length] :: J2.drop (a - J1.length + 1) := by
      rw [← List.drop_eq_getElem_cons hb, List.take_append_drop]
    have hers : (J1 ++ J2).eraseIdx a = J1 ++ (J2.take (a - J1.length) ++ J2.drop (a - J1.length + 1)) := by
      rw [List.eraseIdx_append_of_length_le hge, List.eraseIdx_eq_take_drop_succ]
    have hget : (J1 ++ J2)[a] = J2[a - J1.length] := List.getElem_append_right hge
    generalize hP : J2.take (a - J1.length) = P at hsplit2 hers
    generalize hS : J2.drop (a - J1.length + 1) = S at hsplit2 hers
    generalize hx : J2[a - J1.length] = x at hsplit2 hget
    have h2P : ∀ j ∈ P, F ≤ j.loc := fun j hj => h2 j (by rw [hsplit2]; exact List.mem_append_left _ hj)
    have h2x : F ≤ x.loc := h2 x (by rw [hsplit2]; simp)
    have h2S : ∀ j ∈ S, F ≤ j.loc := fun j hj => h2 j (by rw [hsplit2]; simp [hj])
    rw [hsplit2] at hr2
    obtain ⟨L1, hrP, hrxS⟩ := C09R.run_split (c := Lf) P (x :: S) hr2
    cases hrxS with
    | @cons _ L2 _ _ _ hok hrx hrS =>
      obtain ⟨A1, B1, hA1, hB1, hI1⟩ := inv3_run (F := F) hrP h2P (C09R.inv3_nil (erasedOf x.e) x.e.queue Lk hwk)
      have hAB : B1 = A1 := by rw [hA1] at hB1; exact (Option.some.inj hB1).symm
      subst hAB
      obtain ⟨A2, hA2, hI2⟩ := inv3_erase (fA := max x.attr F) hok hrx hI1
      obtain ⟨A3, B3, hA3, hB3, hI3⟩ := inv3_run (F := F) hrS h2S hI2
      have hAfull : replayJ F [] (J1 ++ J2) = some A3 := by
        rw [hskip J1 h1, hsplit2, replayJ_append, hA1]
        simp only [Option.bind_some]
        rw [replayJ_cons_ge F B1 x S h2x, hA2]
        exact hA3
      rw [hA] at hAfull
      cases hAfull
      refine ⟨B3, ?_, hI3.2.2.1, ?_⟩
      · rw [hers, hskip J1 h1, replayJ_append, hA1]
        exact hB3
      · intro name q hq r hr hnot
        rw [hget] at hnot
        obtain ⟨xq, hxq, hxe⟩ := hEq.symm.get_some hq
        have hmem : (r.pos, r.payload) ∈ plain xq := by
          unfold plain
          rw [← hxe.1]
          exact List.mem_map_of_mem (f := fun r : MRL.Rec => (r.pos, r.payload)) hr
        have hT := hI3.2.2.2 name
        rw [hxq] at hT
        have hnotEr : (r.pos, r.payload) ∉ (if name = x.e.queue then erasedOf x.e else []) :=
          fun hin => hnot (C09R.mem_erasedOf hin)
        cases hB : B3.get? name with
        | none =>
          rw [hB] at hT
          exact absurd (hT.2 _ hmem) hnotEr
        | some y =>
          rw [hB] at hT
          exact ⟨y, rfl, hT.2.2 _ hmem hnotEr⟩

end MRL.Img
