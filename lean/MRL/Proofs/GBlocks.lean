/-
The block sequence `blocksOf` delivers for an image made of full-size files `F, F+1, …` is the
block sequence of the concatenated stream.
-/
import MRL.Proofs.GRead

namespace MRL.G
open MRL Codec Consts

theorem fileBlocks_eq (g : Geom) (f fc : Nat) (content : Bytes) : ∀ (n i : Nat),
    fileBlocks g f (content.drop (i * g.B)) fc i n =
      (List.range' i n).map fun i' =>
        (⟨f, i', (content.drop (i' * g.B)).take g.B, if i' = 0 then fc else 1⟩ : Blk)
  | 0, i => by simp [fileBlocks]
  | n + 1, i => by
    have h := fileBlocks_eq g f fc content n (i + 1)
    have e : (content.drop (i * g.B)).drop g.B = content.drop ((i + 1) * g.B) := by
      rw [List.drop_drop, Nat.add_mul, Nat.one_mul]
    simp only [fileBlocks, e, h, List.range'_succ, List.map_cons]

theorem fileBytes_div (g : Geom) : g.fileBytes / g.B = g.K := by
  unfold Geom.fileBytes
  exact Nat.mul_div_cancel_left _ (Nat.lt_trans (Nat.succ_pos _) g.hB)

/-- blocks of one full file inside the stream `pre ++ content ++ post` -/
theorem fileBlocks_stream (g : Geom) (F j : Nat) (pre content post : Bytes)
    (hpre : pre.length = j * g.fileBytes) (hc : content.length = g.fileBytes) :
    fileBlocks g (F + j) content 3 0 g.K = blksFrom g F (pre ++ content ++ post) (j * g.K) g.K := by
  have hB : 0 < g.B := Nat.lt_trans (Nat.succ_pos _) g.hB
  have h := fileBlocks_eq g (F + j) 3 content g.K 0
  simp only [Nat.zero_mul, List.drop_zero] at h
  rw [h]
  unfold blksFrom
  rw [List.range'_eq_map_range, List.range'_eq_map_range, List.map_map, List.map_map]
  apply List.map_congr_left
  intro i hi
  rw [List.mem_range] at hi
  simp only [Function.comp, Nat.zero_add, blkAt]
  have h1 : (j * g.K + i) / g.K = j := by
    rw [Nat.mul_comm, Nat.mul_add_div g.hK, Nat.div_eq_of_lt hi, Nat.add_zero]
  have h2 : (j * g.K + i) % g.K = i := by
    rw [Nat.mul_comm, Nat.mul_add_mod, Nat.mod_eq_of_lt hi]
  have hle : (i + 1) * g.B ≤ g.fileBytes := by
    unfold Geom.fileBytes; rw [Nat.mul_comm g.B g.K]; exact Nat.mul_le_mul_right _ hi
  have h3 : ((pre ++ content ++ post).drop ((j * g.K + i) * g.B)).take g.B =
      (content.drop (i * g.B)).take g.B := by
    have e : (j * g.K + i) * g.B = pre.length + i * g.B := by
      rw [hpre, Nat.add_mul]; unfold Geom.fileBytes; rw [Nat.mul_comm g.B g.K, Nat.mul_assoc]
    rw [e, List.append_assoc, ← List.drop_drop, List.drop_left' rfl, List.drop_append_of_le_length (by
      rw [hc]; rw [Nat.add_mul, Nat.one_mul] at hle; omega)]
    rw [List.take_append_of_le_length]
    rw [List.length_drop, hc]
    rw [Nat.add_mul, Nat.one_mul] at hle; omega
  rw [h1, h2, h3]

/-- `blocksOf` over full-size files -/
theorem blocksOf_imgOf (g : Geom) (F : Nat) : ∀ (cs : List Bytes) (j : Nat) (pre : Bytes),
    (∀ c ∈ cs, c.length = g.fileBytes) → pre.length = j * g.fileBytes →
    (blocksOf g (imgOf (F + j) cs) 1).1 = blksFrom g F (pre ++ cs.flatten) (j * g.K) (cs.length * g.K)
  | [], j, pre, _, _ => by simp [imgOf, blocksOf, blksFrom]
  | c :: cs, j, pre, hfull, hpre => by
    have hc : c.length = g.fileBytes := hfull c List.mem_cons_self
    have hn : ¬ (c.length / g.B = 0) := by
      rw [hc, fileBytes_div]; exact Nat.pos_iff_ne_zero.mp g.hK
    have ih := blocksOf_imgOf g F cs (j + 1) (pre ++ c)
      (fun c' hc' => hfull c' (List.mem_cons_of_mem _ hc'))
      (by rw [List.length_append, hpre, hc, Nat.add_mul, Nat.one_mul])
    have hK : ¬ (g.K = 0) := Nat.pos_iff_ne_zero.mp g.hK
    simp only [imgOf, blocksOf, hc, fileBytes_div, hK, if_false]
    have e1 : F + j + 1 = F + (j + 1) := by omega
    rw [e1]
    rcases hb : blocksOf g (imgOf (F + (j + 1)) cs) 1 with ⟨bs, trail⟩
    rw [hb] at ih
    simp only at ih ⊢
    rw [ih, fileBlocks_stream g F j pre c cs.flatten hpre hc]
    simp only [List.flatten_cons, List.append_assoc, List.length_cons]
    unfold blksFrom
    rw [← List.map_append]
    congr 1
    have e2 : (j + 1) * g.K = j * g.K + g.K := by rw [Nat.add_mul, Nat.one_mul]
    have e3 : (cs.length + 1) * g.K = g.K + cs.length * g.K := by
      rw [Nat.add_mul, Nat.one_mul, Nat.add_comm]
    rw [e2, e3, List.range'_append_1]

end MRL.G
