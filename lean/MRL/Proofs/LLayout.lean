/-
Prefixes of a layout, buffer-wise: after the first `j` buffers of the layout of some frames the
writer stands after a whole number `i` of frames, possibly after the padding that precedes the
next one. The bytes up to such a position are the layout of the first `i` frames and zeros.
-/
import MRL.Proofs.LTape
import MRL.Proofs.HTornScan
import MRL.Proofs.LItems

namespace MRL.L
open MRL Codec Consts G H Torn

theorem frameWrites_length (g : Geom) (c : Nat) (t : FrameType) (p : Bytes) :
    (g.B - c < 7 ∧ frameWrites g c t p = [zeros (g.B - c), encodeFrame t p]) ∨
    (¬ g.B - c < 7 ∧ frameWrites g c t p = [encodeFrame t p]) := by
  unfold frameWrites
  simp only [HEADER_LEN]
  by_cases h : g.B - c < 7
  · left; exact ⟨h, by rw [if_pos h]⟩
  · right; exact ⟨h, by rw [if_neg h]⟩

/-- where the writer stands after `j` buffers -/
theorem bufs_prefix (g : Geom) : ∀ (fs : List Frm) (p j : Nat), Fits g (p % g.B) fs →
    j ≤ (layoutBufs g (p % g.B) fs).length →
    ∃ i, i ≤ fs.length ∧ endPos g p (fs.take i) ≤ p + totalLen ((layoutBufs g (p % g.B) fs).take j) ∧
      p + totalLen ((layoutBufs g (p % g.B) fs).take j) ≤ hdrPos g (endPos g p (fs.take i)) := by
  intro fs
  induction fs with
  | nil =>
    intro p j _ _
    exact ⟨0, Nat.le_refl _, by simp [layoutBufs, endPos], by simp [layoutBufs, endPos, le_hdrPos]⟩
  | cons fr fs ih =>
    intro p j hf hj
    rw [Fits_pos_cons] at hf
    rw [layoutBufs_pos_cons g p fr fs hf.1] at hj ⊢
    have htot := totalLen_frameWrites g p fr.1 fr.2
    have hmB : p % g.B < g.B := Nat.mod_lt _ (by have := G.Bpos g; omega)
    by_cases hjk : (frameWrites g (p % g.B) fr.1 fr.2).length ≤ j
    · -- the whole frame is written
      rw [List.take_append, List.take_of_length_le hjk, totalLen_append, ← Nat.add_assoc, htot]
      obtain ⟨i, hi, h1, h2⟩ := ih (nextPos g p fr.2.length) (j - (frameWrites g (p % g.B) fr.1 fr.2).length) hf.2
        (by simp only [List.length_append] at hj; omega)
      exact ⟨i + 1, by simpa using hi, by simpa [endPos] using h1, by simpa [endPos] using h2⟩
    · -- inside the frame's buffers: nothing, or the padding
      refine ⟨0, Nat.zero_le _, ?_, ?_⟩
      · simp [endPos]
      · simp only [List.take_zero, endPos]
        rw [List.take_append_of_le_length (by omega)]
        rcases frameWrites_length g (p % g.B) fr.1 fr.2 with ⟨hp, hw⟩ | ⟨hp, hw⟩
        · rw [hw] at hjk ⊢
          have : j = 0 ∨ j = 1 := by simp at hjk; omega
          unfold hdrPos
          rw [if_pos hp]
          rcases this with rfl | rfl
          · simp
          · simp
        · rw [hw] at hjk ⊢
          have : j = 0 := by simp at hjk; omega
          subst this
          simpa using le_hdrPos g p

theorem take_zeros_append (a b : Nat) (X : Bytes) (h : b ≤ a) : (zeros a ++ X).take b = zeros b := by
  rw [List.take_append_of_le_length (by simpa using h), take_zeros, Nat.min_eq_left h]

/-- the bytes of a layout up to the end of a prefix of the frames (and of the padding that follows) -/
theorem layout_take_pad (g : Geom) (A Bf : List Frm) (hf : Fits g 0 (A ++ Bf)) (m : Nat)
    (h1 : endPos g 0 A ≤ m) (h2 : m ≤ hdrPos g (endPos g 0 A)) (h3 : m ≤ endPos g 0 (A ++ Bf)) :
    (layoutBufs g 0 (A ++ Bf)).flatten.take m =
      (layoutBufs g 0 A).flatten ++ zeros (m - endPos g 0 A) := by
  have hfA : Fits g 0 A := by rw [Fits_append] at hf; exact hf.1
  have hLA : (layoutBufs g 0 A).flatten.length = endPos g 0 A := layout0_len g A hfA
  by_cases hB : Bf = []
  · subst hB
    rw [List.append_nil] at h3 ⊢
    have : m = endPos g 0 A := by omega
    rw [this, ← hLA, List.take_length, Nat.sub_self]; simp [zeros]
  · rw [layoutBufs_append, List.flatten_append, List.take_append, hLA, List.take_of_length_le (by omega)]
    congr 1
    have hcur : endCursor g 0 A = endPos g 0 A % g.B := by
      have := endCursor_pos g A 0 (by rw [zero_mod]; exact hfA)
      rwa [zero_mod] at this
    rw [hcur, layout_hdrPos g _ Bf hB]
    exact take_zeros_append _ _ _ (by omega)

/-! ### the same for items -/

theorem endCursor_frs (g : Geom) (A : List AItm) (hf : Fits g 0 (frs A)) :
    endCursor g 0 (frs A) = endPos g 0 (frs A) % g.B := by
  have := endCursor_pos g (frs A) 0 (by rw [zero_mod]; exact hf)
  rwa [zero_mod] at this

theorem padLen_hdrPos (g : Geom) (p : Nat) : padLen g (hdrPos g p % g.B) = 0 := by
  have := hdrPos_room g p
  unfold padLen; simp only [HEADER_LEN]; rw [if_neg (by omega)]

/-- the bytes of a tape of items up to the end of a prefix of the items (and of the padding) -/
theorem flatJ_take_pad (g : Geom) (A Bi : List AItm) (hr : ∀ a ∈ A ++ Bi, RawLen a) (hf : Fits g 0 (frs (A ++ Bi)))
    (m : Nat) (h1 : endPos g 0 (frs A) ≤ m) (h2 : m ≤ hdrPos g (endPos g 0 (frs A)))
    (h3 : m ≤ endPos g 0 (frs (A ++ Bi))) :
    (flatJ g 0 (A ++ Bi)).take m = flatJ g 0 A ++ zeros (m - endPos g 0 (frs A)) := by
  have hfA : Fits g 0 (frs A) := by rw [frs_append, Fits_append] at hf; exact hf.1
  have hLA : (flatJ g 0 A).length = endPos g 0 (frs A) :=
    flatJ0_len g A (fun a ha => hr a (List.mem_append_left _ ha)) hfA
  by_cases hB : Bi = []
  · subst hB
    rw [List.append_nil] at h3 ⊢
    have : m = endPos g 0 (frs A) := by omega
    rw [this, ← hLA, List.take_length, Nat.sub_self]; simp [zeros]
  · rw [flatJ_append, List.take_append, hLA, List.take_of_length_le (by omega)]
    congr 1
    rw [endCursor_frs g A hfA, flatJ_hdrPos g _ Bi hB]
    exact take_zeros_append _ _ _ (by omega)

/-- … and up to a cut inside the slot of the next item -/
theorem flatJ_take_slot (g : Geom) (A : List AItm) (a : AItm) (Bi : List AItm) (hr : ∀ x ∈ A, RawLen x)
    (hfA : Fits g 0 (frs A)) (c : Nat) (hc : c ≤ (slot a).length) :
    (flatJ g 0 (A ++ a :: Bi)).take (hdrPos g (endPos g 0 (frs A)) + c) =
      flatJ g 0 A ++ zeros (hdrPos g (endPos g 0 (frs A)) - endPos g 0 (frs A)) ++ (slot a).take c := by
  have hLA : (flatJ g 0 A).length = endPos g 0 (frs A) := flatJ0_len g A hr hfA
  have hle := le_hdrPos g (endPos g 0 (frs A))
  rw [flatJ_append, List.take_append, hLA, List.take_of_length_le (by omega), List.append_assoc]
  congr 1
  rw [endCursor_frs g A hfA, flatJ_hdrPos g _ (a :: Bi) (by simp)]
  have e : hdrPos g (endPos g 0 (frs A)) + c - endPos g 0 (frs A) =
      (hdrPos g (endPos g 0 (frs A)) - endPos g 0 (frs A)) + c := by omega
  have hfl : flatJ g (hdrPos g (endPos g 0 (frs A)) % g.B) (a :: Bi) =
      slot a ++ flatJ g (frameEndCursor g (hdrPos g (endPos g 0 (frs A)) % g.B) a.1.2.2.length) Bi := by
    simp only [flatJ, padLen_hdrPos, zeros, List.replicate_zero, List.nil_append]
  rw [e, hfl, List.take_append, take_zeros, length_zeros, Nat.min_eq_right (by omega),
    Nat.add_sub_cancel_left, List.take_append_of_le_length hc]

end MRL.L
