/-
`MemQueue` operations against their specification counterparts, under the queue invariant
(records strictly sorted by position, all at or above `start`), stated with explicit hypotheses.
-/
import MRL.Proofs.QueueLemmas

namespace MRL
namespace MemQueue

/-- sortedness of the records, as a property of the list of positions -/
def Sorted (rs : List Rec) : Prop := rs.Pairwise (fun a b => a.pos < b.pos)

theorem dropLast_append_of_getLast? {α} {l : List α} {a : α} (h : l.getLast? = some a) :
    l.dropLast ++ [a] = l := by
  obtain ⟨ys, rfl⟩ := List.getLast?_eq_some_iff.mp h
  simp

theorem nextPosition_nil (s : Nat) : ({ start := s, recs := [] } : MemQueue).nextPosition = s := rfl

theorem nextPosition_append (s : Nat) (rs : List Rec) (r : Rec) :
    ({ start := s, recs := rs ++ [r] } : MemQueue).nextPosition = r.pos + 1 := by
  simp [nextPosition]

theorem lt_nextPosition (q : MemQueue) (hs : Sorted q.recs) :
    ∀ r ∈ q.recs, r.pos < q.nextPosition := by
  intro r hr
  unfold nextPosition
  cases hl : q.recs.getLast? with
  | none =>
    rw [List.getLast?_eq_none_iff] at hl
    rw [hl] at hr; cases hr
  | some last =>
    have hsplit := dropLast_append_of_getLast? hl
    simp only
    unfold Sorted at hs
    rw [← hsplit] at hs hr
    rw [List.pairwise_append] at hs
    rw [List.mem_append] at hr
    cases hr with
    | inl h => have := hs.2.2 r h last (by simp); omega
    | inr h => simp only [List.mem_singleton] at h; subst h; omega

theorem start_le_nextPosition (q : MemQueue) (hs : Sorted q.recs)
    (hst : ∀ r ∈ q.recs, q.start ≤ r.pos) : q.start ≤ q.nextPosition := by
  cases hr : q.recs with
  | nil => unfold nextPosition; simp [hr]
  | cons a rs =>
    have h1 := hst a (by simp [hr])
    have h2 := lt_nextPosition q hs a (by simp [hr])
    omega

theorem dropLastHandle_map (rs : List Rec) (f : Nat) :
    (dropLastHandle rs f).map (fun r => (r.pos, r.payload)) = rs.map (fun r => (r.pos, r.payload)) := by
  unfold dropLastHandle
  split
  · rename_i r hl
    split
    · have hsplit := dropLast_append_of_getLast? hl
      conv => rhs; rw [← hsplit]
      simp
    · rfl
  · rfl

theorem dropLastHandle_pos (rs : List Rec) (f : Nat) :
    (dropLastHandle rs f).map (·.pos) = rs.map (·.pos) := by
  have h := congrArg (List.map Prod.fst) (dropLastHandle_map rs f)
  simpa [List.map_map, Function.comp_def] using h

theorem sorted_iff_pos (rs : List Rec) : Sorted rs ↔ (rs.map (·.pos)).Pairwise (· < ·) := by
  unfold Sorted; rw [List.pairwise_map]

/-- `append_record` at or above the next position: succeeds, appends one record. -/
theorem appendRecord_spec (q : MemQueue) (file pos : Nat) (pl : Bytes)
    (hs : Sorted q.recs) (hst : ∀ r ∈ q.recs, q.start ≤ r.pos) (hp : q.nextPosition ≤ pos) :
    ∃ q', q.appendRecord file pos pl = some q' ∧
      q'.recs.map (fun r => (r.pos, r.payload)) = q.recs.map (fun r => (r.pos, r.payload)) ++ [(pos, pl)] ∧
      q'.nextPosition = pos + 1 ∧ Sorted q'.recs ∧ (∀ r ∈ q'.recs, q'.start ≤ r.pos) := by
  have hnlt : ¬ pos < q.nextPosition := by omega
  refine ⟨_, by simp only [appendRecord, hnlt, if_false]; rfl, ?_, ?_, ?_, ?_⟩
  · simp [dropLastHandle_map]
  · exact nextPosition_append _ _ _
  · rw [sorted_iff_pos]
    simp only [List.map_append, dropLastHandle_pos, List.map_cons, List.map_nil]
    rw [List.pairwise_append]
    refine ⟨(sorted_iff_pos _).mp hs, by simp, ?_⟩
    intro a ha b hb
    simp only [List.mem_singleton] at hb; subst hb
    simp only [List.mem_map] at ha
    obtain ⟨r, hr, rfl⟩ := ha
    have := lt_nextPosition q hs r hr; omega
  · have hsn := start_le_nextPosition q hs hst
    have hmem : ∀ r ∈ dropLastHandle q.recs file ++ [({ pos := pos, payload := pl, file := some file } : Rec)],
        r.pos ∈ q.recs.map (·.pos) ++ [pos] := by
      intro r hr
      rw [← dropLastHandle_pos q.recs file]
      have : r.pos ∈ (dropLastHandle q.recs file ++ [({ pos := pos, payload := pl, file := some file } : Rec)]).map (·.pos) :=
        List.mem_map_of_mem hr
      simpa using this
    intro r hr
    have h1 := hmem r hr
    simp only [List.mem_append, List.mem_map, List.mem_singleton] at h1
    simp only
    split
    · rcases h1 with ⟨r', hr', he⟩ | he
      · rename_i h0
        have := h0.2; simp only [List.isEmpty_iff] at this
        rw [this] at hr'; cases hr'
      · omega
    · rcases h1 with ⟨r', hr', he⟩ | he
      · have := hst r' hr'; omega
      · omega

end MemQueue

namespace Log

theorem numberFrom_length (pos : Nat) (pls : List Bytes) : (numberFrom pos pls).length = pls.length := by
  induction pls generalizing pos with
  | nil => rfl
  | cons p ps ih => simp [numberFrom, ih]

/-- `appendAll` of consecutively numbered payloads starting at or above the next position. -/
theorem appendAll_spec (file : Nat) (pls : List Bytes) : ∀ (mq : MemQueue) (pos : Nat),
    MemQueue.Sorted mq.recs → (∀ r ∈ mq.recs, mq.start ≤ r.pos) → mq.nextPosition ≤ pos →
    ∃ mq', appendAll mq file (numberFrom pos pls) = some mq' ∧
      mq'.recs.map (fun r => (r.pos, r.payload)) =
        mq.recs.map (fun r => (r.pos, r.payload)) ++ numberFrom pos pls ∧
      (pls ≠ [] → mq'.nextPosition = pos + pls.length) ∧
      MemQueue.Sorted mq'.recs ∧ (∀ r ∈ mq'.recs, mq'.start ≤ r.pos) := by
  induction pls with
  | nil =>
    intro mq pos hs hst _
    exact ⟨mq, rfl, by simp [numberFrom], by simp, hs, hst⟩
  | cons p ps ih =>
    intro mq pos hs hst hp
    obtain ⟨q1, h1, hr1, hn1, hs1, hst1⟩ := MemQueue.appendRecord_spec mq file pos p hs hst hp
    obtain ⟨q2, h2, hr2, hn2, hs2, hst2⟩ := ih q1 (pos + 1) hs1 hst1 (by omega)
    refine ⟨q2, ?_, ?_, ?_, hs2, hst2⟩
    · simp only [numberFrom, appendAll, h1, Option.bind_some]; exact h2
    · rw [hr2, hr1]; simp [numberFrom]
    · intro _
      cases ps with
      | nil =>
        simp only [numberFrom, appendAll, Option.some.injEq] at h2
        subst h2; simp [hn1]
      | cons p' ps' =>
        rw [hn2 (by simp)]; simp only [List.length_cons]; omega

end Log

namespace MemQueue

theorem getLast?_dropWhile {α} (P : α → Bool) (r : α) (hP : P r = false) : ∀ l : List α,
    l.getLast? = some r → (l.dropWhile P).getLast? = some r := by
  intro l
  induction l with
  | nil => intro h; cases h
  | cons a l ih =>
    intro h
    simp only [List.dropWhile_cons]
    split
    · rename_i hPa
      cases l with
      | nil =>
        simp only [List.getLast?_singleton, Option.some.injEq] at h
        subst h; rw [hP] at hPa; cases hPa
      | cons b l' =>
        rw [List.getLast?_cons_cons] at h
        exact ih h
    · exact h

theorem sorted_le_closed (rs : List Rec) (hs : Sorted rs) (p : Nat) :
    rs.Pairwise (fun a b => (decide (b.pos ≤ p)) = true → (decide (a.pos ≤ p)) = true) := by
  refine hs.imp ?_
  intro a b hab; simp only [decide_eq_true_eq]; omega

/-- `truncate_head(..=p)` against the specification. -/
theorem truncateHead_spec (q : MemQueue) (p : Nat)
    (hs : Sorted q.recs) (hst : ∀ r ∈ q.recs, q.start ≤ r.pos) :
    (q.truncateHead p).1.recs = q.recs.filter (fun r => p < r.pos) ∧
    (q.truncateHead p).1.nextPosition = max q.nextPosition (p + 1) ∧
    (q.truncateHead p).2 = (q.recs.filter (fun r => r.pos ≤ p)).length ∧
    Sorted (q.truncateHead p).1.recs ∧
    (∀ r ∈ (q.truncateHead p).1.recs, (q.truncateHead p).1.start ≤ r.pos) := by
  have hsn := start_le_nextPosition q hs hst
  have hlt := lt_nextPosition q hs
  unfold truncateHead
  split
  · rename_i h
    refine ⟨?_, ?_, ?_, hs, hst⟩
    · symm; rw [List.filter_eq_self]
      intro r hr; have := hst r hr; simp only [decide_eq_true_eq]; omega
    · simp only; omega
    · simp only; symm
      rw [List.length_eq_zero_iff, List.filter_eq_nil_iff]
      intro r hr; have := hst r hr; simp only [decide_eq_true_eq]; omega
  · rename_i h
    split
    · rename_i h2
      refine ⟨?_, ?_, ?_, ?_, ?_⟩
      · simp only; symm
        rw [List.filter_eq_nil_iff]
        intro r hr; have := hlt r hr; simp only [decide_eq_true_eq]; omega
      · simp only [nextPosition_nil]; omega
      · simp only; congr 1; symm
        rw [List.filter_eq_self]
        intro r hr; have := hlt r hr; simp only [decide_eq_true_eq]; omega
      · exact List.Pairwise.nil
      · intro r hr; cases hr
    · rename_i h2
      have hclosed := sorted_le_closed q.recs hs p
      have hdrop : q.recs.drop (q.recs.takeWhile (fun r => decide (r.pos ≤ p))).length
          = q.recs.filter (fun r => p < r.pos) := by
        rw [drop_takeWhile_length, dropWhile_eq_filter_of_pairwise _ _ hclosed]
        apply List.filter_congr
        intro r _
        by_cases h : r.pos ≤ p
        · have : ¬ p < r.pos := by omega
          simp [h, this]
        · have : p < r.pos := by omega
          simp [h, this]
      simp only
      refine ⟨hdrop, ?_, ?_, ?_, ?_⟩
      · rw [drop_takeWhile_length]
        have hne : q.nextPosition ≠ q.start := by omega
        unfold nextPosition at hne h2 ⊢
        cases hl : q.recs.getLast? with
        | none => rw [hl] at hne; exact absurd rfl hne
        | some last =>
          rw [hl] at h2; simp only at h2
          have := getLast?_dropWhile (fun r : Rec => decide (r.pos ≤ p)) last
            (by simp only [decide_eq_false_iff_not]; omega) q.recs hl
          simp only [this]; omega
      · rw [takeWhile_eq_filter_of_pairwise _ _ hclosed]
      · rw [hdrop]; exact hs.sublist List.filter_sublist
      · rw [hdrop]; intro r hr
        have := (List.mem_filter.mp hr).2
        simp only [decide_eq_true_eq] at this; omega

/-! ### `range` -/

theorem Bound.okHi_mono (hi : Bound) {a b : Nat} (h : a ≤ b) : hi.okHi b = true → hi.okHi a = true := by
  cases hi <;> simp [Bound.okHi] <;> omega

theorem Bound.okLo_mono (lo : Bound) {a b : Nat} (h : a ≤ b) : lo.okLo a = true → lo.okLo b = true := by
  cases lo <;> simp [Bound.okLo] <;> omega

theorem drop_takeWhile_filter {α} (G F : α → Bool) (l : List α)
    (hG : l.Pairwise (fun a b => G b = true → G a = true))
    (hF : l.Pairwise (fun a b => G a = false → F b = true → F a = true))
    (hFG : ∀ a ∈ l, F a = true → G a = false) :
    (l.drop (l.takeWhile G).length).takeWhile F = l.filter F := by
  rw [drop_takeWhile_length, dropWhile_eq_filter_of_pairwise _ _ hG]
  have hp : (l.filter (fun a => !G a)).Pairwise (fun a b => F b = true → F a = true) := by
    have h1 := hF.sublist (List.filter_sublist (p := fun a => !G a))
    refine List.Pairwise.imp_of_mem ?_ h1
    intro a b ha _ hab
    have := (List.mem_filter.mp ha).2
    simp only [Bool.not_eq_eq_eq_not, Bool.not_true] at this
    exact hab this
  rw [takeWhile_eq_filter_of_pairwise _ _ hp, List.filter_filter]
  apply List.filter_congr
  intro a ha
  cases hFa : F a
  · rfl
  · simp [hFG a ha hFa]

theorem range_recs (q : MemQueue) (hs : Sorted q.recs) (lo hi : Bound) :
    q.range lo hi =
      (q.recs.filter (fun r => lo.okLo r.pos && hi.okHi r.pos)).map (fun r => (r.pos, r.payload)) := by
  unfold range
  refine congrArg (List.map fun r : Rec => (r.pos, r.payload)) ?_
  cases lo with
  | unbounded =>
    simp only [List.drop_zero]
    apply takeWhile_eq_filter_of_pairwise
    refine hs.imp ?_
    intro a b hab
    simp only [Bound.okLo, Bool.true_and]
    exact Bound.okHi_mono hi (Nat.le_of_lt hab)
  | incl n =>
    simp only
    apply drop_takeWhile_filter (fun r : Rec => decide (r.pos < n))
    · refine hs.imp ?_
      intro a b hab; simp only [decide_eq_true_eq]; omega
    · refine hs.imp ?_
      intro a b hab ha
      simp only [Bound.okLo, Bool.and_eq_true, decide_eq_true_eq, decide_eq_false_iff_not] at ha ⊢
      intro ⟨_, h2⟩
      exact ⟨by omega, Bound.okHi_mono hi (Nat.le_of_lt hab) h2⟩
    · intro a _
      simp only [Bound.okLo, Bool.and_eq_true, decide_eq_true_eq, decide_eq_false_iff_not]
      intro ⟨h, _⟩; omega
  | excl n =>
    simp only
    apply drop_takeWhile_filter (fun r : Rec => decide (r.pos ≤ n))
    · refine hs.imp ?_
      intro a b hab; simp only [decide_eq_true_eq]; omega
    · refine hs.imp ?_
      intro a b hab ha
      simp only [Bound.okLo, Bool.and_eq_true, decide_eq_true_eq, decide_eq_false_iff_not] at ha ⊢
      intro ⟨_, h2⟩
      exact ⟨by omega, Bound.okHi_mono hi (Nat.le_of_lt hab) h2⟩
    · intro a _
      simp only [Bound.okLo, Bool.and_eq_true, decide_eq_true_eq, decide_eq_false_iff_not]
      intro ⟨h, _⟩; omega

end MemQueue
end MRL
