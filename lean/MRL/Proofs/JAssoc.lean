/-
Association lists keyed by queue name, generically in the value type, so that the same lookup
lemmas serve `MemQueues` and the ghost maps of `JGhost`. `MemQueues.get?/contains/set/remove`
are definitionally the generic operations.
-/
import MRL.Model.MemQueue

namespace MRL
namespace AL

variable {α β : Type}

def get? (l : List (Bytes × α)) (n : Bytes) : Option α := (l.find? (·.1 == n)).map (·.2)
def contains (l : List (Bytes × α)) (n : Bytes) : Bool := l.any (·.1 == n)
def remove (l : List (Bytes × α)) (n : Bytes) : List (Bytes × α) := l.filter (·.1 != n)
def set (l : List (Bytes × α)) (n : Bytes) (v : α) : List (Bytes × α) :=
  if l.any (·.1 == n) then l.map fun kv => if kv.1 == n then (n, v) else kv else l ++ [(n, v)]
def mapV (f : α → β) (l : List (Bytes × α)) : List (Bytes × β) := l.map fun kv => (kv.1, f kv.2)

theorem get?_nil (q : Bytes) : get? ([] : List (Bytes × α)) q = none := rfl

theorem get?_cons (kv : Bytes × α) (s : List (Bytes × α)) (q : Bytes) :
    get? (kv :: s) q = if kv.1 = q then some kv.2 else get? s q := by
  unfold get?
  simp only [List.find?_cons]
  by_cases h : kv.1 = q
  · simp [h]
  · have : (kv.1 == q) = false := by simpa using h
    simp [h, this]

theorem any_key_eq_false_iff (s : List (Bytes × α)) (q : Bytes) :
    s.any (·.1 == q) = false ↔ get? s q = none := by
  induction s with
  | nil => simp [get?_nil]
  | cons kv s ih =>
    rw [get?_cons, List.any_cons]
    by_cases h : kv.1 = q
    · simp [h]
    · have : (kv.1 == q) = false := by simpa using h
      simp [h, this, ih]

theorem contains_eq_isSome (s : List (Bytes × α)) (q : Bytes) : contains s q = (get? s q).isSome := by
  unfold contains
  cases h : get? s q with
  | none => exact (any_key_eq_false_iff s q).mpr h
  | some v =>
    cases h2 : s.any (·.1 == q) with
    | true => rfl
    | false => rw [any_key_eq_false_iff] at h2; rw [h2] at h; cases h

theorem get?_append_of_none (s t : List (Bytes × α)) (q : Bytes) (h : get? s q = none) :
    get? (s ++ t) q = get? t q := by
  induction s with
  | nil => rfl
  | cons kv s ih =>
    rw [get?_cons] at h
    rw [List.cons_append, get?_cons]
    split at h
    · cases h
    · rename_i hk; simp only [hk, if_false]; exact ih h

theorem get?_append_of_some (s t : List (Bytes × α)) (q : Bytes) (v : α) (h : get? s q = some v) :
    get? (s ++ t) q = some v := by
  induction s with
  | nil => cases h
  | cons kv s ih =>
    rw [get?_cons] at h
    rw [List.cons_append, get?_cons]
    split at h
    · rename_i hk; simp only [hk, if_true]; exact h
    · rename_i hk; simp only [hk, if_false]; exact ih h

theorem get?_map_replace_same (s : List (Bytes × α)) (q : Bytes) (v : α) (h : get? s q ≠ none) :
    get? (s.map fun kv => if kv.1 == q then (q, v) else kv) q = some v := by
  induction s with
  | nil => exact absurd rfl h
  | cons kv s ih =>
    rw [get?_cons] at h
    rw [List.map_cons, get?_cons]
    by_cases hk : kv.1 = q
    · simp [hk]
    · have hb : (kv.1 == q) = false := by simpa using hk
      simp only [hk, if_false] at h
      simp only [hb, Bool.false_eq_true, if_false, hk]
      exact ih h

theorem get?_map_replace_other (s : List (Bytes × α)) (q q' : Bytes) (v : α) (hne : q' ≠ q) :
    get? (s.map fun kv => if kv.1 == q then (q, v) else kv) q' = get? s q' := by
  induction s with
  | nil => rfl
  | cons kv s ih =>
    rw [List.map_cons, get?_cons, get?_cons, ih]
    by_cases hk : kv.1 = q
    · have hb : (kv.1 == q) = true := by simpa using hk
      have h1 : ¬ q = q' := fun h => hne h.symm
      have h2 : ¬ kv.1 = q' := by rw [hk]; exact h1
      simp only [hb, if_true, h1, h2, if_false]
    · have hb : (kv.1 == q) = false := by simpa using hk
      simp only [hb, Bool.false_eq_true, if_false]

theorem get?_set_same (s : List (Bytes × α)) (q : Bytes) (v : α) : get? (set s q v) q = some v := by
  unfold set
  split
  · rename_i h
    apply get?_map_replace_same
    intro hn
    rw [← any_key_eq_false_iff] at hn
    rw [hn] at h; cases h
  · rename_i h
    have hn : get? s q = none := by
      rw [← any_key_eq_false_iff]; exact Bool.eq_false_iff.mpr h
    rw [get?_append_of_none _ _ _ hn, get?_cons]
    simp

theorem get?_set_other (s : List (Bytes × α)) (q q' : Bytes) (v : α) (hne : q' ≠ q) :
    get? (set s q v) q' = get? s q' := by
  unfold set
  split
  · exact get?_map_replace_other s q q' v hne
  · cases hg : get? s q' with
    | none =>
      rw [get?_append_of_none _ _ _ hg, get?_cons]
      have : ¬ q = q' := fun h => hne h.symm
      simp [this, get?_nil]
    | some w => exact get?_append_of_some _ _ _ _ hg

theorem get?_remove_same (s : List (Bytes × α)) (q : Bytes) : get? (remove s q) q = none := by
  unfold remove
  induction s with
  | nil => rfl
  | cons kv s ih =>
    rw [List.filter_cons]
    by_cases hk : kv.1 = q
    · simp only [hk, bne_self_eq_false, Bool.false_eq_true, if_false]; exact ih
    · have hb : (kv.1 != q) = true := by simpa using hk
      simp only [hb, if_true, get?_cons, hk, if_false]; exact ih

theorem get?_remove_other (s : List (Bytes × α)) (q q' : Bytes) (hne : q' ≠ q) :
    get? (remove s q) q' = get? s q' := by
  unfold remove
  induction s with
  | nil => rfl
  | cons kv s ih =>
    rw [List.filter_cons, get?_cons]
    by_cases hk : kv.1 = q
    · have h2 : ¬ kv.1 = q' := by rw [hk]; exact fun h => hne h.symm
      simp only [hk, bne_self_eq_false, Bool.false_eq_true, if_false]
      rw [hk] at h2; simp only [h2, if_false]; exact ih
    · have hb : (kv.1 != q) = true := by simpa using hk
      simp only [hb, if_true, get?_cons, ih]

theorem get?_mem {s : List (Bytes × α)} {n : Bytes} {v : α} (h : get? s n = some v) : (n, v) ∈ s := by
  induction s with
  | nil => cases h
  | cons kv s ih =>
    rw [get?_cons] at h
    split at h
    · rename_i hk
      cases h
      have : kv = (n, kv.2) := by rw [← hk]
      rw [← this]; exact List.mem_cons_self
    · exact List.mem_cons_of_mem _ (ih h)

theorem get?_of_mem_nodup {s : List (Bytes × α)} (hn : (s.map (·.1)).Nodup) {n : Bytes} {v : α}
    (h : (n, v) ∈ s) : get? s n = some v := by
  induction s with
  | nil => cases h
  | cons kv s ih =>
    rw [List.map_cons, List.nodup_cons] at hn
    rw [get?_cons]
    rcases List.mem_cons.mp h with h | h
    · subst h; simp
    · have : kv.1 ≠ n := by
        intro e
        apply hn.1
        rw [e]
        exact List.mem_map_of_mem (f := (·.1)) h
      simp only [this, if_false]
      exact ih hn.2 h

/-! #### `mapV` commutes with everything -/

theorem get?_mapV (f : α → β) (s : List (Bytes × α)) (n : Bytes) :
    get? (mapV f s) n = (get? s n).map f := by
  induction s with
  | nil => rfl
  | cons kv s ih =>
    show get? ((kv.1, f kv.2) :: mapV f s) n = _
    rw [get?_cons, get?_cons, ih]
    split <;> rfl

theorem any_mapV (f : α → β) (s : List (Bytes × α)) (n : Bytes) :
    (mapV f s).any (·.1 == n) = s.any (·.1 == n) := by
  simp [mapV, List.any_map, Function.comp_def]

theorem contains_mapV (f : α → β) (s : List (Bytes × α)) (n : Bytes) :
    contains (mapV f s) n = contains s n := any_mapV f s n

theorem set_mapV (f : α → β) (s : List (Bytes × α)) (n : Bytes) (v : α) :
    mapV f (set s n v) = set (mapV f s) n (f v) := by
  unfold set
  rw [any_mapV]
  split
  · simp only [mapV, List.map_map]
    apply List.map_congr_left
    intro kv _
    simp only [Function.comp]
    split <;> rfl
  · simp [mapV]

theorem remove_mapV (f : α → β) (s : List (Bytes × α)) (n : Bytes) :
    mapV f (remove s n) = remove (mapV f s) n := by
  unfold remove mapV
  rw [List.filter_map]
  rfl

end AL

/-! ### `MemQueues` instances -/
namespace MemQueues

theorem get?_eq (qs : MemQueues) (n : Bytes) : qs.get? n = AL.get? qs n := rfl
theorem contains_eq (qs : MemQueues) (n : Bytes) : qs.contains n = AL.contains qs n := rfl
theorem set_eq (qs : MemQueues) (n : Bytes) (q : MemQueue) : qs.set n q = AL.set qs n q := rfl
theorem remove_eq (qs : MemQueues) (n : Bytes) : qs.remove n = AL.remove qs n := rfl

theorem get?_set_same (qs : MemQueues) (n : Bytes) (q : MemQueue) : (qs.set n q).get? n = some q :=
  AL.get?_set_same qs n q
theorem get?_set_other (qs : MemQueues) (n n' : Bytes) (q : MemQueue) (h : n' ≠ n) :
    (qs.set n q).get? n' = qs.get? n' := AL.get?_set_other qs n n' q h
theorem get?_remove_same (qs : MemQueues) (n : Bytes) : (qs.remove n).get? n = none :=
  AL.get?_remove_same qs n
theorem get?_remove_other (qs : MemQueues) (n n' : Bytes) (h : n' ≠ n) :
    (qs.remove n).get? n' = qs.get? n' := AL.get?_remove_other qs n n' h
theorem contains_isSome (qs : MemQueues) (n : Bytes) : qs.contains n = (qs.get? n).isSome :=
  AL.contains_eq_isSome qs n

/-- after `ack_position name p` the queue `name` is exactly the empty queue at `p` -/
theorem get?_ackPosition_same (qs : MemQueues) (n : Bytes) (p : Nat) :
    (qs.ackPosition n p).get? n = some (MemQueue.withNextPosition p) := by
  unfold ackPosition
  split
  · rename_i q hq
    split
    · exact get?_set_same _ _ _
    · rename_i hc
      rw [hq]
      simp only [Bool.or_eq_true, Bool.not_eq_eq_eq_not, Bool.not_true, bne_iff_ne, ne_eq, not_or,
        Bool.not_eq_false, Decidable.not_not] at hc
      obtain ⟨h1, h2⟩ := hc
      congr 1
      cases q with
      | mk start recs =>
        simp only [MemQueue.isEmpty, List.isEmpty_iff] at h1
        subst h1
        simp only [MemQueue.nextPosition, List.getLast?_nil] at h2
        subst h2
        rfl
  · exact get?_set_same _ _ _

theorem get?_ackPosition_other (qs : MemQueues) (n n' : Bytes) (p : Nat) (h : n' ≠ n) :
    (qs.ackPosition n p).get? n' = qs.get? n' := by
  unfold ackPosition
  split
  · split
    · exact get?_set_other _ _ _ _ h
    · rfl
  · exact get?_set_other _ _ _ _ h

end MemQueues
end MRL
