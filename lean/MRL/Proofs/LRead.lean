/-
Reading a `DiskX` disk: `recoverPre` succeeds; the recovered log satisfies the relaxed invariant
(with explicit witnesses) for the journal re-attributed the way the reader attributes the
entries; its queues are the replay of the old journal up to the file handles.
-/
import MRL.Proofs.LCut
import MRL.Proofs.GReadLog
import MRL.Proofs.RecReplay

namespace MRL.L
open MRL Codec Consts G H Log Buf

theorem All2.map_right {α β γ : Type} {R : α → γ → Prop} (f : β → γ) : ∀ {l1 : List α} {l2 : List β},
    All2 (fun a b => R a (f b)) l1 l2 → All2 R l1 (l2.map f) := by
  intro l1 l2 h
  induction h with
  | nil => exact All2.nil
  | cons hab _ ih => exact All2.cons hab ih

theorem All2.map_left {α β γ : Type} {R : γ → β → Prop} (f : α → γ) : ∀ {l1 : List α} {l2 : List β},
    All2 R (l1.map f) l2 → All2 (fun a b => R (f a) b) l1 l2 := by
  intro l1
  induction l1 with
  | nil => intro l2 h; cases h; exact All2.nil
  | cons a l1 ih =>
    intro l2 h
    cases h with
    | cons hab htl => exact All2.cons hab (ih htl)

theorem All2.imp {α β : Type} {R S : α → β → Prop} (hRS : ∀ a b, R a b → S a b) {l1 : List α} {l2 : List β}
    (h : All2 R l1 l2) : All2 S l1 l2 := by
  induction h with
  | nil => exact All2.nil
  | cons hab _ ih => exact All2.cons (hRS _ _ hab) ih

theorem All2.mem_left {α β : Type} {R : α → β → Prop} {l1 : List α} {l2 : List β} (h : All2 R l1 l2) :
    ∀ a ∈ l1, ∃ b ∈ l2, R a b := by
  induction h with
  | nil => intro a ha; cases ha
  | cons hab _ ih =>
    intro a ha
    rcases List.mem_cons.mp ha with rfl | ha
    · exact ⟨_, List.mem_cons_self, hab⟩
    · obtain ⟨b, hb, hr⟩ := ih a ha
      exact ⟨b, List.mem_cons_of_mem _ hb, hr⟩

theorem xtra_map_keys (x : Bool) (f : Nat) : (xtra x f).map (·.1) = if x then [f] else [] := by
  cases x <;> rfl

/-- `recoverPre` from the scan of the stream -/
theorem recoverPre_scanX (g : Geom) (F : Nat) (cs : List Bytes) (hne : cs ≠ [])
    (hfull : ∀ c ∈ cs, c.length = g.fileBytes) (x : Bool) (X : Image)
    (hX : X = imgOf F cs ++ xtra x (F + cs.length)) (policy : Policy)
    (evs : List RdEv) (e : EndPos) (qs : MemQueues)
    (hscan : scanAt g F cs.flatten (cs.length * g.K) 0 0 = (evs, e))
    (hreplay : replay [] (assemble { within := false, buf := [], attr := F } evs) = some qs) :
    ∃ io, recoverPre g X policy none =
      .ok (⟨X.map (·.1), e.file, e.idx * g.B + e.cursor, qs, policy⟩, [.ensureLen F g.fileBytes], io) := by
  obtain ⟨c0, cs', hcs⟩ : ∃ c0 cs', cs = c0 :: cs' := by
    cases cs with
    | nil => exact absurd rfl hne
    | cons c0 cs' => exact ⟨c0, cs', rfl⟩
  have hc0 : c0.length = g.fileBytes := hfull c0 (by rw [hcs]; exact List.mem_cons_self)
  have hBle := B_le_fileBytes g
  have hprep : prepareImage g X = (X, [.ensureLen F g.fileBytes]) := by
    rw [hX, hcs]
    simp only [imgOf, List.cons_append, prepareImage]
    rw [if_neg (by omega)]
  have hblocks : (blocksOf g X 1).1 = blksFrom g F cs.flatten 0 (cs.length * g.K) := by
    have h0 := blocksOf_imgOf g F cs 0 [] hfull (by simp)
    simp only [Nat.add_zero, List.nil_append, Nat.zero_mul] at h0
    rw [hX]
    cases x
    · simpa [xtra] using h0
    · simp only [xtra, if_true]
      rw [blocksOf_snoc_empty]; exact h0
  have hNpos : 0 < cs.length * g.K := by
    rw [hcs]; exact Nat.mul_pos (Nat.succ_pos _) g.hK
  obtain ⟨m, hm⟩ : ∃ m, cs.length * g.K = m + 1 := ⟨cs.length * g.K - 1, by omega⟩
  rcases hbo : blocksOf g X 1 with ⟨bs, trail⟩
  rw [hbo] at hblocks
  simp only at hblocks
  rw [hm, blksFrom_succ] at hblocks
  have hbo' : blocksOf g (prepareImage g X).1 1 =
      (blkAt g F cs.flatten 0 :: blksFrom g F cs.flatten 1 m, trail) := by
    rw [hprep, hbo, hblocks]
  unfold scanAt at hscan
  have hm1 : cs.length * g.K - (0 + 1) = m := by omega
  rw [hm1] at hscan
  obtain ⟨io', hio⟩ := scanBlocks_eq_scanB g trail (blkAt g F cs.flatten 0).cost (blkAt g F cs.flatten 0) 0
    (blksFrom g F cs.flatten 1 m)
  rw [hscan] at hio
  have hb0 : (blkAt g F cs.flatten 0).file = F := by simp [blkAt]
  refine ⟨io', ?_⟩
  rw [Rec.recoverPre_cons g X policy none _ _ trail hbo', hio]
  simp only [ioFails, Bool.false_eq_true, if_false, Rec.finishPre, hb0, hreplay, hprep]

/-- reassembling the frames of a `SegsX` tape read from its first file -/
theorem asm_segsX (g : Geom) (F : Nat) (afs : List TFrm) (htag : Tagged g F 0 afs)
    (lead : List TFrm) (gs : List Grp) (hafs : afs = lead ++ gs.flatMap (·.2))
    (hlead : ∀ a ∈ lead, a.2.1.isFirst = false) (hok : ∀ y ∈ gs, GrpOK y) (tail : List RdEv) :
    ∃ (gs' : List Grp) (st' : AsmSt), gs'.flatMap (·.2) = gs.flatMap (·.2) ∧ (∀ y ∈ gs', GrpOK y) ∧
      All2 (ReAttr F) ((liveOf gs').map (·.1)) (liveOf gs) ∧
      assemble { within := false, buf := [], attr := F } (evsOf afs ++ tail) =
        entriesEv ((liveOf gs').map (·.1)) ++ assemble st' tail := by
  have hmono := tags_mono g F afs 0 htag
  rw [hafs] at hmono
  have hmono2 := (List.pairwise_append.mp hmono).2.1
  obtain ⟨gs', st', g1, g2, g3, g4⟩ := asm_groups F gs { within := false, buf := [], attr := F } tail hok hmono2
    (by
      intro a ha
      obtain ⟨h, _, _, h3⟩ := tag_pos g F afs 0 htag a (by rw [hafs]; exact List.mem_append_right _ ha)
      show F ≤ a.1
      rw [h3]; exact Nat.le_add_right _ _)
    (Nat.le_refl _)
  refine ⟨gs', st', g1, g2, g3, ?_⟩
  rw [hafs, evsOf_append, List.append_assoc, assemble_lead _ rfl lead _ hlead, g4]

theorem drop_append_ge {α : Type} (A B : List α) (n : Nat) (h : A.length ≤ n) :
    (A ++ B).drop n = B.drop (n - A.length) := by
  rw [List.drop_append, List.drop_of_length_le h, List.nil_append]

theorem take_append_ge {α : Type} (A B : List α) (n : Nat) (h : A.length ≤ n) :
    (A ++ B).take n = A ++ B.take (n - A.length) := by
  rw [List.take_append, List.take_of_length_le h]

/-- **reading a `DiskX` disk** -/
theorem read_diskX (g : Geom) (hB : g.B ≤ 65542) {X : Image} {F : Nat} {J : List JE}
    (hd : DiskX g X F J) (hwf : ∀ j ∈ J, C07.WF j.e) (qs : MemQueues)
    (hrep : replayJ F [] J = some qs) (policy : Policy) :
    ∃ (J' : List JE) (lp : Log) (io : Nat) (init : List Bytes) (t : Bytes) (x : Bool) (afs lead : List TFrm)
      (gs' : List Grp),
      recoverPre g X policy none = .ok (lp, [.ensureLen F g.fileBytes], io) ∧
      XInvX g lp X F J' init t x afs lead gs' ∧
      replayJ F [] J' = some lp.queues ∧ AbsEq qs lp.queues ∧ lp.policy = policy ∧
      All2 (fun a b : JE => a.e = b.e ∧ a.loc = b.loc ∧ F ≤ a.attr ∧ a.attr ≤ a.loc) J'
        (J.filter fun j => decide (F ≤ j.loc)) ∧
      (∀ j ∈ J', j.loc ≤ lp.cur) := by
  have hB7 := Bpos g
  have hfb := fileBytes_pos g
  obtain ⟨cs, x, afs, hne, hfull, ⟨z, hflat⟩, hX, hlast, hfits, htag, lead, gs, hafs, hlead, hmap, hok⟩ := hd
  have hE : (layoutBufs g 0 (untag afs)).flatten.length = endPos g 0 (untag afs) := layout0_len g _ hfits
  have hSlen : cs.flatten.length = cs.length * g.K * g.B := by
    rw [flatten_length_full _ _ hfull, mul_fb]
  have hNpos : 0 < cs.length * g.K :=
    Nat.mul_pos (List.length_pos_iff.mpr hne) g.hK
  have hEz : endPos g 0 (untag afs) + z = cs.length * g.K * g.B := by
    have := congrArg List.length hflat
    rw [hSlen, List.length_append, hE, length_zeros] at this
    omega
  -- the scan
  obtain ⟨e, hscan, hend⟩ := readS_layout g hB F cs.flatten (cs.length * g.K) hSlen (untag afs) 0 0 z
    hNpos (by omega) hfits (by simpa using hflat)
  simp only [Nat.zero_mul, Nat.zero_add] at hscan hend
  rw [tagFrom_of_Tagged g F afs 0 htag] at hscan
  have hscan' : scanAt g F cs.flatten (cs.length * g.K) 0 0 = (evsOf afs, e) := hscan
  -- reassembly
  obtain ⟨gs', st', g1, g2, g3, g4⟩ := asm_segsX g F afs htag lead gs hafs hlead hok []
  simp only [List.append_nil, assemble] at g4
  -- the re-attributed journal
  have hJ'rel : All2 (fun a b : JE => a.e = b.e ∧ a.loc = b.loc ∧ F ≤ a.attr ∧ a.attr ≤ a.loc)
      ((liveOf gs').map (·.1)) (J.filter fun j => decide (F ≤ j.loc)) := by
    rw [← hmap]
    exact All2.map_right (R := fun a b : JE => a.e = b.e ∧ a.loc = b.loc ∧ F ≤ a.attr ∧ a.attr ≤ a.loc)
      (fun s : Seg => s.1) (g3.imp (fun a b hab => hab))
  have hJ'wf : ∀ j ∈ (liveOf gs').map (·.1), C07.WF j.e ∧ F ≤ j.attr ∧ j.attr ≤ j.loc := by
    intro j hj
    obtain ⟨b, hb, h1, _, h3, h4⟩ := hJ'rel.mem_left j hj
    exact ⟨by rw [h1]; exact hwf b (List.mem_filter.mp hb).1, h3, h4⟩
  have hrepl : replay [] (entriesEv ((liveOf gs').map (·.1))) = replayJ F [] ((liveOf gs').map (·.1)) :=
    replay_entriesEv F _ [] hJ'wf
  obtain ⟨r1, hr1, hab⟩ := replayJ_abs F ((liveOf gs').map (·.1)) (J.filter fun j => decide (F ≤ j.loc)) [] [] qs
    (hJ'rel.imp (fun a b h => h.1))
    (fun j hj => by have := hJ'wf j hj; omega)
    (fun j hj => by simpa using (List.mem_filter.mp hj).2)
    (AbsEq.refl _) QsWF.nil QsWF.nil (by rw [← replayJ_filter]; exact hrep)
  obtain ⟨io, hrec⟩ := recoverPre_scanX g F cs hne hfull x X hX policy _ e r1 hscan' (by rw [g4, hrepl, hr1])
  -- the reader's end position
  obtain ⟨ke, ce, he, hke, hce, hW⟩ := hend
  have htot : totalLen (layoutBufs g 0 (untag afs)) = endPos g 0 (untag afs) := by rw [totalLen_eq, hE]
  rw [htot] at hW
  have hhle := le_hdrPos g (endPos g 0 (untag afs))
  obtain ⟨a, ha⟩ : ∃ a, cs.length = a + 1 := ⟨cs.length - 1, by have := List.length_pos_iff.mpr hne; omega⟩
  have hNB : cs.length * g.K * g.B = (a + 1) * g.fileBytes := by rw [ha, mul_fb]
  have hBfb := B_le_fileBytes g
  rw [ha, Nat.add_sub_cancel] at hlast
  have hWfacts : endPos g 0 (untag afs) ≤ ke * g.B + ce ∧ a * g.fileBytes ≤ ke * g.B + ce ∧
      ke * g.B + ce ≤ (a + 1) * g.fileBytes ∧
      (ke * g.B + ce = endPos g 0 (untag afs) ∨ ke * g.B + ce = hdrPos g (endPos g 0 (untag afs))) := by
    rw [hW]
    by_cases hc : g.B - endPos g 0 (untag afs) % g.B < 7 ∧
        hdrPos g (endPos g 0 (untag afs)) < cs.length * g.K * g.B
    · rw [if_pos hc]
      exact ⟨hhle, hlast, by omega, Or.inr rfl⟩
    · rw [if_neg hc]
      refine ⟨Nat.le_refl _, ?_, by omega, Or.inl rfl⟩
      by_cases h7 : g.B - endPos g 0 (untag afs) % g.B < 7
      · have hge : cs.length * g.K * g.B ≤ hdrPos g (endPos g 0 (untag afs)) := by
          apply Classical.byContradiction
          intro hn; exact hc ⟨h7, by omega⟩
        have hmod : endPos g 0 (untag afs) % g.B < g.B := Nat.mod_lt _ (by omega)
        unfold hdrPos at hge
        rw [if_pos h7] at hge
        rw [Nat.add_mul, Nat.one_mul] at hNB
        omega
      · have : hdrPos g (endPos g 0 (untag afs)) = endPos g 0 (untag afs) := by
          unfold hdrPos; rw [if_neg h7]
        omega
  obtain ⟨hW0, hW1, hW2, hW3⟩ := hWfacts
  have hke' : ke < (a + 1) * g.K := by rw [← ha]; exact hke
  have hce' : ce < g.B ∨ (ce = g.B ∧ ke + 1 = (a + 1) * g.K) := by rw [← ha]; exact hce
  obtain ⟨hcur, hoff⟩ := end_decomp g a (ke * g.B + ce) ke ce hW1 hW2 hke' hce' rfl
  -- the chunks
  have hcsplit : cs = cs.dropLast ++ [cs.getLast hne] := (List.dropLast_concat_getLast hne).symm
  have hinitlen : cs.dropLast.length = a := by simp [ha]
  have hinitfull : ∀ c ∈ cs.dropLast, c.length = g.fileBytes := fun c hc => hfull c (List.dropLast_subset _ hc)
  have hcllen : (cs.getLast hne).length = g.fileBytes := hfull _ (List.getLast_mem hne)
  have hinitflat : cs.dropLast.flatten.length = a * g.fileBytes := by
    rw [flatten_length_full _ _ hinitfull, hinitlen]
  have hflat2 : cs.flatten = cs.dropLast.flatten ++ cs.getLast hne := by
    conv => lhs; rw [hcsplit]
    simp
  have ho_le : ke * g.B + ce - a * g.fileBytes ≤ g.fileBytes := by
    rw [Nat.add_mul, Nat.one_mul] at hW2; omega
  have hdropW : (cs.getLast hne).drop (ke * g.B + ce - a * g.fileBytes) =
      zeros (g.fileBytes - (ke * g.B + ce - a * g.fileBytes)) := by
    have h1 : cs.flatten.drop (ke * g.B + ce) = (cs.getLast hne).drop (ke * g.B + ce - a * g.fileBytes) := by
      rw [hflat2, drop_append_ge _ _ _ (by rw [hinitflat]; exact hW1), hinitflat]
    have h2 : cs.flatten.drop (ke * g.B + ce) = zeros (z - (ke * g.B + ce - endPos g 0 (untag afs))) := by
      rw [hflat, drop_append_ge _ _ _ (by rw [hE]; exact hW0), hE, drop_zeros]
    rw [← h1, h2]
    congr 1
    rw [Nat.add_mul, Nat.one_mul] at hNB
    omega
  have htakeW : cs.dropLast.flatten ++ (cs.getLast hne).take (ke * g.B + ce - a * g.fileBytes) =
      (layoutBufs g 0 (untag afs)).flatten ++ zeros (ke * g.B + ce - endPos g 0 (untag afs)) := by
    have h1 : cs.flatten.take (ke * g.B + ce) =
        cs.dropLast.flatten ++ (cs.getLast hne).take (ke * g.B + ce - a * g.fileBytes) := by
      rw [hflat2, take_append_ge _ _ _ (by rw [hinitflat]; exact hW1), hinitflat]
    have h2 : cs.flatten.take (ke * g.B + ce) =
        (layoutBufs g 0 (untag afs)).flatten ++ zeros (ke * g.B + ce - endPos g 0 (untag afs)) := by
      rw [hflat, take_append_ge _ _ _ (by rw [hE]; exact hW0), hE, take_zeros]
      congr 2
      rw [Nat.add_mul, Nat.one_mul] at hNB
      omega
    rw [← h1, h2]
  have hPlen : (cs.dropLast.flatten ++ (cs.getLast hne).take (ke * g.B + ce - a * g.fileBytes)).length =
      ke * g.B + ce := by
    rw [List.length_append, hinitflat, List.length_take, hcllen]
    omega
  have hgs'afs : afs = lead ++ gs'.flatMap (·.2) := by rw [g1]; exact hafs
  refine ⟨(liveOf gs').map (·.1), _, io, cs.dropLast, (cs.getLast hne).take (ke * g.B + ce - a * g.fileBytes), x,
    afs, lead, gs', hrec, ⟨⟨?_, hinitfull, ?_, ?_, ?_, ?_⟩, ⟨?_, hfits, htag, ?_⟩, hgs'afs, hlead, ?_, g2⟩,
    hr1, hab, rfl, hJ'rel, ?_⟩
  · -- the image
    show X = _
    simp only [he]
    rw [hoff, ← hdropW, List.take_append_drop, ← hcsplit, hinitlen, hX, ha, Nat.add_assoc]
  · show _ = e.idx * g.B + e.cursor
    rw [he]; simp only
    rw [hoff, List.length_take, hcllen]; omega
  · show e.idx * g.B + e.cursor ≤ _
    rw [he]; simp only
    rw [hoff]; exact ho_le
  · show X.map (·.1) = _
    rw [hX, List.map_append, imgOf_keys, xtra_map_keys, hinitlen, ha]
    cases x
    · simp
    · simp only [if_true]
      exact range'_snoc F (a + 1)
  · show e.file = _
    rw [he, hcur, hinitlen]
  · rw [hPlen, htakeW]
  · rw [hPlen]; exact hW3
  · symm
    rw [List.filter_eq_self]
    intro j hj
    have := hJ'wf j hj
    simp only [decide_eq_true_eq]; omega
  · intro j hj
    show j.loc ≤ e.file
    rw [he, hcur]
    simp only
    obtain ⟨b, hb, _, h2, _, _⟩ := hJ'rel.mem_left j hj
    rw [← hmap] at hb
    obtain ⟨s, hs, rfl⟩ := List.mem_map.mp hb
    obtain ⟨t0, ht0, htl, _⟩ := live_tags hok hs
    obtain ⟨h, _, h2', h3⟩ := tag_pos g F afs 0 htag t0 (by rw [hafs]; exact List.mem_append_right _ ht0)
    have : h / g.fileBytes < a + 1 := by
      rw [Nat.div_lt_iff_lt_mul hfb]; omega
    rw [h2, ← htl, h3]
    omega

/-! ### reading a torn tape, up to the file handles -/

/-- a proper prefix of the frames of an entry delivers nothing -/
theorem assemble_partF (part : List TFrm) : ∀ (b : Bool) (rest : List Frm) (st : AsmSt) (evs : List RdEv),
    rest ≠ [] → EntryFrames b (untag part ++ rest) → (b = true ∨ st.within = true) →
    ∃ st', assemble st (evsOf part ++ evs) = assemble st' evs := by
  induction part with
  | nil => intro b rest st evs _ _ _; exact ⟨st, by simp [evsOf]⟩
  | cons a part ih =>
    intro b rest st evs hrest hE hw
    obtain ⟨f, t, p⟩ := a
    simp only [untag, List.map_cons, List.cons_append] at hE
    obtain ⟨ht, htail⟩ := hE
    have hne : List.map (fun x : TFrm => x.2) part ++ rest ≠ [] := by simp [hrest]
    have hemp : (List.map (fun x : TFrm => x.2) part ++ rest).isEmpty = false := by simpa using hne
    simp only [hemp] at ht
    have hlast : t.isLast = false := by rw [ht]; cases b <;> rfl
    have hfirst : t.isFirst = b := by rw [ht]; cases b <;> rfl
    have hw2 : (st.within || t.isFirst) = true := by
      rw [hfirst]; rcases hw with h | h <;> simp [h]
    rw [evsOf_cons, List.cons_append, assemble_more st f t p _ hlast hw2]
    exact ih false rest { within := true, buf := (if t.isFirst then [] else st.buf) ++ p, attr := st.attr } evs
      hrest (htail hne) (Or.inr rfl)

/-- **scanning a crash tape of groups** -/
theorem crash_scanX (g : Geom) (hB : g.B ≤ 65542) (F : Nat) (cs : List Bytes) (hne : cs ≠ [])
    (hfull : ∀ c ∈ cs, c.length = g.fileBytes)
    (afs : List TFrm) (hfits : Fits g 0 (untag afs)) (htag : Tagged g F 0 afs)
    (lead : List TFrm) (gs : List Grp) (hafs : afs = lead ++ gs.flatMap (·.2))
    (hlead : ∀ a ∈ lead, a.2.1.isFirst = false) (hok : ∀ y ∈ gs, GrpOK y)
    (m z : Nat) (hm : m ≤ endPos g 0 (untag afs))
    (hflat : cs.flatten = (layoutBufs g 0 (untag afs)).flatten.take m ++ zeros z)
    (jold : Nat) (hjold : jold ≤ gs.length)
    (hold : endPos g 0 (untag (lead ++ (gs.take jold).flatMap (·.2))) ≤ m)
    (htorn : ∀ fs1 t p fs2, untag afs = fs1 ++ (t, p) :: fs2 → m < endPos g 0 (fs1 ++ [(t, p)]) → TornFrame t p) :
    ∃ (j1 : Nat) (tailEvs : List RecEv) (evs : List RdEv) (e : EndPos) (J'' : List JE), jold ≤ j1 ∧ j1 ≤ gs.length ∧
      scanAt g F cs.flatten (cs.length * g.K) 0 0 = (evs, e) ∧
      (tailEvs = [] ∨ tailEvs = [RecEv.corrupt]) ∧
      assemble { within := false, buf := [], attr := F } evs = entriesEv J'' ++ tailEvs ∧
      All2 (ReAttr F) J'' (liveOf (gs.take j1)) := by
  have hB7 := G.Bpos g
  have hNpos : 0 < cs.length * g.K := Nat.mul_pos (List.length_pos_iff.mpr hne) g.hK
  have hSlen : cs.flatten.length = cs.length * g.K * g.B := by
    rw [flatten_length_full _ _ hfull, mul_fb]
  have hL : (layoutBufs g 0 (untag afs)).flatten.length = endPos g 0 (untag afs) := layout0_len g _ hfits
  have hz : z = cs.length * g.K * g.B - m := by
    have := congrArg List.length hflat
    rw [hSlen] at this
    simp only [List.length_append, List.length_take, length_zeros, hL] at this
    omega
  have hmN : m ≤ cs.length * g.K * g.B := by
    have := congrArg List.length hflat
    rw [hSlen] at this
    simp only [List.length_append, List.length_take, length_zeros, hL] at this
    omega
  obtain ⟨n1, C, e, hn1, hscan, hC, hmono⟩ := torn_scan g hB F (cs.length * g.K) hNpos (untag afs) hfits m hm hmN
    htorn cs.flatten (by rw [hflat, hz])
  rw [tagFrom_of_Tagged g F afs 0 htag] at hscan
  have hleadlen : lead.length ≤ n1 := by
    have h0 := hmono lead.length (by rw [hafs]; simp [untag]) (by
      have h1 : (untag afs).take lead.length = untag lead := by
        rw [hafs, untag_append]; simp [untag]
      rw [h1]
      have := endPos_mono g 0 (untag lead) (untag ((gs.take jold).flatMap (·.2)))
      rw [← untag_append] at this
      omega)
    exact h0
  obtain ⟨j, part, hj, htake, hpart, hjmono⟩ := take_flatMap_groups (fun s : Grp => s.2) gs (n1 - lead.length)
  have hafstake : afs.take n1 = lead ++ ((gs.take j).flatMap (·.2) ++ part) := by
    rw [hafs, List.take_append, List.take_of_length_le hleadlen, htake]
  have hjold1 : jold ≤ j := by
    apply hjmono jold hjold
    have h0 := hmono (lead.length + ((gs.take jold).flatMap (·.2)).length) (by
      rw [hafs]
      simp only [untag, List.length_map, List.length_append]
      have : ((gs.take jold).flatMap (·.2)).length ≤ (gs.flatMap (·.2)).length := by
        conv => rhs; rw [← List.take_append_drop jold gs, List.flatMap_append, List.length_append]
        omega
      omega) (by
      have h1 : (untag afs).take (lead.length + ((gs.take jold).flatMap (·.2)).length) =
          untag (lead ++ (gs.take jold).flatMap (·.2)) := by
        rw [hafs]
        conv => lhs; rw [← List.take_append_drop jold gs, List.flatMap_append, ← List.append_assoc,
          untag_append]
        rw [List.take_left']
        simp [untag]
      rw [h1]; exact hold)
    omega
  have hokj : ∀ y ∈ gs.take j, GrpOK y := fun y hy => hok y (List.mem_of_mem_take hy)
  -- tags of the groups read
  have hmonoA := tags_mono g F afs 0 htag
  have hsubl : ((gs.take j).flatMap (·.2)).Sublist afs := by
    rw [hafs]
    refine List.Sublist.trans ?_ (List.sublist_append_right _ _)
    conv => rhs; rw [← List.take_append_drop j gs, List.flatMap_append]
    exact List.sublist_append_left _ _
  have hasm : ∃ (tailEvs : List RecEv) (J'' : List JE), (tailEvs = [] ∨ tailEvs = [RecEv.corrupt]) ∧
      assemble { within := false, buf := [], attr := F } (evsOf (afs.take n1) ++ C) =
        entriesEv J'' ++ tailEvs ∧ All2 (ReAttr F) J'' (liveOf (gs.take j)) := by
    rw [hafstake, evsOf_append, List.append_assoc, assemble_lead _ rfl lead _ hlead, evsOf_append,
      List.append_assoc]
    obtain ⟨gs', st', _, _, g3, g4⟩ := asm_groups F (gs.take j) { within := false, buf := [], attr := F }
      (evsOf part ++ C) hokj (hmonoA.sublist hsubl)
      (by
        intro a ha
        obtain ⟨h, _, _, h3⟩ := tag_pos g F afs 0 htag a (hsubl.subset ha)
        show F ≤ a.1
        rw [h3]; exact Nat.le_add_right _ _)
      (Nat.le_refl _)
    rw [g4]
    have hp : ∃ st'', assemble st' (evsOf part ++ C) = assemble st'' C := by
      rcases hpart with h | ⟨y, rest, hy, hrest, hf⟩
      · subst h; exact ⟨st', by simp [evsOf]⟩
      · have hym : y ∈ gs := List.mem_of_getElem? hy
        have hoky := hok y hym
        obtain ⟨oj, fs⟩ := y
        simp only at hf
        have hrest' : untag rest ≠ [] := by simpa [untag] using hrest
        cases oj with
        | some j0 =>
          have hfr : EntryFrames true (untag fs) := (show SegOK (j0, fs) from hoky).frames
          rw [hf, untag_append] at hfr
          exact assemble_partF part true (untag rest) st' C hrest' hfr (Or.inl rfl)
        | none =>
          obtain ⟨more, hmore, hfr⟩ := hoky
          simp only at hfr
          rw [hf, untag_append, List.append_assoc] at hfr
          exact assemble_partF part true (untag rest ++ more) st' C (by simp [hmore]) hfr (Or.inl rfl)
    obtain ⟨st'', hst''⟩ := hp
    rw [hst'']
    rcases hC with h | ⟨f, h⟩
    · subst h; exact ⟨[], _, Or.inl rfl, by simp [assemble], g3⟩
    · subst h; exact ⟨[RecEv.corrupt], _, Or.inr rfl, by simp [assemble], g3⟩
  obtain ⟨tailEvs, J'', htail, hasm, hrel⟩ := hasm
  exact ⟨j, tailEvs, _, e, J'', hjold1, hj, hscan, htail, hasm, hrel⟩

/-- **reading a crash tape of groups** -/
theorem crash_readX (g : Geom) (hB : g.B ≤ 65542) (F : Nat) (cs : List Bytes) (hne : cs ≠ [])
    (hfull : ∀ c ∈ cs, c.length = g.fileBytes) (X : Image)
    (hX : X = imgOf F cs ∨ X = imgOf F cs ++ [(F + cs.length, [])])
    (afs : List TFrm) (hfits : Fits g 0 (untag afs)) (htag : Tagged g F 0 afs)
    (lead : List TFrm) (gs : List Grp) (hafs : afs = lead ++ gs.flatMap (·.2))
    (hlead : ∀ a ∈ lead, a.2.1.isFirst = false) (hok : ∀ y ∈ gs, GrpOK y)
    (hloc : ∀ s ∈ liveOf gs, C07.WF s.1.e ∧ F ≤ s.1.loc)
    (qf : MemQueues) (hrep : replayJ F [] ((liveOf gs).map (·.1)) = some qf)
    (m z : Nat) (hm : m ≤ endPos g 0 (untag afs))
    (hflat : cs.flatten = (layoutBufs g 0 (untag afs)).flatten.take m ++ zeros z)
    (jold : Nat) (hjold : jold ≤ gs.length)
    (hold : endPos g 0 (untag (lead ++ (gs.take jold).flatMap (·.2))) ≤ m)
    (htorn : ∀ fs1 t p fs2, untag afs = fs1 ++ (t, p) :: fs2 → m < endPos g 0 (fs1 ++ [(t, p)]) → TornFrame t p)
    (policy : Policy) :
    ∃ j1 qs lp e0 io, jold ≤ j1 ∧ j1 ≤ gs.length ∧
      replayJ F [] ((liveOf (gs.take j1)).map (·.1)) = some qs ∧
      recoverPre g X policy none = .ok (lp, e0, io) ∧ AbsEq qs lp.queues := by
  obtain ⟨j, tailEvs, evs, e, J'', hjold1, hj, hscan, htail, hasm, hrel⟩ := crash_scanX g hB F cs hne hfull afs
    hfits htag lead gs hafs hlead hok m z hm hflat jold hjold hold htorn
  have hsplit : (liveOf gs).map (·.1) = (liveOf (gs.take j)).map (·.1) ++ (liveOf (gs.drop j)).map (·.1) := by
    rw [← List.map_append, ← liveOf_append, List.take_append_drop]
  obtain ⟨qs, hqs⟩ := replayJ_prefix F _ _ [] qf (by rw [← hsplit]; exact hrep)
  have hlocj : ∀ s ∈ liveOf (gs.take j), C07.WF s.1.e ∧ F ≤ s.1.loc := by
    intro s hs
    apply hloc s
    rw [← List.take_append_drop j gs, liveOf_append]
    exact List.mem_append_left _ hs
  have hJwf : ∀ j' ∈ J'', C07.WF j'.e ∧ F ≤ j'.attr ∧ j'.attr ≤ j'.loc := by
    intro j' hj'
    obtain ⟨s, hs, h1, _, h3, h4⟩ := hrel.mem_left j' hj'
    exact ⟨by rw [h1]; exact (hlocj s hs).1, h3, h4⟩
  obtain ⟨r1, hr1, hab⟩ := replayJ_abs F J'' ((liveOf (gs.take j)).map (·.1)) [] [] qs
    (All2.map_right (R := fun a b : JE => a.e = b.e) (fun s : Seg => s.1) (hrel.imp (fun a b h => h.1)))
    (fun j' hj' => by have := hJwf j' hj'; omega)
    (fun j' hj' => by
      obtain ⟨s, hs, rfl⟩ := List.mem_map.mp hj'
      exact (hlocj s hs).2)
    (AbsEq.refl _) QsWF.nil QsWF.nil hqs
  have hreplay : replay [] (assemble { within := false, buf := [], attr := F } evs) = some r1 := by
    rw [hasm]
    rcases htail with h | h
    · subst h; rw [List.append_nil, replay_entriesEv F _ [] hJwf, hr1]
    · subst h; rw [replay_snoc_corrupt, replay_entriesEv F _ [] hJwf, hr1]
  obtain ⟨lp, e0, io, hrec, hq⟩ := recoverPre_of_scan g F cs hne hfull X hX policy _ e r1 hscan hreplay
  exact ⟨j, qs, lp, e0, io, hjold1, hj, hqs, hrec, by rw [hq]; exact hab⟩

end MRL.L
