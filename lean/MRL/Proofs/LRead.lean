/-
Reading a `DiskX` disk (a tape of items, possibly with a residue): `recoverPre` succeeds; the
recovered log satisfies the relaxed invariant (with explicit witnesses) for the journal
re-attributed the way the reader attributes the entries; its queues are the replay of the old
journal up to the file handles.
-/
import MRL.Proofs.LCut
import MRL.Proofs.LScanJ
import MRL.Proofs.GReadLog
import MRL.Proofs.RecReplay

namespace MRL.L
open MRL Codec Consts G H Log Buf Torn

theorem All2.map_right {α β γ : Type} {R : α → γ → Prop} (f : β → γ) : ∀ {l1 : List α} {l2 : List β},
    All2 (fun a b => R a (f b)) l1 l2 → All2 R l1 (l2.map f) := by
  intro l1 l2 h
  induction h with
  | nil => exact All2.nil
  | cons hab _ ih => exact All2.cons hab ih

theorem All2.map_left {α β γ : Type} {R : γ → β → Prop} (f : α → γ) : ∀ {l1 : List α} {l2 : List β},
    All2 R (l1.map f) l2 → All2 (fun a b => R (f a) b) l1 l2 := by
  intro l1
  induction l1 with
  | nil => intro l2 h; cases h; exact All2.nil
  | cons a l1 ih =>
    intro l2 h
    cases h with
    | cons hab htl => exact All2.cons hab (ih htl)

theorem All2.imp {α β : Type} {R S : α → β → Prop} (hRS : ∀ a b, R a b → S a b) {l1 : List α} {l2 : List β}
    (h : All2 R l1 l2) : All2 S l1 l2 := by
  induction h with
  | nil => exact All2.nil
  | cons hab _ ih => exact All2.cons (hRS _ _ hab) ih

theorem All2.mem_left {α β : Type} {R : α → β → Prop} {l1 : List α} {l2 : List β} (h : All2 R l1 l2) :
    ∀ a ∈ l1, ∃ b ∈ l2, R a b := by
  induction h with
  | nil => intro a ha; cases ha
  | cons hab _ ih =>
    intro a ha
    rcases List.mem_cons.mp ha with rfl | ha
    · exact ⟨_, List.mem_cons_self, hab⟩
    · obtain ⟨b, hb, hr⟩ := ih a ha
      exact ⟨b, List.mem_cons_of_mem _ hb, hr⟩

theorem xtra_map_keys (x : Bool) (f : Nat) : (xtra x f).map (·.1) = if x then [f] else [] := by
  cases x <;> rfl

/-- `recoverPre` from the scan of the stream -/
theorem recoverPre_scanX (g : Geom) (F : Nat) (cs : List Bytes) (hne : cs ≠ [])
    (hfull : ∀ c ∈ cs, c.length = g.fileBytes) (x : Bool) (X : Image)
    (hX : X = imgOf F cs ++ xtra x (F + cs.length)) (policy : Policy)
    (evs : List RdEv) (e : EndPos) (qs : MemQueues)
    (hscan : scanAt g F cs.flatten (cs.length * g.K) 0 0 = (evs, e))
    (hreplay : replay [] (assemble { within := false, buf := [], attr := F } evs) = some qs) :
    ∃ io, recoverPre g X policy none =
      .ok (⟨X.map (·.1), e.file, e.idx * g.B + e.cursor, qs, policy⟩, [.ensureLen F g.fileBytes], io) := by
  obtain ⟨c0, cs', hcs⟩ : ∃ c0 cs', cs = c0 :: cs' := by
    cases cs with
    | nil => exact absurd rfl hne
    | cons c0 cs' => exact ⟨c0, cs', rfl⟩
  have hc0 : c0.length = g.fileBytes := hfull c0 (by rw [hcs]; exact List.mem_cons_self)
  have hBle := B_le_fileBytes g
  have hprep : prepareImage g X = (X, [.ensureLen F g.fileBytes]) := by
    rw [hX, hcs]
    simp only [imgOf, List.cons_append, prepareImage]
    rw [if_neg (by omega)]
  have hblocks : (blocksOf g X 1).1 = blksFrom g F cs.flatten 0 (cs.length * g.K) := by
    have h0 := blocksOf_imgOf g F cs 0 [] hfull (by simp)
    simp only [Nat.add_zero, List.nil_append, Nat.zero_mul] at h0
    rw [hX]
    cases x
    · simpa [xtra] using h0
    · simp only [xtra, if_true]
      rw [blocksOf_snoc_empty]; exact h0
  have hNpos : 0 < cs.length * g.K := by
    rw [hcs]; exact Nat.mul_pos (Nat.succ_pos _) g.hK
  obtain ⟨m, hm⟩ : ∃ m, cs.length * g.K = m + 1 := ⟨cs.length * g.K - 1, by omega⟩
  rcases hbo : blocksOf g X 1 with ⟨bs, trail⟩
  rw [hbo] at hblocks
  simp only at hblocks
  rw [hm, blksFrom_succ] at hblocks
  have hbo' : blocksOf g (prepareImage g X).1 1 =
      (blkAt g F cs.flatten 0 :: blksFrom g F cs.flatten 1 m, trail) := by
    rw [hprep, hbo, hblocks]
  unfold scanAt at hscan
  have hm1 : cs.length * g.K - (0 + 1) = m := by omega
  rw [hm1] at hscan
  obtain ⟨io', hio⟩ := scanBlocks_eq_scanB g trail (blkAt g F cs.flatten 0).cost (blkAt g F cs.flatten 0) 0
    (blksFrom g F cs.flatten 1 m)
  rw [hscan] at hio
  have hb0 : (blkAt g F cs.flatten 0).file = F := by simp [blkAt]
  refine ⟨io', ?_⟩
  rw [Rec.recoverPre_cons g X policy none _ _ trail hbo', hio]
  simp only [ioFails, Bool.false_eq_true, if_false, Rec.finishPre, hb0, hreplay, hprep]

/-- reassembling the items of a `SegsX` tape read from its first file -/
theorem asm_segsX (g : Geom) (F : Nat) (ais : List AItm) (htag : Tagged g F 0 (tfs ais))
    (lead : List AItm) (gs : List Grp) (hais : ais = lead ++ gs.flatMap (·.2))
    (hlead : ∀ a ∈ lead, a.2 = none ∧ a.1.2.1.isFirst = false) (hok : ∀ y ∈ gs, GrpOK y) (tail : List RdEv) :
    ∃ (gs' : List Grp) (st' : AsmSt) (R : List RecEv), gs'.flatMap (·.2) = gs.flatMap (·.2) ∧ (∀ y ∈ gs', GrpOK y) ∧
      All2 (ReAttr F) ((liveOf gs').map (·.1)) (liveOf gs) ∧
      assemble { within := false, buf := [], attr := F } (evsJ ais ++ tail) = R ++ assemble st' tail ∧
      entriesOf R = entriesEv ((liveOf gs').map (·.1)) := by
  have hmono := tags_mono g F (tfs ais) 0 htag
  rw [hais, tfs_append] at hmono
  have hmono2 := (List.pairwise_append.mp hmono).2.1
  obtain ⟨gs', st', R, g1, g2, g3, g4, g5⟩ := asm_groups F gs { within := false, buf := [], attr := F } tail hok hmono2
    (by
      intro a ha
      obtain ⟨h, _, _, h3⟩ := tag_pos g F (tfs ais) 0 htag a (by rw [hais, tfs_append]; exact List.mem_append_right _ ha)
      show F ≤ a.1
      rw [h3]; exact Nat.le_add_right _ _)
    (Nat.le_refl _)
  refine ⟨gs', st', R, g1, g2, g3, ?_, g5⟩
  have hl : evsJ lead = evsOf (tfs lead) := evsJ_none (fun a ha => (hlead a ha).1)
  rw [hais, evsJ_append, List.append_assoc, hl,
    assemble_lead _ rfl (tfs lead) _ (by
      intro a ha
      obtain ⟨b, hb, rfl⟩ := List.mem_map.mp ha
      exact (hlead b hb).2), g4]

theorem drop_append_ge {α : Type} (A B : List α) (n : Nat) (h : A.length ≤ n) :
    (A ++ B).drop n = B.drop (n - A.length) := by
  rw [List.drop_append, List.drop_of_length_le h, List.nil_append]

theorem take_append_ge {α : Type} (A B : List α) (n : Nat) (h : A.length ≤ n) :
    (A ++ B).take n = A ++ B.take (n - A.length) := by
  rw [List.take_append, List.take_of_length_le h]

/-- the scan of a `DiskX` stream: the events, where the reader ends, what lies before and after -/
theorem scan_diskX (g : Geom) (hB : g.B ≤ 65542) (F : Nat) (cs : List Bytes) (hne : cs ≠ [])
    (hfull : ∀ c ∈ cs, c.length = g.fileBytes) (ais : List AItm) (res : Bytes) (z0 z1 : Nat)
    (hflat : cs.flatten = flatJ g 0 ais ++ zeros z0 ++ res ++ zeros z1)
    (hfits : Fits g 0 (frs ais)) (htag : Tagged g F 0 (tfs ais)) (hjok : JOK g (cs.length * g.fileBytes) 0 ais)
    (hlast : (cs.length - 1) * g.fileBytes ≤ hdrPos g (endPos g 0 (frs ais)))
    (hres : ResOK g (cs.length * g.fileBytes) (endPos g 0 (frs ais) + z0) (endPos g 0 (frs ais)) res) :
    ∃ (evT : List RdEv) (e : EndPos) (ke ce zz : Nat),
      scanAt g F cs.flatten (cs.length * g.K) 0 0 = (evsJ ais ++ evT, e) ∧
      (evT = [] ∨ ∃ f, evT = [RdEv.corrupt f]) ∧
      e = ⟨F + ke / g.K, ke % g.K, ce⟩ ∧ ke < cs.length * g.K ∧
      (ce < g.B ∨ (ce = g.B ∧ ke + 1 = cs.length * g.K)) ∧
      endPos g 0 (frs ais) ≤ ke * g.B + ce ∧ (cs.length - 1) * g.fileBytes ≤ ke * g.B + ce ∧
      ke * g.B + ce + res.length ≤ cs.length * g.fileBytes ∧
      (ke * g.B + ce = endPos g 0 (frs ais) ∨ ke * g.B + ce = hdrPos g (endPos g 0 (frs ais))) ∧
      cs.flatten.drop (ke * g.B + ce) = res ++ zeros zz ∧
      cs.flatten.take (ke * g.B + ce) = flatJ g 0 ais ++ zeros (ke * g.B + ce - endPos g 0 (frs ais)) ∧
      ResOK g (cs.length * g.fileBytes) (ke * g.B + ce) (endPos g 0 (frs ais)) res := by
  have hB7 := G.Bpos g
  have hfb := fileBytes_pos g
  have hBfb := B_le_fileBytes g
  have hE : (flatJ g 0 ais).length = endPos g 0 (frs ais) := flatJ0_len g ais hjok.rawLen hfits
  have hSlen : cs.flatten.length = cs.length * g.K * g.B := by
    rw [flatten_length_full _ _ hfull, mul_fb]
  have hNpos : 0 < cs.length * g.K := Nat.mul_pos (List.length_pos_iff.mpr hne) g.hK
  have hNB : cs.length * g.K * g.B = cs.length * g.fileBytes := (mul_fb g _).symm
  have hjok' : JOK g (cs.length * g.K * g.B) 0 ais := by rw [hNB]; exact hjok
  have hlens : endPos g 0 (frs ais) + z0 + res.length + z1 = cs.length * g.fileBytes := by
    have := congrArg List.length hflat
    rw [hSlen, hNB] at this
    simp only [List.length_append, length_zeros, hE] at this
    omega
  have hhle := le_hdrPos g (endPos g 0 (frs ais))
  obtain ⟨a, ha⟩ : ∃ a, cs.length = a + 1 := ⟨cs.length - 1, by have := List.length_pos_iff.mpr hne; omega⟩
  rcases hres with hr | ⟨r1, r2, r3, r4⟩
  · -- no residue
    subst hr
    have hflat' : cs.flatten = flatJ g 0 ais ++ zeros (z0 + z1) := by
      rw [hflat, zeros_add]; simp
    obtain ⟨e, hscan, hend⟩ := readS_layoutJ g hB F cs.flatten (cs.length * g.K) hSlen hNpos ais hfits hjok' htag _ hflat'
    obtain ⟨ke, ce, he, hke, hce, hW⟩ := hend
    have hWf : endPos g 0 (frs ais) ≤ ke * g.B + ce ∧ (cs.length - 1) * g.fileBytes ≤ ke * g.B + ce ∧
        ke * g.B + ce ≤ cs.length * g.fileBytes ∧
        (ke * g.B + ce = endPos g 0 (frs ais) ∨ ke * g.B + ce = hdrPos g (endPos g 0 (frs ais))) := by
      rw [hW]
      by_cases hc : g.B - endPos g 0 (frs ais) % g.B < 7 ∧
          hdrPos g (endPos g 0 (frs ais)) < cs.length * g.K * g.B
      · rw [if_pos hc]
        exact ⟨hhle, hlast, by omega, Or.inr rfl⟩
      · rw [if_neg hc]
        refine ⟨Nat.le_refl _, ?_, by omega, Or.inl rfl⟩
        by_cases h7 : g.B - endPos g 0 (frs ais) % g.B < 7
        · have hge : cs.length * g.K * g.B ≤ hdrPos g (endPos g 0 (frs ais)) := by
            apply Classical.byContradiction
            intro hn; exact hc ⟨h7, by omega⟩
          have hmod : endPos g 0 (frs ais) % g.B < g.B := Nat.mod_lt _ (by omega)
          unfold hdrPos at hge
          rw [if_pos h7] at hge
          rw [ha, Nat.add_sub_cancel] at hlast ⊢
          rw [hNB, ha, Nat.add_mul, Nat.one_mul] at hge
          omega
        · have : hdrPos g (endPos g 0 (frs ais)) = endPos g 0 (frs ais) := by
            unfold hdrPos; rw [if_neg h7]
          omega
    obtain ⟨w0, w1, w2, w3⟩ := hWf
    refine ⟨[], e, ke, ce, z0 + z1 - (ke * g.B + ce - endPos g 0 (frs ais)), by simpa using hscan, Or.inl rfl, he, hke,
      hce, w0, w1, by simpa using w2, w3, ?_, ?_, Or.inl rfl⟩
    · rw [hflat', drop_append_ge _ _ _ (by rw [hE]; exact w0), hE, drop_zeros]; rfl
    · rw [hflat', take_append_ge _ _ _ (by rw [hE]; exact w0), hE, take_zeros]
      congr 2
      have hl2 : endPos g 0 (frs ais) + z0 + z1 = cs.length * g.fileBytes := by simpa using hlens
      omega
  · -- a residue in the last block
    have hz0 : z0 = hdrPos g (endPos g 0 (frs ais)) - endPos g 0 (frs ais) := by omega
    have hflat' : cs.flatten = flatJ g 0 ais ++ zeros (hdrPos g (endPos g 0 (frs ais)) - endPos g 0 (frs ais)) ++
        res ++ zeros z1 := by rw [hflat, hz0]
    obtain ⟨ke, ce, hpos, hke, hce, hscan⟩ := readS_layoutJ_res g hB F cs.flatten (cs.length * g.K) hSlen hNpos ais
      hfits hjok' htag res r1 r2 z1 hflat' (by rw [hNB, ← r3]; exact r4)
    have hlen0 : (flatJ g 0 ais ++ zeros (hdrPos g (endPos g 0 (frs ais)) - endPos g 0 (frs ais))).length =
        hdrPos g (endPos g 0 (frs ais)) := by
      rw [List.length_append, length_zeros, hE]; omega
    refine ⟨[RdEv.corrupt (F + ke / g.K)], _, ke, ce, z1, hscan, Or.inr ⟨_, rfl⟩, rfl, hke, Or.inl hce, by omega,
      by omega, by omega, Or.inr hpos, ?_, ?_, ?_⟩
    · rw [hpos, hflat', List.append_assoc (flatJ g 0 ais ++ _)]
      exact List.drop_left' hlen0
    · rw [hpos, hflat', List.append_assoc (flatJ g 0 ais ++ _)]
      exact List.take_left' hlen0
    · rw [hpos]
      exact Or.inr ⟨r1, r2, rfl, by rw [← r3]; exact r4⟩

/-- **reading a `DiskX` disk** -/
theorem read_diskX (g : Geom) (hB : g.B ≤ 65542) {X : Image} {F : Nat} {J : List JE}
    (hd : DiskX g X F J) (hwf : ∀ j ∈ J, C07.WF j.e) (qs : MemQueues)
    (hrep : replayJ F [] J = some qs) (policy : Policy) :
    ∃ (J' : List JE) (lp : Log) (io : Nat) (init : List Bytes) (t : Bytes) (x : Bool) (res : Bytes)
      (ais lead : List AItm) (gs' : List Grp),
      recoverPre g X policy none = .ok (lp, [.ensureLen F g.fileBytes], io) ∧
      XInvX g lp X F J' init t x res ais lead gs' ∧
      replayJ F [] J' = some lp.queues ∧ AbsEq qs lp.queues ∧ lp.policy = policy ∧
      All2 (fun a b : JE => a.e = b.e ∧ a.loc = b.loc ∧ F ≤ a.attr ∧ a.attr ≤ a.loc) J'
        (J.filter fun j => decide (F ≤ j.loc)) ∧
      (∀ j ∈ J', j.loc ≤ lp.cur) := by
  have hB7 := G.Bpos g
  have hfb := fileBytes_pos g
  obtain ⟨cs, x, ais, res, z0, hne, hfull, ⟨z1, hflat⟩, hX, hlast, hfits, htag, hjok, hresok, lead, gs, hais, hlead,
    hmap, hok⟩ := hd
  have hE : (flatJ g 0 ais).length = endPos g 0 (frs ais) := flatJ0_len g ais hjok.rawLen hfits
  obtain ⟨evT, e, ke, ce, zz, hscan, hevT, he, hke, hce, hW0, hW1, hWres, hW3, hdropW0, htakeW0, hresW⟩ :=
    scan_diskX g hB F cs hne hfull ais res z0 z1 hflat hfits htag hjok hlast hresok
  -- reassembly
  obtain ⟨gs', st', R, g1, g2, g3, g4, g5⟩ := asm_segsX g F ais htag lead gs hais hlead hok evT
  have htailR : ∃ Rt, assemble st' evT = Rt ∧ entriesOf Rt = [] := by
    rcases hevT with h | ⟨f, h⟩
    · subst h; exact ⟨[], rfl, rfl⟩
    · subst h; exact ⟨[RecEv.corrupt], rfl, rfl⟩
  obtain ⟨Rt, hRt, hRt0⟩ := htailR
  rw [hRt] at g4
  -- the re-attributed journal
  have hJ'rel : All2 (fun a b : JE => a.e = b.e ∧ a.loc = b.loc ∧ F ≤ a.attr ∧ a.attr ≤ a.loc)
      ((liveOf gs').map (·.1)) (J.filter fun j => decide (F ≤ j.loc)) := by
    rw [← hmap]
    exact All2.map_right (R := fun a b : JE => a.e = b.e ∧ a.loc = b.loc ∧ F ≤ a.attr ∧ a.attr ≤ a.loc)
      (fun s : Seg => s.1) (g3.imp (fun a b hab => hab))
  have hJ'wf : ∀ j ∈ (liveOf gs').map (·.1), C07.WF j.e ∧ F ≤ j.attr ∧ j.attr ≤ j.loc := by
    intro j hj
    obtain ⟨b, hb, h1, _, h3, h4⟩ := hJ'rel.mem_left j hj
    exact ⟨by rw [h1]; exact hwf b (List.mem_filter.mp hb).1, h3, h4⟩
  have hrepl : replay [] (R ++ Rt) = replayJ F [] ((liveOf gs').map (·.1)) := by
    rw [replay_entriesOf, entriesOf_append, g5, hRt0, List.append_nil]
    exact replay_entriesEv F _ [] hJ'wf
  obtain ⟨r1, hr1, hab⟩ := replayJ_abs F ((liveOf gs').map (·.1)) (J.filter fun j => decide (F ≤ j.loc)) [] [] qs
    (hJ'rel.imp (fun a b h => h.1))
    (fun j hj => by have := hJ'wf j hj; omega)
    (fun j hj => by simpa using (List.mem_filter.mp hj).2)
    (AbsEq.refl _) QsWF.nil QsWF.nil (by rw [← replayJ_filter]; exact hrep)
  obtain ⟨io, hrec⟩ := recoverPre_scanX g F cs hne hfull x X hX policy _ e r1 hscan (by rw [g4, hrepl, hr1])
  -- the reader's end position
  obtain ⟨a, ha⟩ : ∃ a, cs.length = a + 1 := ⟨cs.length - 1, by have := List.length_pos_iff.mpr hne; omega⟩
  rw [ha, Nat.add_sub_cancel] at hW1
  have hW2 : ke * g.B + ce ≤ (a + 1) * g.fileBytes := by rw [ha] at hWres; omega
  have hke' : ke < (a + 1) * g.K := by rw [← ha]; exact hke
  have hce' : ce < g.B ∨ (ce = g.B ∧ ke + 1 = (a + 1) * g.K) := by rw [← ha]; exact hce
  obtain ⟨hcur, hoff⟩ := end_decomp g a (ke * g.B + ce) ke ce hW1 hW2 hke' hce' rfl
  -- the chunks
  have hcsplit : cs = cs.dropLast ++ [cs.getLast hne] := (List.dropLast_concat_getLast hne).symm
  have hinitlen : cs.dropLast.length = a := by simp [ha]
  have hinitfull : ∀ c ∈ cs.dropLast, c.length = g.fileBytes := fun c hc => hfull c (List.dropLast_subset _ hc)
  have hcllen : (cs.getLast hne).length = g.fileBytes := hfull _ (List.getLast_mem hne)
  have hinitflat : cs.dropLast.flatten.length = a * g.fileBytes := by
    rw [flatten_length_full _ _ hinitfull, hinitlen]
  have hflat2 : cs.flatten = cs.dropLast.flatten ++ cs.getLast hne := by
    conv => lhs; rw [hcsplit]
    simp
  have ho_le : ke * g.B + ce - a * g.fileBytes + res.length ≤ g.fileBytes := by
    rw [ha, Nat.add_mul, Nat.one_mul] at hWres; omega
  have hdropW : (cs.getLast hne).drop (ke * g.B + ce - a * g.fileBytes) =
      res ++ zeros (g.fileBytes - (ke * g.B + ce - a * g.fileBytes) - res.length) := by
    have h1 : cs.flatten.drop (ke * g.B + ce) = (cs.getLast hne).drop (ke * g.B + ce - a * g.fileBytes) := by
      rw [hflat2, drop_append_ge _ _ _ (by rw [hinitflat]; exact hW1), hinitflat]
    rw [← h1, hdropW0]
    congr 2
    have := congrArg List.length hdropW0
    rw [List.length_drop, flatten_length_full _ _ hfull, ha, List.length_append, length_zeros] at this
    rw [Nat.add_mul, Nat.one_mul] at this
    omega
  have htakeW : cs.dropLast.flatten ++ (cs.getLast hne).take (ke * g.B + ce - a * g.fileBytes) =
      flatJ g 0 ais ++ zeros (ke * g.B + ce - endPos g 0 (frs ais)) := by
    have h1 : cs.flatten.take (ke * g.B + ce) =
        cs.dropLast.flatten ++ (cs.getLast hne).take (ke * g.B + ce - a * g.fileBytes) := by
      rw [hflat2, take_append_ge _ _ _ (by rw [hinitflat]; exact hW1), hinitflat]
    rw [← h1, htakeW0]
  have hPlen : (cs.dropLast.flatten ++ (cs.getLast hne).take (ke * g.B + ce - a * g.fileBytes)).length =
      ke * g.B + ce := by
    rw [List.length_append, hinitflat, List.length_take, hcllen]
    omega
  have hgs'ais : ais = lead ++ gs'.flatMap (·.2) := by rw [g1]; exact hais
  have hLa : (cs.dropLast.length + 1) * g.fileBytes = cs.length * g.fileBytes := by rw [hinitlen, ha]
  refine ⟨(liveOf gs').map (·.1), _, io, cs.dropLast, (cs.getLast hne).take (ke * g.B + ce - a * g.fileBytes), x,
    res, ais, lead, gs', hrec, ⟨⟨?_, hinitfull, ?_, ?_, ?_, ?_⟩, ⟨?_, hfits, htag, ?_, by rw [hLa]; exact hjok⟩, ?_,
    hgs'ais, hlead, ?_, g2⟩, hr1, hab, rfl, hJ'rel, ?_⟩
  · -- the image
    show X = _
    simp only [he]
    rw [hoff, ← hdropW, List.take_append_drop, ← hcsplit, hinitlen, hX, ha, Nat.add_assoc]
  · show _ = e.idx * g.B + e.cursor
    rw [he]; simp only
    rw [hoff, List.length_take, hcllen]; omega
  · show e.idx * g.B + e.cursor + res.length ≤ _
    rw [he]; simp only
    rw [hoff]; exact ho_le
  · show X.map (·.1) = _
    rw [hX, List.map_append, imgOf_keys, xtra_map_keys, hinitlen, ha]
    cases x
    · simp
    · simp only [if_true]
      exact range'_snoc F (a + 1)
  · show e.file = _
    rw [he, hcur, hinitlen]
  · rw [hPlen, htakeW]
  · rw [hPlen]; exact hW3
  · rw [hPlen, hLa]; exact hresW
  · symm
    rw [List.filter_eq_self]
    intro j hj
    have := hJ'wf j hj
    simp only [decide_eq_true_eq]; omega
  · intro j hj
    show j.loc ≤ e.file
    rw [he, hcur]
    simp only
    obtain ⟨b, hb, _, h2, _, _⟩ := hJ'rel.mem_left j hj
    rw [← hmap] at hb
    obtain ⟨s, hs, rfl⟩ := List.mem_map.mp hb
    obtain ⟨t0, ht0, htl, _⟩ := live_tags hok hs
    obtain ⟨h, _, h2', h3⟩ := tag_pos g F (tfs ais) 0 htag t0 (by rw [hais, tfs_append]; exact List.mem_append_right _ ht0)
    have h2'' : h + 7 ≤ endPos g 0 (frs ais) := h2'
    have : h / g.fileBytes < a + 1 := by
      rw [Nat.div_lt_iff_lt_mul hfb]; omega
    rw [h2, ← htl, h3]
    omega

end MRL.L
