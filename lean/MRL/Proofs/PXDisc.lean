/-
The effects of every call and of `open` obey the power-loss discipline `PX.pd`, also when ONE
tracked file lies beyond the current one (the file pre-created by an interrupted roll-over): the
roll-over then goes into it (`flush, fsync(old), fsync(dir)` THEN `open, ensureLen, write`).
-/
import MRL.Proofs.PXSem
import MRL.Proofs.PDisc

namespace MRL.PX
open MRL Buf H L Log K P

/-- the discipline state matches the log: the current file is the one written, it is not empty; at
    most one tracked file beyond it -/
structure PDLX (σ : PDX) (l : Log) : Prop where
  wf : σ.wf = l.cur
  wrt : σ.wrt = true
  nxt : σ.nxt = nextFile l.files l.cur
  one : ∀ f ∈ l.files, l.cur < f → σ.nxt = some f
  fw : FilesWF l

theorem PDLX.congr {σ : PDX} {l l' : Log} (h : PDLX σ l) (hf : l'.files = l.files) (hc : l'.cur = l.cur) : PDLX σ l' :=
  ⟨by rw [hc]; exact h.wf, h.wrt, by rw [hf, hc]; exact h.nxt, by rw [hf, hc]; exact h.one,
    ⟨by rw [hf]; exact h.fw.sorted, by rw [hf, hc]; exact h.fw.cur_mem⟩⟩

/-- one buffer -/
theorem pd_writeBuf (g : Geom) (l : Log) (buf : Bytes) (σ : PDX) (h : PDLX σ l) :
    ∃ σ', pd g.fileBytes σ (writeBuf g l buf).2 = some σ' ∧ PDLX σ' (writeBuf g l buf).1 := by
  obtain ⟨hw, hwrt, hnx, hone, hfw⟩ := h
  by_cases hb : buf = []
  · subst hb
    exact ⟨σ, by simp [writeBuf, pd], hw, hwrt, hnx, hone, hfw⟩
  · have hgrow := (writeBuf_grow g l buf hfw).wf
    by_cases hroll : l.off + buf.length > g.fileBytes
    · cases hn : nextFile l.files l.cur with
      | none =>
        rw [L.writeBuf_roll_none g l buf hb hroll hn] at hgrow ⊢
        have hall := nextFile_none hn
        have hσn : σ.nxt = none := hnx.trans hn
        have hnn : nextFile (l.files ++ [l.cur + 1]) (l.cur + 1) = none := by
          rw [nextFile_none_iff]
          intro f hf
          rcases List.mem_append.mp hf with hf | hf
          · have := hall f hf; omega
          · simp only [List.mem_singleton] at hf; omega
        refine ⟨{ σ with wf := l.cur + 1, dirty := true, named := false, wrt := true, clean := false }, ?_, rfl, rfl,
          ?_, ?_, hgrow⟩
        · simp [pd, pd1, hw, hwrt, hb, hσn]
        · show σ.nxt = nextFile (l.files ++ [l.cur + 1]) (l.cur + 1)
          rw [hnn, hσn]
        · intro f hf hlt
          exfalso
          rcases List.mem_append.mp hf with hf | hf
          · have := hall f hf
            have h2 : l.cur + 1 < f := hlt
            omega
          · simp only [List.mem_singleton] at hf
            have h2 : l.cur + 1 < f := hlt
            omega
      | some nf =>
        rw [L.writeBuf_roll_some g l buf hb hroll nf hn] at hgrow ⊢
        obtain ⟨hmem, hlt⟩ := nextFile_some hn
        have hσn : σ.nxt = some nf := hnx.trans hn
        have hnle : ¬ nf ≤ l.cur := by omega
        have hnn : nextFile l.files nf = none := by
          rw [nextFile_none_iff]
          intro f hf hlt2
          have := hone f hf (by omega)
          rw [hσn] at this
          injection this with this
          omega
        refine ⟨{ σ with wf := nf, nxt := none, dirty := true, named := true, wrt := true, clean := false }, ?_, rfl, rfl,
          ?_, ?_, hgrow⟩
        · simp [pd, pd1, hw, hwrt, hb, hσn, hnle]
        · show (none : Option Nat) = nextFile l.files nf
          rw [hnn]
        · intro f hf hlt2
          exfalso
          have h2 : nf < f := hlt2
          have := hone f hf (by omega)
          rw [hσn] at this
          injection this with this
          omega
    · rw [L.writeBuf_noroll g l buf hb hroll] at hgrow ⊢
      refine ⟨{ σ with dirty := true, wrt := true, clean := false }, ?_, hw, rfl, hnx, hone, hgrow⟩
      simp [pd, pd1, hw, hb]

/-- a list of buffers -/
theorem pd_writeBufs (g : Geom) (bufs : List Bytes) : ∀ (l : Log) (σ : PDX), PDLX σ l →
    ∃ σ', pd g.fileBytes σ (writeBufs g l bufs).2 = some σ' ∧ PDLX σ' (writeBufs g l bufs).1 := by
  induction bufs with
  | nil => intro l σ h; exact ⟨σ, rfl, h⟩
  | cons b bs ih =>
    intro l σ h
    obtain ⟨σ1, h1, p1⟩ := pd_writeBuf g l b σ h
    obtain ⟨σ2, h2, p2⟩ := ih _ σ1 p1
    refine ⟨σ2, ?_, by rw [Step.writeBufs_cons]; exact p2⟩
    rw [Step.writeBufs_cons]
    simp only
    rw [pd_append, h1]
    exact h2

theorem pd_writeEntry (g : Geom) (l : Log) (e : Entry) (σ : PDX) (h : PDLX σ l) :
    ∃ σ', pd g.fileBytes σ (Log.writeEntry g l e).2.1 = some σ' ∧ PDLX σ' (Log.writeEntry g l e).1 := by
  rw [Step.writeEntry_eq]
  exact pd_writeBufs g _ l σ h

theorem pd_writeTouches (g : Geom) (names : List Bytes) : ∀ (l : Log) (σ : PDX), PDLX σ l →
    ∃ σ', pd g.fileBytes σ (writeTouches g l names).2.1 = some σ' ∧ PDLX σ' (writeTouches g l names).1 := by
  induction names with
  | nil => intro l σ h; exact ⟨σ, rfl, h⟩
  | cons n ns ih =>
    intro l σ h
    obtain ⟨σ1, h1, p1⟩ := pd_writeEntry g l (Step.touchEntry l n) σ h
    obtain ⟨σ2, h2, p2⟩ := ih _ σ1 p1
    refine ⟨σ2, ?_, by rw [Step.writeTouches_cons]; exact p2⟩
    rw [Step.writeTouches_cons]
    simp only
    rw [pd_append, h1]
    exact h2

/-- `persist`: afterwards the buffer is empty; after `FlushAndFsync` everything is durable -/
theorem pd_persist (fb : Nat) (l : Log) (a : PersistAction) (σ : PDX) (h : PDLX σ l) :
    ∃ σ', pd fb σ (l.persistEffects a) = some σ' ∧ PDLX σ' l ∧ σ'.clean = true ∧
      (a = .flushAndFsync → σ'.dirty = false ∧ σ'.named = true) := by
  obtain ⟨hw, hwrt, hnx, hone, hfw⟩ := h
  cases a with
  | flush =>
    exact ⟨{ σ with clean := true }, by simp [persistEffects, pd, pd1], ⟨hw, hwrt, hnx, hone, hfw⟩, rfl,
      fun hx => by cases hx⟩
  | flushAndFsync =>
    exact ⟨{ σ with clean := true, dirty := false, named := true }, by simp [persistEffects, pd, pd1, hw, hwrt],
      ⟨hw, hwrt, hnx, hone, hfw⟩, rfl, fun _ => ⟨rfl, rfl⟩⟩

/-- unlinking older files, when everything is durable -/
theorem pd_unlinks (fb : Nat) (fs : List Nat) (σ : PDX) (hlt : ∀ f ∈ fs, f < σ.wf) (hd : σ.dirty = false)
    (hn : σ.named = true) (hc : σ.clean = true) : pd fb σ (fs.map Effect.unlink) = some σ := by
  induction fs with
  | nil => rfl
  | cons f fs ih =>
    simp only [List.map_cons, pd, pd1]
    rw [if_pos ⟨hlt f List.mem_cons_self, hd, hn, hc⟩]
    exact ih (fun f' hf' => hlt f' (List.mem_cons_of_mem _ hf'))

/-- a GC pass -/
theorem pd_runGc (g : Geom) (l : Log) (order : List Bytes) (σ : PDX) (h : PDLX σ l) :
    ∃ σ', pd g.fileBytes σ (runGc g l order).2.1 = some σ' ∧ PDLX σ' (runGc g l order).1 := by
  rcases G.runGc_full g l order with ⟨h1, _⟩ | ⟨names, _, h2⟩
  · rw [h1]; exact ⟨σ, rfl, h⟩
  · rw [h2]
    simp only
    obtain ⟨σ1, q1, p1⟩ := pd_writeTouches g names l σ h
    obtain ⟨σ2, q2, p2, c2, a2⟩ := pd_persist g.fileBytes (writeTouches g l names).1 .flushAndFsync σ1 p1
    obtain ⟨hd, hn⟩ := a2 rfl
    rcases hg : gcFiles ((writeTouches g l names).1.canDelete l.cur) (writeTouches g l names).1.files with ⟨rem, del⟩
    obtain ⟨hsplit, hcan, _⟩ := gcFiles_spec _ _ _ _ hg
    have hsorted := p2.fw.sorted
    rw [hsplit, List.pairwise_append] at hsorted
    have hcur_rem : (writeTouches g l names).1.cur ∈ rem := by
      have := p2.fw.cur_mem
      rw [hsplit] at this
      rcases List.mem_append.mp this with hm | hm
      · have := hcan _ hm
        simp [canDelete] at this
      · exact hm
    have hdel : ∀ f ∈ del, f < σ2.wf := by
      intro f hf
      rw [p2.wf]
      exact hsorted.2.2 f hf _ hcur_rem
    have hnext : nextFile (writeTouches g l names).1.files (writeTouches g l names).1.cur =
        nextFile rem (writeTouches g l names).1.cur := by
      rw [hsplit]
      unfold nextFile
      rw [List.find?_append]
      have : del.find? (fun x => decide ((writeTouches g l names).1.cur < x)) = none := by
        rw [List.find?_eq_none]
        intro f hf
        have := hsorted.2.2 f hf _ hcur_rem
        simp only [decide_eq_true_eq]; omega
      rw [this]; rfl
    refine ⟨σ2, ?_, ⟨p2.wf, p2.wrt, ?_, ?_, ⟨hsorted.2.1, hcur_rem⟩⟩⟩
    · rw [pd_append, pd_append, q1]
      simp only [Option.bind_some]
      rw [q2]
      exact pd_unlinks _ del σ2 hdel hd hn c2
    · show σ2.nxt = nextFile rem (writeTouches g l names).1.cur
      rw [← hnext]; exact p2.nxt
    · intro f hf hlt
      exact p2.one f (by rw [hsplit]; exact List.mem_append_right _ hf) hlt

/-- the sync tail of a call -/
theorem pd_tailSync (fb : Nat) (l : Log) (c : Call) (tick : Bool) (σ : PDX) (h : PDLX σ l) :
    ∃ σ', pd fb σ (Step.tailSync l c tick) = some σ' ∧ PDLX σ' l := by
  unfold Step.tailSync
  split
  · obtain ⟨σ', h1, h2, _⟩ := pd_persist fb l .flushAndFsync σ h
    exact ⟨σ', h1, h2⟩
  · unfold policyEffects
    split
    · obtain ⟨σ', h1, h2, _⟩ := pd_persist fb l _ σ h
      exact ⟨σ', h1, h2⟩
    · split
      · obtain ⟨σ', h1, h2, _⟩ := pd_persist fb l _ σ h
        exact ⟨σ', h1, h2⟩
      · exact ⟨σ, rfl, h⟩
    · exact ⟨σ, rfl, h⟩

/-- **one call** -/
theorem pd_step (g : Geom) (l : Log) (c : Call) (tick : Bool) (order : List Bytes) (σ : PDX) (h : PDLX σ l) :
    ∃ σ', pd g.fileBytes σ (l.step g c tick order).2.2 = some σ' ∧ PDLX σ' (l.step g c tick order).1 := by
  rcases Step.step_shape2 g l c tick order with ⟨out, hs⟩ | ⟨a, _, hs⟩ | ⟨e, qs', out, hs⟩
  · rw [hs]; exact ⟨σ, rfl, h⟩
  · rw [hs]
    obtain ⟨σ', h1, h2, _⟩ := pd_persist g.fileBytes l a σ h
    exact ⟨σ', h1, h2⟩
  · rw [hs]
    simp only
    obtain ⟨σ1, q1, p1⟩ := pd_writeEntry g l e σ h
    have p1' : PDLX σ1 ({ (Log.writeEntry g l e).1 with queues := qs' } : Log) := p1.congr rfl rfl
    cases hgc : Step.isGcCall c with
    | false =>
      simp only [hgc, Bool.false_eq_true, if_false, List.append_nil]
      obtain ⟨σ3, q3, p3⟩ := pd_tailSync g.fileBytes _ c tick σ1 p1'
      exact ⟨σ3, by rw [pd_append, q1]; exact q3, p3⟩
    | true =>
      simp only [hgc, if_true]
      obtain ⟨σ2, q2, p2⟩ := pd_runGc g _ order σ1 p1'
      obtain ⟨σ3, q3, p3⟩ := pd_tailSync g.fileBytes _ c tick σ2 p2
      refine ⟨σ3, ?_, p3⟩
      rw [pd_append, pd_append, q1]
      simp only [Option.bind_some]
      rw [q2]
      exact q3

/-- **`open`** after dropping the log: `flush` (the drop), `ensureLen` on the first file, the GC pass;
    `lp` is the log read back from the disk, which tracks the same files as `l` -/
theorem pd_reopen (g : Geom) (l lp : Log) (order : List Bytes) (σ : PDX) (h : PDLX σ l)
    (hf : lp.files = l.files) (hc : lp.cur = l.cur) :
    ∃ σ', pd g.fileBytes σ (Effect.flush :: ([Effect.ensureLen (lp.files.headD 0) g.fileBytes] ++
        (runGc g lp order).2.1)) = some σ' ∧ PDLX σ' (runGc g lp order).1 := by
  have hp : PDLX { σ with clean := true } lp :=
    PDLX.congr (l := l) ⟨h.wf, h.wrt, h.nxt, h.one, h.fw⟩ hf hc
  obtain ⟨σ', q, p⟩ := pd_runGc g lp order _ hp
  refine ⟨σ', ?_, p⟩
  have hle : lp.files.headD 0 ≤ σ.wf := by
    rw [h.wf, ← hc]
    exact head_le_of_mem hp.fw.sorted hp.fw.cur_mem
  simp only [pd, pd1, Option.bind_some, List.cons_append, List.nil_append]
  rw [if_pos hle, if_pos ⟨h.wrt, trivial, trivial⟩]
  exact q

/-- effects ending with `flush, fsync(file), fsync(dir)`: everything is durable -/
theorem pd_triple_end (fb : Nat) (σ σ' : PDX) (pre : List Effect) (f : Nat)
    (h : pd fb σ (pre ++ [.flush, .fsyncFile f, .fsyncDir]) = some σ') :
    σ'.dirty = false ∧ σ'.named = true ∧ σ'.clean = true := by
  rw [pd_append] at h
  cases h1 : pd fb σ pre with
  | none => rw [h1] at h; cases h
  | some σ1 =>
    rw [h1] at h
    simp only [Option.bind_some, pd, pd1] at h
    split at h
    · simp only [Option.bind_some] at h
      split at h
      · rename_i hc
        simp only [Option.bind_some, Option.some.injEq] at h
        subst h
        exact ⟨rfl, rfl, rfl⟩
      · cases h
    · cases h

end MRL.PX
