/-
Crash while a call writes its entry and the GC touches, from a state satisfying the relaxed
invariant: at ANY byte, `open` succeeds with the queues before or after the call up to the file
handles, and the recovered log satisfies the relaxed invariant again.
-/
import MRL.Proofs.LInv
import MRL.Proofs.HAtomic

namespace MRL.L
open MRL Codec Consts G H Torn Log Buf C05 C01J

/-- `open` succeeds on `X` with the queues before the call or after it, up to the handles -/
def XRes (g : Geom) (qsBefore qsAfter : MemQueues) (X : Image) : Prop :=
  ∀ policy, ∃ lp e0 io, recoverPre g X policy none = .ok (lp, e0, io) ∧
    (AbsEq lp.queues qsBefore ∨ AbsEq lp.queues qsAfter)

/-- … and the recovered log satisfies the relaxed invariant on `X` -/
def XInvRes (g : Geom) (qsBefore qsAfter : MemQueues) (X : Image) : Prop :=
  ∀ policy, ∃ (J' : List JE) (lp : Log) (io F' : Nat),
    recoverPre g X policy none = .ok (lp, [.ensureLen F' g.fileBytes], io) ∧ lp.files.headD 0 = F' ∧
    CInvX g lp J' X ∧ (∀ j ∈ J', C07.WF j.e) ∧ lp.policy = policy ∧
    (AbsEq lp.queues qsBefore ∨ AbsEq lp.queues qsAfter)

theorem XInvRes.xres {g : Geom} {qB qA : MemQueues} {X : Image} (h : XInvRes g qB qA X) : XRes g qB qA X := by
  intro policy
  obtain ⟨J', lp, io, F', h1, _, _, _, _, h5⟩ := h policy
  exact ⟨lp, _, io, h1, h5⟩

theorem filterMap_take {α β : Type} (f : α → Option β) : ∀ (l : List α) (k : Nat),
    ∃ i, i ≤ (l.filterMap f).length ∧ (l.take k).filterMap f = (l.filterMap f).take i := by
  intro l
  induction l with
  | nil => intro k; exact ⟨0, Nat.le_refl _, by simp⟩
  | cons a l ih =>
    intro k
    cases k with
    | zero => exact ⟨0, Nat.zero_le _, by simp⟩
    | succ k =>
      obtain ⟨i, hi, he⟩ := ih k
      rw [List.take_succ_cons, List.filterMap_cons, List.filterMap_cons]
      cases f a with
      | none => exact ⟨i, hi, he⟩
      | some b => exact ⟨i + 1, by simpa using hi, by simp [he]⟩

/-- the replays of the journal extended by a prefix of the new entries of a write phase -/
theorem phase_replays (g : Geom) {l : Log} {J : List JE} (hJ : JInv l J) (e : Entry) (qs' : MemQueues)
    (hewf : EntryWF e) (hre : replayEntry l.queues l.cur e = some qs')
    (hinv2 : Inv ({ (Log.writeEntry g l e).1 with queues := qs' } : Log)) (names : List Bytes)
    (hnames : ∀ n ∈ names, n ∈ qs'.emptyNames) (i : Nat) :
    ∃ q, replayJ (l.files.headD 0) []
        (J ++ (l.je g e :: touchesJ g { (Log.writeEntry g l e).1 with queues := qs' } names).take i) = some q ∧
      (AbsEq q l.queues ∨ AbsEq q qs') := by
  have hF : l.files.headD 0 ≤ l.cur := head_le_of_mem hJ.h.files.sorted hJ.h.files.cur_mem
  have h2 := jinv_write g hJ e qs' hewf hre hinv2
  have hgrow := writeEntry_grow g l e hJ.h.files
  have hF2 : l.files.headD 0 ≤ ({ (Log.writeEntry g l e).1 with queues := qs' } : Log).cur :=
    Nat.le_trans hF hgrow.cur_le
  obtain ⟨hHl, chunk, qs, hrep, heq, hqwf⟩ := hJ
  cases i with
  | zero =>
    exact ⟨qs, by simpa using hrep, Or.inl (AbsEq.of_qsEquiv heq)⟩
  | succ i =>
    have hexact : replayJ (l.files.headD 0) l.queues
        (l.je g e :: (touchesJ g { (Log.writeEntry g l e).1 with queues := qs' } names).take i) = some qs' := by
      have : l.je g e :: (touchesJ g { (Log.writeEntry g l e).1 with queues := qs' } names).take i =
          [l.je g e] ++ touchesJ g { (Log.writeEntry g l e).1 with queues := qs' } (names.take i) := by
        rw [touchesJ_take]; rfl
      rw [this, replayJ_append, replay_je g l e qs' _ hF hre]
      exact touches_replay g (l.files.headD 0) (names.take i) _ h2.h.files hF2 hinv2.1
        (fun n hn => hnames n (List.mem_of_mem_take hn))
    obtain ⟨q1, r1, r2, _⟩ := extend_rep hHl.inv hrep heq hqwf hexact
    exact ⟨q1, by rw [List.take_succ_cons]; exact r1, Or.inr (AbsEq.of_qsEquiv r2)⟩

/-- **crash while the entry and the touches are written**, from a relaxed state, at any byte -/
theorem write_phase_crashX (g : Geom) (hB : g.B ≤ 65542) {l : Log} {J : List JE} {D : Image}
    (h : CInvX g l J D) (e : Entry) (qs' : MemQueues) (hewf : EntryWF e)
    (hre : replayEntry l.queues l.cur e = some qs')
    (hinv2 : Inv ({ (Log.writeEntry g l e).1 with queues := qs' } : Log)) (names : List Bytes)
    (hnames : ∀ n ∈ names, n ∈ qs'.emptyNames)
    (hwf : ∀ j ∈ J ++ l.je g e :: touchesJ g { (Log.writeEntry g l e).1 with queues := qs' } names, C07.WF j.e)
    (htorn : TornEffs ((Log.writeEntry g l e).2.1 ++
      (writeTouches g { (Log.writeEntry g l e).1 with queues := qs' } names).2.1))
    (w : Bool) (X : Image)
    (hX : CutW w D ((Log.writeEntry g l e).2.1 ++
      (writeTouches g { (Log.writeEntry g l e).1 with queues := qs' } names).2.1) X) :
    XInvRes g l.queues qs' X := by
  have h2 := cinvx_write g h e qs' hewf hre hinv2
  -- explicit witnesses along the write phase
  obtain ⟨init, t, x, res, ais, lead, gs, x0⟩ := h.disk
  obtain ⟨i1, t1, x1, ntf1, B1, y1, _, _, _, hcut1⟩ := entry_extX g x0 e
  have y1' : XInvX g ({ (Log.writeEntry g l e).1 with queues := qs' } : Log)
      (applyOsOps D (directOps (Log.writeEntry g l e).2.1)) (l.files.headD 0) (J ++ [l.je g e]) i1 t1 x1 []
      (ais ++ plain ntf1) lead (gs ++ [(some (l.je g e), plain ntf1)]) := y1.congr rfl rfl rfl
  obtain ⟨i3, t3, x3, r3, ais3, gs3, y3, hcut3⟩ :=
    touches_extX g (l.files.headD 0) lead names _ _ _ _ _ _ _ _ _ y1'
  -- journal facts for the whole write phase
  have hch1 := je_chunk g l e h.jinv.h.files hewf
  have hch2 := touchesJ_chunk g names _ h2.jinv.h.files
  have hJeq : J ++ l.je g e :: touchesJ g { (Log.writeEntry g l e).1 with queues := qs' } names =
      J ++ [l.je g e] ++ touchesJ g { (Log.writeEntry g l e).1 with queues := qs' } names := by simp
  have hchunk3 := h2.jinv.chunk.append hch2
  rw [← hJeq] at hchunk3
  have hreps := phase_replays g h.jinv e qs' hewf hre hinv2 names hnames
  have hsub : ∀ i, (J ++ (l.je g e :: touchesJ g { (Log.writeEntry g l e).1 with queues := qs' } names).take i).Sublist
      (J ++ l.je g e :: touchesJ g { (Log.writeEntry g l e).1 with queues := qs' } names) :=
    fun i => List.Sublist.append_left (List.take_sublist _ _) _
  have hwhole : ∀ i, DiskX g X (l.files.headD 0)
      (J ++ (l.je g e :: touchesJ g { (Log.writeEntry g l e).1 with queues := qs' } names).take i) →
      XInvRes g l.queues qs' X := by
    intro i hd policy
    obtain ⟨q, hq, hqe⟩ := hreps i
    obtain ⟨J', lp, io, hrec, hc, hw, hab, hpol, hhead⟩ := open_diskX g hB hd
      (fun j hj => hwf j ((hsub i).subset hj)) (fun j hj => hchunk3.wf j ((hsub i).subset hj))
      (hchunk3.mono.sublist (hsub i)) q hq policy
    refine ⟨J', lp, io, _, hrec, hhead, hc, hw, hpol, ?_⟩
    rcases hqe with hqe | hqe
    · exact Or.inl (hab.symm.trans hqe)
    · exact Or.inr (hab.symm.trans hqe)
  rcases CutW.of_append _ hX with hX | hX
  · rcases hcut1 (fun t p f off hm => htorn t p f off (List.mem_append_left _ hm)) w X hX with hd | hd
    · exact hwhole 0 (by simpa using hd)
    · exact hwhole 1 (by simpa using hd)
  · obtain ⟨i, _, hd⟩ := hcut3 (fun t p f off hm => htorn t p f off (List.mem_append_right _ hm)) w X hX
    exact hwhole (i + 1) (by rw [List.take_succ_cons]; simpa [List.append_assoc] using hd)

end MRL.L
