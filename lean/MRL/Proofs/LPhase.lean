/-
Crash while a call writes its entry and the GC touches, from a state satisfying the relaxed
invariant: at any byte, `open` succeeds with the queues before or after the call up to the file
handles; at an effect boundary moreover the recovered log satisfies the relaxed invariant again.
-/
import MRL.Proofs.LInv
import MRL.Proofs.HAtomic

namespace MRL.L
open MRL Codec Consts G H Torn Log Buf C05 C01J

/-- `open` succeeds on `X` with the queues before the call or after it, up to the handles -/
def XRes (g : Geom) (qsBefore qsAfter : MemQueues) (X : Image) : Prop :=
  ∀ policy, ∃ lp e0 io, recoverPre g X policy none = .ok (lp, e0, io) ∧
    (AbsEq lp.queues qsBefore ∨ AbsEq lp.queues qsAfter)

/-- … and the recovered log satisfies the relaxed invariant on `X` -/
def XInvRes (g : Geom) (qsBefore qsAfter : MemQueues) (X : Image) : Prop :=
  ∀ policy, ∃ (J' : List JE) (lp : Log) (io F' : Nat),
    recoverPre g X policy none = .ok (lp, [.ensureLen F' g.fileBytes], io) ∧ lp.files.headD 0 = F' ∧
    CInvX g lp J' X ∧ (∀ j ∈ J', C07.WF j.e) ∧ lp.policy = policy ∧
    (AbsEq lp.queues qsBefore ∨ AbsEq lp.queues qsAfter)

theorem XInvRes.xres {g : Geom} {qB qA : MemQueues} {X : Image} (h : XInvRes g qB qA X) : XRes g qB qA X := by
  intro policy
  obtain ⟨J', lp, io, F', h1, _, _, _, _, h5⟩ := h policy
  exact ⟨lp, _, io, h1, h5⟩

theorem filterMap_take {α β : Type} (f : α → Option β) : ∀ (l : List α) (k : Nat),
    ∃ i, i ≤ (l.filterMap f).length ∧ (l.take k).filterMap f = (l.filterMap f).take i := by
  intro l
  induction l with
  | nil => intro k; exact ⟨0, Nat.le_refl _, by simp⟩
  | cons a l ih =>
    intro k
    cases k with
    | zero => exact ⟨0, Nat.zero_le _, by simp⟩
    | succ k =>
      obtain ⟨i, hi, he⟩ := ih k
      rw [List.take_succ_cons, List.filterMap_cons, List.filterMap_cons]
      cases f a with
      | none => exact ⟨i, hi, he⟩
      | some b => exact ⟨i + 1, by simpa using hi, by simp [he]⟩

/-- the replays of the journal extended by a prefix of the new entries of a write phase -/
theorem phase_replays (g : Geom) {l : Log} {J : List JE} (hJ : JInv l J) (e : Entry) (qs' : MemQueues)
    (hewf : EntryWF e) (hre : replayEntry l.queues l.cur e = some qs')
    (hinv2 : Inv ({ (Log.writeEntry g l e).1 with queues := qs' } : Log)) (names : List Bytes)
    (hnames : ∀ n ∈ names, n ∈ qs'.emptyNames) (i : Nat) :
    ∃ q, replayJ (l.files.headD 0) []
        (J ++ (l.je g e :: touchesJ g { (Log.writeEntry g l e).1 with queues := qs' } names).take i) = some q ∧
      (AbsEq q l.queues ∨ AbsEq q qs') := by
  have hF : l.files.headD 0 ≤ l.cur := head_le_of_mem hJ.h.files.sorted hJ.h.files.cur_mem
  have h2 := jinv_write g hJ e qs' hewf hre hinv2
  have hgrow := writeEntry_grow g l e hJ.h.files
  have hF2 : l.files.headD 0 ≤ ({ (Log.writeEntry g l e).1 with queues := qs' } : Log).cur :=
    Nat.le_trans hF hgrow.cur_le
  obtain ⟨hHl, chunk, qs, hrep, heq, hqwf⟩ := hJ
  cases i with
  | zero =>
    exact ⟨qs, by simpa using hrep, Or.inl (AbsEq.of_qsEquiv heq)⟩
  | succ i =>
    have hexact : replayJ (l.files.headD 0) l.queues
        (l.je g e :: (touchesJ g { (Log.writeEntry g l e).1 with queues := qs' } names).take i) = some qs' := by
      have : l.je g e :: (touchesJ g { (Log.writeEntry g l e).1 with queues := qs' } names).take i =
          [l.je g e] ++ touchesJ g { (Log.writeEntry g l e).1 with queues := qs' } (names.take i) := by
        rw [touchesJ_take]; rfl
      rw [this, replayJ_append, replay_je g l e qs' _ hF hre]
      exact touches_replay g (l.files.headD 0) (names.take i) _ h2.h.files hF2 hinv2.1
        (fun n hn => hnames n (List.mem_of_mem_take hn))
    obtain ⟨q1, r1, r2, _⟩ := extend_rep hHl.inv hrep heq hqwf hexact
    exact ⟨q1, by rw [List.take_succ_cons]; exact r1, Or.inr (AbsEq.of_qsEquiv r2)⟩

/-- reading any crash state (any byte) of a write phase -/
theorem phase_readX (g : Geom) (hB : g.B ≤ 65542) {l l3 : Log} {D D3 : Image} {F : Nat} {J Jnew : List JE}
    {init init3 : List Bytes} {t t3 : Bytes} {x x3 : Bool} {afs ntf lead : List TFrm} {gs newgs : List Grp}
    (h0 : XInvX g l D F J init t x afs lead gs)
    (h3 : XInvX g l3 D3 F (J ++ Jnew) init3 t3 x3 (afs ++ ntf) lead (gs ++ newgs))
    (hlen3 : (init3.flatten ++ t3).length = endPos g 0 (untag (afs ++ ntf)))
    (hnewloc : ∀ j ∈ Jnew, F ≤ j.loc)
    (hwf : ∀ j ∈ J ++ Jnew, C07.WF j.e)
    (qf : MemQueues) (hrep : replayJ F [] (J ++ Jnew) = some qf)
    (htorn : ∀ a ∈ ntf, TornFrame a.2.1 a.2.2)
    (X : Image) (Pm : Bytes) (hX : CTape g F Pm X)
    (hcut : PrefixCut (init.flatten ++ t) (init3.flatten ++ t3) Pm) (policy : Policy) :
    ∃ i qs lp e0 io, i ≤ Jnew.length ∧ replayJ F [] (J ++ Jnew.take i) = some qs ∧
      recoverPre g X policy none = .ok (lp, e0, io) ∧ AbsEq qs lp.queues := by
  obtain ⟨cs, hne, hfull, ⟨z, hflat⟩, hXform⟩ := hX
  obtain ⟨m, hm1, hm2, hPm⟩ := hcut
  have hPf : init3.flatten ++ t3 = (layoutBufs g 0 (untag (afs ++ ntf))).flatten := by
    have := h3.lay.bytes
    rw [hlen3, Nat.sub_self] at this
    simpa [zeros] using this
  have hnewmap : (liveOf newgs).map (·.1) = Jnew := by
    have hm := h3.hmap
    rw [liveOf_append, List.map_append, List.filter_append, h0.hmap] at hm
    have := List.append_cancel_left hm
    rw [this, List.filter_eq_self]
    intro j hj; simpa using hnewloc j hj
  have hE0 : endPos g 0 (untag afs) ≤ (init.flatten ++ t).length := by
    rcases h0.lay.len with h | h
    · omega
    · have := le_hdrPos g (endPos g 0 (untag afs)); omega
  have hrepf : replayJ F [] ((liveOf (gs ++ newgs)).map (·.1)) = some qf := by
    rw [h3.hmap, ← replayJ_filter]; exact hrep
  obtain ⟨j1, qs, lp, e0, io, hj1, hj2, hq, hrec, hlq⟩ := crash_readX g hB F cs hne hfull X hXform
    (afs ++ ntf) h3.lay.fits h3.lay.tagged lead (gs ++ newgs) h3.hafs h3.hlead h3.hok
    (by
      intro s hs
      have : s.1 ∈ (liveOf (gs ++ newgs)).map (·.1) := List.mem_map_of_mem (f := (·.1)) hs
      rw [h3.hmap] at this
      have := List.mem_filter.mp this
      exact ⟨hwf _ this.1, by simpa using this.2⟩)
    qf hrepf m z (by rw [← hlen3]; exact hm2) (by rw [hflat, hPm, hPf])
    gs.length (by simp)
    (by
      rw [List.take_left' rfl, ← h0.hafs]
      omega)
    (by
      intro fs1 tt p fs2 hsplit hlt
      have hmem : (tt, p) ∈ untag ntf := by
        rw [untag_append] at hsplit
        rcases List.append_eq_append_iff.mp hsplit with ⟨a', h1, h2⟩ | ⟨c', h1, h2⟩
        · cases a' with
          | nil =>
            simp only [List.append_nil] at h1 h2
            rw [h2]; simp
          | cons x xs =>
            rw [h2]
            simp
        · cases c' with
          | nil =>
            simp only [List.nil_append] at h2
            rw [← h2]; simp
          | cons x xs =>
            exfalso
            simp only [List.cons_append, List.cons.injEq] at h2
            obtain ⟨rfl, _⟩ := h2
            have : endPos g 0 (fs1 ++ [(tt, p)]) ≤ endPos g 0 (untag afs) := by
              rw [h1, show fs1 ++ (tt, p) :: xs = (fs1 ++ [(tt, p)]) ++ xs by simp]
              exact endPos_mono g 0 _ _
            omega
      obtain ⟨a, ha, hae⟩ := List.mem_map.mp hmem
      have := htorn a ha
      have h1 : a.2.1 = tt := by rw [hae]
      have h2 : a.2.2 = p := by rw [hae]
      rw [h1, h2] at this; exact this)
    policy
  have htk : (gs ++ newgs).take j1 = gs ++ newgs.take (j1 - gs.length) := by
    rw [List.take_append, List.take_of_length_le hj1]
  obtain ⟨i, hi, hie⟩ := filterMap_take (fun y : Grp => y.1.map fun j => (j, y.2)) newgs (j1 - gs.length)
  have hie' : liveOf (newgs.take (j1 - gs.length)) = (liveOf newgs).take i := hie
  refine ⟨i, qs, lp, e0, io, ?_, ?_, hrec, hlq⟩
  · rw [← hnewmap]; simpa [liveOf] using hi
  · rw [replayJ_filter, List.filter_append, ← h0.hmap]
    rw [htk, liveOf_append, List.map_append, hie', List.map_take, hnewmap] at hq
    have hfl : (Jnew.take i).filter (fun j => decide (F ≤ j.loc)) = Jnew.take i := by
      rw [List.filter_eq_self]
      intro j hj; simpa using hnewloc j (List.mem_of_mem_take hj)
    rw [hfl]
    exact hq

/-- **crash while the entry and the touches are written**, from a relaxed state -/
theorem write_phase_crashX (g : Geom) (hB : g.B ≤ 65542) {l : Log} {J : List JE} {D : Image}
    (h : CInvX g l J D) (e : Entry) (qs' : MemQueues) (hewf : EntryWF e)
    (hre : replayEntry l.queues l.cur e = some qs')
    (hinv2 : Inv ({ (Log.writeEntry g l e).1 with queues := qs' } : Log)) (names : List Bytes)
    (hnames : ∀ n ∈ names, n ∈ qs'.emptyNames)
    (hwf : ∀ j ∈ J ++ l.je g e :: touchesJ g { (Log.writeEntry g l e).1 with queues := qs' } names, C07.WF j.e)
    (htorn : TornEffs ((Log.writeEntry g l e).2.1 ++
      (writeTouches g { (Log.writeEntry g l e).1 with queues := qs' } names).2.1))
    (w : Bool) (X : Image)
    (hX : CutW w D ((Log.writeEntry g l e).2.1 ++
      (writeTouches g { (Log.writeEntry g l e).1 with queues := qs' } names).2.1) X) :
    XRes g l.queues qs' X ∧ (w = true → XInvRes g l.queues qs' X) := by
  have hF : l.files.headD 0 ≤ l.cur := head_le_of_mem h.jinv.h.files.sorted h.jinv.h.files.cur_mem
  have h2 := cinvx_write g h e qs' hewf hre hinv2
  have hgrow := writeEntry_grow g l e h.jinv.h.files
  have hF2 : l.files.headD 0 ≤ ({ (Log.writeEntry g l e).1 with queues := qs' } : Log).cur :=
    Nat.le_trans hF hgrow.cur_le
  -- explicit witnesses along the write phase
  obtain ⟨init, t, x, afs, lead, gs, x0⟩ := h.disk
  obtain ⟨i1, t1, x1, ntf1, B1, y1, hne1, hlen1, hP1, hcut1, hmem1⟩ := entry_extX g x0 e
  have y1' : XInvX g ({ (Log.writeEntry g l e).1 with queues := qs' } : Log)
      (applyOsOps D (directOps (Log.writeEntry g l e).2.1)) (l.files.headD 0) (J ++ [l.je g e]) i1 t1 x1
      (afs ++ ntf1) lead (gs ++ [(some (l.je g e), ntf1)]) := y1.congr rfl rfl rfl
  obtain ⟨i3, t3, x3, ntf2, ns2, B2, y3, hlen3, hnil3, hP3, hcut3, hmem3⟩ :=
    touches_extX g (l.files.headD 0) lead names _ _ _ _ _ _ _ _ y1'
  -- journal facts for the whole write phase
  have hch1 := je_chunk g l e h.jinv.h.files hewf
  have hch2 := touchesJ_chunk g names _ h2.jinv.h.files
  have hJeq : J ++ l.je g e :: touchesJ g { (Log.writeEntry g l e).1 with queues := qs' } names =
      J ++ [l.je g e] ++ touchesJ g { (Log.writeEntry g l e).1 with queues := qs' } names := by simp
  have hchunk3 := h2.jinv.chunk.append hch2
  rw [← hJeq] at hchunk3
  have hreps := phase_replays g h.jinv e qs' hewf hre hinv2 names hnames
  have hnewloc : ∀ j ∈ l.je g e :: touchesJ g { (Log.writeEntry g l e).1 with queues := qs' } names,
      l.files.headD 0 ≤ j.loc := by
    intro j hj
    rcases List.mem_cons.mp hj with rfl | hj
    · have := hch1.bounds (l.je g e) (by simp); omega
    · have := hch2.bounds j hj; omega
  -- facts about the prefixes of the new journal
  have hsub : ∀ i, (J ++ (l.je g e :: touchesJ g { (Log.writeEntry g l e).1 with queues := qs' } names).take i).Sublist
      (J ++ l.je g e :: touchesJ g { (Log.writeEntry g l e).1 with queues := qs' } names) :=
    fun i => List.Sublist.append_left (List.take_sublist _ _) _
  -- every crash state holding whole frames
  have hwhole : ∀ i, DiskX g X (l.files.headD 0)
      (J ++ (l.je g e :: touchesJ g { (Log.writeEntry g l e).1 with queues := qs' } names).take i) →
      XInvRes g l.queues qs' X := by
    intro i hd policy
    obtain ⟨q, hq, hqe⟩ := hreps i
    obtain ⟨J', lp, io, hrec, hc, hw, hab, hpol, hhead⟩ := open_diskX g hB hd
      (fun j hj => hwf j ((hsub i).subset hj)) (fun j hj => hchunk3.wf j ((hsub i).subset hj))
      (hchunk3.mono.sublist (hsub i)) q hq policy
    refine ⟨J', lp, io, _, hrec, hhead, hc, hw, hpol, ?_⟩
    rcases hqe with hqe | hqe
    · exact Or.inl (hab.symm.trans hqe)
    · exact Or.inr (hab.symm.trans hqe)
  -- the crash state is a crash tape of the final bytes
  have hlenF : (i3.flatten ++ t3).length = endPos g 0 (untag (afs ++ ntf1 ++ ntf2)) := by
    by_cases hn : names = []
    · obtain ⟨a1, _, a3⟩ := hnil3 hn
      subst a1
      rw [List.append_nil, hP3, a3, List.append_nil]
      exact hlen1
    · exact (hlen3 hn).2
  have hctape : ∃ Pm, RTape g (l.files.headD 0) Pm X ∧ PrefixCut (init.flatten ++ t) (i3.flatten ++ t3) Pm ∧
      (w = true → ∃ i, DiskX g X (l.files.headD 0)
        (J ++ (l.je g e :: touchesJ g { (Log.writeEntry g l e).1 with queues := qs' } names).take i)) := by
    rcases CutW.of_append _ hX with hX | hX
    · obtain ⟨Pm, c1, c2, c3⟩ := hcut1 w X hX
      refine ⟨Pm, c1, by rw [hP3]; exact c2.extend B2, ?_⟩
      intro hw
      rcases c3 hw with hd | hd
      · exact ⟨0, by simpa using hd⟩
      · exact ⟨1, by simpa using hd⟩
    · obtain ⟨Pm, c1, c2, c3⟩ := hcut3 w X hX
      refine ⟨Pm, c1, by rw [hP1] at c2; exact c2.shift, ?_⟩
      intro hw
      obtain ⟨i, _, hd⟩ := c3 hw
      exact ⟨i + 1, by rw [List.take_succ_cons]; simpa [List.append_assoc] using hd⟩
  obtain ⟨Pm, hct, hpc, hpw⟩ := hctape
  refine ⟨?_, fun hw => by obtain ⟨i, hd⟩ := hpw hw; exact hwhole i hd⟩
  intro policy
  have y3' : XInvX g (writeTouches g { (Log.writeEntry g l e).1 with queues := qs' } names).1
      (applyOsOps (applyOsOps D (directOps (Log.writeEntry g l e).2.1))
        (directOps (writeTouches g { (Log.writeEntry g l e).1 with queues := qs' } names).2.1))
      (l.files.headD 0) (J ++ l.je g e :: touchesJ g { (Log.writeEntry g l e).1 with queues := qs' } names)
      i3 t3 x3 (afs ++ (ntf1 ++ ntf2)) lead (gs ++ ((some (l.je g e), ntf1) :: ns2)) := by
    have := y3
    rw [← hJeq] at this
    rw [List.append_assoc afs, show gs ++ [(some (l.je g e), ntf1)] ++ ns2 =
      gs ++ ((some (l.je g e), ntf1) :: ns2) by simp] at this
    exact this
  obtain ⟨qf, hqf, _⟩ := hreps (names.length + 1)
  rw [List.take_of_length_le (by simp [touchesJ_length])] at hqf
  obtain ⟨i, qsr, lp, e0, io, hi, hqr, hrec, hlq⟩ := phase_readX g hB x0 y3'
    (by rw [← List.append_assoc]; exact hlenF) hnewloc hwf qf hqf
    (by
      intro a ha
      have hm : ∃ f off, Effect.write f off (encodeFrame a.2.1 a.2.2) ∈ (Log.writeEntry g l e).2.1 ++
          (writeTouches g { (Log.writeEntry g l e).1 with queues := qs' } names).2.1 := by
        rcases List.mem_append.mp ha with ha | ha
        · obtain ⟨f, off, hm⟩ := hmem1 a ha
          exact ⟨f, off, List.mem_append_left _ hm⟩
        · obtain ⟨f, off, hm⟩ := hmem3 a ha
          exact ⟨f, off, List.mem_append_right _ hm⟩
      obtain ⟨f, off, hm⟩ := hm
      exact htorn _ _ f off hm)
    X Pm hct.ctape hpc policy
  obtain ⟨q, hq, hqe⟩ := hreps i
  rw [hqr] at hq
  cases hq
  refine ⟨lp, e0, io, hrec, ?_⟩
  rcases hqe with hqe | hqe
  · exact Or.inl (hlq.symm.trans hqe)
  · exact Or.inr (hlq.symm.trans hqe)

end MRL.L
