/-
C02 at the byte level: the master theorem, case by case.
-/
import MRL.Proofs.TornCases

namespace MRL.Torn
open MRL Consts Codec

section
variable (g : Geom) (hB : g.B ≤ 65542) (file c : Nat) (hc : c < g.B) (es : List Bytes)

theorem bytes_eq : (C07.writeEntriesBufs g c hc es).flatten = (layoutBufs g c (framesOf g c hc es)).flatten := by
  rw [(framesOf_spec g es c hc).1]

include hB in
/-- the reader delivered exactly the complete frames `fs1` (plus maybe a corrupt event), the
    image is clean after the raw frames `xs`: `j = m` -/
theorem clean_j1 (fs1 : List Frm) (t : FrameType) (p : Bytes) (fs2 : List Frm)
    (hfs : framesOf g c hc es = fs1 ++ (t, p) :: fs2) (k z n : Nat)
    (C : List RdEv) (hC : C = [] ∨ C = [RdEv.corrupt file]) (xs : List Raw)
    (hev : tagEvs file (xs.map Raw.ev) = tagF file fs1 ++ C) (hfx : FitsRaw g c xs) (D : Nat) (hD : 14 ≤ D)
    (hS : (C07.writeEntriesBufs g c hc es).flatten.take k ++ zeros z = (rawLayout g c xs).flatten ++ zeros D)
    (hlen : (zeros c ++ ((C07.writeEntriesBufs g c hc es).flatten.take k ++ zeros z)).length = (n + 1) * g.B)
    (hlo : (layoutBufs g c fs1).flatten.length ≤ k)
    (hhi : k < (layoutBufs g c (fs1 ++ [(t, p)])).flatten.length) :
    Goal g file c hc es k (zeros c ++ ((C07.writeEntriesBufs g c hc es).flatten.take k ++ zeros z)) n := by
  obtain ⟨j1, gp1, gs', hj, h1, h2, h3⟩ := next_frame g es c hc fs1 t p fs2 hfs
  have hm := count_cut g es c hc fs1 t p j1 gp1 gs' k hj h1 h3 hlo hhi
  have hG := (framesOf_spec g (es.take j1) c hc).2.1
  have hfin := finish_clean g hB file c hc (es.take j1) _ gp1 hG (Or.inr ⟨(t, p) :: gs', by simp, h2⟩) C hC xs
    (by rw [hev, h1]) hfx _ n D hlen (by rw [hS]) hD
  exact ⟨j1, _, Or.inl hm.symm, fun h => by omega, hfin⟩

include hB in
/-- the same with a torn header after the raw frames -/
theorem torn_j1 (fs1 : List Frm) (t : FrameType) (p : Bytes) (fs2 : List Frm)
    (hfs : framesOf g c hc es = fs1 ++ (t, p) :: fs2) (k z n : Nat) (hz : g.B + 7 ≤ z)
    (hd : Bytes) (hl : hd.length ≤ 6) (hnz : isAllZero hd = false)
    (hS : (C07.writeEntriesBufs g c hc es).flatten.take k ++ zeros z =
      (rawLayout g c (fs1.map good)).flatten ++
        (zeros (padLen g ((c + (rawLayout g c (fs1.map good)).flatten.length) % g.B)) ++ (hd ++ zeros z)))
    (hff : Fits g c fs1)
    (hlen : (zeros c ++ ((C07.writeEntriesBufs g c hc es).flatten.take k ++ zeros z)).length = (n + 1) * g.B)
    (hlo : (layoutBufs g c fs1).flatten.length ≤ k)
    (hhi : k < (layoutBufs g c (fs1 ++ [(t, p)])).flatten.length) :
    Goal g file c hc es k (zeros c ++ ((C07.writeEntriesBufs g c hc es).flatten.take k ++ zeros z)) n := by
  obtain ⟨j1, gp1, gs', hj, h1, h2, h3⟩ := next_frame g es c hc fs1 t p fs2 hfs
  have hm := count_cut g es c hc fs1 t p j1 gp1 gs' k hj h1 h3 hlo hhi
  have hG := (framesOf_spec g (es.take j1) c hc).2.1
  have hfin := finish_torn g hB file c hc (es.take j1) _ gp1 hG (Or.inr ⟨(t, p) :: gs', by simp, h2⟩)
    (fs1.map good) (by rw [tagEvs_good, h1]) (FitsRaw_good g c fs1 hff) hd hl hnz _ n z hlen (by rw [hS]) hz
  exact ⟨j1, _, Or.inl hm.symm, fun h => by omega, hfin⟩

theorem ctx_facts (fs1 : List Frm) (t : FrameType) (p : Bytes) (fs2 : List Frm)
    (hfs : framesOf g c hc es = fs1 ++ (t, p) :: fs2) :
    Fits g c fs1 ∧ p.length ≤ maxFrameLen g (endCursor g c fs1) ∧
      endCursor g c fs1 = (c + (layoutBufs g c fs1).flatten.length) % g.B ∧ endCursor g c fs1 < g.B ∧
      (layoutBufs g c (fs1 ++ [(t, p)])).flatten.length =
        (layoutBufs g c fs1).flatten.length + padLen g (endCursor g c fs1) + 7 + p.length := by
  have hF := (framesOf_spec g es c hc).2.2
  rw [hfs, Fits_append] at hF
  obtain ⟨hF1, hF2, _⟩ := hF
  refine ⟨hF1, hF2, ?_, endCursor_lt g c fs1 hc hF1, ?_⟩
  · rw [← totalLen_eq]; exact (layoutBufs_mod g c fs1 hc hF1).symm
  · rw [LL_append, LL_single]; omega

theorem take_len (l : Bytes) (k : Nat) (h : k ≤ l.length) : (l.take k).length = k := by
  rw [List.length_take]; omega

include hB in
theorem case_pad (fs1 : List Frm) (t : FrameType) (p : Bytes) (fs2 : List Frm)
    (hfs : framesOf g c hc es = fs1 ++ (t, p) :: fs2) (k z n d : Nat) (hz : g.B + 7 ≤ z)
    (hk : k ≤ (C07.writeEntriesBufs g c hc es).flatten.length)
    (hd : d ≤ padLen g (endCursor g c fs1))
    (htake : (C07.writeEntriesBufs g c hc es).flatten.take k = (layoutBufs g c fs1).flatten ++ zeros d)
    (hlen : (zeros c ++ ((C07.writeEntriesBufs g c hc es).flatten.take k ++ zeros z)).length = (n + 1) * g.B) :
    Goal g file c hc es k (zeros c ++ ((C07.writeEntriesBufs g c hc es).flatten.take k ++ zeros z)) n := by
  obtain ⟨hF1, _, _, _, hLL⟩ := ctx_facts g c hc es fs1 t p fs2 hfs
  have hB7 := g.hB
  simp only [HEADER_LEN] at hB7
  have hkl := take_len _ k hk
  rw [htake] at hkl
  simp only [List.length_append, length_zeros] at hkl
  refine clean_j1 g hB file c hc es fs1 t p fs2 hfs k z n [] (Or.inl rfl) (fs1.map good)
    (by rw [tagEvs_good]; simp) (FitsRaw_good g c fs1 hF1) (d + z) (by omega) ?_ hlen (by omega) (by omega)
  rw [htake, rawLayout_good, List.append_assoc, ← zeros_add]

include hB in
theorem case_hdr (fs1 : List Frm) (t : FrameType) (p : Bytes) (fs2 : List Frm)
    (hfs : framesOf g c hc es = fs1 ++ (t, p) :: fs2) (k z n i : Nat) (hz : g.B + 7 ≤ z)
    (hk : k ≤ (C07.writeEntriesBufs g c hc es).flatten.length) (hi1 : 1 ≤ i) (hi6 : i ≤ 6)
    (htake : (C07.writeEntriesBufs g c hc es).flatten.take k =
      (layoutBufs g c fs1).flatten ++ zeros (padLen g (endCursor g c fs1)) ++ (encodeHeader t p).take i)
    (hlen : (zeros c ++ ((C07.writeEntriesBufs g c hc es).flatten.take k ++ zeros z)).length = (n + 1) * g.B) :
    Goal g file c hc es k (zeros c ++ ((C07.writeEntriesBufs g c hc es).flatten.take k ++ zeros z)) n := by
  obtain ⟨hF1, _, hcur, _, hLL⟩ := ctx_facts g c hc es fs1 t p fs2 hfs
  have hB7 := g.hB
  simp only [HEADER_LEN] at hB7
  have hkl := take_len _ k hk
  have hil : ((encodeHeader t p).take i).length = i := by
    rw [List.length_take, length_encodeHeader]; omega
  rw [htake] at hkl
  simp only [List.length_append, length_zeros, hil] at hkl
  by_cases hzero : isAllZero ((encodeHeader t p).take i) = true
  · -- the torn header bytes are zeros anyway: a clean image
    have hz' := isAllZero_eq_zeros _ hzero
    rw [hil] at hz'
    refine clean_j1 g hB file c hc es fs1 t p fs2 hfs k z n [] (Or.inl rfl) (fs1.map good)
      (by rw [tagEvs_good]; simp) (FitsRaw_good g c fs1 hF1) (padLen g (endCursor g c fs1) + i + z) (by omega)
      ?_ hlen (by omega) (by omega)
    rw [htake, hz', rawLayout_good]
    simp only [List.append_assoc, ← zeros_add]
  · refine torn_j1 g hB file c hc es fs1 t p fs2 hfs k z n hz ((encodeHeader t p).take i) (by omega)
      (by simpa using hzero) ?_ hF1 hlen (by omega) (by omega)
    rw [htake, rawLayout_good, ← hcur]
    simp only [List.append_assoc]

theorem maxFrameLen_le (c : Nat) : maxFrameLen g c ≤ g.B - 7 := by
  unfold maxFrameLen; simp only [HEADER_LEN]; split <;> omega

/-- the torn frame as a raw frame: intact header, zero-filled payload -/
def tornFrame (t : FrameType) (p : Bytes) (i : Nat) : Raw :=
  (leBytes (frameCrc t p) 4, t, p.take i ++ zeros (p.length - i))

theorem tornFrame_len (_t : FrameType) (p : Bytes) (i : Nat) (hi : i < p.length) :
    (p.take i ++ zeros (p.length - i)).length = p.length := by
  simp [List.length_take]; omega

theorem tornFrame_bytes (t : FrameType) (p : Bytes) (i : Nat) (hi : i < p.length) :
    (tornFrame t p i).bytes = encodeHeader t p ++ (p.take i ++ zeros (p.length - i)) := by
  simp only [tornFrame, Raw.bytes, encodeHeader, tornFrame_len t p i hi]

theorem tornFrame_layout (fs1 : List Frm) (t : FrameType) (p : Bytes) (i : Nat) (hi : i < p.length) :
    (rawLayout g c (fs1.map good ++ [tornFrame t p i])).flatten =
      (layoutBufs g c fs1).flatten ++ (zeros (padLen g (endCursor g c fs1)) ++
        (encodeHeader t p ++ (p.take i ++ zeros (p.length - i)))) := by
  rw [rawLayout_append, endCursorRaw_good, rawLayout_good]
  simp only [rawLayout, List.append_nil, List.flatten_append, rawWrites_flatten, tornFrame_bytes t p i hi]

theorem tornFrame_fits (fs1 : List Frm) (t : FrameType) (p : Bytes) (i : Nat) (hi : i < p.length)
    (hF1 : Fits g c fs1) (hF2 : p.length ≤ maxFrameLen g (endCursor g c fs1)) :
    FitsRaw g c (fs1.map good ++ [tornFrame t p i]) := by
  rw [FitsRaw_append, endCursorRaw_good]
  refine ⟨FitsRaw_good g c fs1 hF1, by simp [tornFrame, length_leBytes], ?_, trivial⟩
  show (p.take i ++ zeros (p.length - i)).length ≤ _
  rw [tornFrame_len t p i hi]; exact hF2

theorem tornFrame_ev (t : FrameType) (p : Bytes) (i : Nat) :
    (tornFrame t p i).ev =
      if frameCrc t (p.take i ++ zeros (p.length - i)) = frameCrc t p
      then FrameEv.frame t (p.take i ++ zeros (p.length - i)) else FrameEv.corrupt := by
  simp only [tornFrame, Raw.ev, leNat_leBytes4 _ (frameCrc_lt t p)]

theorem tagEvs_snoc (file : Nat) (fs1 : List Frm) (x : Raw) :
    tagEvs file ((fs1.map good ++ [x]).map Raw.ev) = tagF file fs1 ++ tagEvs file [x.ev] := by
  rw [List.map_append, tagEvs_append, tagEvs_good]; rfl

theorem take_full_frame (fs1 : List Frm) (t : FrameType) (p : Bytes) (fs2 : List Frm) :
    (layoutBufs g c (fs1 ++ (t, p) :: fs2)).flatten.take
      ((layoutBufs g c fs1).flatten ++ (zeros (padLen g (endCursor g c fs1)) ++ encodeFrame t p)).length =
      (layoutBufs g c fs1).flatten ++ (zeros (padLen g (endCursor g c fs1)) ++ encodeFrame t p) := by
  rw [layoutBufs_append, List.flatten_append, layout_cons_flatten]
  have : (layoutBufs g c fs1).flatten ++ (zeros (padLen g (endCursor g c fs1)) ++ encodeFrame t p ++
        (layoutBufs g (frameEndCursor g (endCursor g c fs1) p.length) fs2).flatten) =
      ((layoutBufs g c fs1).flatten ++ (zeros (padLen g (endCursor g c fs1)) ++ encodeFrame t p)) ++
        (layoutBufs g (frameEndCursor g (endCursor g c fs1) p.length) fs2).flatten := by
    simp only [List.append_assoc]
  rw [this]
  exact List.take_left' rfl

theorem LL_cons_ge (c' : Nat) (a : Frm) (l : List Frm) : 7 ≤ (layoutBufs g c' (a :: l)).flatten.length := by
  obtain ⟨t, p⟩ := a
  rw [layout_cons_flatten]; simp [length_encodeFrame]; omega

include hB in
theorem case_payload (hT : TornOK g c hc es) (fs1 : List Frm) (t : FrameType) (p : Bytes) (fs2 : List Frm)
    (hfs : framesOf g c hc es = fs1 ++ (t, p) :: fs2) (k z n i : Nat) (hz : g.B + 7 ≤ z)
    (hk : k ≤ (C07.writeEntriesBufs g c hc es).flatten.length) (hi : i < p.length)
    (htake : (C07.writeEntriesBufs g c hc es).flatten.take k =
      (layoutBufs g c fs1).flatten ++ zeros (padLen g (endCursor g c fs1)) ++ encodeHeader t p ++ p.take i)
    (hlen : (zeros c ++ ((C07.writeEntriesBufs g c hc es).flatten.take k ++ zeros z)).length = (n + 1) * g.B) :
    Goal g file c hc es k (zeros c ++ ((C07.writeEntriesBufs g c hc es).flatten.take k ++ zeros z)) n := by
  obtain ⟨hF1, hF2, hcur, _, hLL⟩ := ctx_facts g c hc es fs1 t p fs2 hfs
  have hB7 := g.hB
  simp only [HEADER_LEN] at hB7
  have hml := maxFrameLen_le g (endCursor g c fs1)
  have hkl := take_len _ k hk
  rw [htake] at hkl
  simp only [List.length_append, length_zeros, length_encodeHeader, List.length_take] at hkl
  have hmin : min i p.length = i := by omega
  rw [hmin] at hkl
  have hfx := tornFrame_fits g c fs1 t p i hi hF1 hF2
  -- the image is clean after the torn frame, its payload zero-filled
  have hS : (C07.writeEntriesBufs g c hc es).flatten.take k ++ zeros z =
      (rawLayout g c (fs1.map good ++ [tornFrame t p i])).flatten ++ zeros (z - (p.length - i)) := by
    rw [htake, tornFrame_layout g c fs1 t p i hi]
    have : zeros z = zeros (p.length - i) ++ zeros (z - (p.length - i)) := by
      rw [← zeros_add]; congr 1; omega
    rw [this]; simp only [List.append_assoc]
  by_cases hp : p.take i ++ zeros (p.length - i) = p
  · -- the lost tail was zeros anyway: the frame is complete
    have hev : tagEvs file ((fs1.map good ++ [tornFrame t p i]).map Raw.ev) = tagF file (fs1 ++ [(t, p)]) := by
      rw [tagEvs_snoc, tornFrame_ev, hp, if_pos rfl, tagF_append]; rfl
    obtain ⟨j1, gp1, gs', hj, h1, h2, h3⟩ := next_frame g es c hc fs1 t p fs2 hfs
    have hm := count_cut g es c hc fs1 t p j1 gp1 gs' k hj h1 h3 (by omega) (by omega)
    cases gs' with
    | nil =>
      -- it was the last frame of entry `j1`: that entry is delivered
      have hfull : framesOf g c hc (es.take (j1 + 1)) = fs1 ++ [(t, p)] := by rw [h3, h1]; simp
      have hG := (framesOf_spec g (es.take (j1 + 1)) c hc).2.1
      have hfin := finish_clean g hB file c hc (es.take (j1 + 1)) _ [] hG (Or.inl rfl) [] (Or.inl rfl)
        (fs1.map good ++ [tornFrame t p i]) (by rw [hev, hfull]; simp) hfx _ n _ hlen (by rw [hS]) (by omega)
      refine ⟨j1 + 1, _, Or.inr (by omega), fun _ => ⟨p.length - i, ?_, ?_⟩, hfin⟩
      · have hkd : k + (p.length - i) =
            ((layoutBufs g c fs1).flatten ++ (zeros (padLen g (endCursor g c fs1)) ++ encodeFrame t p)).length := by
          simp only [List.length_append, length_zeros, length_encodeFrame]; omega
        rw [htake, bytes_eq, hfs, hkd, take_full_frame]
        unfold encodeFrame
        simp only [List.append_assoc]
        rw [hp]
      · rw [hm]
        apply wholeCount_eq g es c hc _ (j1 + 1) hj
        · rw [← LL_prefix, hfull, hLL]; omega
        · intro hlt
          obtain ⟨grp, hs, hEg⟩ := framesOf_take_succ g es c hc (j1 + 1) hlt
          rw [← LL_prefix, hs, LL_append, hfull, hLL]
          cases grp with
          | nil => exact hEg.elim
          | cons a l => have := LL_cons_ge g (endCursor g c (fs1 ++ [(t, p)])) a l; omega
    | cons a gs' =>
      -- a First/Middle frame: nothing more is delivered
      have hG := (framesOf_spec g (es.take j1) c hc).2.1
      have hfin := finish_clean g hB file c hc (es.take j1) _ (gp1 ++ [(t, p)]) hG
        (Or.inr ⟨a :: gs', by simp, by simpa using h2⟩) [] (Or.inl rfl)
        (fs1.map good ++ [tornFrame t p i]) (by rw [hev, h1]; simp) hfx _ n _ hlen (by rw [hS]) (by omega)
      exact ⟨j1, _, Or.inl hm.symm, fun h => by omega, hfin⟩
  · -- the payload changed: the checksum fails
    have hmem : encodeFrame t p ∈ C07.writeEntriesBufs g c hc es := by
      rw [(framesOf_spec g es c hc).1]
      exact mem_layout g t p _ c (by rw [hfs]; simp)
    have hcrc := hT t p hmem i hi hp
    have hev : tagEvs file ((fs1.map good ++ [tornFrame t p i]).map Raw.ev) =
        tagF file fs1 ++ [RdEv.corrupt file] := by
      rw [tagEvs_snoc, tornFrame_ev, if_neg hcrc]; rfl
    exact clean_j1 g hB file c hc es fs1 t p fs2 hfs k z n [RdEv.corrupt file] (Or.inr rfl) _ hev hfx _
      (by omega) hS hlen (by omega) (by omega)

include hB in
theorem case_end (k z n : Nat) (hz : g.B + 7 ≤ z)
    (hk : k = (C07.writeEntriesBufs g c hc es).flatten.length)
    (hlen : (zeros c ++ ((C07.writeEntriesBufs g c hc es).flatten.take k ++ zeros z)).length = (n + 1) * g.B) :
    Goal g file c hc es k (zeros c ++ ((C07.writeEntriesBufs g c hc es).flatten.take k ++ zeros z)) n := by
  have hB7 := g.hB
  simp only [HEADER_LEN] at hB7
  have htl : es.take es.length = es := List.take_length
  have hm : wholeCount g c hc es k = es.length := by
    apply wholeCount_eq g es c hc k es.length (Nat.le_refl _)
    · unfold prefixLen; rw [htl, totalLen_eq, hk]; exact Nat.le_refl _
    · intro h; omega
  obtain ⟨_, hG, hF⟩ := framesOf_spec g es c hc
  have hS : (C07.writeEntriesBufs g c hc es).flatten.take k ++ zeros z =
      (rawLayout g c ((framesOf g c hc es).map good)).flatten ++ zeros z := by
    rw [hk, List.take_length, rawLayout_good, bytes_eq]
  have hfin := finish_clean g hB file c hc (es.take es.length) (framesOf g c hc es) []
    (by rw [htl]; exact hG) (Or.inl rfl) [] (Or.inl rfl) _ (by rw [tagEvs_good]; simp)
    (FitsRaw_good g c _ hF) _ n z hlen (by rw [hS]) (by omega)
  exact ⟨es.length, _, Or.inl hm.symm, fun h => by omega, hfin⟩

include hB in
/-- **the master theorem**: every cut of the byte stream the writer produced for `es` -/
theorem crash_master (hT : TornOK g c hc es) (k z n : Nat) (hz : g.B + 7 ≤ z)
    (hk : k ≤ (C07.writeEntriesBufs g c hc es).flatten.length)
    (hlen : (zeros c ++ ((C07.writeEntriesBufs g c hc es).flatten.take k ++ zeros z)).length = (n + 1) * g.B) :
    Goal g file c hc es k (zeros c ++ ((C07.writeEntriesBufs g c hc es).flatten.take k ++ zeros z)) n := by
  by_cases hlt : k < (C07.writeEntriesBufs g c hc es).flatten.length
  · have hlt' := hlt
    rw [bytes_eq] at hlt'
    obtain ⟨fs1, t, p, fs2, hfs, hcase⟩ := cut_frames g (framesOf g c hc es) c k hlt'
    rw [← bytes_eq] at hcase
    rcases hcase with ⟨d, hd, he⟩ | ⟨i, hi1, hi2, he⟩ | ⟨i, hi, he⟩
    · exact case_pad g hB file c hc es fs1 t p fs2 hfs k z n d hz hk hd he hlen
    · exact case_hdr g hB file c hc es fs1 t p fs2 hfs k z n i hz hk hi1 hi2 he hlen
    · exact case_payload g hB file c hc es hT fs1 t p fs2 hfs k z n i hz hk hi he hlen
  · exact case_end g hB file c hc es k z n hz (by omega) hlen

end

end MRL.Torn
