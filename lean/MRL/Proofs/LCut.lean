/-
Cutting the tape at a file boundary (a GC pass unlinked the first `k` tracked files): the
relaxed invariant holds again with first file `F + k`. The frames left are the tail of the group
straddling the cut (now lead frames) and the groups located at or after `F + k`.
-/
import MRL.Proofs.LDisk

namespace MRL.L
open MRL Codec Consts G H Log Buf

/-- cutting a concatenation of groups at position `n` -/
theorem flatMap_cut {α β : Type} (f : α → List β) : ∀ (l : List α) (n : Nat),
    (∃ A B, l = A ++ B ∧ (l.flatMap f).take n = A.flatMap f ∧ (l.flatMap f).drop n = B.flatMap f) ∨
    (∃ A x B part rest, l = A ++ x :: B ∧ f x = part ++ rest ∧ part ≠ [] ∧ rest ≠ [] ∧
      (l.flatMap f).take n = A.flatMap f ++ part ∧ (l.flatMap f).drop n = rest ++ B.flatMap f) := by
  intro l
  induction l with
  | nil => intro n; left; exact ⟨[], [], rfl, by simp, by simp⟩
  | cons y l ih =>
    intro n
    by_cases hn : (f y).length ≤ n
    · rcases ih (n - (f y).length) with ⟨A, B, h1, h2, h3⟩ | ⟨A, x, B, part, rest, h1, h2, h3, h4, h5, h6⟩
      · left
        refine ⟨y :: A, B, by rw [h1]; rfl, ?_, ?_⟩
        · rw [List.flatMap_cons, List.take_append, List.take_of_length_le hn, h2, List.flatMap_cons]
        · rw [List.flatMap_cons, List.drop_append, List.drop_of_length_le hn, h3]; simp
      · right
        refine ⟨y :: A, x, B, part, rest, by rw [h1]; rfl, h2, h3, h4, ?_, ?_⟩
        · rw [List.flatMap_cons, List.take_append, List.take_of_length_le hn, h5, List.flatMap_cons,
            List.append_assoc]
        · rw [List.flatMap_cons, List.drop_append, List.drop_of_length_le hn, h6]; simp
    · by_cases h0 : n = 0
      · left; subst h0; exact ⟨[], y :: l, rfl, by simp, by simp⟩
      · right
        refine ⟨[], y, l, (f y).take n, (f y).drop n, rfl, (List.take_append_drop n _).symm, ?_, ?_, ?_, ?_⟩
        · intro h
          have := congrArg List.length h
          simp only [List.length_take, List.length_nil] at this
          omega
        · intro h
          have := congrArg List.length h
          simp only [List.length_drop, List.length_nil] at this
          omega
        · rw [List.flatMap_cons, List.take_append_of_le_length (by omega)]; rfl
        · rw [List.flatMap_cons, List.drop_append_of_le_length (by omega)]

theorem entryFrames_tail_nonfirst {fr : Frm} {fs : List Frm} (h : EntryFrames true (fr :: fs)) :
    ∀ y ∈ fs, y.1.isFirst = false := by
  intro y hy
  cases fs with
  | nil => cases hy
  | cons z zs => exact entryFrames_false_nonfirst _ (h.2 (by simp)) y hy

/-- the frames of a group after a non-empty part of it are not first frames -/
theorem grp_rest_nonfirst {x : Grp} (hx : GrpOK x) {part rest : List TFrm} (hsp : x.2 = part ++ rest)
    (hpart : part ≠ []) : ∀ a ∈ rest, a.2.1.isFirst = false := by
  obtain ⟨oj, fs⟩ := x
  simp only at hsp
  cases part with
  | nil => exact absurd rfl hpart
  | cons hd tl =>
    intro a ha
    have key : ∀ more : List Frm, EntryFrames true (untag fs ++ more) → a.2.1.isFirst = false := by
      intro more hE
      rw [hsp] at hE
      simp only [untag, List.cons_append, List.map_cons, List.map_append] at hE
      apply entryFrames_tail_nonfirst hE a.2
      simp only [List.mem_append, List.mem_map]
      exact Or.inl (Or.inr ⟨a, ha, rfl⟩)
    cases oj with
    | none =>
      obtain ⟨more, _, hE⟩ := hx
      exact key more hE
    | some j =>
      have hE : EntryFrames true (untag fs) := (show SegOK (j, fs) from hx).frames
      exact key [] (by simpa using hE)

/-- every live group is non-empty and starts in the file of its entry -/
theorem live_head {gs : List Grp} (hok : ∀ y ∈ gs, GrpOK y) {s : Seg} (hs : s ∈ liveOf gs) :
    (some s.1, s.2) ∈ gs ∧ ∃ a, s.2.head? = some a ∧ a.1 = s.1.loc := by
  simp only [liveOf, List.mem_filterMap] at hs
  obtain ⟨y, hy, hys⟩ := hs
  obtain ⟨oj, fs⟩ := y
  cases oj with
  | none => simp at hys
  | some j =>
    simp only [Option.map_some, Option.some.injEq] at hys
    subst hys
    have hso : SegOK (j, fs) := hok _ hy
    refine ⟨hy, ?_⟩
    cases hfs : fs with
    | nil =>
      have := hso.frames.ne_nil
      simp only [hfs, untag, List.map_nil] at this
      exact absurd rfl this
    | cons a tl => exact ⟨a, rfl, hso.first a (by rw [hfs]; rfl)⟩

theorem live_tags {gs : List Grp} (hok : ∀ y ∈ gs, GrpOK y) {s : Seg} (hs : s ∈ liveOf gs) :
    ∃ a, a ∈ gs.flatMap (·.2) ∧ a.1 = s.1.loc ∧ s.2.head? = some a := by
  obtain ⟨hm, a, ha, hal⟩ := live_head hok hs
  exact ⟨a, List.mem_flatMap.mpr ⟨_, hm, List.mem_of_head? ha⟩, hal, ha⟩

/-- the retained entries after the cut -/
theorem live_split {F F' : Nat} (hF : F ≤ F') {J : List JE} {A B : List Grp}
    (hmap : (liveOf (A ++ B)).map (·.1) = J.filter (fun j => decide (F ≤ j.loc)))
    (hA : ∀ s ∈ liveOf A, s.1.loc < F') (hB : ∀ s ∈ liveOf B, F' ≤ s.1.loc) :
    (liveOf B).map (·.1) = J.filter (fun j => decide (F' ≤ j.loc)) := by
  have hJ : J.filter (fun j => decide (F' ≤ j.loc)) =
      (J.filter (fun j => decide (F ≤ j.loc))).filter (fun j => decide (F' ≤ j.loc)) := by
    rw [List.filter_filter]
    apply List.filter_congr
    intro j _
    by_cases h1 : F' ≤ j.loc
    · have : F ≤ j.loc := by omega
      simp [h1, this]
    · simp [h1]
  rw [hJ, ← hmap, liveOf_append, List.map_append, List.filter_append]
  have h1 : ((liveOf A).map (·.1)).filter (fun j => decide (F' ≤ j.loc)) = [] := by
    rw [List.filter_eq_nil_iff]
    intro j hj
    obtain ⟨s, hs, rfl⟩ := List.mem_map.mp hj
    have := hA s hs
    simp only [decide_eq_true_eq]; omega
  have h2 : ((liveOf B).map (·.1)).filter (fun j => decide (F' ≤ j.loc)) = (liveOf B).map (·.1) := by
    rw [List.filter_eq_self]
    intro j hj
    obtain ⟨s, hs, rfl⟩ := List.mem_map.mp hj
    simpa using hB s hs
  rw [h1, h2, List.nil_append]

theorem segs_cutX {F F' : Nat} {J : List JE} {afs fa fb : List TFrm} (hF : F ≤ F')
    (hS : SegsX F J afs) (hsplit : afs = fa ++ fb)
    (hfa : ∀ a ∈ fa, a.1 < F') (hfb : ∀ a ∈ fb, F' ≤ a.1) :
    SegsX F' J fb := by
  obtain ⟨lead, gs, hafs, hlead, hmap, hok⟩ := hS
  have hfaeq : fa = afs.take fa.length := by rw [hsplit, List.take_left' rfl]
  have hfbeq : fb = afs.drop fa.length := by rw [hsplit, List.drop_left' rfl]
  by_cases hn : fa.length ≤ lead.length
  · -- the cut lies inside the lead frames
    have hfb' : fb = lead.drop fa.length ++ gs.flatMap (·.2) := by
      rw [hfbeq, hafs, List.drop_append_of_le_length hn]
    refine ⟨lead.drop fa.length, gs, hfb', fun a ha => hlead a (List.mem_of_mem_drop ha), ?_, hok⟩
    have := live_split (A := []) (B := gs) hF (by simpa using hmap) (fun s hs => by simp [liveOf] at hs)
      (fun s hs => by
        obtain ⟨a, ha, hal, _⟩ := live_tags hok hs
        rw [← hal]
        exact hfb a (by rw [hfb']; exact List.mem_append_right _ ha))
    exact this
  · have hnl : lead.length ≤ fa.length := by omega
    have htk : fa = lead ++ (gs.flatMap (·.2)).take (fa.length - lead.length) := by
      conv => lhs; rw [hfaeq, hafs, List.take_append, List.take_of_length_le hnl]
    have hdr : fb = (gs.flatMap (·.2)).drop (fa.length - lead.length) := by
      rw [hfbeq, hafs, List.drop_append, List.drop_of_length_le hnl]; simp
    rcases flatMap_cut (fun y : Grp => y.2) gs (fa.length - lead.length) with
      ⟨A, B, h1, h2, h3⟩ | ⟨A, x, B, part, rest, h1, h2, h3, h4, h5, h6⟩
    · have hokB : ∀ y ∈ B, GrpOK y := fun y hy => hok y (by rw [h1]; exact List.mem_append_right _ hy)
      have hokA : ∀ y ∈ A, GrpOK y := fun y hy => hok y (by rw [h1]; exact List.mem_append_left _ hy)
      refine ⟨[], B, by rw [hdr, h3]; rfl, (fun a ha => by cases ha), ?_, hokB⟩
      apply live_split (A := A) hF (by rw [← h1]; exact hmap)
      · intro s hs
        obtain ⟨a, ha, hal, _⟩ := live_tags hokA hs
        rw [← hal]
        exact hfa a (by rw [htk, h2]; exact List.mem_append_right _ ha)
      · intro s hs
        obtain ⟨a, ha, hal, _⟩ := live_tags hokB hs
        rw [← hal]
        exact hfb a (by rw [hdr, h3]; exact ha)
    · have hokB : ∀ y ∈ B, GrpOK y := fun y hy => hok y (by rw [h1]; simp [hy])
      have hokA : ∀ y ∈ A ++ [x], GrpOK y := fun y hy => hok y (by
        rw [h1]
        rcases List.mem_append.mp hy with h | h
        · exact List.mem_append_left _ h
        · simp only [List.mem_singleton] at h; subst h; simp)
      have hokx : GrpOK x := hokA x (by simp)
      refine ⟨rest, B, by rw [hdr, h6], grp_rest_nonfirst hokx h2 h3, ?_, hokB⟩
      apply live_split (A := A ++ [x]) hF (by rw [List.append_assoc]; simpa [h1] using hmap)
      · intro s hs
        obtain ⟨hm, a, ha, hal⟩ := live_head hokA hs
        rw [← hal]
        apply hfa a
        rw [htk, h5]
        apply List.mem_append_right
        rcases List.mem_append.mp hm with h | h
        · exact List.mem_append_left _ (List.mem_flatMap.mpr ⟨_, h, List.mem_of_head? ha⟩)
        · simp only [List.mem_singleton] at h
          apply List.mem_append_right
          -- the head of the straddling group lies in `part`
          have hx2 : x.2 = s.2 := by rw [← h]
          rw [hx2] at h2
          cases part with
          | nil => exact absurd rfl h3
          | cons p0 ptl =>
            rw [h2] at ha
            simp only [List.cons_append, List.head?_cons, Option.some.injEq] at ha
            rw [← ha]; exact List.mem_cons_self
      · intro s hs
        obtain ⟨a, ha, hal, _⟩ := live_tags hokB hs
        rw [← hal]
        exact hfb a (by rw [hdr, h6]; exact List.mem_append_right _ ha)

/-- unlinking on an image followed by an (optional) empty file with a larger number -/
theorem unlinks_append (A : Image) (x : Bool) (nf : Nat) (fs : List Nat) (h : ∀ f ∈ fs, f ≠ nf) :
    applyOsOps (A ++ xtra x nf) (fs.map OsOp.unlink) = applyOsOps A (fs.map OsOp.unlink) ++ xtra x nf := by
  induction fs generalizing A with
  | nil => rfl
  | cons f fs ih =>
    simp only [List.map_cons, applyOsOps, List.foldl_cons]
    have h1 : applyOs (A ++ xtra x nf) (.unlink f) = applyOs A (.unlink f) ++ xtra x nf := by
      simp only [applyOs, List.filter_append]
      congr 1
      rw [List.filter_eq_self]
      intro kv hkv
      have := xtra_keys x nf f (Ne.symm (h f List.mem_cons_self)) kv hkv
      simpa using this
    rw [h1]
    exact ih _ (fun f' hf' => h f' (List.mem_cons_of_mem _ hf'))

/-- unlinking the first `k` tracked files -/
theorem gc_diskX (g : Geom) {l : Log} {D : Image} {F : Nat} {init : List Bytes} {t : Bytes} {x : Bool}
    {J : List JE} {afs lead : List TFrm} {gs : List Grp}
    (h : XInvX g l D F J init t x afs lead gs) (k : Nat) (hk : k ≤ init.length) :
    ∃ afs' lead' gs',
      XInvX g { l with files := List.range' (F + k) (init.length + 1 - k + (if x then 1 else 0)) }
        (applyOsOps D ((List.range' F k).map OsOp.unlink)) (F + k) J (init.drop k) t x afs' lead' gs' := by
  obtain ⟨hT, hL, hafs, hlead, hmap, hok⟩ := h
  have hfb := fileBytes_pos g
  have hPl := hT.P_length
  have hE := layout0_length g (untag afs) hL.fits
  have hPdrop : ((init.drop k).flatten ++ t) = (init.flatten ++ t).drop (k * g.fileBytes) := by
    rw [List.drop_append_of_le_length (by
      rw [flatten_length_full _ _ hT.full]; exact Nat.mul_le_mul_right _ hk),
      flatten_drop_full _ _ _ hT.full hk]
  have hlen' : ((init.drop k).flatten ++ t).length = (init.flatten ++ t).length - k * g.fileBytes := by
    rw [hPdrop, List.length_drop]
  have hkl : k * g.fileBytes ≤ init.length * g.fileBytes := Nat.mul_le_mul_right _ hk
  -- the tape
  have htape : TapeX g { l with files := List.range' (F + k) (init.length + 1 - k + (if x then 1 else 0)) }
      (applyOsOps D ((List.range' F k).map OsOp.unlink)) (F + k) (init.drop k) t x := by
    refine ⟨?_, ?_, hT.tlen, hT.off_le, ?_, ?_⟩
    · show applyOsOps D _ = _
      rw [hT.img, unlinks_append _ _ _ _ (by
        intro f hf
        rw [List.mem_range'_1] at hf
        omega), unlink_prefix k _ F (by simp; omega), List.drop_append_of_le_length hk, List.length_drop]
      congr 2
      omega
    · intro c hc; exact hT.full c (List.mem_of_mem_drop hc)
    · show List.range' (F + k) _ = _
      rw [List.length_drop]; congr 1; omega
    · show l.cur = _
      rw [hT.cur, List.length_drop]; omega
  by_cases hcut : k * g.fileBytes ≤ endPos g 0 (untag afs)
  · obtain ⟨fa, fb, e1, e2, e3, e4, e5, e6⟩ :=
      layout_cut g F k afs 0 (Nat.zero_le _) hcut (by rw [zero_mod]; exact hL.fits) hL.tagged
    rw [zero_mod, Nat.sub_zero] at e2
    have hshift := endPos_shift g (k * g.fileBytes) (mul_fileBytes_mod g k) (untag fb) 0
    rw [Nat.zero_add, e5] at hshift
    have hfbtags : ∀ a ∈ fb, F + k ≤ a.1 := by
      intro a ha
      have ht := (Tagged_shift g F k fb 0).mp (by rw [Nat.zero_add]; exact e4)
      obtain ⟨h, _, _, h3⟩ := tag_pos g (F + k) fb 0 ht a ha
      rw [h3]; exact Nat.le_add_right _ _
    obtain ⟨lead', gs', s1, s2, s3, s4⟩ := segs_cutX (Nat.le_add_right F k) ⟨lead, gs, hafs, hlead, hmap, hok⟩ e1 e6 hfbtags
    refine ⟨fb, lead', gs', htape, ⟨?_, e3, ?_, ?_⟩, s1, s2, s3, s4⟩
    · rw [hlen', hPdrop]
      conv => lhs; rw [hL.bytes]
      rw [List.drop_append_of_le_length (by rw [hE]; exact hcut), e2]
      congr 2
      omega
    · exact (Tagged_shift g F k fb 0).mp (by rw [Nat.zero_add]; exact e4)
    · rw [hlen']
      rcases hL.len with h1 | h1
      · left; omega
      · right
        rw [h1, hshift, hdrPos_shift g _ _ (mul_fileBytes_mod g k)]
        omega
  · -- all the frames lie before the cut: nothing is left
    have hlt : endPos g 0 (untag afs) < k * g.fileBytes := by omega
    have hle := hdrPos_le_block g _ _ (mul_fileBytes_mod g k) hlt
    have hPk : (init.flatten ++ t).length = k * g.fileBytes := by
      rcases hL.len with h1 | h1 <;> omega
    have htags : ∀ a ∈ afs, a.1 < F + k := by
      intro a ha
      obtain ⟨h, _, h2, h3⟩ := tag_pos g F afs 0 hL.tagged a ha
      have : h / g.fileBytes < k := by
        rw [Nat.div_lt_iff_lt_mul hfb]; omega
      omega
    obtain ⟨lead', gs', s1, s2, s3, s4⟩ := segs_cutX (fa := afs) (fb := []) (Nat.le_add_right F k)
      ⟨lead, gs, hafs, hlead, hmap, hok⟩ (by simp) htags (fun a ha => by cases ha)
    have hnil : (init.drop k).flatten ++ t = [] := by
      apply List.eq_nil_of_length_eq_zero
      rw [hlen', hPk, Nat.sub_self]
    refine ⟨[], lead', gs', htape, ⟨?_, trivial, trivial, ?_⟩, s1, s2, s3, s4⟩
    · rw [hnil]; simp [untag, layoutBufs, zeros]
    · left; rw [hnil]; simp [untag, endPos]

end MRL.L
