/-
Cutting the tape at a file boundary (a GC pass unlinked the first `k` tracked files): the
relaxed invariant holds again with first file `F + k`. The frames left are the tail of the group
straddling the cut (now lead frames) and the groups located at or after `F + k`.
-/
import MRL.Proofs.LDisk

namespace MRL.L
open MRL Codec Consts G H Log Buf Torn

/-- cutting a concatenation of groups at position `n` -/
theorem flatMap_cut {α β : Type} (f : α → List β) : ∀ (l : List α) (n : Nat),
    (∃ A B, l = A ++ B ∧ (l.flatMap f).take n = A.flatMap f ∧ (l.flatMap f).drop n = B.flatMap f) ∨
    (∃ A x B part rest, l = A ++ x :: B ∧ f x = part ++ rest ∧ part ≠ [] ∧ rest ≠ [] ∧
      (l.flatMap f).take n = A.flatMap f ++ part ∧ (l.flatMap f).drop n = rest ++ B.flatMap f) := by
  intro l
  induction l with
  | nil => intro n; left; exact ⟨[], [], rfl, by simp, by simp⟩
  | cons y l ih =>
    intro n
    by_cases hn : (f y).length ≤ n
    · rcases ih (n - (f y).length) with ⟨A, B, h1, h2, h3⟩ | ⟨A, x, B, part, rest, h1, h2, h3, h4, h5, h6⟩
      · left
        refine ⟨y :: A, B, by rw [h1]; rfl, ?_, ?_⟩
        · rw [List.flatMap_cons, List.take_append, List.take_of_length_le hn, h2, List.flatMap_cons]
        · rw [List.flatMap_cons, List.drop_append, List.drop_of_length_le hn, h3]; simp
      · right
        refine ⟨y :: A, x, B, part, rest, by rw [h1]; rfl, h2, h3, h4, ?_, ?_⟩
        · rw [List.flatMap_cons, List.take_append, List.take_of_length_le hn, h5, List.flatMap_cons,
            List.append_assoc]
        · rw [List.flatMap_cons, List.drop_append, List.drop_of_length_le hn, h6]; simp
    · by_cases h0 : n = 0
      · left; subst h0; exact ⟨[], y :: l, rfl, by simp, by simp⟩
      · right
        refine ⟨[], y, l, (f y).take n, (f y).drop n, rfl, (List.take_append_drop n _).symm, ?_, ?_, ?_, ?_⟩
        · intro h
          have := congrArg List.length h
          simp only [List.length_take, List.length_nil] at this
          omega
        · intro h
          have := congrArg List.length h
          simp only [List.length_drop, List.length_nil] at this
          omega
        · rw [List.flatMap_cons, List.take_append_of_le_length (by omega)]; rfl
        · rw [List.flatMap_cons, List.drop_append_of_le_length (by omega)]

theorem entryFrames_tail_nonfirst {fr : Frm} {fs : List Frm} (h : EntryFrames true (fr :: fs)) :
    ∀ y ∈ fs, y.1.isFirst = false := by
  intro y hy
  cases fs with
  | nil => cases hy
  | cons z zs => exact entryFrames_false_nonfirst _ (h.2 (by simp)) y hy

/-- the items of a group after a non-empty part of it are frames as written, not first frames -/
theorem grp_rest_nonfirst {x : Grp} (hx : GrpOK x) {part rest : List AItm} (hsp : x.2 = part ++ rest)
    (hpart : part ≠ []) (hrest : rest ≠ []) : ∀ a ∈ rest, a.2 = none ∧ a.1.2.1.isFirst = false := by
  obtain ⟨oj, fs⟩ := x
  simp only at hsp
  cases part with
  | nil => exact absurd rfl hpart
  | cons hd tl =>
    intro a ha
    have key : ∀ more : List Frm, EntryFrames true (frs fs ++ more) → a.1.2.1.isFirst = false := by
      intro more hE
      rw [hsp] at hE
      simp only [frs, tfs, untag, List.cons_append, List.map_cons, List.map_append] at hE
      apply entryFrames_tail_nonfirst hE a.1.2
      simp only [List.mem_append, List.mem_map]
      exact Or.inl (Or.inr ⟨a.1, ⟨a, ha, rfl⟩, rfl⟩)
    have hmem : a ∈ fs := by rw [hsp]; exact List.mem_append_right _ ha
    cases oj with
    | none =>
      rcases hx with ⟨more, _, hE, hnone⟩ | ⟨a0, r, hfs, _⟩
      · exact ⟨hnone a hmem, key more hE⟩
      · exfalso
        simp only at hfs
        rw [hsp] at hfs
        have := congrArg List.length hfs
        simp only [List.length_append, List.length_cons, List.length_nil] at this
        have : 0 < rest.length := List.length_pos_iff.mpr hrest
        omega
    | some j =>
      obtain ⟨hso, hnone⟩ : SegOK (j, tfs fs) ∧ ∀ a ∈ fs, a.2 = none := hx
      exact ⟨hnone a hmem, key [] (by simpa [frs] using hso.frames)⟩

/-- every live group is non-empty and starts in the file of its entry -/
theorem live_head {gs : List Grp} (hok : ∀ y ∈ gs, GrpOK y) {s : Seg} (hs : s ∈ liveOf gs) :
    ∃ its, (some s.1, its) ∈ gs ∧ tfs its = s.2 ∧ ∃ a, s.2.head? = some a ∧ a.1 = s.1.loc := by
  simp only [liveOf, List.mem_filterMap] at hs
  obtain ⟨y, hy, hys⟩ := hs
  obtain ⟨oj, fs⟩ := y
  cases oj with
  | none => simp at hys
  | some j =>
    simp only [Option.map_some, Option.some.injEq] at hys
    subst hys
    have hso : SegOK (j, tfs fs) := (hok _ hy).1
    refine ⟨fs, hy, rfl, ?_⟩
    cases hfs : tfs fs with
    | nil =>
      have := hso.frames.ne_nil
      simp only [hfs, untag, List.map_nil] at this
      exact absurd rfl this
    | cons a tl => exact ⟨a, rfl, hso.first a (by rw [hfs]; rfl)⟩

theorem mem_tfs_flatMap {gs : List Grp} {y : Grp} (hy : y ∈ gs) {a : TFrm} (ha : a ∈ tfs y.2) :
    a ∈ tfs (gs.flatMap (·.2)) := by
  simp only [tfs, List.mem_map] at ha ⊢
  obtain ⟨b, hb, rfl⟩ := ha
  exact ⟨b, List.mem_flatMap.mpr ⟨y, hy, hb⟩, rfl⟩

theorem live_tags {gs : List Grp} (hok : ∀ y ∈ gs, GrpOK y) {s : Seg} (hs : s ∈ liveOf gs) :
    ∃ a, a ∈ tfs (gs.flatMap (·.2)) ∧ a.1 = s.1.loc ∧ s.2.head? = some a := by
  obtain ⟨its, hm, hts, a, ha, hal⟩ := live_head hok hs
  refine ⟨a, mem_tfs_flatMap hm ?_, hal, ha⟩
  show a ∈ tfs its
  rw [hts]; exact List.mem_of_head? ha

/-- the retained entries after the cut -/
theorem live_split {F F' : Nat} (hF : F ≤ F') {J : List JE} {A B : List Grp}
    (hmap : (liveOf (A ++ B)).map (·.1) = J.filter (fun j => decide (F ≤ j.loc)))
    (hA : ∀ s ∈ liveOf A, s.1.loc < F') (hB : ∀ s ∈ liveOf B, F' ≤ s.1.loc) :
    (liveOf B).map (·.1) = J.filter (fun j => decide (F' ≤ j.loc)) := by
  have hJ : J.filter (fun j => decide (F' ≤ j.loc)) =
      (J.filter (fun j => decide (F ≤ j.loc))).filter (fun j => decide (F' ≤ j.loc)) := by
    rw [List.filter_filter]
    apply List.filter_congr
    intro j _
    by_cases h1 : F' ≤ j.loc
    · have : F ≤ j.loc := by omega
      simp [h1, this]
    · simp [h1]
  rw [hJ, ← hmap, liveOf_append, List.map_append, List.filter_append]
  have h1 : ((liveOf A).map (·.1)).filter (fun j => decide (F' ≤ j.loc)) = [] := by
    rw [List.filter_eq_nil_iff]
    intro j hj
    obtain ⟨s, hs, rfl⟩ := List.mem_map.mp hj
    have := hA s hs
    simp only [decide_eq_true_eq]; omega
  have h2 : ((liveOf B).map (·.1)).filter (fun j => decide (F' ≤ j.loc)) = (liveOf B).map (·.1) := by
    rw [List.filter_eq_self]
    intro j hj
    obtain ⟨s, hs, rfl⟩ := List.mem_map.mp hj
    simpa using hB s hs
  rw [h1, h2, List.nil_append]

theorem mem_tfs {ais : List AItm} {a : AItm} (h : a ∈ ais) : a.1 ∈ tfs ais := List.mem_map_of_mem (f := (·.1)) h

theorem segs_cutX {F F' : Nat} {J : List JE} {ais fa fb : List AItm} (hF : F ≤ F')
    (hS : SegsX F J ais) (hsplit : ais = fa ++ fb)
    (hfa : ∀ a ∈ fa, a.1.1 < F') (hfb : ∀ a ∈ fb, F' ≤ a.1.1) :
    SegsX F' J fb := by
  obtain ⟨lead, gs, hais, hlead, hmap, hok⟩ := hS
  have hfaeq : fa = ais.take fa.length := by rw [hsplit, List.take_left' rfl]
  have hfbeq : fb = ais.drop fa.length := by rw [hsplit, List.drop_left' rfl]
  have htfa : ∀ a ∈ tfs fa, a.1 < F' := by
    intro a ha
    obtain ⟨b, hb, rfl⟩ := List.mem_map.mp ha
    exact hfa b hb
  have htfb : ∀ a ∈ tfs fb, F' ≤ a.1 := by
    intro a ha
    obtain ⟨b, hb, rfl⟩ := List.mem_map.mp ha
    exact hfb b hb
  by_cases hn : fa.length ≤ lead.length
  · have hfb' : fb = lead.drop fa.length ++ gs.flatMap (·.2) := by
      rw [hfbeq, hais, List.drop_append_of_le_length hn]
    refine ⟨lead.drop fa.length, gs, hfb', fun a ha => hlead a (List.mem_of_mem_drop ha), ?_, hok⟩
    have := live_split (A := []) (B := gs) hF (by simpa using hmap) (fun s hs => by simp [liveOf] at hs)
      (fun s hs => by
        obtain ⟨a, ha, hal, _⟩ := live_tags hok hs
        rw [← hal]
        apply htfb a
        rw [hfb', tfs_append]; exact List.mem_append_right _ ha)
    exact this
  · have hnl : lead.length ≤ fa.length := by omega
    have htk : fa = lead ++ (gs.flatMap (·.2)).take (fa.length - lead.length) := by
      conv => lhs; rw [hfaeq, hais, List.take_append, List.take_of_length_le hnl]
    have hdr : fb = (gs.flatMap (·.2)).drop (fa.length - lead.length) := by
      rw [hfbeq, hais, List.drop_append, List.drop_of_length_le hnl]; simp
    rcases flatMap_cut (fun y : Grp => y.2) gs (fa.length - lead.length) with
      ⟨A, B, h1, h2, h3⟩ | ⟨A, x, B, part, rest, h1, h2, h3, h4, h5, h6⟩
    · have hokB : ∀ y ∈ B, GrpOK y := fun y hy => hok y (by rw [h1]; exact List.mem_append_right _ hy)
      have hokA : ∀ y ∈ A, GrpOK y := fun y hy => hok y (by rw [h1]; exact List.mem_append_left _ hy)
      refine ⟨[], B, by rw [hdr, h3]; rfl, (fun a ha => by cases ha), ?_, hokB⟩
      apply live_split (A := A) hF (by rw [← h1]; exact hmap)
      · intro s hs
        obtain ⟨a, ha, hal, _⟩ := live_tags hokA hs
        rw [← hal]
        apply htfa a
        rw [htk, h2, tfs_append]; exact List.mem_append_right _ ha
      · intro s hs
        obtain ⟨a, ha, hal, _⟩ := live_tags hokB hs
        rw [← hal]
        apply htfb a
        rw [hdr, h3]; exact ha
    · have hokB : ∀ y ∈ B, GrpOK y := fun y hy => hok y (by rw [h1]; simp [hy])
      have hokA : ∀ y ∈ A ++ [x], GrpOK y := fun y hy => hok y (by
        rw [h1]
        rcases List.mem_append.mp hy with h | h
        · exact List.mem_append_left _ h
        · simp only [List.mem_singleton] at h; subst h; simp)
      have hokx : GrpOK x := hokA x (by simp)
      refine ⟨rest, B, by rw [hdr, h6], grp_rest_nonfirst hokx h2 h3 h4, ?_, hokB⟩
      apply live_split (A := A ++ [x]) hF (by rw [List.append_assoc]; simpa [h1] using hmap)
      · intro s hs
        obtain ⟨its, hm, hts, a, ha, hal⟩ := live_head hokA hs
        rw [← hal]
        apply htfa a
        rw [htk, h5, tfs_append, tfs_append]
        apply List.mem_append_right
        rcases List.mem_append.mp hm with h | h
        · apply List.mem_append_left
          apply mem_tfs_flatMap h
          show a ∈ tfs its
          rw [hts]; exact List.mem_of_head? ha
        · simp only [List.mem_singleton] at h
          apply List.mem_append_right
          -- the head of the straddling group lies in `part`
          have hx2 : x.2 = its := by rw [← h]
          rw [hx2] at h2
          cases part with
          | nil => exact absurd rfl h3
          | cons p0 ptl =>
            rw [← hts, h2] at ha
            simp only [List.cons_append, tfs_cons, List.head?_cons, Option.some.injEq] at ha
            rw [← ha]; simp
      · intro s hs
        obtain ⟨a, ha, hal, _⟩ := live_tags hokB hs
        rw [← hal]
        apply htfb a
        rw [hdr, h6, tfs_append]; exact List.mem_append_right _ ha

/-- unlinking on an image followed by an (optional) empty file with a larger number -/
theorem unlinks_append (A : Image) (x : Bool) (nf : Nat) (fs : List Nat) (h : ∀ f ∈ fs, f ≠ nf) :
    applyOsOps (A ++ xtra x nf) (fs.map OsOp.unlink) = applyOsOps A (fs.map OsOp.unlink) ++ xtra x nf := by
  induction fs generalizing A with
  | nil => rfl
  | cons f fs ih =>
    simp only [List.map_cons, applyOsOps, List.foldl_cons]
    have h1 : applyOs (A ++ xtra x nf) (.unlink f) = applyOs A (.unlink f) ++ xtra x nf := by
      simp only [applyOs, List.filter_append]
      congr 1
      rw [List.filter_eq_self]
      intro kv hkv
      have := xtra_keys x nf f (Ne.symm (h f List.mem_cons_self)) kv hkv
      simpa using this
    rw [h1]
    exact ih _ (fun f' hf' => h f' (List.mem_cons_of_mem _ hf'))

/-- cutting a tape of items at a file boundary -/
theorem layout_cutJ (g : Geom) (F k L : Nat) (ais : List AItm) : ∀ p, p ≤ k * g.fileBytes →
    k * g.fileBytes ≤ endPos g p (frs ais) → Fits g (p % g.B) (frs ais) → Tagged g F p (tfs ais) →
    JOK g L p ais →
    ∃ fa fb, ais = fa ++ fb ∧
      (flatJ g (p % g.B) ais).drop (k * g.fileBytes - p) = flatJ g 0 fb ∧
      Fits g 0 (frs fb) ∧ Tagged g F (k * g.fileBytes) (tfs fb) ∧ JOK g L (k * g.fileBytes) fb ∧
      endPos g (k * g.fileBytes) (frs fb) = endPos g p (frs ais) ∧ (∀ a ∈ fa, a.1.1 < F + k) := by
  have hB : 0 < g.B := by have := G.Bpos g; omega
  have hm := mul_fileBytes_mod g k
  induction ais with
  | nil =>
    intro p h1 h2 _ _ _
    simp only [frs_nil, endPos] at h2
    have : p = k * g.fileBytes := by omega
    subst this
    exact ⟨[], [], rfl, by simp [flatJ], trivial, trivial, trivial, rfl, fun _ h => by cases h⟩
  | cons x ais ih =>
    intro p h1 h2 hf ht hj
    by_cases hpm : k * g.fileBytes ≤ p
    · have hp : p = k * g.fileBytes := by omega
      subst hp
      refine ⟨[], x :: ais, rfl, ?_, ?_, ht, hj, rfl, fun _ h => by cases h⟩
      · rw [Nat.sub_self, List.drop_zero, hm]
      · rw [hm] at hf; exact hf
    · have hlt : p < k * g.fileBytes := by omega
      have hhdr := hdrPos_le_block g p _ hm hlt
      by_cases hh : hdrPos g p = k * g.fileBytes
      · -- the cut falls between the padding and the slot
        refine ⟨[], x :: ais, rfl, ?_, ?_, ?_, ?_, ?_, fun _ h => by cases h⟩
        · rw [flatJ_hdrPos g p _ (by simp), hh, hm, List.drop_left' (length_zeros _)]
        · have := hf
          simp only [frs_cons] at this ⊢
          rw [Fits_pos_cons] at this
          have h0 : Fits g (hdrPos g p % g.B) (x.1.2 :: frs ais) := by
            rw [Fits_pos_cons, nextPos_hdrPos]
            refine ⟨?_, this.2⟩
            have hroom := maxFrameLen_pos g p _ this.1
            have hr := hdrPos_room g p
            unfold maxFrameLen
            simp only [HEADER_LEN]
            rw [if_pos (by omega)]
            omega
          rw [hh, hm] at h0; exact h0
        · rw [← hh, Tagged_hdrPos g F p _ (by simp)]; exact ht
        · rw [← hh, JOK_hdrPos g L p _ (by simp)]; exact hj
        · rw [← hh, frs_cons, endPos_hdrPos g p _ (by simp)]
      · have hhlt : hdrPos g p < k * g.fileBytes := by omega
        simp only [frs_cons] at hf h2 ⊢
        rw [Fits_pos_cons] at hf
        have hroom := maxFrameLen_pos g p _ hf.1
        have hq : nextPos g p x.1.2.2.length ≤ k * g.fileBytes := by
          have hb := block_le hB hm hhlt
          have hd := Nat.div_add_mod (hdrPos g p) g.B
          rw [Nat.add_mul, Nat.one_mul, Nat.mul_comm] at hb
          unfold nextPos; omega
        obtain ⟨fa, fb, e1, e2, e3, e4, e4', e5, e6⟩ := ih _ hq h2 hf.2 ht.2 hj.2
        refine ⟨x :: fa, fb, by rw [e1]; rfl, ?_, e3, e4, e4', ?_, ?_⟩
        · have hfe := frameEndCursor_pos g p _ hf.1
          have hl : (zeros (padLen g (p % g.B)) ++ slot x).length = nextPos g p x.1.2.2.length - p := by
            rw [List.length_append, length_zeros, slot_length hj.1.rawLen, padLen_mod]
            unfold nextPos
            have := le_hdrPos g p
            omega
          have hsub : k * g.fileBytes - p =
              (zeros (padLen g (p % g.B)) ++ slot x).length + (k * g.fileBytes - nextPos g p x.1.2.2.length) := by
            have := le_hdrPos g p
            rw [hl]; unfold nextPos at hq ⊢; omega
          simp only [flatJ]
          rw [hfe, hsub, ← List.drop_drop, List.drop_left' rfl]
          exact e2
        · exact e5
        · intro a ha
          rcases List.mem_cons.mp ha with rfl | ha
          · rw [ht.1]
            have : hdrPos g p / g.fileBytes < k := by
              rw [Nat.div_lt_iff_lt_mul (fileBytes_pos g)]; exact hhlt
            omega
          · exact e6 a ha

theorem div_sub_mul {B a m : Nat} (hB : 0 < B) (hm : m % B = 0) (hle : m ≤ a) : (a - m) / B + m / B = a / B := by
  obtain ⟨q, rfl⟩ : ∃ q, m = B * q := ⟨m / B, by have := Nat.div_add_mod m B; rw [hm] at this; omega⟩
  rw [Nat.mul_div_cancel_left _ hB]
  have : a = (a - B * q) + B * q := by omega
  conv => rhs; rw [this, Nat.add_mul_div_left _ _ hB]

/-- unlinking the first `k` tracked files -/
theorem gc_diskX (g : Geom) {l : Log} {D : Image} {F : Nat} {init : List Bytes} {t : Bytes} {x : Bool}
    {res : Bytes} {J : List JE} {ais lead : List AItm} {gs : List Grp}
    (h : XInvX g l D F J init t x res ais lead gs) (k : Nat) (hk : k ≤ init.length) :
    ∃ ais' lead' gs',
      XInvX g { l with files := List.range' (F + k) (init.length + 1 - k + (if x then 1 else 0)) }
        (applyOsOps D ((List.range' F k).map OsOp.unlink)) (F + k) J (init.drop k) t x res ais' lead' gs' := by
  obtain ⟨hT, hL, hresok, hais, hlead, hmap, hok⟩ := h
  have hfb := fileBytes_pos g
  have hB7 := G.Bpos g
  have hPl := hT.P_length
  have hE := flatJ0_len g ais hL.jok.rawLen hL.fits
  have hkm := mul_fileBytes_mod g k
  have hPdrop : ((init.drop k).flatten ++ t) = (init.flatten ++ t).drop (k * g.fileBytes) := by
    rw [List.drop_append_of_le_length (by
      rw [flatten_length_full _ _ hT.full]; exact Nat.mul_le_mul_right _ hk),
      flatten_drop_full _ _ _ hT.full hk]
  have hlen' : ((init.drop k).flatten ++ t).length = (init.flatten ++ t).length - k * g.fileBytes := by
    rw [hPdrop, List.length_drop]
  have hkl : k * g.fileBytes ≤ init.length * g.fileBytes := Nat.mul_le_mul_right _ hk
  have hL' : ((init.drop k).length + 1) * g.fileBytes + k * g.fileBytes = (init.length + 1) * g.fileBytes := by
    rw [List.length_drop, ← Nat.add_mul]; congr 1; omega
  -- the tape
  have htape : TapeR g { l with files := List.range' (F + k) (init.length + 1 - k + (if x then 1 else 0)) }
      (applyOsOps D ((List.range' F k).map OsOp.unlink)) (F + k) (init.drop k) t x res := by
    refine ⟨?_, ?_, hT.tlen, hT.resle, ?_, ?_⟩
    · show applyOsOps D _ = _
      rw [hT.img, unlinks_append _ _ _ _ (by
        intro f hf
        rw [List.mem_range'_1] at hf
        omega), unlink_prefix k _ F (by simp; omega), List.drop_append_of_le_length hk, List.length_drop]
      congr 2
      omega
    · intro c hc; exact hT.full c (List.mem_of_mem_drop hc)
    · show List.range' (F + k) _ = _
      rw [List.length_drop]; congr 1; omega
    · show l.cur = _
      rw [hT.cur, List.length_drop]; omega
  have hPge : k * g.fileBytes ≤ (init.flatten ++ t).length := by rw [hPl]; omega
  by_cases hcut : k * g.fileBytes ≤ endPos g 0 (frs ais)
  · obtain ⟨fa, fb, e1, e2, e3, e4, e4', e5, e6⟩ :=
      layout_cutJ g F k _ ais 0 (Nat.zero_le _) hcut (by rw [zero_mod]; exact hL.fits) hL.tagged hL.jok
    rw [zero_mod, Nat.sub_zero] at e2
    have hshift := endPos_shift g (k * g.fileBytes) hkm (frs fb) 0
    rw [Nat.zero_add, e5] at hshift
    have hfbtags : ∀ a ∈ fb, F + k ≤ a.1.1 := by
      intro a ha
      have ht := (Tagged_shift g F k (tfs fb) 0).mp (by rw [Nat.zero_add]; exact e4)
      obtain ⟨h, _, _, h3⟩ := tag_pos g (F + k) (tfs fb) 0 ht a.1 (mem_tfs ha)
      rw [h3]; exact Nat.le_add_right _ _
    obtain ⟨lead', gs', s1, s2, s3, s4⟩ := segs_cutX (Nat.le_add_right F k) ⟨lead, gs, hais, hlead, hmap, hok⟩ e1 e6 hfbtags
    refine ⟨fb, lead', gs', htape, ⟨?_, e3, ?_, ?_, ?_⟩, ?_, s1, s2, s3, s4⟩
    · rw [hlen', hPdrop]
      conv => lhs; rw [hL.bytes]
      rw [List.drop_append_of_le_length (by rw [hE]; exact hcut), e2]
      congr 2
      omega
    · exact (Tagged_shift g F k (tfs fb) 0).mp (by rw [Nat.zero_add]; exact e4)
    · rw [hlen']
      rcases hL.len with h1 | h1
      · left; omega
      · right
        rw [h1, hshift, hdrPos_shift g _ _ hkm]
        omega
    · have := (JOK_shift g (((init.drop k).length + 1) * g.fileBytes) (k * g.fileBytes) hkm fb 0).mp
        (by rw [Nat.zero_add, hL']; exact e4')
      exact this
    · rcases hresok with hr | ⟨r1, r2, r3, r4⟩
      · exact Or.inl hr
      · right
        refine ⟨r1, r2, ?_, ?_⟩
        · rw [hlen', r3, hshift, hdrPos_shift g _ _ hkm]; omega
        · rw [hlen']
          have hd := div_sub_mul (by omega : 0 < g.B) hkm hPge
          have hq : k * g.fileBytes / g.B * g.B = k * g.fileBytes := by
            have := Nat.div_add_mod (k * g.fileBytes) g.B
            rw [hkm, Nat.mul_comm] at this; omega
          have hd2 : ((init.flatten ++ t).length - k * g.fileBytes) / g.B * g.B + k * g.fileBytes =
              (init.flatten ++ t).length / g.B * g.B := by
            rw [← hd, Nat.add_mul, hq]
          have hR : (((init.flatten ++ t).length - k * g.fileBytes) / g.B + 1) * g.B =
              ((init.flatten ++ t).length - k * g.fileBytes) / g.B * g.B + g.B := by rw [Nat.add_mul, Nat.one_mul]
          have hR4 : ((init.flatten ++ t).length / g.B + 1) * g.B =
              (init.flatten ++ t).length / g.B * g.B + g.B := by rw [Nat.add_mul, Nat.one_mul]
          rw [hR]
          rw [hR4] at r4
          omega
  · -- all the items lie before the cut: nothing is left
    have hlt : endPos g 0 (frs ais) < k * g.fileBytes := by omega
    have hle := hdrPos_le_block g _ _ hkm hlt
    have hPk : (init.flatten ++ t).length = k * g.fileBytes := by
      rcases hL.len with h1 | h1 <;> omega
    have htags : ∀ a ∈ ais, a.1.1 < F + k := by
      intro a ha
      obtain ⟨h, _, h2, h3⟩ := tag_pos g F (tfs ais) 0 hL.tagged a.1 (mem_tfs ha)
      have h2' : h + 7 ≤ endPos g 0 (frs ais) := h2
      have : h / g.fileBytes < k := by
        rw [Nat.div_lt_iff_lt_mul hfb]; omega
      omega
    obtain ⟨lead', gs', s1, s2, s3, s4⟩ := segs_cutX (fa := ais) (fb := []) (Nat.le_add_right F k)
      ⟨lead, gs, hais, hlead, hmap, hok⟩ (by simp) htags (fun a ha => by cases ha)
    have hnil : (init.drop k).flatten ++ t = [] := by
      apply List.eq_nil_of_length_eq_zero
      rw [hlen', hPk, Nat.sub_self]
    have hh0 : hdrPos g 0 = 0 := by
      unfold hdrPos; rw [Nat.zero_mod, if_neg (by omega)]
    refine ⟨[], lead', gs', htape, ⟨?_, trivial, trivial, ?_, trivial⟩, ?_, s1, s2, s3, s4⟩
    · rw [hnil]; simp [flatJ, zeros]
    · left; rw [hnil]; simp [endPos]
    · rcases hresok with hr | ⟨r1, r2, r3, r4⟩
      · exact Or.inl hr
      · right
        rw [hnil]
        refine ⟨r1, r2, by simp [endPos, hh0], ?_⟩
        simp only [List.length_nil, Nat.zero_div, Nat.zero_add, Nat.one_mul]
        rw [hPk] at r4
        have hq : k * g.fileBytes / g.B * g.B = k * g.fileBytes := by
          have := Nat.div_add_mod (k * g.fileBytes) g.B
          rw [hkm, Nat.mul_comm] at this; omega
        have hkeq : k = init.length := by
          have h1 : k * g.fileBytes = init.length * g.fileBytes := by omega
          exact Nat.eq_of_mul_eq_mul_right hfb h1
        rw [Nat.add_mul, Nat.one_mul, Nat.add_mul (k * g.fileBytes / g.B), Nat.one_mul, hq] at r4
        rw [List.length_drop, hkeq, Nat.sub_self, Nat.zero_add, Nat.one_mul]
        rw [hkeq] at r4
        omega

end MRL.L
