/-
The crash analysis carrying `LR.RunOK`, step 2: `write_phase_crashX`, `unlink_phase_crashX`.
-/
import MRL.Proofs.LRunOpen
import MRL.Proofs.LProvPhase

namespace MRL.LR
open MRL Codec Consts G H Torn Log Buf C05 C01J L LP Drop

/-- the replays of the journal extended by a prefix of the new entries of a write phase
    (`L.phase_replays`, saying which of the two states it is) -/
theorem phase_replaysR (g : Geom) {l : Log} {J : List JE} (hJ : JInv l J) (e : Entry) (qs' : MemQueues)
    (hewf : EntryWF e) (hre : replayEntry l.queues l.cur e = some qs')
    (hinv2 : Inv ({ (Log.writeEntry g l e).1 with queues := qs' } : Log)) (names : List Bytes)
    (hnames : ∀ n ∈ names, n ∈ qs'.emptyNames) (i : Nat) :
    ∃ q, replayJ (l.files.headD 0) []
        (J ++ (l.je g e :: touchesJ g { (Log.writeEntry g l e).1 with queues := qs' } names).take i) = some q ∧
      (AbsEq q l.queues ∨ AbsEq q qs') ∧ AbsEq q (if i = 0 then l.queues else qs') := by
  have hF : l.files.headD 0 ≤ l.cur := head_le_of_mem hJ.h.files.sorted hJ.h.files.cur_mem
  have h2 := jinv_write g hJ e qs' hewf hre hinv2
  have hgrow := writeEntry_grow g l e hJ.h.files
  have hF2 : l.files.headD 0 ≤ ({ (Log.writeEntry g l e).1 with queues := qs' } : Log).cur :=
    Nat.le_trans hF hgrow.cur_le
  obtain ⟨hHl, chunk, qs, hrep, heq, hqwf⟩ := hJ
  cases i with
  | zero =>
    exact ⟨qs, by simpa using hrep, Or.inl (AbsEq.of_qsEquiv heq), by simpa using AbsEq.of_qsEquiv heq⟩
  | succ i =>
    have hexact : replayJ (l.files.headD 0) l.queues
        (l.je g e :: (touchesJ g { (Log.writeEntry g l e).1 with queues := qs' } names).take i) = some qs' := by
      have : l.je g e :: (touchesJ g { (Log.writeEntry g l e).1 with queues := qs' } names).take i =
          [l.je g e] ++ touchesJ g { (Log.writeEntry g l e).1 with queues := qs' } (names.take i) := by
        rw [touchesJ_take]; rfl
      rw [this, replayJ_append, replay_je g l e qs' _ hF hre]
      exact touches_replay g (l.files.headD 0) (names.take i) _ h2.h.files hF2 hinv2.1
        (fun n hn => hnames n (List.mem_of_mem_take hn))
    obtain ⟨q1, r1, r2, _⟩ := extend_rep hHl.inv hrep heq hqwf hexact
    exact ⟨q1, by rw [List.take_succ_cons]; exact r1, Or.inr (AbsEq.of_qsEquiv r2),
      by simpa using AbsEq.of_qsEquiv r2⟩



/-- **crash while the entry and the touches are written**, from a relaxed state, at any byte -/
theorem write_phase_crashXR (g : Geom) (hB : g.B ≤ 65542) (P : Entry → Prop) {l : Log} {J : List JE} {D : Image}
    (h : CInvX g l J D) (e : Entry) (qs' : MemQueues) (hewf : EntryWF e)
    (hre : replayEntry l.queues l.cur e = some qs')
    (hinv2 : Inv ({ (Log.writeEntry g l e).1 with queues := qs' } : Log)) (names : List Bytes)
    (hnames : ∀ n ∈ names, n ∈ qs'.emptyNames) (hok : OkEntry l.queues e) (hR : RunOK J l.queues)
    (hwf : ∀ j ∈ J ++ l.je g e :: touchesJ g { (Log.writeEntry g l e).1 with queues := qs' } names, WFP P j.e)
    (htorn : TornEffs ((Log.writeEntry g l e).2.1 ++
      (writeTouches g { (Log.writeEntry g l e).1 with queues := qs' } names).2.1))
    (w : Bool) (X : Image)
    (hX : CutW w D ((Log.writeEntry g l e).2.1 ++
      (writeTouches g { (Log.writeEntry g l e).1 with queues := qs' } names).2.1) X) :
    XInvResR g P l.queues qs' X := by
  have h2 := cinvx_write g h e qs' hewf hre hinv2
  -- explicit witnesses along the write phase
  obtain ⟨init, t, x, res, ais, lead, gs, x0⟩ := h.disk
  obtain ⟨i1, t1, x1, ntf1, B1, y1, _, _, _, hcut1⟩ := entry_extX g x0 e
  have y1' : XInvX g ({ (Log.writeEntry g l e).1 with queues := qs' } : Log)
      (applyOsOps D (directOps (Log.writeEntry g l e).2.1)) (l.files.headD 0) (J ++ [l.je g e]) i1 t1 x1 []
      (ais ++ plain ntf1) lead (gs ++ [(some (l.je g e), plain ntf1)]) := y1.congr rfl rfl rfl
  obtain ⟨i3, t3, x3, r3, ais3, gs3, y3, hcut3⟩ :=
    touches_extX g (l.files.headD 0) lead names _ _ _ _ _ _ _ _ _ y1'
  -- journal facts for the whole write phase
  have hch1 := je_chunk g l e h.jinv.h.files hewf
  have hch2 := touchesJ_chunk g names _ h2.jinv.h.files
  have hJeq : J ++ l.je g e :: touchesJ g { (Log.writeEntry g l e).1 with queues := qs' } names =
      J ++ [l.je g e] ++ touchesJ g { (Log.writeEntry g l e).1 with queues := qs' } names := by simp
  have hchunk3 := h2.jinv.chunk.append hch2
  rw [← hJeq] at hchunk3
  have hreps := phase_replaysR g h.jinv e qs' hewf hre hinv2 names hnames
  have hRi : ∀ i, RunOK (J ++ (l.je g e :: touchesJ g { (Log.writeEntry g l e).1 with queues := qs' } names).take i)
      (if i = 0 then l.queues else qs') := by
    intro i
    cases i with
    | zero => simpa using hR
    | succ i =>
      rw [List.take_succ_cons, touchesJ_take]
      simp only [Nat.succ_ne_zero, if_false]
      refine hR.append (QsWF.of_inv h.jinv.h.inv) (Run.cons hok hre ?_)
      exact run_touches g (names.take i) ({ (Log.writeEntry g l e).1 with queues := qs' } : Log) hinv2.1
        (fun n hn => hnames n (List.mem_of_mem_take hn))
  have hsub : ∀ i, (J ++ (l.je g e :: touchesJ g { (Log.writeEntry g l e).1 with queues := qs' } names).take i).Sublist
      (J ++ l.je g e :: touchesJ g { (Log.writeEntry g l e).1 with queues := qs' } names) :=
    fun i => List.Sublist.append_left (List.take_sublist _ _) _
  have hwhole : ∀ i, DiskX g X (l.files.headD 0)
      (J ++ (l.je g e :: touchesJ g { (Log.writeEntry g l e).1 with queues := qs' } names).take i) →
      XInvResR g P l.queues qs' X := by
    intro i hd policy
    obtain ⟨q, hq, hqe, hqi⟩ := hreps i
    obtain ⟨J', lp, io, hrec, hc, hw, hab, hpol, hhead⟩ := open_diskXR g hB P hd
      (fun j hj => hwf j ((hsub i).subset hj)) (fun j hj => hchunk3.wf j ((hsub i).subset hj))
      (hchunk3.mono.sublist (hsub i)) q hq ((hRi i).congr hqi.symm) policy
    refine ⟨J', lp, io, _, hrec, hhead, hc, hw, hpol, ?_⟩
    rcases hqe with hqe | hqe
    · exact Or.inl (hab.symm.trans hqe)
    · exact Or.inr (hab.symm.trans hqe)
  rcases CutW.of_append _ hX with hX | hX
  · rcases hcut1 (fun t p f off hm => htorn t p f off (List.mem_append_left _ hm)) w X hX with hd | hd
    · exact hwhole 0 (by simpa using hd)
    · exact hwhole 1 (by simpa using hd)
  · obtain ⟨i, _, hd⟩ := hcut3 (fun t p f off hm => htorn t p f off (List.mem_append_right _ hm)) w X hX
    exact hwhole (i + 1) (by rw [List.take_succ_cons]; simpa [List.append_assoc] using hd)

theorem unlink_phase_crashXR (g : Geom) (hB : g.B ≤ 65542) (P : Entry → Prop) {l2 : Log} {J2 : List JE} {D2 : Image}
    (h : CInvX g l2 J2 D2) (order : List Bytes) (names : List Bytes)
    (hj : gcJ g l2 order = touchesJ g l2 names)
    (hr : (runGc g l2 order).1 = { (writeTouches g l2 names).1 with
      files := (gcFiles ((writeTouches g l2 names).1.canDelete l2.cur) (writeTouches g l2 names).1.files).1 })
    (hwf : ∀ j ∈ J2 ++ touchesJ g l2 names, WFP P j.e) (hR : RunOK J2 l2.queues)
    (k : Nat) (hk0 : 0 < k)
    (hk : k ≤ (gcFiles ((writeTouches g l2 names).1.canDelete l2.cur) (writeTouches g l2 names).1.files).2.length) :
    XInvResR g P l2.queues l2.queues
      (applyOsOps (applyOsOps D2 (directOps (writeTouches g l2 names).2.1))
        (((gcFiles ((writeTouches g l2 names).1.canDelete l2.cur) (writeTouches g l2 names).1.files).2.take k).map
          OsOp.unlink)) := by
  intro policy
  obtain ⟨init, t, x, res, ais, lead, gs, hx⟩ := h.disk
  obtain ⟨i3, t3, x3, r3, ais3, gs3, y3, _⟩ := touches_extX g (l2.files.headD 0) lead names l2 D2 J2 init t x res ais gs hx
  have k1 := y3.tape
  rcases hg : gcFiles ((writeTouches g l2 names).1.canDelete l2.cur) (writeTouches g l2 names).1.files
    with ⟨rem, del⟩
  rw [hg] at hk hr
  simp only at hk hr ⊢
  obtain ⟨hsplit, hcan, hne⟩ := gcFiles_spec _ _ _ _ hg
  rw [k1.files] at hsplit
  obtain ⟨hdel, hrem⟩ := range'_split _ _ _ _ hsplit
  have hdl : del.length ≤ i3.length := by
    apply Classical.byContradiction
    intro hn
    have hmem : (writeTouches g l2 names).1.cur ∈ del := by
      rw [hdel, k1.cur, List.mem_range'_1]; omega
    have := hcan _ hmem
    simp [canDelete] at this
  have hlen : del.length + rem.length = i3.length + 1 + (if x3 then 1 else 0) := by
    have := congrArg List.length hsplit
    simp only [List.length_range', List.length_append] at this
    omega
  have hkinit : k ≤ i3.length := by omega
  have hdeltake : del.take k = List.range' (l2.files.headD 0) k := by
    rw [hdel, take_range' _ _ _ hk]
  rw [hdeltake]
  -- the journal
  have hJ' := jinv_gc g order h.jinv
  rw [hj] at hJ'
  -- the disk after `k` unlinks
  obtain ⟨afs', lead', gs', c1⟩ := gc_diskX g y3 k hkinit
  have hd := c1.diskX
  -- the new first file
  have hF'' : (runGc g l2 order).1.files.headD 0 = l2.files.headD 0 + del.length := by
    rw [hr]
    show rem.headD 0 = _
    rw [hrem]
    cases hrl : rem.length with
    | zero => omega
    | succ n => rw [List.range'_succ]; rfl
  obtain ⟨qb, hqb, hqe⟩ := rep_at g order h.jinv (l2.files.headD 0 + k) (by omega) (by rw [hF'']; omega)
  rw [hj] at hqb
  obtain ⟨J', lp, io, hrec, hc, hw, hab, hpol, hhead⟩ := open_diskXR g hB P hd hwf hJ'.chunk.wf hJ'.chunk.mono qb hqb
    (by have := hR.gc g h.jinv.h.inv order; rw [hj] at this; exact this.congr (AbsEq.of_qsEquiv hqe).symm) policy
  exact ⟨J', lp, io, _, hrec, hhead, hc, hw, hpol, Or.inl (hab.symm.trans (AbsEq.of_qsEquiv hqe))⟩


end MRL.LR
