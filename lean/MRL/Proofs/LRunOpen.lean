/-
The crash analysis once more (`LProv*.lean`), now also carrying the replay discipline `LR.RunOK` of
the journal: wherever a journal is read back from a disk (`L.read_diskX`), the journal read back —
the retained entries of the one the disk was written from, re-attributed — obeys `RunOK` if that
one does (`RunOK.retained`). Step 1: `open_diskX`, `open_okX`, `xinvres_of_cinvx`.
-/
import MRL.Proofs.LRunOK
import MRL.Proofs.LProvOpen

namespace MRL.LR
open MRL Codec Consts G H Log Buf C05 C01J Torn L LP Drop


/-- `L.XInvRes` with the provenance predicate and the replay discipline of the journal read back -/
def XInvResR (g : Geom) (P : Entry → Prop) (qsBefore qsAfter : MemQueues) (X : Image) : Prop :=
  ∀ policy, ∃ (J' : List JE) (lp : Log) (io F' : Nat),
    recoverPre g X policy none = .ok (lp, [.ensureLen F' g.fileBytes], io) ∧ lp.files.headD 0 = F' ∧
    CInvX g lp J' X ∧ ((∀ j ∈ J', WFP P j.e) ∧ RunOK J' lp.queues) ∧ lp.policy = policy ∧
    (AbsEq lp.queues qsBefore ∨ AbsEq lp.queues qsAfter)

theorem XInvResR.toX {g : Geom} {P : Entry → Prop} {qB qA : MemQueues} {X : Image} (h : XInvResR g P qB qA X) :
    XInvRes g qB qA X := by
  intro policy
  obtain ⟨J', lp, io, F', a1, a2, a3, a4, a5, a6⟩ := h policy
  exact ⟨J', lp, io, F', a1, a2, a3, fun j hj => (a4.1 j hj).1, a5, a6⟩

theorem XInvResR.inr {g : Geom} {P : Entry → Prop} {qB qA : MemQueues} {X : Image} (h : XInvResR g P qA qA X) :
    XInvResR g P qB qA X := by
  intro policy
  obtain ⟨J', lp, io, F', a1, a2, a3, a4, a5, a6⟩ := h policy
  exact ⟨J', lp, io, F', a1, a2, a3, a4, a5, Or.inr (a6.elim id id)⟩

/-- **the `open` lemma on a `DiskX` disk** -/
theorem open_diskXR (g : Geom) (hB : g.B ≤ 65542) (P : Entry → Prop) {X : Image} {F : Nat} {J : List JE}
    (hd : DiskX g X F J) (hwf : ∀ j ∈ J, WFP P j.e) (hewf : ∀ j ∈ J, EntryWF j.e)
    (hmono : J.Pairwise (fun a b => a.loc ≤ b.loc)) (qs : MemQueues)
    (hrep : replayJ F [] J = some qs) (hR : RunOK J qs) (policy : Policy) :
    ∃ (J' : List JE) (lp : Log) (io : Nat),
      recoverPre g X policy none = .ok (lp, [.ensureLen F g.fileBytes], io) ∧
      CInvX g lp J' X ∧ ((∀ j ∈ J', WFP P j.e) ∧ RunOK J' lp.queues) ∧ AbsEq qs lp.queues ∧ lp.policy = policy ∧
      lp.files.headD 0 = F := by
  obtain ⟨J', lp, io, init, t, x, res, ais, lead, gs', hrec, hx, hq, hab, hpol, hrel, hcur⟩ :=
    read_diskX g hB hd (fun j hj => (hwf j hj).1) qs hrep policy
  have hhead : lp.files.headD 0 = F := hx.tape.head
  have hInvlp : Inv lp := by
    obtain ⟨b0, rest, trail, evs, e, _, _, hr⟩ := Rec.recoverPre_ok_replay hrec
    exact Rec.QsInv_replay _ [] _ hr Rec.QsInv_nil
  have hJ'b : ∀ j ∈ J', F ≤ j.attr ∧ j.attr ≤ j.loc ∧ j.loc ≤ lp.cur := by
    intro j hj
    obtain ⟨b, _, _, _, h3, h4⟩ := hrel.mem_left j hj
    exact ⟨h3, h4, hcur j hj⟩
  have hJ'wf : ∀ j ∈ J', WFP P j.e ∧ EntryWF j.e := by
    intro j hj
    obtain ⟨b, hb, h1, _⟩ := hrel.mem_left j hj
    have hbJ := (List.mem_filter.mp hb).1
    rw [h1]; exact ⟨hwf b hbJ, hewf b hbJ⟩
  have hfiles := hx.tape.files
  have hcurT := hx.tape.cur
  refine ⟨J', lp, io, hrec, ⟨⟨⟨⟨?_, ?_⟩, hInvlp, ?_⟩, ⟨Nat.zero_le _, ?_, ?_, fun j hj => (hJ'wf j hj).2⟩, ?_⟩,
    ?_⟩, ⟨fun j hj => (hJ'wf j hj).1, (hR.retained F hmono (hrel.imp (fun a b h => h.1))).congr hab⟩, hab, hpol, hhead⟩
  · rw [hfiles]; exact List.pairwise_lt_range'
  · rw [hfiles, hcurT, List.mem_range'_1]; omega
  · intro kv hkv r hr f hf
    have hget : lp.queues.get? kv.1 = some kv.2 := AL.get?_of_mem_nodup hInvlp.1 hkv
    obtain ⟨j, hj, _, hfj⟩ := replay_handles F J' lp.queues hq kv.1 kv.2 hget r hr f hf
    have := hJ'b j hj
    rw [hfiles, List.mem_range'_1, hfj]
    rw [hcurT] at this
    omega
  · intro j hj
    have := hJ'b j hj
    exact ⟨Nat.zero_le _, this.2.1, this.2.2⟩
  · exact All2.pairwise_loc (hrel.imp (fun a b h => h.2.1)) (hmono.sublist List.filter_sublist)
  · rw [hhead]
    exact ⟨lp.queues, hq, QsEquiv.refl _, replayJ_wf _ _ QsWF.nil hq⟩
  · rw [hhead]
    exact ⟨init, t, x, res, ais, lead, gs', hx⟩

/-- reopening a log whose disk satisfies the relaxed invariant -/
theorem open_okXR (g : Geom) (hB : g.B ≤ 65542) (P : Entry → Prop) {l : Log} {J : List JE} {D : Image} (h : CInvX g l J D)
    (hwf : ∀ j ∈ J, WFP P j.e) (hR : RunOK J l.queues) (policy : Policy) :
    ∃ (J' : List JE) (lp : Log) (io : Nat),
      recoverPre g D policy none = .ok (lp, [.ensureLen (l.files.headD 0) g.fileBytes], io) ∧
      CInvX g lp J' D ∧ ((∀ j ∈ J', WFP P j.e) ∧ RunOK J' lp.queues) ∧ AbsEq lp.queues l.queues ∧ lp.policy = policy ∧
      lp.files.headD 0 = l.files.headD 0 := by
  obtain ⟨hH, chunk, qs, hrep, heq, hqwf⟩ := h.jinv
  obtain ⟨J', lp, io, hrec, hc, hw, hab, hpol, hhead⟩ := open_diskXR g hB P h.diskX hwf chunk.wf chunk.mono qs hrep
    (hR.congr (AbsEq.of_qsEquiv heq).symm) policy
  exact ⟨J', lp, io, hrec, hc, hw, hab.symm.trans (AbsEq.of_qsEquiv heq), hpol, hhead⟩

theorem xinvres_of_cinvxR (g : Geom) (hB : g.B ≤ 65542) (P : Entry → Prop) {l : Log} {J : List JE} {D : Image} (h : CInvX g l J D)
    (hwf : ∀ j ∈ J, WFP P j.e) (hR : RunOK J l.queues) (policy : Policy) :
    ∃ (J' : List JE) (lp : Log) (io F' : Nat),
      recoverPre g D policy none = .ok (lp, [.ensureLen F' g.fileBytes], io) ∧ lp.files.headD 0 = F' ∧
      CInvX g lp J' D ∧ ((∀ j ∈ J', WFP P j.e) ∧ RunOK J' lp.queues) ∧ lp.policy = policy ∧ AbsEq lp.queues l.queues := by
  obtain ⟨J', lp, io, hrec, hc, hw, hab, hpol, hhead⟩ := open_okXR g hB P h hwf hR policy
  exact ⟨J', lp, io, _, hrec, hhead, hc, hw, hpol, hab⟩


end MRL.LR
