/-
`step_full` with the syntactic form of the trailing flush/fsync effects (needed to analyse crash
states, where "changes no image" is not enough).
-/
import MRL.Proofs.GStepFull
import MRL.Proofs.HCrashTape

namespace MRL.H
open MRL Log C05 G

theorem isSyncL_nil : IsSyncL [] := fun _ h => by cases h

theorem step_full2 (g : Geom) (l : Log) (hI : Inv l) (c : Call) (tick : Bool) (order : List Bytes) :
    (l.stepJ g c order = [] ∧ (l.step g c tick order).1 = l ∧ IsSyncL (l.step g c tick order).2.2) ∨
    (∃ e qs' sy, EntryWF e ∧ replayEntry l.queues l.cur e = some qs' ∧ IsSyncL sy ∧
      ((l.stepJ g c order = [l.je g e] ∧
          (l.step g c tick order).1 = { (Log.writeEntry g l e).1 with queues := qs' } ∧
          (l.step g c tick order).2.2 = (Log.writeEntry g l e).2.1 ++ sy) ∨
       (l.stepJ g c order = l.je g e :: gcJ g { (Log.writeEntry g l e).1 with queues := qs' } order ∧
          (l.step g c tick order).1 =
            (runGc g { (Log.writeEntry g l e).1 with queues := qs' } order).1 ∧
          (l.step g c tick order).2.2 = (Log.writeEntry g l e).2.1 ++
            (runGc g { (Log.writeEntry g l e).1 with queues := qs' } order).2.1 ++ sy))) := by
  cases c with
  | persist a => left; exact ⟨rfl, rfl, isSyncL_persist l a⟩
  | create q =>
    cases hc : l.queues.contains q with
    | true => left; refine ⟨by simp [stepJ, hc], by simp [step, hc], ?_⟩; simp [step, hc]; exact isSyncL_nil
    | false =>
      right
      have hg : l.queues.get? q = none := by
        rw [MemQueues.contains_isSome] at hc
        cases h : l.queues.get? q with
        | none => rfl
        | some _ => rw [h] at hc; cases hc
      refine ⟨.touch q 0, l.queues.set q {}, (Log.writeEntry g l (.touch q 0)).1.persistEffects .flushAndFsync,
        trivial, ?_, isSyncL_persist _ _, Or.inl ⟨by simp [stepJ, hc], ?_, ?_⟩⟩
      · simp only [replayEntry, MemQueues.ackPosition, hg]; rfl
      · rcases hw : Log.writeEntry g l (.touch q 0) with ⟨l1, e1, n⟩
        have h1 : l1.queues = l.queues := by
          have := writeEntry_queues g l (.touch q 0); rwa [hw] at this
        simp only [step, hc, hw, h1]
        rfl
      · rcases hw : Log.writeEntry g l (.touch q 0) with ⟨l1, e1, n⟩
        simp only [step, hc, hw]
        rfl
  | delete q =>
    cases hg : l.queues.get? q with
    | none => left; refine ⟨by simp [stepJ, hg], by simp [step, hg], ?_⟩; simp [step, hg]; exact isSyncL_nil
    | some mq =>
      right
      refine ⟨.delete q mq.nextPosition, l.queues.remove q,
        (runGc g { (Log.writeEntry g l (.delete q mq.nextPosition)).1 with queues := l.queues.remove q }
          order).1.persistEffects .flushAndFsync, trivial, rfl, isSyncL_persist _ _, Or.inr ⟨?_, ?_, ?_⟩⟩
      · simp only [stepJ, hg, writeEntry_queues]
      · rcases hw : Log.writeEntry g l (.delete q mq.nextPosition) with ⟨l1, e1, n1⟩
        have h1 : l1.queues = l.queues := by
          have := writeEntry_queues g l (.delete q mq.nextPosition); rwa [hw] at this
        rcases hgc : runGc g { l1 with queues := l.queues.remove q } order with ⟨l3, e3, n3⟩
        simp only [step, hg, hw, h1, hgc]
      · rcases hw : Log.writeEntry g l (.delete q mq.nextPosition) with ⟨l1, e1, n1⟩
        have h1 : l1.queues = l.queues := by
          have := writeEntry_queues g l (.delete q mq.nextPosition); rwa [hw] at this
        rcases hgc : runGc g { l1 with queues := l.queues.remove q } order with ⟨l3, e3, n3⟩
        simp only [step, hg, hw, h1, hgc]
  | truncate q p =>
    cases hg : l.queues.get? q with
    | none => left; refine ⟨by simp [stepJ, hg], by simp [step, hg], ?_⟩; simp [step, hg]; exact isSyncL_nil
    | some mq =>
      right
      refine ⟨.truncate q p, l.queues.set q (mq.truncateHead p).1,
        (runGc g { (Log.writeEntry g l (.truncate q p)).1 with queues := l.queues.set q (mq.truncateHead p).1 }
          order).1.policyEffects tick, trivial, ?_, isSyncL_policy _ _, Or.inr ⟨?_, ?_, ?_⟩⟩
      · simp only [replayEntry, hg]
      · simp only [stepJ, hg, writeEntry_queues]
      · rcases hw : Log.writeEntry g l (.truncate q p) with ⟨l1, e1, n1⟩
        have h1 : l1.queues = l.queues := by
          have := writeEntry_queues g l (.truncate q p); rwa [hw] at this
        rcases hgc : runGc g { l1 with queues := l.queues.set q (mq.truncateHead p).1 } order
          with ⟨l3, e3, n3⟩
        simp only [step, hg, hw, h1, hgc]
      · rcases hw : Log.writeEntry g l (.truncate q p) with ⟨l1, e1, n1⟩
        have h1 : l1.queues = l.queues := by
          have := writeEntry_queues g l (.truncate q p); rwa [hw] at this
        rcases hgc : runGc g { l1 with queues := l.queues.set q (mq.truncateHead p).1 } order
          with ⟨l3, e3, n3⟩
        simp only [step, hg, hw, h1, hgc]
  | append q pos? pls =>
    cases hg : l.queues.get? q with
    | none => left; refine ⟨by simp [stepJ, hg], by simp [step, hg], ?_⟩; simp [step, hg]; exact isSyncL_nil
    | some mq =>
      have hmq := hI.get hg
      by_cases hretry : ∃ p, pos? = some p ∧ p + 1 = mq.nextPosition
      · obtain ⟨p, rfl, hp⟩ := hretry
        left; refine ⟨by simp [stepJ, hg, hp], by simp [step, hg, hp], ?_⟩
        simp [step, hg, hp]; exact isSyncL_nil
      by_cases hpast : ∃ p, pos? = some p ∧ p < mq.nextPosition
      · obtain ⟨p, rfl, hp⟩ := hpast
        have hp1 : p + 1 ≠ mq.nextPosition := fun h => hretry ⟨p, rfl, h⟩
        left; refine ⟨by simp [stepJ, hg, hp, hp1], by simp [step, hg, hp, hp1], ?_⟩
        simp [step, hg, hp, hp1]; exact isSyncL_nil
      have hp : ∀ p, pos? = some p → mq.nextPosition ≤ p := by
        intro p h
        have : ¬ p < mq.nextPosition := fun h' => hpast ⟨p, h, h'⟩
        omega
      cases hpl : pls with
      | nil =>
        left
        cases pos? with
        | none =>
          refine ⟨by simp [stepJ, hg], by simp [step, hg], ?_⟩
          simp [step, hg]; exact isSyncL_nil
        | some p =>
          have := hp p rfl
          have h1 : ¬ (p + 1 = mq.nextPosition) := by omega
          have h2 : ¬ (p < mq.nextPosition) := by omega
          refine ⟨by simp [stepJ, hg, h1, h2], by simp [step, hg, h1, h2], ?_⟩
          simp [step, hg, h1, h2]; exact isSyncL_nil
      | cons pl pls' =>
        right
        rw [← hpl]
        have hne : pls ≠ [] := by rw [hpl]; simp
        have hemp : pls.isEmpty = false := by rw [hpl]; rfl
        have hpos : mq.nextPosition ≤ appendPos mq pos? := by
          cases pos? with
          | none => exact Nat.le_refl _
          | some p => exact hp p rfl
        obtain ⟨mq', hall, _, _, _, _⟩ :=
          appendAll_spec l.cur pls mq (appendPos mq pos?) hmq.1 hmq.2 hpos
        have hcont : l.queues.contains q = true := by rw [MemQueues.contains_isSome, hg]; rfl
        refine ⟨.append q (appendPos mq pos?) (numberFrom (appendPos mq pos?) pls),
          l.queues.set q mq',
          (Log.writeEntry g l (.append q (appendPos mq pos?)
            (numberFrom (appendPos mq pos?) pls))).1.policyEffects tick,
          ⟨pls, hne, rfl⟩, ?_, isSyncL_policy _ _, Or.inl ⟨?_, ?_, ?_⟩⟩
        · simp only [replayEntry, hcont, if_true, hg, hall, Option.map_some]
        · cases pos? with
          | none => simp only [stepJ, hg, hemp, appendPos]; rfl
          | some p =>
            have := hp p rfl
            have h1 : ¬ (p + 1 = mq.nextPosition) := by omega
            have h2 : ¬ (p < mq.nextPosition) := by omega
            simp only [stepJ, hg, h1, h2, if_false, hemp, appendPos]
            rfl
        · rcases hw : Log.writeEntry g l (.append q (appendPos mq pos?) (numberFrom (appendPos mq pos?) pls))
            with ⟨l1, e1, n1⟩
          have h1 : l1.queues = l.queues := by
            have := writeEntry_queues g l
              (.append q (appendPos mq pos?) (numberFrom (appendPos mq pos?) pls))
            rwa [hw] at this
          cases pos? with
          | none =>
            simp only [appendPos] at hall hw ⊢
            simp only [step, hg, hemp, hw, hall, h1]
            rfl
          | some p =>
            have := hp p rfl
            have hp1 : ¬ (p + 1 = mq.nextPosition) := by omega
            have hp2 : ¬ (p < mq.nextPosition) := by omega
            simp only [appendPos] at hall hw ⊢
            simp only [step, hg, hp1, hp2, if_false, hemp, hw, hall, h1]
            rfl
        · rcases hw : Log.writeEntry g l (.append q (appendPos mq pos?) (numberFrom (appendPos mq pos?) pls))
            with ⟨l1, e1, n1⟩
          cases pos? with
          | none =>
            simp only [appendPos] at hall hw ⊢
            simp only [step, hg, hemp, hw, hall]
            rfl
          | some p =>
            have := hp p rfl
            have hp1 : ¬ (p + 1 = mq.nextPosition) := by omega
            have hp2 : ¬ (p < mq.nextPosition) := by omega
            simp only [appendPos] at hall hw ⊢
            simp only [step, hg, hp1, hp2, if_false, hemp, hw, hall]
            rfl

end MRL.H
