/-
Key lookup in the specification's association list after `set` / `remove`. None of these needs
the keys to be distinct: `set` rewrites every entry with the key, `remove` drops every one.
-/
import MRL.Spec.QueueMap

namespace MRL.Spec

theorem get?_nil (q : Bytes) : get? [] q = none := rfl

theorem get?_cons (kv : Bytes × SQueue) (s : Spec) (q : Bytes) :
    get? (kv :: s) q = if kv.1 = q then some kv.2 else get? s q := by
  unfold get?
  simp only [List.find?_cons]
  by_cases h : kv.1 = q
  · simp [h]
  · have : (kv.1 == q) = false := by simpa using h
    simp [h, this]

theorem any_key_eq_false_iff (s : Spec) (q : Bytes) :
    s.any (·.1 == q) = false ↔ get? s q = none := by
  induction s with
  | nil => simp [get?_nil]
  | cons kv s ih =>
    rw [get?_cons, List.any_cons]
    by_cases h : kv.1 = q
    · simp [h]
    · have : (kv.1 == q) = false := by simpa using h
      simp [h, this, ih]

theorem get?_append_of_none (s t : Spec) (q : Bytes) (h : get? s q = none) :
    get? (s ++ t) q = get? t q := by
  induction s with
  | nil => rfl
  | cons kv s ih =>
    rw [get?_cons] at h
    rw [List.cons_append, get?_cons]
    split at h
    · cases h
    · rename_i hk; simp only [hk, if_false]; exact ih h

theorem get?_append_of_some (s t : Spec) (q : Bytes) (v : SQueue) (h : get? s q = some v) :
    get? (s ++ t) q = some v := by
  induction s with
  | nil => cases h
  | cons kv s ih =>
    rw [get?_cons] at h
    rw [List.cons_append, get?_cons]
    split at h
    · rename_i hk; simp only [hk, if_true]; exact h
    · rename_i hk; simp only [hk, if_false]; exact ih h

theorem get?_map_replace_same (s : Spec) (q : Bytes) (v : SQueue) (h : get? s q ≠ none) :
    get? (s.map fun kv => if kv.1 == q then (q, v) else kv) q = some v := by
  induction s with
  | nil => exact absurd rfl h
  | cons kv s ih =>
    rw [get?_cons] at h
    rw [List.map_cons, get?_cons]
    by_cases hk : kv.1 = q
    · simp [hk]
    · have hb : (kv.1 == q) = false := by simpa using hk
      simp only [hk, if_false] at h
      simp only [hb, Bool.false_eq_true, if_false, hk]
      exact ih h

theorem get?_map_replace_other (s : Spec) (q q' : Bytes) (v : SQueue) (hne : q' ≠ q) :
    get? (s.map fun kv => if kv.1 == q then (q, v) else kv) q' = get? s q' := by
  induction s with
  | nil => rfl
  | cons kv s ih =>
    rw [List.map_cons, get?_cons, get?_cons, ih]
    by_cases hk : kv.1 = q
    · have hb : (kv.1 == q) = true := by simpa using hk
      have h1 : ¬ q = q' := fun h => hne h.symm
      have h2 : ¬ kv.1 = q' := by rw [hk]; exact h1
      simp only [hb, if_true, h1, h2, if_false]
    · have hb : (kv.1 == q) = false := by simpa using hk
      simp only [hb, Bool.false_eq_true, if_false]

theorem get?_set_same (s : Spec) (q : Bytes) (v : SQueue) : get? (s.set q v) q = some v := by
  unfold set
  split
  · rename_i h
    apply get?_map_replace_same
    intro hn
    rw [← any_key_eq_false_iff] at hn
    rw [hn] at h; cases h
  · rename_i h
    have hn : get? s q = none := by
      rw [← any_key_eq_false_iff]; exact Bool.eq_false_iff.mpr h
    rw [get?_append_of_none _ _ _ hn, get?_cons]
    simp

theorem get?_set_other (s : Spec) (q q' : Bytes) (v : SQueue) (hne : q' ≠ q) :
    get? (s.set q v) q' = get? s q' := by
  unfold set
  split
  · exact get?_map_replace_other s q q' v hne
  · cases hg : get? s q' with
    | none =>
      rw [get?_append_of_none _ _ _ hg, get?_cons]
      have : ¬ q = q' := fun h => hne h.symm
      simp [this, get?_nil]
    | some w => exact get?_append_of_some _ _ _ _ hg

theorem get?_remove_same (s : Spec) (q : Bytes) : get? (s.remove q) q = none := by
  unfold remove
  induction s with
  | nil => rfl
  | cons kv s ih =>
    rw [List.filter_cons]
    by_cases hk : kv.1 = q
    · simp only [hk, bne_self_eq_false, Bool.false_eq_true, if_false]; exact ih
    · have hb : (kv.1 != q) = true := by simpa using hk
      simp only [hb, if_true, get?_cons, hk, if_false]; exact ih

theorem get?_remove_other (s : Spec) (q q' : Bytes) (hne : q' ≠ q) :
    get? (s.remove q) q' = get? s q' := by
  unfold remove
  induction s with
  | nil => rfl
  | cons kv s ih =>
    rw [List.filter_cons, get?_cons]
    by_cases hk : kv.1 = q
    · have h2 : ¬ kv.1 = q' := by rw [hk]; exact fun h => hne h.symm
      simp only [hk, bne_self_eq_false, Bool.false_eq_true, if_false]
      rw [hk] at h2; simp only [h2, if_false]; exact ih
    · have hb : (kv.1 != q) = true := by simpa using hk
      simp only [hb, if_true, get?_cons, ih]

end MRL.Spec
