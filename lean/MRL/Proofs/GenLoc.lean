/-
C08 (genuineness): locations. The absolute header positions of the frames of a layout (`locs`),
the genuine frames at or after a position (`ahead`), and one step of the frame reader spelled out
(`scan_step`).
-/
import MRL.Proofs.GenTrace
import MRL.Proofs.GLayout

namespace MRL.Gen
open MRL Consts Codec Torn

/-- the frames of a layout written from absolute position `P`, each with the absolute position of
    its header (`G.hdrPos`: after the padding, if any) -/
def locs (g : Geom) : Nat → List Frm → List (Nat × Frm)
  | _, [] => []
  | P, fr :: fs => (G.hdrPos g P, fr) :: locs g (G.nextPos g P fr.2.length) fs

theorem locs_snd (g : Geom) (fs : List Frm) : ∀ P, (locs g P fs).map (·.2) = fs := by
  induction fs with
  | nil => intro P; rfl
  | cons fr fs ih => intro P; simp [locs, ih]

theorem locs_ge (g : Geom) (fs : List Frm) : ∀ P, ∀ y ∈ locs g P fs, G.hdrPos g P ≤ y.1 := by
  induction fs with
  | nil => intro P y hy; cases hy
  | cons fr fs ih =>
    intro P y hy
    simp only [locs, List.mem_cons] at hy
    rcases hy with rfl | hy
    · exact Nat.le_refl _
    · have h1 := ih _ y hy
      have h2 := G.le_hdrPos g (G.nextPos g P fr.2.length)
      unfold G.nextPos at h1 h2; omega

/-- a list of located frames such as `locs`: positions strictly increase, and the frame after the
    one at `q` (payload length `n`) is at or after `hdrPos (q + 7 + n)` -/
structure Located (g : Geom) (LL : List (Nat × Frm)) : Prop where
  sorted : LL.Pairwise (fun a b => a.1 < b.1)
  gap : ∀ A x Bl, LL = A ++ x :: Bl → ∀ y ∈ Bl, G.hdrPos g (x.1 + 7 + x.2.2.length) ≤ y.1

theorem located_locs (g : Geom) (fs : List Frm) : ∀ P, Located g (locs g P fs) := by
  induction fs with
  | nil => intro P; exact ⟨List.Pairwise.nil, fun A x Bl h => by cases A <;> simp [locs] at h⟩
  | cons fr fs ih =>
    intro P
    have hge := locs_ge g fs (G.nextPos g P fr.2.length)
    have hle := G.le_hdrPos g (G.nextPos g P fr.2.length)
    constructor
    · simp only [locs, List.pairwise_cons]
      refine ⟨fun y hy => ?_, (ih _).sorted⟩
      have := hge y hy
      unfold G.nextPos at this hle; omega
    · intro A x Bl h y hy
      cases A with
      | nil =>
        simp only [locs, List.nil_append, List.cons.injEq] at h
        obtain ⟨rfl, rfl⟩ := h
        exact hge y hy
      | cons a A =>
        simp only [locs, List.cons_append, List.cons.injEq] at h
        exact (ih _).gap A x Bl h.2 y hy

/-- the located frames at or after position `P` -/
def ahead (LL : List (Nat × Frm)) (P : Nat) : List (Nat × Frm) := LL.filter fun y => decide (P ≤ y.1)

/-- every frame ahead is at or after the next header position: nothing will be skipped by padding -/
def TightAt (g : Geom) (LL : List (Nat × Frm)) (Q : Nat) : Prop := ∀ y ∈ ahead LL Q, G.hdrPos g Q ≤ y.1

theorem ahead_mono (LL : List (Nat × Frm)) (hs : LL.Pairwise (fun a b => a.1 < b.1)) (P P' : Nat) (h : P ≤ P') :
    ∃ sk, ahead LL P = sk ++ ahead LL P' := by
  induction LL with
  | nil => exact ⟨[], rfl⟩
  | cons a l ih =>
    rw [List.pairwise_cons] at hs
    obtain ⟨sk, hsk⟩ := ih hs.2
    unfold ahead at *
    by_cases h1 : P' ≤ a.1
    · refine ⟨[], ?_⟩
      have e1 : (a :: l).filter (fun y => decide (P' ≤ y.1)) = a :: l := by
        rw [List.filter_eq_self]
        intro y hy
        rcases List.mem_cons.mp hy with rfl | hy
        · simpa using h1
        · have := hs.1 y hy; simp; omega
      have e2 : (a :: l).filter (fun y => decide (P ≤ y.1)) = a :: l := by
        rw [List.filter_eq_self]
        intro y hy
        rcases List.mem_cons.mp hy with rfl | hy
        · simp; omega
        · have := hs.1 y hy; simp; omega
      rw [e1, e2]; rfl
    · have e1 : (a :: l).filter (fun y => decide (P' ≤ y.1)) = l.filter (fun y => decide (P' ≤ y.1)) := by
        rw [List.filter_cons]; simp [h1]
      rw [e1, List.filter_cons]
      split
      · exact ⟨a :: sk, by rw [hsk]; rfl⟩
      · exact ⟨sk, hsk⟩

/-- a genuine frame exactly at `P`: it is the first one ahead, and what is ahead after it is tight -/
theorem ahead_hit (g : Geom) (LL : List (Nat × Frm)) (hL : Located g LL) (x : Nat × Frm) (hx : x ∈ LL) :
    ahead LL x.1 = x :: ahead LL (x.1 + 7 + x.2.2.length) ∧ TightAt g LL (x.1 + 7 + x.2.2.length) := by
  obtain ⟨A, Bl, hsplit⟩ := List.append_of_mem hx
  have hs := hL.sorted
  rw [hsplit, List.pairwise_append] at hs
  have hA : ∀ a ∈ A, a.1 < x.1 := fun a ha => hs.2.2 a ha x (by simp)
  have hB : ∀ y ∈ Bl, G.hdrPos g (x.1 + 7 + x.2.2.length) ≤ y.1 := hL.gap A x Bl hsplit
  have hle := G.le_hdrPos g (x.1 + 7 + x.2.2.length)
  have f1 : ∀ Q, x.1 ≤ Q → A.filter (fun y => decide (Q ≤ y.1)) = [] := by
    intro Q hQ
    rw [List.filter_eq_nil_iff]
    intro a ha; have := hA a ha; simp; omega
  have f2 : ∀ Q, Q ≤ G.hdrPos g (x.1 + 7 + x.2.2.length) → Bl.filter (fun y => decide (Q ≤ y.1)) = Bl := by
    intro Q hQ
    rw [List.filter_eq_self]
    intro y hy; have := hB y hy; simp; omega
  have e2 : ahead LL (x.1 + 7 + x.2.2.length) = Bl := by
    unfold ahead
    rw [hsplit, List.filter_append, f1 _ (by omega), List.filter_cons, f2 _ hle]
    simp; omega
  constructor
  · rw [e2]
    unfold ahead
    rw [hsplit, List.filter_append, f1 _ (Nat.le_refl _), List.filter_cons, f2 _ (by omega)]
    simp
  · intro y hy
    rw [e2] at hy
    exact hB y hy

/-- when tight, skipping the padding loses no genuine frame -/
theorem ahead_tight (g : Geom) (LL : List (Nat × Frm)) (Q : Nat) (h : TightAt g LL Q) :
    ahead LL Q = ahead LL (G.hdrPos g Q) := by
  unfold ahead
  apply List.filter_congr
  intro y hy
  have hle := G.le_hdrPos g Q
  by_cases h1 : Q ≤ y.1
  · have : y ∈ ahead LL Q := by unfold ahead; rw [List.mem_filter]; exact ⟨hy, by simpa using h1⟩
    have := h y this
    simp [h1, this]
  · have : ¬ G.hdrPos g Q ≤ y.1 := by omega
    simp [h1, this]

theorem tightAt_good (g : Geom) (LL : List (Nat × Frm)) (Q : Nat) (h : G.hdrPos g Q = Q) : TightAt g LL Q := by
  intro y hy
  unfold ahead at hy
  have := (List.mem_filter.mp hy).2
  rw [h]; simpa using this

/-! ### one step of the frame reader -/

/-- `scanBlockFrom` unfolded once, as five cases -/
theorem scan_step (g : Geom) (r : Bytes) (x : Nat) :
    (g.B - x < 7 ∧ scanBlockFrom g r x = ([], .needNext x)) ∨
    (7 ≤ g.B - x ∧ isAllZero (r.take 7) = true ∧ scanBlockFrom g r x = ([], .zeroHeader x)) ∨
    (7 ≤ g.B - x ∧ isAllZero (r.take 7) = false ∧ FrameType.ofCode ((r.take 7).getD 6 0).toNat = none ∧
      scanBlockFrom g r x = ([.corrupt], .needNext x)) ∨
    (∃ t, 7 ≤ g.B - x ∧ isAllZero (r.take 7) = false ∧ FrameType.ofCode ((r.take 7).getD 6 0).toNat = some t ∧
      x + 7 + leNat (((r.take 7).drop 4).take 2) > g.B ∧
      scanBlockFrom g r x = ([.corrupt], .needNext (x + 7))) ∨
    (∃ t, 7 ≤ g.B - x ∧ isAllZero (r.take 7) = false ∧ FrameType.ofCode ((r.take 7).getD 6 0).toNat = some t ∧
      x + 7 + leNat (((r.take 7).drop 4).take 2) ≤ g.B ∧
      scanBlockFrom g r x =
        ((if frameCrc t ((r.drop 7).take (leNat (((r.take 7).drop 4).take 2))) = leNat ((r.take 7).take 4)
            then FrameEv.frame t ((r.drop 7).take (leNat (((r.take 7).drop 4).take 2))) else FrameEv.corrupt) ::
          (scanBlockFrom g ((r.drop 7).drop (leNat (((r.take 7).drop 4).take 2)))
            (x + 7 + leNat (((r.take 7).drop 4).take 2))).1,
         (scanBlockFrom g ((r.drop 7).drop (leNat (((r.take 7).drop 4).take 2)))
            (x + 7 + leNat (((r.take 7).drop 4).take 2))).2)) := by
  by_cases h1 : g.B - x < 7
  · left; refine ⟨h1, ?_⟩; rw [scanBlockFrom]; simp [HEADER_LEN, h1]
  · right
    have h1' : ¬ (g.B - x < HEADER_LEN) := by simpa [HEADER_LEN] using h1
    by_cases h2 : isAllZero (r.take 7) = true
    · left; refine ⟨by omega, h2, ?_⟩; rw [scanBlockFrom]; simp [HEADER_LEN, h1, h2]
    · right
      have h2' : isAllZero (r.take 7) = false := by simpa using h2
      cases h3 : FrameType.ofCode ((r.take 7).getD 6 0).toNat with
      | none =>
        left; refine ⟨by omega, h2', rfl, ?_⟩
        rw [scanBlockFrom]; simp only [h1', dite_false, HEADER_LEN, h2', h3]; rfl
      | some t =>
        right
        by_cases h4 : x + 7 + leNat (((r.take 7).drop 4).take 2) > g.B
        · left; refine ⟨t, by omega, h2', rfl, h4, ?_⟩
          rw [scanBlockFrom]; simp only [h1', dite_false, HEADER_LEN, h2', h3, h4, if_true]; rfl
        · right; refine ⟨t, by omega, h2', rfl, by omega, ?_⟩
          rw [scanBlockFrom]; simp only [h1', dite_false, HEADER_LEN, h2', h3, h4, if_false]; rfl

end MRL.Gen
