/-
The raw tape, generalised to what crashes leave: the next file may already exist, still empty
(`x = true`; a crash between `create` and `set_len`). Writing a buffer: the roll-over then takes
the `ensureLen` branch of `writeBuf`. Crash states of the writes, both at any byte (`w = false`)
and at effect boundaries only (`w = true`).
-/
import MRL.Proofs.HCrashTape

namespace MRL.L
open MRL Buf G H Codec Log

/-! ### cut states, with or without byte cuts -/

/-- images reachable by stopping the direct application of the effects at some point; with
    `w = true` only between two effects, with `w = false` also inside a write -/
inductive CutW : Bool → Image → List Effect → Image → Prop
  | stop (w : Bool) (img : Image) (V : List Effect) : CutW w img V img
  | part (img : Image) (f off : Nat) (d : Bytes) (c : Nat) (V : List Effect) :
      CutW false img (.write f off d :: V) (applyOs img (.write f off (d.take c)))
  | next (w : Bool) (img : Image) (v : Effect) (V : List Effect) (X : Image) :
      CutW w (applyOsOps img (direct v)) V X → CutW w img (v :: V) X

theorem CutW.of_cutState {img : Image} {V : List Effect} {X : Image} (h : CutState img V X) :
    CutW false img V X := by
  induction h with
  | stop => exact .stop _ _ _
  | part _ f off d c _ => exact .part _ f off d c _
  | next _ _ _ _ _ ih => exact .next _ _ _ _ _ ih

theorem CutW.weaken {w : Bool} {img : Image} {V : List Effect} {X : Image} (h : CutW w img V X) :
    CutW false img V X := by
  induction h with
  | stop => exact .stop _ _ _
  | part _ f off d c _ => exact .part _ f off d c _
  | next _ _ _ _ _ _ ih => exact .next _ _ _ _ _ ih

/-- the image after the first `n` effects is a whole-effect cut state -/
theorem CutW.of_take (w : Bool) : ∀ (V : List Effect) (n : Nat) (img : Image),
    CutW w img V (applyOsOps img (directOps (V.take n))) := by
  intro V
  induction V with
  | nil => intro n img; simpa [directOps, applyOsOps] using CutW.stop w img []
  | cons v V ih =>
    intro n img
    cases n with
    | zero => simpa [directOps, applyOsOps] using CutW.stop w img (v :: V)
    | succ n =>
      rw [List.take_succ_cons, directOps_cons, applyOsOps_append]
      exact .next _ _ _ _ _ (ih n _)

theorem CutW.to_take : ∀ {V : List Effect} {img X : Image}, CutW true img V X →
    ∃ n, n ≤ V.length ∧ X = applyOsOps img (directOps (V.take n)) := by
  intro V
  induction V with
  | nil => intro img X h; cases h; exact ⟨0, Nat.le_refl _, rfl⟩
  | cons v V ih =>
    intro img X h
    cases h with
    | stop => exact ⟨0, Nat.zero_le _, rfl⟩
    | next _ _ _ _ _ h1 =>
      obtain ⟨n, hn, hX⟩ := ih h1
      exact ⟨n + 1, by simpa using hn, by rw [List.take_succ_cons, directOps_cons, applyOsOps_append]; exact hX⟩

theorem CutW.cons_inv {w : Bool} {img : Image} {v : Effect} {V : List Effect} {X : Image}
    (h : CutW w img (v :: V) X) :
    X = img ∨ (w = false ∧ ∃ f off d c, v = .write f off d ∧ X = applyOs img (.write f off (d.take c))) ∨
      CutW w (applyOsOps img (direct v)) V X := by
  cases h with
  | stop => exact Or.inl rfl
  | part _ f off d c _ => exact Or.inr (Or.inl ⟨rfl, f, off, d, c, rfl, rfl⟩)
  | next _ _ _ _ _ h1 => exact Or.inr (Or.inr h1)

theorem CutW.nil_inv {w : Bool} {img X : Image} (h : CutW w img [] X) : X = img := by
  cases h; rfl

theorem CutW.of_append {w : Bool} {img : Image} (A : List Effect) {B : List Effect} {X : Image}
    (h : CutW w img (A ++ B) X) :
    CutW w img A X ∨ CutW w (applyOsOps img (directOps A)) B X := by
  induction A generalizing img with
  | nil => right; simpa [directOps, applyOsOps] using h
  | cons a A ih =>
    cases h with
    | stop => left; exact .stop _ _ _
    | part _ f off d c _ => left; exact .part _ _ _ _ c _
    | next _ _ _ _ _ h1 =>
      rcases ih h1 with h2 | h2
      · left; exact .next _ _ _ _ _ h2
      · right; rw [directOps_cons, applyOsOps_append]; exact h2

theorem CutW.append_left {w : Bool} {img : Image} {A : List Effect} {X : Image} (B : List Effect)
    (h : CutW w img A X) : CutW w img (A ++ B) X := by
  induction h with
  | stop => exact .stop _ _ _
  | part _ f off d c _ => exact .part _ _ _ _ c _
  | next _ _ _ _ _ _ ih => exact .next _ _ _ _ _ ih

theorem CutW.append_right {w : Bool} {img : Image} (A : List Effect) {B : List Effect} {X : Image}
    (h : CutW w (applyOsOps img (directOps A)) B X) : CutW w img (A ++ B) X := by
  induction A generalizing img with
  | nil => simpa [directOps, applyOsOps] using h
  | cons a A ih =>
    refine .next _ _ _ _ _ (ih ?_)
    rw [directOps_cons, applyOsOps_append] at h
    exact h

theorem CutW.full (w : Bool) (A : List Effect) (img : Image) : CutW w img A (applyOsOps img (directOps A)) := by
  have := CutW.of_take w A A.length img
  rwa [List.take_length] at this

theorem cutW_syncL {w : Bool} {sy : List Effect} (hs : IsSyncL sy) : ∀ {img X : Image}, CutW w img sy X → X = img := by
  intro img X h
  exact cut_syncL hs (by
    clear hs
    induction h with
    | stop => exact .stop _ _
    | part _ f off d c _ => exact .part _ _ _ _ c _
    | next _ _ _ _ _ _ ih => exact .next _ _ _ _ ih)

theorem CutW.to_cutState {w : Bool} {img : Image} {V : List Effect} {X : Image} (h : CutW w img V X) :
    CutState img V X := by
  induction h with
  | stop => exact .stop _ _
  | part _ f off d c _ => exact .part _ _ _ _ c _
  | next _ _ _ _ _ _ ih => exact .next _ _ _ _ ih

theorem cutW_unlinks {w : Bool} (fs : List Nat) {img X : Image} (h : CutW w img (fs.map Effect.unlink) X) :
    ∃ k, k ≤ fs.length ∧ X = applyOsOps img ((fs.take k).map OsOp.unlink) :=
  cut_unlinks fs h.to_cutState

/-! ### the tape with an optional empty next file -/

def xtra (x : Bool) (f : Nat) : Image := if x then [(f, [])] else []

theorem imgOf_snoc (F : Nat) (cs : List Bytes) (c : Bytes) : imgOf F (cs ++ [c]) = imgOf F cs ++ [(F + cs.length, c)] := by
  rw [imgOf_append]; rfl

structure TapeX (g : Geom) (l : Log) (D : Image) (F : Nat) (init : List Bytes) (t : Bytes) (x : Bool) : Prop where
  img : D = imgOf F (init ++ [t ++ zeros (g.fileBytes - l.off)]) ++ xtra x (F + init.length + 1)
  full : ∀ c ∈ init, c.length = g.fileBytes
  tlen : t.length = l.off
  off_le : l.off ≤ g.fileBytes
  files : l.files = List.range' F (init.length + 1 + (if x then 1 else 0))
  cur : l.cur = F + init.length

/-- the same log, not tracking the empty next file -/
def shl (l : Log) (F n : Nat) : Log := { l with files := List.range' F (n + 1) }

theorem TapeX.sh {g : Geom} {l : Log} {D : Image} {F : Nat} {init : List Bytes} {t : Bytes} {x : Bool}
    (h : TapeX g l D F init t x) :
    Tape g (shl l F init.length) (imgOf F (init ++ [t ++ zeros (g.fileBytes - l.off)])) F init t :=
  ⟨rfl, h.full, h.tlen, h.off_le, rfl, h.cur⟩

theorem TapeX.of_tape {g : Geom} {l : Log} {D : Image} {F : Nat} {init : List Bytes} {t : Bytes}
    (h : Tape g l D F init t) : TapeX g l D F init t false :=
  ⟨by simpa [xtra] using h.img, h.full, h.tlen, h.off_le, by simpa using h.files, h.cur⟩

theorem TapeX.to_tape {g : Geom} {l : Log} {D : Image} {F : Nat} {init : List Bytes} {t : Bytes}
    (h : TapeX g l D F init t false) : Tape g l D F init t :=
  ⟨by simpa [xtra] using h.img, h.full, h.tlen, h.off_le, by simpa using h.files, h.cur⟩

theorem TapeX.P_length {g : Geom} {l : Log} {D : Image} {F : Nat} {init : List Bytes} {t : Bytes} {x : Bool}
    (h : TapeX g l D F init t x) : (init.flatten ++ t).length = init.length * g.fileBytes + l.off := by
  rw [List.length_append, flatten_length_full _ _ h.full, h.tlen]

theorem TapeX.congr {g : Geom} {l l' : Log} {D : Image} {F : Nat} {init : List Bytes} {t : Bytes} {x : Bool}
    (h : TapeX g l D F init t x) (hf : l'.files = l.files) (hc : l'.cur = l.cur) (ho : l'.off = l.off) :
    TapeX g l' D F init t x :=
  ⟨by rw [ho]; exact h.img, h.full, by rw [ho]; exact h.tlen, by rw [ho]; exact h.off_le,
    by rw [hf]; exact h.files, by rw [hc]; exact h.cur⟩

theorem nextFile_rangeX (F n : Nat) : nextFile (List.range' F (n + 1 + 1)) (F + n) = some (F + n + 1) := by
  unfold nextFile
  have : List.range' F (n + 1 + 1) = List.range' F (n + 1) ++ [F + (n + 1)] := (range'_snoc F (n + 1)).symm
  rw [this, List.find?_append]
  have h1 : (List.range' F (n + 1)).find? (fun y => decide (F + n < y)) = none := by
    rw [List.find?_eq_none]
    intro y hy
    rw [List.mem_range'_1] at hy
    simp only [decide_eq_true_eq]; omega
  rw [h1]
  simp
  omega

/-- what `writeBuf` does, depending on the roll-over and on the next file -/
theorem writeBuf_noroll (g : Geom) (l : Log) (buf : Bytes) (hne : buf ≠ [])
    (h : ¬ l.off + buf.length > g.fileBytes) :
    writeBuf g l buf = ({ l with off := l.off + buf.length }, [.write l.cur l.off buf]) := by
  have he : buf.isEmpty = false := by cases buf <;> simp_all
  unfold writeBuf
  simp only [he, Bool.false_eq_true, if_false, h]

theorem writeBuf_roll_none (g : Geom) (l : Log) (buf : Bytes) (hne : buf ≠ [])
    (h : l.off + buf.length > g.fileBytes) (hn : nextFile l.files l.cur = none) :
    writeBuf g l buf = ({ l with files := l.files ++ [l.cur + 1], cur := l.cur + 1, off := buf.length },
      [Effect.flush, .fsyncFile l.cur, .fsyncDir] ++
        [.create (l.cur + 1), .setLen (l.cur + 1) g.fileBytes, .write (l.cur + 1) 0 buf]) := by
  have he : buf.isEmpty = false := by cases buf <;> simp_all
  unfold writeBuf
  simp only [he, Bool.false_eq_true, if_false, h, if_true, hn]

theorem writeBuf_roll_some (g : Geom) (l : Log) (buf : Bytes) (hne : buf ≠ [])
    (h : l.off + buf.length > g.fileBytes) (nf : Nat) (hn : nextFile l.files l.cur = some nf) :
    writeBuf g l buf = ({ l with cur := nf, off := buf.length },
      [Effect.flush, .fsyncFile l.cur, .fsyncDir] ++
        [.openFile nf, .ensureLen nf g.fileBytes, .write nf 0 buf]) := by
  have he : buf.isEmpty = false := by cases buf <;> simp_all
  unfold writeBuf
  simp only [he, Bool.false_eq_true, if_false, h, if_true, hn]

theorem xtra_keys (x : Bool) (f f' : Nat) (hne : f ≠ f') : ∀ kv ∈ xtra x f, kv.1 ≠ f' := by
  intro kv hkv
  cases x
  · cases hkv
  · simp only [xtra, if_true, List.mem_singleton] at hkv
    rw [hkv]; exact hne

/-- one buffer -/
theorem writeBuf_tapeX (g : Geom) {l : Log} {D : Image} {F : Nat} {init : List Bytes} {t : Bytes} {x : Bool}
    (h : TapeX g l D F init t x) (buf : Bytes) (hne : buf ≠ []) (hnc : l.off % g.B + buf.length ≤ g.B) :
    ∃ init' t' x', TapeX g (writeBuf g l buf).1 (applyOsOps D (directOps (writeBuf g l buf).2)) F init' t' x' ∧
      init'.flatten ++ t' = init.flatten ++ t ++ buf ∧
      (writeBuf g l buf).1.cur = F + (init.flatten ++ t).length / g.fileBytes ∧
      (writeBuf g l buf).1.off % g.B = adv g (l.off % g.B) buf.length := by
  cases x with
  | false =>
    obtain ⟨i', t', a1, a2, a3, a4⟩ := writeBuf_tape g h.to_tape buf hne hnc
    exact ⟨i', t', false, TapeX.of_tape a1, a2, a3, a4⟩
  | true =>
    have hsh := h.sh
    obtain ⟨i', t', a1, a2, a3, a4⟩ := writeBuf_tape g hsh buf hne hnc
    have hfiles : l.files = List.range' F (init.length + 1 + 1) := by simpa using h.files
    by_cases hroll : l.off + buf.length > g.fileBytes
    · -- the roll-over reuses the empty file
      have hnf : nextFile l.files l.cur = some (l.cur + 1) := by
        rw [hfiles, h.cur]; exact nextFile_rangeX F _
      have hnfs : nextFile (shl l F init.length).files (shl l F init.length).cur = none := by
        show nextFile (List.range' F (init.length + 1)) l.cur = none
        rw [h.cur]; exact nextFile_range F _
      have hfullf : l.off = g.fileBytes := by
        have := h.off_le
        by_cases hlt : l.off < g.fileBytes
        · have := fits_file g l.off buf.length hlt hnc; omega
        · omega
      rw [writeBuf_roll_none g (shl l F init.length) buf hne hroll hnfs] at a1 a3 a4
      rw [writeBuf_roll_some g l buf hne hroll _ hnf]
      have hlog : ({ l with cur := l.cur + 1, off := buf.length } : Log) =
          Log.mk ((shl l F init.length).files ++ [(shl l F init.length).cur + 1])
            ((shl l F init.length).cur + 1) buf.length (shl l F init.length).queues (shl l F init.length).policy := by
        show _ = Log.mk (List.range' F (init.length + 1) ++ [l.cur + 1]) (l.cur + 1) buf.length l.queues l.policy
        rw [h.cur, show F + init.length + 1 = F + (init.length + 1) by omega, range'_snoc, ← hfiles]
      have hlast : t ++ zeros (g.fileBytes - l.off) = t := by rw [hfullf]; simp [zeros]
      have himg : applyOsOps D (directOps ([Effect.flush, .fsyncFile l.cur, .fsyncDir] ++
            [.openFile (l.cur + 1), .ensureLen (l.cur + 1) g.fileBytes, .write (l.cur + 1) 0 buf])) =
          applyOsOps (imgOf F (init ++ [t ++ zeros (g.fileBytes - l.off)]))
            (directOps ([Effect.flush, .fsyncFile (shl l F init.length).cur, .fsyncDir] ++
              [.create ((shl l F init.length).cur + 1), .setLen ((shl l F init.length).cur + 1) g.fileBytes,
                .write ((shl l F init.length).cur + 1) 0 buf])) := by
        have hnum : l.cur + 1 = F + (init ++ [t]).length := by rw [h.cur]; simp; omega
        show _ = applyOsOps _ (directOps ([Effect.flush, .fsyncFile l.cur, .fsyncDir] ++
              [.create (l.cur + 1), .setLen (l.cur + 1) g.fileBytes, .write (l.cur + 1) 0 buf]))
        simp only [directOps, List.flatMap_cons, List.flatMap_nil, direct, List.cons_append,
          List.nil_append, List.append_nil, applyOsOps, List.foldl_cons, List.foldl_nil, applyOs]
        rw [h.img, hlast]
        simp only [xtra, if_true]
        rw [(by simp; omega : F + init.length + 1 = F + (init ++ [t]).length), ← imgOf_snoc, hnum,
          insertFile_end, mapFile_last, mapFile_last, mapFile_last, mapFile_last]
        have hfb := fileBytes_pos g
        simp [hfb]
      refine ⟨i', t', false, ?_, a2, a3, a4⟩
      rw [hlog, himg]
      exact TapeX.of_tape a1
    · -- same file; the empty next file stays
      rw [writeBuf_noroll g (shl l F init.length) buf hne hroll] at a1 a3 a4
      rw [writeBuf_noroll g l buf hne hroll]
      have hlen' : i'.length = init.length := by
        have h1 := a1.cur
        have h2 : (shl l F init.length).cur = l.cur := rfl
        simp only [h2] at h1
        rw [h.cur] at h1
        omega
      refine ⟨i', t', true, ⟨?_, a1.full, a1.tlen, a1.off_le, ?_, ?_⟩, a2, a3, a4⟩
      · have h1 := a1.img
        simp only [directOps, List.flatMap_cons, List.flatMap_nil, direct, List.append_nil,
          applyOsOps, List.foldl_cons, List.foldl_nil, applyOs] at h1 ⊢
        rw [h.img, mapFile_append, mapFile_notin (xtra true _) _ _ (xtra_keys true _ _ (by rw [h.cur]; omega))]
        have h2 : (shl l F init.length).cur = l.cur := rfl
        have h3 : (shl l F init.length).off = l.off := rfl
        rw [h2, h3] at h1
        rw [h1, hlen']
      · show l.files = _
        rw [hfiles, hlen']; rfl
      · show l.cur = _
        rw [h.cur, hlen']

/-- a list of buffers -/
theorem writeBufs_tapeX (g : Geom) (bufs : List Bytes) : ∀ {l : Log} {D : Image} {F : Nat}
    {init : List Bytes} {t : Bytes} {x : Bool}, TapeX g l D F init t x → NoCross g (l.off % g.B) bufs →
    ∃ init' t' x', TapeX g (writeBufs g l bufs).1 (applyOsOps D (directOps (writeBufs g l bufs).2)) F init' t' x' ∧
      init'.flatten ++ t' = init.flatten ++ t ++ bufs.flatten ∧
      (bufs ≠ [] → (writeBufs g l bufs).1.cur =
        F + ((init.flatten ++ t).length + totalLen bufs.dropLast) / g.fileBytes) := by
  induction bufs with
  | nil =>
    intro l D F init t x h _
    exact ⟨init, t, x, by simpa [writeBufs, directOps, applyOsOps] using h, by simp, fun h => absurd rfl h⟩
  | cons b bs ih =>
    intro l D F init t x h hnc
    obtain ⟨h1, h2, h3⟩ := hnc
    have hne : b ≠ [] := by intro e; rw [e] at h1; simp at h1
    obtain ⟨i1, t1, x1, ht1, hp1, hcur1, hc1⟩ := writeBuf_tapeX g h b hne h2
    rw [← hc1] at h3
    obtain ⟨i2, t2, x2, ht2, hp2, hcur2⟩ := ih ht1 h3
    refine ⟨i2, t2, x2, ?_, ?_, ?_⟩
    · rw [Step.writeBufs_cons]
      simp only [directOps_append, applyOsOps_append]
      exact ht2
    · rw [hp2, hp1]; simp [List.append_assoc]
    · intro _
      rw [Step.writeBufs_cons]
      simp only
      cases bs with
      | nil =>
        simp only [writeBufs, List.dropLast_singleton, totalLen_nil, Nat.add_zero]
        exact hcur1
      | cons b2 bs2 =>
        rw [hcur2 (by simp), hp1, List.dropLast_cons_cons, totalLen_cons, List.length_append]
        congr 2; omega

/-! ### crash states of the writes -/

/-- the files `F, F+1, …` of `X` are full-size and hold `Pm` followed by zeros, `Pm` ends in the
    last of them (or at its very end); the next file may exist, empty -/
def RTape (g : Geom) (F : Nat) (Pm : Bytes) (X : Image) : Prop :=
  ∃ (cs : List Bytes) (x : Bool), cs ≠ [] ∧ (∀ c ∈ cs, c.length = g.fileBytes) ∧
    (∃ z, cs.flatten = Pm ++ zeros z) ∧ X = imgOf F cs ++ xtra x (F + cs.length) ∧
    (cs.length - 1) * g.fileBytes ≤ Pm.length

theorem RTape.ctape {g : Geom} {F : Nat} {Pm : Bytes} {X : Image} (h : RTape g F Pm X) : CTape g F Pm X := by
  obtain ⟨cs, x, h1, h2, h3, h4, _⟩ := h
  refine ⟨cs, h1, h2, h3, ?_⟩
  cases x
  · left; simpa [xtra] using h4
  · right; simpa [xtra] using h4

theorem tapeX_chunks {g : Geom} {l : Log} {D : Image} {F : Nat} {init : List Bytes} {t : Bytes} {x : Bool}
    (h : TapeX g l D F init t x) :
    ∀ c ∈ init ++ [t ++ zeros (g.fileBytes - l.off)], c.length = g.fileBytes := by
  intro c hc
  rcases List.mem_append.mp hc with hc | hc
  · exact h.full c hc
  · simp only [List.mem_singleton] at hc
    have := h.off_le
    rw [hc]; simp [h.tlen]; omega

theorem rtape_of_tapeX {g : Geom} {l : Log} {D : Image} {F : Nat} {init : List Bytes} {t : Bytes} {x : Bool}
    (h : TapeX g l D F init t x) : RTape g F (init.flatten ++ t) D := by
  refine ⟨init ++ [t ++ zeros (g.fileBytes - l.off)], x, by simp, tapeX_chunks h,
    ⟨g.fileBytes - l.off, by simp⟩, ?_, ?_⟩
  · rw [h.img]; simp [Nat.add_assoc]
  · rw [h.P_length]; simp

theorem full_snoc {fb : Nat} {cs : List Bytes} (h : ∀ c ∈ cs, c.length = fb) {x : Bytes} (hx : x.length = fb) :
    ∀ c ∈ cs ++ [x], c.length = fb := by
  intro c hc
  rcases List.mem_append.mp hc with hc | hc
  · exact h c hc
  · simp only [List.mem_singleton] at hc; rw [hc, hx]

/-- the end of a roll-over: the next file exists, empty; it is sized, then written -/
theorem roll_tail (g : Geom) (F : Nat) (cs : List Bytes) (hne : cs ≠ []) (hfull : ∀ c ∈ cs, c.length = g.fileBytes)
    (buf : Bytes) (hbl : buf.length ≤ g.fileBytes) (e5 : Effect)
    (he5 : e5 = .setLen (F + cs.length) g.fileBytes ∨ e5 = .ensureLen (F + cs.length) g.fileBytes)
    {w : Bool} {X : Image} (hX : CutW w (imgOf F (cs ++ [[]])) [e5, .write (F + cs.length) 0 buf] X) :
    ∃ m, RTape g F (cs.flatten ++ buf.take m) X ∧ (w = true → m = 0 ∨ buf.length ≤ m) := by
  have hfb := fileBytes_pos g
  have hPl : cs.flatten.length = cs.length * g.fileBytes := flatten_length_full _ _ hfull
  have h5 : applyOsOps (imgOf F (cs ++ [[]])) (direct e5) = imgOf F (cs ++ [zeros g.fileBytes]) := by
    rcases he5 with rfl | rfl
    · simp only [direct, applyOsOps, List.foldl_cons, List.foldl_nil, applyOs]
      rw [mapFile_last, setLenBytes_nil]
    · simp only [direct, applyOsOps, List.foldl_cons, List.foldl_nil, applyOs]
      rw [mapFile_last]
      simp [hfb, setLenBytes_nil]
  have hw : ∀ c, applyOs (imgOf F (cs ++ [zeros g.fileBytes])) (.write (F + cs.length) 0 (buf.take c)) =
      imgOf F (cs ++ [buf.take c ++ zeros (g.fileBytes - (buf.take c).length)]) := by
    intro c
    have hcl : (buf.take c).length ≤ g.fileBytes := by simp; omega
    have hov := overwrite_tail [] g.fileBytes (buf.take c) hcl
    simp only [List.nil_append, List.length_nil] at hov
    simp only [applyOs]
    rw [mapFile_last, hov]
  have hres : ∀ c, RTape g F (cs.flatten ++ buf.take c)
      (imgOf F (cs ++ [buf.take c ++ zeros (g.fileBytes - (buf.take c).length)])) := by
    intro c
    have hcl : (buf.take c).length ≤ g.fileBytes := by simp; omega
    refine ⟨cs ++ [buf.take c ++ zeros (g.fileBytes - (buf.take c).length)], false, by simp,
      full_snoc hfull (by simp; omega), ⟨g.fileBytes - (buf.take c).length, by simp⟩, by simp [xtra], ?_⟩
    simp only [List.length_append, List.length_cons, List.length_nil, Nat.zero_add, Nat.add_sub_cancel, hPl]
    omega
  rcases hX.cons_inv with h1 | ⟨_, _, _, _, _, hw1, _⟩ | hX
  · refine ⟨0, ⟨cs, true, hne, hfull, ⟨0, by simp [zeros]⟩, ?_, ?_⟩, fun _ => Or.inl rfl⟩
    · rw [h1, imgOf_snoc]; rfl
    · simp only [List.take_zero, List.append_nil, hPl]
      exact Nat.mul_le_mul_right _ (Nat.sub_le _ _)
  · rcases he5 with rfl | rfl <;> cases hw1
  rw [h5] at hX
  rcases hX.cons_inv with h1 | ⟨hwf, f, off, d, c, hw1, h1⟩ | hX
  · refine ⟨0, ?_, fun _ => Or.inl rfl⟩
    have := hres 0
    simp only [List.take_zero, List.length_nil, Nat.sub_zero, List.nil_append] at this
    rw [h1]; exact this
  · injection hw1 with e1 e2 e3
    subst e1 e2 e3
    rw [hw] at h1
    exact ⟨c, by rw [h1]; exact hres c, fun hwt => by rw [hwf] at hwt; cases hwt⟩
  · have h1 := hX.nil_inv
    simp only [direct, applyOsOps, List.foldl_cons, List.foldl_nil] at h1
    have h2 := hw buf.length
    rw [List.take_length] at h2
    rw [h2] at h1
    refine ⟨buf.length, ?_, fun _ => Or.inr (Nat.le_refl _)⟩
    have := hres buf.length
    rw [h1]; simpa only [List.take_length] using this

/-- one buffer -/
theorem writeBuf_cutW (g : Geom) {l : Log} {D : Image} {F : Nat} {init : List Bytes} {t : Bytes} {x : Bool}
    (h : TapeX g l D F init t x) (buf : Bytes) (hne : buf ≠ []) (hnc : l.off % g.B + buf.length ≤ g.B)
    {w : Bool} {X : Image} (hX : CutW w D (writeBuf g l buf).2 X) :
    ∃ m, RTape g F (init.flatten ++ t ++ buf.take m) X ∧ (w = true → m = 0 ∨ buf.length ≤ m) := by
  have hlen : 0 < buf.length := List.length_pos_iff.mpr hne
  obtain ⟨i', t', x', hT', hP', _, _⟩ := writeBuf_tapeX g h buf hne hnc
  have hfull : ∃ m, RTape g F (init.flatten ++ t ++ buf.take m)
      (applyOsOps D (directOps (writeBuf g l buf).2)) ∧ (w = true → m = 0 ∨ buf.length ≤ m) :=
    ⟨buf.length, by rw [List.take_length, ← hP']; exact rtape_of_tapeX hT', fun _ => Or.inr (Nat.le_refl _)⟩
  have hnone : ∃ m, RTape g F (init.flatten ++ t ++ buf.take m) D ∧ (w = true → m = 0 ∨ buf.length ≤ m) :=
    ⟨0, by simpa using rtape_of_tapeX h, fun _ => Or.inl rfl⟩
  by_cases hroll : l.off + buf.length > g.fileBytes
  · have hfullf : l.off = g.fileBytes := by
      have := h.off_le
      by_cases hlt : l.off < g.fileBytes
      · have := fits_file g l.off buf.length hlt hnc; omega
      · omega
    have hbl : buf.length ≤ g.fileBytes := by
      have := B_le_fileBytes g
      have : l.off % g.B = 0 := by rw [hfullf]; exact fileBytes_mod g
      omega
    have hlast : t ++ zeros (g.fileBytes - l.off) = t := by rw [hfullf]; simp [zeros]
    have hnum : l.cur + 1 = F + (init ++ [t]).length := by rw [h.cur]; simp; omega
    have hfullcs : ∀ c ∈ init ++ [t], c.length = g.fileBytes := full_snoc h.full (by rw [h.tlen, hfullf])
    have hflat : (init ++ [t]).flatten = init.flatten ++ t := by simp
    -- the three syncs
    have sync3 : ∀ {e4 e5 e6 : Effect}, CutW w D [Effect.flush, .fsyncFile l.cur, .fsyncDir, e4, e5, e6] X →
        X = D ∨ CutW w D [e4, e5, e6] X := by
      intro e4 e5 e6 hX
      rcases hX.cons_inv with h1 | ⟨_, _, _, _, _, hw1, _⟩ | hX
      · exact Or.inl h1
      · cases hw1
      rcases hX.cons_inv with h1 | ⟨_, _, _, _, _, hw1, _⟩ | hX
      · exact Or.inl h1
      · cases hw1
      rcases hX.cons_inv with h1 | ⟨_, _, _, _, _, hw1, _⟩ | hX
      · exact Or.inl h1
      · cases hw1
      exact Or.inr hX
    cases x with
    | false =>
      have hnf : nextFile l.files l.cur = none := by
        have := h.files
        simp only [Bool.false_eq_true, if_false, Nat.add_zero] at this
        rw [this, h.cur]; exact nextFile_range F _
      rw [writeBuf_roll_none g l buf hne hroll hnf] at hX
      rcases sync3 hX with h1 | hX
      · rw [h1]; exact hnone
      have hD : D = imgOf F (init ++ [t]) := by rw [h.img, hlast]; simp [xtra]
      rcases hX.cons_inv with h1 | ⟨_, _, _, _, _, hw1, _⟩ | hX
      · rw [h1]; exact hnone
      · cases hw1
      simp only [direct, applyOsOps, List.foldl_nil, List.foldl_cons, applyOs] at hX
      rw [hD, hnum, insertFile_end] at hX
      obtain ⟨m, hm, hmw⟩ := roll_tail g F (init ++ [t]) (by simp) hfullcs buf hbl _ (Or.inl rfl) hX
      exact ⟨m, by rw [← hflat]; exact hm, hmw⟩
    | true =>
      have hnf : nextFile l.files l.cur = some (l.cur + 1) := by
        have := h.files
        simp only [if_true] at this
        rw [this, h.cur]; exact nextFile_rangeX F _
      rw [writeBuf_roll_some g l buf hne hroll _ hnf] at hX
      rcases sync3 hX with h1 | hX
      · rw [h1]; exact hnone
      have hD : D = imgOf F ((init ++ [t]) ++ [[]]) := by
        rw [h.img, hlast, imgOf_snoc F (init ++ [t]) []]
        simp [xtra, Nat.add_assoc]
      rcases hX.cons_inv with h1 | ⟨_, _, _, _, _, hw1, _⟩ | hX
      · rw [h1]; exact hnone
      · cases hw1
      simp only [direct, applyOsOps, List.foldl_nil] at hX
      rw [hD, hnum] at hX
      obtain ⟨m, hm, hmw⟩ := roll_tail g F (init ++ [t]) (by simp) hfullcs buf hbl _ (Or.inr rfl) hX
      exact ⟨m, by rw [← hflat]; exact hm, hmw⟩
  · rw [writeBuf_noroll g l buf hne hroll] at hX hfull
    rcases hX.cons_inv with h1 | ⟨hwf, f, off, d, c, hw1, h1⟩ | hX
    · rw [h1]; exact hnone
    · injection hw1 with e1 e2 e3
      subst e1 e2 e3
      have hcl : (buf.take c).length ≤ g.fileBytes - l.off := by simp; omega
      simp only [applyOs] at h1
      rw [h.img, mapFile_append, mapFile_notin (xtra x _) _ _ (xtra_keys x _ _ (by rw [h.cur]; omega)), h.cur,
        mapFile_last, ← h.tlen, overwrite_tail t _ _ (by rw [h.tlen]; exact hcl)] at h1
      refine ⟨c, ⟨init ++ [t ++ buf.take c ++ zeros (g.fileBytes - t.length - (buf.take c).length)], x, by simp,
        ?_, ⟨g.fileBytes - t.length - (buf.take c).length, by simp⟩, ?_, ?_⟩,
        fun hwt => by rw [hwf] at hwt; cases hwt⟩
      · apply full_snoc h.full
        simp only [List.length_append, length_zeros]
        have h1 := h.tlen
        have h2 := h.off_le
        omega
      · rw [h1]; simp [Nat.add_assoc]
      · have := h.P_length
        simp only [List.length_append, List.length_cons, List.length_nil, Nat.zero_add, Nat.add_sub_cancel] at this ⊢
        omega
    · have := hX.nil_inv
      rw [this]
      exact hfull

/-- a list of buffers -/
theorem writeBufs_cutW (g : Geom) (bufs : List Bytes) : ∀ {l : Log} {D : Image} {F : Nat}
    {init : List Bytes} {t : Bytes} {x : Bool}, TapeX g l D F init t x → NoCross g (l.off % g.B) bufs →
    ∀ {w : Bool} {X : Image}, CutW w D (writeBufs g l bufs).2 X →
    ∃ Pm, RTape g F Pm X ∧ PrefixCut (init.flatten ++ t) (init.flatten ++ t ++ bufs.flatten) Pm ∧
      (w = true → ∃ j, j ≤ bufs.length ∧ Pm = init.flatten ++ t ++ (bufs.take j).flatten) := by
  induction bufs with
  | nil =>
    intro l D F init t x h _ w X hX
    have : X = D := by simpa [writeBufs] using hX.nil_inv
    rw [this]
    refine ⟨_, rtape_of_tapeX h, ⟨(init.flatten ++ t).length, Nat.le_refl _, by simp, ?_⟩,
      fun _ => ⟨0, Nat.le_refl _, by simp⟩⟩
    simp only [List.flatten_nil, List.append_nil, List.take_length]
  | cons b bs ih =>
    intro l D F init t x h hnc w X hX
    obtain ⟨h1, h2, h3⟩ := hnc
    have hne : b ≠ [] := by intro e; rw [e] at h1; simp at h1
    rw [Step.writeBufs_cons] at hX
    rcases CutW.of_append _ hX with hX | hX
    · obtain ⟨m, hm, hmw⟩ := writeBuf_cutW g h b hne h2 hX
      refine ⟨_, hm, ?_, ?_⟩
      · have := (PrefixCut.take (init.flatten ++ t) b m).extend bs.flatten
        simpa [List.append_assoc] using this
      · intro hw
        rcases hmw hw with h0 | h0
        · exact ⟨0, Nat.zero_le _, by rw [h0]; simp⟩
        · exact ⟨1, by simp, by rw [List.take_of_length_le h0]; simp⟩
    · obtain ⟨i1, t1, x1, ht1, hp1, _, hc1⟩ := writeBuf_tapeX g h b hne h2
      rw [← hc1] at h3
      obtain ⟨Pm, hc, hp, hpw⟩ := ih ht1 h3 hX
      refine ⟨Pm, hc, ?_, ?_⟩
      · rw [hp1] at hp
        have := hp.shift
        simpa [List.append_assoc] using this
      · intro hw
        obtain ⟨j, hj, hPm⟩ := hpw hw
        refine ⟨j + 1, by simpa using hj, ?_⟩
        rw [hPm, hp1]; simp [List.append_assoc]

end MRL.L
