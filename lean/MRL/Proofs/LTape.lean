/-
The raw tape, generalised to what crashes leave: the next file may already exist, still empty
(`x = true`; a crash between `create` and `set_len`). Writing a buffer: the roll-over then takes
the `ensureLen` branch of `writeBuf`. Crash states of the writes, both at any byte (`w = false`)
and at effect boundaries only (`w = true`).
-/
import MRL.Proofs.HCrashTape

namespace MRL.L
open MRL Buf G H Codec Log

/-! ### cut states, with or without byte cuts -/

/-- images reachable by stopping the direct application of the effects at some point; with
    `w = true` only between two effects, with `w = false` also inside a write -/
inductive CutW : Bool → Image → List Effect → Image → Prop
  | stop (w : Bool) (img : Image) (V : List Effect) : CutW w img V img
  | part (img : Image) (f off : Nat) (d : Bytes) (c : Nat) (V : List Effect) :
      CutW false img (.write f off d :: V) (applyOs img (.write f off (d.take c)))
  | next (w : Bool) (img : Image) (v : Effect) (V : List Effect) (X : Image) :
      CutW w (applyOsOps img (direct v)) V X → CutW w img (v :: V) X

theorem CutW.of_cutState {img : Image} {V : List Effect} {X : Image} (h : CutState img V X) :
    CutW false img V X := by
  induction h with
  | stop => exact .stop _ _ _
  | part _ f off d c _ => exact .part _ f off d c _
  | next _ _ _ _ _ ih => exact .next _ _ _ _ _ ih

theorem CutW.weaken {w : Bool} {img : Image} {V : List Effect} {X : Image} (h : CutW w img V X) :
    CutW false img V X := by
  induction h with
  | stop => exact .stop _ _ _
  | part _ f off d c _ => exact .part _ f off d c _
  | next _ _ _ _ _ _ ih => exact .next _ _ _ _ _ ih

/-- the image after the first `n` effects is a whole-effect cut state -/
theorem CutW.of_take (w : Bool) : ∀ (V : List Effect) (n : Nat) (img : Image),
    CutW w img V (applyOsOps img (directOps (V.take n))) := by
  intro V
  induction V with
  | nil => intro n img; simpa [directOps, applyOsOps] using CutW.stop w img []
  | cons v V ih =>
    intro n img
    cases n with
    | zero => simpa [directOps, applyOsOps] using CutW.stop w img (v :: V)
    | succ n =>
      rw [List.take_succ_cons, directOps_cons, applyOsOps_append]
      exact .next _ _ _ _ _ (ih n _)

theorem CutW.to_take : ∀ {V : List Effect} {img X : Image}, CutW true img V X →
    ∃ n, n ≤ V.length ∧ X = applyOsOps img (directOps (V.take n)) := by
  intro V
  induction V with
  | nil => intro img X h; cases h; exact ⟨0, Nat.le_refl _, rfl⟩
  | cons v V ih =>
    intro img X h
    cases h with
    | stop => exact ⟨0, Nat.zero_le _, rfl⟩
    | next _ _ _ _ _ h1 =>
      obtain ⟨n, hn, hX⟩ := ih h1
      exact ⟨n + 1, by simpa using hn, by rw [List.take_succ_cons, directOps_cons, applyOsOps_append]; exact hX⟩

theorem CutW.cons_inv {w : Bool} {img : Image} {v : Effect} {V : List Effect} {X : Image}
    (h : CutW w img (v :: V) X) :
    X = img ∨ (w = false ∧ ∃ f off d c, v = .write f off d ∧ X = applyOs img (.write f off (d.take c))) ∨
      CutW w (applyOsOps img (direct v)) V X := by
  cases h with
  | stop => exact Or.inl rfl
  | part _ f off d c _ => exact Or.inr (Or.inl ⟨rfl, f, off, d, c, rfl, rfl⟩)
  | next _ _ _ _ _ h1 => exact Or.inr (Or.inr h1)

theorem CutW.nil_inv {w : Bool} {img X : Image} (h : CutW w img [] X) : X = img := by
  cases h; rfl

theorem CutW.of_append {w : Bool} {img : Image} (A : List Effect) {B : List Effect} {X : Image}
    (h : CutW w img (A ++ B) X) :
    CutW w img A X ∨ CutW w (applyOsOps img (directOps A)) B X := by
  induction A generalizing img with
  | nil => right; simpa [directOps, applyOsOps] using h
  | cons a A ih =>
    cases h with
    | stop => left; exact .stop _ _ _
    | part _ f off d c _ => left; exact .part _ _ _ _ c _
    | next _ _ _ _ _ h1 =>
      rcases ih h1 with h2 | h2
      · left; exact .next _ _ _ _ _ h2
      · right; rw [directOps_cons, applyOsOps_append]; exact h2

theorem CutW.append_left {w : Bool} {img : Image} {A : List Effect} {X : Image} (B : List Effect)
    (h : CutW w img A X) : CutW w img (A ++ B) X := by
  induction h with
  | stop => exact .stop _ _ _
  | part _ f off d c _ => exact .part _ _ _ _ c _
  | next _ _ _ _ _ _ ih => exact .next _ _ _ _ _ ih

theorem CutW.append_right {w : Bool} {img : Image} (A : List Effect) {B : List Effect} {X : Image}
    (h : CutW w (applyOsOps img (directOps A)) B X) : CutW w img (A ++ B) X := by
  induction A generalizing img with
  | nil => simpa [directOps, applyOsOps] using h
  | cons a A ih =>
    refine .next _ _ _ _ _ (ih ?_)
    rw [directOps_cons, applyOsOps_append] at h
    exact h

theorem CutW.full (w : Bool) (A : List Effect) (img : Image) : CutW w img A (applyOsOps img (directOps A)) := by
  have := CutW.of_take w A A.length img
  rwa [List.take_length] at this

theorem cutW_syncL {w : Bool} {sy : List Effect} (hs : IsSyncL sy) : ∀ {img X : Image}, CutW w img sy X → X = img := by
  intro img X h
  exact cut_syncL hs (by
    clear hs
    induction h with
    | stop => exact .stop _ _
    | part _ f off d c _ => exact .part _ _ _ _ c _
    | next _ _ _ _ _ _ ih => exact .next _ _ _ _ ih)

theorem CutW.to_cutState {w : Bool} {img : Image} {V : List Effect} {X : Image} (h : CutW w img V X) :
    CutState img V X := by
  induction h with
  | stop => exact .stop _ _
  | part _ f off d c _ => exact .part _ _ _ _ c _
  | next _ _ _ _ _ _ ih => exact .next _ _ _ _ ih

theorem cutW_unlinks {w : Bool} (fs : List Nat) {img X : Image} (h : CutW w img (fs.map Effect.unlink) X) :
    ∃ k, k ≤ fs.length ∧ X = applyOsOps img ((fs.take k).map OsOp.unlink) :=
  cut_unlinks fs h.to_cutState

/-! ### the tape with an optional empty next file -/

def xtra (x : Bool) (f : Nat) : Image := if x then [(f, [])] else []

theorem imgOf_snoc (F : Nat) (cs : List Bytes) (c : Bytes) : imgOf F (cs ++ [c]) = imgOf F cs ++ [(F + cs.length, c)] := by
  rw [imgOf_append]; rfl

structure TapeX (g : Geom) (l : Log) (D : Image) (F : Nat) (init : List Bytes) (t : Bytes) (x : Bool) : Prop where
  img : D = imgOf F (init ++ [t ++ zeros (g.fileBytes - l.off)]) ++ xtra x (F + init.length + 1)
  full : ∀ c ∈ init, c.length = g.fileBytes
  tlen : t.length = l.off
  off_le : l.off ≤ g.fileBytes
  files : l.files = List.range' F (init.length + 1 + (if x then 1 else 0))
  cur : l.cur = F + init.length

/-- the same log, not tracking the empty next file -/
def shl (l : Log) (F n : Nat) : Log := { l with files := List.range' F (n + 1) }

theorem TapeX.sh {g : Geom} {l : Log} {D : Image} {F : Nat} {init : List Bytes} {t : Bytes} {x : Bool}
    (h : TapeX g l D F init t x) :
    Tape g (shl l F init.length) (imgOf F (init ++ [t ++ zeros (g.fileBytes - l.off)])) F init t :=
  ⟨rfl, h.full, h.tlen, h.off_le, rfl, h.cur⟩

theorem TapeX.of_tape {g : Geom} {l : Log} {D : Image} {F : Nat} {init : List Bytes} {t : Bytes}
    (h : Tape g l D F init t) : TapeX g l D F init t false :=
  ⟨by simpa [xtra] using h.img, h.full, h.tlen, h.off_le, by simpa using h.files, h.cur⟩

theorem TapeX.to_tape {g : Geom} {l : Log} {D : Image} {F : Nat} {init : List Bytes} {t : Bytes}
    (h : TapeX g l D F init t false) : Tape g l D F init t :=
  ⟨by simpa [xtra] using h.img, h.full, h.tlen, h.off_le, by simpa using h.files, h.cur⟩

theorem TapeX.P_length {g : Geom} {l : Log} {D : Image} {F : Nat} {init : List Bytes} {t : Bytes} {x : Bool}
    (h : TapeX g l D F init t x) : (init.flatten ++ t).length = init.length * g.fileBytes + l.off := by
  rw [List.length_append, flatten_length_full _ _ h.full, h.tlen]

theorem TapeX.congr {g : Geom} {l l' : Log} {D : Image} {F : Nat} {init : List Bytes} {t : Bytes} {x : Bool}
    (h : TapeX g l D F init t x) (hf : l'.files = l.files) (hc : l'.cur = l.cur) (ho : l'.off = l.off) :
    TapeX g l' D F init t x :=
  ⟨by rw [ho]; exact h.img, h.full, by rw [ho]; exact h.tlen, by rw [ho]; exact h.off_le,
    by rw [hf]; exact h.files, by rw [hc]; exact h.cur⟩

theorem nextFile_rangeX (F n : Nat) : nextFile (List.range' F (n + 1 + 1)) (F + n) = some (F + n + 1) := by
  unfold nextFile
  have : List.range' F (n + 1 + 1) = List.range' F (n + 1) ++ [F + (n + 1)] := (range'_snoc F (n + 1)).symm
  rw [this, List.find?_append]
  have h1 : (List.range' F (n + 1)).find? (fun y => decide (F + n < y)) = none := by
    rw [List.find?_eq_none]
    intro y hy
    rw [List.mem_range'_1] at hy
    simp only [decide_eq_true_eq]; omega
  rw [h1]
  simp
  omega

/-- what `writeBuf` does, depending on the roll-over and on the next file -/
theorem writeBuf_noroll (g : Geom) (l : Log) (buf : Bytes) (hne : buf ≠ [])
    (h : ¬ l.off + buf.length > g.fileBytes) :
    writeBuf g l buf = ({ l with off := l.off + buf.length }, [.write l.cur l.off buf]) := by
  have he : buf.isEmpty = false := by cases buf <;> simp_all
  unfold writeBuf
  simp only [he, Bool.false_eq_true, if_false, h]

theorem writeBuf_roll_none (g : Geom) (l : Log) (buf : Bytes) (hne : buf ≠ [])
    (h : l.off + buf.length > g.fileBytes) (hn : nextFile l.files l.cur = none) :
    writeBuf g l buf = ({ l with files := l.files ++ [l.cur + 1], cur := l.cur + 1, off := buf.length },
      [Effect.flush, .fsyncFile l.cur, .fsyncDir] ++
        [.create (l.cur + 1), .setLen (l.cur + 1) g.fileBytes, .write (l.cur + 1) 0 buf]) := by
  have he : buf.isEmpty = false := by cases buf <;> simp_all
  unfold writeBuf
  simp only [he, Bool.false_eq_true, if_false, h, if_true, hn]

theorem writeBuf_roll_some (g : Geom) (l : Log) (buf : Bytes) (hne : buf ≠ [])
    (h : l.off + buf.length > g.fileBytes) (nf : Nat) (hn : nextFile l.files l.cur = some nf) :
    writeBuf g l buf = ({ l with cur := nf, off := buf.length },
      [Effect.flush, .fsyncFile l.cur, .fsyncDir] ++
        [.openFile nf, .ensureLen nf g.fileBytes, .write nf 0 buf]) := by
  have he : buf.isEmpty = false := by cases buf <;> simp_all
  unfold writeBuf
  simp only [he, Bool.false_eq_true, if_false, h, if_true, hn]

theorem xtra_keys (x : Bool) (f f' : Nat) (hne : f ≠ f') : ∀ kv ∈ xtra x f, kv.1 ≠ f' := by
  intro kv hkv
  cases x
  · cases hkv
  · simp only [xtra, if_true, List.mem_singleton] at hkv
    rw [hkv]; exact hne

/-- one buffer -/
theorem writeBuf_tapeX (g : Geom) {l : Log} {D : Image} {F : Nat} {init : List Bytes} {t : Bytes} {x : Bool}
    (h : TapeX g l D F init t x) (buf : Bytes) (hne : buf ≠ []) (hnc : l.off % g.B + buf.length ≤ g.B) :
    ∃ init' t' x', TapeX g (writeBuf g l buf).1 (applyOsOps D (directOps (writeBuf g l buf).2)) F init' t' x' ∧
      init'.flatten ++ t' = init.flatten ++ t ++ buf ∧
      (writeBuf g l buf).1.cur = F + (init.flatten ++ t).length / g.fileBytes ∧
      (writeBuf g l buf).1.off % g.B = adv g (l.off % g.B) buf.length := by
  cases x with
  | false =>
    obtain ⟨i', t', a1, a2, a3, a4⟩ := writeBuf_tape g h.to_tape buf hne hnc
    exact ⟨i', t', false, TapeX.of_tape a1, a2, a3, a4⟩
  | true =>
    have hsh := h.sh
    obtain ⟨i', t', a1, a2, a3, a4⟩ := writeBuf_tape g hsh buf hne hnc
    have hfiles : l.files = List.range' F (init.length + 1 + 1) := by simpa using h.files
    by_cases hroll : l.off + buf.length > g.fileBytes
    · -- the roll-over reuses the empty file
      have hnf : nextFile l.files l.cur = some (l.cur + 1) := by
        rw [hfiles, h.cur]; exact nextFile_rangeX F _
      have hnfs : nextFile (shl l F init.length).files (shl l F init.length).cur = none := by
        show nextFile (List.range' F (init.length + 1)) l.cur = none
        rw [h.cur]; exact nextFile_range F _
      have hfullf : l.off = g.fileBytes := by
        have := h.off_le
        by_cases hlt : l.off < g.fileBytes
        · have := fits_file g l.off buf.length hlt hnc; omega
        · omega
      rw [writeBuf_roll_none g (shl l F init.length) buf hne hroll hnfs] at a1 a3 a4
      rw [writeBuf_roll_some g l buf hne hroll _ hnf]
      have hlog : ({ l with cur := l.cur + 1, off := buf.length } : Log) =
          Log.mk ((shl l F init.length).files ++ [(shl l F init.length).cur + 1])
            ((shl l F init.length).cur + 1) buf.length (shl l F init.length).queues (shl l F init.length).policy := by
        show _ = Log.mk (List.range' F (init.length + 1) ++ [l.cur + 1]) (l.cur + 1) buf.length l.queues l.policy
        rw [h.cur, show F + init.length + 1 = F + (init.length + 1) by omega, range'_snoc, ← hfiles]
      have hlast : t ++ zeros (g.fileBytes - l.off) = t := by rw [hfullf]; simp [zeros]
      have himg : applyOsOps D (directOps ([Effect.flush, .fsyncFile l.cur, .fsyncDir] ++
            [.openFile (l.cur + 1), .ensureLen (l.cur + 1) g.fileBytes, .write (l.cur + 1) 0 buf])) =
          applyOsOps (imgOf F (init ++ [t ++ zeros (g.fileBytes - l.off)]))
            (directOps ([Effect.flush, .fsyncFile (shl l F init.length).cur, .fsyncDir] ++
              [.create ((shl l F init.length).cur + 1), .setLen ((shl l F init.length).cur + 1) g.fileBytes,
                .write ((shl l F init.length).cur + 1) 0 buf])) := by
        have hnum : l.cur + 1 = F + (init ++ [t]).length := by rw [h.cur]; simp; omega
        show _ = applyOsOps _ (directOps ([Effect.flush, .fsyncFile l.cur, .fsyncDir] ++
              [.create (l.cur + 1), .setLen (l.cur + 1) g.fileBytes, .write (l.cur + 1) 0 buf]))
        simp only [directOps, List.flatMap_cons, List.flatMap_nil, direct, List.cons_append,
          List.nil_append, List.append_nil, applyOsOps, List.foldl_cons, List.foldl_nil, applyOs]
        rw [h.img, hlast]
        simp only [xtra, if_true]
        rw [(by simp; omega : F + init.length + 1 = F + (init ++ [t]).length), ← imgOf_snoc, hnum,
          insertFile_end, mapFile_last, mapFile_last, mapFile_last, mapFile_last]
        have hfb := fileBytes_pos g
        simp [hfb]
      refine ⟨i', t', false, ?_, a2, a3, a4⟩
      rw [hlog, himg]
      exact TapeX.of_tape a1
    · -- same file; the empty next file stays
      rw [writeBuf_noroll g (shl l F init.length) buf hne hroll] at a1 a3 a4
      rw [writeBuf_noroll g l buf hne hroll]
      have hlen' : i'.length = init.length := by
        have h1 := a1.cur
        have h2 : (shl l F init.length).cur = l.cur := rfl
        simp only [h2] at h1
        rw [h.cur] at h1
        omega
      refine ⟨i', t', true, ⟨?_, a1.full, a1.tlen, a1.off_le, ?_, ?_⟩, a2, a3, a4⟩
      · have h1 := a1.img
        simp only [directOps, List.flatMap_cons, List.flatMap_nil, direct, List.append_nil,
          applyOsOps, List.foldl_cons, List.foldl_nil, applyOs] at h1 ⊢
        rw [h.img, mapFile_append, mapFile_notin (xtra true _) _ _ (xtra_keys true _ _ (by rw [h.cur]; omega))]
        have h2 : (shl l F init.length).cur = l.cur := rfl
        have h3 : (shl l F init.length).off = l.off := rfl
        rw [h2, h3] at h1
        rw [h1, hlen']
      · show l.files = _
        rw [hfiles, hlen']; rfl
      · show l.cur = _
        rw [h.cur, hlen']

/-- a list of buffers -/
theorem writeBufs_tapeX (g : Geom) (bufs : List Bytes) : ∀ {l : Log} {D : Image} {F : Nat}
    {init : List Bytes} {t : Bytes} {x : Bool}, TapeX g l D F init t x → NoCross g (l.off % g.B) bufs →
    ∃ init' t' x', TapeX g (writeBufs g l bufs).1 (applyOsOps D (directOps (writeBufs g l bufs).2)) F init' t' x' ∧
      init'.flatten ++ t' = init.flatten ++ t ++ bufs.flatten ∧
      (bufs ≠ [] → (writeBufs g l bufs).1.cur =
        F + ((init.flatten ++ t).length + totalLen bufs.dropLast) / g.fileBytes) := by
  induction bufs with
  | nil =>
    intro l D F init t x h _
    exact ⟨init, t, x, by simpa [writeBufs, directOps, applyOsOps] using h, by simp, fun h => absurd rfl h⟩
  | cons b bs ih =>
    intro l D F init t x h hnc
    obtain ⟨h1, h2, h3⟩ := hnc
    have hne : b ≠ [] := by intro e; rw [e] at h1; simp at h1
    obtain ⟨i1, t1, x1, ht1, hp1, hcur1, hc1⟩ := writeBuf_tapeX g h b hne h2
    rw [← hc1] at h3
    obtain ⟨i2, t2, x2, ht2, hp2, hcur2⟩ := ih ht1 h3
    refine ⟨i2, t2, x2, ?_, ?_, ?_⟩
    · rw [Step.writeBufs_cons]
      simp only [directOps_append, applyOsOps_append]
      exact ht2
    · rw [hp2, hp1]; simp [List.append_assoc]
    · intro _
      rw [Step.writeBufs_cons]
      simp only
      cases bs with
      | nil =>
        simp only [writeBufs, List.dropLast_singleton, totalLen_nil, Nat.add_zero]
        exact hcur1
      | cons b2 bs2 =>
        rw [hcur2 (by simp), hp1, List.dropLast_cons_cons, totalLen_cons, List.length_append]
        congr 2; omega

/-! ### crash states of the writes -/

/-- the files `F, F+1, …` of `X` are full-size and hold `Pm` followed by zeros, `Pm` ends in the
    last of them (or at its very end); the next file may exist, empty -/
def RTape (g : Geom) (F lo : Nat) (Pm : Bytes) (X : Image) : Prop :=
  ∃ (cs : List Bytes) (x : Bool), cs ≠ [] ∧ (∀ c ∈ cs, c.length = g.fileBytes) ∧
    (∃ z, cs.flatten = Pm ++ zeros z) ∧ X = imgOf F cs ++ xtra x (F + cs.length) ∧
    (cs.length - 1) * g.fileBytes ≤ Pm.length ∧ lo ≤ cs.length

theorem RTape.mono {g : Geom} {F lo lo' : Nat} {Pm : Bytes} {X : Image} (h : RTape g F lo Pm X) (hl : lo' ≤ lo) :
    RTape g F lo' Pm X := by
  obtain ⟨cs, x, h1, h2, h3, h4, h5, h6⟩ := h
  exact ⟨cs, x, h1, h2, h3, h4, h5, Nat.le_trans hl h6⟩

theorem RTape.ctape {g : Geom} {F lo : Nat} {Pm : Bytes} {X : Image} (h : RTape g F lo Pm X) : CTape g F Pm X := by
  obtain ⟨cs, x, h1, h2, h3, h4, _⟩ := h
  refine ⟨cs, h1, h2, h3, ?_⟩
  cases x
  · left; simpa [xtra] using h4
  · right; simpa [xtra] using h4

theorem tapeX_chunks {g : Geom} {l : Log} {D : Image} {F : Nat} {init : List Bytes} {t : Bytes} {x : Bool}
    (h : TapeX g l D F init t x) :
    ∀ c ∈ init ++ [t ++ zeros (g.fileBytes - l.off)], c.length = g.fileBytes := by
  intro c hc
  rcases List.mem_append.mp hc with hc | hc
  · exact h.full c hc
  · simp only [List.mem_singleton] at hc
    have := h.off_le
    rw [hc]; simp [h.tlen]; omega

theorem rtape_of_tapeX {g : Geom} {l : Log} {D : Image} {F : Nat} {init : List Bytes} {t : Bytes} {x : Bool}
    (h : TapeX g l D F init t x) : RTape g F (init.length + 1) (init.flatten ++ t) D := by
  refine ⟨init ++ [t ++ zeros (g.fileBytes - l.off)], x, by simp, tapeX_chunks h,
    ⟨g.fileBytes - l.off, by simp⟩, ?_, ?_, by simp⟩
  · rw [h.img]; simp [Nat.add_assoc]
  · rw [h.P_length]; simp

theorem full_snoc {fb : Nat} {cs : List Bytes} (h : ∀ c ∈ cs, c.length = fb) {x : Bytes} (hx : x.length = fb) :
    ∀ c ∈ cs ++ [x], c.length = fb := by
  intro c hc
  rcases List.mem_append.mp hc with hc | hc
  · exact h c hc
  · simp only [List.mem_singleton] at hc; rw [hc, hx]

/-- the end of a roll-over: the next file exists, empty; it is sized, then written -/
theorem roll_tail (g : Geom) (F : Nat) (cs : List Bytes) (hne : cs ≠ []) (hfull : ∀ c ∈ cs, c.length = g.fileBytes)
    (buf : Bytes) (hbl : buf.length ≤ g.fileBytes) (e5 : Effect)
    (he5 : e5 = .setLen (F + cs.length) g.fileBytes ∨ e5 = .ensureLen (F + cs.length) g.fileBytes)
    {w : Bool} {X : Image} (hX : CutW w (imgOf F (cs ++ [[]])) [e5, .write (F + cs.length) 0 buf] X) :
    ∃ m, RTape g F cs.length (cs.flatten ++ buf.take m) X ∧ (w = true → m = 0 ∨ buf.length ≤ m) := by
  have hfb := fileBytes_pos g
  have hPl : cs.flatten.length = cs.length * g.fileBytes := flatten_length_full _ _ hfull
  have h5 : applyOsOps (imgOf F (cs ++ [[]])) (direct e5) = imgOf F (cs ++ [zeros g.fileBytes]) := by
    rcases he5 with rfl | rfl
    · simp only [direct, applyOsOps, List.foldl_cons, List.foldl_nil, applyOs]
      rw [mapFile_last, setLenBytes_nil]
    · simp only [direct, applyOsOps, List.foldl_cons, List.foldl_nil, applyOs]
      rw [mapFile_last]
      simp [hfb, setLenBytes_nil]
  have hw : ∀ c, applyOs (imgOf F (cs ++ [zeros g.fileBytes])) (.write (F + cs.length) 0 (buf.take c)) =
      imgOf F (cs ++ [buf.take c ++ zeros (g.fileBytes - (buf.take c).length)]) := by
    intro c
    have hcl : (buf.take c).length ≤ g.fileBytes := by simp; omega
    have hov := overwrite_tail [] g.fileBytes (buf.take c) hcl
    simp only [List.nil_append, List.length_nil] at hov
    simp only [applyOs]
    rw [mapFile_last, hov]
  have hres : ∀ c, RTape g F cs.length (cs.flatten ++ buf.take c)
      (imgOf F (cs ++ [buf.take c ++ zeros (g.fileBytes - (buf.take c).length)])) := by
    intro c
    have hcl : (buf.take c).length ≤ g.fileBytes := by simp; omega
    refine ⟨cs ++ [buf.take c ++ zeros (g.fileBytes - (buf.take c).length)], false, by simp,
      full_snoc hfull (by simp; omega), ⟨g.fileBytes - (buf.take c).length, by simp⟩, by simp [xtra], ?_, by simp⟩
    simp only [List.length_append, List.length_cons, List.length_nil, Nat.zero_add, Nat.add_sub_cancel, hPl]
    omega
  rcases hX.cons_inv with h1 | ⟨_, _, _, _, _, hw1, _⟩ | hX
  · refine ⟨0, ⟨cs, true, hne, hfull, ⟨0, by simp [zeros]⟩, ?_, ?_, Nat.le_refl _⟩, fun _ => Or.inl rfl⟩
    · rw [h1, imgOf_snoc]; rfl
    · simp only [List.take_zero, List.append_nil, hPl]
      exact Nat.mul_le_mul_right _ (Nat.sub_le _ _)
  · rcases he5 with rfl | rfl <;> cases hw1
  rw [h5] at hX
  rcases hX.cons_inv with h1 | ⟨hwf, f, off, d, c, hw1, h1⟩ | hX
  · refine ⟨0, ?_, fun _ => Or.inl rfl⟩
    have := hres 0
    simp only [List.take_zero, List.length_nil, Nat.sub_zero, List.nil_append] at this
    rw [h1]; exact this
  · injection hw1 with e1 e2 e3
    subst e1 e2 e3
    rw [hw] at h1
    exact ⟨c, by rw [h1]; exact hres c, fun hwt => by rw [hwf] at hwt; cases hwt⟩
  · have h1 := hX.nil_inv
    simp only [direct, applyOsOps, List.foldl_cons, List.foldl_nil] at h1
    have h2 := hw buf.length
    rw [List.take_length] at h2
    rw [h2] at h1
    refine ⟨buf.length, ?_, fun _ => Or.inr (Nat.le_refl _)⟩
    have := hres buf.length
    rw [h1]; simpa only [List.take_length] using this

/-- one buffer -/
theorem writeBuf_cutW (g : Geom) {l : Log} {D : Image} {F : Nat} {init : List Bytes} {t : Bytes} {x : Bool}
    (h : TapeX g l D F init t x) (buf : Bytes) (hne : buf ≠ []) (hnc : l.off % g.B + buf.length ≤ g.B)
    {w : Bool} {X : Image} (hX : CutW w D (writeBuf g l buf).2 X) :
    ∃ m, RTape g F (init.length + 1) (init.flatten ++ t ++ buf.take m) X ∧ (w = true → m = 0 ∨ buf.length ≤ m) := by
  have hlen : 0 < buf.length := List.length_pos_iff.mpr hne
  obtain ⟨i', t', x', hT', hP', hcurA, _⟩ := writeBuf_tapeX g h buf hne hnc
  have hmonoI : init.length ≤ i'.length := by
    have h1 := hT'.cur
    rw [hcurA, h.P_length] at h1
    have : init.length ≤ (init.length * g.fileBytes + l.off) / g.fileBytes := by
      rw [Nat.le_div_iff_mul_le (fileBytes_pos g)]; omega
    omega
  have hfull : ∃ m, RTape g F (init.length + 1) (init.flatten ++ t ++ buf.take m)
      (applyOsOps D (directOps (writeBuf g l buf).2)) ∧ (w = true → m = 0 ∨ buf.length ≤ m) :=
    ⟨buf.length, by rw [List.take_length, ← hP']; exact (rtape_of_tapeX hT').mono (by omega),
      fun _ => Or.inr (Nat.le_refl _)⟩
  have hnone : ∃ m, RTape g F (init.length + 1) (init.flatten ++ t ++ buf.take m) D ∧ (w = true → m = 0 ∨ buf.length ≤ m) :=
    ⟨0, by simpa using rtape_of_tapeX h, fun _ => Or.inl rfl⟩
  by_cases hroll : l.off + buf.length > g.fileBytes
  · have hfullf : l.off = g.fileBytes := by
      have := h.off_le
      by_cases hlt : l.off < g.fileBytes
      · have := fits_file g l.off buf.length hlt hnc; omega
      · omega
    have hbl : buf.length ≤ g.fileBytes := by
      have := B_le_fileBytes g
      have : l.off % g.B = 0 := by rw [hfullf]; exact fileBytes_mod g
      omega
    have hlast : t ++ zeros (g.fileBytes - l.off) = t := by rw [hfullf]; simp [zeros]
    have hnum : l.cur + 1 = F + (init ++ [t]).length := by rw [h.cur]; simp; omega
    have hfullcs : ∀ c ∈ init ++ [t], c.length = g.fileBytes := full_snoc h.full (by rw [h.tlen, hfullf])
    have hflat : (init ++ [t]).flatten = init.flatten ++ t := by simp
    -- the three syncs
    have sync3 : ∀ {e4 e5 e6 : Effect}, CutW w D [Effect.flush, .fsyncFile l.cur, .fsyncDir, e4, e5, e6] X →
        X = D ∨ CutW w D [e4, e5, e6] X := by
      intro e4 e5 e6 hX
      rcases hX.cons_inv with h1 | ⟨_, _, _, _, _, hw1, _⟩ | hX
      · exact Or.inl h1
      · cases hw1
      rcases hX.cons_inv with h1 | ⟨_, _, _, _, _, hw1, _⟩ | hX
      · exact Or.inl h1
      · cases hw1
      rcases hX.cons_inv with h1 | ⟨_, _, _, _, _, hw1, _⟩ | hX
      · exact Or.inl h1
      · cases hw1
      exact Or.inr hX
    cases x with
    | false =>
      have hnf : nextFile l.files l.cur = none := by
        have := h.files
        simp only [Bool.false_eq_true, if_false, Nat.add_zero] at this
        rw [this, h.cur]; exact nextFile_range F _
      rw [writeBuf_roll_none g l buf hne hroll hnf] at hX
      rcases sync3 hX with h1 | hX
      · rw [h1]; exact hnone
      have hD : D = imgOf F (init ++ [t]) := by rw [h.img, hlast]; simp [xtra]
      rcases hX.cons_inv with h1 | ⟨_, _, _, _, _, hw1, _⟩ | hX
      · rw [h1]; exact hnone
      · cases hw1
      simp only [direct, applyOsOps, List.foldl_nil, List.foldl_cons, applyOs] at hX
      rw [hD, hnum, insertFile_end] at hX
      obtain ⟨m, hm, hmw⟩ := roll_tail g F (init ++ [t]) (by simp) hfullcs buf hbl _ (Or.inl rfl) hX
      exact ⟨m, by rw [← hflat]; exact hm.mono (by simp), hmw⟩
    | true =>
      have hnf : nextFile l.files l.cur = some (l.cur + 1) := by
        have := h.files
        simp only [if_true] at this
        rw [this, h.cur]; exact nextFile_rangeX F _
      rw [writeBuf_roll_some g l buf hne hroll _ hnf] at hX
      rcases sync3 hX with h1 | hX
      · rw [h1]; exact hnone
      have hD : D = imgOf F ((init ++ [t]) ++ [[]]) := by
        rw [h.img, hlast, imgOf_snoc F (init ++ [t]) []]
        simp [xtra, Nat.add_assoc]
      rcases hX.cons_inv with h1 | ⟨_, _, _, _, _, hw1, _⟩ | hX
      · rw [h1]; exact hnone
      · cases hw1
      simp only [direct, applyOsOps, List.foldl_nil] at hX
      rw [hD, hnum] at hX
      obtain ⟨m, hm, hmw⟩ := roll_tail g F (init ++ [t]) (by simp) hfullcs buf hbl _ (Or.inr rfl) hX
      exact ⟨m, by rw [← hflat]; exact hm.mono (by simp), hmw⟩
  · rw [writeBuf_noroll g l buf hne hroll] at hX hfull
    rcases hX.cons_inv with h1 | ⟨hwf, f, off, d, c, hw1, h1⟩ | hX
    · rw [h1]; exact hnone
    · injection hw1 with e1 e2 e3
      subst e1 e2 e3
      have hcl : (buf.take c).length ≤ g.fileBytes - l.off := by simp; omega
      simp only [applyOs] at h1
      rw [h.img, mapFile_append, mapFile_notin (xtra x _) _ _ (xtra_keys x _ _ (by rw [h.cur]; omega)), h.cur,
        mapFile_last, ← h.tlen, overwrite_tail t _ _ (by rw [h.tlen]; exact hcl)] at h1
      refine ⟨c, ⟨init ++ [t ++ buf.take c ++ zeros (g.fileBytes - t.length - (buf.take c).length)], x, by simp,
        ?_, ⟨g.fileBytes - t.length - (buf.take c).length, by simp⟩, ?_, ?_, by simp⟩,
        fun hwt => by rw [hwf] at hwt; cases hwt⟩
      · apply full_snoc h.full
        simp only [List.length_append, length_zeros]
        have h1 := h.tlen
        have h2 := h.off_le
        omega
      · rw [h1]; simp [Nat.add_assoc]
      · have := h.P_length
        simp only [List.length_append, List.length_cons, List.length_nil, Nat.zero_add, Nat.add_sub_cancel] at this ⊢
        omega
    · have := hX.nil_inv
      rw [this]
      exact hfull

/-- a list of buffers -/
theorem writeBufs_cutW (g : Geom) (bufs : List Bytes) : ∀ {l : Log} {D : Image} {F : Nat}
    {init : List Bytes} {t : Bytes} {x : Bool}, TapeX g l D F init t x → NoCross g (l.off % g.B) bufs →
    ∀ {w : Bool} {X : Image}, CutW w D (writeBufs g l bufs).2 X →
    ∃ Pm, RTape g F (init.length + 1) Pm X ∧ PrefixCut (init.flatten ++ t) (init.flatten ++ t ++ bufs.flatten) Pm ∧
      (w = true → ∃ j, j ≤ bufs.length ∧ Pm = init.flatten ++ t ++ (bufs.take j).flatten) := by
  induction bufs with
  | nil =>
    intro l D F init t x h _ w X hX
    have : X = D := by simpa [writeBufs] using hX.nil_inv
    rw [this]
    refine ⟨_, rtape_of_tapeX h, ⟨(init.flatten ++ t).length, Nat.le_refl _, by simp, ?_⟩,
      fun _ => ⟨0, Nat.le_refl _, by simp⟩⟩
    simp only [List.flatten_nil, List.append_nil, List.take_length]
  | cons b bs ih =>
    intro l D F init t x h hnc w X hX
    obtain ⟨h1, h2, h3⟩ := hnc
    have hne : b ≠ [] := by intro e; rw [e] at h1; simp at h1
    rw [Step.writeBufs_cons] at hX
    rcases CutW.of_append _ hX with hX | hX
    · obtain ⟨m, hm, hmw⟩ := writeBuf_cutW g h b hne h2 hX
      refine ⟨_, hm, ?_, ?_⟩
      · have := (PrefixCut.take (init.flatten ++ t) b m).extend bs.flatten
        simpa [List.append_assoc] using this
      · intro hw
        rcases hmw hw with h0 | h0
        · exact ⟨0, Nat.zero_le _, by rw [h0]; simp⟩
        · exact ⟨1, by simp, by rw [List.take_of_length_le h0]; simp⟩
    · obtain ⟨i1, t1, x1, ht1, hp1, hcurA, hc1⟩ := writeBuf_tapeX g h b hne h2
      have hmonoI : init.length ≤ i1.length := by
        have h1 := ht1.cur
        rw [hcurA, h.P_length] at h1
        have : init.length ≤ (init.length * g.fileBytes + l.off) / g.fileBytes := by
          rw [Nat.le_div_iff_mul_le (fileBytes_pos g)]; omega
        omega
      rw [← hc1] at h3
      obtain ⟨Pm, hc, hp, hpw⟩ := ih ht1 h3 hX
      refine ⟨Pm, hc.mono (by omega), ?_, ?_⟩
      · rw [hp1] at hp
        have := hp.shift
        simpa [List.append_assoc] using this
      · intro hw
        obtain ⟨j, hj, hPm⟩ := hpw hw
        refine ⟨j + 1, by simpa using hj, ?_⟩
        rw [hPm, hp1]; simp [List.append_assoc]

/-! ### a residue at the writer's position

A header write cut in the very last block leaves at most 6 junk bytes where the writer stands (the
reader stops in front of them); the next frame overwrites them. -/

structure TapeR (g : Geom) (l : Log) (D : Image) (F : Nat) (init : List Bytes) (t : Bytes) (x : Bool)
    (res : Bytes) : Prop where
  img : D = imgOf F (init ++ [t ++ (res ++ zeros (g.fileBytes - l.off - res.length))]) ++
    xtra x (F + init.length + 1)
  full : ∀ c ∈ init, c.length = g.fileBytes
  tlen : t.length = l.off
  resle : l.off + res.length ≤ g.fileBytes
  files : l.files = List.range' F (init.length + 1 + (if x then 1 else 0))
  cur : l.cur = F + init.length

theorem TapeR.off_le {g : Geom} {l : Log} {D : Image} {F : Nat} {init : List Bytes} {t : Bytes} {x : Bool}
    {res : Bytes} (h : TapeR g l D F init t x res) : l.off ≤ g.fileBytes := by have := h.resle; omega

/-- the same tape with the residue wiped -/
theorem TapeR.zero {g : Geom} {l : Log} {D : Image} {F : Nat} {init : List Bytes} {t : Bytes} {x : Bool}
    {res : Bytes} (h : TapeR g l D F init t x res) :
    TapeX g l (imgOf F (init ++ [t ++ zeros (g.fileBytes - l.off)]) ++ xtra x (F + init.length + 1)) F init t x :=
  ⟨rfl, h.full, h.tlen, h.off_le, h.files, h.cur⟩

theorem TapeR.of_tapeX {g : Geom} {l : Log} {D : Image} {F : Nat} {init : List Bytes} {t : Bytes} {x : Bool}
    (h : TapeX g l D F init t x) : TapeR g l D F init t x [] :=
  ⟨by simpa using h.img, h.full, h.tlen, by simpa using h.off_le, h.files, h.cur⟩

theorem TapeR.to_tapeX {g : Geom} {l : Log} {D : Image} {F : Nat} {init : List Bytes} {t : Bytes} {x : Bool}
    (h : TapeR g l D F init t x []) : TapeX g l D F init t x :=
  ⟨by simpa using h.img, h.full, h.tlen, h.off_le, h.files, h.cur⟩

theorem TapeR.P_length {g : Geom} {l : Log} {D : Image} {F : Nat} {init : List Bytes} {t : Bytes} {x : Bool}
    {res : Bytes} (h : TapeR g l D F init t x res) :
    (init.flatten ++ t).length = init.length * g.fileBytes + l.off := by
  rw [List.length_append, flatten_length_full _ _ h.full, h.tlen]

theorem TapeR.congr {g : Geom} {l l' : Log} {D : Image} {F : Nat} {init : List Bytes} {t : Bytes} {x : Bool}
    {res : Bytes} (h : TapeR g l D F init t x res) (hf : l'.files = l.files) (hc : l'.cur = l.cur)
    (ho : l'.off = l.off) : TapeR g l' D F init t x res :=
  ⟨by rw [ho]; exact h.img, h.full, by rw [ho]; exact h.tlen, by rw [ho]; exact h.resle,
    by rw [hf]; exact h.files, by rw [hc]; exact h.cur⟩

theorem TapeR.head {g : Geom} {l : Log} {D : Image} {F : Nat} {init : List Bytes} {t : Bytes} {x : Bool}
    {res : Bytes} (h : TapeR g l D F init t x res) : l.files.headD 0 = F := by
  rw [h.files, show init.length + 1 + (if x then 1 else 0) = (init.length + (if x then 1 else 0)) + 1 by omega,
    List.range'_succ]; rfl

theorem overwrite_mid (t Y b : Bytes) : overwrite (t ++ Y) t.length b = t ++ b ++ Y.drop b.length := by
  unfold overwrite
  have h1 : ¬ (t ++ Y).length < t.length := by simp
  simp only [h1, if_false]
  rw [List.take_left' rfl, ← List.drop_drop, List.drop_left' rfl]

theorem drop_res_zeros (res : Bytes) (r m : Nat) :
    (res ++ zeros r).drop m = res.drop m ++ zeros (r - (m - res.length)) := by
  rw [List.drop_append, drop_zeros]

/-- the last chunk after writing `b` over the residue -/
theorem write_over_res (g : Geom) {l : Log} {D : Image} {F : Nat} {init : List Bytes} {t : Bytes} {x : Bool}
    {res : Bytes} (h : TapeR g l D F init t x res) (b : Bytes) :
    applyOs D (.write l.cur l.off b) =
      imgOf F (init ++ [t ++ b ++ (res ++ zeros (g.fileBytes - l.off - res.length)).drop b.length]) ++
        xtra x (F + init.length + 1) := by
  simp only [applyOs]
  rw [h.img, mapFile_append, mapFile_notin (xtra x _) _ _ (xtra_keys x _ _ (by rw [h.cur]; omega)), h.cur,
    mapFile_last, ← h.tlen, overwrite_mid]

/-- files `F …` of `X`: `n` of them, full-size, holding `Pm`, the residue, zeros -/
def RTapeR (g : Geom) (F n : Nat) (Pm res : Bytes) (X : Image) : Prop :=
  ∃ (cs : List Bytes) (x : Bool), cs.length = n ∧ 0 < n ∧ (∀ c ∈ cs, c.length = g.fileBytes) ∧
    (∃ z, cs.flatten = Pm ++ res ++ zeros z) ∧ X = imgOf F cs ++ xtra x (F + n) ∧
    (n - 1) * g.fileBytes ≤ Pm.length

theorem RTapeR.of_rtape {g : Geom} {F lo : Nat} {Pm : Bytes} {X : Image} (h : RTape g F lo Pm X) :
    ∃ n, lo ≤ n ∧ RTapeR g F n Pm [] X := by
  obtain ⟨cs, x, h1, h2, ⟨z, h3⟩, h4, h5, h6⟩ := h
  exact ⟨cs.length, h6, cs, x, rfl, List.length_pos_iff.mpr h1, h2, ⟨z, by simpa using h3⟩, h4, h5⟩

theorem tapeR_chunks {g : Geom} {l : Log} {D : Image} {F : Nat} {init : List Bytes} {t : Bytes} {x : Bool}
    {res : Bytes} (h : TapeR g l D F init t x res) :
    ∀ c ∈ init ++ [t ++ (res ++ zeros (g.fileBytes - l.off - res.length))], c.length = g.fileBytes := by
  apply full_snoc h.full
  have := h.resle
  simp [h.tlen]; omega

theorem rtapeR_of_tapeR {g : Geom} {l : Log} {D : Image} {F : Nat} {init : List Bytes} {t : Bytes} {x : Bool}
    {res : Bytes} (h : TapeR g l D F init t x res) : RTapeR g F (init.length + 1) (init.flatten ++ t) res D := by
  refine ⟨init ++ [t ++ (res ++ zeros (g.fileBytes - l.off - res.length))], x, by simp, by omega, tapeR_chunks h,
    ⟨g.fileBytes - l.off - res.length, by simp⟩, ?_, ?_⟩
  · rw [h.img]; simp [Nat.add_assoc]
  · rw [h.P_length]; simp

/-- one buffer at least as long as the residue -/
theorem writeBuf_tapeR (g : Geom) {l : Log} {D : Image} {F : Nat} {init : List Bytes} {t : Bytes} {x : Bool}
    {res : Bytes} (h : TapeR g l D F init t x res) (buf : Bytes) (hne : buf ≠ [])
    (hnc : l.off % g.B + buf.length ≤ g.B) (hres : res.length ≤ buf.length) :
    ∃ init' t' x', TapeX g (writeBuf g l buf).1 (applyOsOps D (directOps (writeBuf g l buf).2)) F init' t' x' ∧
      init'.flatten ++ t' = init.flatten ++ t ++ buf ∧
      (writeBuf g l buf).1.cur = F + (init.flatten ++ t).length / g.fileBytes ∧
      (writeBuf g l buf).1.off % g.B = adv g (l.off % g.B) buf.length := by
  by_cases hr : res = []
  · subst hr; exact writeBuf_tapeX g h.to_tapeX buf hne hnc
  · have hrl : 0 < res.length := List.length_pos_iff.mpr hr
    have hlt : l.off < g.fileBytes := by have := h.resle; omega
    have hfit := fits_file g l.off buf.length hlt hnc
    have hroll : ¬ l.off + buf.length > g.fileBytes := by omega
    obtain ⟨i', t', x', a1, a2, a3, a4⟩ := writeBuf_tapeX g h.zero buf hne hnc
    refine ⟨i', t', x', ?_, a2, a3, a4⟩
    have himg : applyOsOps D (directOps (writeBuf g l buf).2) =
        applyOsOps (imgOf F (init ++ [t ++ zeros (g.fileBytes - l.off)]) ++ xtra x (F + init.length + 1))
          (directOps (writeBuf g l buf).2) := by
      rw [writeBuf_noroll g l buf hne hroll]
      simp only [directOps, List.flatMap_cons, List.flatMap_nil, direct, List.append_nil, applyOsOps,
        List.foldl_cons, List.foldl_nil]
      rw [write_over_res g h buf, write_over_res g (TapeR.of_tapeX h.zero) buf]
      congr 4
      rw [drop_res_zeros, drop_res_zeros, List.drop_of_length_le hres]
      simp only [List.drop_nil, List.nil_append, List.length_nil, Nat.sub_zero]
      have := h.resle
      have e : g.fileBytes - l.off - res.length - (buf.length - res.length) = g.fileBytes - l.off - buf.length := by
        omega
      rw [e]
    rw [himg]; exact a1

/-- crash states of one buffer written over a residue -/
theorem writeBuf_cutR (g : Geom) {l : Log} {D : Image} {F : Nat} {init : List Bytes} {t : Bytes} {x : Bool}
    {res : Bytes} (h : TapeR g l D F init t x res) (buf : Bytes) (hne : buf ≠ [])
    (hnc : l.off % g.B + buf.length ≤ g.B) (hres : res.length ≤ buf.length)
    {w : Bool} {X : Image} (hX : CutW w D (writeBuf g l buf).2 X) :
    ∃ m n, RTapeR g F n (init.flatten ++ t ++ buf.take m) (res.drop m) X ∧
      (w = true → m = 0 ∨ buf.length ≤ m) ∧ (res.drop m ≠ [] → n = init.length + 1) ∧ init.length + 1 ≤ n := by
  by_cases hr : res = []
  · subst hr
    obtain ⟨m, hm, hmw⟩ := writeBuf_cutW g h.to_tapeX buf hne hnc hX
    obtain ⟨n, hln, hn⟩ := RTapeR.of_rtape hm
    exact ⟨m, n, by simpa using hn, hmw, fun hd => by simp at hd, hln⟩
  · have hrl : 0 < res.length := List.length_pos_iff.mpr hr
    have hlt : l.off < g.fileBytes := by have := h.resle; omega
    have hfit := fits_file g l.off buf.length hlt hnc
    have hroll : ¬ l.off + buf.length > g.fileBytes := by omega
    have hpart : ∀ c, RTapeR g F (init.length + 1) (init.flatten ++ t ++ buf.take c) (res.drop (min c buf.length))
        (applyOs D (.write l.cur l.off (buf.take c))) := by
      intro c
      rw [write_over_res g h (buf.take c)]
      have hcl : (buf.take c).length = min c buf.length := List.length_take
      have hrs := h.resle
      refine ⟨init ++ [t ++ buf.take c ++ (res ++ zeros (g.fileBytes - l.off - res.length)).drop (buf.take c).length],
        x, by simp, by omega, ?_, ⟨g.fileBytes - l.off - res.length - ((buf.take c).length - res.length), ?_⟩,
        by simp [Nat.add_assoc], ?_⟩
      · apply full_snoc h.full
        simp only [List.length_append, List.length_drop, length_zeros, h.tlen, hcl]
        omega
      · rw [drop_res_zeros, hcl]; simp [List.append_assoc]
      · have := h.P_length
        simp only [List.length_append, List.length_cons, List.length_nil, Nat.zero_add, Nat.add_sub_cancel] at this ⊢
        omega
    rw [writeBuf_noroll g l buf hne hroll] at hX
    rcases hX.cons_inv with h1 | ⟨hwf, f, off, d, c, hw1, h1⟩ | hX
    · refine ⟨0, init.length + 1, ?_, fun _ => Or.inl rfl, fun _ => rfl, Nat.le_refl _⟩
      rw [h1]; simpa using rtapeR_of_tapeR h
    · injection hw1 with e1 e2 e3
      subst e1 e2 e3
      refine ⟨min c buf.length, init.length + 1, ?_, (fun hwt => by rw [hwf] at hwt; cases hwt), fun _ => rfl,
        Nat.le_refl _⟩
      rw [h1]
      have := hpart c
      rwa [show buf.take (min c buf.length) = buf.take c by
        rw [List.take_eq_take_iff]; simp [Nat.min_assoc]]
    · have h1 := hX.nil_inv
      simp only [direct, applyOsOps, List.foldl_cons, List.foldl_nil] at h1
      refine ⟨buf.length, init.length + 1, ?_, fun _ => Or.inr (Nat.le_refl _), fun _ => rfl, Nat.le_refl _⟩
      rw [h1]
      have := hpart buf.length
      simpa only [List.take_length, Nat.min_self] using this

/-- a list of buffers, the first one at least as long as the residue -/
theorem writeBufs_tapeR (g : Geom) (bufs : List Bytes) {l : Log} {D : Image} {F : Nat}
    {init : List Bytes} {t : Bytes} {x : Bool} {res : Bytes} (h : TapeR g l D F init t x res)
    (hnc : NoCross g (l.off % g.B) bufs) (hres : ∀ b bs, bufs = b :: bs → res.length ≤ b.length) :
    ∃ init' t' x' res', TapeR g (writeBufs g l bufs).1 (applyOsOps D (directOps (writeBufs g l bufs).2)) F
        init' t' x' res' ∧
      init'.flatten ++ t' = init.flatten ++ t ++ bufs.flatten ∧
      (bufs ≠ [] → res' = []) ∧
      (bufs ≠ [] → (writeBufs g l bufs).1.cur =
        F + ((init.flatten ++ t).length + totalLen bufs.dropLast) / g.fileBytes) := by
  cases bufs with
  | nil =>
    exact ⟨init, t, x, res, by simpa [writeBufs, directOps, applyOsOps] using h, by simp,
      fun h => absurd rfl h, fun h => absurd rfl h⟩
  | cons b bs =>
    obtain ⟨h1, h2, h3⟩ := hnc
    have hne : b ≠ [] := by intro e; rw [e] at h1; simp at h1
    obtain ⟨i1, t1, x1, ht1, hp1, hcur1, hc1⟩ := writeBuf_tapeR g h b hne h2 (hres b bs rfl)
    rw [← hc1] at h3
    obtain ⟨i2, t2, x2, ht2, hp2, hcur2⟩ := writeBufs_tapeX g bs ht1 h3
    refine ⟨i2, t2, x2, [], ?_, ?_, fun _ => rfl, ?_⟩
    · rw [Step.writeBufs_cons]
      simp only [directOps_append, applyOsOps_append]
      exact TapeR.of_tapeX ht2
    · rw [hp2, hp1]; simp [List.append_assoc]
    · intro _
      rw [Step.writeBufs_cons]
      simp only
      cases bs with
      | nil =>
        simp only [writeBufs, List.dropLast_singleton, totalLen_nil, Nat.add_zero]
        exact hcur1
      | cons b2 bs2 =>
        rw [hcur2 (by simp), hp1, List.dropLast_cons_cons, totalLen_cons, List.length_append]
        congr 2; omega

/-- crash states of a list of buffers -/
theorem writeBufs_cutR (g : Geom) (bufs : List Bytes) {l : Log} {D : Image} {F : Nat}
    {init : List Bytes} {t : Bytes} {x : Bool} {res : Bytes} (h : TapeR g l D F init t x res)
    (hnc : NoCross g (l.off % g.B) bufs) (hres : ∀ b bs, bufs = b :: bs → res.length ≤ b.length)
    {w : Bool} {X : Image} (hX : CutW w D (writeBufs g l bufs).2 X) :
    ∃ Pm n res', RTapeR g F n Pm res' X ∧
      PrefixCut (init.flatten ++ t) (init.flatten ++ t ++ bufs.flatten) Pm ∧
      res' = res.drop (Pm.length - (init.flatten ++ t).length) ∧
      (res' ≠ [] → n = init.length + 1) ∧ init.length + 1 ≤ n ∧
      (w = true → ∃ j, j ≤ bufs.length ∧ Pm = init.flatten ++ t ++ (bufs.take j).flatten) := by
  cases bufs with
  | nil =>
    have : X = D := by simpa [writeBufs] using hX.nil_inv
    rw [this]
    refine ⟨_, _, res, rtapeR_of_tapeR h, ⟨(init.flatten ++ t).length, Nat.le_refl _, by simp, ?_⟩, by simp,
      fun _ => rfl, Nat.le_refl _, fun _ => ⟨0, Nat.le_refl _, by simp⟩⟩
    simp only [List.flatten_nil, List.append_nil, List.take_length]
  | cons b bs =>
    obtain ⟨h1, h2, h3⟩ := hnc
    have hne : b ≠ [] := by intro e; rw [e] at h1; simp at h1
    rw [Step.writeBufs_cons] at hX
    rcases CutW.of_append _ hX with hX | hX
    · obtain ⟨m, n, hm, hmw, hmn, hln⟩ := writeBuf_cutR g h b hne h2 (hres b bs rfl) hX
      by_cases hmb : m ≤ b.length
      · refine ⟨_, n, _, hm, ?_, ?_, hmn, hln, ?_⟩
        · have := (PrefixCut.take (init.flatten ++ t) b m).extend bs.flatten
          simpa [List.append_assoc] using this
        · congr 1
          simp only [List.length_append, List.length_take]
          omega
        · intro hw
          rcases hmw hw with h0 | h0
          · exact ⟨0, Nat.zero_le _, by rw [h0]; simp⟩
          · exact ⟨1, by simp, by rw [List.take_of_length_le h0]; simp⟩
      · have hbm : b.length ≤ m := by omega
        have hrd : res.drop m = [] := List.drop_of_length_le (Nat.le_trans (hres b bs rfl) hbm)
        rw [hrd] at hm
        rw [List.take_of_length_le hbm] at hm
        refine ⟨_, n, [], hm, ?_, ?_, fun hd => absurd rfl hd, hln, fun _ => ⟨1, by simp, by simp⟩⟩
        · have := (PrefixCut.take (init.flatten ++ t) b b.length).extend bs.flatten
          simpa [List.append_assoc] using this
        · symm
          apply List.drop_of_length_le
          simp only [List.length_append]
          have := hres b bs rfl
          omega
    · obtain ⟨i1, t1, x1, ht1, hp1, hcurA, hc1⟩ := writeBuf_tapeR g h b hne h2 (hres b bs rfl)
      have hmonoI : init.length ≤ i1.length := by
        have h1 := ht1.cur
        rw [hcurA, h.P_length] at h1
        have : init.length ≤ (init.length * g.fileBytes + l.off) / g.fileBytes := by
          rw [Nat.le_div_iff_mul_le (fileBytes_pos g)]; omega
        omega
      rw [← hc1] at h3
      obtain ⟨Pm, hc, hp, hpw⟩ := writeBufs_cutW g bs ht1 h3 hX
      obtain ⟨n, hln, hn⟩ := RTapeR.of_rtape hc
      have hple : (init.flatten ++ t ++ b).length ≤ Pm.length := by
        obtain ⟨m0, q1, q2, q3⟩ := hp
        rw [hp1] at q1
        rw [q3, List.length_take]; omega
      refine ⟨Pm, n, [], hn, ?_, ?_, fun hd => absurd rfl hd, by omega, ?_⟩
      · rw [hp1] at hp
        have := hp.shift
        simpa [List.append_assoc] using this
      · symm
        apply List.drop_of_length_le
        simp only [List.length_append] at hple ⊢
        have := hres b bs rfl
        omega
      · intro hw
        obtain ⟨j, hj, hPm⟩ := hpw hw
        refine ⟨j + 1, by simpa using hj, ?_⟩
        rw [hPm, hp1]; simp [List.append_assoc]

end MRL.L
