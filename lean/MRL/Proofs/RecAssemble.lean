/-
`assemble` never delivers an entry with a missing frame (C12): every `RecEv.entry` it emits is the
concatenation of the payloads of a run of CONSECUTIVE frame events — a single Full, or
First, Middle*, Last — with no corrupt event (and no other frame) in between.
-/
import MRL.Model.Recovery

namespace MRL.Rec
open MRL Consts

/-- a frame event: file, type, payload -/
abbrev FEv := Nat × FrameType × Bytes

def evsOf (run : List FEv) : List RdEv := run.map fun x => RdEv.frame x.1 x.2.1 x.2.2

def payloadOfRun (run : List FEv) : Bytes := (run.map (·.2.2)).flatten

/-- all of type Middle -/
def Mids (l : List FEv) : Prop := ∀ x ∈ l, x.2.1 = FrameType.middle

/-- a run still open: First, Middle* -/
def OpenRun (run : List FEv) : Prop := ∃ f p mids, run = (f, FrameType.first, p) :: mids ∧ Mids mids

/-- a complete run: a single Full, or First, Middle*, Last -/
def Complete (run : List FEv) : Prop :=
  (∃ f p, run = [(f, FrameType.full, p)]) ∨
  (∃ f p mids f' q, run = (f, FrameType.first, p) :: (mids ++ [(f', FrameType.last, q)]) ∧ Mids mids)

/-- invariant of the reassembly state against the events consumed so far: inside an entry, the
    buffer is the concatenated payloads of an open run that ends the consumed events -/
def AInv (st : AsmSt) (done : List RdEv) : Prop :=
  st.within = true → ∃ pre0 run, done = pre0 ++ evsOf run ∧ OpenRun run ∧ st.buf = payloadOfRun run

/-- `bytes` is the payload of a complete run of consecutive events of `all` -/
def Delivered (all : List RdEv) (bytes : Bytes) : Prop :=
  ∃ pre run post, all = pre ++ evsOf run ++ post ∧ Complete run ∧ bytes = payloadOfRun run

theorem evsOf_append (a b : List FEv) : evsOf (a ++ b) = evsOf a ++ evsOf b := by simp [evsOf]

theorem payloadOfRun_append (a b : List FEv) : payloadOfRun (a ++ b) = payloadOfRun a ++ payloadOfRun b := by
  simp [payloadOfRun]

theorem assemble_runs (evs : List RdEv) : ∀ (st : AsmSt) (done : List RdEv), AInv st done →
    ∀ a bytes, RecEv.entry a bytes ∈ assemble st evs → Delivered (done ++ evs) bytes := by
  induction evs with
  | nil => intro st done _ a bytes hm; simp [assemble] at hm
  | cons ev evs ih =>
    intro st done hI a bytes hm
    have hcat : done ++ ev :: evs = (done ++ [ev]) ++ evs := by simp
    have next : ∀ st', AInv st' (done ++ [ev]) → RecEv.entry a bytes ∈ assemble st' evs →
        Delivered (done ++ ev :: evs) bytes := fun st' hI' hm' => hcat ▸ ih st' _ hI' a bytes hm'
    have vac : ∀ (b : Bytes) (at' : Nat), AInv { within := false, buf := b, attr := at' } (done ++ [ev]) :=
      fun _ _ h => by cases h
    cases ev with
    | corrupt f =>
      simp only [assemble, List.mem_cons] at hm
      rcases hm with hm | hm
      · cases hm
      · exact next _ (vac _ _) hm
    | frame f t p =>
      cases t with
      | full =>
        simp only [assemble, FrameType.isFirst, FrameType.isLast, Bool.or_true, if_true,
          List.nil_append, List.mem_cons] at hm
        rcases hm with hm | hm
        · simp only [RecEv.entry.injEq] at hm
          refine ⟨done, [(f, FrameType.full, p)], evs, by simp [evsOf], Or.inl ⟨f, p, rfl⟩, ?_⟩
          rw [hm.2]; simp [payloadOfRun]
        · exact next _ (vac _ _) hm
      | first =>
        simp only [assemble, FrameType.isFirst, FrameType.isLast, Bool.or_true, if_true,
          List.nil_append, Bool.false_eq_true, if_false] at hm
        refine next _ ?_ hm
        intro _
        exact ⟨done, [(f, FrameType.first, p)], by simp [evsOf],
          ⟨f, p, [], rfl, fun x hx => by cases hx⟩, by simp [payloadOfRun]⟩
      | middle =>
        cases hw : st.within with
        | false =>
          simp only [assemble, FrameType.isFirst, FrameType.isLast, hw, Bool.or_false,
            Bool.false_eq_true, if_false] at hm
          exact next st (fun h => by rw [hw] at h; cases h) hm
        | true =>
          simp only [assemble, FrameType.isFirst, FrameType.isLast, hw, Bool.or_false, if_true,
            Bool.false_eq_true, if_false] at hm
          refine next _ ?_ hm
          intro _
          obtain ⟨pre0, run, h1, ⟨f0, p0, mids, h2, h3⟩, h4⟩ := hI hw
          refine ⟨pre0, run ++ [(f, FrameType.middle, p)], ?_, ⟨f0, p0, mids ++ [(f, FrameType.middle, p)], ?_, ?_⟩, ?_⟩
          · rw [h1, evsOf_append]; simp [evsOf]
          · rw [h2]; rfl
          · intro x hx
            rcases List.mem_append.mp hx with hx | hx
            · exact h3 x hx
            · simp only [List.mem_singleton] at hx; subst hx; rfl
          · simp only [h4, payloadOfRun_append]; simp [payloadOfRun]
      | last =>
        cases hw : st.within with
        | false =>
          simp only [assemble, FrameType.isFirst, FrameType.isLast, hw, Bool.or_false,
            Bool.false_eq_true, if_false] at hm
          exact next st (fun h => by rw [hw] at h; cases h) hm
        | true =>
          simp only [assemble, FrameType.isFirst, FrameType.isLast, hw, Bool.or_false, if_true,
            Bool.false_eq_true, if_false, List.mem_cons] at hm
          rcases hm with hm | hm
          · simp only [RecEv.entry.injEq] at hm
            obtain ⟨pre0, run, h1, ⟨f0, p0, mids, h2, h3⟩, h4⟩ := hI hw
            refine ⟨pre0, run ++ [(f, FrameType.last, p)], evs, ?_, Or.inr ⟨f0, p0, mids, f, p, ?_, h3⟩, ?_⟩
            · rw [h1, evsOf_append]; simp [evsOf]
            · rw [h2]; rfl
            · rw [hm.2, h4, payloadOfRun_append]; simp [payloadOfRun]
          · exact next _ (vac _ _) hm

end MRL.Rec
