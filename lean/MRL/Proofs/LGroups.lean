/-
Tapes after crashes, frames level. The tagged frames are non-first "lead" frames followed by
GROUPS: live groups (the frames of a retained journal entry) and dead groups (the first frames of
an entry that never got its last frame — left by a crash between two frames; never delivered).
The reader delivers the live entries in order, each attributed to some file between the first
tracked file and the file where the entry starts; the journal re-attributed that way (`ReAttr`)
replays to exactly what the reader rebuilds.
-/
import MRL.Proofs.LItems

namespace MRL.L
open MRL Codec Consts G H Log C05 Torn

/-- pointwise relation of two lists -/
inductive All2 {α β : Type} (R : α → β → Prop) : List α → List β → Prop
  | nil : All2 R [] []
  | cons {a b l1 l2} : R a b → All2 R l1 l2 → All2 R (a :: l1) (b :: l2)

/-- a group of items: of a retained journal entry (`some j`), or dead (`none`) -/
abbrev Grp := Option JE × List AItm

def liveOf (gs : List Grp) : List Seg := gs.filterMap fun x => x.1.map fun j => (j, tfs x.2)

/-- live: the frames of the entry, as written. Dead: a proper prefix of the frames of an entry
    that was never finished, as written; or one junk slot. -/
def GrpOK (x : Grp) : Prop :=
  match x.1 with
  | some j => SegOK (j, tfs x.2) ∧ ∀ a ∈ x.2, a.2 = none
  | none => (∃ rest : List Frm, rest ≠ [] ∧ EntryFrames true (frs x.2 ++ rest) ∧ ∀ a ∈ x.2, a.2 = none) ∨
      (∃ a r, x.2 = [a] ∧ a.2 = some r)

/-- lead frames, then groups; the live groups are the retained journal entries, in order -/
def SegsX (F : Nat) (J : List JE) (ais : List AItm) : Prop :=
  ∃ (lead : List AItm) (gs : List Grp),
    ais = lead ++ gs.flatMap (·.2) ∧ (∀ a ∈ lead, a.2 = none ∧ a.1.2.1.isFirst = false) ∧
    (liveOf gs).map (·.1) = J.filter (fun j => decide (F ≤ j.loc)) ∧ (∀ x ∈ gs, GrpOK x)

theorem liveOf_cons_some (j : JE) (fs : List AItm) (gs : List Grp) :
    liveOf ((some j, fs) :: gs) = (j, tfs fs) :: liveOf gs := by simp [liveOf]

theorem liveOf_cons_none (fs : List AItm) (gs : List Grp) : liveOf ((none, fs) :: gs) = liveOf gs := by
  simp [liveOf]

theorem liveOf_append (a b : List Grp) : liveOf (a ++ b) = liveOf a ++ liveOf b := by
  simp [liveOf, List.filterMap_append]

/-- `j'` is the entry of `s` attributed to a file between `F` and the file where it starts -/
def ReAttr (F : Nat) (j' : JE) (s : Seg) : Prop :=
  j'.e = s.1.e ∧ j'.loc = s.1.loc ∧ F ≤ j'.attr ∧ j'.attr ≤ j'.loc

/-- the record events of a list of journal entries with their attributions -/
def entriesEv (J : List JE) : List RecEv := J.map fun j => RecEv.entry j.attr j.e.encode

theorem entriesOf_entriesEv (J : List JE) : entriesOf (entriesEv J) = entriesEv J := by
  induction J with
  | nil => rfl
  | cons j J ih =>
    simp only [entriesEv, List.map_cons, entriesOf, List.filter_cons] at ih ⊢
    rw [ih]; simp

theorem replay_entriesOf : ∀ (l : List RecEv) (qs : MemQueues), replay qs l = replay qs (entriesOf l) := by
  intro l
  induction l with
  | nil => intro qs; rfl
  | cons ev l ih =>
    intro qs
    cases ev with
    | corrupt => simp only [replay, entriesOf, List.filter_cons]; exact ih qs
    | entry f b =>
      have : entriesOf (RecEv.entry f b :: l) = RecEv.entry f b :: entriesOf l := by
        simp [entriesOf, List.filter_cons]
      rw [this]
      simp only [replay]
      cases Entry.decode b with
      | none => exact ih qs
      | some e =>
        simp only
        cases replayEntry qs f e with
        | none => rfl
        | some qs' => simp only [Option.bind_some]; exact ih qs'

theorem head_tag_le {fs : List TFrm} (hp : fs.Pairwise (fun a b => a.1 ≤ b.1)) {a b : TFrm}
    (ha : fs.head? = some a) (hb : b ∈ fs) : a.1 ≤ b.1 := by
  cases fs with
  | nil => cases ha
  | cons x xs =>
    simp only [List.head?_cons, Option.some.injEq] at ha
    subst ha
    rcases List.mem_cons.mp hb with rfl | hb
    · exact Nat.le_refl _
    · exact (List.pairwise_cons.mp hp).1 b hb

/-- items as written read as their frames -/
theorem evsJ_none {ais : List AItm} (h : ∀ a ∈ ais, a.2 = none) : evsJ ais = evsOf (tfs ais) := by
  induction ais with
  | nil => rfl
  | cons a ais ih =>
    have ha := h a List.mem_cons_self
    obtain ⟨x, r⟩ := a
    simp only at ha
    subst ha
    rw [evsJ_cons, tfs_cons, evsOf_cons, ih (fun y hy => h y (List.mem_cons_of_mem _ hy))]
    rfl

/-- a proper prefix of the frames of an entry delivers nothing, and keeps the attribution -/
theorem assemble_partA (part : List TFrm) : ∀ (b : Bool) (rest : List Frm) (st : AsmSt) (evs : List RdEv),
    rest ≠ [] → EntryFrames b (untag part ++ rest) → (b = true ∨ st.within = true) →
    ∃ st', st'.attr = st.attr ∧ assemble st (evsOf part ++ evs) = assemble st' evs := by
  induction part with
  | nil => intro b rest st evs _ _ _; exact ⟨st, rfl, by simp [evsOf]⟩
  | cons a part ih =>
    intro b rest st evs hrest hE hw
    obtain ⟨f, t, p⟩ := a
    simp only [untag, List.map_cons, List.cons_append] at hE
    obtain ⟨ht, htail⟩ := hE
    have hne : List.map (fun x : TFrm => x.2) part ++ rest ≠ [] := by simp [hrest]
    have hemp : (List.map (fun x : TFrm => x.2) part ++ rest).isEmpty = false := by simpa using hne
    simp only [hemp] at ht
    have hlast : t.isLast = false := by rw [ht]; cases b <;> rfl
    have hfirst : t.isFirst = b := by rw [ht]; cases b <;> rfl
    have hw2 : (st.within || t.isFirst) = true := by
      rw [hfirst]; rcases hw with h | h <;> simp [h]
    rw [evsOf_cons, List.cons_append, assemble_more st f t p _ hlast hw2]
    obtain ⟨st1, h1, h2⟩ := ih false rest
      { within := true, buf := (if t.isFirst then [] else st.buf) ++ p, attr := st.attr } evs
      hrest (htail hne) (Or.inr rfl)
    exact ⟨st1, h1, h2⟩

/-- **reassembly over groups** -/
theorem asm_groups (F : Nat) : ∀ (gs : List Grp) (st : AsmSt) (tail : List RdEv),
    (∀ x ∈ gs, GrpOK x) → (tfs (gs.flatMap (·.2))).Pairwise (fun a b => a.1 ≤ b.1) →
    (∀ a ∈ tfs (gs.flatMap (·.2)), st.attr ≤ a.1) → F ≤ st.attr →
    ∃ (gs' : List Grp) (st' : AsmSt) (R : List RecEv),
      gs'.flatMap (·.2) = gs.flatMap (·.2) ∧ (∀ x ∈ gs', GrpOK x) ∧
      All2 (ReAttr F) ((liveOf gs').map (·.1)) (liveOf gs) ∧
      assemble st (evsJ (gs.flatMap (·.2)) ++ tail) = R ++ assemble st' tail ∧
      entriesOf R = entriesEv ((liveOf gs').map (·.1)) := by
  intro gs
  induction gs with
  | nil =>
    intro st tail _ _ _ _
    exact ⟨[], st, [], rfl, (fun _ h => by cases h), All2.nil, by simp [evsJ, liveOf], rfl⟩
  | cons x gs ih =>
    intro st tail hok hmono hlo hF
    obtain ⟨oj, fs⟩ := x
    rw [List.flatMap_cons, tfs_append] at hmono hlo
    have hmono2 : (tfs (gs.flatMap (·.2))).Pairwise (fun a b => a.1 ≤ b.1) := (List.pairwise_append.mp hmono).2.1
    have hokx := hok (oj, fs) List.mem_cons_self
    have hokr : ∀ x ∈ gs, GrpOK x := fun x hx => hok x (List.mem_cons_of_mem _ hx)
    rw [List.flatMap_cons, evsJ_append, List.append_assoc]
    cases oj with
    | none =>
      rcases hokx with ⟨rest, hrest, hE, hnone⟩ | ⟨a, r, hfs, har⟩
      · -- an unfinished entry: nothing is delivered, the attribution is unchanged
        simp only at hE hnone
        rw [evsJ_none hnone]
        obtain ⟨st1, hs1, he1⟩ := assemble_partA (tfs fs) true rest st
          (evsJ (gs.flatMap (·.2)) ++ tail) hrest hE (Or.inl rfl)
        obtain ⟨gs', st', R, g1, g2, g3, g4, g5⟩ := ih st1 tail hokr hmono2
          (fun a ha => by rw [hs1]; exact hlo a (List.mem_append_right _ ha)) (by rw [hs1]; exact hF)
        refine ⟨(none, fs) :: gs', st', R, by rw [List.flatMap_cons, g1], ?_, ?_, ?_, ?_⟩
        · intro y hy
          rcases List.mem_cons.mp hy with rfl | hy
          · exact Or.inl ⟨rest, hrest, hE, hnone⟩
          · exact g2 y hy
        · rw [liveOf_cons_none, liveOf_cons_none]; exact g3
        · rw [he1, g4]
        · rw [liveOf_cons_none]; exact g5
      · -- a junk slot: one `corrupt` event; the next entry is attributed to its file
        simp only at hfs har
        subst hfs
        have hev : evsJ [a] = [RdEv.corrupt a.1.1] := by simp [evsJ, evJ, har]
        rw [hev]
        simp only [List.cons_append, List.nil_append, assemble]
        have hatag : st.attr ≤ a.1.1 := hlo a.1 (List.mem_append_left _ (by simp))
        obtain ⟨gs', st', R, g1, g2, g3, g4, g5⟩ := ih { within := false, buf := st.buf, attr := a.1.1 } tail
          hokr hmono2
          (fun b hb => (List.pairwise_append.mp hmono).2.2 a.1 (by simp) b hb) (by simp only; omega)
        refine ⟨(none, [a]) :: gs', st', RecEv.corrupt :: R, by rw [List.flatMap_cons, g1]; rfl, ?_, ?_, ?_, ?_⟩
        · intro y hy
          rcases List.mem_cons.mp hy with rfl | hy
          · exact Or.inr ⟨a, r, rfl, har⟩
          · exact g2 y hy
        · rw [liveOf_cons_none, liveOf_cons_none]; exact g3
        · rw [g4]; rfl
        · rw [liveOf_cons_none]; exact g5
    | some j =>
      obtain ⟨hso, hnone⟩ : SegOK (j, tfs fs) ∧ ∀ a ∈ fs, a.2 = none := hokx
      rw [evsJ_none hnone]
      have hfne : tfs fs ≠ [] := by
        intro hnil
        have := hso.frames.ne_nil
        simp only at this
        rw [hnil] at this; exact this rfl
      rw [assemble_tagged (tfs fs) true st _ hso.frames (Or.inl rfl)]
      simp only [if_true, List.nil_append, hso.payload]
      have hlt : ∀ a ∈ tfs (gs.flatMap (·.2)), lastTag (tfs fs) 0 ≤ a.1 := by
        intro a ha
        unfold lastTag
        cases hl : (tfs fs).getLast? with
        | none => rw [List.getLast?_eq_none_iff] at hl; exact absurd hl hfne
        | some z =>
          exact (List.pairwise_append.mp hmono).2.2 z (List.mem_of_getLast? hl) a ha
      have hFl : F ≤ lastTag (tfs fs) 0 := by
        unfold lastTag
        cases hl : (tfs fs).getLast? with
        | none => rw [List.getLast?_eq_none_iff] at hl; exact absurd hl hfne
        | some z =>
          have := hlo z (List.mem_append_left _ (List.mem_of_getLast? hl))
          simp only [Option.map_some, Option.getD_some]; omega
      obtain ⟨gs', st', R, g1, g2, g3, g4, g5⟩ := ih { within := false, buf := j.e.encode, attr := lastTag (tfs fs) 0 }
        tail hokr hmono2 hlt hFl
      have hhead : ∃ a, (tfs fs).head? = some a := by
        cases hfs : tfs fs with
        | nil => exact absurd hfs hfne
        | cons a _ => exact ⟨a, rfl⟩
      obtain ⟨a0, ha0⟩ := hhead
      have hloc : a0.1 = j.loc := hso.first a0 ha0
      have hattr : st.attr ≤ j.loc := by
        rw [← hloc]; exact hlo a0 (List.mem_append_left _ (List.mem_of_head? ha0))
      refine ⟨(some { j with attr := st.attr }, fs) :: gs', st', RecEv.entry st.attr j.e.encode :: R,
        by rw [List.flatMap_cons, g1], ?_, ?_, ?_, ?_⟩
      · intro y hy
        rcases List.mem_cons.mp hy with rfl | hy
        · exact ⟨⟨hso.frames, hso.payload, hso.first⟩, hnone⟩
        · exact g2 y hy
      · rw [liveOf_cons_some, liveOf_cons_some]
        exact All2.cons ⟨rfl, rfl, hF, hattr⟩ g3
      · rw [g4]; rfl
      · rw [liveOf_cons_some]
        simp only [List.map_cons, entriesEv] at g5 ⊢
        rw [← g5]
        simp [entriesOf, List.filter_cons]

/-! ### replaying re-attributed entries -/

theorem replay_entriesEv (F : Nat) : ∀ (J : List JE) (qs : MemQueues),
    (∀ j ∈ J, C07.WF j.e ∧ F ≤ j.attr ∧ j.attr ≤ j.loc) → replay qs (entriesEv J) = replayJ F qs J := by
  intro J
  induction J with
  | nil => intro qs _; rfl
  | cons j J ih =>
    intro qs h
    obtain ⟨h1, h2, h3⟩ := h j List.mem_cons_self
    have hn : ¬ j.loc < F := by omega
    have hmax : max j.attr F = j.attr := by omega
    simp only [entriesEv, List.map_cons, replay, C07.decode_encode _ h1, replayJ, hn, if_false, hmax]
    cases replayEntry qs j.attr j.e with
    | none => rfl
    | some qs' =>
      simp only [Option.bind_some]
      exact ih qs' fun j' hj' => h j' (List.mem_cons_of_mem _ hj')

/-- same entries, different attributions: the replays succeed together and agree up to handles -/
theorem replayJ_abs (F : Nat) : ∀ (J1 J2 : List JE) (q1 q2 r2 : MemQueues),
    All2 (fun a b : JE => a.e = b.e) J1 J2 → (∀ j ∈ J1, F ≤ j.loc) → (∀ j ∈ J2, F ≤ j.loc) →
    AbsEq q2 q1 → QsWF q1 → QsWF q2 → replayJ F q2 J2 = some r2 →
    ∃ r1, replayJ F q1 J1 = some r1 ∧ AbsEq r2 r1 := by
  intro J1 J2 q1 q2 r2 hrel
  induction hrel generalizing q1 q2 with
  | nil => intro _ _ h _ _ hr; cases hr; exact ⟨q1, rfl, h⟩
  | @cons a b J1 J2 hab _ ih =>
    intro h1 h2 h hw1 hw2 hr
    have hn1 : ¬ a.loc < F := by have := h1 a List.mem_cons_self; omega
    have hn2 : ¬ b.loc < F := by have := h2 b List.mem_cons_self; omega
    simp only [replayJ, hn1, hn2, if_false] at hr ⊢
    cases he : replayEntry q2 (max b.attr F) b.e with
    | none => rw [he] at hr; cases hr
    | some q2' =>
      rw [he] at hr
      simp only [Option.bind_some] at hr
      rw [← hab] at he
      obtain ⟨q1', hq1', heq'⟩ := replayEntry_abs (f' := max a.attr F) h hw2 hw1 he
      rw [hq1']
      simp only [Option.bind_some]
      exact ih q1' q2' (fun j hj => h1 j (List.mem_cons_of_mem _ hj))
        (fun j hj => h2 j (List.mem_cons_of_mem _ hj)) heq' (replayEntry_wf hw1 hq1')
        (replayEntry_wf hw2 he) hr

end MRL.L
