/-
Tapes after crashes, frames level. The tagged frames are non-first "lead" frames followed by
GROUPS: live groups (the frames of a retained journal entry) and dead groups (the first frames of
an entry that never got its last frame — left by a crash between two frames; never delivered).
The reader delivers the live entries in order, each attributed to some file between the first
tracked file and the file where the entry starts; the journal re-attributed that way (`ReAttr`)
replays to exactly what the reader rebuilds.
-/
import MRL.Proofs.HCrashRead
import MRL.Proofs.HAbs

namespace MRL.L
open MRL Codec Consts G H Log C05

/-- pointwise relation of two lists -/
inductive All2 {α β : Type} (R : α → β → Prop) : List α → List β → Prop
  | nil : All2 R [] []
  | cons {a b l1 l2} : R a b → All2 R l1 l2 → All2 R (a :: l1) (b :: l2)

/-- a group of tagged frames: of a retained journal entry (`some j`) or dead (`none`) -/
abbrev Grp := Option JE × List TFrm

def liveOf (gs : List Grp) : List Seg := gs.filterMap fun x => x.1.map fun j => (j, x.2)

def GrpOK (x : Grp) : Prop :=
  match x.1 with
  | some j => SegOK (j, x.2)
  | none => ∃ rest : List Frm, rest ≠ [] ∧ EntryFrames true (untag x.2 ++ rest)

/-- lead frames, then groups; the live groups are the retained journal entries, in order -/
def SegsX (F : Nat) (J : List JE) (afs : List TFrm) : Prop :=
  ∃ (lead : List TFrm) (gs : List Grp),
    afs = lead ++ gs.flatMap (·.2) ∧ (∀ a ∈ lead, a.2.1.isFirst = false) ∧
    (liveOf gs).map (·.1) = J.filter (fun j => decide (F ≤ j.loc)) ∧ (∀ x ∈ gs, GrpOK x)

theorem liveOf_cons_some (j : JE) (fs : List TFrm) (gs : List Grp) :
    liveOf ((some j, fs) :: gs) = (j, fs) :: liveOf gs := by simp [liveOf]

theorem liveOf_cons_none (fs : List TFrm) (gs : List Grp) : liveOf ((none, fs) :: gs) = liveOf gs := by
  simp [liveOf]

theorem liveOf_append (a b : List Grp) : liveOf (a ++ b) = liveOf a ++ liveOf b := by
  simp [liveOf, List.filterMap_append]

/-- `j'` is the entry of `s` attributed to a file between `F` and the file where it starts -/
def ReAttr (F : Nat) (j' : JE) (s : Seg) : Prop :=
  j'.e = s.1.e ∧ j'.loc = s.1.loc ∧ F ≤ j'.attr ∧ j'.attr ≤ j'.loc

/-- the record events of a list of journal entries with their attributions -/
def entriesEv (J : List JE) : List RecEv := J.map fun j => RecEv.entry j.attr j.e.encode

theorem head_tag_le {fs : List TFrm} (hp : fs.Pairwise (fun a b => a.1 ≤ b.1)) {a b : TFrm}
    (ha : fs.head? = some a) (hb : b ∈ fs) : a.1 ≤ b.1 := by
  cases fs with
  | nil => cases ha
  | cons x xs =>
    simp only [List.head?_cons, Option.some.injEq] at ha
    subst ha
    rcases List.mem_cons.mp hb with rfl | hb
    · exact Nat.le_refl _
    · exact (List.pairwise_cons.mp hp).1 b hb

/-- **reassembly over groups** -/
theorem asm_groups (F : Nat) : ∀ (gs : List Grp) (st : AsmSt) (tail : List RdEv),
    (∀ x ∈ gs, GrpOK x) → (gs.flatMap (·.2)).Pairwise (fun a b => a.1 ≤ b.1) →
    (∀ a ∈ gs.flatMap (·.2), st.attr ≤ a.1) → F ≤ st.attr →
    ∃ (gs' : List Grp) (st' : AsmSt),
      gs'.flatMap (·.2) = gs.flatMap (·.2) ∧ (∀ x ∈ gs', GrpOK x) ∧
      All2 (ReAttr F) ((liveOf gs').map (·.1)) (liveOf gs) ∧
      assemble st (evsOf (gs.flatMap (·.2)) ++ tail) =
        entriesEv ((liveOf gs').map (·.1)) ++ assemble st' tail := by
  intro gs
  induction gs with
  | nil =>
    intro st tail _ _ _ _
    exact ⟨[], st, rfl, (fun _ h => by cases h), All2.nil, by simp [evsOf, entriesEv, liveOf]⟩
  | cons x gs ih =>
    intro st tail hok hmono hlo hF
    obtain ⟨oj, fs⟩ := x
    rw [List.flatMap_cons] at hmono hlo
    have hmono2 : (gs.flatMap (·.2)).Pairwise (fun a b => a.1 ≤ b.1) := (List.pairwise_append.mp hmono).2.1
    have hokx := hok (oj, fs) List.mem_cons_self
    have hokr : ∀ x ∈ gs, GrpOK x := fun x hx => hok x (List.mem_cons_of_mem _ hx)
    rw [List.flatMap_cons, evsOf_append, List.append_assoc]
    cases oj with
    | none =>
      -- a dead group: nothing is delivered, the attribution is unchanged
      obtain ⟨rest, hrest, hE⟩ := hokx
      -- turn the missing frames into tagged ones to use `assemble_part`
      have hpart : ∃ st1, st1.attr = st.attr ∧
          assemble st (evsOf fs ++ (evsOf (gs.flatMap (·.2)) ++ tail)) =
            assemble st1 (evsOf (gs.flatMap (·.2)) ++ tail) := by
        clear ih hmono hlo hmono2 hok hokr
        generalize evsOf (gs.flatMap (·.2)) ++ tail = evs
        have key : ∀ (part : List TFrm) (b : Bool) (st : AsmSt), EntryFrames b (untag part ++ rest) →
            (b = true ∨ st.within = true) →
            ∃ st1, st1.attr = st.attr ∧ assemble st (evsOf part ++ evs) = assemble st1 evs := by
          intro part
          induction part with
          | nil => intro b st _ _; exact ⟨st, rfl, by simp [evsOf]⟩
          | cons a part ihp =>
            intro b st hE hw
            obtain ⟨f, t, p⟩ := a
            simp only [untag, List.map_cons, List.cons_append] at hE
            obtain ⟨ht, htail⟩ := hE
            have hne : List.map (fun x : TFrm => x.2) part ++ rest ≠ [] := by simp [hrest]
            have hemp : (List.map (fun x : TFrm => x.2) part ++ rest).isEmpty = false := by simpa using hne
            simp only [hemp] at ht
            have hlast : t.isLast = false := by rw [ht]; cases b <;> rfl
            have hfirst : t.isFirst = b := by rw [ht]; cases b <;> rfl
            have hw2 : (st.within || t.isFirst) = true := by
              rw [hfirst]; rcases hw with h | h <;> simp [h]
            rw [evsOf_cons, List.cons_append, assemble_more st f t p _ hlast hw2]
            obtain ⟨st1, h1, h2⟩ := ihp false
              { within := true, buf := (if t.isFirst then [] else st.buf) ++ p, attr := st.attr }
              (htail hne) (Or.inr rfl)
            exact ⟨st1, h1, h2⟩
        exact key fs true st hE (Or.inl rfl)
      obtain ⟨st1, hs1, he1⟩ := hpart
      obtain ⟨gs', st', g1, g2, g3, g4⟩ := ih st1 tail hokr hmono2
        (fun a ha => by rw [hs1]; exact hlo a (List.mem_append_right _ ha)) (by rw [hs1]; exact hF)
      refine ⟨(none, fs) :: gs', st', by rw [List.flatMap_cons, g1], ?_, ?_, ?_⟩
      · intro y hy
        rcases List.mem_cons.mp hy with rfl | hy
        · exact ⟨rest, hrest, hE⟩
        · exact g2 y hy
      · rw [liveOf_cons_none, liveOf_cons_none]; exact g3
      · rw [he1, g4, liveOf_cons_none]
    | some j =>
      have hso : SegOK (j, fs) := hokx
      have hfne : fs ≠ [] := by
        intro hnil
        have := hso.frames.ne_nil
        simp only at this
        rw [hnil] at this; exact this rfl
      rw [assemble_tagged fs true st _ hso.frames (Or.inl rfl)]
      simp only [if_true, List.nil_append, hso.payload]
      have hlt : ∀ a ∈ gs.flatMap (·.2), lastTag fs 0 ≤ a.1 := by
        intro a ha
        unfold lastTag
        cases hl : fs.getLast? with
        | none => rw [List.getLast?_eq_none_iff] at hl; exact absurd hl hfne
        | some z =>
          exact (List.pairwise_append.mp hmono).2.2 z (List.mem_of_getLast? hl) a ha
      have hFl : F ≤ lastTag fs 0 := by
        unfold lastTag
        cases hl : fs.getLast? with
        | none => rw [List.getLast?_eq_none_iff] at hl; exact absurd hl hfne
        | some z =>
          have := hlo z (List.mem_append_left _ (List.mem_of_getLast? hl))
          simp only [Option.map_some, Option.getD_some]; omega
      obtain ⟨gs', st', g1, g2, g3, g4⟩ := ih { within := false, buf := j.e.encode, attr := lastTag fs 0 } tail
        hokr hmono2 hlt hFl
      -- the entry is attributed to `st.attr`
      have hhead : ∃ a, fs.head? = some a := by
        cases fs with
        | nil => exact absurd rfl hfne
        | cons a _ => exact ⟨a, rfl⟩
      obtain ⟨a0, ha0⟩ := hhead
      have hloc : a0.1 = j.loc := hso.first a0 ha0
      have hattr : st.attr ≤ j.loc := by
        rw [← hloc]; exact hlo a0 (List.mem_append_left _ (List.mem_of_head? ha0))
      refine ⟨(some { j with attr := st.attr }, fs) :: gs', st', by rw [List.flatMap_cons, g1], ?_, ?_, ?_⟩
      · intro y hy
        rcases List.mem_cons.mp hy with rfl | hy
        · exact ⟨hso.frames, hso.payload, hso.first⟩
        · exact g2 y hy
      · rw [liveOf_cons_some, liveOf_cons_some]
        exact All2.cons ⟨rfl, rfl, hF, hattr⟩ g3
      · rw [g4, liveOf_cons_some]
        simp [entriesEv]

/-! ### replaying re-attributed entries -/

theorem replay_entriesEv (F : Nat) : ∀ (J : List JE) (qs : MemQueues),
    (∀ j ∈ J, C07.WF j.e ∧ F ≤ j.attr ∧ j.attr ≤ j.loc) → replay qs (entriesEv J) = replayJ F qs J := by
  intro J
  induction J with
  | nil => intro qs _; rfl
  | cons j J ih =>
    intro qs h
    obtain ⟨h1, h2, h3⟩ := h j List.mem_cons_self
    have hn : ¬ j.loc < F := by omega
    have hmax : max j.attr F = j.attr := by omega
    simp only [entriesEv, List.map_cons, replay, C07.decode_encode _ h1, replayJ, hn, if_false, hmax]
    cases replayEntry qs j.attr j.e with
    | none => rfl
    | some qs' =>
      simp only [Option.bind_some]
      exact ih qs' fun j' hj' => h j' (List.mem_cons_of_mem _ hj')

/-- same entries, different attributions: the replays succeed together and agree up to handles -/
theorem replayJ_abs (F : Nat) : ∀ (J1 J2 : List JE) (q1 q2 r2 : MemQueues),
    All2 (fun a b : JE => a.e = b.e) J1 J2 → (∀ j ∈ J1, F ≤ j.loc) → (∀ j ∈ J2, F ≤ j.loc) →
    AbsEq q2 q1 → QsWF q1 → QsWF q2 → replayJ F q2 J2 = some r2 →
    ∃ r1, replayJ F q1 J1 = some r1 ∧ AbsEq r2 r1 := by
  intro J1 J2 q1 q2 r2 hrel
  induction hrel generalizing q1 q2 with
  | nil => intro _ _ h _ _ hr; cases hr; exact ⟨q1, rfl, h⟩
  | @cons a b J1 J2 hab _ ih =>
    intro h1 h2 h hw1 hw2 hr
    have hn1 : ¬ a.loc < F := by have := h1 a List.mem_cons_self; omega
    have hn2 : ¬ b.loc < F := by have := h2 b List.mem_cons_self; omega
    simp only [replayJ, hn1, hn2, if_false] at hr ⊢
    cases he : replayEntry q2 (max b.attr F) b.e with
    | none => rw [he] at hr; cases hr
    | some q2' =>
      rw [he] at hr
      simp only [Option.bind_some] at hr
      rw [← hab] at he
      obtain ⟨q1', hq1', heq'⟩ := replayEntry_abs (f' := max a.attr F) h hw2 hw1 he
      rw [hq1']
      simp only [Option.bind_some]
      exact ih q1' q2' (fun j hj => h1 j (List.mem_cons_of_mem _ hj))
        (fun j hj => h2 j (List.mem_cons_of_mem _ hj)) heq' (replayEntry_wf hw1 hq1')
        (replayEntry_wf hw2 he) hr

end MRL.L
