/-
Reading a torn tape: the stream is the first `m` bytes of a layout followed by zeros. The reader
returns the frames of a prefix of the layout — all those entirely before the cut — possibly
followed by one corrupt event, and stops.
-/
import MRL.Proofs.HReadFrames
import MRL.Proofs.GCut

namespace MRL.H
open MRL Codec Consts G Torn

/-- the collision clause for one frame: a payload whose tail was lost (zero-filled) and thereby
    changed fails the checksum -/
def TornFrame (t : FrameType) (p : Bytes) : Prop :=
  ∀ i, i < p.length → p.take i ++ zeros (p.length - i) ≠ p →
    frameCrc t (p.take i ++ zeros (p.length - i)) ≠ frameCrc t p

theorem layout0_len (g : Geom) (fs : List Frm) (h : Fits g 0 fs) :
    (layoutBufs g 0 fs).flatten.length = endPos g 0 fs := layout0_length g fs h

theorem tagFrom_take (g : Geom) (F : Nat) (fa fb : List Frm) (p : Nat) :
    (tagFrom g F p (fa ++ fb)).take fa.length = tagFrom g F p fa := by
  rw [tagFrom_append]
  have : (tagFrom g F p fa).length = fa.length := by
    have := congrArg List.length (untag_tagFrom g F fa p)
    simpa [untag] using this
  rw [← this, List.take_left']
  rfl

theorem endPos_mono (g : Geom) (p : Nat) (a b : List Frm) : endPos g p a ≤ endPos g p (a ++ b) := by
  rw [endPos_append]; exact le_endPos g b _

/-- complete frames `fa` followed by zeros -/
theorem clean_scan (g : Geom) (hB : g.B ≤ 65542) (F N : Nat) (hN : 0 < N) (fa : List Frm)
    (hf : Fits g 0 fa) (S : Bytes) (hS : S.length = N * g.B)
    (hSeq : S = (layoutBufs g 0 fa).flatten ++ zeros (N * g.B - endPos g 0 fa)) :
    ∃ e, scanAt g F S N 0 0 = (evsOf (tagFrom g F 0 fa), e) := by
  have hB7 := G.Bpos g
  obtain ⟨k', c', h1, h2, h3, h4⟩ := readS_frames g hB F S N hS fa 0 0 _ hN (by omega) hf
    (by simpa using hSeq)
  simp only [Nat.zero_mul, Nat.zero_add] at h3 h4
  have hE : totalLen (layoutBufs g 0 fa) = endPos g 0 fa := by rw [totalLen_eq]; exact layout0_len g fa hf
  obtain ⟨e, he⟩ := tail_zeros g F S N hS k' c' h1 h2 (by
    rw [h3, hE]
    conv => lhs; rw [hSeq]
    rw [← layout0_len g fa hf, List.drop_left' rfl])
  exact ⟨e, by rw [h4, he]; simp⟩

theorem padLen_mod (g : Geom) (E : Nat) : padLen g (E % g.B) = hdrPos g E - E := by
  unfold padLen hdrPos
  simp only [HEADER_LEN]
  split <;> omega

/-- complete frames `fs1`, the padding, then `X ≠ []` (the torn frame): where the reader stands
    when it reaches `X` -/
theorem after_frames (g : Geom) (hB : g.B ≤ 65542) (F N : Nat) (fs1 : List Frm) (hf : Fits g 0 fs1)
    (S : Bytes) (hS : S.length = N * g.B) (X : Bytes) (hX : X ≠ [])
    (hSeq : S = (layoutBufs g 0 fs1).flatten ++ zeros (padLen g (endCursor g 0 fs1)) ++ X) :
    ∃ kh ch, kh < N ∧ 7 ≤ g.B - ch ∧ kh * g.B + ch = hdrPos g (endPos g 0 fs1) ∧
      S.drop (kh * g.B + ch) = X ∧
      scanAt g F S N 0 0 = (evsOf (tagFrom g F 0 fs1) ++ (scanAt g F S N kh ch).1, (scanAt g F S N kh ch).2) := by
  have hB7 := G.Bpos g
  have hXl : 0 < X.length := List.length_pos_iff.mpr hX
  have hE : (layoutBufs g 0 fs1).flatten.length = endPos g 0 fs1 := layout0_len g fs1 hf
  have hcur : endCursor g 0 fs1 = endPos g 0 fs1 % g.B := by
    have := endCursor_pos g fs1 0 (by rw [zero_mod]; exact hf)
    rwa [zero_mod] at this
  have hN : 0 < N := by
    cases N with
    | zero =>
      have := congrArg List.length hSeq
      rw [hS] at this
      simp only [List.length_append, Nat.zero_mul] at this
      omega
    | succ n => omega
  rw [hcur, padLen_mod] at hSeq
  have hhp := le_hdrPos g (endPos g 0 fs1)
  have hSlen : hdrPos g (endPos g 0 fs1) + X.length = N * g.B := by
    have := congrArg List.length hSeq
    rw [hS] at this
    simp only [List.length_append, length_zeros, hE] at this
    omega
  obtain ⟨k', c', h1, h2, h3, h4⟩ := readS_frames g hB F S N hS fs1 0 0 _ hN (by omega) hf
    (by rw [List.append_assoc] at hSeq; simpa using hSeq)
  simp only [Nat.zero_mul, Nat.zero_add] at h3 h4
  rw [totalLen_eq, hE] at h3
  have hdropX : S.drop (hdrPos g (endPos g 0 fs1)) = X := by
    conv => lhs; rw [hSeq]
    apply List.drop_left'
    simp only [List.length_append, length_zeros, hE]; omega
  by_cases hc7 : 7 ≤ g.B - c'
  · have hc'lt : c' < g.B := by omega
    have hh : hdrPos g (endPos g 0 fs1) = k' * g.B + c' := by
      rw [← h3, hdrPos_good g k' c' hc'lt hc7]
    exact ⟨k', c', h1, hc7, hh.symm, by rw [← hh]; exact hdropX, h4⟩
  · have hh : hdrPos g (endPos g 0 fs1) = (k' + 1) * g.B + 0 := by
      by_cases hcB : c' = g.B
      · rw [← h3, hcB]
        have : k' * g.B + g.B = (k' + 1) * g.B + 0 := by rw [Nat.add_mul, Nat.one_mul]; rfl
        rw [this, hdrPos_good g (k' + 1) 0 (by omega) (by omega)]
      · rw [← h3]; exact hdrPos_pad g k' c' (by omega) (by omega)
    have hk1 : k' + 1 < N := by
      have : (k' + 1) * g.B < N * g.B := by omega
      exact Nat.lt_of_mul_lt_mul_right this
    refine ⟨k' + 1, 0, hk1, by omega, hh.symm, by rw [← hh]; exact hdropX, ?_⟩
    rw [h4, scanAt_skip g F S N k' c' (by omega) hk1]

/-- **the torn scan** -/
theorem torn_scan (g : Geom) (hB : g.B ≤ 65542) (F N : Nat) (hN : 0 < N) (fs : List Frm)
    (hfit : Fits g 0 fs) (m : Nat) (hm : m ≤ endPos g 0 fs) (hmN : m ≤ N * g.B)
    (htorn : ∀ fs1 t p fs2, fs = fs1 ++ (t, p) :: fs2 → m < endPos g 0 (fs1 ++ [(t, p)]) → TornFrame t p)
    (S : Bytes) (hSeq : S = (layoutBufs g 0 fs).flatten.take m ++ zeros (N * g.B - m)) :
    ∃ n1 C e, n1 ≤ fs.length ∧
      scanAt g F S N 0 0 = (evsOf ((tagFrom g F 0 fs).take n1) ++ C, e) ∧
      (C = [] ∨ ∃ f, C = [RdEv.corrupt f]) ∧
      (∀ n0, n0 ≤ fs.length → endPos g 0 (fs.take n0) ≤ m → n0 ≤ n1) := by
  have hB7 := G.Bpos g
  have hL : (layoutBufs g 0 fs).flatten.length = endPos g 0 fs := layout0_len g fs hfit
  have hSlen : S.length = N * g.B := by
    rw [hSeq]; simp only [List.length_append, List.length_take, length_zeros, hL]; omega
  -- a clean prefix `fa` of the frames
  have clean : ∀ fa fb, fs = fa ++ fb → S = (layoutBufs g 0 fa).flatten ++ zeros (N * g.B - endPos g 0 fa) →
      (∀ n0, n0 ≤ fs.length → endPos g 0 (fs.take n0) ≤ m → n0 ≤ fa.length) →
      ∃ n1 C e, n1 ≤ fs.length ∧
        scanAt g F S N 0 0 = (evsOf ((tagFrom g F 0 fs).take n1) ++ C, e) ∧
        (C = [] ∨ ∃ f, C = [RdEv.corrupt f]) ∧
        (∀ n0, n0 ≤ fs.length → endPos g 0 (fs.take n0) ≤ m → n0 ≤ n1) := by
    intro fa fb hfs hS' hmono
    have hfa : Fits g 0 fa := by rw [hfs, Fits_append] at hfit; exact hfit.1
    obtain ⟨e, he⟩ := clean_scan g hB F N hN fa hfa S hSlen hS'
    refine ⟨fa.length, [], e, by rw [hfs]; simp, ?_, Or.inl rfl, hmono⟩
    rw [he, hfs, tagFrom_take]; simp
  -- frames before index `n` all end at or before `m` only if `n ≤ |fs1|`
  have mono_of : ∀ fs1 t p fs2, fs = fs1 ++ (t, p) :: fs2 → m < endPos g 0 (fs1 ++ [(t, p)]) →
      ∀ n0, n0 ≤ fs.length → endPos g 0 (fs.take n0) ≤ m → n0 ≤ fs1.length := by
    intro fs1 t p fs2 hfs hlt n0 _ hle
    apply Classical.byContradiction
    intro hn
    have h1 : fs.take n0 = (fs1 ++ [(t, p)]) ++ (fs2.take (n0 - fs1.length - 1)) := by
      rw [hfs, List.take_append, List.take_of_length_le (by omega)]
      have : n0 - fs1.length = (n0 - fs1.length - 1) + 1 := by omega
      rw [this, List.take_succ_cons]
      simp
    rw [h1] at hle
    have := endPos_mono g 0 (fs1 ++ [(t, p)]) (fs2.take (n0 - fs1.length - 1))
    omega
  by_cases hmL : m = endPos g 0 fs
  · -- nothing is missing
    apply clean fs [] (by simp)
    · rw [hSeq, hmL, ← hL, List.take_length]
    · intro n0 h0 _; exact h0
  · have hlt : m < (layoutBufs g 0 fs).flatten.length := by rw [hL]; omega
    obtain ⟨fs1, t, p, fs2, hfs, hcase⟩ := cut_frames g fs 0 m hlt
    have hf1 : Fits g 0 fs1 := by rw [hfs, Fits_append] at hfit; exact hfit.1
    have hftp : p.length ≤ maxFrameLen g (endCursor g 0 fs1) := by
      rw [hfs, Fits_append] at hfit; exact hfit.2.1
    have hE1 : (layoutBufs g 0 fs1).flatten.length = endPos g 0 fs1 := layout0_len g fs1 hf1
    have hcur : endCursor g 0 fs1 = endPos g 0 fs1 % g.B := by
      have := endCursor_pos g fs1 0 (by rw [zero_mod]; exact hf1)
      rwa [zero_mod] at this
    -- end of the frame `(t, p)`
    have hend : endPos g 0 (fs1 ++ [(t, p)]) = hdrPos g (endPos g 0 fs1) + 7 + p.length := by
      rw [endPos_append]; rfl
    have hpad : padLen g (endCursor g 0 fs1) = hdrPos g (endPos g 0 fs1) - endPos g 0 fs1 := by
      rw [hcur, padLen_mod]
    have hhp := le_hdrPos g (endPos g 0 fs1)
    have hroom : hdrPos g (endPos g 0 fs1) % g.B + 7 + p.length ≤ g.B := by
      have := maxFrameLen_pos g (endPos g 0 fs1) p.length (by rw [← hcur]; exact hftp)
      exact this
    have htake_len : ∀ Y : Bytes, (layoutBufs g 0 fs).flatten.take m = Y → Y.length = m := by
      intro Y hY; rw [← hY, List.length_take]; omega
    rcases hcase with ⟨d, hd, he⟩ | ⟨i, hi1, hi2, he⟩ | ⟨i, hi, he⟩
    · -- in the padding or right at the frame start
      have hml := htake_len _ he
      simp only [List.length_append, length_zeros, hE1] at hml
      have hlt2 : m < endPos g 0 (fs1 ++ [(t, p)]) := by rw [hend]; omega
      apply clean fs1 ((t, p) :: fs2) hfs
      · rw [hSeq, he, List.append_assoc, ← zeros_add]
        congr 2; omega
      · exact mono_of fs1 t p fs2 hfs hlt2
    · -- inside the header
      have hml := htake_len _ he
      simp only [List.length_append, length_zeros, hE1, List.length_take, length_encodeHeader] at hml
      have hil : ((encodeHeader t p).take i).length = i := by
        rw [List.length_take, length_encodeHeader]; omega
      have hlt2 : m < endPos g 0 (fs1 ++ [(t, p)]) := by rw [hend]; omega
      by_cases hz : isAllZero ((encodeHeader t p).take i) = true
      · -- the bytes written so far are zeros: a clean end
        have hzz := isAllZero_eq_zeros _ hz
        rw [hil] at hzz
        apply clean fs1 ((t, p) :: fs2) hfs
        · rw [hSeq, he, hzz, List.append_assoc, List.append_assoc, ← zeros_add, ← zeros_add]
          congr 2; omega
        · exact mono_of fs1 t p fs2 hfs hlt2
      · have hnz : isAllZero ((encodeHeader t p).take i) = false := by
          cases h : isAllZero ((encodeHeader t p).take i) with
          | true => exact absurd h hz
          | false => rfl
        obtain ⟨kh, ch, h1, h2, h3, h4, h5⟩ := after_frames g hB F N fs1 hf1 S hSlen
          ((encodeHeader t p).take i ++ zeros (N * g.B - m))
          (by intro hnil; have := congrArg List.length hnil; simp [hil] at this; omega)
          (by rw [hSeq, he]; simp only [List.append_assoc])
        obtain ⟨e, he2⟩ := tail_hdr g F S N hSlen kh ch h1 h2 ((encodeHeader t p).take i) (by omega) hnz
          (by rw [h4, h3, hil]; congr 2; omega)
        refine ⟨fs1.length, [RdEv.corrupt (F + kh / g.K)], e, by rw [hfs]; simp, ?_, Or.inr ⟨_, rfl⟩,
          mono_of fs1 t p fs2 hfs hlt2⟩
        rw [h5, he2, hfs, tagFrom_take]
    · -- inside the payload
      have hml := htake_len _ he
      simp only [List.length_append, length_zeros, hE1, List.length_take, length_encodeHeader] at hml
      have hil : (p.take i).length = i := by rw [List.length_take]; omega
      have hmin : min i p.length = i := Nat.min_eq_left (by omega)
      rw [hmin] at hml
      have hlt2 : m < endPos g 0 (fs1 ++ [(t, p)]) := by rw [hend]; omega
      by_cases hsame : p.take i ++ zeros (p.length - i) = p
      · -- the lost bytes were zeros: the frame is complete on disk
        have hfa : fs = (fs1 ++ [(t, p)]) ++ fs2 := by rw [hfs]; simp
        apply clean (fs1 ++ [(t, p)]) fs2 hfa
        · have hendle : endPos g 0 (fs1 ++ [(t, p)]) ≤ N * g.B := by
            have hlt3 : hdrPos g (endPos g 0 fs1) < N * g.B := by omega
            have hb := block_le (by omega : 0 < g.B) (Nat.mul_mod_left N g.B) hlt3
            have hd := Nat.div_add_mod (hdrPos g (endPos g 0 fs1)) g.B
            rw [Nat.add_mul, Nat.one_mul, Nat.mul_comm] at hb
            rw [hend]; omega
          have hp : ∀ z2, p.length - i + z2 = N * g.B - m → p ++ zeros z2 = p.take i ++ zeros (N * g.B - m) := by
            intro z2 hz2
            have : p ++ zeros z2 = (p.take i ++ zeros (p.length - i)) ++ zeros z2 := by rw [hsame]
            rw [this, List.append_assoc, ← zeros_add, hz2]
          rw [hSeq, he, layoutBufs_append]
          simp only [layoutBufs, List.append_nil, List.flatten_append, frameWrites_flatten, encodeFrame,
            List.append_assoc]
          rw [hp _ (by rw [hend] at hendle ⊢; omega)]
        · intro n0 h0 hle
          simp only [List.length_append, List.length_cons, List.length_nil]
          have := mono_of fs1 t p fs2 hfs hlt2 n0 h0 hle
          omega
      · have hT := htorn fs1 t p fs2 hfs hlt2 i hi hsame
        obtain ⟨kh, ch, h1, h2, h3, h4, h5⟩ := after_frames g hB F N fs1 hf1 S hSlen
          (encodeHeader t p ++ p.take i ++ zeros (N * g.B - m))
          (by intro hnil; have := congrArg List.length hnil; simp [length_encodeHeader] at this)
          (by rw [hSeq, he]; simp only [List.append_assoc])
        have hchmod : hdrPos g (endPos g 0 fs1) % g.B = ch := by
          rw [← h3]; exact pos_mod g kh ch (by omega)
        obtain ⟨e, he2⟩ := tail_payload g hB F S N hSlen kh ch h1 t p i hi (by omega) hT
          (by rw [h4, h3]; congr 2; omega)
        refine ⟨fs1.length, [RdEv.corrupt (F + kh / g.K)], e, by rw [hfs]; simp, ?_, Or.inr ⟨_, rfl⟩,
          mono_of fs1 t p fs2 hfs hlt2⟩
        rw [h5, he2, hfs, tagFrom_take]

end MRL.H
