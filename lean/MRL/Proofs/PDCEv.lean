/-
The shape of one event (a call or a `reopen`) from a state satisfying the relaxed invariant:
its effects are an unlink-free part `A`, the unlinks `U` of its GC pass, and trailing flush/fsync
effects `S`; if it unlinks, `A` ends with `fsync(dir)`; and for every `k ≤ |U|` the log after the
event that still tracks the files `U.drop k` satisfies the relaxed invariant on the disk after `A`
and the first `k` unlinks (the in-memory counterpart of a between-unlinks crash point).
-/
import MRL.Proofs.PDCGc

namespace MRL.PDC
open MRL Codec Consts G H Torn Log Buf C05 C01J L PX PD

theorem virt_nil (l : Log) : ({ l with files := [] ++ l.files } : Log) = l := by cases l; rfl

theorem noUnl_of_none {es : List Effect} (h : ∀ f, Effect.unlink f ∉ es) : NoUnl es := by
  intro e he
  cases e with
  | unlink f => exact absurd he (h f)
  | _ => rfl

theorem NoUnl.append {a b : List Effect} (ha : NoUnl a) (hb : NoUnl b) : NoUnl (a ++ b) := by
  intro e he
  rcases List.mem_append.mp he with h | h
  · exact ha e h
  · exact hb e h

theorem noUnl_sync {s : List Effect} (h : IsSyncL s) : NoUnl s := noUnl_of_none (no_unlink_syncL h)

theorem ev_struct (g : Geom) (hB : g.B ≤ 65542) {l : Log} {J : List JE} {D : Image} (h : CInvX g l J D)
    (hw : ∀ j ∈ J, C07.WF j.e) (e : Ev) (hwe : ∀ j ∈ PX.evJ g l D e, C07.WF j.e) :
    ∃ (A : List Effect) (U : List Nat) (S : List Effect),
      evEffs g l D e = A ++ U.map Effect.unlink ++ S ∧ NoUnl A ∧ IsSyncL S ∧
      (U ≠ [] → ∃ A', A = A' ++ [Effect.fsyncDir]) ∧
      (∀ k, k ≤ U.length → ∃ Jv,
        CInvX g { evLog g l D e with files := U.drop k ++ (evLog g l D e).files } Jv
          (applyOsOps (applyOsOps D (directOps A)) ((U.take k).map OsOp.unlink)) ∧ ∀ j ∈ Jv, C07.WF j.e) := by
  cases e with
  | call c tick order =>
    have hI := h.jinv.h.inv
    have hInv' : Inv (l.step g c tick order).1 := (C05_refines g l hI c tick order).2.2
    show ∃ A U S, (l.step g c tick order).2.2 = _ ∧ _
    simp only [evLog, PX.evJ] at hwe ⊢
    have hfits : ∀ j ∈ J ++ l.stepJ g c order, C07.WF j.e := by
      intro j hj
      rcases List.mem_append.mp hj with hj | hj
      · exact hw j hj
      · exact hwe j hj
    rcases step_full2 g l hI c tick order with
      ⟨hj, hl, hsy⟩ | ⟨e, qs', sy, hewf, hre, hsy, (⟨hj, hl, heff⟩ | ⟨hj, hl, heff⟩)⟩
    · refine ⟨[], [], (l.step g c tick order).2.2, by simp, (fun _ h => by cases h), hsy,
        (fun h => absurd rfl h), ?_⟩
      intro k hk
      have hk0 : k = 0 := by simpa using hk
      subst hk0
      refine ⟨J, ?_, hw⟩
      simp only [List.drop_zero, List.take_zero, List.map_nil]
      rw [virt_nil, hl]
      exact h
    · rw [hl] at hInv'
      refine ⟨(Log.writeEntry g l e).2.1, [], sy, by rw [heff]; simp,
        noUnl_of_none (no_unlink_of_unlinked (Step.writeEntry_unlinked g l e)), hsy, (fun h => absurd rfl h), ?_⟩
      intro k hk
      have hk0 : k = 0 := by simpa using hk
      subst hk0
      refine ⟨J ++ [l.je g e], ?_, by rw [← hj]; exact hfits⟩
      simp only [List.drop_zero, List.take_zero, List.map_nil]
      rw [virt_nil, hl]
      exact cinvx_write g h e qs' hewf hre hInv'
    · have hq' : (runGc g { (Log.writeEntry g l e).1 with queues := qs' } order).1.queues = qs' :=
        runGc_queues g _ order
      rw [hl] at hInv'
      have hInv2 : Inv ({ (Log.writeEntry g l e).1 with queues := qs' } : Log) :=
        Inv.of_queues (l := (runGc g { (Log.writeEntry g l e).1 with queues := qs' } order).1) hq'.symm hInv'
      have h2 := cinvx_write g h e qs' hewf hre hInv2
      have hwf2 : ∀ j ∈ (J ++ [l.je g e]) ++ gcJ g { (Log.writeEntry g l e).1 with queues := qs' } order,
          C07.WF j.e := by
        intro j hj'
        apply hfits j
        rw [hj]
        simpa using hj'
      rcases runGc_full g { (Log.writeEntry g l e).1 with queues := qs' } order with ⟨hr1, hr2⟩ | ⟨names, hr1, hr2⟩
      · rw [hr1] at heff hl
        refine ⟨(Log.writeEntry g l e).2.1, [], sy, by rw [heff]; simp,
          noUnl_of_none (no_unlink_of_unlinked (Step.writeEntry_unlinked g l e)), hsy, (fun h => absurd rfl h), ?_⟩
        intro k hk
        have hk0 : k = 0 := by simpa using hk
        subst hk0
        refine ⟨J ++ [l.je g e], ?_, fun j hj' => hwf2 j (List.mem_append_left _ hj')⟩
        simp only [List.drop_zero, List.take_zero, List.map_nil]
        rw [virt_nil, hl]
        exact h2
      · have hr3 : (runGc g { (Log.writeEntry g l e).1 with queues := qs' } order).1 =
            { (writeTouches g { (Log.writeEntry g l e).1 with queues := qs' } names).1 with
              files := (gcFiles ((writeTouches g { (Log.writeEntry g l e).1 with queues := qs' } names).1.canDelete
                ({ (Log.writeEntry g l e).1 with queues := qs' } : Log).cur)
                (writeTouches g { (Log.writeEntry g l e).1 with queues := qs' } names).1.files).1 } := by
          rw [hr2]
        refine ⟨(Log.writeEntry g l e).2.1 ++
            (writeTouches g { (Log.writeEntry g l e).1 with queues := qs' } names).2.1 ++
            (writeTouches g { (Log.writeEntry g l e).1 with queues := qs' } names).1.persistEffects .flushAndFsync,
          (gcFiles ((writeTouches g { (Log.writeEntry g l e).1 with queues := qs' } names).1.canDelete
            ({ (Log.writeEntry g l e).1 with queues := qs' } : Log).cur)
            (writeTouches g { (Log.writeEntry g l e).1 with queues := qs' } names).1.files).2, sy, ?_, ?_, hsy, ?_, ?_⟩
        · rw [heff, hr2]; simp only [List.append_assoc]
        · exact ((noUnl_of_none (no_unlink_of_unlinked (Step.writeEntry_unlinked g l e))).append
            (noUnl_of_none (no_unlink_of_unlinked (Step.writeTouches_unlinked g names _)))).append
            (noUnl_sync (isSyncL_persist _ _))
        · intro _
          exact ⟨(Log.writeEntry g l e).2.1 ++
            (writeTouches g { (Log.writeEntry g l e).1 with queues := qs' } names).2.1 ++
            [Effect.flush, Effect.fsyncFile (writeTouches g { (Log.writeEntry g l e).1 with queues := qs' } names).1.cur],
            by simp [persistEffects]⟩
        · intro k hk
          refine ⟨(J ++ [l.je g e]) ++ gcJ g { (Log.writeEntry g l e).1 with queues := qs' } order, ?_, hwf2⟩
          have := gc_partial g h2 order names hr1 hr3 k hk
          rw [hl]
          have hD : applyOsOps D (directOps ((Log.writeEntry g l e).2.1 ++
              (writeTouches g { (Log.writeEntry g l e).1 with queues := qs' } names).2.1 ++
              (writeTouches g { (Log.writeEntry g l e).1 with queues := qs' } names).1.persistEffects .flushAndFsync)) =
              applyOsOps (applyOsOps D (directOps (Log.writeEntry g l e).2.1))
                (directOps (writeTouches g { (Log.writeEntry g l e).1 with queues := qs' } names).2.1) := by
            rw [directOps_append, applyOsOps_append, syncL_apply (isSyncL_persist _ _), directOps_append,
              applyOsOps_append]
          rw [hD]
          exact this
  | reopen policy order =>
    obtain ⟨J', lp, io, r, hpre, hrec, heff, hc0, hw0, hab, e1, e2, e3⟩ := reopen_eval g hB h hw policy order
    rw [e3] at hwe
    rw [e1, e2]
    have hwf2 : ∀ j ∈ J' ++ gcJ g lp order, C07.WF j.e := by
      intro j hj
      rcases List.mem_append.mp hj with hj | hj
      · exact hw0 j hj
      · exact hwe j hj
    have hens := ensureLen_head g hc0
    have hDA : ∀ X : List Effect, applyOsOps D (directOps (Effect.flush ::
        ([Effect.ensureLen (lp.files.headD 0) g.fileBytes] ++ X))) = applyOsOps D (directOps X) := by
      intro X
      rw [directOps_cons, directOps_append, applyOsOps_append, applyOsOps_append]
      have hfl : applyOsOps D (direct Effect.flush) = D := rfl
      rw [hfl, hens]
    rcases runGc_full g lp order with ⟨hr1, hr2⟩ | ⟨names, hr1, hr2⟩
    · rw [hr1]
      refine ⟨[Effect.flush, Effect.ensureLen (lp.files.headD 0) g.fileBytes], [], [], by simp,
        (fun e he => by simp at he; rcases he with rfl | rfl <;> rfl), (fun _ h => by cases h),
        (fun h => absurd rfl h), ?_⟩
      intro k hk
      have hk0 : k = 0 := by simpa using hk
      subst hk0
      refine ⟨J', ?_, hw0⟩
      simp only [List.drop_zero, List.take_zero, List.map_nil]
      rw [virt_nil]
      have := hDA []
      simp only [List.append_nil] at this
      show CInvX g lp J' (applyOsOps (applyOsOps D (directOps [Effect.flush, Effect.ensureLen (lp.files.headD 0) g.fileBytes])) [])
      rw [this]
      exact hc0
    · have hr3 : (runGc g lp order).1 = { (writeTouches g lp names).1 with
          files := (gcFiles ((writeTouches g lp names).1.canDelete lp.cur) (writeTouches g lp names).1.files).1 } := by
        rw [hr2]
      refine ⟨Effect.flush :: ([Effect.ensureLen (lp.files.headD 0) g.fileBytes] ++
          ((writeTouches g lp names).2.1 ++ (writeTouches g lp names).1.persistEffects .flushAndFsync)),
        (gcFiles ((writeTouches g lp names).1.canDelete lp.cur) (writeTouches g lp names).1.files).2, [], ?_, ?_,
        (fun _ h => by cases h), ?_, ?_⟩
      · rw [hr2]; simp only [List.append_assoc, List.cons_append, List.nil_append, List.append_nil]
      · intro x hx
        simp only [List.cons_append, List.nil_append, List.mem_cons] at hx
        rcases hx with rfl | rfl | hx
        · rfl
        · rfl
        · exact ((noUnl_of_none (no_unlink_of_unlinked (Step.writeTouches_unlinked g names _))).append
            (noUnl_sync (isSyncL_persist _ _))) x hx
      · intro _
        exact ⟨Effect.flush :: ([Effect.ensureLen (lp.files.headD 0) g.fileBytes] ++
          ((writeTouches g lp names).2.1 ++ [Effect.flush, Effect.fsyncFile (writeTouches g lp names).1.cur])),
          by simp [persistEffects]⟩
      · intro k hk
        refine ⟨J' ++ gcJ g lp order, ?_, hwf2⟩
        have := gc_partial g hc0 order names hr1 hr3 k hk
        rw [hDA, directOps_append, applyOsOps_append, syncL_apply (isSyncL_persist _ _)]
        exact this

end MRL.PDC
