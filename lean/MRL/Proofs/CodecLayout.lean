/-
The writer as a layout of a frame list (C07): `writeEntryBufs` produces `layoutBufs g c fs` for a
frame list `fs` that follows the First/Middle*/Last (or Full) discipline, whose payloads
concatenate to the entry, and every frame of which fits the room left in its block.
-/
import MRL.Proofs.CodecFrame

namespace MRL.Codec
open MRL Consts

/-- a frame: type and payload -/
abbrev Frm := FrameType × Bytes

/-- the buffers `write_frame` emits for a list of frames written one after the other from cursor
    `c`: each frame preceded by zero padding when fewer than `HEADER_LEN` bytes remain. -/
def layoutBufs (g : Geom) : Nat → List Frm → List Bytes
  | _, [] => []
  | c, fr :: fs => frameWrites g c fr.1 fr.2 ++ layoutBufs g (frameEndCursor g c fr.2.length) fs

/-- writer cursor after a list of frames -/
def endCursor (g : Geom) : Nat → List Frm → Nat
  | c, [] => c
  | c, fr :: fs => endCursor g (frameEndCursor g c fr.2.length) fs

/-- every frame fits `max_writable_frame_length` at its cursor -/
def Fits (g : Geom) : Nat → List Frm → Prop
  | _, [] => True
  | c, fr :: fs => fr.2.length ≤ maxFrameLen g c ∧ Fits g (frameEndCursor g c fr.2.length) fs

/-- frame-type discipline of one entry: `ofFlags isFirst isLast`, i.e. a single Full, or
    First, Middle*, Last (with `b = false`: the tail of such a sequence). Never empty. -/
def EntryFrames : Bool → List Frm → Prop
  | _, [] => False
  | b, fr :: fs => fr.1 = FrameType.ofFlags b fs.isEmpty ∧ (fs ≠ [] → EntryFrames false fs)

/-- concatenated payloads -/
def payloadOf (fs : List Frm) : Bytes := (fs.map (·.2)).flatten

@[simp] theorem payloadOf_nil : payloadOf [] = [] := rfl
@[simp] theorem payloadOf_cons (fr : Frm) (fs : List Frm) : payloadOf (fr :: fs) = fr.2 ++ payloadOf fs := by
  simp [payloadOf]
theorem payloadOf_append (a b : List Frm) : payloadOf (a ++ b) = payloadOf a ++ payloadOf b := by
  simp [payloadOf]

theorem EntryFrames.ne_nil {b : Bool} {fs : List Frm} (h : EntryFrames b fs) : fs ≠ [] := by
  cases fs with
  | nil => exact h.elim
  | cons _ _ => simp

/-- explicit shape: a single `Full`/`Last`, or `First`/`Middle` followed by a tail -/
theorem EntryFrames_single (b : Bool) (fr : Frm) :
    EntryFrames b [fr] ↔ fr.1 = FrameType.ofFlags b true := by
  simp [EntryFrames]

theorem EntryFrames_cons2 (b : Bool) (fr f2 : Frm) (fs : List Frm) :
    EntryFrames b (fr :: f2 :: fs) ↔ fr.1 = FrameType.ofFlags b false ∧ EntryFrames false (f2 :: fs) := by
  simp [EntryFrames]

/-! ### the writer produces a layout -/

theorem writeEntryBufs_layout (g : Geom) (c : Nat) (isFirst : Bool) (payload : Bytes) (hc : c < g.B) :
    ∃ fs, writeEntryBufs g c isFirst payload hc = layoutBufs g c fs ∧ EntryFrames isFirst fs ∧
      payloadOf fs = payload ∧ Fits g c fs := by
  fun_induction writeEntryBufs g c isFirst payload hc with
  | case1 c isFirst payload hc n rest bufs hr =>
    refine ⟨[(FrameType.ofFlags isFirst rest.isEmpty, payload.take n)], ?_, ?_, ?_, ?_⟩
    · simp [layoutBufs, bufs]
    · simp [EntryFrames, hr]
    · have h : payload.drop n = [] := by simpa [rest] using hr
      have := List.take_append_drop n payload
      rw [h] at this
      simpa using this
    · simp [Fits, n, Nat.min_le_left]
  | case2 c isFirst payload hc n rest bufs hr ih =>
    obtain ⟨fs, h1, h2, h3, h4⟩ := ih
    refine ⟨(FrameType.ofFlags isFirst rest.isEmpty, payload.take n) :: fs, ?_, ?_, ?_, ?_⟩
    · have hl : (payload.take n).length = n := by
        simp only [List.length_take, n]; omega
      simp only [layoutBufs, bufs, hl, h1]
    · have hne := h2.ne_nil
      refine ⟨?_, fun _ => h2⟩
      have : fs.isEmpty = false := by simpa using hne
      have hr' : rest.isEmpty = false := by simpa using hr
      simp [this, hr']
    · simp only [payloadOf_cons, h3, rest]
      exact List.take_append_drop n payload
    · refine ⟨?_, ?_⟩
      · simp only [List.length_take, n]; omega
      · have hl : (payload.take n).length = n := by
          simp only [List.length_take, n]; omega
        simpa [hl] using h4

/-! ### cursors and positions -/

theorem endCursor_lt (g : Geom) (c : Nat) (fs : List Frm) (hc : c < g.B) (hf : Fits g c fs) :
    endCursor g c fs < g.B := by
  induction fs generalizing c with
  | nil => exact hc
  | cons fr fs ih => exact ih _ (frameEndCursor_lt g c _ hc hf.1) hf.2

theorem frameWrites_pos (g : Geom) (c : Nat) (t : FrameType) (p : Bytes) (hc : c < g.B)
    (hf : p.length ≤ maxFrameLen g c) :
    ∃ j, c + totalLen (frameWrites g c t p) = j * g.B + frameEndCursor g c p.length := by
  have hB := g.hB
  have hf' : p.length ≤ if 7 ≤ g.B - c then g.B - c - 7 else g.B - 7 := hf
  unfold frameWrites frameEndCursor adv
  simp only [HEADER_LEN] at *
  by_cases h1 : g.B - c < 7
  · simp only [h1, if_true, totalLen_cons, totalLen_nil, length_zeros, length_encodeFrame]
    by_cases h2 : 0 + (7 + p.length) = g.B
    · exact ⟨2, by simp only [h2, if_true]; omega⟩
    · exact ⟨1, by simp only [h2, if_false]; omega⟩
  · simp only [h1, if_false, totalLen_cons, totalLen_nil, length_encodeFrame]
    by_cases h2 : c + (7 + p.length) = g.B
    · exact ⟨1, by simp only [h2, if_true]; omega⟩
    · exact ⟨0, by simp only [h2, if_false]; omega⟩

theorem layoutBufs_pos (g : Geom) (c : Nat) (fs : List Frm) (hc : c < g.B) (hf : Fits g c fs) :
    ∃ j, c + totalLen (layoutBufs g c fs) = j * g.B + endCursor g c fs := by
  induction fs generalizing c with
  | nil => exact ⟨0, by simp [layoutBufs, endCursor]⟩
  | cons fr fs ih =>
    obtain ⟨j1, h1⟩ := frameWrites_pos g c fr.1 fr.2 hc hf.1
    obtain ⟨j2, h2⟩ := ih _ (frameEndCursor_lt g c _ hc hf.1) hf.2
    refine ⟨j1 + j2, ?_⟩
    simp only [layoutBufs, endCursor, totalLen_append, Nat.add_mul]
    omega

theorem layoutBufs_mod (g : Geom) (c : Nat) (fs : List Frm) (hc : c < g.B) (hf : Fits g c fs) :
    (c + totalLen (layoutBufs g c fs)) % g.B = endCursor g c fs := by
  obtain ⟨j, h⟩ := layoutBufs_pos g c fs hc hf
  rw [h, Nat.add_comm, Nat.add_mul_mod_self_right, Nat.mod_eq_of_lt (endCursor_lt g c fs hc hf)]

theorem layoutBufs_append (g : Geom) (c : Nat) (a b : List Frm) :
    layoutBufs g c (a ++ b) = layoutBufs g c a ++ layoutBufs g (endCursor g c a) b := by
  induction a generalizing c with
  | nil => simp [layoutBufs, endCursor]
  | cons fr fs ih => simp [layoutBufs, endCursor, ih]

theorem Fits_append (g : Geom) (c : Nat) (a b : List Frm) :
    Fits g c (a ++ b) ↔ Fits g c a ∧ Fits g (endCursor g c a) b := by
  induction a generalizing c with
  | nil => simp [Fits, endCursor]
  | cons fr fs ih => simp [Fits, endCursor, ih, and_assoc]

theorem endCursor_append (g : Geom) (c : Nat) (a b : List Frm) :
    endCursor g c (a ++ b) = endCursor g (endCursor g c a) b := by
  induction a generalizing c with
  | nil => simp [endCursor]
  | cons fr fs ih => simp [endCursor, ih]

/-! ### counting bytes; buffers never cross a block end -/

/-- total zero padding of a layout -/
def padTotal (g : Geom) : Nat → List Frm → Nat
  | _, [] => 0
  | c, fr :: fs => (if g.B - c < HEADER_LEN then g.B - c else 0) + padTotal g (frameEndCursor g c fr.2.length) fs

theorem totalLen_layoutBufs (g : Geom) (c : Nat) (fs : List Frm) :
    totalLen (layoutBufs g c fs) = (payloadOf fs).length + HEADER_LEN * fs.length + padTotal g c fs := by
  induction fs generalizing c with
  | nil => simp [layoutBufs, padTotal]
  | cons fr fs ih =>
    simp only [layoutBufs, totalLen_append, ih, padTotal, payloadOf_cons, List.length_append,
      List.length_cons, frameWrites, HEADER_LEN]
    split <;> simp [length_encodeFrame] <;> omega

/-- buffers written sequentially from cursor `c` (`adv` = running cursor): each is non-empty and
    ends at or before the end of the block it starts in. -/
def NoCross (g : Geom) : Nat → List Bytes → Prop
  | _, [] => True
  | c, b :: bs => 0 < b.length ∧ c + b.length ≤ g.B ∧ NoCross g (adv g c b.length) bs

theorem noCross_layoutBufs (g : Geom) (c : Nat) (fs : List Frm) (hc : c < g.B) (hf : Fits g c fs) :
    NoCross g c (layoutBufs g c fs) := by
  induction fs generalizing c with
  | nil => simp [layoutBufs, NoCross]
  | cons fr fs ih =>
    have hB := g.hB
    have ih' := ih _ (frameEndCursor_lt g c _ hc hf.1) hf.2
    have hf1 := hf.1
    unfold maxFrameLen at hf1
    simp only [HEADER_LEN] at hB hf1
    by_cases h1 : g.B - c < 7
    · have hn : ¬ (7 ≤ g.B - c) := by omega
      simp only [hn, if_false] at hf1
      have hfe : frameEndCursor g c fr.2.length = adv g 0 (7 + fr.2.length) := by
        simp [frameEndCursor, HEADER_LEN, h1]
      have hadv : adv g c (g.B - c) = 0 := by unfold adv; rw [if_pos (by omega)]
      rw [hfe] at ih'
      simp only [layoutBufs, frameWrites, HEADER_LEN, h1, if_true, List.cons_append, List.nil_append,
        NoCross, length_zeros, hadv, length_encodeFrame, hfe]
      exact ⟨by omega, by omega, by omega, by omega, ih'⟩
    · have hn : 7 ≤ g.B - c := by omega
      simp only [hn, if_true] at hf1
      have hfe : frameEndCursor g c fr.2.length = adv g c (7 + fr.2.length) := by
        simp [frameEndCursor, HEADER_LEN, h1]
      rw [hfe] at ih'
      simp only [layoutBufs, frameWrites, HEADER_LEN, h1, if_false, List.cons_append, List.nil_append,
        NoCross, length_encodeFrame, hfe]
      exact ⟨by omega, by omega, ih'⟩

/-- the non-padding buffers of a layout are exactly the encoded frames -/
theorem layoutBufs_filter (g : Geom) (c : Nat) (fs : List Frm) :
    (layoutBufs g c fs).filter (fun b => !isAllZero b) = fs.map (fun fr => encodeFrame fr.1 fr.2) := by
  induction fs generalizing c with
  | nil => simp [layoutBufs]
  | cons fr fs ih =>
    simp only [layoutBufs, frameWrites, List.filter_append, ih, List.map_cons]
    split <;> simp [List.filter, isAllZero_zeros, isAllZero_encodeFrame]

/-! ### a pad followed by a layout from cursor 0 -/

theorem layoutBufs_bad (g : Geom) (c : Nat) (fr : Frm) (fs : List Frm) (h : g.B - c < 7) :
    layoutBufs g c (fr :: fs) = zeros (g.B - c) :: layoutBufs g 0 (fr :: fs) := by
  have hB := g.hB
  simp only [HEADER_LEN] at hB
  have h0 : ¬ (g.B - 0 < 7) := by omega
  simp only [layoutBufs, frameWrites, frameEndCursor, HEADER_LEN, h, h0, if_true, if_false,
    List.cons_append, List.nil_append]

end MRL.Codec
