/-
Ghost level: queues whose records all know the file they are attributed to. `GQ.toMem` forgets
the attribution except where the code keeps a handle (last record of a run of equal attributions).
The queue operations used by replay commute with `toMem`; a file is referenced by a handle iff
some record is attributed to it.
-/
import MRL.Proofs.Journal
import MRL.Proofs.JAssoc
import MRL.Proofs.QMemQueue

namespace MRL

structure GRec where
  pos : Nat
  payload : Bytes
  attr : Nat
  deriving Repr, DecidableEq

structure GQ where
  start : Nat
  recs : List GRec
  deriving Repr, DecidableEq

abbrev GQs := List (Bytes × GQ)

/-- the records with their handles: a handle on the last record of every run of equal attribution -/
def handles : List GRec → List Rec
  | [] => []
  | [r] => [⟨r.pos, r.payload, some r.attr⟩]
  | r :: r' :: rs =>
    ⟨r.pos, r.payload, if r.attr = r'.attr then none else some r.attr⟩ :: handles (r' :: rs)

theorem handles_cons_cons (r r' : GRec) (rs : List GRec) :
    handles (r :: r' :: rs) =
      ⟨r.pos, r.payload, if r.attr = r'.attr then none else some r.attr⟩ :: handles (r' :: rs) := rfl

theorem handles_length : ∀ rs : List GRec, (handles rs).length = rs.length
  | [] => rfl
  | [_] => rfl
  | r :: r' :: rs => by rw [handles_cons_cons, List.length_cons, handles_length (r' :: rs)]; rfl

theorem handles_eq_nil {rs : List GRec} : handles rs = [] ↔ rs = [] := by
  rw [← List.length_eq_zero_iff, handles_length, List.length_eq_zero_iff]

theorem handles_ne_nil_cons (r : GRec) (rs : List GRec) : handles (r :: rs) ≠ [] := by
  rw [Ne, handles_eq_nil]; simp

theorem handles_pos : ∀ rs : List GRec, (handles rs).map (·.pos) = rs.map (·.pos)
  | [] => rfl
  | [_] => rfl
  | r :: r' :: rs => by
    rw [handles_cons_cons, List.map_cons, handles_pos (r' :: rs)]; rfl

theorem handles_kv : ∀ rs : List GRec,
    (handles rs).map (fun r => (r.pos, r.payload)) = rs.map (fun r => (r.pos, r.payload))
  | [] => rfl
  | [_] => rfl
  | r :: r' :: rs => by
    rw [handles_cons_cons, List.map_cons, handles_kv (r' :: rs)]; rfl

theorem handles_getLast? : ∀ rs : List GRec,
    (handles rs).getLast? = rs.getLast?.map fun r => ⟨r.pos, r.payload, some r.attr⟩
  | [] => rfl
  | [_] => rfl
  | r :: r' :: rs => by
    rw [handles_cons_cons]
    cases hh : handles (r' :: rs) with
    | nil => exact absurd hh (handles_ne_nil_cons _ _)
    | cons a as =>
      rw [List.getLast?_cons_cons, ← hh, handles_getLast? (r' :: rs), List.getLast?_cons_cons]

theorem handles_drop : ∀ (k : Nat) (rs : List GRec), handles (rs.drop k) = (handles rs).drop k
  | 0, rs => rfl
  | k + 1, [] => rfl
  | k + 1, [_] => by simp [handles]
  | k + 1, r :: r' :: rs => by
    rw [handles_cons_cons, List.drop_succ_cons, List.drop_succ_cons, handles_drop k (r' :: rs)]

theorem dropLastHandle_cons (h : Rec) (L : List Rec) (hL : L ≠ []) (f : Nat) :
    MemQueue.dropLastHandle (h :: L) f = h :: MemQueue.dropLastHandle L f := by
  cases L with
  | nil => exact absurd rfl hL
  | cons a as =>
    unfold MemQueue.dropLastHandle
    rw [List.getLast?_cons_cons]
    cases (a :: as).getLast? with
    | none => rfl
    | some r =>
      simp only
      split
      · rw [List.dropLast_cons_cons]; rfl
      · rfl

/-- `append_record` moves the handle exactly as the ghost attribution says -/
theorem handles_append_one : ∀ (rs : List GRec) (f p : Nat) (pl : Bytes),
    MemQueue.dropLastHandle (handles rs) f ++ [⟨p, pl, some f⟩] = handles (rs ++ [⟨p, pl, f⟩])
  | [], f, p, pl => rfl
  | [r], f, p, pl => by
    simp only [handles, MemQueue.dropLastHandle, List.getLast?_singleton, List.cons_append,
      List.nil_append, Option.some.injEq]
    by_cases h : r.attr = f
    · simp [h]
    · simp [h]
  | r :: r' :: rs, f, p, pl => by
    rw [handles_cons_cons, dropLastHandle_cons _ _ (handles_ne_nil_cons _ _), List.cons_append,
      handles_append_one (r' :: rs) f p pl]
    rfl

namespace GQ

def toMem (x : GQ) : MemQueue := { start := x.start, recs := handles x.recs }

def nextPosition (x : GQ) : Nat :=
  match x.recs.getLast? with
  | some r => r.pos + 1
  | none => x.start

def withNextPosition (p : Nat) : GQ := { start := p, recs := [] }

def appendRecord (x : GQ) (file pos : Nat) (payload : Bytes) : Option GQ :=
  if pos < x.nextPosition then none
  else
    some { start := if x.start = 0 ∧ x.recs.isEmpty then pos else x.start,
           recs := x.recs ++ [{ pos := pos, payload := payload, attr := file }] }

def appendAll (x : GQ) (file : Nat) : List (Nat × Bytes) → Option GQ
  | [] => some x
  | (p, pl) :: rs => (x.appendRecord file p pl).bind fun x' => appendAll x' file rs

def truncateHead (x : GQ) (p : Nat) : GQ :=
  if x.start > p then x
  else if p + 1 ≥ x.nextPosition then { start := p + 1, recs := [] }
  else { start := p + 1, recs := x.recs.drop (x.recs.takeWhile (·.pos ≤ p)).length }

theorem toMem_nextPosition (x : GQ) : x.toMem.nextPosition = x.nextPosition := by
  unfold MemQueue.nextPosition nextPosition toMem
  simp only [handles_getLast?]
  cases x.recs.getLast? <;> rfl

theorem toMem_isEmpty (x : GQ) : x.toMem.recs.isEmpty = x.recs.isEmpty := by
  unfold toMem
  cases h : x.recs with
  | nil => rfl
  | cons r rs =>
    cases h2 : handles (r :: rs) with
    | nil => exact absurd h2 (handles_ne_nil_cons _ _)
    | cons _ _ => rfl

theorem toMem_withNextPosition (p : Nat) :
    (withNextPosition p).toMem = MemQueue.withNextPosition p := rfl

theorem toMem_appendRecord (x : GQ) (file pos : Nat) (pl : Bytes) :
    x.toMem.appendRecord file pos pl = (x.appendRecord file pos pl).map toMem := by
  unfold MemQueue.appendRecord appendRecord
  rw [toMem_nextPosition]
  split
  · rfl
  · simp only [Option.map_some, Option.some.injEq]
    have he : x.toMem.recs.isEmpty = x.recs.isEmpty := toMem_isEmpty x
    unfold toMem at he ⊢
    simp only [he, MemQueue.mk.injEq]
    exact ⟨trivial, handles_append_one _ _ _ _⟩

theorem toMem_appendAll (file : Nat) (rs : List (Nat × Bytes)) : ∀ x : GQ,
    Log.appendAll x.toMem file rs = (x.appendAll file rs).map toMem := by
  induction rs with
  | nil => intro x; rfl
  | cons r rs ih =>
    intro x
    obtain ⟨p, pl⟩ := r
    simp only [Log.appendAll, appendAll, toMem_appendRecord]
    cases x.appendRecord file p pl with
    | none => rfl
    | some x' => simp only [Option.map_some, Option.bind_some]; exact ih x'

theorem toMem_truncateHead (x : GQ) (p : Nat) :
    (x.toMem.truncateHead p).1 = (x.truncateHead p).toMem := by
  unfold MemQueue.truncateHead truncateHead
  rw [toMem_nextPosition]
  have hs : x.toMem.start = x.start := rfl
  rw [hs]
  split
  · rfl
  · split
    · rfl
    · simp only [toMem, handles_drop, MemQueue.mk.injEq, true_and]
      congr 1
      have h1 := List.takeWhile_map (f := fun r : Rec => r.pos) (p := fun n => decide (n ≤ p))
        (l := handles x.recs)
      have h2 := List.takeWhile_map (f := fun r : GRec => r.pos) (p := fun n => decide (n ≤ p))
        (l := x.recs)
      have e1 := congrArg List.length h1
      have e2 := congrArg List.length h2
      rw [List.length_map] at e1 e2
      rw [handles_pos] at e1
      exact e1.symm.trans e2

end GQ

/-! ### handles and attributions -/

/-- every handle is the attribution of a record -/
theorem handle_is_attr : ∀ (rs : List GRec) (h : Rec) (f : Nat), h ∈ handles rs → h.file = some f →
    ∃ r ∈ rs, r.attr = f
  | [], h, f, hm, _ => by cases hm
  | [r], h, f, hm, hf => by
    simp only [handles, List.mem_singleton] at hm
    subst hm
    simp only [Option.some.injEq] at hf
    exact ⟨r, by simp, hf⟩
  | r :: r' :: rs, h, f, hm, hf => by
    rw [handles_cons_cons, List.mem_cons] at hm
    rcases hm with rfl | hm
    · simp only at hf
      split at hf
      · cases hf
      · simp only [Option.some.injEq] at hf
        exact ⟨r, by simp, hf⟩
    · obtain ⟨r0, h0, h1⟩ := handle_is_attr (r' :: rs) h f hm hf
      exact ⟨r0, List.mem_cons_of_mem _ h0, h1⟩

/-- every attribution shows as a handle (on the last record of its run) -/
theorem attr_has_handle : ∀ (rs : List GRec) (r0 : GRec), r0 ∈ rs →
    ∃ h ∈ handles rs, h.file = some r0.attr
  | [], r0, hm => by cases hm
  | [r], r0, hm => by
    simp only [List.mem_singleton] at hm
    subst hm
    exact ⟨⟨r0.pos, r0.payload, some r0.attr⟩, by simp [handles], rfl⟩
  | r :: r' :: rs, r0, hm => by
    rw [handles_cons_cons]
    rcases List.mem_cons.mp hm with rfl | hm
    · by_cases he : r0.attr = r'.attr
      · obtain ⟨h, h1, h2⟩ := attr_has_handle (r' :: rs) r' (by simp)
        exact ⟨h, List.mem_cons_of_mem _ h1, by rw [h2, he]⟩
      · exact ⟨_, List.mem_cons_self, by simp [he]⟩
    · obtain ⟨h, h1, h2⟩ := attr_has_handle (r' :: rs) r0 hm
      exact ⟨h, List.mem_cons_of_mem _ h1, h2⟩

/-- **handle_iff_record**: a file is referenced by a handle of the queue iff some record is
    attributed to it -/
theorem handle_iff_record (x : GQ) (f : Nat) :
    x.toMem.refsFile f = true ↔ ∃ r ∈ x.recs, r.attr = f := by
  unfold MemQueue.refsFile GQ.toMem
  simp only [List.any_eq_true, beq_iff_eq]
  constructor
  · rintro ⟨h, hm, hf⟩
    exact handle_is_attr x.recs h f hm hf
  · rintro ⟨r, hm, hf⟩
    obtain ⟨h, h1, h2⟩ := attr_has_handle x.recs r hm
    exact ⟨h, h1, by rw [h2, hf]⟩

/-! ### ghost maps and ghost replay -/

namespace GQs

def ackPosition (gs : GQs) (name : Bytes) (next : Nat) : GQs :=
  match AL.get? gs name with
  | some q =>
    if !q.recs.isEmpty || q.nextPosition != next then AL.set gs name (GQ.withNextPosition next) else gs
  | none => AL.set gs name (GQ.withNextPosition next)

end GQs

def toMemS (gs : GQs) : MemQueues := AL.mapV GQ.toMem gs

theorem toMemS_get? (gs : GQs) (n : Bytes) : (toMemS gs).get? n = (AL.get? gs n).map GQ.toMem :=
  AL.get?_mapV _ _ _

theorem toMemS_contains (gs : GQs) (n : Bytes) : (toMemS gs).contains n = AL.contains gs n :=
  AL.contains_mapV _ _ _

theorem toMemS_set (gs : GQs) (n : Bytes) (x : GQ) : (toMemS gs).set n x.toMem = toMemS (AL.set gs n x) :=
  (AL.set_mapV _ _ _ _).symm

theorem toMemS_remove (gs : GQs) (n : Bytes) : (toMemS gs).remove n = toMemS (AL.remove gs n) :=
  (AL.remove_mapV _ _ _).symm

theorem toMemS_ackPosition (gs : GQs) (n : Bytes) (p : Nat) :
    (toMemS gs).ackPosition n p = toMemS (gs.ackPosition n p) := by
  unfold MemQueues.ackPosition GQs.ackPosition
  rw [toMemS_get?]
  cases AL.get? gs n with
  | none => exact toMemS_set gs n (GQ.withNextPosition p)
  | some x =>
    simp only [Option.map_some]
    have h1 : x.toMem.isEmpty = x.recs.isEmpty := GQ.toMem_isEmpty x
    rw [h1, GQ.toMem_nextPosition]
    split
    · exact toMemS_set gs n (GQ.withNextPosition p)
    · rfl

/-- ghost version of `replayEntry` -/
def replayEntryG (gs : GQs) (file : Nat) : Entry → Option GQs
  | .append q pos recs =>
    let gs1 := if AL.contains gs q then gs else gs.ackPosition q pos
    match AL.get? gs1 q with
    | some x => (x.appendAll file recs).map fun x' => AL.set gs1 q x'
    | none => none
  | .truncate q p =>
    match AL.get? gs q with
    | some x => some (AL.set gs q (x.truncateHead p))
    | none => some gs
  | .touch q p => some (gs.ackPosition q p)
  | .delete q _ => some (AL.remove gs q)

theorem replayEntry_toMemS (gs : GQs) (file : Nat) (e : Entry) :
    replayEntry (toMemS gs) file e = (replayEntryG gs file e).map toMemS := by
  cases e with
  | touch q p => simp only [replayEntry, replayEntryG, toMemS_ackPosition, Option.map_some]
  | delete q p => simp only [replayEntry, replayEntryG, toMemS_remove, Option.map_some]
  | truncate q p =>
    simp only [replayEntry, replayEntryG, toMemS_get?]
    cases AL.get? gs q with
    | none => rfl
    | some x =>
      simp only [Option.map_some, GQ.toMem_truncateHead, toMemS_set]
  | append q pos recs =>
    simp only [replayEntry, replayEntryG, toMemS_contains]
    have hgs1 : (if AL.contains gs q = true then toMemS gs else (toMemS gs).ackPosition q pos) =
        toMemS (if AL.contains gs q = true then gs else gs.ackPosition q pos) := by
      split
      · rfl
      · exact toMemS_ackPosition _ _ _
    rw [hgs1, toMemS_get?]
    cases AL.get? (if AL.contains gs q = true then gs else gs.ackPosition q pos) q with
    | none => rfl
    | some x =>
      simp only [Option.map_some, GQ.toMem_appendAll]
      cases x.appendAll file recs with
      | none => rfl
      | some x' => simp only [Option.map_some, toMemS_set]

/-- ghost version of `replayJ` -/
def replayJG (F : Nat) (gs : GQs) : List JE → Option GQs
  | [] => some gs
  | j :: js =>
    if j.loc < F then replayJG F gs js
    else (replayEntryG gs (max j.attr F) j.e).bind fun gs' => replayJG F gs' js

theorem replayJ_toMemS (F : Nat) (js : List JE) : ∀ gs : GQs,
    replayJ F (toMemS gs) js = (replayJG F gs js).map toMemS := by
  induction js with
  | nil => intro gs; rfl
  | cons j js ih =>
    intro gs
    simp only [replayJ, replayJG]
    split
    · exact ih gs
    · rw [replayEntry_toMemS]
      cases replayEntryG gs (max j.attr F) j.e with
      | none => rfl
      | some gs' => simp only [Option.map_some, Option.bind_some]; exact ih gs'

end MRL
