/-
Helper lemmas for C05 / C04 / C18: frame lemmas (the writer never touches `queues`), the
abstraction commutes with the association-list operations, sorted-list facts and the
`MemQueue` operations against their specification counterparts.
-/
import MRL.Spec.QueueMap

namespace MRL

/-! ### frame lemmas: the rolling writer and the GC never touch `queues` -/
namespace Log

theorem writeBuf_queues (g : Geom) (l : Log) (buf : Bytes) :
    (writeBuf g l buf).1.queues = l.queues := by
  unfold writeBuf
  split
  · rfl
  · split
    · split <;> rfl
    · rfl

theorem writeBufs_queues (g : Geom) (bufs : List Bytes) : ∀ l : Log,
    (writeBufs g l bufs).1.queues = l.queues := by
  induction bufs with
  | nil => intro l; rfl
  | cons b bs ih =>
    intro l
    simp only [writeBufs]
    rw [ih, writeBuf_queues]

theorem writeEntry_queues (g : Geom) (l : Log) (e : Entry) :
    (writeEntry g l e).1.queues = l.queues := by
  simp only [writeEntry]
  exact writeBufs_queues g _ l

theorem writeTouches_queues (g : Geom) (names : List Bytes) : ∀ l : Log,
    (writeTouches g l names).1.queues = l.queues := by
  induction names with
  | nil => intro l; rfl
  | cons n ns ih =>
    intro l
    simp only [writeTouches]
    rw [ih, writeEntry_queues]

theorem runGc_queues (g : Geom) (l : Log) (order : List Bytes) :
    (runGc g l order).1.queues = l.queues := by
  unfold runGc
  split
  · split
    · simp only []
      exact writeTouches_queues g _ l
    · rfl
  · rfl

end Log

/-! ### the abstraction commutes with the association-list operations -/

/-- the function mapped over `queues` by `Log.abs` -/
abbrev absKV (kv : Bytes × MemQueue) : Bytes × SQueue := (kv.1, kv.2.abs)

theorem Log.abs_eq (l : Log) : l.abs = l.queues.map absKV := rfl

theorem abs_any (qs : MemQueues) (n : Bytes) :
    (qs.map absKV).any (·.1 == n) = qs.contains n := by
  simp [MemQueues.contains, List.any_map, Function.comp_def]

theorem abs_set (qs : MemQueues) (n : Bytes) (q : MemQueue) :
    (qs.set n q).map absKV = Spec.set (qs.map absKV) n q.abs := by
  unfold MemQueues.set Spec.set
  rw [abs_any]
  split
  · simp only [List.map_map]
    apply List.map_congr_left
    intro kv _
    simp only [Function.comp]
    split <;> rfl
  · simp

theorem abs_remove (qs : MemQueues) (n : Bytes) :
    (qs.remove n).map absKV = Spec.remove (qs.map absKV) n := by
  unfold MemQueues.remove Spec.remove
  rw [List.filter_map]
  rfl

theorem abs_get (qs : MemQueues) (n : Bytes) :
    Spec.get? (qs.map absKV) n = (qs.get? n).map MemQueue.abs := by
  unfold MemQueues.get? Spec.get?
  induction qs with
  | nil => rfl
  | cons kv qs ih =>
    simp only [List.map_cons, List.find?_cons]
    split <;> simp_all

theorem contains_eq_isSome (qs : MemQueues) (n : Bytes) :
    qs.contains n = (qs.get? n).isSome := by
  unfold MemQueues.contains MemQueues.get?
  induction qs with
  | nil => rfl
  | cons kv qs ih =>
    simp only [List.any_cons, List.find?_cons]
    split <;> simp_all

theorem get_mem {qs : MemQueues} {n : Bytes} {q : MemQueue} (h : qs.get? n = some q) :
    (n, q) ∈ qs := by
  unfold MemQueues.get? at h
  simp only [Option.map_eq_some_iff] at h
  obtain ⟨kv, hf, rfl⟩ := h
  have h1 := List.mem_of_find?_eq_some hf
  have h2 := List.find?_some hf
  simp only [beq_iff_eq] at h2
  subst h2
  exact h1

/-! ### keys of `set` / `remove` -/

theorem set_keys (qs : MemQueues) (n : Bytes) (q : MemQueue) :
    (qs.set n q).map (·.1) =
      if qs.contains n then qs.map (·.1) else qs.map (·.1) ++ [n] := by
  unfold MemQueues.set
  split
  · simp only [List.map_map]
    apply List.map_congr_left
    intro kv _
    simp only [Function.comp]
    split
    · rename_i h; simp only [beq_iff_eq] at h; exact h.symm
    · rfl
  · simp

theorem contains_iff_mem_keys (qs : MemQueues) (n : Bytes) :
    qs.contains n = true ↔ n ∈ qs.map (·.1) := by
  simp [MemQueues.contains]

theorem set_keys_nodup (qs : MemQueues) (n : Bytes) (q : MemQueue)
    (h : (qs.map (·.1)).Nodup) : ((qs.set n q).map (·.1)).Nodup := by
  rw [set_keys]
  split
  · exact h
  · rename_i hc
    rw [contains_iff_mem_keys] at hc
    rw [List.nodup_append]
    refine ⟨h, by simp, ?_⟩
    intro a ha b hb
    simp only [List.mem_singleton] at hb
    subst hb
    intro hab; subst hab; exact hc ha

theorem mem_set {qs : MemQueues} {n : Bytes} {q : MemQueue} {kv : Bytes × MemQueue}
    (h : kv ∈ qs.set n q) : kv ∈ qs ∨ kv = (n, q) := by
  unfold MemQueues.set at h
  split at h
  · simp only [List.mem_map] at h
    obtain ⟨a, ha, rfl⟩ := h
    split
    · right; rfl
    · left; exact ha
  · simp only [List.mem_append, List.mem_singleton] at h
    exact h

theorem remove_keys_nodup (qs : MemQueues) (n : Bytes)
    (h : (qs.map (·.1)).Nodup) : ((qs.remove n).map (·.1)).Nodup := by
  unfold MemQueues.remove
  exact (List.filter_sublist.map _).nodup h

theorem mem_remove {qs : MemQueues} {n : Bytes} {kv : Bytes × MemQueue}
    (h : kv ∈ qs.remove n) : kv ∈ qs := by
  unfold MemQueues.remove at h
  exact (List.mem_filter.mp h).1

/-! ### sorted lists: `takeWhile` / `drop` are filters -/

theorem takeWhile_eq_filter_of_pairwise {α} (P : α → Bool) : ∀ (l : List α),
    l.Pairwise (fun a b => P b = true → P a = true) → l.takeWhile P = l.filter P := by
  intro l
  induction l with
  | nil => intro _; rfl
  | cons a l ih =>
    intro h
    rw [List.pairwise_cons] at h
    simp only [List.takeWhile_cons, List.filter_cons]
    split
    · rw [ih h.2]
    · rename_i hP
      symm
      rw [List.filter_eq_nil_iff]
      intro b hb hPb
      exact hP (h.1 b hb hPb)

theorem drop_takeWhile_length {α} (P : α → Bool) (l : List α) :
    l.drop (l.takeWhile P).length = l.dropWhile P := by
  induction l with
  | nil => rfl
  | cons a l ih =>
    simp only [List.takeWhile_cons, List.dropWhile_cons]
    split
    · simpa using ih
    · rfl

theorem dropWhile_eq_filter_of_pairwise {α} (P : α → Bool) : ∀ (l : List α),
    l.Pairwise (fun a b => P b = true → P a = true) →
    l.dropWhile P = l.filter (fun a => !P a) := by
  intro l
  induction l with
  | nil => intro _; rfl
  | cons a l ih =>
    intro h
    rw [List.pairwise_cons] at h
    simp only [List.dropWhile_cons, List.filter_cons]
    split
    · rename_i hP; simp only [hP, Bool.not_true, Bool.false_eq_true, if_false]; exact ih h.2
    · rename_i hP
      simp only [hP, Bool.not_false, if_true]
      congr 1
      symm
      rw [List.filter_eq_self]
      intro b hb
      cases hPb : P b
      · rfl
      · exact absurd (h.1 b hb hPb) hP

end MRL
