/-
Replay of arbitrary entries (C08, C12): `replay` over record events is a fold of `replayEntry` over
the decodable entries; it keeps the queue-map invariant whatever the entries are, and every
record it leaves in a queue comes from an `append` entry.
-/
import MRL.Props.C05
import MRL.Proofs.RecIo

namespace MRL.Rec
open MRL Consts

/-- records of a queue with the file handles erased -/
def plain (q : MemQueue) : List (Nat × Bytes) := q.recs.map fun r => (r.pos, r.payload)

/-- queue-map invariant: distinct names, every queue sorted and above its `start` -/
def QsInv (qs : MemQueues) : Prop := (qs.map (·.1)).Nodup ∧ ∀ kv ∈ qs, C05.QInv kv.2

theorem QsInv_nil : QsInv [] := ⟨List.nodup_nil, fun _ h => by cases h⟩

theorem QsInv.set {qs : MemQueues} (h : QsInv qs) (n : Bytes) {q : MemQueue} (hq : C05.QInv q) :
    QsInv (qs.set n q) := by
  refine ⟨set_keys_nodup _ _ _ h.1, ?_⟩
  intro kv hkv
  rcases mem_set hkv with h1 | h1
  · exact h.2 kv h1
  · subst h1; exact hq

theorem QsInv.remove {qs : MemQueues} (h : QsInv qs) (n : Bytes) : QsInv (qs.remove n) :=
  ⟨remove_keys_nodup _ _ h.1, fun kv hkv => h.2 kv (mem_remove hkv)⟩

theorem QsInv.get {qs : MemQueues} (h : QsInv qs) {n : Bytes} {q : MemQueue} (hg : qs.get? n = some q) :
    C05.QInv q := h.2 _ (get_mem hg)

theorem QInv_withNext (p : Nat) : C05.QInv (MemQueue.withNextPosition p) :=
  ⟨List.Pairwise.nil, fun _ h => by cases h⟩

theorem QsInv.ack {qs : MemQueues} (h : QsInv qs) (n : Bytes) (next : Nat) :
    QsInv (qs.ackPosition n next) := by
  unfold MemQueues.ackPosition
  split
  · split
    · exact h.set n (QInv_withNext next)
    · exact h
  · exact h.set n (QInv_withNext next)

/-! ### `appendRecord` / `appendAll` on arbitrary positions -/

theorem plain_appendRecord {q q' : MemQueue} {file pos : Nat} {pl : Bytes}
    (h : q.appendRecord file pos pl = some q') : plain q' = plain q ++ [(pos, pl)] := by
  unfold MemQueue.appendRecord at h
  split at h
  · cases h
  · simp only [Option.some.injEq] at h
    subst h
    simp [plain, MemQueue.dropLastHandle_map]

theorem appendRecord_ge {q q' : MemQueue} {file pos : Nat} {pl : Bytes}
    (h : q.appendRecord file pos pl = some q') : q.nextPosition ≤ pos := by
  unfold MemQueue.appendRecord at h
  split at h
  · cases h
  · omega

theorem QInv_appendRecord {q q' : MemQueue} {file pos : Nat} {pl : Bytes}
    (h : q.appendRecord file pos pl = some q') (hq : C05.QInv q) : C05.QInv q' := by
  obtain ⟨q2, h2, _, _, hs, hst⟩ :=
    MemQueue.appendRecord_spec q file pos pl hq.1 hq.2 (appendRecord_ge h)
  rw [h] at h2
  simp only [Option.some.injEq] at h2
  subst h2
  exact ⟨hs, hst⟩

theorem plain_appendAll (file : Nat) (recs : List (Nat × Bytes)) :
    ∀ (q q' : MemQueue), Log.appendAll q file recs = some q' → plain q' = plain q ++ recs := by
  induction recs with
  | nil => intro q q' h; simp only [Log.appendAll, Option.some.injEq] at h; subst h; simp
  | cons r rs ih =>
    intro q q' h
    obtain ⟨p, pl⟩ := r
    simp only [Log.appendAll] at h
    cases h1 : q.appendRecord file p pl with
    | none => rw [h1] at h; cases h
    | some q1 =>
      rw [h1] at h
      simp only [Option.bind_some] at h
      rw [ih q1 q' h, plain_appendRecord h1]
      simp

theorem QInv_appendAll (file : Nat) (recs : List (Nat × Bytes)) :
    ∀ (q q' : MemQueue), Log.appendAll q file recs = some q' → C05.QInv q → C05.QInv q' := by
  induction recs with
  | nil => intro q q' h hq; simp only [Log.appendAll, Option.some.injEq] at h; subst h; exact hq
  | cons r rs ih =>
    intro q q' h hq
    obtain ⟨p, pl⟩ := r
    simp only [Log.appendAll] at h
    cases h1 : q.appendRecord file p pl with
    | none => rw [h1] at h; cases h
    | some q1 =>
      rw [h1] at h
      simp only [Option.bind_some] at h
      exact ih q1 q' h (QInv_appendRecord h1 hq)

theorem QInv_truncateHead (q : MemQueue) (p : Nat) (hq : C05.QInv q) : C05.QInv (q.truncateHead p).1 := by
  have := MemQueue.truncateHead_spec q p hq.1 hq.2
  exact ⟨this.2.2.2.1, this.2.2.2.2⟩

/-! ### `replayEntry` keeps the invariant, whatever the entry -/

theorem QsInv_replayEntry {qs qs' : MemQueues} {file : Nat} {e : Entry}
    (h : replayEntry qs file e = some qs') (hI : QsInv qs) : QsInv qs' := by
  cases e with
  | append q pos recs =>
    simp only [replayEntry] at h
    have hI1 : QsInv (if qs.contains q then qs else qs.ackPosition q pos) := by
      split
      · exact hI
      · exact hI.ack q pos
    generalize (if qs.contains q then qs else qs.ackPosition q pos) = qs1 at h hI1
    cases hg : qs1.get? q with
    | none => rw [hg] at h; cases h
    | some mq =>
      rw [hg] at h
      simp only at h
      cases ha : Log.appendAll mq file recs with
      | none => rw [ha] at h; cases h
      | some mq' =>
        rw [ha] at h
        simp only [Option.map_some, Option.some.injEq] at h
        subst h
        exact hI1.set q (QInv_appendAll file recs mq mq' ha (hI1.get hg))
  | truncate q p =>
    simp only [replayEntry] at h
    cases hg : qs.get? q with
    | none => rw [hg] at h; simp only [Option.some.injEq] at h; subst h; exact hI
    | some mq =>
      rw [hg] at h
      simp only [Option.some.injEq] at h
      subst h
      exact hI.set q (QInv_truncateHead mq p (hI.get hg))
  | touch q p =>
    simp only [replayEntry, Option.some.injEq] at h
    subst h
    exact hI.ack q p
  | delete q p =>
    simp only [replayEntry, Option.some.injEq] at h
    subst h
    exact hI.remove q

/-! ### `replay` as a fold over the decodable entries -/

/-- fold of `replayEntry` over (file, entry) pairs -/
def replayEntries (qs : MemQueues) : List (Nat × Entry) → Option MemQueues
  | [] => some qs
  | (f, e) :: es => (replayEntry qs f e).bind fun qs' => replayEntries qs' es

/-- the entries `replay` acts on: record events that are entries and decode -/
def decoded : List RecEv → List (Nat × Entry)
  | [] => []
  | .corrupt :: evs => decoded evs
  | .entry f b :: evs =>
    match Entry.decode b with
    | none => decoded evs
    | some e => (f, e) :: decoded evs

theorem replay_eq (evs : List RecEv) : ∀ qs, replay qs evs = replayEntries qs (decoded evs) := by
  induction evs with
  | nil => intro qs; rfl
  | cons ev evs ih =>
    intro qs
    cases ev with
    | corrupt => simp only [replay, decoded]; exact ih qs
    | entry f b =>
      simp only [replay, decoded]
      cases Entry.decode b with
      | none => exact ih qs
      | some e =>
        simp only [replayEntries]
        cases replayEntry qs f e with
        | none => rfl
        | some qs' => exact ih qs'

theorem replayEntries_append (a b : List (Nat × Entry)) : ∀ qs,
    replayEntries qs (a ++ b) = (replayEntries qs a).bind fun qs' => replayEntries qs' b := by
  induction a with
  | nil => intro qs; rfl
  | cons fe a ih =>
    intro qs
    obtain ⟨f, e⟩ := fe
    simp only [List.cons_append, replayEntries]
    cases replayEntry qs f e with
    | none => rfl
    | some qs' => exact ih qs'

theorem QsInv_replayEntries (es : List (Nat × Entry)) :
    ∀ qs qs', replayEntries qs es = some qs' → QsInv qs → QsInv qs' := by
  induction es with
  | nil => intro qs qs' h hI; simp only [replayEntries, Option.some.injEq] at h; subst h; exact hI
  | cons fe es ih =>
    intro qs qs' h hI
    obtain ⟨f, e⟩ := fe
    simp only [replayEntries] at h
    cases h1 : replayEntry qs f e with
    | none => rw [h1] at h; cases h
    | some qs1 =>
      rw [h1] at h
      exact ih qs1 qs' h (QsInv_replayEntry h1 hI)

theorem QsInv_replay (evs : List RecEv) (qs qs' : MemQueues) (h : replay qs evs = some qs')
    (hI : QsInv qs) : QsInv qs' := by
  rw [replay_eq] at h
  exact QsInv_replayEntries _ qs qs' h hI

/-! ### the queues `recover` returns are a replay result -/

/-- `recoverPre` succeeded: its queues are the replay of what `assemble` made of the scan -/
theorem recoverPre_ok_replay {g : Geom} {img : Image} {policy : Policy} {fa : Option Nat}
    {l : Log} {e0 : List Effect} {io : Nat} (h : recoverPre g img policy fa = .ok (l, e0, io)) :
    ∃ b0 rest trail rdEvs e,
      blocksOf g (prepareImage g img).1 1 = (b0 :: rest, trail) ∧
      scanBlocks g fa trail b0.cost b0 0 rest = some (rdEvs, e, io) ∧
      replay [] (assemble { within := false, buf := [], attr := b0.file } rdEvs) = some l.queues := by
  rcases hb : blocksOf g (prepareImage g img).1 1 with ⟨bs, trail⟩
  cases bs with
  | nil => rw [recoverPre_nil g img policy fa trail hb] at h; cases h
  | cons b0 rest =>
    rw [recoverPre_cons g img policy fa b0 rest trail hb] at h
    split at h
    · cases h
    · cases hs : scanBlocks g fa trail b0.cost b0 0 rest with
      | none => rw [hs] at h; cases h
      | some r =>
        obtain ⟨evs, e, io1⟩ := r
        rw [hs] at h
        simp only [finishPre] at h
        cases hr : replay [] (assemble { within := false, buf := [], attr := b0.file } evs) with
        | none => rw [hr] at h; cases h
        | some qs =>
          rw [hr] at h
          simp only [Except.ok.injEq, Prod.mk.injEq] at h
          obtain ⟨h1, _, h3⟩ := h
          subst h1 h3
          exact ⟨b0, rest, trail, evs, e, rfl, hs, hr⟩

/-- `recover` succeeded: the queues of the returned log are the replay of the record events
    `assemble` delivered for the frames the scan of the (prepared) image returned -/
theorem recover_ok_replay' {g : Geom} {img : Image} {policy : Policy} {order : List Bytes}
    {fa : Option Nat} {r : Recovered} (h : recover g img policy order fa = .ok r) :
    ∃ b0 rest trail rdEvs e io,
      blocksOf g (prepareImage g img).1 1 = (b0 :: rest, trail) ∧
      scanBlocks g fa trail b0.cost b0 0 rest = some (rdEvs, e, io) ∧
      replay [] (assemble { within := false, buf := [], attr := b0.file } rdEvs) = some r.log.queues := by
  unfold recover at h
  cases hp : recoverPre g img policy fa with
  | error e => rw [hp] at h; cases h
  | ok x =>
    obtain ⟨l, e0, io⟩ := x
    rw [hp] at h
    simp only at h
    split at h
    · cases h
    · simp only [Except.ok.injEq] at h
      subst h
      obtain ⟨b0, rest, trail, evs, e, h1, h2, h3⟩ := recoverPre_ok_replay hp
      refine ⟨b0, rest, trail, evs, e, io, h1, h2, ?_⟩
      rw [h3]
      simp only [Log.runGc_queues]

theorem recover_ok_replay {g : Geom} {img : Image} {policy : Policy} {order : List Bytes}
    {fa : Option Nat} {r : Recovered} (h : recover g img policy order fa = .ok r) :
    ∃ evs : List RecEv, replay [] evs = some r.log.queues := by
  obtain ⟨b0, _, _, evs, _, _, _, _, h3⟩ := recover_ok_replay' h
  exact ⟨_, h3⟩

/-! ### every record left by a replay comes from an `append` entry -/

/-- all (queue, position, payload) triples of the `append` entries of a list of (file, entry) -/
def recordsOf : List (Nat × Entry) → List (Bytes × Nat × Bytes)
  | [] => []
  | (_, .append q _ recs) :: es => recs.map (fun r => (q, r.1, r.2)) ++ recordsOf es
  | (_, .truncate _ _) :: es => recordsOf es
  | (_, .touch _ _) :: es => recordsOf es
  | (_, .delete _ _) :: es => recordsOf es

theorem recordsOf_append (a b : List (Nat × Entry)) : recordsOf (a ++ b) = recordsOf a ++ recordsOf b := by
  induction a with
  | nil => rfl
  | cons fe a ih =>
    obtain ⟨f, e⟩ := fe
    cases e <;> simp [recordsOf, ih]

/-- every record of every queue is one of the triples `A` -/
def AllIn (A : List (Bytes × Nat × Bytes)) (qs : MemQueues) : Prop :=
  ∀ kv ∈ qs, ∀ r ∈ plain kv.2, (kv.1, r.1, r.2) ∈ A

theorem AllIn.mono {A A' : List (Bytes × Nat × Bytes)} {qs : MemQueues} (h : AllIn A qs)
    (hs : ∀ x ∈ A, x ∈ A') : AllIn A' qs :=
  fun kv hkv r hr => hs _ (h kv hkv r hr)

theorem AllIn.set {A : List (Bytes × Nat × Bytes)} {qs : MemQueues} (h : AllIn A qs) (n : Bytes)
    {q : MemQueue} (hq : ∀ r ∈ plain q, (n, r.1, r.2) ∈ A) : AllIn A (qs.set n q) := by
  intro kv hkv
  rcases mem_set hkv with h1 | h1
  · exact h kv h1
  · subst h1; exact hq

theorem AllIn.remove {A : List (Bytes × Nat × Bytes)} {qs : MemQueues} (h : AllIn A qs) (n : Bytes) :
    AllIn A (qs.remove n) :=
  fun kv hkv => h kv (mem_remove hkv)

theorem AllIn.ack {A : List (Bytes × Nat × Bytes)} {qs : MemQueues} (h : AllIn A qs) (n : Bytes)
    (next : Nat) : AllIn A (qs.ackPosition n next) := by
  unfold MemQueues.ackPosition
  split
  · split
    · exact h.set n (fun r hr => by cases hr)
    · exact h
  · exact h.set n (fun r hr => by cases hr)

/-- `truncate_head` drops a prefix of the records -/
theorem plain_truncateHead (q : MemQueue) (p : Nat) :
    ∃ k, plain (q.truncateHead p).1 = (plain q).drop k := by
  unfold MemQueue.truncateHead
  split
  · exact ⟨0, rfl⟩
  · split
    · exact ⟨(plain q).length, by simp [plain]⟩
    · exact ⟨(q.recs.takeWhile (·.pos ≤ p)).length, by simp only [plain, List.map_drop]⟩

theorem AllIn_replayEntry {A : List (Bytes × Nat × Bytes)} {qs qs' : MemQueues} {file : Nat} {e : Entry}
    (h : replayEntry qs file e = some qs') (hI : AllIn A qs) :
    AllIn (A ++ recordsOf [(file, e)]) qs' := by
  have hI' : AllIn (A ++ recordsOf [(file, e)]) qs := hI.mono (fun x hx => List.mem_append_left _ hx)
  cases e with
  | append q pos recs =>
    simp only [replayEntry] at h
    have hI1 : AllIn (A ++ recordsOf [(file, Entry.append q pos recs)])
        (if qs.contains q then qs else qs.ackPosition q pos) := by
      split
      · exact hI'
      · exact hI'.ack q pos
    generalize (if qs.contains q then qs else qs.ackPosition q pos) = qs1 at h hI1
    cases hg : qs1.get? q with
    | none => rw [hg] at h; cases h
    | some mq =>
      rw [hg] at h
      simp only at h
      cases ha : Log.appendAll mq file recs with
      | none => rw [ha] at h; cases h
      | some mq' =>
        rw [ha] at h
        simp only [Option.map_some, Option.some.injEq] at h
        subst h
        refine hI1.set q ?_
        intro r hr
        rw [plain_appendAll file recs mq mq' ha, List.mem_append] at hr
        rcases hr with hr | hr
        · exact hI1 (q, mq) (get_mem hg) r hr
        · apply List.mem_append_right
          simp only [recordsOf, List.append_nil, List.mem_map]
          exact ⟨r, hr, rfl⟩
  | truncate q p =>
    simp only [replayEntry] at h
    cases hg : qs.get? q with
    | none => rw [hg] at h; simp only [Option.some.injEq] at h; subst h; exact hI'
    | some mq =>
      rw [hg] at h
      simp only [Option.some.injEq] at h
      subst h
      refine hI'.set q ?_
      intro r hr
      obtain ⟨k, hk⟩ := plain_truncateHead mq p
      rw [hk] at hr
      exact hI' (q, mq) (get_mem hg) r (List.mem_of_mem_drop hr)
  | touch q p =>
    simp only [replayEntry, Option.some.injEq] at h
    subst h
    exact hI'.ack q p
  | delete q p =>
    simp only [replayEntry, Option.some.injEq] at h
    subst h
    exact hI'.remove q

theorem AllIn_replayEntries (es : List (Nat × Entry)) :
    ∀ (A : List (Bytes × Nat × Bytes)) (qs qs' : MemQueues), replayEntries qs es = some qs' →
      AllIn A qs → AllIn (A ++ recordsOf es) qs' := by
  induction es with
  | nil =>
    intro A qs qs' h hI
    simp only [replayEntries, Option.some.injEq] at h
    subst h
    simpa [recordsOf] using hI
  | cons fe es ih =>
    intro A qs qs' h hI
    obtain ⟨f, e⟩ := fe
    simp only [replayEntries] at h
    cases h1 : replayEntry qs f e with
    | none => rw [h1] at h; cases h
    | some qs1 =>
      rw [h1] at h
      have := ih _ qs1 qs' h (AllIn_replayEntry h1 hI)
      have hsplit : recordsOf ((f, e) :: es) = recordsOf [(f, e)] ++ recordsOf es :=
        recordsOf_append [(f, e)] es
      rw [hsplit, ← List.append_assoc]
      exact this

end MRL.Rec
