/-
Writing one entry / the GC touches on a tape of items: the new invariant (the residue, if any, is
overwritten by the first frame), and EVERY crash state of the writes — at any byte — is a `DiskX`
disk for the journal without or with the entry being written.
-/
import MRL.Proofs.LClass
import MRL.Proofs.HAtomic

namespace MRL.L
open MRL Codec Consts G H Torn Log Buf

/-- writing one entry, with explicit witnesses and crash states -/
theorem entry_extX (g : Geom) {l : Log} {D : Image} {F : Nat} {init : List Bytes} {t : Bytes} {x : Bool}
    {res : Bytes} {J : List JE} {ais lead : List AItm} {gs : List Grp}
    (h : XInvX g l D F J init t x res ais lead gs) (e : Entry) :
    ∃ init' t' x' ntf B,
      XInvX g (Log.writeEntry g l e).1 (applyOsOps D (directOps (Log.writeEntry g l e).2.1)) F
        (J ++ [l.je g e]) init' t' x' [] (ais ++ plain ntf) lead (gs ++ [(some (l.je g e), plain ntf)]) ∧
      ntf ≠ [] ∧ (init'.flatten ++ t').length = endPos g 0 (frs (ais ++ plain ntf)) ∧
      init'.flatten ++ t' = init.flatten ++ t ++ B ∧
      (TornEffs (Log.writeEntry g l e).2.1 → ∀ (w : Bool) X, CutW w D (Log.writeEntry g l e).2.1 X →
        DiskX g X F J ∨ DiskX g X F (J ++ [l.je g e])) := by
  obtain ⟨hT, hL, hresok, hais, hlead, hmap, hok⟩ := h
  have hB := G.Bpos g
  have hfb := fileBytes_pos g
  have hc : l.off % g.B < g.B := Nat.mod_lt _ (by omega)
  obtain ⟨fs, hbufs, hef, hpay, hfit⟩ := writeEntryBufs_layout g (l.off % g.B) true e.encode hc
  have hne : fs ≠ [] := hef.ne_nil
  have hPl := hT.P_length
  have hmod : (init.flatten ++ t).length % g.B = l.off % g.B := by rw [hPl, tape_mod]
  have hwe : Log.writeEntry g l e =
      ((writeBufs g l (layoutBufs g (l.off % g.B) fs)).1, (writeBufs g l (layoutBufs g (l.off % g.B) fs)).2,
        totalLen (layoutBufs g (l.off % g.B) fs)) := by
    rw [Step.writeEntry_eq]
    unfold Step.entryBufs MRL.writeEntry
    rw [hbufs]
  rw [hwe]
  have hnc := noCross_layoutBufs g _ fs hc hfit
  -- the first buffer covers the residue
  have hresb : ∀ b bs, layoutBufs g (l.off % g.B) fs = b :: bs → res.length ≤ b.length := by
    intro b bs hb
    rcases hresok with he | ⟨r1, _, r3, _⟩
    · rw [he]; simp
    · have hroom := hdrPos_room g (endPos g 0 (frs ais))
      rw [← r3, hmod] at hroom
      cases fs with
      | nil => exact absurd rfl hne
      | cons fr fs' =>
        simp only [layoutBufs, frameWrites, HEADER_LEN] at hb
        rw [if_neg (by omega)] at hb
        simp only [List.cons_append, List.nil_append, List.cons.injEq] at hb
        rw [← hb.1, length_encodeFrame]; omega
  obtain ⟨init', t', x', res1, hT', hP', hres1, hcur'⟩ :=
    writeBufs_tapeR g (layoutBufs g (l.off % g.B) fs) hT hnc hresb
  have hbne : layoutBufs g (l.off % g.B) fs ≠ [] := by
    intro hnil
    cases fs with
    | nil => exact hne rfl
    | cons fr fs' =>
      have := layout_ne_nil g (l.off % g.B) fr fs'
      rw [hnil] at this
      simp at this
  have hr1 : res1 = [] := hres1 hbne
  subst hr1
  -- the tape did not shrink
  have hmonoI : init.length ≤ init'.length := by
    have h1 := hT'.cur
    rw [hcur' hbne, hPl] at h1
    have : init.length ≤ (init.length * g.fileBytes + l.off +
        totalLen (layoutBufs g (l.off % g.B) fs).dropLast) / g.fileBytes := by
      rw [Nat.le_div_iff_mul_le hfb]; omega
    omega
  have hLL : (init.length + 1) * g.fileBytes ≤ (init'.length + 1) * g.fileBytes :=
    Nat.mul_le_mul_right _ (by omega)
  have hfit' : Fits g ((init.flatten ++ t).length % g.B) fs := by rw [hmod]; exact hfit
  obtain ⟨hL', hlen'⟩ := flay_appendJ g F _ _ _ ais hL hLL fs hne hfit'
  rw [hmod] at hL' hlen'
  rw [← hP'] at hL' hlen'
  have hlocF : F ≤ (l.je g e).loc := by
    have := nextLoc_ge g l
    have := hT.cur
    simp only [je]; omega
  have hnonempty : tagFrom g F (endPos g 0 (frs ais)) fs ≠ [] := by
    cases fs with
    | nil => exact absurd rfl hne
    | cons fr fs => simp [tagFrom]
  have hsegnew : SegOK (l.je g e, tagFrom g F (endPos g 0 (frs ais)) fs) := by
    refine ⟨by simpa [untag_tagFrom] using hef, by simpa [untag_tagFrom, je] using hpay, ?_⟩
    intro a ha
    cases fs with
    | nil => exact absurd rfl hne
    | cons fr fs' =>
      simp only [tagFrom, List.head?_cons, Option.some.injEq] at ha
      subst ha
      simp only [je]
      rw [nextLoc_tagR g hT, ← hPl]
      congr 2
      rcases hL.len with h1 | h1
      · rw [h1]
      · rw [h1, hdrPos_idem]
  have hoknew : GrpOK (some (l.je g e), plain (tagFrom g F (endPos g 0 (frs ais)) fs)) :=
    ⟨by rw [tfs_plain]; exact hsegnew, fun a ha => mem_plain ha⟩
  have hfrsN : frs (ais ++ plain (tagFrom g F (endPos g 0 (frs ais)) fs)) = frs ais ++ fs := by
    rw [frs_append, frs_plain, untag_tagFrom]
  have hxnew : XInvX g (writeBufs g l (layoutBufs g (l.off % g.B) fs)).1
      (applyOsOps D (directOps (writeBufs g l (layoutBufs g (l.off % g.B) fs)).2)) F (J ++ [l.je g e]) init' t' x' []
      (ais ++ plain (tagFrom g F (endPos g 0 (frs ais)) fs)) lead
      (gs ++ [(some (l.je g e), plain (tagFrom g F (endPos g 0 (frs ais)) fs))]) := by
    refine ⟨hT', hL', Or.inl rfl, ?_, hlead, ?_, ?_⟩
    · rw [hais, List.flatMap_append]; simp [List.append_assoc]
    · rw [liveOf_append, List.map_append, hmap, List.filter_append]
      simp [liveOf, hlocF]
    · intro s hs
      rcases List.mem_append.mp hs with hs | hs
      · exact hok s hs
      · simp only [List.mem_singleton] at hs
        subst hs
        exact hoknew
  -- the final bytes are exactly the bytes of the items
  have hPf : init'.flatten ++ t' = flatJ g 0 (ais ++ plain (tagFrom g F (endPos g 0 (frs ais)) fs)) := by
    have := hL'.bytes
    rw [hfrsN, hlen', Nat.sub_self] at this
    simpa [zeros] using this
  refine ⟨init', t', x', tagFrom g F (endPos g 0 (frs ais)) fs, (layoutBufs g (l.off % g.B) fs).flatten,
    hxnew, hnonempty, by rw [hlen', hfrsN], hP', ?_⟩
  intro htorn0 w X hX
  have htorn : TornEffs (writeBufs g l (layoutBufs g (l.off % g.B) fs)).2 := htorn0
  obtain ⟨Pm, n, res', c1, c2, c3, c4, c5, _⟩ := writeBufs_cutR g _ hT hnc hresb hX
  obtain ⟨m0, hm1, hm2, hPm0⟩ := c2
  have hPmlen : Pm.length = m0 := by rw [hPm0, List.length_take, Nat.min_eq_left hm2]
  have hctx : CutCtx g F ais fs ((init.length + 1) * g.fileBytes) (init.flatten ++ t).length res n Pm res' X
      J (J ++ [l.je g e]) := by
    refine ⟨hfrsN ▸ hL'.fits, hL.tagged, hL.jok, hL.len, hresok, ?_, c1, Nat.mul_le_mul_right _ c5, ?_,
      by omega, by rw [← hlen', hP']; omega, ?_, c3, ?_, hxnew.segs⟩
    · intro fr hfr
      obtain ⟨tt, pp⟩ := fr
      have hb := mem_layout g tt pp fs (l.off % g.B) hfr
      obtain ⟨f, off, hm⟩ := writeBufs_mem g _ l _ hb (Step.encodeFrame_ne_nil _ _)
      exact htorn tt pp f off hm
    · intro hr; rw [c4 hr]
    · rw [← hPf, hP', hPmlen]; exact hPm0
    · -- the groups when the entry is unfinished
      intro i hi jk hjk
      have hdead : GrpOK (none, plain ((tagFrom g F (endPos g 0 (frs ais)) fs).take i)) := by
        refine Or.inl ⟨fs.drop i, ?_, ?_, fun a ha => mem_plain ha⟩
        · intro hd
          have := congrArg List.length hd
          simp only [List.length_drop, List.length_nil] at this
          omega
        · show EntryFrames true (frs (plain ((tagFrom g F (endPos g 0 (frs ais)) fs).take i)) ++ fs.drop i)
          have := frs_prefix g F [] fs (endPos g 0 (frs ais)) i
          simp only [List.nil_append, frs_nil] at this
          rw [this, List.take_append_drop]; exact hef
      rcases hjk with rfl | ⟨a, r, rfl, har⟩
      · refine ⟨lead, gs ++ [(none, plain ((tagFrom g F (endPos g 0 (frs ais)) fs).take i))], ?_, hlead, ?_, ?_⟩
        · rw [hais, List.flatMap_append]; simp [List.append_assoc]
        · rw [liveOf_append, List.map_append, hmap]; simp [liveOf]
        · intro s hs
          rcases List.mem_append.mp hs with hs | hs
          · exact hok s hs
          · simp only [List.mem_singleton] at hs
            subst hs; exact hdead
      · refine ⟨lead, gs ++ [(none, plain ((tagFrom g F (endPos g 0 (frs ais)) fs).take i)), (none, [a])], ?_,
          hlead, ?_, ?_⟩
        · rw [hais, List.flatMap_append]; simp [List.append_assoc]
        · rw [liveOf_append, List.map_append, hmap]; simp [liveOf]
        · intro s hs
          rcases List.mem_append.mp hs with hs | hs
          · exact hok s hs
          · simp only [List.mem_cons, List.mem_nil_iff, or_false] at hs
            rcases hs with rfl | rfl
            · exact hdead
            · exact Or.inr ⟨a, r, rfl, har⟩
  exact hctx.classify hne

/-- the GC touches, with explicit witnesses and crash states -/
theorem touches_extX (g : Geom) (F : Nat) (lead : List AItm) (names : List Bytes) :
    ∀ (l : Log) (D : Image) (J : List JE) (init : List Bytes) (t : Bytes) (x : Bool) (res : Bytes)
      (ais : List AItm) (gs : List Grp),
    XInvX g l D F J init t x res ais lead gs →
    ∃ init' t' x' res' ais' gs',
      XInvX g (writeTouches g l names).1 (applyOsOps D (directOps (writeTouches g l names).2.1)) F
        (J ++ touchesJ g l names) init' t' x' res' ais' lead gs' ∧
      (TornEffs (writeTouches g l names).2.1 → ∀ (w : Bool) X, CutW w D (writeTouches g l names).2.1 X →
        ∃ i, i ≤ names.length ∧ DiskX g X F (J ++ (touchesJ g l names).take i)) := by
  induction names with
  | nil =>
    intro l D J init t x res ais gs h
    refine ⟨init, t, x, res, ais, gs, ?_, ?_⟩
    · simpa [writeTouches, touchesJ, directOps, applyOsOps] using h
    · intro _ w X hX
      have : X = D := by simpa [writeTouches] using hX.nil_inv
      rw [this]
      exact ⟨0, Nat.le_refl _, by simpa using h.diskX⟩
  | cons n ns ih =>
    intro l D J init t x res ais gs h
    have he : Step.touchEntry l n = .touch n (touchNext l n) := rfl
    obtain ⟨i1, t1, x1, ntf1, B1, y1, _, _, _, hcut1'⟩ := entry_extX g h (.touch n (touchNext l n))
    obtain ⟨i2, t2, x2, r2, ais2, gs2, y2, hcut2'⟩ := ih _ _ _ _ _ _ _ _ _ y1
    refine ⟨i2, t2, x2, r2, ais2, gs2, ?_, ?_⟩
    · rw [Step.writeTouches_cons, touchesJ_cons, he]
      simp only [directOps_append, applyOsOps_append]
      have : J ++ l.je g (.touch n (touchNext l n)) ::
          touchesJ g (Log.writeEntry g l (.touch n (touchNext l n))).1 ns =
          J ++ [l.je g (.touch n (touchNext l n))] ++
            touchesJ g (Log.writeEntry g l (.touch n (touchNext l n))).1 ns := by simp
      rw [this]
      exact y2
    · intro htorn w X hX
      rw [Step.writeTouches_cons, he] at htorn hX
      have hcut1 := hcut1' (fun t p f off hm => htorn t p f off (List.mem_append_left _ hm))
      have hcut2 := hcut2' (fun t p f off hm => htorn t p f off (List.mem_append_right _ hm))
      rcases CutW.of_append _ hX with hX | hX
      · rcases hcut1 w X hX with hd | hd
        · exact ⟨0, Nat.zero_le _, by simpa using hd⟩
        · exact ⟨1, by simp, by rw [touchesJ_cons]; simpa using hd⟩
      · obtain ⟨i, hi, hd⟩ := hcut2 w X hX
        refine ⟨i + 1, by simpa using hi, ?_⟩
        rw [touchesJ_cons, List.take_succ_cons]
        simpa [List.append_assoc] using hd

end MRL.L
