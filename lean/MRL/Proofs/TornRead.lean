/-
The reader over a crash image and over a resumed crash image (C02), for the two shapes a crash
image can have after the complete (raw) frames `xs`:
* clean: zeros up to where the writer resumes, then the resumed layout `ys`, then zeros;
* torn header: padding, a torn header (1..6 bytes, not all zero), zeros to the end of its block,
  then the resumed layout `ys` from the next block start, then zeros.
-/
import MRL.Proofs.TornCut

namespace MRL.Torn
open MRL Consts Codec

theorem divmod_unique (B a j c' : Nat) (h : a = j * B + c') (hc : c' < B) : j = a / B ∧ c' = a % B := by
  subst h
  constructor
  · rw [Nat.add_comm, Nat.add_mul_div_right _ _ (by omega), Nat.div_eq_of_lt hc, Nat.zero_add]
  · rw [Nat.add_comm, Nat.add_mul_mod_self_right, Nat.mod_eq_of_lt hc]

/-- the official pipeline is `readFrom` -/
theorem pipeline (g : Geom) (file : Nat) (S : Bytes) (c n : Nat) (hlen : S.length = (n + 1) * g.B) :
    ∃ b0 rest io, fileBlocks g file S 1 0 (S.length / g.B) = b0 :: rest ∧
      scanBlocks g none 1 0 b0 c rest =
        some ((readFrom g file S 0 n c).1, (readFrom g file S 0 n c).2, io) := by
  have hB : 0 < g.B := Nat.lt_trans (by decide : 0 < HEADER_LEN) g.hB
  have hn : S.length / g.B = n + 1 := by rw [hlen, Nat.mul_div_cancel _ hB]
  obtain ⟨io, hio⟩ := scanBlocks_eq_scanB g 1 0
    ⟨file, 0, S.take g.B, if 0 = 0 then 1 else 1⟩ c (fileBlocks g file (S.drop g.B) 1 (0 + 1) n)
  exact ⟨_, _, io, by rw [hn]; exact fileBlocks_succ g file S 0 n, hio⟩

/-- a layout of raw frames then zeros: one event per frame, end where the writer would go on -/
theorem readFrom_raw_end (g : Geom) (hB : g.B ≤ 65542) (f : Nat) (xs : List Raw) (T0 : Bytes) (k n c z : Nat)
    (hc : c < g.B) (hf : FitsRaw g c xs) (hlen : T0.length = (n + 1) * g.B)
    (hT : T0.drop c = (rawLayout g c xs).flatten ++ zeros z) (hz : 7 ≤ z) :
    ∃ e, readFrom g f T0 k n c = (tagEvs f (xs.map Raw.ev), e) ∧ e.file = f ∧
      e.idx * g.B + e.cursor = finalPos g (k * g.B + c + (rawLayout g c xs).flatten.length) := by
  obtain ⟨j, n', c', h1, h2, h3, h4, h5, h6⟩ :=
    readFrom_raw g hB f xs T0 k n c (zeros z) hc hf hlen hT (by simp; omega)
  have hz' := readFrom_zeros g f (T0.drop (j * g.B)) (k + j) n' c' z h2 h5 h4 hz
  obtain ⟨p1, p2⟩ := endpos_zeros g f (k + j) c' h2
  refine ⟨_, ?_, p2, ?_⟩
  · rw [h6, hz']; simp
  · rw [p1, ← h3, totalLen_eq]

/-- from the cursor where a layout ends to the cursor where the next frame's header goes:
    skip the padding, if any -/
theorem norm_cursor (g : Geom) (f : Nat) (T1 : Bytes) (kk n' c' : Nat) (R : Bytes) (hc : c' < g.B)
    (hlen : T1.length = (n' + 1) * g.B) (hT : T1.drop c' = zeros (padLen g c') ++ R) (hR : 7 ≤ R.length) :
    ∃ T2 jj n2 ch, 7 ≤ g.B - ch ∧ ch < g.B ∧ T2.drop ch = R ∧ T2.length = (n2 + 1) * g.B ∧
      readFrom g f T1 kk n' c' = readFrom g f T2 (kk + jj) n2 ch ∧
      kk * g.B + c' + padLen g c' = (kk + jj) * g.B + ch := by
  have hB7 := g.hB
  simp only [HEADER_LEN] at hB7
  by_cases h7 : 7 ≤ g.B - c'
  · have hp : padLen g c' = 0 := by simp [padLen, HEADER_LEN]; omega
    rw [hp] at hT ⊢
    exact ⟨T1, 0, n', c', h7, hc, by simpa [zeros] using hT, hlen, rfl, by simp⟩
  · have hp : padLen g c' = g.B - c' := by simp [padLen, HEADER_LEN]; omega
    rw [hp] at hT ⊢
    have hl : T1.length - c' = g.B - c' + R.length := by
      have := congrArg List.length hT
      simpa using this
    cases n' with
    | zero => simp at hlen; omega
    | succ n2 =>
      refine ⟨T1.drop g.B, 1, n2, 0, by omega, by omega, ?_, ?_, readFrom_skip g f T1 kk n2 c' (by omega), ?_⟩
      · have : g.B = c' + (g.B - c') := by omega
        rw [List.drop_zero]
        conv => lhs; rw [this, ← List.drop_drop, hT, List.drop_left' (length_zeros _)]
      · rw [List.length_drop, hlen, Nat.add_mul (n2 + 1) 1, Nat.one_mul]; omega
      · rw [Nat.add_mul, Nat.one_mul]; omega

theorem padLen_le (g : Geom) (c : Nat) : padLen g c ≤ 6 := by
  unfold padLen; simp only [HEADER_LEN]; split <;> omega

/-- **clean shape.** `S` from cursor `c`: the raw frames `xs`, zeros up to the next header
    position, the raw frames `ys` laid out from there, zeros. -/
theorem clean_read (g : Geom) (hB : g.B ≤ 65542) (f : Nat) (xs ys : List Raw) (S : Bytes) (n c z2 : Nat)
    (hc : c < g.B) (hlen : S.length = (n + 1) * g.B) (hfx : FitsRaw g c xs)
    (hfy : FitsRaw g ((c + (rawLayout g c xs).flatten.length +
      padLen g ((c + (rawLayout g c xs).flatten.length) % g.B)) % g.B) ys)
    (hS : S.drop c = (rawLayout g c xs).flatten ++
      (zeros (padLen g ((c + (rawLayout g c xs).flatten.length) % g.B)) ++
        ((rawLayout g ((c + (rawLayout g c xs).flatten.length +
            padLen g ((c + (rawLayout g c xs).flatten.length) % g.B)) % g.B) ys).flatten ++ zeros z2)))
    (hz : 7 ≤ z2) :
    ∃ e, readFrom g f S 0 n c = (tagEvs f (xs.map Raw.ev) ++ tagEvs f (ys.map Raw.ev), e) ∧ e.file = f ∧
      e.idx * g.B + e.cursor =
        finalPos g (c + (rawLayout g c xs).flatten.length +
          padLen g ((c + (rawLayout g c xs).flatten.length) % g.B) +
          (rawLayout g ((c + (rawLayout g c xs).flatten.length +
            padLen g ((c + (rawLayout g c xs).flatten.length) % g.B)) % g.B) ys).flatten.length) := by
  obtain ⟨j, n', c', h1, h2, h3, h4, h5, h6⟩ :=
    readFrom_raw g hB f xs S 0 n c _ hc hfx hlen hS (by simp; omega)
  rw [← totalLen_eq] at hS hfy ⊢
  have hW : c + totalLen (rawLayout g c xs) = j * g.B + c' := by simpa using h3
  obtain ⟨_, hcm⟩ := divmod_unique g.B _ j c' hW h2
  rw [← totalLen_eq, ← hcm] at h4
  rw [← hcm] at hfy ⊢
  obtain ⟨T2, jj, n2, ch, g1, g2, g3, g4, g5, g6⟩ :=
    norm_cursor g f (S.drop (j * g.B)) (0 + j) n' c' _ h2 h5 h4 (by simp; omega)
  have hE : c + totalLen (rawLayout g c xs) + padLen g c' = (0 + j + jj) * g.B + ch := by
    rw [hW]; simpa using g6
  obtain ⟨_, hch⟩ := divmod_unique g.B _ _ ch hE g2
  rw [← hch] at hfy ⊢
  rw [← hch] at g3
  obtain ⟨e, e1, e2, e3⟩ := readFrom_raw_end g hB f ys T2 (0 + j + jj) n2 ch z2 g2 hfy g4 g3 hz
  refine ⟨e, ?_, e2, ?_⟩
  · rw [h6, g5, e1]
  · rw [e3, hE]

/-- **torn-header shape.** `S` from cursor `c`: the raw frames `xs`, the padding, a torn header
    `hd` at offset `H`, zeros to the end of its block, the raw frames `ys` from the next block
    start, zeros. -/
theorem torn_read (g : Geom) (hB : g.B ≤ 65542) (f : Nat) (xs ys : List Raw) (S : Bytes) (n c z2 : Nat)
    (hd : Bytes) (hc : c < g.B) (hlen : S.length = (n + 1) * g.B) (hfx : FitsRaw g c xs)
    (hfy : FitsRaw g 0 ys) (hl : hd.length ≤ 6) (hnz : isAllZero hd = false)
    (hS : S.drop c = (rawLayout g c xs).flatten ++
      (zeros (padLen g ((c + (rawLayout g c xs).flatten.length) % g.B)) ++
        (hd ++ (zeros (g.B - (c + (rawLayout g c xs).flatten.length +
            padLen g ((c + (rawLayout g c xs).flatten.length) % g.B)) % g.B - hd.length) ++
          ((rawLayout g 0 ys).flatten ++ zeros z2)))))
    (hz : 7 ≤ z2) :
    ∃ e, readFrom g f S 0 n c =
        (tagEvs f (xs.map Raw.ev) ++ RdEv.corrupt f :: tagEvs f (ys.map Raw.ev), e) ∧ e.file = f ∧
      e.idx * g.B + e.cursor =
        finalPos g (c + (rawLayout g c xs).flatten.length +
          padLen g ((c + (rawLayout g c xs).flatten.length) % g.B) +
          (g.B - (c + (rawLayout g c xs).flatten.length +
            padLen g ((c + (rawLayout g c xs).flatten.length) % g.B)) % g.B) +
          (rawLayout g 0 ys).flatten.length) ∧
      (c + (rawLayout g c xs).flatten.length +
          padLen g ((c + (rawLayout g c xs).flatten.length) % g.B) +
          (g.B - (c + (rawLayout g c xs).flatten.length +
            padLen g ((c + (rawLayout g c xs).flatten.length) % g.B)) % g.B)) % g.B = 0 := by
  have hB7 := g.hB
  simp only [HEADER_LEN] at hB7
  obtain ⟨j, n', c', h1, h2, h3, h4, h5, h6⟩ :=
    readFrom_raw g hB f xs S 0 n c _ hc hfx hlen hS (by simp; omega)
  rw [← totalLen_eq] at hS ⊢
  have hW : c + totalLen (rawLayout g c xs) = j * g.B + c' := by simpa using h3
  obtain ⟨_, hcm⟩ := divmod_unique g.B _ j c' hW h2
  rw [← totalLen_eq, ← hcm] at h4
  rw [← hcm]
  obtain ⟨T2, jj, n2, ch, g1, g2, g3, g4, g5, g6⟩ :=
    norm_cursor g f (S.drop (j * g.B)) (0 + j) n' c' _ h2 h5 h4 (by simp; omega)
  have hE : c + totalLen (rawLayout g c xs) + padLen g c' = (0 + j + jj) * g.B + ch := by
    rw [hW]; simpa using g6
  obtain ⟨_, hch⟩ := divmod_unique g.B _ _ ch hE g2
  rw [← hch] at g3 ⊢
  -- the torn header, at a good cursor `ch`
  have hl2 : T2.length - ch = (hd ++ (zeros (g.B - ch - hd.length) ++ ((rawLayout g 0 ys).flatten ++ zeros z2))).length := by
    have := congrArg List.length g3
    simpa using this
  cases n2 with
  | zero => simp at g4 hl2; omega
  | succ n3 =>
    have g3' : T2.drop ch = hd ++ zeros (g.B - ch - hd.length) ++ ((rawLayout g 0 ys).flatten ++ zeros z2) := by
      rw [g3]; simp only [List.append_assoc]
    have ht := readFrom_torn g f T2 (0 + j + jj) n3 ch hd (g.B - ch - hd.length) _ g1 g3' hl (by omega) hnz
    have hlen3 : (T2.drop g.B).length = (n3 + 1) * g.B := by
      rw [List.length_drop, g4, Nat.add_mul (n3 + 1) 1, Nat.one_mul]; omega
    have hT3 : (T2.drop g.B).drop 0 = (rawLayout g 0 ys).flatten ++ zeros z2 := by
      have : g.B = ch + (g.B - ch) := by omega
      rw [List.drop_zero]
      conv => lhs; rw [this, ← List.drop_drop, g3', List.append_assoc, List.drop_append,
        List.drop_of_length_le (by omega), List.nil_append]
      exact List.drop_left' (length_zeros _)
    obtain ⟨e, e1, e2, e3⟩ := readFrom_raw_end g hB f ys (T2.drop g.B) (0 + j + jj + 1) n3 0 z2
      (by omega) hfy hlen3 hT3 hz
    have hEB : c + totalLen (rawLayout g c xs) + padLen g c' + (g.B - ch) = (0 + j + jj + 1) * g.B := by
      rw [hE, Nat.add_mul (0 + j + jj) 1, Nat.one_mul]; omega
    refine ⟨e, ?_, e2, ?_, ?_⟩
    · rw [h6, g5, ht, e1]
    · rw [e3, hEB]; simp
    · rw [hEB, Nat.mul_mod_left]

end MRL.Torn
