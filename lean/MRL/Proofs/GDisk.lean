/-
Disk images as lists of fixed-size chunks (`imgOf F cs` = files `F, F+1, …` with contents `cs`)
and the effect of the OS operations the log emits on them; the flushed disk
(`flushDisk img b` = what the OS holds once the `BufWriter` is dropped) evolves by the *direct*
(unbuffered) application of the effects.
-/
import MRL.Proofs.StepBuf
import MRL.Proofs.CodecBytes

namespace MRL.G
open MRL Codec

/-- what the OS holds once the `BufWriter` is dropped (flushed) -/
def flushDisk (img : Image) (b : BufSt) : Image := applyOsOps img b.flushOps

/-- files `F, F+1, …` with the given contents -/
def imgOf (F : Nat) : List Bytes → Image
  | [] => []
  | c :: cs => (F, c) :: imgOf (F + 1) cs

theorem imgOf_keys : ∀ (cs : List Bytes) (F : Nat), (imgOf F cs).map (·.1) = List.range' F cs.length
  | [], _ => rfl
  | c :: cs, F => by simp [imgOf, imgOf_keys cs (F + 1), List.range'_succ]

theorem imgOf_key_bounds : ∀ (cs : List Bytes) (F : Nat), ∀ kv ∈ imgOf F cs, F ≤ kv.1 ∧ kv.1 < F + cs.length
  | [], _, kv, h => by cases h
  | c :: cs, F, kv, h => by
    simp only [imgOf, List.mem_cons] at h
    rcases h with rfl | h
    · simp
    · have := imgOf_key_bounds cs (F + 1) kv h
      simp only [List.length_cons]; omega

theorem imgOf_append : ∀ (a b : List Bytes) (F : Nat), imgOf F (a ++ b) = imgOf F a ++ imgOf (F + a.length) b
  | [], b, F => by simp [imgOf]
  | c :: a, b, F => by
    simp only [List.cons_append, imgOf, List.length_cons, imgOf_append a b (F + 1)]
    congr 3; omega

theorem mapFile_notin (img : Image) (f : Nat) (fn : Bytes → Bytes) (h : ∀ kv ∈ img, kv.1 ≠ f) :
    mapFile img f fn = img := by
  unfold mapFile
  conv => rhs; rw [← List.map_id img]
  apply List.map_congr_left
  intro kv hkv
  simp [h kv hkv]

theorem mapFile_append (a b : Image) (f : Nat) (fn : Bytes → Bytes) :
    mapFile (a ++ b) f fn = mapFile a f fn ++ mapFile b f fn := by
  simp [mapFile]

/-- an operation on the content of the last file -/
theorem mapFile_last (F : Nat) (init : List Bytes) (last : Bytes) (fn : Bytes → Bytes) :
    mapFile (imgOf F (init ++ [last])) (F + init.length) fn = imgOf F (init ++ [fn last]) := by
  rw [imgOf_append, imgOf_append, mapFile_append]
  rw [mapFile_notin (imgOf F init)]
  · simp [imgOf, mapFile]
  · intro kv hkv
    have := imgOf_key_bounds init F kv hkv
    omega

theorem insertFile_end : ∀ (cs : List Bytes) (F : Nat) (c : Bytes),
    insertFile (imgOf F cs) (F + cs.length) c = imgOf F (cs ++ [c])
  | [], F, c => by simp [imgOf, insertFile]
  | x :: cs, F, c => by
    have h1 : ¬ (F + (x :: cs).length < F) := by omega
    have h2 : ¬ (F + (x :: cs).length = F) := by simp only [List.length_cons]; omega
    simp only [imgOf, insertFile, h1, h2, if_false, List.cons_append]
    have := insertFile_end cs (F + 1) c
    have e : F + 1 + cs.length = F + (x :: cs).length := by simp only [List.length_cons]; omega
    rw [e] at this
    rw [this]

theorem unlink_head (F : Nat) (c : Bytes) (cs : List Bytes) :
    applyOs (imgOf F (c :: cs)) (.unlink F) = imgOf (F + 1) cs := by
  simp only [applyOs, imgOf]
  rw [List.filter_cons]
  simp only [bne_self_eq_false, Bool.false_eq_true, if_false]
  rw [List.filter_eq_self]
  intro kv hkv
  have := imgOf_key_bounds cs (F + 1) kv hkv
  simp only [bne_iff_ne, ne_eq]
  omega

theorem unlink_prefix : ∀ (k : Nat) (cs : List Bytes) (F : Nat), k ≤ cs.length →
    applyOsOps (imgOf F cs) ((List.range' F k).map OsOp.unlink) = imgOf (F + k) (cs.drop k)
  | 0, cs, F, _ => by simp [applyOsOps]
  | k + 1, [], F, h => by simp at h
  | k + 1, c :: cs, F, h => by
    simp only [List.range'_succ, List.map_cons, applyOsOps, List.foldl_cons]
    rw [unlink_head]
    have := unlink_prefix k cs (F + 1) (by simpa using h)
    simp only [applyOsOps] at this
    rw [this, List.drop_succ_cons]
    congr 1; omega

/-! ### byte-level operations on the last file -/

theorem overwrite_tail (t : Bytes) (r : Nat) (buf : Bytes) (h : buf.length ≤ r) :
    overwrite (t ++ zeros r) t.length buf = t ++ buf ++ zeros (r - buf.length) := by
  unfold overwrite
  have h1 : ¬ (t ++ zeros r).length < t.length := by simp
  simp only [h1, if_false]
  rw [List.take_left' rfl, ← List.drop_drop, List.drop_left' rfl, drop_zeros]

theorem setLenBytes_nil (n : Nat) : setLenBytes [] n = zeros n := by
  unfold setLenBytes
  cases n with
  | zero => rfl
  | succ n => simp

theorem ensureLen_full (img : Image) (f n : Nat) (h : ∀ kv ∈ img, kv.1 = f → ¬ kv.2.length < n) :
    applyOs img (.ensureLen f n) = img := by
  simp only [applyOs, mapFile]
  conv => rhs; rw [← List.map_id img]
  apply List.map_congr_left
  intro kv hkv
  by_cases hf : kv.1 = f
  · have := h kv hkv hf
    simp only [hf, if_true, this, if_false, id]
    rw [← hf]
  · simp [hf]

/-! ### the flushed disk evolves by direct application -/

/-- a buffer state compatible with the log, as used by `C14.step_Disc` -/
def BufOK (cap : Nat) (l : Log) (b : BufSt) : Prop :=
  ∃ st, Buf.Inv cap b st ∧ (st = none ∨ st = some (l.cur, l.off))

theorem bufOK_empty (cap : Nat) (l : Log) : BufOK cap l {} := ⟨none, Buf.inv_empty cap none, .inl rfl⟩

theorem flushDisk_toOsOps (cap : Nat) (img : Image) (b : BufSt) (es : List Effect) (st st' : Buf.St)
    (hinv : Buf.Inv cap b st) (hr : Buf.run st es = some st') :
    flushDisk (applyOsOps img (toOsOps cap b es).2) (toOsOps cap b es).1 =
      applyOsOps (flushDisk img b) (Buf.directOps es) ∧ Buf.Inv cap (toOsOps cap b es).1 st' := by
  obtain ⟨h1, h2⟩ := Buf.toOsOps_ok cap es b st st' hinv hr
  exact ⟨h2 img, h1⟩

end MRL.G
