/-
The disk invariant `DInvF` and its preservation by one entry write, by the GC touches and by a
whole GC pass (`runGc`: touches, flush+fsync, unlinks).
-/
import MRL.Proofs.GSegCut

namespace MRL.G
open MRL Codec Consts Log

/-- the disk `D` holds the frames of the retained part of the journal `J`; first file `F` -/
def DInvF (g : Geom) (l : Log) (D : Image) (J : List JE) (F : Nat) : Prop :=
  ∃ init t afs, Tape g l D F init t ∧ FLay g F (init.flatten ++ t) afs ∧ Segs F J afs ∧
    CurTag afs l.cur ∧ ((init.flatten ++ t).length = endPos g 0 (untag afs) ∨ l.off < g.fileBytes)

theorem Tape.congr {g : Geom} {l l' : Log} {D : Image} {F : Nat} {init : List Bytes} {t : Bytes}
    (h : Tape g l D F init t) (hf : l'.files = l.files) (hc : l'.cur = l.cur) (ho : l'.off = l.off) :
    Tape g l' D F init t :=
  ⟨by rw [ho]; exact h.img, h.full, by rw [ho]; exact h.tlen, by rw [ho]; exact h.off_le,
    by rw [hf]; exact h.files, by rw [hc]; exact h.cur⟩

theorem DInvF.congr {g : Geom} {l l' : Log} {D : Image} {J : List JE} {F : Nat}
    (h : DInvF g l D J F) (hf : l'.files = l.files) (hc : l'.cur = l.cur) (ho : l'.off = l.off) :
    DInvF g l' D J F := by
  obtain ⟨init, t, afs, h1, h2, h3, h4, h5⟩ := h
  exact ⟨init, t, afs, h1.congr hf hc ho, h2, h3, by rw [hc]; exact h4, by rw [ho]; exact h5⟩

theorem DInvF.head {g : Geom} {l : Log} {D : Image} {J : List JE} {F : Nat} (h : DInvF g l D J F) :
    l.files.headD 0 = F := by
  obtain ⟨init, t, afs, h1, _⟩ := h
  rw [h1.files, List.range'_succ]; rfl

theorem entry_dinv (g : Geom) {l : Log} {D : Image} {J : List JE} {F : Nat} (h : DInvF g l D J F)
    (e : Entry) :
    DInvF g (Log.writeEntry g l e).1 (applyOsOps D (Buf.directOps (Log.writeEntry g l e).2.1))
      (J ++ [l.je g e]) F := by
  obtain ⟨init, t, afs, h1, h2, h3, h4, _⟩ := h
  obtain ⟨i', t', a', k1, k2, k3, k4, _, k6⟩ := entry_disk g h1 h2 h3 h4 e
  exact ⟨i', t', a', k1, k2, k3, k4, Or.inl k6⟩

theorem touches_dinv (g : Geom) (F : Nat) (names : List Bytes) : ∀ (l : Log) (D : Image) (J : List JE),
    DInvF g l D J F →
    DInvF g (writeTouches g l names).1 (applyOsOps D (Buf.directOps (writeTouches g l names).2.1))
      (J ++ touchesJ g l names) F := by
  induction names with
  | nil =>
    intro l D J h
    simpa [writeTouches, touchesJ, Buf.directOps, applyOsOps] using h
  | cons n ns ih =>
    intro l D J h
    have he : Step.touchEntry l n = .touch n (touchNext l n) := rfl
    rw [Step.writeTouches_cons, touchesJ_cons, he]
    simp only [Buf.directOps_append, Buf.applyOsOps_append]
    have h1 := entry_dinv g h (.touch n (touchNext l n))
    have h2 := ih _ _ _ h1
    rw [List.append_assoc] at h2
    exact h2

/-- `runGc` with its effects and its journal -/
theorem runGc_full (g : Geom) (l : Log) (order : List Bytes) :
    (runGc g l order = (l, [], 0) ∧ gcJ g l order = []) ∨
    (∃ names, gcJ g l order = touchesJ g l names ∧
      runGc g l order =
        ({ (writeTouches g l names).1 with
            files := (gcFiles ((writeTouches g l names).1.canDelete l.cur) (writeTouches g l names).1.files).1 },
         (writeTouches g l names).2.1 ++ (writeTouches g l names).1.persistEffects .flushAndFsync ++
           (gcFiles ((writeTouches g l names).1.canDelete l.cur) (writeTouches g l names).1.files).2.map Effect.unlink,
         (writeTouches g l names).2.2)) := by
  cases hf : l.files with
  | nil => left; constructor <;> simp [gcJ, runGc, hf]
  | cons f fs =>
    cases fs with
    | nil => left; constructor <;> simp [gcJ, runGc, hf]
    | cons f' rest =>
      by_cases hc : l.canDelete l.cur f = true
      · right
        refine ⟨if isPermOf order l.queues.emptyNames then order else l.queues.emptyNames, ?_, ?_⟩
        · simp only [gcJ, hf, hc, if_true]
        · simp only [runGc, hf, hc, if_true]
      · left; constructor <;> simp [gcJ, runGc, hf, hc]

theorem range'_split (F N : Nat) (a b : List Nat) (h : List.range' F N = a ++ b) :
    a = List.range' F a.length ∧ b = List.range' (F + a.length) b.length := by
  have hl : N = a.length + b.length := by
    have := congrArg List.length h
    simpa using this
  rw [hl, ← List.range'_append_1] at h
  have := List.append_inj h (by simp)
  exact ⟨this.1.symm, this.2.symm⟩

theorem flatMap_single {α β} (f : α → β) (l : List α) : l.flatMap (fun a => [f a]) = l.map f := by
  induction l with
  | nil => rfl
  | cons a l ih => simp [ih]

theorem applyOs_sync (img : Image) : applyOs img .sync = img := rfl

/-- a whole GC pass -/
theorem rungc_dinv (g : Geom) {l : Log} {D : Image} {J : List JE} {F : Nat} (h : DInvF g l D J F)
    (order : List Bytes) (hmono : (J ++ gcJ g l order).Pairwise (fun a b => a.loc ≤ b.loc)) :
    ∃ F', DInvF g (runGc g l order).1 (applyOsOps D (Buf.directOps (runGc g l order).2.1))
      (J ++ gcJ g l order) F' := by
  rcases runGc_full g l order with ⟨h1, h2⟩ | ⟨names, h1, h2⟩
  · rw [h1, h2, List.append_nil]
    exact ⟨F, by simpa [Buf.directOps, applyOsOps] using h⟩
  · rw [h1] at hmono ⊢
    rw [h2]
    have h3 := touches_dinv g F names l D J h
    obtain ⟨init, t, afs, k1, k2, k3, k4, k5⟩ := h3
    rcases hg : gcFiles ((writeTouches g l names).1.canDelete l.cur) (writeTouches g l names).1.files
      with ⟨rem, del⟩
    obtain ⟨hsplit, _, hne⟩ := gcFiles_spec _ _ _ _ hg
    rw [k1.files] at hsplit
    obtain ⟨hdel, hrem⟩ := range'_split _ _ _ _ hsplit
    have hremne : rem ≠ [] := hne (by rw [k1.files]; simp)
    have hlen : del.length + rem.length = init.length + 1 := by
      have := congrArg List.length hsplit
      simp only [List.length_range', List.length_append] at this
      omega
    have hk : del.length ≤ init.length := by
      have : 0 < rem.length := List.length_pos_iff.mpr hremne
      omega
    obtain ⟨afs', c1, c2, c3, c4, c5⟩ := gc_disk g k1 k2 k3 k4 hmono del.length hk
    refine ⟨F + del.length, init.drop del.length, t, afs', ?_, c2, c3, c4, ?_⟩
    · simp only
      have hrem' : rem = List.range' (F + del.length) (init.length + 1 - del.length) := by
        rw [hrem]; congr 1; omega
      have hops : applyOsOps D (Buf.directOps ((writeTouches g l names).2.1 ++
          (writeTouches g l names).1.persistEffects .flushAndFsync ++ del.map Effect.unlink)) =
          applyOsOps (applyOsOps D (Buf.directOps (writeTouches g l names).2.1))
            ((List.range' F del.length).map OsOp.unlink) := by
        rw [Buf.directOps_append, Buf.directOps_append, Buf.applyOsOps_append, Buf.applyOsOps_append]
        have hp : applyOsOps (applyOsOps D (Buf.directOps (writeTouches g l names).2.1))
            (Buf.directOps ((writeTouches g l names).1.persistEffects .flushAndFsync)) =
            applyOsOps D (Buf.directOps (writeTouches g l names).2.1) := by
          simp [persistEffects, Buf.directOps, Buf.direct, applyOsOps, applyOs_sync]
        rw [hp]
        congr 1
        conv => lhs; rw [hdel]
        simp only [Buf.directOps, List.flatMap_map, Buf.direct]
        exact flatMap_single _ _
      rw [hops, hrem']
      exact c1
    · rcases k5 with k5 | k5
      · exact Or.inl (c5 k5)
      · exact Or.inr k5

end MRL.G
