/-
Ghost queues: invariant and the effect of `appendAll` / `truncateHead` on the annotated records,
obtained from the `MemQueue` lemmas through `toMem`. Lookup after the ghost `ackPosition`.
-/
import MRL.Proofs.JGhost
import MRL.Props.C05

namespace MRL
open C05

def GInv (x : GQ) : Prop :=
  x.recs.Pairwise (fun a b => a.pos < b.pos) ∧ ∀ r ∈ x.recs, x.start ≤ r.pos

theorem ginv_iff (x : GQ) : GInv x ↔ QInv x.toMem := by
  unfold GInv QInv GQ.toMem
  have hp := handles_pos x.recs
  constructor
  · rintro ⟨h1, h2⟩
    constructor
    · have : ((handles x.recs).map (·.pos)).Pairwise (· < ·) := by
        rw [hp, List.pairwise_map]; exact h1
      rw [List.pairwise_map] at this; exact this
    · intro r hr
      have : r.pos ∈ (handles x.recs).map (·.pos) := List.mem_map_of_mem hr
      rw [hp] at this
      obtain ⟨r', hr', he⟩ := List.mem_map.mp this
      have := h2 r' hr'
      simp only at he ⊢; omega
  · rintro ⟨h1, h2⟩
    constructor
    · have : (x.recs.map (·.pos)).Pairwise (· < ·) := by
        rw [← hp, List.pairwise_map]; exact h1
      rw [List.pairwise_map] at this; exact this
    · intro r hr
      have : r.pos ∈ x.recs.map (·.pos) := List.mem_map_of_mem hr
      rw [← hp] at this
      obtain ⟨r', hr', he⟩ := List.mem_map.mp this
      have := h2 r' hr'
      simp only at he this ⊢; omega

theorem GInv_withNextPosition (p : Nat) : GInv (GQ.withNextPosition p) :=
  ⟨List.Pairwise.nil, fun _ h => by cases h⟩

theorem GQ.nextPosition_withNextPosition (p : Nat) : (GQ.withNextPosition p).nextPosition = p := rfl

theorem GQ.lt_nextPosition (x : GQ) (hx : GInv x) : ∀ r ∈ x.recs, r.pos < x.nextPosition := by
  intro r hr
  have hq := (ginv_iff x).mp hx
  have : r.pos ∈ (handles x.recs).map (·.pos) := by
    rw [handles_pos]; exact List.mem_map_of_mem hr
  obtain ⟨h, hh, he⟩ := List.mem_map.mp this
  have := MemQueue.lt_nextPosition x.toMem hq.1 h hh
  rw [GQ.toMem_nextPosition] at this
  omega

/-- the annotated record written for `(pos, payload)` attributed to `f` -/
def mkG (f : Nat) (r : Nat × Bytes) : GRec := { pos := r.1, payload := r.2, attr := f }

theorem GQ.appendAll_recs (f : Nat) (rs : List (Nat × Bytes)) : ∀ {x x' : GQ},
    x.appendAll f rs = some x' → x'.recs = x.recs ++ rs.map (mkG f) := by
  induction rs with
  | nil => intro x x' h; cases h; simp
  | cons r rs ih =>
    intro x x' h
    obtain ⟨p, pl⟩ := r
    simp only [GQ.appendAll] at h
    cases h1 : x.appendRecord f p pl with
    | none => rw [h1] at h; cases h
    | some x1 =>
      rw [h1] at h
      have := ih h
      rw [this]
      unfold GQ.appendRecord at h1
      split at h1
      · cases h1
      · cases h1; simp [mkG]

theorem GQ.appendAll_some_le {x x' : GQ} {f pos : Nat} {pl : Bytes} {pls : List Bytes}
    (h : x.appendAll f (Log.numberFrom pos (pl :: pls)) = some x') : x.nextPosition ≤ pos := by
  simp only [Log.numberFrom, GQ.appendAll] at h
  unfold GQ.appendRecord at h
  split at h
  · cases h
  · omega

theorem GQ.appendAll_succeeds {y : GQ} (hy : GInv y) {pos : Nat} (hp : y.nextPosition ≤ pos)
    (f : Nat) (pls : List Bytes) : ∃ y', y.appendAll f (Log.numberFrom pos pls) = some y' := by
  have hq := (ginv_iff y).mp hy
  obtain ⟨mq', h1, _⟩ := Log.appendAll_spec f pls y.toMem pos hq.1 hq.2
    (by rw [GQ.toMem_nextPosition]; exact hp)
  rw [GQ.toMem_appendAll] at h1
  cases h2 : y.appendAll f (Log.numberFrom pos pls) with
  | none => rw [h2] at h1; cases h1
  | some y' => exact ⟨y', rfl⟩

theorem GQ.appendAll_ok {x x' : GQ} (hx : GInv x) {f pos : Nat} {pls : List Bytes} (hne : pls ≠ [])
    (h : x.appendAll f (Log.numberFrom pos pls) = some x') :
    x'.recs = x.recs ++ (Log.numberFrom pos pls).map (mkG f) ∧
    x'.nextPosition = pos + pls.length ∧ GInv x' ∧ x.nextPosition ≤ pos := by
  have hle : x.nextPosition ≤ pos := by
    cases pls with
    | nil => exact absurd rfl hne
    | cons pl pls => exact GQ.appendAll_some_le h
  have hq := (ginv_iff x).mp hx
  obtain ⟨mq', h1, _, h3, h4, h5⟩ := Log.appendAll_spec f pls x.toMem pos hq.1 hq.2
    (by rw [GQ.toMem_nextPosition]; exact hle)
  rw [GQ.toMem_appendAll, h] at h1
  simp only [Option.map_some, Option.some.injEq] at h1
  subst h1
  refine ⟨GQ.appendAll_recs f _ h, ?_, (ginv_iff x').mpr ⟨h4, h5⟩, hle⟩
  rw [← GQ.toMem_nextPosition]; exact h3 hne

theorem GQ.truncateHead_ok {x : GQ} (hx : GInv x) (p : Nat) :
    (x.truncateHead p).recs = x.recs.filter (fun r => p < r.pos) ∧
    (x.truncateHead p).nextPosition = max x.nextPosition (p + 1) ∧ GInv (x.truncateHead p) := by
  have hq := (ginv_iff x).mp hx
  obtain ⟨_, m2, _, m4, m5⟩ := MemQueue.truncateHead_spec x.toMem p hq.1 hq.2
  rw [GQ.toMem_truncateHead] at m2 m4 m5
  refine ⟨?_, ?_, (ginv_iff _).mpr ⟨m4, m5⟩⟩
  · have hlt := GQ.lt_nextPosition x hx
    unfold GQ.truncateHead
    split
    · rename_i h
      symm; rw [List.filter_eq_self]
      intro r hr; have := hx.2 r hr; simp only [decide_eq_true_eq]; omega
    · split
      · rename_i h2
        symm; rw [List.filter_eq_nil_iff]
        intro r hr; have := hlt r hr; simp only [decide_eq_true_eq]; omega
      · have hclosed : x.recs.Pairwise
            (fun a b => (decide (b.pos ≤ p)) = true → (decide (a.pos ≤ p)) = true) := by
          refine hx.1.imp ?_
          intro a b hab; simp only [decide_eq_true_eq]; omega
        simp only
        rw [drop_takeWhile_length, dropWhile_eq_filter_of_pairwise _ _ hclosed]
        apply List.filter_congr
        intro r _
        by_cases h : r.pos ≤ p
        · have : ¬ p < r.pos := by omega
          simp [h, this]
        · have : p < r.pos := by omega
          simp [h, this]
  · rw [← GQ.toMem_nextPosition, m2, GQ.toMem_nextPosition]

/-! ### lookup after the ghost `ackPosition` -/

theorem GQs.get?_ackPosition_same (gs : GQs) (n : Bytes) (p : Nat) :
    AL.get? (gs.ackPosition n p) n = some (GQ.withNextPosition p) := by
  unfold GQs.ackPosition
  split
  · rename_i q hq
    split
    · exact AL.get?_set_same _ _ _
    · rename_i hc
      rw [hq]
      simp only [Bool.or_eq_true, Bool.not_eq_eq_eq_not, Bool.not_true, bne_iff_ne, ne_eq, not_or,
        Bool.not_eq_false, Decidable.not_not] at hc
      obtain ⟨h1, h2⟩ := hc
      congr 1
      cases q with
      | mk start recs =>
        simp only [List.isEmpty_iff] at h1
        subst h1
        simp only [GQ.nextPosition, List.getLast?_nil] at h2
        subst h2
        rfl
  · exact AL.get?_set_same _ _ _

theorem GQs.get?_ackPosition_other (gs : GQs) (n n' : Bytes) (p : Nat) (h : n' ≠ n) :
    AL.get? (gs.ackPosition n p) n' = AL.get? gs n' := by
  unfold GQs.ackPosition
  split
  · split
    · exact AL.get?_set_other _ _ _ _ h
    · rfl
  · exact AL.get?_set_other _ _ _ _ h

end MRL
