/-
C09 (replay level): the discipline of API-generated journals. Replaying the WHOLE journal from
the empty map goes through the in-memory queues of the history (`Run`), and every entry is one
the API writes in the state it is written in (`OkEntry`): an append or a truncate addresses an
existing queue, a touch is a creation (`touch q 0` of a missing queue) or a GC touch (of an empty
queue, at its next position).
-/
import MRL.Props.C01Journal

namespace MRL.Drop
open MRL Log C05

/-- the entry is one the API writes when the in-memory queues are `lq` -/
def OkEntry (lq : MemQueues) : Entry → Prop
  | .append q pos recs => (∃ z, lq.get? q = some z) ∧ ∃ pls, pls ≠ [] ∧ recs = numberFrom pos pls
  | .truncate q _ => ∃ z, lq.get? q = some z
  | .touch q n => (lq.get? q = none ∧ n = 0) ∨ (∃ z, lq.get? q = some z ∧ z.recs = [] ∧ z.nextPosition = n)
  | .delete q _ => ∃ z, lq.get? q = some z

/-- exact replay of a piece of journal on the in-memory queues, every entry `OkEntry` -/
inductive Run : MemQueues → List JE → MemQueues → Prop
  | nil {lq : MemQueues} : Run lq [] lq
  | cons {lq lq' lq'' : MemQueues} {j : JE} {js : List JE} :
      OkEntry lq j.e → replayEntry lq j.attr j.e = some lq' → Run lq' js lq'' → Run lq (j :: js) lq''

theorem Run.append {a b c : MemQueues} {js js' : List JE} (h1 : Run a js b) (h2 : Run b js' c) :
    Run a (js ++ js') c := by
  induction h1 with
  | nil => exact h2
  | cons ho hr _ ih => exact Run.cons ho hr (ih h2)

/-- the GC touches: no-ops on the in-memory queues, each `OkEntry` -/
theorem run_touches (g : Geom) (names : List Bytes) : ∀ l : Log, (l.queues.map (·.1)).Nodup →
    (∀ n ∈ names, n ∈ l.queues.emptyNames) → Run l.queues (touchesJ g l names) l.queues := by
  induction names with
  | nil => intro l _ _; exact Run.nil
  | cons n ns ih =>
    intro l hn hsub
    rw [touchesJ_cons]
    obtain ⟨q, hg, he⟩ := (mem_emptyNames hn n).mp (hsub n List.mem_cons_self)
    have hnext : touchNext l n = q.nextPosition := by simp only [touchNext, hg]
    have hq : (Log.writeEntry g l (.touch n (touchNext l n))).1.queues = l.queues := writeEntry_queues g l _
    have hrest := ih (Log.writeEntry g l (.touch n (touchNext l n))).1 (by rw [hq]; exact hn)
      (by rw [hq]; exact fun m hm => hsub m (List.mem_cons_of_mem _ hm))
    rw [hq] at hrest
    refine Run.cons (lq' := l.queues) ?_ ?_ hrest
    · exact Or.inr ⟨q, hg, he, hnext.symm⟩
    · simp only [je, replayEntry, hnext, ackPosition_noop hg he]

theorem run_gc (g : Geom) (l : Log) (order : List Bytes) (hn : (l.queues.map (·.1)).Nodup) :
    Run l.queues (gcJ g l order) l.queues := by
  rcases runGc_shape g l order hn with ⟨hj, _⟩ | ⟨names, rem, del, hj, _, _, hnames⟩
  · rw [hj]; exact Run.nil
  · rw [hj]; exact run_touches g names l hn (fun n h => (hnames n).mp h)

theorem je_inj (g : Geom) (l : Log) (e e' : Entry) (h : l.je g e = l.je g e') : e = e' := by
  have := congrArg JE.e h
  simpa [je] using this

/-- the entry a call writes is `OkEntry` in the state of the call -/
theorem step_ok (g : Geom) (l : Log) (c : Call) (order : List Bytes) (e : Entry) (rest : List JE)
    (hwf : EntryWF e) (hj : l.stepJ g c order = l.je g e :: rest) : OkEntry l.queues e := by
  cases c with
  | persist a => simp [stepJ] at hj
  | create q =>
    simp only [stepJ] at hj
    split at hj
    · cases hj
    · rename_i hc
      have he := je_inj g l _ _ (List.cons.inj hj).1
      subst he
      have hg : l.queues.get? q = none := by
        cases h : l.queues.get? q with
        | none => rfl
        | some _ => rw [MemQueues.contains_isSome, h] at hc; exact absurd rfl hc
      exact Or.inl ⟨hg, rfl⟩
  | delete q =>
    simp only [stepJ] at hj
    cases hg : l.queues.get? q with
    | none => rw [hg] at hj; cases hj
    | some mq =>
      rw [hg] at hj
      have he := je_inj g l _ _ (List.cons.inj hj).1
      subst he
      exact ⟨mq, hg⟩
  | truncate q p =>
    simp only [stepJ] at hj
    cases hg : l.queues.get? q with
    | none => rw [hg] at hj; cases hj
    | some mq =>
      rw [hg] at hj
      have he := je_inj g l _ _ (List.cons.inj hj).1
      subst he
      exact ⟨mq, hg⟩
  | append q pos? pls =>
    simp only [stepJ] at hj
    cases hg : l.queues.get? q with
    | none => rw [hg] at hj; cases hj
    | some mq =>
      rw [hg] at hj
      simp only at hj
      split at hj
      · cases hj
      · cases hj
      · split at hj
        · cases hj
        · have he := je_inj g l _ _ (List.cons.inj hj).1
          subst he
          exact ⟨⟨mq, hg⟩, hwf⟩

/-- **the journal of a history replays, entry by entry, through the in-memory queues** -/
theorem reach_run (g : Geom) {l : Log} {J : List JE} (h : C01J.Reach g l J) : Run [] J l.queues := by
  induction h with
  | init policy => exact Run.nil
  | @step l J c tick order hreach ih =>
    have hI := (C01J.reach_jinv g hreach).h.inv
    rcases step_shape g l hI c tick order with
      ⟨hj, hl⟩ | ⟨e, qs', hewf, hre, (⟨hj, hl⟩ | ⟨hj, hl⟩)⟩
    · rw [hj, hl, List.append_nil]; exact ih
    · have hok := step_ok g l c order e [] hewf hj
      rw [hj, hl]
      exact ih.append (Run.cons hok hre Run.nil)
    · have hok := step_ok g l c order e _ hewf hj
      have hInv' : Inv (l.step g c tick order).1 := (C05_refines g l hI c tick order).2.2
      rw [hl] at hInv'
      have hq' : (runGc g { (Log.writeEntry g l e).1 with queues := qs' } order).1.queues = qs' :=
        runGc_queues g _ order
      have hn : (qs'.map (·.1)).Nodup := by
        have := hInv'.1; rwa [hq'] at this
      have hgc := run_gc g { (Log.writeEntry g l e).1 with queues := qs' } order hn
      rw [hj, hl, hq']
      exact ih.append (Run.cons hok hre hgc)

end MRL.Drop
