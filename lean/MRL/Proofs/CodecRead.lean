/-
The reader over a laid-out stream (C07): `scanBlocks` over the blocks of a stream
`… ++ (layoutBufs g c fs).flatten ++ zeros z` returns exactly the frames `fs` and stops where the
writer stopped; `assemble` rebuilds the entries.
-/
import MRL.Proofs.CodecLayout
import MRL.Model.Recovery

namespace MRL.Codec
open MRL Consts

/-! ### `scanBlocks` without I/O accounting -/

/-- `scanBlocks` with no I/O failure, without the I/O counter -/
def scanB (g : Geom) : Blk → Nat → List Blk → List RdEv × EndPos
  | cur, c, rest =>
    match scanBlock g cur.data c with
    | (evs, .zeroHeader c') => (tagEvs cur.file evs, ⟨cur.file, cur.idx, c'⟩)
    | (evs, .needNext c') =>
      match rest with
      | [] => (tagEvs cur.file evs, ⟨cur.file, cur.idx, c'⟩)
      | b :: rest' =>
        let r := scanB g b 0 rest'
        (tagEvs cur.file evs ++ r.1, r.2)

theorem scanBlocks_eq_scanB (g : Geom) (trail : Nat) (io : Nat) (cur : Blk) (c : Nat) (rest : List Blk) :
    ∃ io', scanBlocks g none trail io cur c rest = some ((scanB g cur c rest).1, (scanB g cur c rest).2, io') := by
  induction rest generalizing io cur c with
  | nil =>
    unfold scanBlocks scanB
    rcases scanBlock g cur.data c with ⟨evs, e⟩
    cases e <;> simp [ioFails]
  | cons b rest ih =>
    unfold scanBlocks scanB
    rcases scanBlock g cur.data c with ⟨evs, e⟩
    cases e with
    | zeroHeader c' => simp
    | needNext c' =>
      obtain ⟨io', h⟩ := ih (io + b.cost) b 0
      simp [ioFails, h]

/-- a frame at the cursor -/
theorem scanB_frame (g : Geom) (cur : Blk) (c : Nat) (rest : List Blk) (t : FrameType) (p r : Bytes)
    (hd : cur.data.drop c = encodeFrame t p ++ r) (hfit : c + 7 + p.length ≤ g.B) (hp : p.length < 65536) :
    scanB g cur c rest =
      (RdEv.frame cur.file t p :: (scanB g cur (c + 7 + p.length) rest).1,
        (scanB g cur (c + 7 + p.length) rest).2) := by
  have hr : cur.data.drop (c + 7 + p.length) = r := by
    have : c + 7 + p.length = c + (7 + p.length) := by omega
    rw [this, ← List.drop_drop, hd, List.drop_left' (length_encodeFrame t p)]
  have h1 : scanBlock g cur.data c =
      (FrameEv.frame t p :: (scanBlock g cur.data (c + 7 + p.length)).1,
        (scanBlock g cur.data (c + 7 + p.length)).2) := by
    unfold scanBlock
    rw [hd, hr]
    exact scanBlockFrom_frame g t p r c hfit hp
  cases rest with
  | nil =>
    unfold scanB
    rw [h1]
    rcases scanBlock g cur.data (c + 7 + p.length) with ⟨evs, e⟩
    cases e <;> simp [tagEvs]
  | cons b rest =>
    unfold scanB
    rw [h1]
    rcases scanBlock g cur.data (c + 7 + p.length) with ⟨evs, e⟩
    cases e <;> simp [tagEvs]

/-- fewer than 7 bytes left in the block: the reader goes to the next block, whatever the bytes -/
theorem scanB_skip (g : Geom) (cur b : Blk) (c : Nat) (rest : List Blk) (h : g.B - c < 7) :
    scanB g cur c (b :: rest) = scanB g b 0 rest := by
  conv => lhs; unfold scanB
  simp [scanBlock, scanBlockFrom_short g _ c h, tagEvs]

/-- zeros at the cursor: end of log -/
theorem scanB_zeros (g : Geom) (cur : Blk) (c : Nat) (rest : List Blk) (m : Nat) (r : Bytes)
    (hd : cur.data.drop c = zeros m ++ r) (h : 7 ≤ g.B - c) (hm : 7 ≤ m) :
    scanB g cur c rest = ([], ⟨cur.file, cur.idx, c⟩) := by
  unfold scanB
  simp [scanBlock, hd, scanBlockFrom_zeros g m r c h hm, tagEvs]

/-! ### blocks of a stream -/

/-- where the reader ends, given the absolute end `w` of the written bytes -/
def finalPos (g : Geom) (w : Nat) : Nat :=
  if g.B - w % g.B < 7 then w + (g.B - w % g.B) else w

/-- the reader at cursor `c` of block `k`, whose content and successors are cut from `T0`
    (`n` more blocks after the current one) -/
def readFrom (g : Geom) (f : Nat) (T0 : Bytes) (k n c : Nat) : List RdEv × EndPos :=
  scanB g ⟨f, k, T0.take g.B, if k = 0 then 1 else 1⟩ c (fileBlocks g f (T0.drop g.B) 1 (k + 1) n)

theorem fileBlocks_succ (g : Geom) (f : Nat) (T : Bytes) (k n : Nat) :
    fileBlocks g f T 1 k (n + 1) =
      ⟨f, k, T.take g.B, if k = 0 then 1 else 1⟩ :: fileBlocks g f (T.drop g.B) 1 (k + 1) n := rfl

theorem mod_of_pos (g : Geom) (k c : Nat) (hc : c < g.B) : (k * g.B + c) % g.B = c := by
  rw [Nat.add_comm, Nat.add_mul_mod_self_right, Nat.mod_eq_of_lt hc]

theorem take_drop_comm (T : Bytes) (B c : Nat) :
    (T.take B).drop c = (T.drop c).take (B - c) := by
  rw [List.drop_take]

theorem finalPos_good (g : Geom) (k c : Nat) (hc : c < g.B) (h : 7 ≤ g.B - c) :
    finalPos g (k * g.B + c) = k * g.B + c := by
  simp only [finalPos, mod_of_pos g k c hc]
  rw [if_neg (by omega)]

theorem finalPos_bad (g : Geom) (k c : Nat) (hc : c < g.B) (h : g.B - c < 7) :
    finalPos g (k * g.B + c) = (k + 1) * g.B := by
  simp only [finalPos, mod_of_pos g k c hc]
  rw [if_pos h, Nat.add_mul, Nat.one_mul]
  omega

/-- moving to the next block -/
theorem readFrom_skip (g : Geom) (f : Nat) (T0 : Bytes) (k n c : Nat) (h : g.B - c < 7) :
    readFrom g f T0 k (n + 1) c = readFrom g f (T0.drop g.B) (k + 1) n 0 := by
  unfold readFrom
  rw [fileBlocks_succ, scanB_skip g _ _ c _ h]

/-- The stream read from `(k, c)` is a layout of `fs` followed by at least 7 zeros: the reader
    returns `fs` and ends at `finalPos` of the writer's end. -/
theorem readFrom_layout (g : Geom) (hB : g.B ≤ 65542) (f z : Nat) (hz : 7 ≤ z) (fs : List Frm) :
    ∀ (T0 : Bytes) (k n c : Nat), c < g.B → Fits g c fs → T0.length = (n + 1) * g.B →
      T0.drop c = (layoutBufs g c fs).flatten ++ zeros z →
      ∃ e, readFrom g f T0 k n c = (fs.map (fun fr => RdEv.frame f fr.1 fr.2), e) ∧ e.file = f ∧
        e.idx * g.B + e.cursor = finalPos g (k * g.B + c + totalLen (layoutBufs g c fs)) := by
  have hB7 := g.hB
  simp only [HEADER_LEN] at hB7
  induction fs with
  | nil =>
    -- good cursor: zero header right here
    have good : ∀ (T0 : Bytes) (k n c : Nat), c < g.B → 7 ≤ g.B - c → ∀ m, 7 ≤ m → T0.drop c = zeros m →
        ∃ e, readFrom g f T0 k n c = ([], e) ∧ e.file = f ∧ e.idx * g.B + e.cursor = finalPos g (k * g.B + c) := by
      intro T0 k n c hc h7 m hm hT
      refine ⟨⟨f, k, c⟩, ?_, rfl, ?_⟩
      · unfold readFrom
        have hd : (T0.take g.B).drop c = zeros (min (g.B - c) m) ++ [] := by
          rw [take_drop_comm, hT, take_zeros]; simp
        exact scanB_zeros g _ c _ _ [] hd h7 (by omega)
      · exact (finalPos_good g k c hc h7).symm
    intro T0 k n c hc _ hlen hT
    simp only [layoutBufs, List.flatten_nil, List.nil_append, totalLen_nil, Nat.add_zero] at hT ⊢
    by_cases h7 : 7 ≤ g.B - c
    · exact good T0 k n c hc h7 z hz hT
    · have hl : T0.length - c = z := by
        have := congrArg List.length hT
        simpa using this
      cases n with
      | zero => simp at hlen; omega
      | succ n =>
        rw [readFrom_skip g f T0 k n c (by omega)]
        have hlen2 : T0.length = n * g.B + g.B + g.B := by rw [hlen]; simp [Nat.add_mul]
        have hT2 : (T0.drop g.B).drop 0 = zeros (z - (g.B - c)) := by
          have : g.B = c + (g.B - c) := by omega
          rw [List.drop_zero]
          conv => lhs; rw [this, ← List.drop_drop, hT, drop_zeros]
        obtain ⟨e, h1, h2, h3⟩ := good (T0.drop g.B) (k + 1) n 0 (by omega) (by omega) _ (by omega) hT2
        refine ⟨e, h1, h2, ?_⟩
        rw [h3, finalPos_good g (k + 1) 0 (by omega) (by omega), finalPos_bad g k c hc (by omega)]
        omega
  | cons fr fs ih =>
    obtain ⟨t, p⟩ := fr
    -- good cursor: the frame is right here
    have good : ∀ (T0 : Bytes) (k n c : Nat), c < g.B → 7 ≤ g.B - c → Fits g c ((t, p) :: fs) →
        T0.length = (n + 1) * g.B → T0.drop c = (layoutBufs g c ((t, p) :: fs)).flatten ++ zeros z →
        ∃ e, readFrom g f T0 k n c = (RdEv.frame f t p :: fs.map (fun fr => RdEv.frame f fr.1 fr.2), e) ∧
          e.file = f ∧
          e.idx * g.B + e.cursor = finalPos g (k * g.B + c + totalLen (layoutBufs g c ((t, p) :: fs))) := by
      intro T0 k n c hc h7 hf hlen hT
      have hf1 : p.length ≤ g.B - c - 7 := by
        have := hf.1; simpa [maxFrameLen, HEADER_LEN, h7] using this
      have hfw : frameWrites g c t p = [encodeFrame t p] := by
        simp [frameWrites, HEADER_LEN]; omega
      have hfe : frameEndCursor g c p.length = adv g c (7 + p.length) := by
        simp [frameEndCursor, HEADER_LEN]; omega
      have hf2 : Fits g (adv g c (7 + p.length)) fs := by have := hf.2; rwa [hfe] at this
      simp only [layoutBufs, hfw, hfe, List.cons_append, List.nil_append, List.flatten_cons,
        totalLen_cons, length_encodeFrame, List.append_assoc] at hT ⊢
      -- the frame
      have hstep : readFrom g f T0 k n c =
          (RdEv.frame f t p :: (readFrom g f T0 k n (c + 7 + p.length)).1,
            (readFrom g f T0 k n (c + 7 + p.length)).2) := by
        unfold readFrom
        have hd : (T0.take g.B).drop c = encodeFrame t p ++
            (((layoutBufs g (adv g c (7 + p.length)) fs).flatten ++ zeros z).take (g.B - c - (7 + p.length))) := by
          rw [take_drop_comm, hT, List.take_append,
            List.take_of_length_le (by rw [length_encodeFrame]; omega), length_encodeFrame]
        exact scanB_frame g ⟨f, k, T0.take g.B, _⟩ c _ t p _ hd (by omega) (by omega)
      have hTd : T0.drop (c + 7 + p.length) = (layoutBufs g (adv g c (7 + p.length)) fs).flatten ++ zeros z := by
        have : c + 7 + p.length = c + (7 + p.length) := by omega
        rw [this, ← List.drop_drop, hT, List.drop_left' (length_encodeFrame t p)]
      by_cases hend : c + (7 + p.length) = g.B
      · -- the frame ends the block: continue at cursor 0 of the next block
        have hadv : adv g c (7 + p.length) = 0 := by simp [adv, hend]
        rw [hadv] at hTd hf2 ⊢
        have hl : T0.length - g.B = ((layoutBufs g 0 fs).flatten ++ zeros z).length := by
          have := congrArg List.length hTd
          rw [List.length_drop] at this
          rw [← this]; congr 1; omega
        cases n with
        | zero => simp at hlen hl; omega
        | succ n =>
          have hlen2 : (T0.drop g.B).length = (n + 1) * g.B := by
            rw [List.length_drop, hlen, Nat.add_mul (n + 1) 1, Nat.one_mul]; omega
          have hT2 : (T0.drop g.B).drop 0 = (layoutBufs g 0 fs).flatten ++ zeros z := by
            rw [List.drop_zero, ← hTd]; congr 1; omega
          obtain ⟨e, h1, h2, h3⟩ := ih (T0.drop g.B) (k + 1) n 0 (by omega) hf2 hlen2 hT2
          rw [← readFrom_skip g f T0 k n (c + 7 + p.length) (by omega)] at h1
          refine ⟨e, ?_, h2, ?_⟩
          · rw [hstep, h1]
          · rw [h3]; congr 1; rw [Nat.add_mul, Nat.one_mul]; omega
      · have hadv : adv g c (7 + p.length) = c + 7 + p.length := by simp [adv, hend]; omega
        rw [hadv] at hTd hf2 ⊢
        obtain ⟨e, h1, h2, h3⟩ := ih T0 k n (c + 7 + p.length) (by omega) hf2 hlen hTd
        refine ⟨e, ?_, h2, ?_⟩
        · rw [hstep, h1]
        · rw [h3]; congr 1; omega
    intro T0 k n c hc hf hlen hT
    by_cases h7 : 7 ≤ g.B - c
    · exact good T0 k n c hc h7 hf hlen hT
    · -- padding, then the frame at cursor 0 of the next block
      have hbad : g.B - c < 7 := by omega
      rw [layoutBufs_bad g c _ _ hbad] at hT ⊢
      simp only [List.flatten_cons, List.append_assoc, totalLen_cons, length_zeros] at hT ⊢
      have hl : T0.length - c = (zeros (g.B - c) ++ ((layoutBufs g 0 ((t, p) :: fs)).flatten ++ zeros z)).length := by
        have := congrArg List.length hT
        simpa using this
      have hf0 : Fits g 0 ((t, p) :: fs) := by
        have h1 := hf.1
        have h2 := hf.2
        have hm : maxFrameLen g c = maxFrameLen g 0 := by
          unfold maxFrameLen; simp only [HEADER_LEN, Nat.sub_zero]
          rw [if_neg (by omega), if_pos (by omega)]
        have hfe : frameEndCursor g c p.length = frameEndCursor g 0 p.length := by
          unfold frameEndCursor; simp only [HEADER_LEN, Nat.sub_zero]
          rw [if_pos hbad, if_neg (by omega)]
        rw [hm] at h1; rw [hfe] at h2
        exact ⟨h1, h2⟩
      cases n with
      | zero => simp at hlen hl; omega
      | succ n =>
        have hlen2 : (T0.drop g.B).length = (n + 1) * g.B := by
          rw [List.length_drop, hlen, Nat.add_mul (n + 1) 1, Nat.one_mul]; omega
        have hT2 : (T0.drop g.B).drop 0 = (layoutBufs g 0 ((t, p) :: fs)).flatten ++ zeros z := by
          have : g.B = c + (g.B - c) := by omega
          rw [List.drop_zero]
          conv => lhs; rw [this, ← List.drop_drop, hT, List.drop_left' (length_zeros _)]
        obtain ⟨e, h1, h2, h3⟩ := good (T0.drop g.B) (k + 1) n 0 (by omega) (by omega) hf0 hlen2 hT2
        rw [readFrom_skip g f T0 k n c hbad]
        refine ⟨e, h1, h2, ?_⟩
        rw [h3]; congr 1; rw [Nat.add_mul, Nat.one_mul]; omega

/-! ### reassembly -/

def tagF (f : Nat) (fs : List Frm) : List RdEv := fs.map (fun fr => RdEv.frame f fr.1 fr.2)

theorem tagF_append (f : Nat) (a b : List Frm) : tagF f (a ++ b) = tagF f a ++ tagF f b := by
  simp [tagF]

theorem assemble_more (st : AsmSt) (f : Nat) (t : FrameType) (p : Bytes) (evs : List RdEv)
    (hl : t.isLast = false) (hw : (st.within || t.isFirst) = true) :
    assemble st (RdEv.frame f t p :: evs) =
      assemble { within := true, buf := (if t.isFirst then [] else st.buf) ++ p, attr := st.attr } evs := by
  simp only [assemble, hw, hl, if_true]
  simp

theorem assemble_last (st : AsmSt) (f : Nat) (t : FrameType) (p : Bytes) (evs : List RdEv)
    (hl : t.isLast = true) (hw : (st.within || t.isFirst) = true) :
    assemble st (RdEv.frame f t p :: evs) =
      RecEv.entry st.attr ((if t.isFirst then [] else st.buf) ++ p) ::
        assemble { within := false, buf := (if t.isFirst then [] else st.buf) ++ p, attr := f } evs := by
  simp only [assemble, hw, hl, if_true]

theorem assemble_entryFrames (f : Nat) (fs : List Frm) :
    ∀ (b : Bool) (st : AsmSt) (evs : List RdEv), EntryFrames b fs → (b = true ∨ st.within = true) →
      assemble st (tagF f fs ++ evs) =
        RecEv.entry st.attr ((if b then [] else st.buf) ++ payloadOf fs) ::
          assemble { within := false, buf := (if b then [] else st.buf) ++ payloadOf fs, attr := f } evs := by
  induction fs with
  | nil => intro b st evs h; exact h.elim
  | cons fr fs ih =>
    intro b st evs h hw
    obtain ⟨t, p⟩ := fr
    obtain ⟨ht, htail⟩ := h
    simp only at ht
    have hfirst : t.isFirst = b := by subst ht; cases b <;> cases fs <;> rfl
    have hw2 : (st.within || t.isFirst) = true := by
      rw [hfirst]; rcases hw with h | h <;> simp [h]
    cases fs with
    | nil =>
      have hlast : t.isLast = true := by subst ht; cases b <;> rfl
      show assemble st (RdEv.frame f t p :: evs) = _
      rw [assemble_last st f t p evs hlast hw2, hfirst]
      simp
    | cons f2 fs =>
      have h2 := htail (by simp)
      have hlast : t.isLast = false := by subst ht; cases b <;> rfl
      show assemble st (RdEv.frame f t p :: (tagF f (f2 :: fs) ++ evs)) = _
      rw [assemble_more st f t p _ hlast hw2, hfirst, ih false _ evs h2 (Or.inr rfl)]
      simp [List.append_assoc]

/-- the frames of a list of entries: one `EntryFrames true` group per entry -/
inductive EntriesFrames : List Bytes → List Frm → Prop
  | nil : EntriesFrames [] []
  | cons {e : Bytes} {es : List Bytes} {fs fss : List Frm} :
      EntryFrames true fs → payloadOf fs = e → EntriesFrames es fss → EntriesFrames (e :: es) (fs ++ fss)

theorem assemble_entriesFrames (f : Nat) (es : List Bytes) (fs : List Frm) (h : EntriesFrames es fs) :
    ∀ buf, assemble { within := false, buf := buf, attr := f } (tagF f fs) = es.map (RecEv.entry f) := by
  induction h with
  | nil => intro buf; simp [tagF, assemble]
  | cons h1 h2 _ ih =>
    intro buf
    rw [tagF_append, assemble_entryFrames f _ true _ _ h1 (Or.inl rfl)]
    simp [h2, ih]

end MRL.Codec
