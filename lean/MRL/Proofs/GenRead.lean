/-
C08 (genuineness), the reader half: on ANY byte string, if every location where the reader's
acceptance test passes holds a genuine frame of the layout (`NoAcc`), the events the reader
returns form a `Trace` of the layout's frames.
-/
import MRL.Proofs.GenLoc

namespace MRL.Gen
open MRL Consts Codec Torn

/-- the reader's frame acceptance test at cursor `x` of block `k` of `S` passes, for type `t` and
    payload `p`: header not all zero, type byte decodes to `t`, the length fits the block, the
    checksum of `(t, p)` is the one stored -/
def Accepts (g : Geom) (S : Bytes) (k x : Nat) (t : FrameType) (p : Bytes) : Prop :=
  7 ≤ g.B - x ∧
  isAllZero ((((S.drop (k * g.B)).take g.B).drop x).take 7) = false ∧
  FrameType.ofCode (((((S.drop (k * g.B)).take g.B).drop x).take 7).getD 6 0).toNat = some t ∧
  x + 7 + leNat ((((((S.drop (k * g.B)).take g.B).drop x).take 7).drop 4).take 2) ≤ g.B ∧
  p = ((((S.drop (k * g.B)).take g.B).drop x).drop 7).take
        (leNat ((((((S.drop (k * g.B)).take g.B).drop x).take 7).drop 4).take 2)) ∧
  frameCrc t p = leNat (((((S.drop (k * g.B)).take g.B).drop x).take 7).take 4)

/-- every accepted location holds a located frame of `LL`, with the accepted type and payload -/
def NoAcc (g : Geom) (LL : List (Nat × Frm)) (S : Bytes) : Prop :=
  ∀ k x t p, Accepts g S k x t p → (k * g.B + x, (t, p)) ∈ LL

theorem hdrPos_good (g : Geom) (k x : Nat) (h : 7 ≤ g.B - x) : G.hdrPos g (k * g.B + x) = k * g.B + x := by
  unfold G.hdrPos
  rw [mod_of_pos g k x (by omega), if_neg (by omega)]

theorem hdrPos_short (g : Geom) (k x : Nat) (h : g.B - x < 7) (hx : x ≤ g.B) :
    G.hdrPos g (k * g.B + x) = (k + 1) * g.B := by
  have hB := g.hB
  simp only [HEADER_LEN] at hB
  rcases Nat.lt_or_ge x g.B with h1 | h1
  · unfold G.hdrPos
    rw [mod_of_pos g k x h1, if_pos h, Nat.add_mul, Nat.one_mul]; omega
  · have : x = g.B := by omega
    subst this
    have e : k * g.B + g.B = (k + 1) * g.B + 0 := by rw [Nat.add_mul, Nat.one_mul]; omega
    rw [e, hdrPos_good g (k + 1) 0 (by omega), Nat.add_zero]

theorem tagEvs_cons_frame (f : Nat) (t : FrameType) (p : Bytes) (l : List FrameEv) :
    tagEvs f (FrameEv.frame t p :: l) = RdEv.frame f t p :: tagEvs f l := rfl

theorem tagEvs_cons_corrupt (f : Nat) (l : List FrameEv) :
    tagEvs f (FrameEv.corrupt :: l) = RdEv.corrupt f :: tagEvs f l := rfl

section
variable (g : Geom) (f : Nat) (LL : List (Nat × Frm)) (hL : Located g LL) (S : Bytes) (hN : NoAcc g LL S)

include hL in
/-- moving forward (no event): what is ahead later is a suffix of what is ahead now -/
theorem trace_forward {P P' : Nat} (h : P ≤ P') {evs : List RdEv}
    (ht : Trace f ((ahead LL P').map (·.2)) false evs) :
    Trace f ((ahead LL P).map (·.2)) false evs := by
  obtain ⟨sk, hsk⟩ := ahead_mono LL hL.sorted P P' h
  rw [hsk, List.map_append]
  exact Trace.skip ht

include hL hN in
/-- the reader inside block `k` (a full block), from cursor `x` -/
theorem trace_block (k : Nat) (hfull : ((S.drop (k * g.B)).take g.B).length = g.B) :
    ∀ (m x : Nat), g.B - x = m → x ≤ g.B → ∀ tight : Bool, (tight = true → TightAt g LL (k * g.B + x)) →
      (∀ c', (scanBlockFrom g (((S.drop (k * g.B)).take g.B).drop x) x).2 = .zeroHeader c' →
        Trace f ((ahead LL (k * g.B + x)).map (·.2)) tight
          (tagEvs f (scanBlockFrom g (((S.drop (k * g.B)).take g.B).drop x) x).1)) ∧
      (∀ c', (scanBlockFrom g (((S.drop (k * g.B)).take g.B).drop x) x).2 = .needNext c' →
        ∃ tight2 : Bool, ∀ evs2, Trace f ((ahead LL ((k + 1) * g.B)).map (·.2)) tight2 evs2 →
          Trace f ((ahead LL (k * g.B + x)).map (·.2)) tight
            (tagEvs f (scanBlockFrom g (((S.drop (k * g.B)).take g.B).drop x) x).1 ++ evs2)) := by
  have hB := g.hB
  simp only [HEADER_LEN] at hB
  intro m
  induction m using Nat.strongRecOn with
  | _ m ih =>
    intro x hm hx tight htight
    have hnext : k * g.B + x ≤ (k + 1) * g.B := by rw [Nat.add_mul, Nat.one_mul]; omega
    -- going to the next block without a frame event
    have toNext : ∀ evs2, Trace f ((ahead LL ((k + 1) * g.B)).map (·.2)) false evs2 →
        Trace f ((ahead LL (k * g.B + x)).map (·.2)) false evs2 :=
      fun evs2 h => trace_forward g f LL hL hnext h
    rcases scan_step g (((S.drop (k * g.B)).take g.B).drop x) x with
      ⟨h1, he⟩ | ⟨h1, _, he⟩ | ⟨h1, _, _, he⟩ | ⟨t, h1, _, _, _, he⟩ | ⟨t, h1, hz, hc, hfit, he⟩
    · -- fewer than 7 bytes left
      rw [he]
      refine ⟨(fun c' h => by cases h), fun c' _ => ⟨tight, fun evs2 h2 => ?_⟩⟩
      simp only [tagEvs, List.nil_append]
      cases tight with
      | false => exact toNext evs2 h2
      | true =>
        rw [ahead_tight g LL _ (htight rfl), hdrPos_short g k x h1 hx]; exact h2
    · -- zero header
      rw [he]
      exact ⟨fun _ _ => Trace.nil, fun c' h => by cases h⟩
    · -- unknown type: corrupt, block given up
      rw [he]
      refine ⟨(fun c' h => by cases h), fun c' _ => ⟨false, fun evs2 h2 => ?_⟩⟩
      exact Trace.corrupt (toNext evs2 h2)
    · -- length overflow: corrupt, block given up
      rw [he]
      refine ⟨(fun c' h => by cases h), fun c' _ => ⟨false, fun evs2 h2 => ?_⟩⟩
      exact Trace.corrupt (toNext evs2 h2)
    · -- a frame is parsed; the scan goes on after it in the same block
      have hdd : ((((S.drop (k * g.B)).take g.B).drop x).drop 7).drop
            (leNat ((((((S.drop (k * g.B)).take g.B).drop x).take 7).drop 4).take 2)) =
          ((S.drop (k * g.B)).take g.B).drop
            (x + 7 + leNat ((((((S.drop (k * g.B)).take g.B).drop x).take 7).drop 4).take 2)) := by
        rw [List.drop_drop, List.drop_drop, Nat.add_assoc]
      rw [hdd] at he
      generalize hlen : leNat ((((((S.drop (k * g.B)).take g.B).drop x).take 7).drop 4).take 2) = len at he hfit
      have hpos : k * g.B + x + 7 + len = k * g.B + (x + 7 + len) := by omega
      have ihx := ih (g.B - (x + 7 + len)) (by omega) (x + 7 + len) rfl hfit
      by_cases hcrc : frameCrc t (((((S.drop (k * g.B)).take g.B).drop x).drop 7).take len) =
          leNat (((((S.drop (k * g.B)).take g.B).drop x).take 7).take 4)
      · -- accepted: a genuine frame at this very location
        rw [if_pos hcrc] at he
        have hacc : Accepts g S k x t (((((S.drop (k * g.B)).take g.B).drop x).drop 7).take len) :=
          ⟨h1, hz, hc, by rw [hlen]; exact hfit, by rw [hlen], hcrc⟩
        have hmem := hN k x t _ hacc
        have hplen : (((((S.drop (k * g.B)).take g.B).drop x).drop 7).take len).length = len := by
          rw [List.length_take, List.length_drop, List.length_drop, hfull]; omega
        obtain ⟨hh1, hh2⟩ := ahead_hit g LL hL _ hmem
        simp only [hplen, hpos] at hh1 hh2
        obtain ⟨ia, ib⟩ := ihx true (fun _ => hh2)
        rw [he]
        simp only [tagEvs_cons_frame]
        constructor
        · intro c' hc'
          rw [hh1]; exact Trace.frame (ia c' hc')
        · intro c' hc'
          obtain ⟨tight2, h2⟩ := ib c' hc'
          refine ⟨tight2, fun evs2 hev => ?_⟩
          rw [hh1]; exact Trace.frame (h2 evs2 hev)
      · -- checksum mismatch: corrupt, resynchronise after the frame
        rw [if_neg hcrc] at he
        obtain ⟨ia, ib⟩ := ihx false (fun h => by cases h)
        have hfw : k * g.B + x ≤ k * g.B + (x + 7 + len) := by omega
        rw [he]
        simp only [tagEvs_cons_corrupt]
        constructor
        · intro c' hc'
          exact Trace.corrupt (trace_forward g f LL hL hfw (ia c' hc'))
        · intro c' hc'
          obtain ⟨tight2, h2⟩ := ib c' hc'
          refine ⟨tight2, fun evs2 hev => ?_⟩
          exact Trace.corrupt (trace_forward g f LL hL hfw (h2 evs2 hev))

include hL hN in
/-- the reader over the blocks of `S` from block `k` on -/
theorem trace_blocks : ∀ (n k x : Nat), (S.drop (k * g.B)).length = (n + 1) * g.B → x ≤ g.B →
    ∀ tight : Bool, (tight = true → TightAt g LL (k * g.B + x)) →
      Trace f ((ahead LL (k * g.B + x)).map (·.2)) tight (readFrom g f (S.drop (k * g.B)) k n x).1 := by
  have hB := g.hB
  simp only [HEADER_LEN] at hB
  intro n
  induction n with
  | zero =>
    intro k x hlen hx tight htight
    have hfull : ((S.drop (k * g.B)).take g.B).length = g.B := by
      rw [List.length_take, hlen]; simp
    obtain ⟨ha, hb⟩ := trace_block g f LL hL S hN k hfull _ x rfl hx tight htight
    unfold readFrom
    simp only [fileBlocks]
    unfold scanB scanBlock
    simp only
    rcases hs : scanBlockFrom g (((S.drop (k * g.B)).take g.B).drop x) x with ⟨fevs, e⟩
    rw [hs] at ha hb
    cases e with
    | zeroHeader c' => exact ha c' rfl
    | needNext c' =>
      obtain ⟨tight2, h2⟩ := hb c' rfl
      have := h2 [] Trace.nil
      simpa using this
  | succ n ih =>
    intro k x hlen hx tight htight
    have hfull : ((S.drop (k * g.B)).take g.B).length = g.B := by
      rw [List.length_take, hlen, Nat.add_mul, Nat.one_mul]; omega
    obtain ⟨ha, hb⟩ := trace_block g f LL hL S hN k hfull _ x rfl hx tight htight
    have hdrop : (S.drop (k * g.B)).drop g.B = S.drop ((k + 1) * g.B) := by
      rw [List.drop_drop, Nat.add_mul, Nat.one_mul]
    have hlen2 : (S.drop ((k + 1) * g.B)).length = (n + 1) * g.B := by
      rw [← hdrop, List.length_drop, hlen, Nat.add_mul (n + 1) 1, Nat.one_mul]; omega
    have hnextgood : G.hdrPos g ((k + 1) * g.B + 0) = (k + 1) * g.B + 0 := hdrPos_good g (k + 1) 0 (by omega)
    have ihn := fun tight2 => ih (k + 1) 0 hlen2 (Nat.zero_le _) tight2 (fun _ => tightAt_good g LL _ hnextgood)
    unfold readFrom
    rw [fileBlocks_succ]
    conv => rhs; unfold scanB
    unfold scanBlock
    simp only
    rcases hs : scanBlockFrom g (((S.drop (k * g.B)).take g.B).drop x) x with ⟨fevs, e⟩
    rw [hs] at ha hb
    cases e with
    | zeroHeader c' => exact ha c' rfl
    | needNext c' =>
      obtain ⟨tight2, h2⟩ := hb c' rfl
      have h3 := ihn tight2
      unfold readFrom at h3
      rw [hdrop]
      simp only [Nat.add_zero] at h3
      exact h2 _ h3

end

end MRL.Gen
