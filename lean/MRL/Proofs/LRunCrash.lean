/-
The crash analysis carrying `LR.RunOK`, step 3: `step_decompX`, `call_cutX`, `touch_phase_crashX`,
`gc_cutX`, `recover_okX`.
-/
import MRL.Proofs.LRunPhase
import MRL.Proofs.LProvCrash

namespace MRL.LR
open MRL Codec Consts G H Torn Log Buf C05 C01J L LP Drop



theorem step_decompXR (g : Geom) (hB : g.B ≤ 65542) (P : Entry → Prop) {l : Log} {J : List JE} {D : Image} (h : CInvX g l J D)
    (c : Call) (tick : Bool) (order : List Bytes)
    (hfits : ∀ j ∈ J ++ l.stepJ g c order, WFP P j.e) (hR : RunOK J l.queues)
    (htorn : TornEffs (l.step g c tick order).2.2) :
    ∃ (A : List Effect) (U : List Nat) (S : List Effect),
      (l.step g c tick order).2.2 = A ++ U.map Effect.unlink ++ S ∧
      (∀ f, Effect.unlink f ∉ A) ∧ IsSyncL S ∧
      (∀ (w : Bool) X, CutW w D A X → XInvResR g P l.queues (l.step g c tick order).1.queues X) ∧
      (∀ k, 0 < k → k ≤ U.length →
        XInvResR g P (l.step g c tick order).1.queues (l.step g c tick order).1.queues
          (applyOsOps (applyOsOps D (directOps A)) ((U.take k).map OsOp.unlink))) ∧
      XInvResR g P l.queues (l.step g c tick order).1.queues (applyOsOps D (directOps (l.step g c tick order).2.2)) := by
  have hInv' : Inv (l.step g c tick order).1 := (C05_refines g l h.jinv.h.inv c tick order).2.2
  have hfinal := cinvx_step g h c tick order
  have hfin : XInvResR g P l.queues (l.step g c tick order).1.queues
      (applyOsOps D (directOps (l.step g c tick order).2.2)) := by
    intro policy
    obtain ⟨J', lp, io, F', a1, a2, a3, a4, a5, a6⟩ := xinvres_of_cinvxR g hB P hfinal hfits
      (hR.step g h.jinv.h.inv c tick order) policy
    exact ⟨J', lp, io, F', a1, a2, a3, a4, a5, Or.inr a6⟩
  have hwfJ : ∀ j ∈ J, WFP P j.e := fun j hj => hfits j (List.mem_append_left _ hj)
  rcases step_full2 g l h.jinv.h.inv c tick order with
    ⟨hj, hl, hsy⟩ | ⟨e, qs', sy, hewf, hre, hsy, (⟨hj, hl, heff⟩ | ⟨hj, hl, heff⟩)⟩
  · -- nothing written
    refine ⟨[], [], (l.step g c tick order).2.2, by simp, (fun f hf => by cases hf), hsy, ?_,
      (fun k hk0 hk => by simp at hk; omega), hfin⟩
    intro w X hX
    rw [hX.nil_inv]
    have hres : XInvResR g P l.queues (l.step g c tick order).1.queues D := by
      intro policy
      obtain ⟨J', lp, io, F', a1, a2, a3, a4, a5, a6⟩ := xinvres_of_cinvxR g hB P h hwfJ hR policy
      exact ⟨J', lp, io, F', a1, a2, a3, a4, a5, Or.inl a6⟩
    exact hres
  · -- one entry, no GC
    rw [hl] at hInv'
    have hq1 : (l.step g c tick order).1.queues = qs' := by rw [hl]
    refine ⟨(Log.writeEntry g l e).2.1, [], sy, by rw [heff]; simp,
      no_unlink_of_unlinked (Step.writeEntry_unlinked g l e), hsy, ?_,
      (fun k hk0 hk => by simp at hk; omega), hfin⟩
    intro w X hX
    rw [hq1]
    have hwf' : ∀ j ∈ J ++ l.je g e :: touchesJ g { (Log.writeEntry g l e).1 with queues := qs' } [],
        WFP P j.e := by
      intro j hj'
      apply hfits j
      rw [hj]; simpa [touchesJ] using hj'
    exact write_phase_crashXR g hB P h e qs' hewf hre hInv' [] (fun n hn => by cases hn)
      (step_ok g l c order e _ hewf hj) hR hwf'
      (htorn.mono (by
        intro v hv
        rw [heff]
        simp only [writeTouches, List.append_nil] at hv
        exact List.mem_append_left _ hv))
      w X (by simpa [writeTouches] using hX)
  · -- one entry, then a GC pass
    have hq' : (runGc g { (Log.writeEntry g l e).1 with queues := qs' } order).1.queues = qs' :=
      runGc_queues g _ order
    have hq1 : (l.step g c tick order).1.queues = qs' := by rw [hl]; exact hq'
    rw [hl] at hInv'
    have hInv2 : Inv ({ (Log.writeEntry g l e).1 with queues := qs' } : Log) :=
      Inv.of_queues (l := (runGc g { (Log.writeEntry g l e).1 with queues := qs' } order).1) hq'.symm hInv'
    have h2 := cinvx_write g h e qs' hewf hre hInv2
    rcases runGc_full g { (Log.writeEntry g l e).1 with queues := qs' } order with ⟨hr1, hr2⟩ | ⟨names, hr1, hr2⟩
    · -- the GC pass does nothing
      rw [hr1] at heff
      rw [hr2] at hj
      refine ⟨(Log.writeEntry g l e).2.1, [], sy, by rw [heff]; simp,
        no_unlink_of_unlinked (Step.writeEntry_unlinked g l e), hsy, ?_,
        (fun k hk0 hk => by simp at hk; omega), hfin⟩
      intro w X hX
      rw [hq1]
      have hwf' : ∀ j ∈ J ++ l.je g e :: touchesJ g { (Log.writeEntry g l e).1 with queues := qs' } [],
          WFP P j.e := by
        intro j hj'
        apply hfits j
        rw [hj]; simpa [touchesJ] using hj'
      exact write_phase_crashXR g hB P h e qs' hewf hre hInv2 [] (fun n hn => by cases hn)
        (step_ok g l c order e _ hewf hj) hR hwf'
        (htorn.mono (by
          intro v hv
          rw [heff]
          simp only [writeTouches, List.append_nil] at hv
          exact List.mem_append_left _ (List.mem_append_left _ hv)))
        w X (by simpa [writeTouches] using hX)
    · -- the GC pass runs
      have hnames : ∀ n ∈ names, n ∈ qs'.emptyNames := by
        rcases runGc_shape g { (Log.writeEntry g l e).1 with queues := qs' } order hInv2.1 with
          ⟨hs1, _⟩ | ⟨names', _, _, hs1, _, _, hs5⟩
        · rw [hr1] at hs1
          cases names with
          | nil => intro n hn; cases hn
          | cons n ns => rw [touchesJ_cons] at hs1; cases hs1
        · rw [hr1] at hs1
          have := touchesJ_inj g _ _ _ hs1
          subst this
          intro n hn
          exact (hs5 n).mp hn
      rw [hr1] at hj
      have hwf' : ∀ j ∈ J ++ l.je g e :: touchesJ g { (Log.writeEntry g l e).1 with queues := qs' } names,
          WFP P j.e := by
        intro j hj'; exact hfits j (by rw [hj]; exact hj')
      have heff' : (l.step g c tick order).2.2 =
          ((Log.writeEntry g l e).2.1 ++ (writeTouches g { (Log.writeEntry g l e).1 with queues := qs' } names).2.1 ++
            (writeTouches g { (Log.writeEntry g l e).1 with queues := qs' } names).1.persistEffects .flushAndFsync) ++
          (gcFiles ((writeTouches g { (Log.writeEntry g l e).1 with queues := qs' } names).1.canDelete
            ({ (Log.writeEntry g l e).1 with queues := qs' } : Log).cur)
            (writeTouches g { (Log.writeEntry g l e).1 with queues := qs' } names).1.files).2.map Effect.unlink ++ sy := by
        rw [heff, hr2]; simp only [List.append_assoc]
      have htorn2 : TornEffs ((Log.writeEntry g l e).2.1 ++
          (writeTouches g { (Log.writeEntry g l e).1 with queues := qs' } names).2.1) := by
        apply htorn.mono
        intro v hv
        rw [heff']
        exact List.mem_append_left _ (List.mem_append_left _ (List.mem_append_left _ hv))
      have hpre : ∀ (w : Bool) X, CutW w D ((Log.writeEntry g l e).2.1 ++
          (writeTouches g { (Log.writeEntry g l e).1 with queues := qs' } names).2.1) X →
          XInvResR g P l.queues qs' X :=
        fun w X hX => write_phase_crashXR g hB P h e qs' hewf hre hInv2 names hnames
          (step_ok g l c order e _ hewf hj) hR hwf' htorn2 w X hX
      refine ⟨_, _, sy, heff', ?_, hsy, ?_, ?_, hfin⟩
      · intro f hf
        rcases List.mem_append.mp hf with hf | hf
        · rcases List.mem_append.mp hf with hf | hf
          · exact no_unlink_of_unlinked (Step.writeEntry_unlinked g l e) f hf
          · exact no_unlink_of_unlinked (Step.writeTouches_unlinked g names _) f hf
        · exact no_unlink_syncL (isSyncL_persist _ _) f hf
      · intro w X hX
        rw [hq1]
        rcases CutW.of_append _ hX with hX | hX
        · exact hpre w X hX
        · have := cutW_syncL (isSyncL_persist _ _) hX
          rw [this]
          exact hpre true _ (CutW.full true _ _)
      · intro k hk0 hk
        rw [hq1]
        have hD : applyOsOps D (directOps ((Log.writeEntry g l e).2.1 ++
            (writeTouches g { (Log.writeEntry g l e).1 with queues := qs' } names).2.1 ++
            (writeTouches g { (Log.writeEntry g l e).1 with queues := qs' } names).1.persistEffects .flushAndFsync)) =
            applyOsOps (applyOsOps D (directOps (Log.writeEntry g l e).2.1))
              (directOps (writeTouches g { (Log.writeEntry g l e).1 with queues := qs' } names).2.1) := by
          rw [directOps_append, applyOsOps_append, syncL_apply (isSyncL_persist _ _), directOps_append,
            applyOsOps_append]
        rw [hD]
        have hr3 : (runGc g { (Log.writeEntry g l e).1 with queues := qs' } order).1 =
            { (writeTouches g { (Log.writeEntry g l e).1 with queues := qs' } names).1 with
              files := (gcFiles ((writeTouches g { (Log.writeEntry g l e).1 with queues := qs' } names).1.canDelete
                ({ (Log.writeEntry g l e).1 with queues := qs' } : Log).cur)
                (writeTouches g { (Log.writeEntry g l e).1 with queues := qs' } names).1.files).1 } := by
          rw [hr2]
        have hwf2 : ∀ j ∈ (J ++ [l.je g e]) ++ touchesJ g { (Log.writeEntry g l e).1 with queues := qs' } names,
            WFP P j.e := by
          intro j hj'; exact hwf' j (by simpa using hj')
        exact unlink_phase_crashXR g hB P h2 order names hr1 hr3 hwf2
          (hR.append (QsWF.of_inv h.jinv.h.inv) (Run.cons (step_ok g l c order e _ hewf hj) hre Run.nil)) k hk0 hk

/-- every crash state of a call -/
theorem call_cutXR (g : Geom) (hB : g.B ≤ 65542) (P : Entry → Prop) {l : Log} {J : List JE} {D : Image} (h : CInvX g l J D)
    (c : Call) (tick : Bool) (order : List Bytes)
    (hfits : ∀ j ∈ J ++ l.stepJ g c order, WFP P j.e) (hR : RunOK J l.queues)
    (htorn : TornEffs (l.step g c tick order).2.2) (w : Bool) (X : Image)
    (hX : CutW w D (l.step g c tick order).2.2 X) :
    XInvResR g P l.queues (l.step g c tick order).1.queues X := by
  obtain ⟨A, U, S, heff, _, hS, hpre, habs, hfin⟩ := step_decompXR g hB P h c tick order hfits hR htorn
  rw [heff] at hX
  rcases CutW.of_append _ hX with hX | hX
  · rcases CutW.of_append _ hX with hX | hX
    · exact hpre w X hX
    · obtain ⟨k'', hk, hXe⟩ := cutW_unlinks U hX
      rw [hXe]
      cases k'' with
      | zero =>
        simp only [List.take_zero, List.map_nil, applyOsOps, List.foldl_nil]
        exact hpre true _ (CutW.full true A D)
      | succ k'' =>
        exact (habs (k'' + 1) (Nat.succ_pos _) hk).inr (qB := l.queues)
  · have hXe := cutW_syncL hS hX
    rw [hXe]
    have : applyOsOps D (directOps (A ++ U.map Effect.unlink)) =
        applyOsOps D (directOps (l.step g c tick order).2.2) := by
      rw [heff, directOps_append (A ++ U.map Effect.unlink), applyOsOps_append, syncL_apply hS]
    rw [this]
    exact hfin

/-- **crash while the GC touches are written**, from a relaxed state, at any byte -/
theorem touch_phase_crashXR (g : Geom) (hB : g.B ≤ 65542) (P : Entry → Prop) {l : Log} {J : List JE} {D : Image}
    (h : CInvX g l J D) (names : List Bytes) (hnames : ∀ n ∈ names, n ∈ l.queues.emptyNames)
    (hwf : ∀ j ∈ J ++ touchesJ g l names, WFP P j.e) (hR : RunOK J l.queues)
    (htorn : TornEffs (writeTouches g l names).2.1) (w : Bool) (X : Image)
    (hX : CutW w D (writeTouches g l names).2.1 X) :
    XInvResR g P l.queues l.queues X := by
  have hF : l.files.headD 0 ≤ l.cur := head_le_of_mem h.jinv.h.files.sorted h.jinv.h.files.cur_mem
  obtain ⟨init, t, x, res, ais, lead, gs, x0⟩ := h.disk
  obtain ⟨i3, t3, x3, r3, ais3, gs3, y3, hcut3⟩ :=
    touches_extX g (l.files.headD 0) lead names _ _ _ _ _ _ _ _ _ x0
  have hch := touchesJ_chunk g names l h.jinv.h.files
  have hchunk3 := h.jinv.chunk.append hch
  obtain ⟨hHl, chunk, qs, hrep, heq, hqwf⟩ := h.jinv
  have hexact : ∀ i, replayJ (l.files.headD 0) l.queues ((touchesJ g l names).take i) = some l.queues := by
    intro i
    rw [touchesJ_take]
    exact touches_replay g (l.files.headD 0) (names.take i) l hHl.files hF hHl.inv.1
      (fun n hn => hnames n (List.mem_of_mem_take hn))
  have hreps : ∀ i, ∃ q, replayJ (l.files.headD 0) [] (J ++ (touchesJ g l names).take i) = some q ∧
      AbsEq q l.queues := by
    intro i
    obtain ⟨q1, r1, r2, _⟩ := extend_rep hHl.inv hrep heq hqwf (hexact i)
    exact ⟨q1, r1, AbsEq.of_qsEquiv r2⟩
  have hsub : ∀ i, (J ++ (touchesJ g l names).take i).Sublist (J ++ touchesJ g l names) :=
    fun i => List.Sublist.append_left (List.take_sublist _ _) _
  obtain ⟨i, _, hd⟩ := hcut3 htorn w X hX
  intro policy
  obtain ⟨q, hq, hqe⟩ := hreps i
  obtain ⟨J', lp, io, hrec, hc, hw, hab, hpol, hhead⟩ := open_diskXR g hB P hd
    (fun j hj => hwf j ((hsub i).subset hj)) (fun j hj => hchunk3.wf j ((hsub i).subset hj))
    (hchunk3.mono.sublist (hsub i)) q hq
    (by rw [touchesJ_take]
        exact (hR.append (QsWF.of_inv h.jinv.h.inv) (run_touches g (names.take i) l hHl.inv.1
          (fun n hn => hnames n (List.mem_of_mem_take hn)))).congr hqe.symm) policy
  exact ⟨J', lp, io, _, hrec, hhead, hc, hw, hpol, Or.inl (hab.symm.trans hqe)⟩

/-- every crash state of a GC pass alone -/
theorem gc_cutXR (g : Geom) (hB : g.B ≤ 65542) (P : Entry → Prop) {l : Log} {J : List JE} {D : Image} (h : CInvX g l J D)
    (order : List Bytes) (hfits : ∀ j ∈ J ++ gcJ g l order, WFP P j.e) (hR : RunOK J l.queues)
    (htorn : TornEffs (runGc g l order).2.1) (w : Bool) (X : Image)
    (hX : CutW w D (runGc g l order).2.1 X) :
    XInvResR g P l.queues l.queues X := by
  have hwfJ : ∀ j ∈ J, WFP P j.e := fun j hj => hfits j (List.mem_append_left _ hj)
  have hfinal := cinvx_gc g h order
  have hfin : XInvResR g P l.queues l.queues (applyOsOps D (directOps (runGc g l order).2.1)) := by
    intro policy
    obtain ⟨J', lp, io, F', a1, a2, a3, a4, a5, a6⟩ := xinvres_of_cinvxR g hB P hfinal hfits
      (by rw [runGc_queues]; exact hR.gc g h.jinv.h.inv order) policy
    rw [runGc_queues] at a6
    exact ⟨J', lp, io, F', a1, a2, a3, a4, a5, Or.inl a6⟩
  rcases runGc_full g l order with ⟨hr1, hr2⟩ | ⟨names, hr1, hr2⟩
  · rw [hr1] at hX
    have : X = D := hX.nil_inv
    rw [this]
    have hres : XInvResR g P l.queues l.queues D := by
      intro policy
      obtain ⟨J', lp, io, F', a1, a2, a3, a4, a5, a6⟩ := xinvres_of_cinvxR g hB P h hwfJ hR policy
      exact ⟨J', lp, io, F', a1, a2, a3, a4, a5, Or.inl a6⟩
    exact hres
  · have hnames : ∀ n ∈ names, n ∈ l.queues.emptyNames := by
      rcases runGc_shape g l order h.jinv.h.inv.1 with ⟨hs1, _⟩ | ⟨names', _, _, hs1, _, _, hs5⟩
      · rw [hr1] at hs1
        cases names with
        | nil => intro n hn; cases hn
        | cons n ns => rw [touchesJ_cons] at hs1; cases hs1
      · rw [hr1] at hs1
        have := touchesJ_inj g _ _ _ hs1
        subst this
        intro n hn
        exact (hs5 n).mp hn
    rw [hr1] at hfits
    have heff : (runGc g l order).2.1 =
        ((writeTouches g l names).2.1 ++ (writeTouches g l names).1.persistEffects .flushAndFsync) ++
        (gcFiles ((writeTouches g l names).1.canDelete l.cur) (writeTouches g l names).1.files).2.map Effect.unlink := by
      rw [hr2]
    have htorn2 : TornEffs (writeTouches g l names).2.1 := by
      apply htorn.mono
      intro v hv
      rw [heff]
      exact List.mem_append_left _ (List.mem_append_left _ hv)
    have hpre : ∀ (w : Bool) X, CutW w D (writeTouches g l names).2.1 X →
        XInvResR g P l.queues l.queues X :=
      fun w X hX => touch_phase_crashXR g hB P h names hnames hfits hR htorn2 w X hX
    rw [heff] at hX
    rcases CutW.of_append _ hX with hX | hX
    · rcases CutW.of_append _ hX with hX | hX
      · exact hpre w X hX
      · have := cutW_syncL (isSyncL_persist _ _) hX
        rw [this]
        exact hpre true _ (CutW.full true _ _)
    · obtain ⟨k, hk, hXe⟩ := cutW_unlinks _ hX
      rw [hXe]
      have hD : applyOsOps D (directOps ((writeTouches g l names).2.1 ++
          (writeTouches g l names).1.persistEffects .flushAndFsync)) =
          applyOsOps D (directOps (writeTouches g l names).2.1) := by
        rw [directOps_append, applyOsOps_append, syncL_apply (isSyncL_persist _ _)]
      rw [hD]
      cases k with
      | zero =>
        simp only [List.take_zero, List.map_nil, applyOsOps, List.foldl_nil]
        exact hpre true _ (CutW.full true _ D)
      | succ k =>
        have hr3 : (runGc g l order).1 = { (writeTouches g l names).1 with
            files := (gcFiles ((writeTouches g l names).1.canDelete l.cur) (writeTouches g l names).1.files).1 } := by
          rw [hr2]
        exact unlink_phase_crashXR g hB P h order names hr1 hr3 hfits hR (k + 1) (Nat.succ_pos _) hk

/-- `recover` on a relaxed disk -/
theorem recover_okXR (g : Geom) (hB : g.B ≤ 65542) (P : Entry → Prop) {l : Log} {J : List JE} {D : Image} (h : CInvX g l J D)
    (hwf : ∀ j ∈ J, WFP P j.e) (hR : RunOK J l.queues) (policy : Policy) (order : List Bytes) :
    ∃ (J' : List JE) (lp : Log) (io : Nat) (r : Recovered),
      recoverPre g D policy none = .ok (lp, [.ensureLen (lp.files.headD 0) g.fileBytes], io) ∧
      recover g D policy order none = .ok r ∧ r.log = (runGc g lp order).1 ∧
      r.effects = [.ensureLen (lp.files.headD 0) g.fileBytes] ++ (runGc g lp order).2.1 ∧
      CInvX g lp J' D ∧ ((∀ j ∈ J', WFP P j.e) ∧ RunOK J' lp.queues) ∧ AbsEq lp.queues l.queues ∧ lp.policy = policy := by
  obtain ⟨J', lp, io, hrec, hc, hw, hab, hpol, hhead⟩ := open_okXR g hB P h hwf hR policy
  rw [← hhead] at hrec
  refine ⟨J', lp, io, (⟨(runGc g lp order).1,
      [.ensureLen (lp.files.headD 0) g.fileBytes] ++ (runGc g lp order).2.1,
      io + Rec.countOpen (runGc g lp order).2.1⟩ : Recovered), hrec, ?_, rfl, rfl, hc, hw, hab, hpol⟩
  rw [Rec.recover_none, hrec]


end MRL.LR
