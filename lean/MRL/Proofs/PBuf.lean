/-
The refined `BufWriter` output (`toOsOpsP`): it erases to `toOsOps`; and when every `fsync` effect
is issued with an empty buffer (it always follows a `flush`), the power-loss state after any number
of refined OS operations is the power-loss state after a whole number of EFFECTS applied directly.
-/
import MRL.Model.PowerLoss
import MRL.Proofs.LBoundary

namespace MRL.P
open MRL Buf H L

/-- an `fsync` effect -/
def isSyncE : Effect → Bool
  | .fsyncFile _ | .fsyncDir => true
  | _ => false

def NoSync (ops : List OsOp) : Prop := ∀ o ∈ ops, o ≠ OsOp.sync

theorem erase_lift {o : OsOp} (h : o ≠ .sync) : (OsOpP.lift o).erase = o := by
  cases o <;> first | rfl | exact absurd rfl h

theorem map_erase_lift {ops : List OsOp} (h : NoSync ops) : (ops.map OsOpP.lift).map OsOpP.erase = ops := by
  induction ops with
  | nil => rfl
  | cons o ops ih =>
    simp only [List.map_cons]
    rw [erase_lift (h o List.mem_cons_self), ih (fun o' ho' => h o' (List.mem_cons_of_mem _ ho'))]

theorem flushOps_noSync (b : BufSt) : NoSync b.flushOps := by
  intro o ho
  unfold BufSt.flushOps at ho
  split at ho
  · cases ho
  · simp only [List.mem_singleton] at ho; rw [ho]; intro h; cases h

theorem bufStep_noSync (cap : Nat) (b : BufSt) (e : Effect) (he : isSyncE e = false) : NoSync (bufStep cap b e).2 := by
  intro o ho
  cases e with
  | write f off data =>
    rw [bufStep_write] at ho
    have hf := flushOps_noSync b
    split at ho
    · cases ho
    · split at ho
      · split at ho
        · rcases List.mem_append.mp ho with h | h
          · exact hf o h
          · simp only [List.mem_singleton] at h; rw [h]; intro h'; cases h'
        · exact hf o ho
      · split at ho
        · simp only [List.mem_singleton] at ho; rw [ho]; intro h'; cases h'
        · cases ho
  | flush => exact flushOps_noSync b o ho
  | fsyncFile f => cases he
  | fsyncDir => cases he
  | listDir => cases ho
  | openFile f => cases ho
  | readBlock f => cases ho
  | create f => simp only [bufStep, List.mem_singleton] at ho; rw [ho]; intro h'; cases h'
  | setLen f n => simp only [bufStep, List.mem_singleton] at ho; rw [ho]; intro h'; cases h'
  | ensureLen f n => simp only [bufStep, List.mem_singleton] at ho; rw [ho]; intro h'; cases h'
  | unlink f => simp only [bufStep, List.mem_singleton] at ho; rw [ho]; intro h'; cases h'

theorem bufStepP_nonsync (cap : Nat) (b : BufSt) (e : Effect) (he : isSyncE e = false) :
    bufStepP cap b e = ((bufStep cap b e).1, (bufStep cap b e).2.map OsOpP.lift) := by
  cases e <;> first | rfl | cases he

/-- **`toOsOpsP` erases to `toOsOps`** -/
theorem bufStepP_erase (cap : Nat) (b : BufSt) (e : Effect) :
    (bufStepP cap b e).1 = (bufStep cap b e).1 ∧ (bufStepP cap b e).2.map OsOpP.erase = (bufStep cap b e).2 := by
  by_cases he : isSyncE e = true
  · cases e <;> first | exact ⟨rfl, rfl⟩ | cases he
  · have he' : isSyncE e = false := by simpa using he
    rw [bufStepP_nonsync cap b e he']
    exact ⟨rfl, map_erase_lift (bufStep_noSync cap b e he')⟩

theorem toOsOpsP_erase (cap : Nat) (es : List Effect) : ∀ b : BufSt,
    (toOsOpsP cap b es).1 = (toOsOps cap b es).1 ∧
    (toOsOpsP cap b es).2.map OsOpP.erase = (toOsOps cap b es).2 := by
  induction es with
  | nil => intro b; exact ⟨rfl, rfl⟩
  | cons e es ih =>
    intro b
    obtain ⟨h1, h2⟩ := bufStepP_erase cap b e
    simp only [toOsOpsP, toOsOps]
    rw [h1]
    obtain ⟨i1, i2⟩ := ih (bufStep cap b e).1
    exact ⟨i1, by rw [List.map_append, h2, i2]⟩

theorem toOsOpsP_cons (cap : Nat) (b : BufSt) (e : Effect) (es : List Effect) :
    toOsOpsP cap b (e :: es) =
      ((toOsOpsP cap (bufStepP cap b e).1 es).1, (bufStepP cap b e).2 ++ (toOsOpsP cap (bufStepP cap b e).1 es).2) := rfl

theorem toOsOpsP_append (cap : Nat) (a c : List Effect) : ∀ b : BufSt,
    toOsOpsP cap b (a ++ c) =
      ((toOsOpsP cap (toOsOpsP cap b a).1 c).1, (toOsOpsP cap b a).2 ++ (toOsOpsP cap (toOsOpsP cap b a).1 c).2) := by
  induction a with
  | nil => intro b; simp [toOsOpsP]
  | cons e a ih =>
    intro b
    rw [List.cons_append, toOsOpsP_cons, ih, toOsOpsP_cons]
    simp [List.append_assoc]

/-! ### direct application of the effects -/

def directP : Effect → List OsOpP
  | .fsyncFile f => [.syncFile f]
  | .fsyncDir => [.syncDir]
  | e => (direct e).map OsOpP.lift

def directOpsP (es : List Effect) : List OsOpP := es.flatMap directP

theorem directOpsP_cons (e : Effect) (es : List Effect) : directOpsP (e :: es) = directP e ++ directOpsP es := by
  simp [directOpsP]

theorem directOpsP_append (a b : List Effect) : directOpsP (a ++ b) = directOpsP a ++ directOpsP b := by
  simp [directOpsP]

theorem direct_noSync (e : Effect) (he : isSyncE e = false) : NoSync (direct e) := by
  intro o ho
  cases e with
  | fsyncFile f => cases he
  | fsyncDir => cases he
  | write f off d => simp only [direct, List.mem_singleton] at ho; rw [ho]; intro h'; cases h'
  | create f => simp only [direct, List.mem_singleton] at ho; rw [ho]; intro h'; cases h'
  | setLen f n => simp only [direct, List.mem_singleton] at ho; rw [ho]; intro h'; cases h'
  | ensureLen f n => simp only [direct, List.mem_singleton] at ho; rw [ho]; intro h'; cases h'
  | unlink f => simp only [direct, List.mem_singleton] at ho; rw [ho]; intro h'; cases h'
  | flush => cases ho
  | listDir => cases ho
  | openFile f => cases ho
  | readBlock f => cases ho

theorem directP_nonsync (e : Effect) (he : isSyncE e = false) : directP e = (direct e).map OsOpP.lift := by
  cases e <;> first | rfl | cases he

theorem prun_append (S : PState) (a b : List OsOpP) : prun S (a ++ b) = prun (prun S a) b := by
  simp [prun, List.foldl_append]

/-- operations that are no `fsync` only change the volatile image -/
theorem prun_lift (ops : List OsOp) (h : NoSync ops) : ∀ S : PState,
    prun S (ops.map OsOpP.lift) = { S with vol := applyOsOps S.vol ops } := by
  induction ops with
  | nil => intro S; rfl
  | cons o ops ih =>
    intro S
    have ho := h o List.mem_cons_self
    have h1 : pstep S (OsOpP.lift o) = { S with vol := applyOs S.vol o } := by
      cases o <;> first | rfl | exact absurd rfl ho
    simp only [List.map_cons, prun, List.foldl_cons, h1]
    have := ih (fun o' ho' => h o' (List.mem_cons_of_mem _ ho')) { S with vol := applyOs S.vol o }
    simp only [prun] at this
    rw [this]
    rfl

theorem pendW_lift (b : BufSt) : directOpsP (pendW b) = b.flushOps.map OsOpP.lift := by
  by_cases hp : b.pend = []
  · rw [pendW_nil b hp, flushOps_nil b hp]; rfl
  · rw [pendW_ne b hp, flushOps_ne b hp]; rfl

/-! ### the discipline: `fsync` only with an empty buffer -/

def run1S (st : St) (e : Effect) : Option St :=
  if isSyncE e then (if st = none then some none else none) else run1 st e

def runS : St → List Effect → Option St
  | st, [] => some st
  | st, e :: es => (run1S st e).bind fun st' => runS st' es

theorem run1S_run1 {st st' : St} {e : Effect} (h : run1S st e = some st') : run1 st e = some st' := by
  unfold run1S at h
  split at h
  · rename_i he
    split at h
    · rename_i hs
      injection h with h
      subst h; subst hs
      cases e <;> first | rfl | cases he
    · cases h
  · exact h

theorem runS_append (a b : List Effect) : ∀ st, runS st (a ++ b) = (runS st a).bind fun st' => runS st' b := by
  induction a with
  | nil => intro st; rfl
  | cons e es ih =>
    intro st
    simp only [List.cons_append, runS]
    cases run1S st e with
    | none => rfl
    | some st' => simp [ih]

/-- one effect: buffered, then flushed = flushed, then applied directly -/
theorem bufStepP_ok (cap : Nat) (b : BufSt) (st st1 : St) (e : Effect) (hinv : Inv cap b st)
    (hr : run1S st e = some st1) :
    Inv cap (bufStepP cap b e).1 st1 ∧
    ∀ S, prun (prun S (bufStepP cap b e).2) ((bufStepP cap b e).1.flushOps.map OsOpP.lift) =
      prun (prun S (b.flushOps.map OsOpP.lift)) (directP e) := by
  by_cases he : isSyncE e = true
  · unfold run1S at hr
    rw [if_pos he] at hr
    split at hr
    · rename_i hs
      injection hr with hr
      subst hr
      have hp : b.pend = [] := by
        rcases hinv.1 with h | h
        · exact h
        · rw [hs] at h; cases h
      have hb1 : (bufStepP cap b e).1 = b ∧ (bufStepP cap b e).2 = directP e := by
        cases e <;> first | exact ⟨rfl, rfl⟩ | cases he
      rw [hb1.1, hb1.2]
      refine ⟨⟨.inl hp, hinv.2⟩, fun S => ?_⟩
      rw [flushOps_nil b hp]; rfl
    · cases hr
  · have he' : isSyncE e = false := by simpa using he
    have hr1 := run1S_run1 hr
    obtain ⟨h1, h2⟩ := bufStep_ok cap b st st1 e hinv hr1
    rw [bufStepP_nonsync cap b e he', directP_nonsync e he']
    refine ⟨h1, fun S => ?_⟩
    rw [prun_lift _ (bufStep_noSync cap b e he'), prun_lift _ (flushOps_noSync _), prun_lift _ (flushOps_noSync _),
      prun_lift _ (direct_noSync e he')]
    simp only [h2]

/-- a disciplined effect list: buffered run then flush = direct application -/
theorem toOsOpsP_ok (cap : Nat) (es : List Effect) : ∀ (b : BufSt) (st st' : St), Inv cap b st →
    runS st es = some st' →
    Inv cap (toOsOpsP cap b es).1 st' ∧
    ∀ S, prun (prun S (toOsOpsP cap b es).2) ((toOsOpsP cap b es).1.flushOps.map OsOpP.lift) =
      prun (prun S (b.flushOps.map OsOpP.lift)) (directOpsP es) := by
  induction es with
  | nil =>
    intro b st st' hinv hr
    injection hr with hr
    subst hr
    exact ⟨hinv, fun S => rfl⟩
  | cons e es ih =>
    intro b st st' hinv hr
    simp only [runS] at hr
    cases h1 : run1S st e with
    | none => rw [h1] at hr; cases hr
    | some st1 =>
      rw [h1] at hr
      simp only [Option.bind_some] at hr
      obtain ⟨hinv1, hok1⟩ := bufStepP_ok cap b st st1 e hinv h1
      obtain ⟨hinv2, hok2⟩ := ih _ st1 st' hinv1 hr
      rw [toOsOpsP_cons]
      refine ⟨hinv2, fun S => ?_⟩
      simp only
      rw [prun_append, hok2, hok1, directOpsP_cons, prun_append]

/-! ### operation boundaries are effect boundaries -/

theorem pstate_eta (S : PState) : ({ S with vol := S.vol } : PState) = S := by cases S; rfl

theorem noSync_take {ops : List OsOp} (h : NoSync ops) (k : Nat) : NoSync (ops.take k) :=
  fun o ho => h o (List.mem_of_mem_take ho)

theorem bufStepP_prefix (cap : Nat) (b : BufSt) (e : Effect) (S : PState) (k : Nat)
    (hk : k < (bufStepP cap b e).2.length) :
    prun S ((bufStepP cap b e).2.take k) = S ∨
    prun S ((bufStepP cap b e).2.take k) = prun S (b.flushOps.map OsOpP.lift) := by
  by_cases he : isSyncE e = true
  · left
    have hl : (bufStepP cap b e).2.length = 1 := by
      cases e <;> first | rfl | cases he
    have : k = 0 := by omega
    subst this; rfl
  · have he' : isSyncE e = false := by simpa using he
    rw [bufStepP_nonsync cap b e he'] at hk ⊢
    simp only [List.length_map] at hk
    rw [← List.map_take, prun_lift _ (noSync_take (bufStep_noSync cap b e he') k), prun_lift _ (flushOps_noSync b)]
    rcases bufStep_prefix cap b e S.vol k hk with h | h
    · left; rw [h]
    · right; rw [h]

theorem bufStepP_all (cap : Nat) (b : BufSt) (st st1 : St) (e : Effect) (hinv : Inv cap b st)
    (hr : run1S st e = some st1) (S : PState) :
    prun S (bufStepP cap b e).2 = S ∨
    prun S (bufStepP cap b e).2 = prun S (b.flushOps.map OsOpP.lift) ∨
    prun S (bufStepP cap b e).2 = prun (prun S (b.flushOps.map OsOpP.lift)) (directP e) := by
  by_cases he : isSyncE e = true
  · right; right
    unfold run1S at hr
    rw [if_pos he] at hr
    split at hr
    · rename_i hs
      have hp : b.pend = [] := by
        rcases hinv.1 with h | h
        · exact h
        · rw [hs] at h; cases h
      have hb1 : (bufStepP cap b e).2 = directP e := by
        cases e <;> first | rfl | cases he
      rw [hb1, flushOps_nil b hp]; rfl
    · cases hr
  · have he' : isSyncE e = false := by simpa using he
    rw [bufStepP_nonsync cap b e he', directP_nonsync e he']
    simp only
    rw [prun_lift _ (bufStep_noSync cap b e he'), prun_lift _ (flushOps_noSync b),
      prun_lift _ (direct_noSync e he')]
    rcases bufStep_all cap b st st1 e hinv (run1S_run1 hr) S.vol with h | h | h
    · left; rw [h]
    · right; left; rw [h]
    · right; right; rw [h]

/-- **operation boundaries are effect boundaries**, for the power-loss state -/
theorem op_boundaryP (cap : Nat) (es : List Effect) : ∀ (b : BufSt) (st st' : St) (S : PState),
    Inv cap b st → runS st es = some st' → ∀ k,
    ∃ n, prun S ((toOsOpsP cap b es).2.take k) = prun S (directOpsP ((pendW b ++ es).take n)) := by
  induction es with
  | nil =>
    intro b st st' S _ _ k
    exact ⟨0, by simp [toOsOpsP, prun, directOpsP]⟩
  | cons e es ih =>
    intro b st st' S hinv hr k
    simp only [runS] at hr
    cases h1 : run1S st e with
    | none => rw [h1] at hr; cases hr
    | some st1 =>
      rw [h1] at hr
      simp only [Option.bind_some] at hr
      obtain ⟨hinv1, hok⟩ := bufStepP_ok cap b st st1 e hinv h1
      rw [toOsOpsP_cons]
      simp only
      have hb0 : S = prun S (directOpsP ((pendW b ++ e :: es).take 0)) := by
        simp [directOpsP, prun]
      have hb1 : prun S (b.flushOps.map OsOpP.lift) =
          prun S (directOpsP ((pendW b ++ e :: es).take (pendW b).length)) := by
        rw [List.take_left' rfl, pendW_lift]
      have htk : ∀ m, (pendW b ++ e :: es).take ((pendW b).length + 1 + m) = pendW b ++ ([e] ++ es.take m) := by
        intro m
        rw [List.take_append, List.take_of_length_le (by omega)]
        have : (pendW b).length + 1 + m - (pendW b).length = m + 1 := by omega
        rw [this, List.take_succ_cons]
        rfl
      have hb2 : ∀ m, prun (prun (prun S (b.flushOps.map OsOpP.lift)) (directP e)) (directOpsP (es.take m)) =
          prun S (directOpsP ((pendW b ++ e :: es).take ((pendW b).length + 1 + m))) := by
        intro m
        rw [htk, directOpsP_append, directOpsP_append, prun_append, prun_append, pendW_lift]
        simp [directOpsP]
      by_cases hk : k < (bufStepP cap b e).2.length
      · rw [List.take_append_of_le_length (Nat.le_of_lt hk)]
        rcases bufStepP_prefix cap b e S k hk with h | h
        · exact ⟨0, by rw [h]; exact hb0⟩
        · exact ⟨(pendW b).length, by rw [h]; exact hb1⟩
      · have hge : (bufStepP cap b e).2.length ≤ k := by omega
        rw [List.take_append, List.take_of_length_le hge, prun_append]
        obtain ⟨n', hn'⟩ := ih (bufStepP cap b e).1 st1 st' (prun S (bufStepP cap b e).2) hinv1 hr
          (k - (bufStepP cap b e).2.length)
        rw [hn']
        cases n' with
        | zero =>
          show ∃ n, prun S (bufStepP cap b e).2 = prun S (directOpsP ((pendW b ++ e :: es).take n))
          rcases bufStepP_all cap b st st1 e hinv h1 S with h | h | h
          · exact ⟨0, by rw [h]; exact hb0⟩
          · exact ⟨(pendW b).length, by rw [h]; exact hb1⟩
          · refine ⟨(pendW b).length + 1 + 0, ?_⟩
            rw [h, ← hb2 0]
            simp [directOpsP, prun]
        | succ m =>
          by_cases hp1 : (bufStepP cap b e).1.pend = []
          · refine ⟨(pendW b).length + 1 + (m + 1), ?_⟩
            rw [pendW_nil _ hp1, List.nil_append, ← hb2 (m + 1)]
            have := hok S
            rw [flushOps_nil _ hp1] at this
            have hs : prun S (bufStepP cap b e).2 = prun (prun S (b.flushOps.map OsOpP.lift)) (directP e) := this
            rw [hs]
          · refine ⟨(pendW b).length + 1 + m, ?_⟩
            rw [pendW_ne _ hp1, List.cons_append, List.take_succ_cons, directOpsP_cons, prun_append,
              ← hb2 m]
            have := hok S
            rw [flushOps_ne _ hp1] at this
            have hd : directP (Effect.write (bufStepP cap b e).1.file (bufStepP cap b e).1.off (bufStepP cap b e).1.pend) =
                [OsOpP.lift (OsOp.write (bufStepP cap b e).1.file (bufStepP cap b e).1.off (bufStepP cap b e).1.pend)] := rfl
            rw [hd]
            have hm : [OsOp.write (bufStepP cap b e).1.file (bufStepP cap b e).1.off (bufStepP cap b e).1.pend].map OsOpP.lift =
                [OsOpP.lift (OsOp.write (bufStepP cap b e).1.file (bufStepP cap b e).1.off (bufStepP cap b e).1.pend)] := rfl
            rw [hm] at this
            rw [this, List.nil_append]

end MRL.P
