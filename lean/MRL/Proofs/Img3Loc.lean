/-
Genuine located frames of a tape of ITEMS (C08 over crash-reachable states): the items written as
frames (`a.2 = none`), each with the absolute position of its header; junk slots are placeholders
and contribute nothing. The list is `Gen.Located` (strictly increasing positions, the frame after
the one at `q` is at or after `hdrPos (q + 7 + n)`), so `Gen.trace_blocks` applies to it.
-/
import MRL.Proofs.ImgRead
import MRL.Proofs.LDisk

namespace MRL.Img
open MRL Consts Codec Torn Gen G L

/-- located genuine frames of the items laid out from absolute position `P` -/
def glocs (g : Geom) : Nat → List AItm → List (Nat × Frm)
  | _, [] => []
  | P, a :: rest =>
    (if a.2.isNone then [(hdrPos g P, a.1.2)] else []) ++ glocs g (nextPos g P a.1.2.2.length) rest

/-- the genuine frames, in order -/
def gfrs (ais : List AItm) : List Frm := (ais.filter fun a => a.2.isNone).map (·.1.2)

theorem gfrs_append (a b : List AItm) : gfrs (a ++ b) = gfrs a ++ gfrs b := by simp [gfrs]

theorem gfrs_none {ais : List AItm} (h : ∀ a ∈ ais, a.2 = none) : gfrs ais = frs ais := by
  unfold gfrs frs tfs untag
  rw [List.filter_eq_self.mpr (fun a ha => by rw [h a ha]; rfl), List.map_map]
  rfl

theorem glocs_snd (g : Geom) (ais : List AItm) : ∀ P, (glocs g P ais).map (·.2) = gfrs ais := by
  induction ais with
  | nil => intro P; rfl
  | cons a ais ih =>
    intro P
    simp only [glocs, List.map_append, ih, gfrs, List.filter_cons]
    cases h : a.2.isNone <;> simp

theorem glocs_ge (g : Geom) (ais : List AItm) : ∀ P, ∀ y ∈ glocs g P ais, hdrPos g P ≤ y.1 := by
  induction ais with
  | nil => intro P y hy; cases hy
  | cons a ais ih =>
    intro P y hy
    simp only [glocs, List.mem_append] at hy
    rcases hy with hy | hy
    · split at hy
      · simp only [List.mem_singleton] at hy; subst hy; exact Nat.le_refl _
      · cases hy
    · have h1 := ih _ y hy
      have h2 := le_hdrPos g (nextPos g P a.1.2.2.length)
      unfold nextPos at h1 h2; omega

theorem located_glocs (g : Geom) (ais : List AItm) : ∀ P, Located g (glocs g P ais) := by
  induction ais with
  | nil => intro P; exact ⟨List.Pairwise.nil, fun A x Bl h => by cases A <;> simp [glocs] at h⟩
  | cons a ais ih =>
    intro P
    have hge := glocs_ge g ais (nextPos g P a.1.2.2.length)
    have hle := le_hdrPos g (nextPos g P a.1.2.2.length)
    cases hn : a.2.isNone with
    | false =>
      have e : glocs g P (a :: ais) = glocs g (nextPos g P a.1.2.2.length) ais := by simp [glocs, hn]
      rw [e]; exact ih _
    | true =>
      have e : glocs g P (a :: ais) = (hdrPos g P, a.1.2) :: glocs g (nextPos g P a.1.2.2.length) ais := by
        simp [glocs, hn]
      rw [e]
      constructor
      · rw [List.pairwise_cons]
        refine ⟨fun y hy => ?_, (ih _).sorted⟩
        have := hge y hy
        unfold nextPos at this hle; simp only; omega
      · intro A x Bl h y hy
        cases A with
        | nil =>
          simp only [List.nil_append, List.cons.injEq] at h
          obtain ⟨rfl, rfl⟩ := h
          exact hge y hy
        | cons a' A =>
          simp only [List.cons_append, List.cons.injEq] at h
          exact (ih _).gap A x Bl h.2 y hy

/-! ### the collision clause against the genuine frames of an item tape -/

/-- `ais` is an item layout of the tape of `W`: the stream is the bytes of the items from position
    0, zeros, a residue, zeros; junk is junk (`JOK`: a junk slot fails its check or is a torn
    header) -/
def ItemTape (g : Geom) (W : Image) (ais : List AItm) : Prop :=
  Fits g 0 (frs ais) ∧ JOK g (streamOf W).length 0 ais ∧
    ∃ z0 res z1, streamOf W = flatJ g 0 ais ++ zeros z0 ++ res ++ zeros z1

/-- **the collision clause, for images whose tape has junk**: wherever the reader's acceptance
    test passes on the stream of `W'`, the tape of `W` has that very frame — a frame as written,
    not a junk slot — at that very location -/
def NoAccidentalFrameImgX (g : Geom) (W W' : Image) : Prop :=
  ∀ ais, ItemTape g W ais → NoAcc g (glocs g 0 ais) (streamOf W')

end MRL.Img
