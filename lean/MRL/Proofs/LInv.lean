/-
The relaxed combined invariant `CInvX` of a (log, journal, flushed disk) triple — what holds after
any covered crash and everything that follows — its preservation by one entry write, a GC pass, a
whole call, and the `open` lemma: on a `DiskX` disk `recoverPre` succeeds and returns a log that
satisfies `CInvX` for the re-attributed journal; its queues are the old ones up to the handles.
-/
import MRL.Proofs.LRead
import MRL.Proofs.LEntry
import MRL.Proofs.GRestart

namespace MRL.L
open MRL Codec Consts G H Log Buf C05 C01J Torn

/-- invariant of (log, journal, flushed disk) after crashes -/
structure CInvX (g : Geom) (l : Log) (J : List JE) (D : Image) : Prop where
  jinv : JInv l J
  disk : ∃ init t x res ais lead gs, XInvX g l D (l.files.headD 0) J init t x res ais lead gs

theorem TapeX.head {g : Geom} {l : Log} {D : Image} {F : Nat} {init : List Bytes} {t : Bytes} {x : Bool}
    (h : TapeX g l D F init t x) : l.files.headD 0 = F := by
  rw [h.files, show init.length + 1 + (if x then 1 else 0) = (init.length + (if x then 1 else 0)) + 1 by omega,
    List.range'_succ]; rfl

/-- the strict invariant is a special case -/
theorem CInvX.of_cinv {g : Geom} {l : Log} {J : List JE} {D : Image} (h : CInv g l J D) : CInvX g l J D := by
  refine ⟨h.jinv, ?_⟩
  obtain ⟨init, t, afs, lead, segs, x0⟩ := XInv.of_dinv h.disk
  have hfl : ∀ sg : List Seg, (sg.map (fun s : Seg => ((some s.1, plain s.2) : Grp))).flatMap (·.2) =
      plain (sg.flatMap (·.2)) := by
    intro sg
    induction sg with
    | nil => rfl
    | cons s sg ih => simp only [List.map_cons, List.flatMap_cons, plain_append, ih]
  refine ⟨init, t, false, [], plain afs, plain lead, segs.map (fun s => (some s.1, plain s.2)),
    TapeR.of_tapeX (TapeX.of_tape x0.tape), ⟨?_, ?_, ?_, ?_, JOK_plain g _ _ _⟩, Or.inl rfl, ?_, ?_, ?_, ?_⟩
  · rw [flatJ_plain, frs_plain]; exact x0.lay.bytes
  · rw [frs_plain]; exact x0.lay.fits
  · rw [tfs_plain]; exact x0.lay.tagged
  · rw [frs_plain]; exact x0.lay.len
  · rw [hfl, ← plain_append, x0.hafs]
  · intro a ha
    refine ⟨mem_plain ha, ?_⟩
    simp only [plain, List.mem_map] at ha
    obtain ⟨b, hb, rfl⟩ := ha
    exact x0.hlead b hb
  · rw [← x0.hmap]
    simp [liveOf, List.filterMap_map, Function.comp_def, tfs_plain]
  · intro y hy
    obtain ⟨s, hs, rfl⟩ := List.mem_map.mp hy
    exact ⟨by rw [tfs_plain]; exact x0.hsok s hs, fun a ha => mem_plain ha⟩

theorem cinvx_write (g : Geom) {l : Log} {J : List JE} {D : Image} (h : CInvX g l J D) (e : Entry)
    (qs' : MemQueues) (hewf : EntryWF e) (hre : replayEntry l.queues l.cur e = some qs')
    (hinv : Inv ({ (Log.writeEntry g l e).1 with queues := qs' } : Log)) :
    CInvX g ({ (Log.writeEntry g l e).1 with queues := qs' } : Log) (J ++ [l.je g e])
      (applyOsOps D (directOps (Log.writeEntry g l e).2.1)) := by
  have hgrow := writeEntry_grow g l e h.jinv.h.files
  have hhead : ({ (Log.writeEntry g l e).1 with queues := qs' } : Log).files.headD 0 = l.files.headD 0 := by
    have := hgrow.head h.jinv.h.files; exact this
  refine ⟨jinv_write g h.jinv e qs' hewf hre hinv, ?_⟩
  obtain ⟨init, t, x, res, ais, lead, gs, hx⟩ := h.disk
  obtain ⟨i', t', x', ntf, B, hx', _⟩ := entry_extX g hx e
  rw [hhead]
  exact ⟨i', t', x', [], _, lead, _, hx'.congr rfl rfl rfl⟩

theorem mem_range'_lt {F n f : Nat} (h : f ∈ List.range' F n) : F ≤ f ∧ f < F + n := by
  rw [List.mem_range'_1] at h; exact h

/-- a whole GC pass, with explicit witnesses: the touches, then `k` unlinks -/
theorem cinvx_gc (g : Geom) {l : Log} {J : List JE} {D : Image} (h : CInvX g l J D) (order : List Bytes) :
    CInvX g (runGc g l order).1 (J ++ gcJ g l order)
      (applyOsOps D (directOps (runGc g l order).2.1)) := by
  have hJ' := jinv_gc g order h.jinv
  refine ⟨hJ', ?_⟩
  obtain ⟨init, t, x, res, ais, lead, gs, hx⟩ := h.disk
  rcases runGc_full g l order with ⟨h1, h2⟩ | ⟨names, h1, h2⟩
  · rw [h1, h2, List.append_nil]
    exact ⟨init, t, x, res, ais, lead, gs, by simpa [directOps, applyOsOps] using hx⟩
  · rw [h1, h2]
    obtain ⟨i3, t3, x3, r3, ais3, gs3, y3, _⟩ := touches_extX g (l.files.headD 0) lead names l D J init t x res ais gs hx
    have k1 := y3.tape
    rcases hg : gcFiles ((writeTouches g l names).1.canDelete l.cur) (writeTouches g l names).1.files
      with ⟨rem, del⟩
    obtain ⟨hsplit, hcan, hne⟩ := gcFiles_spec _ _ _ _ hg
    rw [k1.files] at hsplit
    obtain ⟨hdel, hrem⟩ := range'_split _ _ _ _ hsplit
    have hk : del.length ≤ i3.length := by
      apply Classical.byContradiction
      intro hn
      have hmem : (writeTouches g l names).1.cur ∈ del := by
        rw [hdel, k1.cur, List.mem_range'_1]; omega
      have := hcan _ hmem
      simp [canDelete] at this
    have hlen : del.length + rem.length = i3.length + 1 + (if x3 then 1 else 0) := by
      have := congrArg List.length hsplit
      simp only [List.length_range', List.length_append] at this
      omega
    obtain ⟨afs', lead', gs', c1⟩ := gc_diskX g y3 del.length hk
    have hrem' : rem = List.range' (l.files.headD 0 + del.length) (i3.length + 1 - del.length + (if x3 then 1 else 0)) := by
      rw [hrem]; congr 1; omega
    have hops : applyOsOps D (directOps ((writeTouches g l names).2.1 ++
        (writeTouches g l names).1.persistEffects .flushAndFsync ++ del.map Effect.unlink)) =
        applyOsOps (applyOsOps D (directOps (writeTouches g l names).2.1))
          ((List.range' (l.files.headD 0) del.length).map OsOp.unlink) := by
      rw [directOps_append, directOps_append, applyOsOps_append, applyOsOps_append]
      have hp : applyOsOps (applyOsOps D (directOps (writeTouches g l names).2.1))
          (directOps ((writeTouches g l names).1.persistEffects .flushAndFsync)) =
          applyOsOps D (directOps (writeTouches g l names).2.1) := by
        simp [persistEffects, directOps, direct, applyOsOps, applyOs_sync]
      rw [hp]
      congr 1
      conv => lhs; rw [hdel]
      simp only [directOps, List.flatMap_map, direct]
      exact flatMap_single _ _
    simp only
    rw [hops, hrem']
    have hhead : ({ (writeTouches g l names).1 with
        files := List.range' (l.files.headD 0 + del.length) (i3.length + 1 - del.length + (if x3 then 1 else 0)) } : Log).files.headD 0 =
        l.files.headD 0 + del.length := c1.tape.head
    rw [hhead]
    exact ⟨_, _, _, _, afs', lead', gs', c1⟩

/-- one call -/
theorem cinvx_step (g : Geom) {l : Log} {J : List JE} {D : Image} (h : CInvX g l J D) (c : Call)
    (tick : Bool) (order : List Bytes) :
    CInvX g (l.step g c tick order).1 (J ++ l.stepJ g c order)
      (applyOsOps D (directOps (l.step g c tick order).2.2)) := by
  have hInv' : Inv (l.step g c tick order).1 := (C05_refines g l h.jinv.h.inv c tick order).2.2
  rcases step_full g l h.jinv.h.inv c tick order with
    ⟨hj, hl, hsy⟩ | ⟨e, qs', sy, hewf, hre, hsy, (⟨hj, hl, heff⟩ | ⟨hj, hl, heff⟩)⟩
  · rw [hj, hl, List.append_nil, hsy]; exact h
  · rw [hl] at hInv'
    rw [hj, hl, heff, directOps_append, applyOsOps_append, hsy]
    exact cinvx_write g h e qs' hewf hre hInv'
  · have hq' : (runGc g { (Log.writeEntry g l e).1 with queues := qs' } order).1.queues = qs' :=
      runGc_queues g _ order
    rw [hl] at hInv'
    have hInv2 : Inv ({ (Log.writeEntry g l e).1 with queues := qs' } : Log) :=
      Inv.of_queues (l := (runGc g { (Log.writeEntry g l e).1 with queues := qs' } order).1) hq'.symm hInv'
    have h2 := cinvx_write g h e qs' hewf hre hInv2
    have h3 := cinvx_gc g h2 order
    rw [hj, hl, heff, directOps_append, directOps_append, applyOsOps_append,
      applyOsOps_append, hsy]
    have e1 : J ++ l.je g e :: gcJ g { (Log.writeEntry g l e).1 with queues := qs' } order =
        J ++ [l.je g e] ++ gcJ g { (Log.writeEntry g l e).1 with queues := qs' } order := by simp
    rw [e1]
    exact h3

theorem CInvX.diskX {g : Geom} {l : Log} {J : List JE} {D : Image} (h : CInvX g l J D) :
    DiskX g D (l.files.headD 0) J := by
  obtain ⟨init, t, x, res, ais, lead, gs, hx⟩ := h.disk
  exact hx.diskX

theorem All2.pairwise_loc {l1 l2 : List JE} (h : All2 (fun a b : JE => a.loc = b.loc) l1 l2)
    (h2 : l2.Pairwise (fun a b => a.loc ≤ b.loc)) : l1.Pairwise (fun a b => a.loc ≤ b.loc) := by
  induction h with
  | nil => exact List.Pairwise.nil
  | @cons a b l1 l2 hab htl ih =>
    rw [List.pairwise_cons] at h2 ⊢
    refine ⟨?_, ih h2.2⟩
    intro a' ha'
    obtain ⟨b', hb', hl⟩ := htl.mem_left a' ha'
    have := h2.1 b' hb'
    omega

/-- **the `open` lemma on a `DiskX` disk** -/
theorem open_diskX (g : Geom) (hB : g.B ≤ 65542) {X : Image} {F : Nat} {J : List JE}
    (hd : DiskX g X F J) (hwf : ∀ j ∈ J, C07.WF j.e) (hewf : ∀ j ∈ J, EntryWF j.e)
    (hmono : J.Pairwise (fun a b => a.loc ≤ b.loc)) (qs : MemQueues)
    (hrep : replayJ F [] J = some qs) (policy : Policy) :
    ∃ (J' : List JE) (lp : Log) (io : Nat),
      recoverPre g X policy none = .ok (lp, [.ensureLen F g.fileBytes], io) ∧
      CInvX g lp J' X ∧ (∀ j ∈ J', C07.WF j.e) ∧ AbsEq qs lp.queues ∧ lp.policy = policy ∧
      lp.files.headD 0 = F := by
  obtain ⟨J', lp, io, init, t, x, res, ais, lead, gs', hrec, hx, hq, hab, hpol, hrel, hcur⟩ :=
    read_diskX g hB hd hwf qs hrep policy
  have hhead : lp.files.headD 0 = F := hx.tape.head
  have hInvlp : Inv lp := by
    obtain ⟨b0, rest, trail, evs, e, _, _, hr⟩ := Rec.recoverPre_ok_replay hrec
    exact Rec.QsInv_replay _ [] _ hr Rec.QsInv_nil
  have hJ'b : ∀ j ∈ J', F ≤ j.attr ∧ j.attr ≤ j.loc ∧ j.loc ≤ lp.cur := by
    intro j hj
    obtain ⟨b, _, _, _, h3, h4⟩ := hrel.mem_left j hj
    exact ⟨h3, h4, hcur j hj⟩
  have hJ'wf : ∀ j ∈ J', C07.WF j.e ∧ EntryWF j.e := by
    intro j hj
    obtain ⟨b, hb, h1, _⟩ := hrel.mem_left j hj
    have hbJ := (List.mem_filter.mp hb).1
    rw [h1]; exact ⟨hwf b hbJ, hewf b hbJ⟩
  have hfiles := hx.tape.files
  have hcurT := hx.tape.cur
  refine ⟨J', lp, io, hrec, ⟨⟨⟨⟨?_, ?_⟩, hInvlp, ?_⟩, ⟨Nat.zero_le _, ?_, ?_, fun j hj => (hJ'wf j hj).2⟩, ?_⟩,
    ?_⟩, fun j hj => (hJ'wf j hj).1, hab, hpol, hhead⟩
  · rw [hfiles]; exact List.pairwise_lt_range'
  · rw [hfiles, hcurT, List.mem_range'_1]; omega
  · intro kv hkv r hr f hf
    have hget : lp.queues.get? kv.1 = some kv.2 := AL.get?_of_mem_nodup hInvlp.1 hkv
    obtain ⟨j, hj, _, hfj⟩ := replay_handles F J' lp.queues hq kv.1 kv.2 hget r hr f hf
    have := hJ'b j hj
    rw [hfiles, List.mem_range'_1, hfj]
    rw [hcurT] at this
    omega
  · intro j hj
    have := hJ'b j hj
    exact ⟨Nat.zero_le _, this.2.1, this.2.2⟩
  · exact All2.pairwise_loc (hrel.imp (fun a b h => h.2.1)) (hmono.sublist List.filter_sublist)
  · rw [hhead]
    exact ⟨lp.queues, hq, QsEquiv.refl _, replayJ_wf _ _ QsWF.nil hq⟩
  · rw [hhead]
    exact ⟨init, t, x, res, ais, lead, gs', hx⟩

/-- reopening a log whose disk satisfies the relaxed invariant -/
theorem open_okX (g : Geom) (hB : g.B ≤ 65542) {l : Log} {J : List JE} {D : Image} (h : CInvX g l J D)
    (hwf : ∀ j ∈ J, C07.WF j.e) (policy : Policy) :
    ∃ (J' : List JE) (lp : Log) (io : Nat),
      recoverPre g D policy none = .ok (lp, [.ensureLen (l.files.headD 0) g.fileBytes], io) ∧
      CInvX g lp J' D ∧ (∀ j ∈ J', C07.WF j.e) ∧ AbsEq lp.queues l.queues ∧ lp.policy = policy ∧
      lp.files.headD 0 = l.files.headD 0 := by
  obtain ⟨hH, chunk, qs, hrep, heq, hqwf⟩ := h.jinv
  obtain ⟨J', lp, io, hrec, hc, hw, hab, hpol, hhead⟩ := open_diskX g hB h.diskX hwf chunk.wf chunk.mono qs hrep policy
  exact ⟨J', lp, io, hrec, hc, hw, hab.symm.trans (AbsEq.of_qsEquiv heq), hpol, hhead⟩

end MRL.L
