/-
Shared by the crash legs (C04C, C18C, C12K): `C02_crash_atomic` repackaged in terms of the
per-queue view — after a crash in the middle of a call, recovery succeeds, returns a well-formed
log, and every queue looks either as before the call or as after it (the same alternative for
all queues).
-/
import MRL.Props.C02Atomic
import MRL.Proofs.StepRestart
import MRL.Props.C18
import MRL.Props.C04
import MRL.Props.C08

namespace MRL.Crash
open MRL Log C01J C02A

/-- `AbsEq` is equality of all per-queue views -/
theorem view_of_absEq {a b : Log} (h : H.AbsEq a.queues b.queues) (q : Bytes) : C18.view a q = C18.view b q :=
  h q

theorem nextOf_view (l : Log) (q : Bytes) : C04.nextOf l q = (C18.view l q).map (·.next) := by
  unfold C04.nextOf C18.view
  cases l.queues.get? q <;> rfl

/-- the image a crash leaves: the first `k` OS operations of the call, the `k`-th cut at `cut` -/
def crashDisk (g : Geom) (cap : Nat) (l : Log) (img : Image) (b : BufSt) (c : Call) (tick : Bool)
    (order : List Bytes) (k cut : Nat) : Image :=
  crashImage img (toOsOps cap b (l.step g c tick order).2.2).2 k cut

/-- **Crash atomicity, per-queue form.** -/
theorem crash_views (g : Geom) (hB : g.B ≤ 65542) (cap : Nat) (l : Log) (J : List JE) (img : Image)
    (b : BufSt) (h : C01R.ReachD g cap l J img b) (hb : b.pend = []) (c : Call) (tick : Bool)
    (order : List Bytes) (hfits : ∀ j ∈ J ++ l.stepJ g c order, C07.WF j.e)
    (htorn : TornStep g l c tick order) (k cut : Nat) (policy' : Policy) (order' : List Bytes) :
    ∃ rec, recover g (crashDisk g cap l img b c tick order k cut) policy' order' none = .ok rec ∧
      C05.Inv rec.log ∧ C05.Inv l ∧
      ((∀ q, C18.view rec.log q = C18.view l q) ∨
       (∀ q, C18.view rec.log q = C18.view (l.step g c tick order).1 q)) := by
  obtain ⟨rec, hrec, hq⟩ := C02_crash_atomic g hB cap l J img b h hb c tick order hfits htorn k cut policy' order'
  have hI : C05.Inv l :=
    Restart.Reach.inv (s := ⟨l, J, img, b⟩) hB h (fun j hj => hfits j (List.mem_append_left _ hj))
  refine ⟨rec, hrec, C08.recover_sorted g _ policy' order' none rec hrec, hI, ?_⟩
  rcases hq with hq | hq
  · exact .inl (view_of_absEq hq)
  · exact .inr (view_of_absEq hq)

end MRL.Crash
