/-
Crash atomicity of one call, phase by phase: a crash while the call's entry and the GC touches
are being written (any byte), and a crash while the GC unlinks the files (any prefix).
-/
import MRL.Proofs.HPhase
import MRL.Proofs.HAbs
import MRL.Proofs.HStepFull
import MRL.Proofs.GRestart

namespace MRL.H
open MRL Codec Consts G Torn Log Buf C05 C01J

/-- the collision clause for the frames written by a list of effects -/
def TornEffs (es : List Effect) : Prop :=
  ∀ t p f off, Effect.write f off (encodeFrame t p) ∈ es → TornFrame t p

theorem recover_of_pre (g : Geom) (X : Image) (policy : Policy) (order : List Bytes) (lp : Log)
    (e0 : List Effect) (io : Nat) (h : recoverPre g X policy none = .ok (lp, e0, io)) :
    ∃ r, recover g X policy order none = .ok r ∧ r.log.queues = lp.queues := by
  refine ⟨_, by rw [Rec.recover_none, h], ?_⟩
  exact runGc_queues g lp order

theorem touchesJ_length (g : Geom) (names : List Bytes) (l : Log) : (touchesJ g l names).length = names.length := by
  have := congrArg List.length (touchesJ_entries g names l).1
  simpa using this

/-- **crash while the entry and the touches are written** -/
theorem write_phase_crash (g : Geom) (hB : g.B ≤ 65542) {l : Log} {J : List JE} {D : Image}
    (h : CInv g l J D) (e : Entry) (qs' : MemQueues) (hewf : EntryWF e)
    (hre : replayEntry l.queues l.cur e = some qs')
    (hinv2 : Inv ({ (Log.writeEntry g l e).1 with queues := qs' } : Log)) (names : List Bytes)
    (hnames : ∀ n ∈ names, n ∈ qs'.emptyNames)
    (hwf : ∀ j ∈ J ++ l.je g e :: touchesJ g { (Log.writeEntry g l e).1 with queues := qs' } names, C07.WF j.e)
    (htorn : TornEffs ((Log.writeEntry g l e).2.1 ++
      (writeTouches g { (Log.writeEntry g l e).1 with queues := qs' } names).2.1))
    (X : Image)
    (hX : CutState D ((Log.writeEntry g l e).2.1 ++
      (writeTouches g { (Log.writeEntry g l e).1 with queues := qs' } names).2.1) X)
    (policy : Policy) :
    ∃ lp e0 io, recoverPre g X policy none = .ok (lp, e0, io) ∧
      (QsEquiv lp.queues l.queues ∨ QsEquiv lp.queues qs') := by
  -- notation
  have hF : l.files.headD 0 ≤ l.cur := head_le_of_mem h.jinv.h.files.sorted h.jinv.h.files.cur_mem
  have h2 := cinv_write g h e qs' hewf hre hinv2
  have hgrow := writeEntry_grow g l e h.jinv.h.files
  have hhead2 : ({ (Log.writeEntry g l e).1 with queues := qs' } : Log).files.headD 0 = l.files.headD 0 := by
    have := hgrow.head h.jinv.h.files; exact this
  have hF2 : l.files.headD 0 ≤ ({ (Log.writeEntry g l e).1 with queues := qs' } : Log).cur :=
    Nat.le_trans hF hgrow.cur_le
  -- explicit witnesses along the write phase
  obtain ⟨init, t, afs, lead, segs, x0⟩ := XInv.of_dinv h.disk
  obtain ⟨i1, t1, ntf1, B1, x1, hne1, hlen1, hP1, hcut1, hmem1⟩ := entry_ext g x0 e
  have x1' : XInv g ({ (Log.writeEntry g l e).1 with queues := qs' } : Log)
      (applyOsOps D (directOps (Log.writeEntry g l e).2.1)) (l.files.headD 0) (J ++ [l.je g e]) i1 t1
      (afs ++ ntf1) lead (segs ++ [(l.je g e, ntf1)]) := x1.congr rfl rfl rfl
  obtain ⟨i3, t3, ntf2, ns2, B2, x3, hlen3, hnil3, hP3, hcut3, hmem3⟩ :=
    touches_ext g (l.files.headD 0) lead names _ _ _ _ _ _ _ x1'
  -- journal facts for the whole write phase
  have hch1 := je_chunk g l e h.jinv.h.files hewf
  have hch2 := touchesJ_chunk g names _ h2.jinv.h.files
  have hJeq : J ++ l.je g e :: touchesJ g { (Log.writeEntry g l e).1 with queues := qs' } names =
      J ++ [l.je g e] ++ touchesJ g { (Log.writeEntry g l e).1 with queues := qs' } names := by simp
  have hmono3 : Mono2 (J ++ [l.je g e] ++ touchesJ g { (Log.writeEntry g l e).1 with queues := qs' } names) :=
    mono2_extend h2.mono2 h2.jinv.chunk hch2 (mono2_touches g names _ h2.jinv.h.files)
  have hchunk3 := h2.jinv.chunk.append hch2
  have hfirst3 : FirstOK (l.files.headD 0)
      (J ++ [l.je g e] ++ touchesJ g { (Log.writeEntry g l e).1 with queues := qs' } names)
      (writeTouches g { (Log.writeEntry g l e).1 with queues := qs' } names).1.cur := by
    have hf2 := h2.first
    rw [hhead2] at hf2
    apply firstOK_extend hf2
    · intro hn
      cases names with
      | nil => rfl
      | cons n ns => rw [touchesJ_cons] at hn; cases hn
    · intro j1 hj1
      cases names with
      | nil => cases hj1
      | cons n ns =>
        rw [touchesJ_cons] at hj1
        simp only [List.head?_cons, Option.some.injEq] at hj1
        subst hj1
        exact ⟨rfl, nextLoc_ge g _⟩
  have hfirst := hfirst_of hmono3 hchunk3 hfirst3
  -- the exact replay of the new entries on the queues of the log
  obtain ⟨hHl, chunk, qs, hrep, heq, hqwf⟩ := h.jinv
  have hexact : ∀ i, replayJ (l.files.headD 0) l.queues
      (l.je g e :: (touchesJ g { (Log.writeEntry g l e).1 with queues := qs' } names).take i) = some qs' := by
    intro i
    have : l.je g e :: (touchesJ g { (Log.writeEntry g l e).1 with queues := qs' } names).take i =
        [l.je g e] ++ touchesJ g { (Log.writeEntry g l e).1 with queues := qs' } (names.take i) := by
      rw [touchesJ_take]; rfl
    rw [this, replayJ_append, replay_je g l e qs' _ hF hre]
    exact touches_replay g (l.files.headD 0) (names.take i) _ h2.jinv.h.files hF2 hinv2.1
      (fun n hn => hnames n (List.mem_of_mem_take hn))
  obtain ⟨qf, hqf, _, _⟩ := extend_rep hHl.inv hrep heq hqwf
    (by have := hexact names.length; rwa [List.take_of_length_le (by
      rw [touchesJ_length]; exact Nat.le_refl _)] at this)
  -- the crash state is a crash tape of the final bytes
  have hlenF : (i3.flatten ++ t3).length = endPos g 0 (untag (afs ++ ntf1 ++ ntf2)) := by
    by_cases hn : names = []
    · obtain ⟨a1, _, a3⟩ := hnil3 hn
      subst a1
      rw [List.append_nil, hP3, a3, List.append_nil]
      exact hlen1
    · exact (hlen3 hn).2
  have hctape : ∃ Pm, CTape g (l.files.headD 0) Pm X ∧ PrefixCut (init.flatten ++ t) (i3.flatten ++ t3) Pm := by
    rcases CutState.of_append _ hX with hX | hX
    · obtain ⟨Pm, c1, c2⟩ := hcut1 X hX
      exact ⟨Pm, c1, by rw [hP3]; exact c2.extend B2⟩
    · obtain ⟨Pm, c1, c2⟩ := hcut3 X hX
      refine ⟨Pm, c1, ?_⟩
      rw [hP1] at c2
      exact c2.shift
  obtain ⟨Pm, hct, hpc⟩ := hctape
  have hnewloc : ∀ j ∈ l.je g e :: touchesJ g { (Log.writeEntry g l e).1 with queues := qs' } names,
      l.files.headD 0 ≤ j.loc := by
    intro j hj
    rcases List.mem_cons.mp hj with rfl | hj
    · have := hch1.bounds (l.je g e) (by simp); omega
    · have := hch2.bounds j hj; omega
  have x3' : XInv g (writeTouches g { (Log.writeEntry g l e).1 with queues := qs' } names).1
      (applyOsOps (applyOsOps D (directOps (Log.writeEntry g l e).2.1))
        (directOps (writeTouches g { (Log.writeEntry g l e).1 with queues := qs' } names).2.1))
      (l.files.headD 0) (J ++ l.je g e :: touchesJ g { (Log.writeEntry g l e).1 with queues := qs' } names)
      i3 t3 (afs ++ (ntf1 ++ ntf2)) lead (segs ++ ((l.je g e, ntf1) :: ns2)) := by
    have := x3
    rw [← hJeq] at this
    rw [List.append_assoc afs, show segs ++ [(l.je g e, ntf1)] ++ ns2 = segs ++ ((l.je g e, ntf1) :: ns2) by simp] at this
    exact this
  obtain ⟨i, qsr, lp, e0, io, hi, hqr, hrec, hlq⟩ := phase_read g hB x0 x3'
    (by rw [← List.append_assoc]; exact hlenF) hnewloc hwf (by rw [hJeq]; exact hfirst) qf hqf
    (by
      intro a ha
      have hm : ∃ f off, Effect.write f off (encodeFrame a.2.1 a.2.2) ∈ (Log.writeEntry g l e).2.1 ++
          (writeTouches g { (Log.writeEntry g l e).1 with queues := qs' } names).2.1 := by
        rcases List.mem_append.mp ha with ha | ha
        · obtain ⟨f, off, hm⟩ := hmem1 a ha
          exact ⟨f, off, List.mem_append_left _ hm⟩
        · obtain ⟨f, off, hm⟩ := hmem3 a ha
          exact ⟨f, off, List.mem_append_right _ hm⟩
      obtain ⟨f, off, hm⟩ := hm
      exact htorn _ _ f off hm)
    X Pm hct hpc policy
  refine ⟨lp, e0, io, hrec, ?_⟩
  rw [hlq]
  cases i with
  | zero =>
    left
    simp only [List.take_zero, List.append_nil] at hqr
    rw [hrep] at hqr
    cases hqr
    exact heq
  | succ i =>
    right
    rw [List.take_succ_cons] at hqr
    obtain ⟨q1, r1, r2, _⟩ := extend_rep hHl.inv hrep heq hqwf (hexact i)
    rw [hqr] at r1
    cases r1
    exact r2

end MRL.H
