/-
`LR.asm_damaged`, saying WHICH entry is lost. `hitGroup lead gs n`: the item at position `n` of the
tape `lead ++ gs.flatMap (·.2)` lies in a live group — then `some k`, `k` the number of live groups
before it, i.e. the index of its entry among the retained entries — or in the lead frames / a dead
group / a junk slot — then `none`, and nothing is lost.
-/
import MRL.Proofs.LDamage

namespace MRL.LR
open MRL Codec Consts G H Log C05 Torn L

/-- the live group (counted among the live ones, from `c`) holding position `n` of the groups' items -/
def hitGroups : List Grp → Nat → Nat → Option Nat
  | [], _, _ => none
  | x :: gs, n, c =>
    if n < x.2.length then x.1.map (fun _ => c)
    else hitGroups gs (n - x.2.length) (c + (if x.1.isSome then 1 else 0))

/-- the live group holding position `n` of the tape `lead ++ gs.flatMap (·.2)`, if any -/
def hitGroup (lead : List AItm) (gs : List Grp) (n : Nat) : Option Nat :=
  if n < lead.length then none else hitGroups gs (n - lead.length) 0

theorem liveJ_cons_length (y : Grp) (gs : List Grp) :
    (liveJ (y :: gs)).length = (if y.1.isSome then 1 else 0) + (liveJ gs).length := by
  obtain ⟨oj, fs⟩ := y
  cases oj with
  | none => simp [liveJ, liveOf_cons_none]
  | some j => simp [liveJ, liveOf_cons_some]; omega

theorem hitGroups_spec : ∀ (g1 : List Grp) (x : Grp) (g2 : List Grp) (pre : List AItm) (a : AItm)
    (post : List AItm), x.2 = pre ++ a :: post → ∀ c,
    hitGroups (g1 ++ x :: g2) ((g1.flatMap (·.2)).length + pre.length) c =
      x.1.map (fun _ => c + (liveJ g1).length)
  | [], x, g2, pre, a, post, hx, c => by
    simp only [List.nil_append, List.flatMap_nil, List.length_nil, Nat.zero_add, hitGroups]
    rw [if_pos (by rw [hx]; simp)]
    simp [liveJ, liveOf]
  | y :: g1, x, g2, pre, a, post, hx, c => by
    simp only [List.cons_append, List.flatMap_cons, List.length_append, hitGroups]
    rw [if_neg (by omega)]
    have : y.2.length + (g1.flatMap (·.2)).length + pre.length - y.2.length =
        (g1.flatMap (·.2)).length + pre.length := by omega
    rw [this, hitGroups_spec g1 x g2 pre a post hx, liveJ_cons_length]
    congr 1
    funext _
    omega

theorem asm_damagedW (F : Nat) (lead : List AItm) (gs : List Grp)
    (hlead : ∀ a ∈ lead, a.2 = none ∧ a.1.2.1.isFirst = false) (hok : ∀ y ∈ gs, GrpOK y)
    (hmono : (tfs (lead ++ gs.flatMap (·.2))).Pairwise (fun a b => a.1 ≤ b.1))
    (hF : ∀ x ∈ tfs (lead ++ gs.flatMap (·.2)), F ≤ x.1)
    (A1 : List AItm) (a : AItm) (A2 : List AItm) (hsplit : lead ++ gs.flatMap (·.2) = A1 ++ a :: A2)
    (ha : a.2 = none) (a' : AItm) (hf : a'.1.1 = a.1.1) (ht : a'.1.2.1 = a.1.2.1) (r : Bytes)
    (hr : a'.2 = some r) (tail : List RdEv) :
    ∃ (Jd : List JE) (st' : AsmSt) (R : List RecEv),
      assemble { within := false, buf := [], attr := F } (evsJ (A1 ++ a' :: A2) ++ tail) = R ++ assemble st' tail ∧
      entriesOf R = entriesEv Jd ∧
      (match hitGroup lead gs A1.length with
       | none => All2 (Rel F) Jd (liveJ gs)
       | some k => All2 (Rel F) Jd ((liveJ gs).eraseIdx k) ∧
           ∃ j fs, (liveJ gs)[k]? = some j ∧ (some j, fs) ∈ gs ∧ a ∈ fs) := by
  -- tags after the damaged frame
  rw [hsplit] at hmono hF
  have hFa : F ≤ a'.1.1 := by rw [hf]; exact hF a.1 (by rw [tfs_append, tfs_cons]; simp)
  have hafter : ∀ b ∈ tfs A2, a'.1.1 ≤ b.1 := by
    intro b hb
    rw [tfs_append, tfs_cons] at hmono
    rw [hf]
    exact (List.pairwise_cons.mp (List.pairwise_append.mp hmono).2.1).1 b hb
  have hmonoA2 : (tfs A2).Pairwise (fun a b => a.1 ≤ b.1) := by
    rw [tfs_append, tfs_cons] at hmono
    exact (List.pairwise_cons.mp (List.pairwise_append.mp hmono).2.1).2
  have hmonoA1 : (tfs A1).Pairwise (fun a b => a.1 ≤ b.1) := by
    rw [tfs_append] at hmono
    exact (List.pairwise_append.mp hmono).1
  have hcase : (∃ l2, lead = A1 ++ a :: l2 ∧ A2 = l2 ++ gs.flatMap (·.2)) ∨
      (∃ c, A1 = lead ++ c ∧ gs.flatMap (·.2) = c ++ a :: A2) := by
    rcases List.append_eq_append_iff.mp hsplit with ⟨c, h1, h2⟩ | ⟨c, h1, h2⟩
    · exact Or.inr ⟨c, h1, h2⟩
    · cases c with
      | nil => exact Or.inr ⟨[], by simpa using h1.symm, by simpa using h2.symm⟩
      | cons c0 c =>
        simp only [List.cons_append, List.cons.injEq] at h2
        obtain ⟨rfl, h2⟩ := h2
        exact Or.inl ⟨c, h1, h2⟩
  rcases hcase with ⟨l2, hl, hA2⟩ | ⟨c, hA1, hG⟩
  · -- a lead frame
    have hA1n : ∀ x ∈ A1, x.2 = none ∧ x.1.2.1.isFirst = false :=
      fun x hx => hlead x (by rw [hl]; exact List.mem_append_left _ hx)
    have hl2n : ∀ x ∈ l2, x.2 = none ∧ x.1.2.1.isFirst = false :=
      fun x hx => hlead x (by rw [hl]; exact List.mem_append_right _ (List.mem_cons_of_mem _ hx))
    have hnf : ∀ (X : List AItm), (∀ x ∈ X, x.2 = none ∧ x.1.2.1.isFirst = false) →
        ∀ y ∈ tfs X, y.2.1.isFirst = false := by
      intro X hX y hy
      obtain ⟨x, hx, rfl⟩ := List.mem_map.mp hy
      exact (hX x hx).2
    have hev : evJ a' = RdEv.corrupt a'.1.1 := by simp [evJ, hr]
    rw [hA2] at hafter hmonoA2
    rw [tfs_append] at hafter hmonoA2
    obtain ⟨Jd, st', R, g4, g5, g3⟩ := asm_groups' F gs { within := false, buf := [], attr := a'.1.1 } tail hok
      (List.pairwise_append.mp hmonoA2).2.1 (fun b hb => hafter b (List.mem_append_right _ hb)) hFa
    have hhit : hitGroup lead gs A1.length = none := by
      unfold hitGroup
      rw [if_pos (by rw [hl]; simp)]
    refine ⟨Jd, st', RecEv.corrupt :: R, ?_, by simpa [entriesOf, List.filter_cons] using g5, by rw [hhit]; exact g3⟩
    rw [hA2, evsJ_append, evsJ_cons, evsJ_append, evsJ_none (fun x hx => (hA1n x hx).1),
      evsJ_none (fun x hx => (hl2n x hx).1), hev, List.append_assoc, assemble_lead _ rfl (tfs A1) _ (hnf A1 hA1n)]
    simp only [List.cons_append, assemble, List.append_assoc]
    rw [assemble_lead _ rfl (tfs l2) _ (hnf l2 hl2n), g4]
  · -- a frame of a group
    obtain ⟨g1, x, g2, pre, post, hgs, hx, hc, hA2⟩ := flatMap_split (fun y : Grp => y.2) gs c a A2 hG
    have hok1 : ∀ y ∈ g1, GrpOK y := fun y hy => hok y (by rw [hgs]; exact List.mem_append_left _ hy)
    have hok2 : ∀ y ∈ g2, GrpOK y := fun y hy =>
      hok y (by rw [hgs]; exact List.mem_append_right _ (List.mem_cons_of_mem _ hy))
    have hokx : GrpOK x := hok x (by rw [hgs]; simp)
    -- tags
    rw [hA1, hc] at hmonoA1 hF
    have hmono1 : (tfs (g1.flatMap (·.2))).Pairwise (fun a b => a.1 ≤ b.1) := by
      rw [tfs_append, tfs_append] at hmonoA1
      exact (List.pairwise_append.mp (List.pairwise_append.mp hmonoA1).2.1).1
    have hF1 : ∀ b ∈ tfs (g1.flatMap (·.2)), F ≤ b.1 := by
      intro b hb
      apply hF b
      rw [tfs_append, tfs_append, tfs_append]
      exact List.mem_append_left _ (List.mem_append_right _ (List.mem_append_left _ hb))
    rw [hA2, tfs_append] at hafter hmonoA2
    -- the three parts
    have hnf : ∀ y ∈ tfs lead, y.2.1.isFirst = false := by
      intro y hy
      obtain ⟨z, hz, rfl⟩ := List.mem_map.mp hy
      exact (hlead z hz).2
    obtain ⟨Jd1, st1, R1, p4, p5, p3⟩ := asm_groups' F g1 { within := false, buf := [], attr := F }
      (evsJ (pre ++ a' :: post) ++ (evsJ (g2.flatMap (·.2)) ++ tail)) hok1 hmono1 hF1 (Nat.le_refl _)
    obtain ⟨buf, hb⟩ := grp_damaged x hokx pre a post hx ha a' ht r hr st1 (evsJ (g2.flatMap (·.2)) ++ tail)
    obtain ⟨Jd2, st2, R2, q4, q5, q3⟩ := asm_groups' F g2 { within := false, buf := buf, attr := a'.1.1 } tail hok2
      (List.pairwise_append.mp hmonoA2).2.1 (fun b hb => hafter b (List.mem_append_right _ hb)) hFa
    have hasm : assemble { within := false, buf := [], attr := F } (evsJ (A1 ++ a' :: A2) ++ tail) =
        (R1 ++ RecEv.corrupt :: R2) ++ assemble st2 tail := by
      rw [hA1, hc, hA2]
      have e1 : evsJ ((lead ++ (g1.flatMap (·.2) ++ pre)) ++ a' :: (post ++ g2.flatMap (·.2))) ++ tail =
          evsOf (tfs lead) ++ (evsJ (g1.flatMap (·.2)) ++
            (evsJ (pre ++ a' :: post) ++ (evsJ (g2.flatMap (·.2)) ++ tail))) := by
        rw [← evsJ_none (fun y hy => (hlead y hy).1)]
        simp only [evsJ_append, evsJ_cons, List.append_assoc, List.cons_append]
      rw [e1, assemble_lead _ rfl (tfs lead) _ hnf, p4, hb, q4]
      simp only [List.append_assoc, List.cons_append]
    have hents : entriesOf (R1 ++ RecEv.corrupt :: R2) = entriesEv (Jd1 ++ Jd2) := by
      have : entriesOf (R1 ++ RecEv.corrupt :: R2) = entriesOf R1 ++ entriesOf R2 := by
        simp [entriesOf, List.filter_append, List.filter_cons]
      rw [this, p5, q5]
      simp [entriesEv]
    have hhit : hitGroup lead gs A1.length = x.1.map (fun _ => (liveJ g1).length) := by
      unfold hitGroup
      rw [if_neg (by rw [hA1]; simp)]
      have hn : A1.length - lead.length = (g1.flatMap (·.2)).length + pre.length := by
        rw [hA1, hc]; simp
      rw [hn, hgs, hitGroups_spec g1 x g2 pre a post hx 0]
      simp
    refine ⟨Jd1 ++ Jd2, st2, R1 ++ RecEv.corrupt :: R2, hasm, hents, ?_⟩
    rw [hhit]
    cases hx1 : x.1 with
    | none =>
      simp only [Option.map_none]
      rw [hgs, liveJ_append]
      have : liveJ (x :: g2) = liveJ g2 := by
        obtain ⟨oj, fs⟩ := x
        simp only at hx1
        subst hx1
        simp [liveJ, liveOf_cons_none]
      rw [this]
      exact all2_append p3 q3
    | some j =>
      simp only [Option.map_some]
      have hlive : liveJ gs = liveJ g1 ++ j :: liveJ g2 := by
        rw [hgs, liveJ_append]
        congr 1
        obtain ⟨oj, fs⟩ := x
        simp only at hx1
        subst hx1
        simp [liveJ, liveOf_cons_some]
      refine ⟨?_, j, x.2, ?_, ?_, ?_⟩
      · rw [hlive, List.eraseIdx_append_of_length_le (Nat.le_refl _), Nat.sub_self]
        exact all2_append p3 q3
      · rw [hlive, List.getElem?_append_right (Nat.le_refl _), Nat.sub_self]; rfl
      · rw [hgs]
        obtain ⟨oj, fs⟩ := x
        simp only at hx1
        subst hx1
        simp
      · rw [hx]; simp

end MRL.LR
