/-
Opening a disk that satisfies the disk invariant: `recoverPre` succeeds, returns the tracked
files, the writer's cursor (normalised to the next block start when fewer than 7 bytes remain in
the block), and the queues obtained by replaying the retained part of the journal.
-/
import MRL.Proofs.GGc
import MRL.Proofs.RecIo

namespace MRL.G
open MRL Codec Consts Log

theorem tagFrom_of_Tagged (g : Geom) (F : Nat) (afs : List TFrm) : ∀ p, Tagged g F p afs →
    tagFrom g F p (untag afs) = afs := by
  induction afs with
  | nil => intro p _; rfl
  | cons a afs ih =>
    intro p h
    simp only [untag, List.map_cons, tagFrom]
    rw [← h.1]
    have := ih _ h.2
    simp only [untag] at this
    rw [this]

theorem prepare_full (g : Geom) (F : Nat) (c : Bytes) (cs : List Bytes) (hc : c.length = g.fileBytes) :
    prepareImage g (imgOf F (c :: cs)) = (imgOf F (c :: cs), [.ensureLen F g.fileBytes]) := by
  have := B_le_fileBytes g
  simp only [imgOf, prepareImage]
  rw [if_neg (by omega)]

theorem mul_fb (g : Geom) (a : Nat) : a * g.fileBytes = a * g.K * g.B := by
  unfold Geom.fileBytes; rw [Nat.mul_comm g.B g.K, Nat.mul_assoc]

/-- from the reader's end position to the recovered cursor -/
theorem end_decomp (g : Geom) (a W ke ce : Nat) (hlo : a * g.fileBytes ≤ W)
    (hhi : W ≤ (a + 1) * g.fileBytes) (hke : ke < (a + 1) * g.K)
    (hce : ce < g.B ∨ (ce = g.B ∧ ke + 1 = (a + 1) * g.K)) (heq : ke * g.B + ce = W) :
    ke / g.K = a ∧ (ke % g.K) * g.B + ce = W - a * g.fileBytes := by
  have hB : 0 < g.B := by have := Bpos g; omega
  have hK := g.hK
  have hfb := fileBytes_pos g
  have hdm := Nat.div_add_mod ke g.K
  rcases hce with hce | ⟨hce, hk1⟩
  · have hdiv : W / g.fileBytes = ke / g.K := by rw [← heq]; exact pos_file g ke ce hce
    have hlt : W < (a + 1) * g.fileBytes := by
      apply Classical.byContradiction
      intro hn
      have hW : W = (a + 1) * g.K * g.B := by rw [← mul_fb]; omega
      have : ke = (a + 1) * g.K := by
        have h1 := pos_div g ke ce hce
        rw [heq, hW, Nat.mul_div_cancel _ hB] at h1
        exact h1.symm
      omega
    have ha : W / g.fileBytes = a := by
      have : W = a * g.fileBytes + (W - a * g.fileBytes) := by omega
      rw [this, div_fileBytes _ _ _ (by rw [Nat.add_mul, Nat.one_mul] at hlt; omega)]
    have hka : ke / g.K = a := by rw [← hdiv, ha]
    refine ⟨hka, ?_⟩
    have h1 : ke * g.B = a * g.fileBytes + (ke % g.K) * g.B := by
      conv => lhs; rw [← hdm]
      rw [hka, Nat.add_mul, mul_fb, Nat.mul_comm g.K a]
    omega
  · have hke' : ke = a * g.K + (g.K - 1) := by rw [Nat.add_mul, Nat.one_mul] at hk1; omega
    have hka : ke / g.K = a := by
      rw [hke', Nat.mul_comm a g.K, Nat.mul_add_div hK, Nat.div_eq_of_lt (by omega), Nat.add_zero]
    have hkm : ke % g.K = g.K - 1 := by
      rw [hke', Nat.mul_comm a g.K, Nat.mul_add_mod, Nat.mod_eq_of_lt (by omega)]
    refine ⟨hka, ?_⟩
    have h1 : ke * g.B = a * g.fileBytes + (g.K - 1) * g.B := by
      rw [hke', Nat.add_mul, mul_fb]
    have h2 : (g.K - 1) * g.B + g.B = g.fileBytes := by
      unfold Geom.fileBytes
      rw [Nat.mul_comm g.B g.K]
      have : g.K = (g.K - 1) + 1 := by omega
      conv => rhs; rw [this, Nat.add_mul, Nat.one_mul]
    rw [hkm, hce]
    omega

theorem read_disk (g : Geom) (hB : g.B ≤ 65542) {l : Log} {D : Image} {J : List JE} {F : Nat}
    (h : DInvF g l D J F) (policy : Policy) (qs : MemQueues) (hrep : replayJ F [] J = some qs)
    (hwf : ∀ j ∈ J, C07.WF j.e)
    (hfirst : ∀ j, (J.filter (fun j => decide (F ≤ j.loc))).head? = some j → j.attr ≤ F) :
    ∃ lp io, recoverPre g D policy none = .ok (lp, [.ensureLen F g.fileBytes], io) ∧
      lp.files = l.files ∧ lp.cur = l.cur ∧ lp.queues = qs ∧ lp.policy = policy ∧ DInvF g lp D J F := by
  have hB7 := Bpos g
  have hfb := fileBytes_pos g
  obtain ⟨init, t, afs, hT, hL, hS, hC, hN⟩ := h
  have hPl := hT.P_length
  have hE := layout0_length g (untag afs) hL.fits
  -- the chunks
  have hlastlen : (t ++ zeros (g.fileBytes - l.off)).length = g.fileBytes := by
    have := hT.off_le
    simp [hT.tlen]; omega
  have hfull : ∀ c ∈ init ++ [t ++ zeros (g.fileBytes - l.off)], c.length = g.fileBytes := by
    intro c hc
    rcases List.mem_append.mp hc with hc | hc
    · exact hT.full c hc
    · simp only [List.mem_singleton] at hc; rw [hc]; exact hlastlen
  obtain ⟨c0, cs', hcs⟩ : ∃ c0 cs', init ++ [t ++ zeros (g.fileBytes - l.off)] = c0 :: cs' := by
    cases init with
    | nil => exact ⟨_, [], rfl⟩
    | cons x xs => exact ⟨x, xs ++ [_], rfl⟩
  have hprep : prepareImage g D = (D, [.ensureLen F g.fileBytes]) := by
    rw [hT.img, hcs]
    exact prepare_full g F c0 cs' (hfull c0 (by rw [hcs]; exact List.mem_cons_self))
  -- the stream
  let S : Bytes := (init ++ [t ++ zeros (g.fileBytes - l.off)]).flatten
  have hSeq : S = (layoutBufs g 0 (untag afs)).flatten ++
      zeros ((init.flatten ++ t).length - endPos g 0 (untag afs) + (g.fileBytes - l.off)) := by
    show (init ++ [t ++ zeros (g.fileBytes - l.off)]).flatten = _
    rw [List.flatten_append, List.flatten_singleton, ← List.append_assoc]
    conv => lhs; rw [hL.bytes]
    rw [List.append_assoc, ← zeros_add]
  have hSlen : S.length = ((init.length + 1) * g.K) * g.B := by
    show (init ++ [t ++ zeros (g.fileBytes - l.off)]).flatten.length = _
    rw [flatten_length_full _ _ hfull, ← mul_fb]; simp
  have hNpos : 0 < (init.length + 1) * g.K := Nat.mul_pos (Nat.succ_pos _) g.hK
  -- the blocks
  have hblocks := blocksOf_imgOf g F (init ++ [t ++ zeros (g.fileBytes - l.off)]) 0 [] hfull (by simp)
  simp only [Nat.add_zero, List.nil_append, Nat.zero_mul, List.length_append, List.length_cons,
    List.length_nil, Nat.zero_add] at hblocks
  rw [← hT.img] at hblocks
  obtain ⟨m, hm⟩ : ∃ m, (init.length + 1) * g.K = m + 1 := ⟨(init.length + 1) * g.K - 1, by omega⟩
  rcases hbo : blocksOf g D 1 with ⟨bs, trail⟩
  rw [hbo] at hblocks
  simp only at hblocks
  rw [hm, blksFrom_succ] at hblocks
  have hbo' : blocksOf g (prepareImage g D).1 1 = (blkAt g F S 0 :: blksFrom g F S 1 m, trail) := by
    rw [hprep, hbo, hblocks]
  -- the scan
  obtain ⟨e, hscan, hend⟩ := readS_layout g hB F S ((init.length + 1) * g.K) hSlen (untag afs) 0 0 _
    hNpos (by omega) hL.fits (by simpa using hSeq)
  have hm1 : (init.length + 1) * g.K - (0 + 1) = m := by omega
  rw [hm1, Nat.zero_mul, Nat.zero_add, tagFrom_of_Tagged g F afs 0 hL.tagged] at hscan
  obtain ⟨io', hio⟩ := scanBlocks_eq_scanB g trail (blkAt g F S 0).cost (blkAt g F S 0) 0 (blksFrom g F S 1 m)
  rw [hscan] at hio
  -- assemble and replay
  obtain ⟨lead, segs, hafs, hlead, hmap, hsok, hchain⟩ := hS
  have hb0 : (blkAt g F S 0).file = F := by simp [blkAt]
  have hasm : assemble { within := false, buf := [], attr := F } (evsOf afs) = readerOut F segs := by
    rw [hafs, evsOf_append, assemble_lead _ rfl lead _ hlead, assemble_segs segs F [] hsok]
  have hsegJ : ∀ s ∈ segs, s.1 ∈ J ∧ F ≤ s.1.loc := by
    intro s hs
    have : s.1 ∈ segs.map (·.1) := List.mem_map_of_mem (f := (·.1)) hs
    rw [hmap] at this
    have := List.mem_filter.mp this
    exact ⟨this.1, by simpa using this.2⟩
  have hattr : AttrOK F F segs := by
    apply AttrOK_of_chain F segs F _ hchain
    · intro s hs
      have hj : s.1 = (J.filter (fun j => decide (F ≤ j.loc))).head?.getD s.1 := by
        rw [← hmap]
        cases segs with
        | nil => cases hs
        | cons s' rest =>
          simp only [List.head?_cons, Option.some.injEq] at hs
          subst hs; rfl
      have hle : s.1.attr ≤ F := by
        apply hfirst
        rw [← hmap]
        cases segs with
        | nil => cases hs
        | cons s' rest =>
          simp only [List.head?_cons, Option.some.injEq] at hs
          subst hs; rfl
      omega
    · intro s hs
      have hso := hsok s hs
      refine ⟨?_, ?_⟩
      · intro hnil
        have := hso.frames.ne_nil
        rw [hnil] at this; exact this rfl
      · intro x hx
        have hxa : x ∈ afs := by
          rw [hafs]
          exact List.mem_append_right _ (List.mem_flatMap.mpr ⟨s, hs, hx⟩)
        obtain ⟨hh, _, _, h3⟩ := tag_pos g F afs 0 hL.tagged x hxa
        rw [h3]; exact Nat.le_add_right _ _
  have hreplay : replay [] (assemble { within := false, buf := [], attr := (blkAt g F S 0).file } (evsOf afs)) =
      some qs := by
    rw [hb0, hasm, replay_readerOut F segs F [] (fun s hs => ⟨hwf _ (hsegJ s hs).1, (hsegJ s hs).2⟩) hattr,
      hmap, ← replayJ_filter, hrep]
  -- the recovered log
  have hrec : recoverPre g D policy none =
      .ok ({ files := D.map (·.1), cur := e.file, off := e.idx * g.B + e.cursor, queues := qs,
             policy := policy }, [.ensureLen F g.fileBytes], io') := by
    rw [Rec.recoverPre_cons g D policy none _ _ trail hbo', hio]
    simp only [ioFails, Bool.false_eq_true, if_false, Rec.finishPre, hprep, hreplay]
  -- the reader's end position
  obtain ⟨ke, ce, he, hke, hce, hW⟩ := hend
  have htot : 0 * g.B + 0 + totalLen (layoutBufs g 0 (untag afs)) = endPos g 0 (untag afs) := by
    rw [totalLen_eq, hE]; omega
  rw [htot] at hW
  have hhle := le_hdrPos g (endPos g 0 (untag afs))
  -- W lies between the writer's position and the end of the last file
  have hWfacts : (init.flatten ++ t).length ≤ ke * g.B + ce ∧
      ke * g.B + ce ≤ (init.length + 1) * g.fileBytes ∧
      (ke * g.B + ce = endPos g 0 (untag afs) ∨
        (ke * g.B + ce = hdrPos g (endPos g 0 (untag afs)) ∧
          ke * g.B + ce < (init.length + 1) * g.fileBytes)) := by
    have hle := hT.off_le
    have htotal : (init.length + 1) * g.fileBytes = (init.length + 1) * g.K * g.B := mul_fb g _
    rw [hW]
    by_cases hc : g.B - endPos g 0 (untag afs) % g.B < 7 ∧
        hdrPos g (endPos g 0 (untag afs)) < (init.length + 1) * g.K * g.B
    · rw [if_pos hc]
      refine ⟨?_, by omega, Or.inr ⟨rfl, by omega⟩⟩
      rcases hL.len with h1 | h1 <;> omega
    · rw [if_neg hc]
      have hPE : (init.flatten ++ t).length = endPos g 0 (untag afs) := by
        rcases hN with h1 | h1
        · exact h1
        · rcases hL.len with h2 | h2
          · exact h2
          · by_cases h3 : hdrPos g (endPos g 0 (untag afs)) = endPos g 0 (untag afs)
            · omega
            · exfalso
              apply hc
              constructor
              · unfold hdrPos at h3
                split at h3
                · assumption
                · exact absurd rfl h3
              · rw [← h2, hPl, ← htotal, Nat.add_mul, Nat.one_mul]; omega
      refine ⟨by omega, ?_, Or.inl rfl⟩
      rw [← hPE, hPl, Nat.add_mul, Nat.one_mul]; omega
  obtain ⟨hW1, hW2, hW3⟩ := hWfacts
  have hlo : init.length * g.fileBytes ≤ ke * g.B + ce := by omega
  obtain ⟨hcur, hoff⟩ := end_decomp g init.length (ke * g.B + ce) ke ce hlo hW2 hke hce rfl
  have hoff_ge : l.off ≤ ke % g.K * g.B + ce := by omega
  have hoff_le : ke % g.K * g.B + ce ≤ g.fileBytes := by
    rw [Nat.add_mul, Nat.one_mul] at hW2; omega
  refine ⟨_, io', hrec, ?_, ?_, rfl, rfl, ?_⟩
  · show D.map (·.1) = l.files
    rw [hT.img, imgOf_keys, hT.files]; simp
  · show e.file = l.cur
    rw [he, hT.cur, hcur]
  · -- the disk invariant for the recovered log
    have hefile : e.file = F + init.length := by rw [he, hcur]
    have heoff : e.idx * g.B + e.cursor = ke % g.K * g.B + ce := by rw [he]
    refine ⟨init, t ++ zeros (ke % g.K * g.B + ce - l.off), afs, ⟨?_, hT.full, ?_, ?_, ?_, ?_⟩, ⟨?_, hL.fits, hL.tagged, ?_⟩,
      ⟨lead, segs, hafs, hlead, hmap, hsok, hchain⟩, ?_, ?_⟩
    · show D = _
      simp only [heoff]
      rw [hT.img, List.append_assoc, ← zeros_add]
      congr 5
      omega
    · show _ = e.idx * g.B + e.cursor
      rw [heoff, List.length_append, length_zeros, hT.tlen]; omega
    · show e.idx * g.B + e.cursor ≤ _
      rw [heoff]; exact hoff_le
    · show D.map (·.1) = _
      rw [hT.img, imgOf_keys]; simp
    · exact hefile
    · have hlen : (init.flatten ++ (t ++ zeros (ke % g.K * g.B + ce - l.off))).length = ke * g.B + ce := by
        rw [← List.append_assoc, List.length_append, length_zeros, hPl]; omega
      rw [hlen, ← List.append_assoc]
      conv => lhs; rw [hL.bytes]
      rw [List.append_assoc, ← zeros_add]
      congr 2
      rcases hL.len with h1 | h1 <;> omega
    · have hlen : (init.flatten ++ (t ++ zeros (ke % g.K * g.B + ce - l.off))).length = ke * g.B + ce := by
        rw [← List.append_assoc, List.length_append, length_zeros, hPl]; omega
      rw [hlen]
      rcases hW3 with h1 | ⟨h1, _⟩
      · exact Or.inl h1
      · exact Or.inr h1
    · show CurTag afs e.file
      rw [hefile, ← hT.cur]; exact hC
    · have hlen : (init.flatten ++ (t ++ zeros (ke % g.K * g.B + ce - l.off))).length = ke * g.B + ce := by
        rw [← List.append_assoc, List.length_append, length_zeros, hPl]; omega
      rw [hlen]
      rcases hW3 with h1 | ⟨_, h2⟩
      · exact Or.inl h1
      · right
        show e.idx * g.B + e.cursor < _
        rw [heoff, Nat.add_mul, Nat.one_mul] at *
        omega

end MRL.G
