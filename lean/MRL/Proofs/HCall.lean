/-
The disk invariant with explicit witnesses (`XInv`), and what writing one entry / the GC touches
does to it, together with the crash states of those writes: the old frames and segments are
kept, new ones are appended; every crash state of the writes is a crash tape holding a prefix of
the final bytes that contains all the old bytes.
-/
import MRL.Proofs.HCrashRead

namespace MRL.H
open MRL Codec Consts G Torn Log Buf

structure XInv (g : Geom) (l : Log) (D : Image) (F : Nat) (J : List JE) (init : List Bytes) (t : Bytes)
    (afs lead : List TFrm) (segs : List Seg) : Prop where
  tape : Tape g l D F init t
  lay : FLay g F (init.flatten ++ t) afs
  hafs : afs = lead ++ segs.flatMap (·.2)
  hlead : ∀ a ∈ lead, a.2.1.isFirst = false
  hmap : segs.map (·.1) = J.filter (fun j => decide (F ≤ j.loc))
  hsok : ∀ s ∈ segs, SegOK s
  hchain : Chain segs
  cur : CurTag afs l.cur

theorem XInv.congr {g : Geom} {l l' : Log} {D : Image} {F : Nat} {J : List JE} {init : List Bytes}
    {t : Bytes} {afs lead : List TFrm} {segs : List Seg} (h : XInv g l D F J init t afs lead segs)
    (hf : l'.files = l.files) (hc : l'.cur = l.cur) (ho : l'.off = l.off) :
    XInv g l' D F J init t afs lead segs :=
  ⟨h.tape.congr hf hc ho, h.lay, h.hafs, h.hlead, h.hmap, h.hsok, h.hchain, by rw [hc]; exact h.cur⟩

theorem XInv.of_dinv {g : Geom} {l : Log} {D : Image} {J : List JE} {F : Nat} (h : DInvF g l D J F) :
    ∃ init t afs lead segs, XInv g l D F J init t afs lead segs := by
  obtain ⟨init, t, afs, h1, h2, ⟨lead, segs, a1, a2, a3, a4, a5⟩, h4, _⟩ := h
  exact ⟨init, t, afs, lead, segs, h1, h2, a1, a2, a3, a4, a5, h4⟩

theorem writeBuf_mem (g : Geom) (l : Log) (b : Bytes) (hne : b ≠ []) :
    ∃ f off, Effect.write f off b ∈ (writeBuf g l b).2 := by
  have he : b.isEmpty = false := by cases b <;> simp_all
  unfold writeBuf
  simp only [he, Bool.false_eq_true, if_false]
  split
  · split
    · rename_i nf _; exact ⟨nf, 0, by simp⟩
    · exact ⟨l.cur + 1, 0, by simp⟩
  · exact ⟨l.cur, l.off, by simp⟩

/-- every non-empty buffer handed to the writer appears as a write effect -/
theorem writeBufs_mem (g : Geom) (bufs : List Bytes) : ∀ (l : Log) (b : Bytes), b ∈ bufs → b ≠ [] →
    ∃ f off, Effect.write f off b ∈ (writeBufs g l bufs).2 := by
  induction bufs with
  | nil => intro l b hb; cases hb
  | cons x bs ih =>
    intro l b hb hne
    rw [Step.writeBufs_cons]
    rcases List.mem_cons.mp hb with rfl | hb
    · obtain ⟨f, off, h⟩ := writeBuf_mem g l b hne
      exact ⟨f, off, List.mem_append_left _ h⟩
    · obtain ⟨f, off, h⟩ := ih (writeBuf g l x).1 b hb hne
      exact ⟨f, off, List.mem_append_right _ h⟩

/-- writing one entry, with explicit witnesses and crash states -/
theorem entry_ext (g : Geom) {l : Log} {D : Image} {F : Nat} {init : List Bytes} {t : Bytes}
    {J : List JE} {afs lead : List TFrm} {segs : List Seg}
    (h : XInv g l D F J init t afs lead segs) (e : Entry) :
    ∃ init' t' ntf B,
      XInv g (Log.writeEntry g l e).1 (applyOsOps D (directOps (Log.writeEntry g l e).2.1)) F
        (J ++ [l.je g e]) init' t' (afs ++ ntf) lead (segs ++ [(l.je g e, ntf)]) ∧
      ntf ≠ [] ∧ (init'.flatten ++ t').length = endPos g 0 (untag (afs ++ ntf)) ∧
      init'.flatten ++ t' = init.flatten ++ t ++ B ∧
      (∀ X, CutState D (Log.writeEntry g l e).2.1 X →
        ∃ Pm, CTape g F Pm X ∧ PrefixCut (init.flatten ++ t) (init'.flatten ++ t') Pm) ∧
      (∀ a ∈ ntf, ∃ f off, Effect.write f off (encodeFrame a.2.1 a.2.2) ∈ (Log.writeEntry g l e).2.1) := by
  obtain ⟨hT, hL, hafs, hlead, hmap, hsok, hchain, hC⟩ := h
  have hB := G.Bpos g
  have hc : l.off % g.B < g.B := Nat.mod_lt _ (by omega)
  obtain ⟨fs, hbufs, hef, hpay, hfit⟩ := writeEntryBufs_layout g (l.off % g.B) true e.encode hc
  have hne : fs ≠ [] := hef.ne_nil
  have hPl := hT.P_length
  have hmod : (init.flatten ++ t).length % g.B = l.off % g.B := by rw [hPl, tape_mod]
  have hwe : Log.writeEntry g l e =
      ((writeBufs g l (layoutBufs g (l.off % g.B) fs)).1, (writeBufs g l (layoutBufs g (l.off % g.B) fs)).2,
        totalLen (layoutBufs g (l.off % g.B) fs)) := by
    rw [Step.writeEntry_eq]
    unfold Step.entryBufs MRL.writeEntry
    rw [hbufs]
  rw [hwe]
  have hnc := noCross_layoutBufs g _ fs hc hfit
  obtain ⟨init', t', hT', hP', hcur'⟩ := writeBufs_tape g (layoutBufs g (l.off % g.B) fs) hT hnc
  have hfit' : Fits g ((init.flatten ++ t).length % g.B) fs := by rw [hmod]; exact hfit
  obtain ⟨hL', hlen'⟩ := flay_append g F _ afs hL fs hne hfit'
  rw [hmod] at hL' hlen'
  rw [← hP'] at hL' hlen'
  have hlocF : F ≤ (l.je g e).loc := by
    have := nextLoc_ge g l
    have := hT.cur
    simp only [je]; omega
  obtain ⟨fs0, frL, hfs⟩ : ∃ fs0 frL, fs = fs0 ++ [frL] := by
    rcases List.eq_nil_or_concat fs with h | ⟨fs0, frL, h⟩
    · exact absurd h hne
    · exact ⟨fs0, frL, by rw [h, List.concat_eq_append]⟩
  have hnonempty : tagFrom g F (endPos g 0 (untag afs)) fs ≠ [] := by
    cases fs with
    | nil => exact absurd rfl hne
    | cons fr fs => simp [tagFrom]
  have hlast : ∀ a, (tagFrom g F (endPos g 0 (untag afs)) fs).getLast? = some a →
      a.1 = (writeBufs g l (layoutBufs g (l.off % g.B) fs)).1.cur := by
    intro a ha
    have hb : layoutBufs g (l.off % g.B) fs ≠ [] := by
      intro hnil
      cases fs with
      | nil => exact hne rfl
      | cons fr fs' =>
        have := layout_ne_nil g (l.off % g.B) fr fs'
        rw [hnil] at this
        simp at this
    rw [hcur' hb]
    rw [hfs, tagFrom_append] at ha
    simp only [tagFrom, List.getLast?_append, List.getLast?_singleton, Option.some_or,
      Option.some.injEq] at ha
    subst ha
    simp only
    congr 2
    have h1 := layout_dropLast_len g (init.flatten ++ t).length fs0 frL (by rw [← hfs]; exact hfit')
    rw [hmod, ← hfs] at h1
    rw [h1]
    exact (hdr_end_eq g _ _ fs0 hL.len).symm
  have hsegnew : SegOK (l.je g e, tagFrom g F (endPos g 0 (untag afs)) fs) := by
    refine ⟨by simpa [untag_tagFrom] using hef, by simpa [untag_tagFrom, je] using hpay, ?_⟩
    intro a ha
    cases fs with
    | nil => exact absurd rfl hne
    | cons fr fs' =>
      simp only [tagFrom, List.head?_cons, Option.some.injEq] at ha
      subst ha
      simp only [je]
      rw [nextLoc_tag g hT, ← hPl]
      congr 2
      rcases hL.len with h1 | h1
      · rw [h1]
      · rw [h1, hdrPos_idem]
  refine ⟨init', t', tagFrom g F (endPos g 0 (untag afs)) fs, (layoutBufs g (l.off % g.B) fs).flatten,
    ⟨hT', hL', ?_, hlead, ?_, ?_, ?_, ?_⟩, hnonempty, by rw [hlen', untag_append, untag_tagFrom], hP', ?_, ?_⟩
  · rw [hafs, List.flatMap_append]; simp [List.append_assoc]
  · rw [List.map_append, hmap, List.filter_append]
    simp [hlocF]
  · intro s hs
    rcases List.mem_append.mp hs with hs | hs
    · exact hsok s hs
    · simp only [List.mem_singleton] at hs
      subst hs
      exact hsegnew
  · apply Chain_snoc segs _ hchain
    intro s0 h0
    have hs0 := hsok s0 (List.mem_of_getLast? h0)
    have hne0 : s0.2 ≠ [] := by
      intro hnil
      have := hs0.frames.ne_nil
      rw [hnil] at this; exact this rfl
    have hl := getLast?_flatMap_snoc segs s0 lead hne0 h0
    rw [← hafs] at hl
    show lastTag s0.2 0 = l.cur
    unfold lastTag
    cases hg : s0.2.getLast? with
    | none => rw [List.getLast?_eq_none_iff] at hg; exact absurd hg hne0
    | some a =>
      rw [hg] at hl
      exact hC a hl
  · intro a ha
    rw [List.getLast?_append] at ha
    cases hg : (tagFrom g F (endPos g 0 (untag afs)) fs).getLast? with
    | none => rw [List.getLast?_eq_none_iff] at hg; exact absurd hg hnonempty
    | some a' =>
      rw [hg] at ha
      simp only [Option.some_or, Option.some.injEq] at ha
      subst ha
      exact hlast a' hg
  · intro X hX
    obtain ⟨Pm, h1, h2⟩ := writeBufs_cut g _ hT hnc hX
    exact ⟨Pm, h1, by rw [hP']; exact h2⟩
  · intro a ha
    have hmem : a.2 ∈ fs := by
      have : a.2 ∈ untag (tagFrom g F (endPos g 0 (untag afs)) fs) := List.mem_map_of_mem (f := fun x : TFrm => x.2) ha
      rwa [untag_tagFrom] at this
    have hb := mem_layout g a.2.1 a.2.2 fs (l.off % g.B) hmem
    exact writeBufs_mem g _ l _ hb (Step.encodeFrame_ne_nil _ _)

end MRL.H
