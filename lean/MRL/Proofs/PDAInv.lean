/-
The relaxed invariant with the journal tied to the queues only up to the file handles (`CInvA`).

`L.CInvX g l J D` asks, through `JInv`, that the replay of `J` gives the in-memory queues of `l`
WITH their file handles (`QsEquiv`). For the disk on which collected files are still present next to
the tracked ones, after a restart of the real log, only the abstract state can be kept (`AbsEq`):
the reader of that disk attributes the entries near the boundary to other files than the reader of
the real disk. Everything a reader needs survives: `CInvA` has the disk description `L.XInvX`, the
journal's chunk facts, and a replay `AbsEq` to the queues. This file re-proves for `CInvA` what
`MRL/Proofs/LInv.lean`, `LPhase.lean`, `LCrash.lean` prove for `CInvX`: `open` (`cinva_open`), one
entry written (`cinva_write`), every cut of the write phase of a call (`write_phaseA`) and of the
touches of a GC pass (`touch_phaseA`).
-/
import MRL.Proofs.LCrash

namespace MRL.PDA
open MRL Codec Consts G H Torn Log Buf C05 C01J L

structure CInvA (g : Geom) (l : Log) (J : List JE) (D : Image) : Prop where
  files : FilesWF l
  inv : Inv l
  chunk : Chunk 0 J l.cur
  rep : ∃ qs, replayJ (l.files.headD 0) [] J = some qs ∧ AbsEq qs l.queues ∧ QsWF qs
  disk : ∃ init t x res ais lead gs, XInvX g l D (l.files.headD 0) J init t x res ais lead gs

theorem CInvA.of_cinvx {g : Geom} {l : Log} {J : List JE} {D : Image} (h : CInvX g l J D) : CInvA g l J D := by
  obtain ⟨qs, h1, h2, h3⟩ := h.jinv.rep
  exact ⟨h.jinv.h.files, h.jinv.h.inv, h.jinv.chunk, ⟨qs, h1, AbsEq.of_qsEquiv h2, h3⟩, h.disk⟩

theorem CInvA.hF {g : Geom} {l : Log} {J : List JE} {D : Image} (h : CInvA g l J D) : l.files.headD 0 ≤ l.cur :=
  head_le_of_mem h.files.sorted h.files.cur_mem

/-- `open` on such a disk -/
theorem cinva_open (g : Geom) (hB : g.B ≤ 65542) {l : Log} {J : List JE} {D : Image} (h : CInvA g l J D)
    (hwf : ∀ j ∈ J, C07.WF j.e) (policy : Policy) :
    ∃ (J' : List JE) (lp : Log) (io : Nat),
      recoverPre g D policy none = .ok (lp, [.ensureLen (l.files.headD 0) g.fileBytes], io) ∧
      CInvX g lp J' D ∧ (∀ j ∈ J', C07.WF j.e) ∧ AbsEq lp.queues l.queues ∧ lp.policy = policy ∧
      lp.files.headD 0 = l.files.headD 0 := by
  obtain ⟨qs, hrep, heq, _⟩ := h.rep
  obtain ⟨init, t, x, res, ais, lead, gs, hx⟩ := h.disk
  obtain ⟨J', lp, io, hrec, hc, hw, hab, hpol, hhead⟩ :=
    open_diskX g hB hx.diskX hwf h.chunk.wf h.chunk.mono qs hrep policy
  exact ⟨J', lp, io, hrec, hc, hw, hab.symm.trans heq, hpol, hhead⟩

theorem cinva_xres (g : Geom) (hB : g.B ≤ 65542) {l : Log} {J : List JE} {D : Image} (h : CInvA g l J D)
    (hwf : ∀ j ∈ J, C07.WF j.e) : XRes g l.queues l.queues D := by
  intro policy
  obtain ⟨J', lp, io, hrec, _, _, hab, _, _⟩ := cinva_open g hB h hwf policy
  exact ⟨lp, _, io, hrec, Or.inl hab⟩

theorem all2_refl {α : Type} {R : α → α → Prop} (hR : ∀ a, R a a) : ∀ l : List α, All2 R l l
  | [] => All2.nil
  | a :: l => All2.cons (hR a) (all2_refl hR l)

/-- an exact replay on the log's queues, transferred to the replayed queues -/
theorem rep_extendA {g : Geom} {l : Log} {J : List JE} {D : Image} (h : CInvA g l J D) (Jn : List JE)
    (q' : MemQueues) (hn : ∀ j ∈ Jn, l.files.headD 0 ≤ j.loc)
    (hex : replayJ (l.files.headD 0) l.queues Jn = some q') :
    ∃ r, replayJ (l.files.headD 0) [] (J ++ Jn) = some r ∧ AbsEq r q' ∧ QsWF r := by
  obtain ⟨qs, hrep, heq, hqwf⟩ := h.rep
  obtain ⟨r1, h1, h2⟩ := replayJ_abs (l.files.headD 0) Jn Jn qs l.queues q'
    (all2_refl (R := fun a b : JE => a.e = b.e) (fun _ => rfl) Jn) hn hn heq.symm hqwf (QsWF.of_inv h.inv) hex
  refine ⟨r1, ?_, h2.symm, replayJ_wf _ Jn hqwf h1⟩
  rw [replayJ_append, hrep]
  exact h1

theorem filesWF_queues {l : Log} (h : FilesWF l) (qs : MemQueues) : FilesWF ({ l with queues := qs } : Log) :=
  ⟨h.sorted, h.cur_mem⟩

/-- the replays of the journal extended by a prefix of the new entries of a write phase -/
theorem phase_replaysA (g : Geom) {l : Log} {J : List JE} {D : Image} (h : CInvA g l J D) (e : Entry)
    (qs' : MemQueues) (hewf : EntryWF e) (hre : replayEntry l.queues l.cur e = some qs')
    (hinv2 : Inv ({ (Log.writeEntry g l e).1 with queues := qs' } : Log)) (names : List Bytes)
    (hnames : ∀ n ∈ names, n ∈ qs'.emptyNames) (i : Nat) :
    ∃ q, replayJ (l.files.headD 0) []
        (J ++ (l.je g e :: touchesJ g { (Log.writeEntry g l e).1 with queues := qs' } names).take i) = some q ∧
      (AbsEq q l.queues ∨ AbsEq q qs') := by
  have hF := h.hF
  have hgrow := writeEntry_grow g l e h.files
  have hwf2 : FilesWF ({ (Log.writeEntry g l e).1 with queues := qs' } : Log) := filesWF_queues hgrow.wf qs'
  have hF2 : l.files.headD 0 ≤ ({ (Log.writeEntry g l e).1 with queues := qs' } : Log).cur :=
    Nat.le_trans hF hgrow.cur_le
  cases i with
  | zero =>
    obtain ⟨qs, hrep, heq, _⟩ := h.rep
    exact ⟨qs, by simpa using hrep, Or.inl heq⟩
  | succ i =>
    have hexact : replayJ (l.files.headD 0) l.queues
        (l.je g e :: (touchesJ g { (Log.writeEntry g l e).1 with queues := qs' } names).take i) = some qs' := by
      have : l.je g e :: (touchesJ g { (Log.writeEntry g l e).1 with queues := qs' } names).take i =
          [l.je g e] ++ touchesJ g { (Log.writeEntry g l e).1 with queues := qs' } (names.take i) := by
        rw [touchesJ_take]; rfl
      rw [this, replayJ_append, replay_je g l e qs' _ hF hre]
      exact touches_replay g (l.files.headD 0) (names.take i) _ hwf2 hF2 hinv2.1
        (fun n hn => hnames n (List.mem_of_mem_take hn))
    have hch1 := je_chunk g l e h.files hewf
    have hch2 := touchesJ_chunk g names _ hwf2
    have hbnd : ∀ j ∈ l.je g e :: (touchesJ g { (Log.writeEntry g l e).1 with queues := qs' } names).take i,
        l.files.headD 0 ≤ j.loc := by
      intro j hj
      rcases List.mem_cons.mp hj with rfl | hj
      · have := hch1.bounds _ (List.mem_singleton.mpr rfl); omega
      · have := hch2.bounds j (List.mem_of_mem_take hj)
        have h3 : l.cur ≤ ({ (Log.writeEntry g l e).1 with queues := qs' } : Log).cur := hgrow.cur_le
        omega
    obtain ⟨r, h1, h2, _⟩ := rep_extendA h _ qs' hbnd hexact
    exact ⟨r, by rw [List.take_succ_cons]; exact h1, Or.inr h2⟩

/-- one entry written, the queues it produces installed -/
theorem cinva_write (g : Geom) {l : Log} {J : List JE} {D : Image} (h : CInvA g l J D) (e : Entry)
    (qs' : MemQueues) (hewf : EntryWF e) (hre : replayEntry l.queues l.cur e = some qs')
    (hinv : Inv ({ (Log.writeEntry g l e).1 with queues := qs' } : Log)) :
    CInvA g ({ (Log.writeEntry g l e).1 with queues := qs' } : Log) (J ++ [l.je g e])
      (applyOsOps D (directOps (Log.writeEntry g l e).2.1)) := by
  have hF := h.hF
  have hgrow := writeEntry_grow g l e h.files
  have hhead : ({ (Log.writeEntry g l e).1 with queues := qs' } : Log).files.headD 0 = l.files.headD 0 := by
    have := hgrow.head h.files; exact this
  have hch1 := je_chunk g l e h.files hewf
  refine ⟨filesWF_queues hgrow.wf qs', hinv, h.chunk.append hch1, ?_, ?_⟩
  · rw [hhead]
    have hbnd : ∀ j ∈ [l.je g e], l.files.headD 0 ≤ j.loc := by
      intro j hj
      have := hch1.bounds j hj; omega
    exact rep_extendA h [l.je g e] qs' hbnd (replay_je g l e qs' _ hF hre)
  · obtain ⟨init, t, x, res, ais, lead, gs, hx⟩ := h.disk
    obtain ⟨i', t', x', ntf, B, hx', _⟩ := entry_extX g hx e
    rw [hhead]
    exact ⟨i', t', x', [], _, lead, _, hx'.congr rfl rfl rfl⟩

/-- **crash while the entry and the touches are written**, at any byte -/
theorem write_phaseA (g : Geom) (hB : g.B ≤ 65542) {l : Log} {J : List JE} {D : Image}
    (h : CInvA g l J D) (e : Entry) (qs' : MemQueues) (hewf : EntryWF e)
    (hre : replayEntry l.queues l.cur e = some qs')
    (hinv2 : Inv ({ (Log.writeEntry g l e).1 with queues := qs' } : Log)) (names : List Bytes)
    (hnames : ∀ n ∈ names, n ∈ qs'.emptyNames)
    (hwf : ∀ j ∈ J ++ l.je g e :: touchesJ g { (Log.writeEntry g l e).1 with queues := qs' } names, C07.WF j.e)
    (htorn : TornEffs ((Log.writeEntry g l e).2.1 ++
      (writeTouches g { (Log.writeEntry g l e).1 with queues := qs' } names).2.1))
    (w : Bool) (X : Image)
    (hX : CutW w D ((Log.writeEntry g l e).2.1 ++
      (writeTouches g { (Log.writeEntry g l e).1 with queues := qs' } names).2.1) X) :
    XRes g l.queues qs' X := by
  have hgrow := writeEntry_grow g l e h.files
  have hwf2 : FilesWF ({ (Log.writeEntry g l e).1 with queues := qs' } : Log) := filesWF_queues hgrow.wf qs'
  obtain ⟨init, t, x, res, ais, lead, gs, x0⟩ := h.disk
  obtain ⟨i1, t1, x1, ntf1, B1, y1, _, _, _, hcut1⟩ := entry_extX g x0 e
  have y1' : XInvX g ({ (Log.writeEntry g l e).1 with queues := qs' } : Log)
      (applyOsOps D (directOps (Log.writeEntry g l e).2.1)) (l.files.headD 0) (J ++ [l.je g e]) i1 t1 x1 []
      (ais ++ plain ntf1) lead (gs ++ [(some (l.je g e), plain ntf1)]) := y1.congr rfl rfl rfl
  obtain ⟨i3, t3, x3, r3, ais3, gs3, y3, hcut3⟩ :=
    touches_extX g (l.files.headD 0) lead names _ _ _ _ _ _ _ _ _ y1'
  have hch1 := je_chunk g l e h.files hewf
  have hch2 := touchesJ_chunk g names _ hwf2
  have hJeq : J ++ l.je g e :: touchesJ g { (Log.writeEntry g l e).1 with queues := qs' } names =
      J ++ [l.je g e] ++ touchesJ g { (Log.writeEntry g l e).1 with queues := qs' } names := by simp
  have hchunk3 := (h.chunk.append hch1).append hch2
  rw [← hJeq] at hchunk3
  have hreps := phase_replaysA g h e qs' hewf hre hinv2 names hnames
  have hsub : ∀ i, (J ++ (l.je g e :: touchesJ g { (Log.writeEntry g l e).1 with queues := qs' } names).take i).Sublist
      (J ++ l.je g e :: touchesJ g { (Log.writeEntry g l e).1 with queues := qs' } names) :=
    fun i => List.Sublist.append_left (List.take_sublist _ _) _
  have hwhole : ∀ i, DiskX g X (l.files.headD 0)
      (J ++ (l.je g e :: touchesJ g { (Log.writeEntry g l e).1 with queues := qs' } names).take i) →
      XRes g l.queues qs' X := by
    intro i hd policy
    obtain ⟨q, hq, hqe⟩ := hreps i
    obtain ⟨J', lp, io, hrec, _, _, hab, _, _⟩ := open_diskX g hB hd
      (fun j hj => hwf j ((hsub i).subset hj)) (fun j hj => hchunk3.wf j ((hsub i).subset hj))
      (hchunk3.mono.sublist (hsub i)) q hq policy
    refine ⟨lp, _, io, hrec, ?_⟩
    rcases hqe with hqe | hqe
    · exact Or.inl (hab.symm.trans hqe)
    · exact Or.inr (hab.symm.trans hqe)
  rcases CutW.of_append _ hX with hX | hX
  · rcases hcut1 (fun t p f off hm => htorn t p f off (List.mem_append_left _ hm)) w X hX with hd | hd
    · exact hwhole 0 (by simpa using hd)
    · exact hwhole 1 (by simpa using hd)
  · obtain ⟨i, _, hd⟩ := hcut3 (fun t p f off hm => htorn t p f off (List.mem_append_right _ hm)) w X hX
    exact hwhole (i + 1) (by rw [List.take_succ_cons]; simpa [List.append_assoc] using hd)

/-- **crash while the GC touches are written**, at any byte -/
theorem touch_phaseA (g : Geom) (hB : g.B ≤ 65542) {l : Log} {J : List JE} {D : Image}
    (h : CInvA g l J D) (names : List Bytes) (hnames : ∀ n ∈ names, n ∈ l.queues.emptyNames)
    (hwf : ∀ j ∈ J ++ touchesJ g l names, C07.WF j.e)
    (htorn : TornEffs (writeTouches g l names).2.1) (w : Bool) (X : Image)
    (hX : CutW w D (writeTouches g l names).2.1 X) :
    XRes g l.queues l.queues X := by
  have hF := h.hF
  obtain ⟨init, t, x, res, ais, lead, gs, x0⟩ := h.disk
  obtain ⟨i3, t3, x3, r3, ais3, gs3, y3, hcut3⟩ :=
    touches_extX g (l.files.headD 0) lead names _ _ _ _ _ _ _ _ _ x0
  have hch := touchesJ_chunk g names l h.files
  have hchunk3 := h.chunk.append hch
  have hexact : ∀ i, replayJ (l.files.headD 0) l.queues ((touchesJ g l names).take i) = some l.queues := by
    intro i
    rw [touchesJ_take]
    exact touches_replay g (l.files.headD 0) (names.take i) l h.files hF h.inv.1
      (fun n hn => hnames n (List.mem_of_mem_take hn))
  have hreps : ∀ i, ∃ q, replayJ (l.files.headD 0) [] (J ++ (touchesJ g l names).take i) = some q ∧
      AbsEq q l.queues := by
    intro i
    have hbnd : ∀ j ∈ (touchesJ g l names).take i, l.files.headD 0 ≤ j.loc := by
      intro j hj
      have := hch.bounds j (List.mem_of_mem_take hj); omega
    obtain ⟨q1, r1, r2, _⟩ := rep_extendA h _ l.queues hbnd (hexact i)
    exact ⟨q1, r1, r2⟩
  have hsub : ∀ i, (J ++ (touchesJ g l names).take i).Sublist (J ++ touchesJ g l names) :=
    fun i => List.Sublist.append_left (List.take_sublist _ _) _
  obtain ⟨i, _, hd⟩ := hcut3 htorn w X hX
  intro policy
  obtain ⟨q, hq, hqe⟩ := hreps i
  obtain ⟨J', lp, io, hrec, _, _, hab, _, _⟩ := open_diskX g hB hd
    (fun j hj => hwf j ((hsub i).subset hj)) (fun j hj => hchunk3.wf j ((hsub i).subset hj))
    (hchunk3.mono.sublist (hsub i)) q hq policy
  exact ⟨lp, _, io, hrec, Or.inl (hab.symm.trans hqe)⟩

end MRL.PDA
