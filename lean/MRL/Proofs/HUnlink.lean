/-
A crash while the GC pass unlinks the files: a prefix of the deletable files is gone. Opening the
directory replays the journal entries located at or after the new first file; the queues are the
in-memory ones up to the file handles (`AbsEq`): the first retained entry may be attributed to
the first remaining file although it lies further (when an entry spans whole files).
-/
import MRL.Proofs.HAtomic

namespace MRL.H
open MRL Codec Consts G Torn Log Buf C05 C01J

theorem take_range' (s n k : Nat) (h : k ≤ n) : (List.range' s n).take k = List.range' s k := by
  have : n = k + (n - k) := by omega
  rw [this, ← List.range'_append_1, List.take_left']
  simp

/-- the replay from any intermediate first file of the unlink sequence -/
theorem rep_at (g : Geom) {l2 : Log} {J2 : List JE} (order : List Bytes) (hJ : JInv l2 J2) (F'' : Nat)
    (h1 : l2.files.headD 0 < F'') (h2 : F'' ≤ (runGc g l2 order).1.files.headD 0) :
    ∃ qb, replayJ F'' [] (J2 ++ gcJ g l2 order) = some qb ∧ QsEquiv qb l2.queues := by
  obtain ⟨hH, chunk, qs, hrep, heq, hwf⟩ := hJ
  have hF2 : l2.files.headD 0 ≤ l2.cur := head_le_of_mem hH.files.sorted hH.files.cur_mem
  obtain ⟨hH', hq', hchunk, hreplay, hhead⟩ := gc_facts g l2 order hH (l2.files.headD 0) hF2
  have hchunk' := chunk.append hchunk
  obtain ⟨qs1, r1, r2, r3⟩ := extend_rep hH.inv hrep heq hwf hreplay
  rcases hhead with hsame | ⟨hle, hT, hempty⟩
  · omega
  · obtain ⟨qb, b1, b2⟩ := suffix_lemma _ _ h1 J2 _ hchunk'.mono
      (fun j hj => ⟨(hchunk'.bounds j hj).2.1, hchunk'.wf j hj⟩)
      (fun j hj => ⟨Nat.le_trans h2 (hT j hj).1, (hT j hj).2⟩) qs1 r1
      (by
        intro n x hx r hr f hf
        have r2' : QsEquiv qs1 (runGc g l2 order).1.queues := by rw [hq']; exact r2
        obtain ⟨y, hy, hxy⟩ := r2'.get_some hx
        rw [hxy.1] at hr
        have := head_le_of_mem hH'.files.sorted (hH'.handles (n, y) (get_mem hy) r hr f hf)
        omega)
      (by
        intro n x hx hxe
        obtain ⟨y, hy, hxy⟩ := r2.get_some hx
        have hye : y.recs = [] := by rw [← hxy.1]; exact hxe
        exact hempty n ((mem_emptyNames hH.inv.1 n).mpr ⟨y, hy, hye⟩))
    exact ⟨qb, b1, b2.trans r2⟩

/-- **crash during the unlinks** -/
theorem unlink_phase_crash (g : Geom) (hB : g.B ≤ 65542) {l2 : Log} {J2 : List JE} {D2 : Image}
    (h : CInv g l2 J2 D2) (order : List Bytes) (names : List Bytes)
    (hj : gcJ g l2 order = touchesJ g l2 names)
    (hr : (runGc g l2 order).1 = { (writeTouches g l2 names).1 with
      files := (gcFiles ((writeTouches g l2 names).1.canDelete l2.cur) (writeTouches g l2 names).1.files).1 })
    (hwf : ∀ j ∈ J2 ++ touchesJ g l2 names, C07.WF j.e)
    (k : Nat) (hk0 : 0 < k)
    (hk : k ≤ (gcFiles ((writeTouches g l2 names).1.canDelete l2.cur) (writeTouches g l2 names).1.files).2.length)
    (policy : Policy) :
    ∃ lp e0 io, recoverPre g
        (applyOsOps (applyOsOps D2 (directOps (writeTouches g l2 names).2.1))
          (((gcFiles ((writeTouches g l2 names).1.canDelete l2.cur) (writeTouches g l2 names).1.files).2.take k).map
            OsOp.unlink)) policy none = .ok (lp, e0, io) ∧
      AbsEq lp.queues l2.queues := by
  have hB7 := G.Bpos g
  -- the state after the touches
  have h3 := touches_dinv g (l2.files.headD 0) names l2 D2 J2 h.disk
  obtain ⟨init, t, afs, k1, k2, k3, k4, k5⟩ := h3
  rcases hg : gcFiles ((writeTouches g l2 names).1.canDelete l2.cur) (writeTouches g l2 names).1.files
    with ⟨rem, del⟩
  rw [hg] at hk hr
  simp only at hk hr ⊢
  obtain ⟨hsplit, _, hne⟩ := gcFiles_spec _ _ _ _ hg
  rw [k1.files] at hsplit
  obtain ⟨hdel, hrem⟩ := range'_split _ _ _ _ hsplit
  have hremne : rem ≠ [] := hne (by rw [k1.files]; simp)
  have hlen : del.length + rem.length = init.length + 1 := by
    have := congrArg List.length hsplit
    simp only [List.length_range', List.length_append] at this
    omega
  have hkinit : k ≤ init.length := by
    have : 0 < rem.length := List.length_pos_iff.mpr hremne
    omega
  have hdeltake : del.take k = List.range' (l2.files.headD 0) k := by
    rw [hdel, take_range' _ _ _ hk]
  rw [hdeltake]
  -- journal order
  have hJ' := jinv_gc g order h.jinv
  rw [hj] at hJ'
  obtain ⟨afs', c1, c2, c3, c4, _⟩ := gc_disk g k1 k2 k3 k4 hJ'.chunk.mono k hkinit
  -- the new first file
  have hF'' : (runGc g l2 order).1.files.headD 0 = l2.files.headD 0 + del.length := by
    rw [hr]
    show rem.headD 0 = _
    rw [hrem]
    cases hrl : rem.length with
    | zero => have := List.length_pos_iff.mpr hremne; omega
    | succ n => rw [List.range'_succ]; rfl
  obtain ⟨qb, hqb, hqe⟩ := rep_at g order h.jinv (l2.files.headD 0 + k) (by omega) (by rw [hF'']; omega)
  rw [hj] at hqb
  -- the crash tape
  have hct := ctape_of_tape c1
  obtain ⟨cs, hcsne, hcsfull, ⟨z, hflat⟩, hXform⟩ := hct
  obtain ⟨lead, segs, a1, a2, a3, a4, a5⟩ := c3
  have hE : (layoutBufs g 0 (untag afs')).flatten.length = endPos g 0 (untag afs') := layout0_len g _ c2.fits
  have hflat' : cs.flatten = (layoutBufs g 0 (untag afs')).flatten.take (endPos g 0 (untag afs')) ++
      zeros ((((init.drop k).flatten ++ t).length - endPos g 0 (untag afs')) + z) := by
    rw [hflat]
    conv => lhs; rw [c2.bytes]
    rw [List.append_assoc, ← zeros_add, ← hE, List.take_length]
  obtain ⟨j1, tailEvs, evs, e, hj1, hj2, hscan, htail, hasm⟩ := crash_scan g hB (l2.files.headD 0 + k) cs hcsne
    hcsfull afs' c2.fits c2.tagged lead segs a1 a2 a4 (endPos g 0 (untag afs')) _ (Nat.le_refl _) hflat'
    segs.length (Nat.le_refl _) (by rw [List.take_length, ← a1]; exact Nat.le_refl _)
    (by
      intro fs1 tt p fs2 hsp hlt
      exfalso
      have : endPos g 0 (fs1 ++ [(tt, p)]) ≤ endPos g 0 (untag afs') := by
        rw [hsp, show fs1 ++ (tt, p) :: fs2 = (fs1 ++ [(tt, p)]) ++ fs2 by simp]
        exact endPos_mono g 0 _ _
      omega)
  have hj1' : j1 = segs.length := by omega
  rw [hj1', List.take_length] at hasm
  -- replay, up to the handles
  have hloc : ∀ s ∈ segs, C07.WF s.1.e ∧ l2.files.headD 0 + k ≤ s.1.loc := by
    intro s hs
    have : s.1 ∈ segs.map (·.1) := List.mem_map_of_mem (f := (·.1)) hs
    rw [a3] at this
    have := List.mem_filter.mp this
    exact ⟨hwf _ this.1, by simpa using this.2⟩
  obtain ⟨r1, hr1, hab⟩ := replay_abs (l2.files.headD 0 + k) segs (l2.files.headD 0 + k) [] [] qb hloc
    (AbsEq.refl _) QsWF.nil QsWF.nil (by rw [a3, ← replayJ_filter]; exact hqb)
  have hreplay : replay [] (assemble { within := false, buf := [], attr := l2.files.headD 0 + k } evs) = some r1 := by
    rw [hasm]
    rcases htail with ht | ht
    · subst ht; rw [List.append_nil]; exact hr1
    · subst ht; rw [replay_snoc_corrupt]; exact hr1
  have hX' : applyOsOps (applyOsOps D2 (directOps (writeTouches g l2 names).2.1))
      ((List.range' (l2.files.headD 0) k).map OsOp.unlink) = imgOf (l2.files.headD 0 + k) cs ∨
      applyOsOps (applyOsOps D2 (directOps (writeTouches g l2 names).2.1))
      ((List.range' (l2.files.headD 0) k).map OsOp.unlink) =
        imgOf (l2.files.headD 0 + k) cs ++ [(l2.files.headD 0 + k + cs.length, [])] := hXform
  obtain ⟨lp, e0, io, hrec, hq⟩ := recoverPre_of_scan g (l2.files.headD 0 + k) cs hcsne hcsfull _ hX' policy
    evs e r1 hscan hreplay
  refine ⟨lp, e0, io, hrec, ?_⟩
  rw [hq]
  exact (hab.symm).trans (AbsEq.of_qsEquiv hqe)

end MRL.H
