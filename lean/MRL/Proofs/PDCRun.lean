/-
Histories, with the late unlinks of a GC pass undone (`skipLate`): every such image opens to a state
of the history, provided no `reopen` occurs while unlinks are pending (`noReopenPend`).
`vwin`: inside the window (the older files still on disk, the real log writing on);
`vrec`: the whole history.
-/
import MRL.Proofs.PDCVirt

namespace MRL.PDC
open MRL Codec Consts G H Torn Log Buf C05 C01J L PX PD

/-- no `reopen` while unlinks are not covered by an `fsync(dir)` (`p`: pending at the start) -/
def noReopenPend (g : Geom) : Log → Image → Bool → List Ev → Bool
  | _, _, _, [] => true
  | l, D, p, e :: es =>
    (match e with
     | .reopen _ _ => !p
     | .call _ _ _ => true) &&
    noReopenPend g (evLog g l D e) (evDisk g l D e) (pendAfter p (evEffs g l D e)) es

theorem pendAfter_true_noDS : ∀ es : List Effect, hasDS es = false → pendAfter true es = true
  | [], _ => rfl
  | e :: es, h => by
    simp only [hasDS, List.any_cons, Bool.or_eq_false_iff] at h
    simp only [pendAfter, List.foldl_cons, h.1, Bool.false_eq_true, if_false]
    have : (if isUnl e = true then true else true) = true := by split <;> rfl
    rw [this]
    exact pendAfter_true_noDS es h.2

theorem pendAfter_unlinks (p : Bool) : ∀ U : List Nat, U ≠ [] → pendAfter p (U.map Effect.unlink) = true
  | [], h => absurd rfl h
  | f :: U, _ => by
    simp only [List.map_cons, pendAfter, List.foldl_cons, isDS, isUnl, Bool.false_eq_true, if_false, if_true]
    have hds : hasDS (U.map Effect.unlink) = false := by
      simp only [hasDS, List.any_map, List.any_eq_false]
      intro x _; simp [isDS]
    exact pendAfter_true_noDS _ hds

theorem directOps_unl (U : List Nat) : directOps (U.map Effect.unlink) = U.map OsOp.unlink := by
  induction U with
  | nil => rfl
  | cons f fs ih => rw [List.map_cons, directOps_cons, ih]; rfl

theorem xres_pick {g : Geom} {qB qA : MemQueues} {X : Image} (h : XInvRes g qB qA X) (policy : Policy) :
    ∃ lp e0 io, recoverPre g X policy none = .ok (lp, e0, io) ∧ (AbsEq lp.queues qB ∨ AbsEq lp.queues qA) := by
  obtain ⟨_, lp, io, _, a1, _, _, _, _, a6⟩ := h policy
  exact ⟨lp, _, io, a1, a6⟩

/-- **inside the window** -/
theorem vwin (g : Geom) (hB : g.B ≤ 65542) (lo : List Nat) (evs : List Ev) :
    ∀ {l : Log} {D : Image} {Jv : List JE} {Dv : Image},
    CInvX g (virt lo l) Jv Dv → (∀ j ∈ Jv, C07.WF j.e) → (∀ f ∈ lo, f ≤ l.cur) →
    (∀ j ∈ jourX g l D evs, C07.WF j.e) → TornEffs (effsX g l D evs) → noReopenPend g l D true evs = true →
    ∀ n, hasDS ((effsX g l D evs).take n) = false → ∀ policy, ∃ (i : Nat) (lp : Log) (e0 : List Effect) (io : Nat),
      i ≤ evs.length ∧
      recoverPre g (applyOsOps Dv (directOps ((effsX g l D evs).take n))) policy none = .ok (lp, e0, io) ∧
      AbsEq lp.queues (logX g l D (evs.take i)).queues := by
  induction evs with
  | nil =>
    intro l D Jv Dv hv hwv _ _ _ _ n _ policy
    obtain ⟨J', lp, io, F', a1, _, _, _, _, a6⟩ := xinvres_of_cinvx g hB hv hwv policy
    exact ⟨0, lp, _, io, Nat.le_refl _, by simpa [effsX, directOps, applyOsOps] using a1, a6⟩
  | cons e es ih =>
    intro l D Jv Dv hv hwv hlo hwf htorn hnr n hn policy
    simp only [jourX, effsX] at hwf htorn hn ⊢
    simp only [noReopenPend, Bool.and_eq_true] at hnr
    cases e with
    | reopen pol ord => simp at hnr
    | call c tick order =>
      obtain ⟨ha, hb⟩ := virt_call g hB lo hv hwv hlo c tick order
        (fun j hj => hwf j (List.mem_append_left _ hj)) (torn_left htorn)
      have hL : evEffs g l D (.call c tick order) = (l.step g c tick order).2.2 := rfl
      have hLog : evLog g l D (.call c tick order) = (l.step g c tick order).1 := rfl
      rw [hL] at hn htorn ⊢
      by_cases hle : n ≤ (l.step g c tick order).2.2.length
      · rw [List.take_append_of_le_length hle] at hn ⊢
        obtain ⟨lp, e0, io, h1, h2⟩ := xres_pick (ha n hn) policy
        rcases h2 with h2 | h2
        · exact ⟨0, lp, e0, io, Nat.zero_le _, h1, h2⟩
        · exact ⟨1, lp, e0, io, by simp, h1, by simpa [logX, hLog] using h2⟩
      · rw [List.take_append, List.take_of_length_le (by omega), hasDS_append, Bool.or_eq_false_iff] at hn
        obtain ⟨Jv', hv', hwv', hlo'⟩ := hb hn.1
        have hp : pendAfter true (evEffs g l D (.call c tick order)) = true := by
          rw [hL]; exact pendAfter_true_noDS _ hn.1
        rw [hp] at hnr
        obtain ⟨i, lp, e0, io, hi, h1, h2⟩ := ih (D := evDisk g l D (.call c tick order)) hv' hwv' hlo'
          (fun j hj => hwf j (List.mem_append_right _ hj)) (torn_right htorn) hnr.2
          (n - (l.step g c tick order).2.2.length) hn.2 policy
        refine ⟨i + 1, lp, e0, io, by simp; omega, ?_, by simpa [logX, hLog] using h2⟩
        rw [List.take_append, List.take_of_length_le (by omega), directOps_append, applyOsOps_append]
        exact h1

/-- in a history an unlink is always preceded, since the last `fsync(dir)`, by … an `fsync(dir)` -/
theorem noDS_noUnl (g : Geom) (hB : g.B ≤ 65542) (evs : List Ev) : ∀ {l : Log} {J : List JE} {D : Image},
    CInvX g l J D → (∀ j ∈ J, C07.WF j.e) → (∀ j ∈ jourX g l D evs, C07.WF j.e) → TornEffs (effsX g l D evs) →
    ∀ n, hasDS ((effsX g l D evs).take n) = false → NoUnl ((effsX g l D evs).take n) := by
  induction evs with
  | nil => intro l J D _ _ _ _ n _ e he; simp [effsX] at he
  | cons e es ih =>
    intro l J D h hw hwf htorn n hn
    simp only [jourX, effsX] at hwf htorn hn ⊢
    obtain ⟨⟨J1, hc1, hw1⟩, _, _, _⟩ := ev_facts g hB h hw e
      (fun j hj => hwf j (List.mem_append_left _ hj)) (torn_left htorn)
    obtain ⟨A, U, S, hL, hA, hS, hAU, _⟩ := ev_struct g hB h hw e (fun j hj => hwf j (List.mem_append_left _ hj))
    have hprefix : ∀ m, hasDS ((evEffs g l D e).take m) = false → NoUnl ((evEffs g l D e).take m) := by
      intro m hm
      rw [hL] at hm ⊢
      by_cases hma : m ≤ A.length
      · rw [List.append_assoc, List.take_append_of_le_length hma]
        exact fun x hx => hA x (List.mem_of_mem_take hx)
      · -- beyond `A`: then `U = []`, as `A` would end with `fsync(dir)`
        have hU : U = [] := by
          apply Classical.byContradiction
          intro hne
          obtain ⟨A', hA'⟩ := hAU hne
          rw [List.append_assoc, List.take_append, List.take_of_length_le (by omega), hasDS_append, hA',
            hasDS_append] at hm
          simp [hasDS, isDS] at hm
        subst hU
        simp only [List.map_nil, List.append_nil]
        exact fun x hx => (hA.append (noUnl_sync hS)) x (List.mem_of_mem_take hx)
    by_cases hle : n ≤ (evEffs g l D e).length
    · rw [List.take_append_of_le_length hle] at hn ⊢
      exact hprefix n hn
    · rw [List.take_append, List.take_of_length_le (by omega), hasDS_append, Bool.or_eq_false_iff] at hn
      rw [List.take_append, List.take_of_length_le (by omega)]
      have h1 := hprefix (evEffs g l D e).length (by rw [List.take_length]; exact hn.1)
      rw [List.take_length] at h1
      exact h1.append (ih hc1 hw1 (fun j hj => hwf j (List.mem_append_right _ hj)) (torn_right htorn) _ hn.2)

/-- **the whole history** -/
theorem vrec (g : Geom) (hB : g.B ≤ 65542) (u : Nat) (evs : List Ev) :
    ∀ {l : Log} {J : List JE} {D : Image} (p : Bool),
    CInvX g l J D → (∀ j ∈ J, C07.WF j.e) → (∀ j ∈ jourX g l D evs, C07.WF j.e) → TornEffs (effsX g l D evs) →
    noReopenPend g l D p evs = true →
    ∀ n policy, ∃ (i : Nat) (lp : Log) (e0 : List Effect) (io : Nat), i ≤ evs.length ∧
      recoverPre g (applyOsOps D (directOps (skipLate u ((effsX g l D evs).take n)))) policy none = .ok (lp, e0, io) ∧
      AbsEq lp.queues (logX g l D (evs.take i)).queues := by
  induction evs with
  | nil =>
    intro l J D p h hw _ _ _ n policy
    obtain ⟨J', lp, io, F', a1, _, _, _, _, a6⟩ := xinvres_of_cinvx g hB h hw policy
    exact ⟨0, lp, _, io, Nat.le_refl _, by simpa [effsX, skipLate, directOps, applyOsOps] using a1, a6⟩
  | cons e es ih =>
    intro l J D p h hw hwf htorn hnr n policy
    simp only [jourX, effsX] at hwf htorn ⊢
    simp only [noReopenPend, Bool.and_eq_true] at hnr
    have hwe := fun j hj => hwf j (List.mem_append_left _ hj)
    obtain ⟨⟨J1, hc1, hw1⟩, _, _, hcut⟩ := ev_facts g hB h hw e hwe (torn_left htorn)
    obtain ⟨A, U, S, hL, hA, hS, hAU, hgc⟩ := ev_struct g hB h hw e hwe
    have hwfR := fun j hj => hwf j (List.mem_append_right _ hj)
    have htornR := torn_right htorn
    by_cases hle : n ≤ (evEffs g l D e).length
    · -- inside the event: a cut state of the real effects
      rw [List.take_append_of_le_length hle]
      obtain ⟨q, _, hq⟩ := skipLate_event u D A U S hA hS n
      rw [← hL] at hq
      rw [hq]
      obtain ⟨lp, e0, io, h1, h2⟩ := xres_pick (hcut false _ (CutW.of_take false _ q D)) policy
      rcases h2 with h2 | h2
      · exact ⟨0, lp, e0, io, Nat.zero_le _, h1, h2⟩
      · exact ⟨1, lp, e0, io, by simp, h1, by simpa [logX] using h2⟩
    · rw [List.take_append, List.take_of_length_le (by omega)]
      generalize hn' : n - (evEffs g l D e).length = n'
      generalize hR : effsX g (evLog g l D e) (evDisk g l D e) es = R at *
      have hstep : ∀ (X : Image), X = applyOsOps (evDisk g l D e) (directOps (skipLate u (R.take n'))) →
          ∃ (i : Nat) (lp : Log) (e0 : List Effect) (io : Nat), i ≤ (e :: es).length ∧
            recoverPre g X policy none = .ok (lp, e0, io) ∧ AbsEq lp.queues (logX g l D ((e :: es).take i)).queues := by
        intro X hX
        obtain ⟨i, lp, e0, io, hi, h1, h2⟩ := ih (pendAfter p (evEffs g l D e)) hc1 hw1 hwfR
          (by rw [hR]; exact htornR) hnr.2 n' policy
        rw [hR] at h1
        exact ⟨i + 1, lp, e0, io, by simp; omega, by rw [hX]; exact h1, by simpa [logX] using h2⟩
      cases hds : hasDS (R.take n') with
      | true =>
        apply hstep
        rw [skipLate_append_ds u _ hds, directOps_append, applyOsOps_append]
        rfl
      | false =>
        have hnu : NoUnl (R.take n') := by
          rw [← hR]
          exact noDS_noUnl g hB es hc1 hw1 hwfR (by rw [hR]; exact htornR) n' (by rw [hR]; exact hds)
        rw [skipLate_append_quiet u _ hds hnu, directOps_append, applyOsOps_append]
        -- the first event with its late unlinks undone
        cases hdsS : hasDS S with
        | true =>
          apply hstep
          have : skipLate u (evEffs g l D e) = evEffs g l D e := by
            rw [hL, skipLate_append_ds u S hdsS, skipLate_noUnl u S (noUnl_sync hS)]
          rw [this, skipLate_noUnl u _ hnu]
          rfl
        | false =>
          have hsk : skipLate u (evEffs g l D e) = A ++ (U.take u).map Effect.unlink ++ S := by
            rw [hL, skipLate_append_quiet u S hdsS (noUnl_sync hS), skipLate_noUnl_unlinks u U A hA]
          have hdisk : applyOsOps D (directOps (skipLate u (evEffs g l D e))) =
              applyOsOps (applyOsOps D (directOps A)) ((U.take u).map OsOp.unlink) := by
            rw [hsk, directOps_append, directOps_append, applyOsOps_append, applyOsOps_append, syncL_apply hS,
              directOps_unl]
          rw [hdisk]
          by_cases hu : U.length ≤ u
          · -- all the unlinks of this event are durable: the real disk
            apply hstep
            rw [skipLate_noUnl u _ hnu]
            congr 1
            unfold evDisk
            rw [hL, directOps_append, directOps_append, applyOsOps_append, applyOsOps_append, syncL_apply hS,
              directOps_unl, List.take_of_length_le hu]
          · -- the window: the files `U.drop u` are still there
            have hku : u ≤ U.length := by omega
            obtain ⟨Jv, hcv, hwv⟩ := hgc u hku
            have hUne : U ≠ [] := by intro h0; rw [h0] at hu; simp at hu
            have hp : pendAfter p (evEffs g l D e) = true := by
              rw [hL, pendAfter_append, pendAfter_append, pendAfter_unlinks _ U hUne]
              exact pendAfter_true_noDS S hdsS
            rw [hp] at hnr
            have hlo : ∀ f ∈ U.drop u, f ≤ (evLog g l D e).cur := by
              intro f hf
              have hs := hcv.jinv.h.files.sorted
              have hcm := hcv.jinv.h.files.cur_mem
              have hcm' : (evLog g l D e).cur ∈ (evLog g l D e).files := by
                have := hc1.jinv.h.files.cur_mem; exact this
              have hs' : (U.drop u ++ (evLog g l D e).files).Pairwise (· < ·) := hs
              exact Nat.le_of_lt ((List.pairwise_append.mp hs').2.2 f hf _ hcm')
            obtain ⟨i, lp, e0, io, hi, h1, h2⟩ := vwin g hB (U.drop u) es (l := evLog g l D e) (D := evDisk g l D e)
              hcv hwv hlo hwfR (by rw [hR]; exact htornR) hnr.2 n' (by rw [hR]; exact hds) policy
            rw [hR] at h1
            exact ⟨i + 1, lp, e0, io, by simp; omega, h1, by simpa [logX] using h2⟩

end MRL.PDC
