/-
Runs of calls with the `BufWriter` threaded through (arbitrary policies): the OS operations of the
run are the `BufWriter`'s output on the concatenated effects; every cut state of the concatenated
effects recovers the queues reached after some prefix of the calls.
-/
import MRL.Proofs.HSecond
import MRL.Props.C01Restart

namespace MRL.K
open MRL Log C05 C01J G H Buf Codec

/-- log, journal, `BufWriter` state and all OS operations emitted so far -/
structure RunSt where
  l : Log
  J : List JE
  b : BufSt
  ops : List OsOp

/-- run a list of calls (each with its clock bit and GC order oracle), threading the buffer -/
def runD (g : Geom) (cap : Nat) (s : RunSt) : List (Call × Bool × List Bytes) → RunSt
  | [] => s
  | (c, tick, order) :: cs =>
    let r := s.l.step g c tick order
    let o := toOsOps cap s.b r.2.2
    runD g cap ⟨r.1, s.J ++ s.l.stepJ g c order, o.1, s.ops ++ o.2⟩ cs

/-- the log after a run -/
def logD (g : Geom) (l : Log) : List (Call × Bool × List Bytes) → Log
  | [] => l
  | (c, tick, order) :: cs => logD g (l.step g c tick order).1 cs

/-- all effects of a run -/
def effsD (g : Geom) (l : Log) : List (Call × Bool × List Bytes) → List Effect
  | [] => []
  | (c, tick, order) :: cs => (l.step g c tick order).2.2 ++ effsD g (l.step g c tick order).1 cs

/-- all journal entries of a run -/
def jourD (g : Geom) (l : Log) : List (Call × Bool × List Bytes) → List JE
  | [] => []
  | (c, tick, order) :: cs => l.stepJ g c order ++ jourD g (l.step g c tick order).1 cs

theorem runD_eq (g : Geom) (cap : Nat) (cs : List (Call × Bool × List Bytes)) : ∀ (s : RunSt),
    runD g cap s cs = ⟨logD g s.l cs, s.J ++ jourD g s.l cs, (toOsOps cap s.b (effsD g s.l cs)).1,
      s.ops ++ (toOsOps cap s.b (effsD g s.l cs)).2⟩ := by
  induction cs with
  | nil => intro s; simp [runD, logD, jourD, effsD, toOsOps]
  | cons x cs ih =>
    intro s
    obtain ⟨c, tick, order⟩ := x
    simp only [runD, logD, jourD, effsD]
    rw [ih, toOsOps_append]
    simp [List.append_assoc]

theorem runD_append (g : Geom) (cap : Nat) (a b : List (Call × Bool × List Bytes)) (s : RunSt) :
    runD g cap s (a ++ b) = runD g cap (runD g cap s a) b := by
  induction a generalizing s with
  | nil => rfl
  | cons x a ih => obtain ⟨c, tick, order⟩ := x; simp only [List.cons_append, runD]; exact ih _

theorem logD_take_succ (g : Geom) (l : Log) (c : Call) (tick : Bool) (order : List Bytes)
    (cs : List (Call × Bool × List Bytes)) (i : Nat) :
    logD g l (((c, tick, order) :: cs).take (i + 1)) = logD g (l.step g c tick order).1 (cs.take i) := rfl

/-- the buffer discipline holds along a run -/
theorem effsD_Disc (g : Geom) (cs : List (Call × Bool × List Bytes)) : ∀ l : Log,
    C14.Disc l (effsD g l cs) (logD g l cs) := by
  induction cs with
  | nil => intro l; exact C14.Disc.same rfl rfl
  | cons x cs ih =>
    intro l
    obtain ⟨c, tick, order⟩ := x
    exact (C14.step_Disc g l c tick order).trans (ih _)

/-- every reachable quadruple stays reachable along a run -/
theorem reach_runD (g : Geom) (cap : Nat) (cs : List (Call × Bool × List Bytes)) :
    ∀ (l : Log) (J : List JE) (img : Image) (b : BufSt), C01R.ReachD g cap l J img b →
    C01R.ReachD g cap (logD g l cs) (J ++ jourD g l cs)
      (applyOsOps img (toOsOps cap b (effsD g l cs)).2) (toOsOps cap b (effsD g l cs)).1 := by
  induction cs with
  | nil => intro l J img b h; simpa [logD, jourD, effsD, toOsOps, applyOsOps] using h
  | cons x cs ih =>
    intro l J img b h
    obtain ⟨c, tick, order⟩ := x
    have h1 := C01R.ReachD.step c tick order h
    have h2 := ih _ _ _ _ h1
    simp only [logD, jourD, effsD]
    rw [toOsOps_append]
    simp only [applyOsOps_append, ← List.append_assoc]
    exact h2

/-! ### cut states -/

/-- one call: every cut state of its effects recovers the queues before or after it -/
theorem call_cut (g : Geom) (hB : g.B ≤ 65542) {l : Log} {J : List JE} {D : Image} (hc : CInv g l J D)
    (c : Call) (tick : Bool) (order : List Bytes) (hfits : ∀ j ∈ J ++ l.stepJ g c order, C07.WF j.e)
    (htorn : TornEffs (l.step g c tick order).2.2) (X : Image)
    (hX : CutState D (l.step g c tick order).2.2 X) (policy : Policy) :
    ∃ lp e0 io, recoverPre g X policy none = .ok (lp, e0, io) ∧
      (AbsEq lp.queues l.queues ∨ AbsEq lp.queues (l.step g c tick order).1.queues) := by
  obtain ⟨A, U, S, heff, _, hS, hpre, habs, hfin⟩ := step_decomp g hB hc c tick order hfits htorn
  have ofPre : ∀ X, PreRes g l.queues (l.step g c tick order).1.queues X →
      ∃ lp e0 io, recoverPre g X policy none = .ok (lp, e0, io) ∧
      (AbsEq lp.queues l.queues ∨ AbsEq lp.queues (l.step g c tick order).1.queues) := by
    intro X hp
    obtain ⟨lp, e0, io, hrec, hq⟩ := hp policy
    exact ⟨lp, e0, io, hrec, hq.imp AbsEq.of_qsEquiv AbsEq.of_qsEquiv⟩
  rw [heff] at hX
  rcases CutState.of_append _ hX with hX | hX
  · rcases CutState.of_append _ hX with hX | hX
    · exact ofPre _ (hpre _ hX)
    · obtain ⟨k'', hk, hXe⟩ := cut_unlinks U hX
      rw [hXe]
      cases k'' with
      | zero =>
        simp only [List.take_zero, List.map_nil, applyOsOps, List.foldl_nil]
        exact ofPre _ (hpre _ (CutState.full A D))
      | succ k'' =>
        obtain ⟨lp, e0, io, hrec, hq⟩ := habs (k'' + 1) (Nat.succ_pos _) hk policy
        exact ⟨lp, e0, io, hrec, Or.inr hq⟩
  · have hXe := cut_syncL hS hX
    rw [hXe]
    have : applyOsOps D (directOps (A ++ U.map Effect.unlink)) =
        applyOsOps D (directOps (l.step g c tick order).2.2) := by
      rw [heff, directOps_append (A ++ U.map Effect.unlink), applyOsOps_append, syncL_apply hS]
    rw [this]
    exact ofPre _ hfin

/-- a run: every cut state of its effects recovers the queues after some prefix of the calls -/
theorem run_cut (g : Geom) (hB : g.B ≤ 65542) (cs : List (Call × Bool × List Bytes)) :
    ∀ {l : Log} {J : List JE} {D : Image}, CInv g l J D →
    (∀ j ∈ J ++ jourD g l cs, C07.WF j.e) → TornEffs (effsD g l cs) →
    ∀ X, CutState D (effsD g l cs) X → ∀ policy, ∃ i lp e0 io, i ≤ cs.length ∧
      recoverPre g X policy none = .ok (lp, e0, io) ∧ AbsEq lp.queues (logD g l (cs.take i)).queues := by
  induction cs with
  | nil =>
    intro l J D hc hwf _ X hX policy
    have : X = D := by simpa [effsD] using hX.nil_inv
    rw [this]
    obtain ⟨lp, e0, io, hrec, hq⟩ := preRes_of_cinv g hB hc
      (fun j hj => hwf j (List.mem_append_left _ hj)) policy
    exact ⟨0, lp, e0, io, Nat.le_refl _, hrec, AbsEq.of_qsEquiv hq⟩
  | cons x cs ih =>
    intro l J D hc hwf htorn X hX policy
    obtain ⟨c, tick, order⟩ := x
    simp only [effsD, jourD] at hX hwf htorn
    have hwf1 : ∀ j ∈ J ++ l.stepJ g c order, C07.WF j.e := by
      intro j hj
      apply hwf j
      rw [← List.append_assoc]
      exact List.mem_append_left _ hj
    rcases CutState.of_append _ hX with hX | hX
    · obtain ⟨lp, e0, io, hrec, hq⟩ := call_cut g hB hc c tick order hwf1
        (htorn.mono fun v hv => List.mem_append_left _ hv) X hX policy
      rcases hq with hq | hq
      · exact ⟨0, lp, e0, io, Nat.zero_le _, hrec, hq⟩
      · exact ⟨1, lp, e0, io, by simp, hrec, by simpa [logD] using hq⟩
    · have hc1 := cinv_step g hc c tick order
      obtain ⟨i, lp, e0, io, hi, hrec, hq⟩ := ih hc1 (by rw [List.append_assoc]; exact hwf)
        (htorn.mono fun v hv => List.mem_append_right _ hv) X hX policy
      exact ⟨i + 1, lp, e0, io, by simpa using hi, hrec, by rw [logD_take_succ]; exact hq⟩

end MRL.K
