/-
Absolute positions of a frame layout. Positions are byte offsets in the stream formed by the
tracked files back to back (origin = start of the first tracked file `F`); a frame whose header is
at position `h` is read with file tag `F + h / fileBytes`.
-/
import MRL.Proofs.GTape

namespace MRL.G
open MRL Codec Consts

theorem mod_add_lt {p d B : Nat} (h : p % B + d < B) : (p + d) % B = p % B + d := by
  have hd := Nat.div_add_mod p B
  have : p + d = (p % B + d) + B * (p / B) := by omega
  rw [this, Nat.add_mul_mod_self_left, Nat.mod_eq_of_lt h]

theorem mod_add_eq {p d B : Nat} (h : p % B + d = B) : (p + d) % B = 0 := by
  have hd := Nat.div_add_mod p B
  have : p + d = B * (p / B + 1) := by rw [Nat.mul_add, Nat.mul_one]; omega
  rw [this, Nat.mul_mod_right]

theorem div_add_lt {p d B : Nat} (hB : 0 < B) (h : p % B + d < B) : (p + d) / B = p / B := by
  have hd := Nat.div_add_mod p B
  have : p + d = (p % B + d) + B * (p / B) := by omega
  rw [this, Nat.add_mul_div_left _ _ hB, Nat.div_eq_of_lt h, Nat.zero_add]

/-- position of the header of a frame written when the writer stands at `p` -/
def hdrPos (g : Geom) (p : Nat) : Nat := if g.B - p % g.B < 7 then p + (g.B - p % g.B) else p

/-- position after that frame -/
def nextPos (g : Geom) (p len : Nat) : Nat := hdrPos g p + 7 + len

/-- position after a list of frames -/
def endPos (g : Geom) : Nat → List Frm → Nat
  | p, [] => p
  | p, fr :: rest => endPos g (nextPos g p fr.2.length) rest

theorem Bpos (g : Geom) : 7 < g.B := g.hB

theorem le_hdrPos (g : Geom) (p : Nat) : p ≤ hdrPos g p := by unfold hdrPos; split <;> omega

theorem hdrPos_mod (g : Geom) (p : Nat) :
    hdrPos g p % g.B = if g.B - p % g.B < 7 then 0 else p % g.B := by
  have hB := Bpos g
  have hm : p % g.B < g.B := Nat.mod_lt _ (by omega)
  unfold hdrPos
  split
  · exact mod_add_eq (by omega)
  · rfl

theorem hdrPos_room (g : Geom) (p : Nat) : 7 ≤ g.B - hdrPos g p % g.B := by
  have hB := Bpos g
  rw [hdrPos_mod]; split <;> omega

theorem hdrPos_idem (g : Geom) (p : Nat) : hdrPos g (hdrPos g p) = hdrPos g p := by
  have := hdrPos_room g p
  have e : hdrPos g (hdrPos g p) = if g.B - hdrPos g p % g.B < 7
      then hdrPos g p + (g.B - hdrPos g p % g.B) else hdrPos g p := rfl
  rw [e, if_neg (by omega)]

theorem nextPos_hdrPos (g : Geom) (p len : Nat) : nextPos g (hdrPos g p) len = nextPos g p len := by
  unfold nextPos; rw [hdrPos_idem]

theorem endPos_hdrPos (g : Geom) (p : Nat) (fs : List Frm) (h : fs ≠ []) :
    endPos g (hdrPos g p) fs = endPos g p fs := by
  cases fs with
  | nil => exact absurd rfl h
  | cons fr fs => simp only [endPos, nextPos_hdrPos]

theorem endPos_append (g : Geom) (a b : List Frm) : ∀ p, endPos g p (a ++ b) = endPos g (endPos g p a) b := by
  induction a with
  | nil => intro p; rfl
  | cons fr a ih => intro p; simp only [List.cons_append, endPos, ih]

theorem le_endPos (g : Geom) (fs : List Frm) : ∀ p, p ≤ endPos g p fs := by
  induction fs with
  | nil => intro p; exact Nat.le_refl _
  | cons fr fs ih =>
    intro p
    have := ih (nextPos g p fr.2.length)
    have := le_hdrPos g p
    simp only [endPos]; unfold nextPos at *; omega

/-! ### the writer's cursors are the positions modulo the block size -/

theorem totalLen_frameWrites (g : Geom) (p : Nat) (t : FrameType) (pl : Bytes) :
    p + totalLen (frameWrites g (p % g.B) t pl) = nextPos g p pl.length := by
  unfold frameWrites nextPos hdrPos
  simp only [HEADER_LEN]
  split <;> simp [length_encodeFrame] <;> omega

theorem maxFrameLen_pos (g : Geom) (p len : Nat) (h : len ≤ maxFrameLen g (p % g.B)) :
    hdrPos g p % g.B + 7 + len ≤ g.B := by
  have hB := Bpos g
  have hm : p % g.B < g.B := Nat.mod_lt _ (by omega)
  rw [hdrPos_mod]
  unfold maxFrameLen at h
  simp only [HEADER_LEN] at h
  split
  · rename_i h1; rw [if_neg (by omega)] at h; omega
  · rename_i h1; rw [if_pos (by omega)] at h; omega

theorem frameEndCursor_pos (g : Geom) (p len : Nat) (h : len ≤ maxFrameLen g (p % g.B)) :
    frameEndCursor g (p % g.B) len = nextPos g p len % g.B := by
  have hfit := maxFrameLen_pos g p len h
  have hmod := hdrPos_mod g p
  unfold frameEndCursor adv nextPos
  simp only [HEADER_LEN]
  by_cases h1 : g.B - p % g.B < 7
  · simp only [h1, if_true] at hmod ⊢
    rw [hmod] at hfit
    by_cases h2 : 0 + (7 + len) = g.B
    · rw [if_pos h2, Nat.add_assoc]; exact (mod_add_eq (by rw [hmod]; omega)).symm
    · rw [if_neg h2, Nat.add_assoc, mod_add_lt (by rw [hmod]; omega), hmod]
  · simp only [h1, if_false] at hmod ⊢
    rw [hmod] at hfit
    by_cases h2 : p % g.B + (7 + len) = g.B
    · rw [if_pos h2, Nat.add_assoc]; exact (mod_add_eq (by rw [hmod]; omega)).symm
    · rw [if_neg h2, Nat.add_assoc, mod_add_lt (by rw [hmod]; omega), hmod]

theorem layoutBufs_pos_cons (g : Geom) (p : Nat) (fr : Frm) (fs : List Frm)
    (h : fr.2.length ≤ maxFrameLen g (p % g.B)) :
    layoutBufs g (p % g.B) (fr :: fs) =
      frameWrites g (p % g.B) fr.1 fr.2 ++ layoutBufs g (nextPos g p fr.2.length % g.B) fs := by
  simp only [layoutBufs, frameEndCursor_pos g p _ h]

theorem Fits_pos_cons (g : Geom) (p : Nat) (fr : Frm) (fs : List Frm) :
    Fits g (p % g.B) (fr :: fs) ↔
      fr.2.length ≤ maxFrameLen g (p % g.B) ∧ Fits g (nextPos g p fr.2.length % g.B) fs := by
  constructor
  · intro h; exact ⟨h.1, by rw [← frameEndCursor_pos g p _ h.1]; exact h.2⟩
  · intro h; exact ⟨h.1, by rw [frameEndCursor_pos g p _ h.1]; exact h.2⟩

theorem totalLen_layout_pos (g : Geom) (fs : List Frm) : ∀ p, Fits g (p % g.B) fs →
    p + totalLen (layoutBufs g (p % g.B) fs) = endPos g p fs := by
  induction fs with
  | nil => intro p _; simp [layoutBufs, endPos]
  | cons fr fs ih =>
    intro p hf
    rw [Fits_pos_cons] at hf
    rw [layoutBufs_pos_cons g p fr fs hf.1, totalLen_append, ← Nat.add_assoc, totalLen_frameWrites]
    exact ih _ hf.2

theorem endCursor_pos (g : Geom) (fs : List Frm) : ∀ p, Fits g (p % g.B) fs →
    endCursor g (p % g.B) fs = endPos g p fs % g.B := by
  induction fs with
  | nil => intro p _; rfl
  | cons fr fs ih =>
    intro p hf
    rw [Fits_pos_cons] at hf
    simp only [endCursor, endPos, frameEndCursor_pos g p _ hf.1]
    exact ih _ hf.2

/-- writing from the normalised position (after the padding) is the same layout -/
theorem Fits_hdrPos (g : Geom) (p : Nat) (fs : List Frm) (hne : fs ≠ []) :
    Fits g (hdrPos g p % g.B) fs → Fits g (p % g.B) fs := by
  have hB := Bpos g
  cases fs with
  | nil => exact absurd rfl hne
  | cons fr fs =>
    intro h
    rw [Fits_pos_cons] at h ⊢
    rw [nextPos_hdrPos] at h
    refine ⟨?_, h.2⟩
    have h1 := h.1
    rw [hdrPos_mod] at h1
    split at h1
    · rename_i hp
      unfold maxFrameLen at h1 ⊢
      simp only [HEADER_LEN] at h1 ⊢
      rw [if_neg (by omega)]
      rw [if_pos (by omega)] at h1
      omega
    · exact h1

theorem layout_hdrPos (g : Geom) (p : Nat) (fs : List Frm) (hne : fs ≠ []) :
    (layoutBufs g (p % g.B) fs).flatten =
      zeros (hdrPos g p - p) ++ (layoutBufs g (hdrPos g p % g.B) fs).flatten := by
  have hB := Bpos g
  cases fs with
  | nil => exact absurd rfl hne
  | cons fr fs =>
    rw [hdrPos_mod]
    unfold hdrPos
    split
    · rename_i hp
      rw [layoutBufs_bad g _ fr fs hp]
      simp only [List.flatten_cons]
      congr 2
      omega
    · simp [zeros]

/-! ### tags -/

/-- a frame with the file tag the reader sees for it -/
abbrev TFrm := Nat × Frm

def untag (afs : List TFrm) : List Frm := afs.map (·.2)

/-- the tags are the files of the header positions -/
def Tagged (g : Geom) (F : Nat) : Nat → List TFrm → Prop
  | _, [] => True
  | p, a :: rest => a.1 = F + hdrPos g p / g.fileBytes ∧ Tagged g F (nextPos g p a.2.2.length) rest

/-- tag a list of frames written from position `p` -/
def tagFrom (g : Geom) (F : Nat) : Nat → List Frm → List TFrm
  | _, [] => []
  | p, fr :: rest => (F + hdrPos g p / g.fileBytes, fr) :: tagFrom g F (nextPos g p fr.2.length) rest

theorem untag_tagFrom (g : Geom) (F : Nat) (fs : List Frm) : ∀ p, untag (tagFrom g F p fs) = fs := by
  induction fs with
  | nil => intro p; rfl
  | cons fr fs ih => intro p; simp only [tagFrom, untag, List.map_cons] ; rw [← untag, ih]

theorem Tagged_tagFrom (g : Geom) (F : Nat) (fs : List Frm) : ∀ p, Tagged g F p (tagFrom g F p fs) := by
  induction fs with
  | nil => intro p; trivial
  | cons fr fs ih => intro p; exact ⟨rfl, ih _⟩

theorem untag_append (a b : List TFrm) : untag (a ++ b) = untag a ++ untag b := by simp [untag]

theorem Tagged_append (g : Geom) (F : Nat) (a b : List TFrm) : ∀ p,
    Tagged g F p (a ++ b) ↔ Tagged g F p a ∧ Tagged g F (endPos g p (untag a)) b := by
  induction a with
  | nil => intro p; simp [Tagged, untag, endPos]
  | cons x a ih =>
    intro p
    simp only [List.cons_append, Tagged, ih, untag, List.map_cons, endPos, and_assoc]

theorem Tagged_hdrPos (g : Geom) (F : Nat) (p : Nat) (afs : List TFrm) (hne : afs ≠ []) :
    Tagged g F (hdrPos g p) afs ↔ Tagged g F p afs := by
  cases afs with
  | nil => exact absurd rfl hne
  | cons a afs => simp only [Tagged, hdrPos_idem, nextPos_hdrPos]

end MRL.G
