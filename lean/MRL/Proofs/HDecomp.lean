/-
One call, decomposed for the crash analysis: its effects are a write part `A` (no unlink), the
unlinks `U` of the GC pass, and trailing flush/fsync effects `S`; what `recoverPre` returns on
every crash state of each part.
-/
import MRL.Proofs.HUnlink
import MRL.Proofs.StepGc

namespace MRL.H
open MRL Codec Consts G Torn Log Buf C05 C01J

/-- `open` succeeds on `X` with the queues before the call or after it, handles included -/
def PreRes (g : Geom) (qsBefore qsAfter : MemQueues) (X : Image) : Prop :=
  ∀ policy, ∃ lp e0 io, recoverPre g X policy none = .ok (lp, e0, io) ∧
    (QsEquiv lp.queues qsBefore ∨ QsEquiv lp.queues qsAfter)

/-- `open` succeeds on `X` with the queues after the call, up to the file handles -/
def AbsRes (g : Geom) (qsAfter : MemQueues) (X : Image) : Prop :=
  ∀ policy, ∃ lp e0 io, recoverPre g X policy none = .ok (lp, e0, io) ∧ AbsEq lp.queues qsAfter

theorem preRes_of_cinv (g : Geom) (hB : g.B ≤ 65542) {l : Log} {J : List JE} {D : Image} (h : CInv g l J D)
    (hwf : ∀ j ∈ J, C07.WF j.e) : ∀ policy, ∃ lp e0 io, recoverPre g D policy none = .ok (lp, e0, io) ∧
      QsEquiv lp.queues l.queues := by
  intro policy
  obtain ⟨lp, io, hrec, _, hq, _, _⟩ := open_ok g hB h hwf policy
  exact ⟨lp, _, io, hrec, hq⟩

theorem TornEffs.mono {a b : List Effect} (h : TornEffs b) (hs : ∀ v ∈ a, v ∈ b) : TornEffs a :=
  fun t p f off hm => h t p f off (hs _ hm)

theorem no_unlink_of_unlinked {es : List Effect} (h : Step.unlinked es = []) : ∀ f, Effect.unlink f ∉ es := by
  intro f hf
  have := Step.mem_unlinked.mpr hf
  rw [h] at this; cases this

theorem no_unlink_syncL {sy : List Effect} (h : IsSyncL sy) : ∀ f, Effect.unlink f ∉ sy := by
  intro f hf
  rcases h _ hf with h1 | ⟨_, h1⟩ | h1 <;> cases h1

theorem touchesJ_inj (g : Geom) (l : Log) (n1 n2 : List Bytes) (h : touchesJ g l n1 = touchesJ g l n2) :
    n1 = n2 := by
  rw [← (touchesJ_entries g n1 l).1, ← (touchesJ_entries g n2 l).1, h]

theorem step_decomp (g : Geom) (hB : g.B ≤ 65542) {l : Log} {J : List JE} {D : Image} (h : CInv g l J D)
    (c : Call) (tick : Bool) (order : List Bytes)
    (hfits : ∀ j ∈ J ++ l.stepJ g c order, C07.WF j.e)
    (htorn : TornEffs (l.step g c tick order).2.2) :
    ∃ (A : List Effect) (U : List Nat) (S : List Effect),
      (l.step g c tick order).2.2 = A ++ U.map Effect.unlink ++ S ∧
      (∀ f, Effect.unlink f ∉ A) ∧ IsSyncL S ∧
      (∀ X, CutState D A X → PreRes g l.queues (l.step g c tick order).1.queues X) ∧
      (∀ k, 0 < k → k ≤ U.length →
        AbsRes g (l.step g c tick order).1.queues
          (applyOsOps (applyOsOps D (directOps A)) ((U.take k).map OsOp.unlink))) ∧
      PreRes g l.queues (l.step g c tick order).1.queues (applyOsOps D (directOps (l.step g c tick order).2.2)) := by
  have hInv' : Inv (l.step g c tick order).1 := (C05_refines g l h.jinv.h.inv c tick order).2.2
  have hfinal := cinv_step g h c tick order
  have hfin : PreRes g l.queues (l.step g c tick order).1.queues
      (applyOsOps D (directOps (l.step g c tick order).2.2)) := by
    intro policy
    obtain ⟨lp, e0, io, hrec, hq⟩ := preRes_of_cinv g hB hfinal hfits policy
    exact ⟨lp, e0, io, hrec, Or.inr hq⟩
  have hwfJ : ∀ j ∈ J, C07.WF j.e := fun j hj => hfits j (List.mem_append_left _ hj)
  rcases step_full2 g l h.jinv.h.inv c tick order with
    ⟨hj, hl, hsy⟩ | ⟨e, qs', sy, hewf, hre, hsy, (⟨hj, hl, heff⟩ | ⟨hj, hl, heff⟩)⟩
  · -- nothing written
    refine ⟨[], [], (l.step g c tick order).2.2, by simp, (fun f hf => by cases hf), hsy, ?_,
      (fun k hk0 hk => by simp at hk; omega), hfin⟩
    intro X hX
    rw [hX.nil_inv]
    intro policy
    obtain ⟨lp, e0, io, hrec, hq⟩ := preRes_of_cinv g hB h hwfJ policy
    exact ⟨lp, e0, io, hrec, Or.inl hq⟩
  · -- one entry, no GC
    rw [hl] at hInv'
    have hq1 : (l.step g c tick order).1.queues = qs' := by rw [hl]
    refine ⟨(Log.writeEntry g l e).2.1, [], sy, by rw [heff]; simp,
      no_unlink_of_unlinked (Step.writeEntry_unlinked g l e), hsy, ?_,
      (fun k hk0 hk => by simp at hk; omega), hfin⟩
    intro X hX policy
    rw [hq1]
    have hwf' : ∀ j ∈ J ++ l.je g e :: touchesJ g { (Log.writeEntry g l e).1 with queues := qs' } [],
        C07.WF j.e := by
      intro j hj'
      apply hfits j
      rw [hj]; simpa [touchesJ] using hj'
    exact write_phase_crash g hB h e qs' hewf hre hInv' [] (fun n hn => by cases hn) hwf'
      (htorn.mono (by
        intro v hv
        rw [heff]
        simp only [writeTouches, List.append_nil] at hv
        exact List.mem_append_left _ hv))
      X (by simpa [writeTouches] using hX) policy
  · -- one entry, then a GC pass
    have hq' : (runGc g { (Log.writeEntry g l e).1 with queues := qs' } order).1.queues = qs' :=
      runGc_queues g _ order
    have hq1 : (l.step g c tick order).1.queues = qs' := by rw [hl]; exact hq'
    rw [hl] at hInv'
    have hInv2 : Inv ({ (Log.writeEntry g l e).1 with queues := qs' } : Log) :=
      Inv.of_queues (l := (runGc g { (Log.writeEntry g l e).1 with queues := qs' } order).1) hq'.symm hInv'
    have h2 := cinv_write g h e qs' hewf hre hInv2
    rcases runGc_full g { (Log.writeEntry g l e).1 with queues := qs' } order with ⟨hr1, hr2⟩ | ⟨names, hr1, hr2⟩
    · -- the GC pass does nothing
      rw [hr1] at heff
      rw [hr2] at hj
      refine ⟨(Log.writeEntry g l e).2.1, [], sy, by rw [heff]; simp,
        no_unlink_of_unlinked (Step.writeEntry_unlinked g l e), hsy, ?_,
        (fun k hk0 hk => by simp at hk; omega), hfin⟩
      intro X hX policy
      rw [hq1]
      have hwf' : ∀ j ∈ J ++ l.je g e :: touchesJ g { (Log.writeEntry g l e).1 with queues := qs' } [],
          C07.WF j.e := by
        intro j hj'
        apply hfits j
        rw [hj]; simpa [touchesJ] using hj'
      exact write_phase_crash g hB h e qs' hewf hre hInv2 [] (fun n hn => by cases hn) hwf'
        (htorn.mono (by
          intro v hv
          rw [heff]
          simp only [writeTouches, List.append_nil] at hv
          exact List.mem_append_left _ (List.mem_append_left _ hv)))
        X (by simpa [writeTouches] using hX) policy
    · -- the GC pass runs
      -- its names are the empty queues
      have hnames : ∀ n ∈ names, n ∈ qs'.emptyNames := by
        rcases runGc_shape g { (Log.writeEntry g l e).1 with queues := qs' } order hInv2.1 with
          ⟨hs1, _⟩ | ⟨names', _, _, hs1, _, _, hs5⟩
        · rw [hr1] at hs1
          cases names with
          | nil => intro n hn; cases hn
          | cons n ns => rw [touchesJ_cons] at hs1; cases hs1
        · rw [hr1] at hs1
          have := touchesJ_inj g _ _ _ hs1
          subst this
          intro n hn
          exact (hs5 n).mp hn
      rw [hr1] at hj
      have hwf' : ∀ j ∈ J ++ l.je g e :: touchesJ g { (Log.writeEntry g l e).1 with queues := qs' } names,
          C07.WF j.e := by
        intro j hj'; exact hfits j (by rw [hj]; exact hj')
      have heff' : (l.step g c tick order).2.2 =
          ((Log.writeEntry g l e).2.1 ++ (writeTouches g { (Log.writeEntry g l e).1 with queues := qs' } names).2.1 ++
            (writeTouches g { (Log.writeEntry g l e).1 with queues := qs' } names).1.persistEffects .flushAndFsync) ++
          (gcFiles ((writeTouches g { (Log.writeEntry g l e).1 with queues := qs' } names).1.canDelete
            ({ (Log.writeEntry g l e).1 with queues := qs' } : Log).cur)
            (writeTouches g { (Log.writeEntry g l e).1 with queues := qs' } names).1.files).2.map Effect.unlink ++ sy := by
        rw [heff, hr2]; simp only [List.append_assoc]
      have htorn2 : TornEffs ((Log.writeEntry g l e).2.1 ++
          (writeTouches g { (Log.writeEntry g l e).1 with queues := qs' } names).2.1) := by
        apply htorn.mono
        intro v hv
        rw [heff']
        exact List.mem_append_left _ (List.mem_append_left _ (List.mem_append_left _ hv))
      have hpre : ∀ X, CutState D ((Log.writeEntry g l e).2.1 ++
          (writeTouches g { (Log.writeEntry g l e).1 with queues := qs' } names).2.1) X →
          PreRes g l.queues qs' X :=
        fun X hX policy => write_phase_crash g hB h e qs' hewf hre hInv2 names hnames hwf' htorn2 X hX policy
      refine ⟨_, _, sy, heff', ?_, hsy, ?_, ?_, hfin⟩
      · intro f hf
        rcases List.mem_append.mp hf with hf | hf
        · rcases List.mem_append.mp hf with hf | hf
          · exact no_unlink_of_unlinked (Step.writeEntry_unlinked g l e) f hf
          · exact no_unlink_of_unlinked (Step.writeTouches_unlinked g names _) f hf
        · exact no_unlink_syncL (isSyncL_persist _ _) f hf
      · intro X hX
        rw [hq1]
        rcases CutState.of_append _ hX with hX | hX
        · exact hpre X hX
        · have := cut_syncL (isSyncL_persist _ _) hX
          rw [this]
          exact hpre _ (CutState.full _ _)
      · intro k hk0 hk policy
        rw [hq1]
        have hD : applyOsOps D (directOps ((Log.writeEntry g l e).2.1 ++
            (writeTouches g { (Log.writeEntry g l e).1 with queues := qs' } names).2.1 ++
            (writeTouches g { (Log.writeEntry g l e).1 with queues := qs' } names).1.persistEffects .flushAndFsync)) =
            applyOsOps (applyOsOps D (directOps (Log.writeEntry g l e).2.1))
              (directOps (writeTouches g { (Log.writeEntry g l e).1 with queues := qs' } names).2.1) := by
          rw [directOps_append, applyOsOps_append, syncL_apply (isSyncL_persist _ _), directOps_append,
            applyOsOps_append]
        rw [hD]
        have hr3 : (runGc g { (Log.writeEntry g l e).1 with queues := qs' } order).1 =
            { (writeTouches g { (Log.writeEntry g l e).1 with queues := qs' } names).1 with
              files := (gcFiles ((writeTouches g { (Log.writeEntry g l e).1 with queues := qs' } names).1.canDelete
                ({ (Log.writeEntry g l e).1 with queues := qs' } : Log).cur)
                (writeTouches g { (Log.writeEntry g l e).1 with queues := qs' } names).1.files).1 } := by
          rw [hr2]
        have hwf2 : ∀ j ∈ (J ++ [l.je g e]) ++ touchesJ g { (Log.writeEntry g l e).1 with queues := qs' } names,
            C07.WF j.e := by
          intro j hj'; exact hwf' j (by simpa using hj')
        exact unlink_phase_crash g hB h2 order names hr1 hr3 hwf2 k hk0 hk policy

end MRL.H
