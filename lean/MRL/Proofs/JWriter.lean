/-
The rolling writer as seen by the journal: tracked files stay strictly ascending and contain the
current file, files are only added at the end, the current file number only grows, and after an
entry has been written the writer stands at or beyond the file where the entry started
(`nextLoc`). Facts about `gcFiles`.
-/
import MRL.Proofs.Journal
import MRL.Proofs.QueueLemmas

namespace MRL
namespace Log

/-- tracked files strictly ascending, the current file is tracked -/
structure FilesWF (l : Log) : Prop where
  sorted : l.files.Pairwise (· < ·)
  cur_mem : l.cur ∈ l.files

theorem nextFile_some {files : List Nat} {cur nf : Nat} (h : nextFile files cur = some nf) :
    nf ∈ files ∧ cur < nf := by
  unfold nextFile at h
  exact ⟨List.mem_of_find?_eq_some h, by simpa using List.find?_some h⟩

theorem nextFile_none {files : List Nat} {cur : Nat} (h : nextFile files cur = none) :
    ∀ f ∈ files, f ≤ cur := by
  unfold nextFile at h
  rw [List.find?_eq_none] at h
  intro f hf
  have := h f hf
  simpa using this

theorem rollTarget_gt (l : Log) : l.cur < l.rollTarget := by
  unfold rollTarget
  split
  · rename_i nf h; exact (nextFile_some h).2
  · omega

/-- offset of the next frame header (after the padding, if any) -/
def off1 (g : Geom) (l : Log) : Nat :=
  if g.B - l.off % g.B < Consts.HEADER_LEN then l.off + (g.B - l.off % g.B) else l.off

theorem nextLoc_eq (g : Geom) (l : Log) :
    l.nextLoc g = if off1 g l ≥ g.fileBytes then l.rollTarget else l.cur := rfl

theorem nextLoc_ge (g : Geom) (l : Log) : l.cur ≤ l.nextLoc g := by
  rw [nextLoc_eq]
  split
  · exact Nat.le_of_lt (rollTarget_gt l)
  · exact Nat.le_refl _

/-- `l'` is `l` after some writing: same queues, files extended at the end, cursor not lower -/
structure Grow (l l' : Log) : Prop where
  wf : FilesWF l'
  cur_le : l.cur ≤ l'.cur
  ext : ∃ e, l'.files = l.files ++ e
  queues : l'.queues = l.queues

theorem Grow.refl {l : Log} (h : FilesWF l) : Grow l l := ⟨h, Nat.le_refl _, ⟨[], by simp⟩, rfl⟩

theorem Grow.trans {a b c : Log} (h1 : Grow a b) (h2 : Grow b c) : Grow a c := by
  obtain ⟨e1, he1⟩ := h1.ext
  obtain ⟨e2, he2⟩ := h2.ext
  exact ⟨h2.wf, Nat.le_trans h1.cur_le h2.cur_le, ⟨e1 ++ e2, by rw [he2, he1, List.append_assoc]⟩,
    by rw [h2.queues, h1.queues]⟩

theorem writeBuf_roll_cur (g : Geom) (l : Log) (buf : Bytes) (hne : buf ≠ [])
    (h : l.off + buf.length > g.fileBytes) : (writeBuf g l buf).1.cur = l.rollTarget := by
  have he : buf.isEmpty = false := by cases buf <;> simp_all
  unfold writeBuf rollTarget
  simp only [he, Bool.false_eq_true, if_false, h, if_true]
  cases nextFile l.files l.cur <;> rfl

theorem writeBuf_noroll (g : Geom) (l : Log) (buf : Bytes) (hne : buf ≠ [])
    (h : ¬ l.off + buf.length > g.fileBytes) :
    (writeBuf g l buf).1 = { l with off := l.off + buf.length } := by
  have he : buf.isEmpty = false := by cases buf <;> simp_all
  unfold writeBuf
  simp only [he, Bool.false_eq_true, if_false, h]

theorem writeBuf_grow (g : Geom) (l : Log) (buf : Bytes) (h : FilesWF l) :
    Grow l (writeBuf g l buf).1 := by
  unfold writeBuf
  split
  · exact Grow.refl h
  · split
    · cases hn : nextFile l.files l.cur with
      | some nf =>
        obtain ⟨h1, h2⟩ := nextFile_some hn
        exact ⟨⟨h.sorted, h1⟩, Nat.le_of_lt h2, ⟨[], by simp⟩, rfl⟩
      | none =>
        have hall := nextFile_none hn
        refine ⟨⟨?_, by simp⟩, by simp, ⟨[l.cur + 1], rfl⟩, rfl⟩
        simp only
        rw [List.pairwise_append]
        refine ⟨h.sorted, by simp, ?_⟩
        intro a ha b hb
        simp only [List.mem_singleton] at hb
        have := hall a ha; omega
    · exact ⟨⟨h.sorted, h.cur_mem⟩, Nat.le_refl _, ⟨[], by simp⟩, rfl⟩

theorem writeBufs_cons (g : Geom) (l : Log) (b : Bytes) (bs : List Bytes) :
    (writeBufs g l (b :: bs)).1 = (writeBufs g (writeBuf g l b).1 bs).1 := by
  simp only [writeBufs]

theorem writeBufs_append (g : Geom) (a b : List Bytes) : ∀ l : Log,
    (writeBufs g l (a ++ b)).1 = (writeBufs g (writeBufs g l a).1 b).1 := by
  induction a with
  | nil => intro l; rfl
  | cons x xs ih => intro l; rw [List.cons_append, writeBufs_cons, writeBufs_cons, ih]

theorem writeBufs_grow (g : Geom) (bufs : List Bytes) : ∀ l : Log, FilesWF l →
    Grow l (writeBufs g l bufs).1 := by
  induction bufs with
  | nil => intro l h; exact Grow.refl h
  | cons b bs ih =>
    intro l h
    rw [writeBufs_cons]
    have h1 := writeBuf_grow g l b h
    exact h1.trans (ih _ h1.wf)

theorem writeEntry_fst (g : Geom) (l : Log) (e : Entry) :
    (writeEntry g l e).1 = (writeBufs g l (MRL.writeEntry g (l.off % g.B) e.encode
      (Nat.mod_lt _ (Nat.lt_trans (Nat.succ_pos _) g.hB)))).1 := by
  simp only [writeEntry]

theorem writeEntry_grow (g : Geom) (l : Log) (e : Entry) (h : FilesWF l) :
    Grow l (writeEntry g l e).1 := by
  rw [writeEntry_fst]; exact writeBufs_grow g _ l h

theorem encodeFrame_ne_nil (t : FrameType) (p : Bytes) : encodeFrame t p ≠ [] := by
  simp [encodeFrame, encodeHeader]

theorem writeEntryBufs_head (g : Geom) (c : Nat) (b : Bool) (payload : Bytes) (hc : c < g.B) :
    ∃ t p rest, writeEntryBufs g c b payload hc = frameWrites g c t p ++ rest := by
  rw [writeEntryBufs]
  split
  · exact ⟨_, _, [], (List.append_nil _).symm⟩
  · exact ⟨_, _, _, rfl⟩

theorem rollTarget_congr {l l' : Log} (hf : l'.files = l.files) (hc : l'.cur = l.cur) :
    l'.rollTarget = l.rollTarget := by
  unfold rollTarget; rw [hf, hc]

/-- after writing an entry the writer is at or beyond the file where the entry started -/
theorem writeEntry_cur_ge_nextLoc (g : Geom) (l : Log) (e : Entry) (h : FilesWF l) :
    l.nextLoc g ≤ (writeEntry g l e).1.cur := by
  have hmono := (writeEntry_grow g l e h).cur_le
  rw [nextLoc_eq]
  by_cases hoff : off1 g l ≥ g.fileBytes
  case neg => simp only [hoff, if_false]; exact hmono
  simp only [hoff, if_true]
  unfold off1 at hoff
  rw [writeEntry_fst]
  have hc : l.off % g.B < g.B := Nat.mod_lt _ (Nat.lt_trans (Nat.succ_pos _) g.hB)
  obtain ⟨t, p, rest, hbufs⟩ := writeEntryBufs_head g (l.off % g.B) true e.encode hc
  unfold MRL.writeEntry
  rw [hbufs, writeBufs_append]
  suffices hs : l.rollTarget ≤ (writeBufs g l (frameWrites g (l.off % g.B) t p)).1.cur ∧
      FilesWF (writeBufs g l (frameWrites g (l.off % g.B) t p)).1 from
    Nat.le_trans hs.1 (writeBufs_grow g rest _ hs.2).cur_le
  refine ⟨?_, (writeBufs_grow g _ l h).wf⟩
  have hfr := encodeFrame_ne_nil t p
  have hfl : 0 < (encodeFrame t p).length := List.length_pos_iff.mpr hfr
  unfold frameWrites
  split
  · rename_i hpad
    simp only [hpad, if_true] at hoff
    have hz : zeros (g.B - l.off % g.B) ≠ [] := by
      intro hz
      have := congrArg List.length hz
      simp only [zeros, List.length_replicate, List.length_nil] at this
      omega
    have hzl : (zeros (g.B - l.off % g.B)).length = g.B - l.off % g.B := by simp [zeros]
    rw [writeBufs_cons, writeBufs_cons]
    show l.rollTarget ≤ (writeBuf g (writeBuf g l (zeros (g.B - l.off % g.B))).1 (encodeFrame t p)).1.cur
    by_cases hr : l.off + (zeros (g.B - l.off % g.B)).length > g.fileBytes
    · have h1 := writeBuf_roll_cur g l _ hz hr
      have hg1 := writeBuf_grow g l (zeros (g.B - l.off % g.B)) h
      have h2 := (writeBuf_grow g _ (encodeFrame t p) hg1.wf).cur_le
      omega
    · rw [writeBuf_noroll g l _ hz hr]
      have hroll : ({ l with off := l.off + (zeros (g.B - l.off % g.B)).length } : Log).off +
          (encodeFrame t p).length > g.fileBytes := by
        simp only [hzl]; omega
      rw [writeBuf_roll_cur g _ _ hfr hroll]
      exact Nat.le_of_eq (rollTarget_congr rfl rfl).symm
  · rename_i hpad
    simp only [hpad, if_false] at hoff
    rw [writeBufs_cons]
    show l.rollTarget ≤ (writeBuf g l (encodeFrame t p)).1.cur
    rw [writeBuf_roll_cur g l _ hfr (by omega)]
    exact Nat.le_refl _

/-! ### `writeTouches`, `gcFiles`, `runGc` -/

/-- the position written by the GC for queue `name` -/
def touchNext (l : Log) (name : Bytes) : Nat :=
  match l.queues.get? name with
  | some q => q.nextPosition
  | none => 0

theorem writeTouches_cons (g : Geom) (l : Log) (name : Bytes) (rest : List Bytes) :
    (writeTouches g l (name :: rest)).1 =
      (writeTouches g (writeEntry g l (.touch name (touchNext l name))).1 rest).1 := by
  simp only [writeTouches]
  rfl

theorem touchesJ_cons (g : Geom) (l : Log) (name : Bytes) (rest : List Bytes) :
    touchesJ g l (name :: rest) =
      l.je g (.touch name (touchNext l name)) ::
        touchesJ g (writeEntry g l (.touch name (touchNext l name))).1 rest := rfl

theorem writeTouches_grow (g : Geom) (names : List Bytes) : ∀ l : Log, FilesWF l →
    Grow l (writeTouches g l names).1 := by
  induction names with
  | nil => intro l h; exact Grow.refl h
  | cons n ns ih =>
    intro l h
    rw [writeTouches_cons]
    have h1 := writeEntry_grow g l (.touch n (touchNext l n)) h
    exact h1.trans (ih _ h1.wf)

theorem gcFiles_spec (canDel : Nat → Bool) : ∀ (fs r d : List Nat), gcFiles canDel fs = (r, d) →
    fs = d ++ r ∧ (∀ f ∈ d, canDel f = true) ∧ (fs ≠ [] → r ≠ []) := by
  intro fs
  induction fs with
  | nil => intro r d h; simp only [gcFiles, Prod.mk.injEq] at h; obtain ⟨rfl, rfl⟩ := h; simp
  | cons f fs ih =>
    intro r d h
    cases fs with
    | nil => simp only [gcFiles, Prod.mk.injEq] at h; obtain ⟨rfl, rfl⟩ := h; simp
    | cons f' rest =>
      simp only [gcFiles] at h
      split at h
      · rename_i hc
        rcases hg : gcFiles canDel (f' :: rest) with ⟨r1, d1⟩
        rw [hg] at h
        simp only [Prod.mk.injEq] at h
        obtain ⟨rfl, rfl⟩ := h
        obtain ⟨h1, h2, h3⟩ := ih r1 d1 hg
        refine ⟨by rw [h1]; rfl, ?_, fun _ => h3 (by simp)⟩
        intro x hx
        simp only [List.mem_cons] at hx
        rcases hx with rfl | hx
        · exact hc
        · exact h2 x hx
      · simp only [Prod.mk.injEq] at h; obtain ⟨rfl, rfl⟩ := h; simp

end Log
end MRL
