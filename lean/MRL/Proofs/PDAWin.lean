/-
The window of pending unlinks, with restarts inside it.

`virt_reopenA`: a `reopen` of the real log while collected files are still on the disk, up to its
first `fsync(dir)`. `vwinA`: `PDC.vwin` WITHOUT the hypothesis that no restart occurs in the window.
`vrecA`: `PDC.vrec` without `noReopenPend`: every image of a history with the late unlinks of a GC pass
undone (`PDC.skipLate`) opens to a state of the history.
-/
import MRL.Proofs.PDAReopen
import MRL.Proofs.PDCRun
import MRL.Proofs.PDCPat

namespace MRL.PDA
open MRL Codec Consts G H Torn Log Buf C05 C01J L PX PD PDC

theorem xres_absEq {g : Geom} {qa qb : MemQueues} {X : Image} (h : XRes g qa qa X) (hab : AbsEq qa qb) :
    XRes g qb qb X := by
  intro policy
  obtain ⟨lp, e0, io, h1, h2⟩ := h policy
  refine ⟨lp, e0, io, h1, Or.inl ?_⟩
  rcases h2 with h2 | h2 <;> exact h2.trans hab

/-- **a restart of the real log inside the window**, up to the first `fsync(dir)` of its GC pass -/
theorem virt_reopenA (g : Geom) (hB : g.B ≤ 65542) (lo : List Nat) {l : Log} {J Jv : List JE} {D Dv : Image}
    (hc : CInvX g l J D) (hw : ∀ j ∈ J, C07.WF j.e)
    (hv : CInvA g (virt lo l) Jv Dv) (hwv : ∀ j ∈ Jv, C07.WF j.e)
    (hrel : D = Dv.filter (fun kv => !lo.contains kv.1)) (policy : Policy) (order : List Bytes)
    (hwe : ∀ j ∈ PX.evJ g l D (.reopen policy order), C07.WF j.e)
    (htorn : TornEffs (evEffs g l D (.reopen policy order))) :
    (∀ p, hasDS ((evEffs g l D (.reopen policy order)).take p) = false →
      XRes g l.queues l.queues (applyOsOps Dv (directOps ((evEffs g l D (.reopen policy order)).take p)))) ∧
    (hasDS (evEffs g l D (.reopen policy order)) = false →
      ∃ Jv', CInvA g (virt lo (evLog g l D (.reopen policy order))) Jv'
          (applyOsOps Dv (directOps (evEffs g l D (.reopen policy order)))) ∧
        (∀ j ∈ Jv', C07.WF j.e) ∧ ∀ f ∈ lo, f ≤ (evLog g l D (.reopen policy order)).cur) := by
  obtain ⟨J', lp, io, r, hpre, _, _, hc0, _, hab, e1, e2, e3⟩ := reopen_eval g hB hc hw policy order
  obtain ⟨⟨Jv', hvp, hwvp⟩, hlop, _⟩ := virt_relog g hB lo hc hw hv hwv hrel policy hpre
  rw [e3] at hwe
  rw [e2] at htorn
  rw [e1, e2]
  have hHle : lp.files.headD 0 ≤ lp.cur := head_le_of_mem hc0.jinv.h.files.sorted hc0.jinv.h.files.cur_mem
  have dVp := dshape_of_cinva hvp
  have hensop : applyOs Dv (.ensureLen (lp.files.headD 0) g.fileBytes) = Dv := by
    apply ensureLen_full
    intro kv hkv hk
    have := dVp.full kv hkv (by rw [hk]; exact hHle)
    omega
  have hens : applyOsOps Dv (directOps [Effect.flush, Effect.ensureLen (lp.files.headD 0) g.fileBytes]) = Dv := by
    simp only [directOps, List.flatMap_cons, List.flatMap_nil, direct, List.append_nil, List.nil_append,
      applyOsOps, List.foldl_cons, List.foldl_nil]
    exact hensop
  have hresP : XRes g l.queues l.queues Dv := xres_absEq (cinva_xres g hB (l := virt lo lp) hvp hwvp) hab
  have hsplit : Effect.flush :: ([Effect.ensureLen (lp.files.headD 0) g.fileBytes] ++ (runGc g lp order).2.1) =
      [Effect.flush, Effect.ensureLen (lp.files.headD 0) g.fileBytes] ++ (runGc g lp order).2.1 := rfl
  rw [hsplit] at htorn ⊢
  -- the prefixes that stay within `flush, ensureLen`
  have hsmall : ∀ p, p ≤ 2 → applyOsOps Dv (directOps
      (([Effect.flush, Effect.ensureLen (lp.files.headD 0) g.fileBytes] ++ (runGc g lp order).2.1).take p)) = Dv := by
    intro p hp
    rw [List.take_append_of_le_length (by simpa using hp)]
    have h3 : p = 0 ∨ p = 1 ∨ p = 2 := by omega
    rcases h3 with rfl | rfl | rfl
    · rfl
    · rfl
    · exact hens
  have hbig : ∀ p, 2 < p → applyOsOps Dv (directOps
      (([Effect.flush, Effect.ensureLen (lp.files.headD 0) g.fileBytes] ++ (runGc g lp order).2.1).take p)) =
      applyOsOps Dv (directOps ((runGc g lp order).2.1.take (p - 2))) := by
    intro p hp
    rw [List.take_append, List.take_of_length_le (by simp; omega), directOps_append, applyOsOps_append, hens]
    rfl
  have hbigDS : ∀ p, 2 < p → hasDS (([Effect.flush, Effect.ensureLen (lp.files.headD 0) g.fileBytes] ++
      (runGc g lp order).2.1).take p) = false → hasDS ((runGc g lp order).2.1.take (p - 2)) = false := by
    intro p hp h
    rw [List.take_append, List.take_of_length_le (by simp; omega), hasDS_append, Bool.or_eq_false_iff] at h
    exact h.2
  rcases runGc_full g lp order with ⟨hr1, hr2⟩ | ⟨names, hr1, hr2⟩
  · -- the GC pass does nothing
    rw [hr1]
    refine ⟨?_, ?_⟩
    · intro p _
      by_cases hp : p ≤ 2
      · have := hsmall p hp; rw [hr1] at this; rw [this]; exact hresP
      · have := hbig p (by omega); rw [hr1] at this; rw [this]
        simp only [List.take_nil]
        exact hresP
    · intro _
      simp only [List.append_nil]
      rw [hens]
      exact ⟨Jv', hvp, hwvp, hlop⟩
  · -- the GC pass runs
    have hnames : ∀ n ∈ names, n ∈ lp.queues.emptyNames := by
      rcases runGc_shape g lp order hc0.jinv.h.inv.1 with ⟨hs1, _⟩ | ⟨names', _, _, hs1, _, _, hs5⟩
      · rw [hr1] at hs1
        cases names with
        | nil => intro n hn; cases hn
        | cons n ns => rw [touchesJ_cons] at hs1; cases hs1
      · rw [hr1] at hs1
        have := touchesJ_inj g _ _ _ hs1
        subst this
        intro n hn
        exact (hs5 n).mp hn
    rw [hr1] at hwe
    obtain ⟨htv, _⟩ := writeTouches_virt g lo names lp hlop
    have hG : (runGc g lp order).2.1 = (writeTouches g lp names).2.1 ++
        ((writeTouches g lp names).1.persistEffects .flushAndFsync ++
          (gcFiles ((writeTouches g lp names).1.canDelete lp.cur) (writeTouches g lp names).1.files).2.map
            Effect.unlink) := by
      rw [hr2]; simp only [List.append_assoc]
    generalize hUn : (gcFiles ((writeTouches g lp names).1.canDelete lp.cur) (writeTouches g lp names).1.files).2.map
      Effect.unlink = Un at hG
    generalize hWd : (writeTouches g lp names).2.1 = W at hG
    have htornW : TornEffs W := by
      intro t p f off hm
      exact htorn t p f off (by rw [hG]; exact List.mem_append_right _ (List.mem_append_left _ hm))
    have hphase : ∀ (w : Bool) X, CutW w Dv W X → XRes g l.queues l.queues X := by
      intro w X hX
      have h1 : XRes g lp.queues lp.queues X := by
        refine touch_phaseA g hB (l := virt lo lp) hvp names hnames ?_ ?_ w X ?_
        · intro j hj
          rcases List.mem_append.mp hj with hj | hj
          · exact hwvp j hj
          · rw [touchesJ_virt g lo names lp hlop] at hj
            exact hwe j hj
        · rw [htv]; simp only; rw [hWd]; exact htornW
        · rw [htv]; simp only; rw [hWd]; exact hX
      exact xres_absEq h1 hab
    refine ⟨?_, ?_⟩
    · intro p hp
      by_cases hp2 : p ≤ 2
      · rw [hsmall p hp2]; exact hresP
      · have hq := hbigDS p (by omega) hp
        rw [hbig p (by omega)]
        generalize p - 2 = q at hq ⊢
        rw [hG] at hq ⊢
        by_cases hpl : q ≤ W.length
        · rw [List.take_append_of_le_length hpl]
          exact hphase true _ (CutW.of_take true W q Dv)
        · rw [List.take_append, List.take_of_length_le (by omega)] at hq ⊢
          have hk : q - W.length ≤ 2 := by
            apply Classical.byContradiction
            intro hn
            have h3 : ∃ m, q - W.length = m + 3 := ⟨q - W.length - 3, by omega⟩
            obtain ⟨m, hm⟩ := h3
            rw [hm, hasDS_append] at hq
            simp [persistEffects, hasDS, isDS] at hq
          have hsync : IsSyncL (((writeTouches g lp names).1.persistEffects .flushAndFsync ++ Un).take
              (q - W.length)) := by
            intro v hv'
            have h1 : q - W.length = 0 ∨ q - W.length = 1 ∨ q - W.length = 2 := by omega
            rcases h1 with h1 | h1 | h1 <;> rw [h1] at hv' <;> simp [persistEffects] at hv'
            · exact Or.inl hv'
            · rcases hv' with hv' | hv'
              · exact Or.inl hv'
              · exact Or.inr (Or.inl ⟨_, hv'⟩)
          rw [directOps_append, applyOsOps_append, syncL_apply hsync]
          exact hphase true _ (CutW.full true W Dv)
    · intro hno
      exfalso
      rw [hG] at hno
      have : hasDS ([Effect.flush, Effect.ensureLen (lp.files.headD 0) g.fileBytes] ++
          (W ++ ((writeTouches g lp names).1.persistEffects .flushAndFsync ++ Un))) = true := by
        apply hasDS_of_mem
        simp [persistEffects]
      rw [this] at hno
      cases hno

/-! ### the relation between the two disks -/

theorem directOps_create {es : List Effect} {f : Nat} (h : OsOp.create f ∈ directOps es) : Effect.create f ∈ es := by
  induction es with
  | nil => cases h
  | cons e es ih =>
    rw [directOps_cons, List.mem_append] at h
    rcases h with h | h
    · cases e <;> simp [direct] at h
      rw [h]; exact List.mem_cons_self
    · exact List.mem_cons_of_mem _ (ih h)

theorem filter_mapFile (p : Nat → Bool) (img : Image) (f : Nat) (fn : Bytes → Bytes) :
    (mapFile img f fn).filter (fun kv => p kv.1) = mapFile (img.filter (fun kv => p kv.1)) f fn := by
  induction img with
  | nil => rfl
  | cons kv img ih =>
    simp only [mapFile, List.map_cons, List.filter_cons] at ih ⊢
    by_cases hk : kv.1 = f
    · simp only [hk, if_true]
      by_cases hp : p f = true
      · simp only [hp, if_true, List.map_cons, hk]; rw [ih]
      · simp only [hp, Bool.false_eq_true, if_false]; exact ih
    · simp only [hk, if_false]
      by_cases hp : p kv.1 = true
      · simp only [hp, if_true, List.map_cons, hk, if_false]; rw [ih]
      · simp only [hp, Bool.false_eq_true, if_false]; exact ih

theorem filter_applyOs (p : Nat → Bool) (img : Image) (op : OsOp) (hnc : ∀ f, op ≠ .create f) :
    (applyOs img op).filter (fun kv => p kv.1) = applyOs (img.filter (fun kv => p kv.1)) op := by
  cases op with
  | write f off d => simp only [applyOs]; exact filter_mapFile p img f _
  | setLen f n => simp only [applyOs]; exact filter_mapFile p img f _
  | ensureLen f n => simp only [applyOs]; exact filter_mapFile p img f _
  | sync => rfl
  | create f => exact absurd rfl (hnc f)
  | unlink f =>
    simp only [applyOs, List.filter_filter]
    congr 1
    funext kv
    exact Bool.and_comm _ _

theorem filter_applyOsOps (p : Nat → Bool) (ops : List OsOp) : ∀ (img : Image), (∀ f, OsOp.create f ∉ ops) →
    (applyOsOps img ops).filter (fun kv => p kv.1) = applyOsOps (img.filter (fun kv => p kv.1)) ops := by
  induction ops with
  | nil => intro img _; rfl
  | cons op ops ih =>
    intro img h
    show (applyOsOps (applyOs img op) ops).filter _ = applyOsOps (applyOs (img.filter _) op) ops
    rw [ih _ (fun f hf => h f (List.mem_cons_of_mem _ hf)),
      filter_applyOs p img op (fun f hf => h f (hf ▸ List.mem_cons_self))]

theorem unlinks_filter (fs : List Nat) : ∀ img : Image,
    applyOsOps img (fs.map OsOp.unlink) = img.filter (fun kv => !fs.contains kv.1) := by
  induction fs with
  | nil =>
    intro img
    show img = _
    symm
    rw [List.filter_eq_self]
    intro kv _; rfl
  | cons f fs ih =>
    intro img
    show applyOsOps (applyOs img (.unlink f)) (fs.map OsOp.unlink) = _
    rw [ih]
    simp only [applyOs, List.filter_filter]
    congr 1
    funext kv
    simp only [List.contains_cons]
    cases h1 : fs.contains kv.1 <;> cases h2 : (kv.1 == f) <;> simp [h1, h2, bne]

theorem hasDS_take {es : List Effect} (h : hasDS es = false) (i : Nat) : hasDS (es.take i) = false := by
  unfold hasDS at *
  rw [List.any_eq_false] at *
  exact fun x hx => h x (List.mem_of_mem_take hx)

/-- a `create` always follows an `fsync(dir)` -/
theorem cePat_noCreate {es : List Effect} (h : CEPat es) (hd : hasDS es = false) : ∀ f, Effect.create f ∉ es := by
  intro f hf
  obtain ⟨i, hi⟩ := List.getElem?_of_mem hf
  have := h i _ hi rfl true
  rw [pendAfter_true_noDS _ (hasDS_take hd i)] at this
  cases this

theorem ev_noCreate (g : Geom) (hB : g.B ≤ 65542) {l : Log} {J : List JE} {D : Image} (h : CInvX g l J D)
    (hw : ∀ j ∈ J, C07.WF j.e) (e : Ev) (hd : hasDS (evEffs g l D e) = false) :
    ∀ f, OsOp.create f ∉ directOps (evEffs g l D e) := by
  intro f hf
  have hf := directOps_create hf
  cases e with
  | call c tick order => exact cePat_noCreate (cePat_step g l c tick order) hd f hf
  | reopen policy order =>
    obtain ⟨J', lp, io, r, _, _, _, _, _, _, _, e2, _⟩ := reopen_eval g hB h hw policy order
    rw [e2] at hf hd
    have hsplit : Effect.flush :: ([Effect.ensureLen (lp.files.headD 0) g.fileBytes] ++ (runGc g lp order).2.1) =
        [Effect.flush, Effect.ensureLen (lp.files.headD 0) g.fileBytes] ++ (runGc g lp order).2.1 := rfl
    rw [hsplit] at hf hd
    rw [hasDS_append, Bool.or_eq_false_iff] at hd
    rcases List.mem_append.mp hf with hf | hf
    · simp at hf
    · exact cePat_noCreate (cePat_runGc g lp order) hd.2 f hf

/-- **inside the window, restarts allowed** -/
theorem vwinA (g : Geom) (hB : g.B ≤ 65542) (lo : List Nat) (evs : List Ev) :
    ∀ {l : Log} {D : Image} {J Jv : List JE} {Dv : Image},
    CInvX g l J D → (∀ j ∈ J, C07.WF j.e) →
    CInvA g (virt lo l) Jv Dv → (∀ j ∈ Jv, C07.WF j.e) → (∀ f ∈ lo, f ≤ l.cur) →
    D = Dv.filter (fun kv => !lo.contains kv.1) →
    (∀ j ∈ jourX g l D evs, C07.WF j.e) → TornEffs (effsX g l D evs) →
    ∀ n, hasDS ((effsX g l D evs).take n) = false → ∀ policy, ∃ (i : Nat) (lp : Log) (e0 : List Effect) (io : Nat),
      i ≤ evs.length ∧
      recoverPre g (applyOsOps Dv (directOps ((effsX g l D evs).take n))) policy none = .ok (lp, e0, io) ∧
      AbsEq lp.queues (logX g l D (evs.take i)).queues := by
  induction evs with
  | nil =>
    intro l D J Jv Dv _ _ hv hwv _ _ _ _ n _ policy
    obtain ⟨J', lp, io, a1, _, _, a6, _, _⟩ := cinva_open g hB hv hwv policy
    exact ⟨0, lp, _, io, Nat.le_refl _, by simpa [effsX, directOps, applyOsOps] using a1, a6⟩
  | cons e es ih =>
    intro l D J Jv Dv hc hw hv hwv hlo hrel hwf htorn n hn policy
    simp only [jourX, effsX] at hwf htorn hn ⊢
    have hwe := fun j hj => hwf j (List.mem_append_left _ hj)
    obtain ⟨⟨J1, hc1, hw1⟩, _, _, _⟩ := ev_facts g hB hc hw e hwe (torn_left htorn)
    have hab : (∀ p, hasDS ((evEffs g l D e).take p) = false →
          XRes g l.queues (evLog g l D e).queues (applyOsOps Dv (directOps ((evEffs g l D e).take p)))) ∧
        (hasDS (evEffs g l D e) = false →
          ∃ Jv', CInvA g (virt lo (evLog g l D e)) Jv' (applyOsOps Dv (directOps (evEffs g l D e))) ∧
            (∀ j ∈ Jv', C07.WF j.e) ∧ ∀ f ∈ lo, f ≤ (evLog g l D e).cur) := by
      cases e with
      | call c tick order => exact virt_callA g hB lo hv hwv hlo c tick order hwe (torn_left htorn)
      | reopen pol ord =>
        obtain ⟨a1, a2⟩ := virt_reopenA g hB lo hc hw hv hwv hrel pol ord hwe (torn_left htorn)
        refine ⟨fun p hp => ?_, a2⟩
        intro policy'
        obtain ⟨lp, e0, io, h1, h2⟩ := a1 p hp policy'
        exact ⟨lp, e0, io, h1, Or.inl (by rcases h2 with h2 | h2 <;> exact h2)⟩
    obtain ⟨ha, hb⟩ := hab
    by_cases hle : n ≤ (evEffs g l D e).length
    · rw [List.take_append_of_le_length hle] at hn ⊢
      obtain ⟨lp, e0, io, h1, h2⟩ := ha n hn policy
      rcases h2 with h2 | h2
      · exact ⟨0, lp, e0, io, Nat.zero_le _, h1, h2⟩
      · exact ⟨1, lp, e0, io, by simp, h1, by simpa [logX] using h2⟩
    · rw [List.take_append, List.take_of_length_le (by omega), hasDS_append, Bool.or_eq_false_iff] at hn
      obtain ⟨Jv', hv', hwv', hlo'⟩ := hb hn.1
      have hrel' : evDisk g l D e = (applyOsOps Dv (directOps (evEffs g l D e))).filter
          (fun kv => !lo.contains kv.1) := by
        unfold evDisk
        rw [filter_applyOsOps (fun k => !lo.contains k) _ Dv (ev_noCreate g hB hc hw e hn.1), ← hrel]
      obtain ⟨i, lp, e0, io, hi, h1, h2⟩ := ih hc1 hw1 hv' hwv' hlo' hrel'
        (fun j hj => hwf j (List.mem_append_right _ hj)) (torn_right htorn)
        (n - (evEffs g l D e).length) hn.2 policy
      refine ⟨i + 1, lp, e0, io, by simp; omega, ?_, by simpa [logX] using h2⟩
      rw [List.take_append, List.take_of_length_le (by omega), directOps_append, applyOsOps_append]
      exact h1

/-- **the whole history** -/
theorem vrecA (g : Geom) (hB : g.B ≤ 65542) (u : Nat) (evs : List Ev) :
    ∀ {l : Log} {J : List JE} {D : Image},
    CInvX g l J D → (∀ j ∈ J, C07.WF j.e) → (∀ j ∈ jourX g l D evs, C07.WF j.e) → TornEffs (effsX g l D evs) →
    ∀ n policy, ∃ (i : Nat) (lp : Log) (e0 : List Effect) (io : Nat), i ≤ evs.length ∧
      recoverPre g (applyOsOps D (directOps (skipLate u ((effsX g l D evs).take n)))) policy none = .ok (lp, e0, io) ∧
      AbsEq lp.queues (logX g l D (evs.take i)).queues := by
  induction evs with
  | nil =>
    intro l J D h hw _ _ n policy
    obtain ⟨J', lp, io, F', a1, _, _, _, _, a6⟩ := xinvres_of_cinvx g hB h hw policy
    exact ⟨0, lp, _, io, Nat.le_refl _, by simpa [effsX, skipLate, directOps, applyOsOps] using a1, a6⟩
  | cons e es ih =>
    intro l J D h hw hwf htorn n policy
    simp only [jourX, effsX] at hwf htorn ⊢
    have hwe := fun j hj => hwf j (List.mem_append_left _ hj)
    obtain ⟨⟨J1, hc1, hw1⟩, _, _, hcut⟩ := ev_facts g hB h hw e hwe (torn_left htorn)
    obtain ⟨A, U, S, hL, hA, hS, hAU, hgc⟩ := ev_struct g hB h hw e hwe
    have hwfR := fun j hj => hwf j (List.mem_append_right _ hj)
    have htornR := torn_right htorn
    by_cases hle : n ≤ (evEffs g l D e).length
    · -- inside the event: a cut state of the real effects
      rw [List.take_append_of_le_length hle]
      obtain ⟨q, _, hq⟩ := skipLate_event u D A U S hA hS n
      rw [← hL] at hq
      rw [hq]
      obtain ⟨lp, e0, io, h1, h2⟩ := xres_pick (hcut false _ (CutW.of_take false _ q D)) policy
      rcases h2 with h2 | h2
      · exact ⟨0, lp, e0, io, Nat.zero_le _, h1, h2⟩
      · exact ⟨1, lp, e0, io, by simp, h1, by simpa [logX] using h2⟩
    · rw [List.take_append, List.take_of_length_le (by omega)]
      generalize hn' : n - (evEffs g l D e).length = n'
      generalize hR : effsX g (evLog g l D e) (evDisk g l D e) es = R at *
      have hstep : ∀ (X : Image), X = applyOsOps (evDisk g l D e) (directOps (skipLate u (R.take n'))) →
          ∃ (i : Nat) (lp : Log) (e0 : List Effect) (io : Nat), i ≤ (e :: es).length ∧
            recoverPre g X policy none = .ok (lp, e0, io) ∧ AbsEq lp.queues (logX g l D ((e :: es).take i)).queues := by
        intro X hX
        obtain ⟨i, lp, e0, io, hi, h1, h2⟩ := ih hc1 hw1 hwfR
          (by rw [hR]; exact htornR) n' policy
        rw [hR] at h1
        exact ⟨i + 1, lp, e0, io, by simp; omega, by rw [hX]; exact h1, by simpa [logX] using h2⟩
      cases hds : hasDS (R.take n') with
      | true =>
        apply hstep
        rw [skipLate_append_ds u _ hds, directOps_append, applyOsOps_append]
        rfl
      | false =>
        have hnu : NoUnl (R.take n') := by
          rw [← hR]
          exact noDS_noUnl g hB es hc1 hw1 hwfR (by rw [hR]; exact htornR) n' (by rw [hR]; exact hds)
        rw [skipLate_append_quiet u _ hds hnu, directOps_append, applyOsOps_append]
        -- the first event with its late unlinks undone
        cases hdsS : hasDS S with
        | true =>
          apply hstep
          have : skipLate u (evEffs g l D e) = evEffs g l D e := by
            rw [hL, skipLate_append_ds u S hdsS, skipLate_noUnl u S (noUnl_sync hS)]
          rw [this, skipLate_noUnl u _ hnu]
          rfl
        | false =>
          have hsk : skipLate u (evEffs g l D e) = A ++ (U.take u).map Effect.unlink ++ S := by
            rw [hL, skipLate_append_quiet u S hdsS (noUnl_sync hS), skipLate_noUnl_unlinks u U A hA]
          have hdisk : applyOsOps D (directOps (skipLate u (evEffs g l D e))) =
              applyOsOps (applyOsOps D (directOps A)) ((U.take u).map OsOp.unlink) := by
            rw [hsk, directOps_append, directOps_append, applyOsOps_append, applyOsOps_append, syncL_apply hS,
              directOps_unl]
          rw [hdisk]
          by_cases hu : U.length ≤ u
          · -- all the unlinks of this event are durable: the real disk
            apply hstep
            rw [skipLate_noUnl u _ hnu]
            congr 1
            unfold evDisk
            rw [hL, directOps_append, directOps_append, applyOsOps_append, applyOsOps_append, syncL_apply hS,
              directOps_unl, List.take_of_length_le hu]
          · -- the window: the files `U.drop u` are still there
            have hku : u ≤ U.length := by omega
            obtain ⟨Jv, hcv, hwv⟩ := hgc u hku
            have hlo : ∀ f ∈ U.drop u, f ≤ (evLog g l D e).cur := by
              intro f hf
              have hs := hcv.jinv.h.files.sorted
              have hcm' : (evLog g l D e).cur ∈ (evLog g l D e).files := by
                have := hc1.jinv.h.files.cur_mem; exact this
              have hs' : (U.drop u ++ (evLog g l D e).files).Pairwise (· < ·) := hs
              exact Nat.le_of_lt ((List.pairwise_append.mp hs').2.2 f hf _ hcm')
            have hrel : evDisk g l D e =
                (applyOsOps (applyOsOps D (directOps A)) ((U.take u).map OsOp.unlink)).filter
                  (fun kv => !(U.drop u).contains kv.1) := by
              unfold evDisk
              have hU : U.map OsOp.unlink = (U.take u).map OsOp.unlink ++ (U.drop u).map OsOp.unlink := by
                rw [← List.map_append, List.take_append_drop]
              rw [hL, directOps_append, directOps_append, applyOsOps_append, applyOsOps_append, syncL_apply hS,
                directOps_unl, ← unlinks_filter, hU, applyOsOps_append]
            obtain ⟨i, lp, e0, io, hi, h1, h2⟩ := vwinA g hB (U.drop u) es (l := evLog g l D e) (D := evDisk g l D e)
              hc1 hw1 (CInvA.of_cinvx hcv) hwv hlo hrel hwfR (by rw [hR]; exact htornR) n' (by rw [hR]; exact hds) policy
            rw [hR] at h1
            exact ⟨i + 1, lp, e0, io, by simp; omega, h1, by simpa [logX] using h2⟩


end MRL.PDA
