/-
Byte-level lemmas for the codec proofs (C07): little-endian integers, zero runs.
-/
import MRL.Model.Frame

namespace MRL.Codec
open MRL Consts

theorem length_leBytes (n k : Nat) : (leBytes n k).length = k := by
  induction k generalizing n with
  | zero => rfl
  | succ k ih => simp [leBytes, ih]

theorem toNat_mod256 (n : Nat) : (n % 256).toUInt8.toNat = n % 256 := by simp

theorem leNat_leBytes (k n : Nat) (h : n < 256 ^ k) : leNat (leBytes n k) = n := by
  induction k generalizing n with
  | zero => simp at h; subst h; rfl
  | succ k ih =>
    have h2 : n / 256 < 256 ^ k := by
      rw [Nat.div_lt_iff_lt_mul (by decide)]; rw [Nat.pow_succ] at h; exact h
    simp only [leBytes, leNat, toNat_mod256, ih _ h2]
    omega

theorem leNat_leBytes2 (n : Nat) (h : n < 65536) : leNat (leBytes n 2) = n :=
  leNat_leBytes 2 n (by simpa using h)

theorem leNat_leBytes4 (n : Nat) (h : n < 2 ^ 32) : leNat (leBytes n 4) = n :=
  leNat_leBytes 4 n (by simpa using h)

theorem leNat_leBytes8 (n : Nat) (h : n < 2 ^ 64) : leNat (leBytes n 8) = n :=
  leNat_leBytes 8 n (by simpa using h)

@[simp] theorem length_zeros (n : Nat) : (zeros n).length = n := by simp [zeros]

theorem zeros_add (a b : Nat) : zeros (a + b) = zeros a ++ zeros b := by
  simp [zeros, List.replicate_append_replicate]

theorem take_zeros (m n : Nat) : (zeros n).take m = zeros (min m n) := by
  simp [zeros, List.take_replicate]

theorem drop_zeros (m n : Nat) : (zeros n).drop m = zeros (n - m) := by
  simp [zeros, List.drop_replicate]

theorem isAllZero_zeros (n : Nat) : isAllZero (zeros n) = true := by
  simp [isAllZero, zeros]

theorem isAllZero_append (a b : Bytes) : isAllZero (a ++ b) = (isAllZero a && isAllZero b) := by
  simp [isAllZero]

theorem totalLen_eq (bufs : List Bytes) : totalLen bufs = bufs.flatten.length := by
  simp [totalLen, List.length_flatten]

theorem totalLen_append (a b : List Bytes) : totalLen (a ++ b) = totalLen a + totalLen b := by
  simp [totalLen]

@[simp] theorem totalLen_nil : totalLen [] = 0 := rfl

@[simp] theorem totalLen_cons (a : Bytes) (b : List Bytes) : totalLen (a :: b) = a.length + totalLen b := by
  simp [totalLen]

end MRL.Codec
