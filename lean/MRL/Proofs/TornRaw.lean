/-
Raw frames (C02, C09): a frame whose checksum bytes and payload are arbitrary (length field and
type byte as the writer sets them). The reader resynchronises after such a frame whatever its
checksum: it emits the frame when the checksum matches, a corrupt event otherwise. The reader
over a stream made of a layout of raw frames is compositional: it emits one event per frame and
goes on at the cursor where the layout ends. A torn header (fewer than 7 bytes of a header,
not all zero, followed by zeros) makes the reader give up the block.
-/
import MRL.Proofs.CodecRead

namespace MRL.Torn
open MRL Consts Codec

/-- checksum bytes, type, payload -/
abbrev Raw := Bytes × FrameType × Bytes

def Raw.bytes (x : Raw) : Bytes := x.1 ++ leBytes x.2.2.length 2 ++ [x.2.1.code.toUInt8] ++ x.2.2

/-- what the reader makes of a raw frame -/
def Raw.ev (x : Raw) : FrameEv :=
  if frameCrc x.2.1 x.2.2 = leNat x.1 then FrameEv.frame x.2.1 x.2.2 else FrameEv.corrupt

/-- the frame as the writer writes it -/
def good (fr : Frm) : Raw := (leBytes (frameCrc fr.1 fr.2) 4, fr.1, fr.2)

theorem good_bytes (fr : Frm) : (good fr).bytes = encodeFrame fr.1 fr.2 := by
  simp [good, Raw.bytes, encodeFrame, encodeHeader]

theorem good_ev (fr : Frm) : (good fr).ev = FrameEv.frame fr.1 fr.2 := by
  simp [good, Raw.ev, leNat_leBytes4 _ (frameCrc_lt fr.1 fr.2)]

theorem length_raw_bytes (x : Raw) (h : x.1.length = 4) : x.bytes.length = 7 + x.2.2.length := by
  simp [Raw.bytes, length_leBytes, h]; omega

def rawWrites (g : Geom) (c : Nat) (x : Raw) : List Bytes :=
  if g.B - c < HEADER_LEN then [zeros (g.B - c), x.bytes] else [x.bytes]

/-- buffers of a list of raw frames laid out from cursor `c` with the writer's padding rule -/
def rawLayout (g : Geom) : Nat → List Raw → List Bytes
  | _, [] => []
  | c, x :: xs => rawWrites g c x ++ rawLayout g (frameEndCursor g c x.2.2.length) xs

def FitsRaw (g : Geom) : Nat → List Raw → Prop
  | _, [] => True
  | c, x :: xs => x.1.length = 4 ∧ x.2.2.length ≤ maxFrameLen g c ∧ FitsRaw g (frameEndCursor g c x.2.2.length) xs

def endCursorRaw (g : Geom) : Nat → List Raw → Nat
  | c, [] => c
  | c, x :: xs => endCursorRaw g (frameEndCursor g c x.2.2.length) xs

theorem rawLayout_good (g : Geom) (c : Nat) (fs : List Frm) :
    rawLayout g c (fs.map good) = layoutBufs g c fs := by
  induction fs generalizing c with
  | nil => rfl
  | cons fr fs ih =>
    simp only [List.map_cons, rawLayout, layoutBufs, rawWrites, frameWrites, good_bytes]
    rw [ih]; rfl

theorem FitsRaw_good (g : Geom) (c : Nat) (fs : List Frm) (h : Fits g c fs) : FitsRaw g c (fs.map good) := by
  induction fs generalizing c with
  | nil => trivial
  | cons fr fs ih =>
    exact ⟨by simp [good, length_leBytes], h.1, ih _ h.2⟩

theorem endCursorRaw_good (g : Geom) (c : Nat) (fs : List Frm) :
    endCursorRaw g c (fs.map good) = endCursor g c fs := by
  induction fs generalizing c with
  | nil => rfl
  | cons fr fs ih => simp only [List.map_cons, endCursorRaw, endCursor]; exact ih _

theorem rawLayout_append (g : Geom) (c : Nat) (a b : List Raw) :
    rawLayout g c (a ++ b) = rawLayout g c a ++ rawLayout g (endCursorRaw g c a) b := by
  induction a generalizing c with
  | nil => simp [rawLayout, endCursorRaw]
  | cons x xs ih => simp [rawLayout, endCursorRaw, ih]

theorem FitsRaw_append (g : Geom) (c : Nat) (a b : List Raw) :
    FitsRaw g c (a ++ b) ↔ FitsRaw g c a ∧ FitsRaw g (endCursorRaw g c a) b := by
  induction a generalizing c with
  | nil => simp [FitsRaw, endCursorRaw]
  | cons x xs ih => simp [FitsRaw, endCursorRaw, ih, and_assoc]

theorem endCursorRaw_lt (g : Geom) (c : Nat) (xs : List Raw) (hc : c < g.B) (hf : FitsRaw g c xs) :
    endCursorRaw g c xs < g.B := by
  induction xs generalizing c with
  | nil => exact hc
  | cons x xs ih => exact ih _ (frameEndCursor_lt g c _ hc hf.2.1) hf.2.2

theorem rawLayout_bad (g : Geom) (c : Nat) (x : Raw) (xs : List Raw) (h : g.B - c < 7) :
    rawLayout g c (x :: xs) = zeros (g.B - c) :: rawLayout g 0 (x :: xs) := by
  have hB := g.hB
  simp only [HEADER_LEN] at hB
  have h0 : ¬ (g.B - 0 < 7) := by omega
  simp only [rawLayout, rawWrites, frameEndCursor, HEADER_LEN, h, h0, if_true, if_false,
    List.cons_append, List.nil_append]

/-! ### the reader on one raw frame, on a torn header -/

theorem scanBlockFrom_raw (g : Geom) (x : Raw) (r : Bytes) (c : Nat) (h4 : x.1.length = 4)
    (hfit : c + 7 + x.2.2.length ≤ g.B) (hp : x.2.2.length < 65536) :
    scanBlockFrom g (x.bytes ++ r) c =
      (x.ev :: (scanBlockFrom g r (c + 7 + x.2.2.length)).1,
        (scanBlockFrom g r (c + 7 + x.2.2.length)).2) := by
  obtain ⟨crc, t, p⟩ := x
  simp only at h4 hfit hp ⊢
  rw [scanBlockFrom]
  have h1 : ¬ (g.B - c < HEADER_LEN) := by simp only [HEADER_LEN]; omega
  have h2l := length_leBytes p.length 2
  have hhl : (crc ++ leBytes p.length 2 ++ [t.code.toUInt8]).length = 7 := by simp [h4, h2l]
  have hhdr : (Raw.bytes (crc, t, p) ++ r).take HEADER_LEN = crc ++ leBytes p.length 2 ++ [t.code.toUInt8] := by
    unfold Raw.bytes
    simp only
    rw [List.append_assoc, List.take_left' hhl]
  have hbody : (Raw.bytes (crc, t, p) ++ r).drop HEADER_LEN = p ++ r := by
    unfold Raw.bytes
    simp only
    rw [List.append_assoc, List.drop_left' hhl]
  have hz : isAllZero (crc ++ leBytes p.length 2 ++ [t.code.toUInt8]) = false := by
    simp [isAllZero, code_ne_zero]
  have h6 : (crc ++ leBytes p.length 2 ++ [t.code.toUInt8]).getD 6 0 = t.code.toUInt8 := by
    have h : (crc ++ leBytes p.length 2).length = 6 := by simp [h4, h2l]
    rw [List.getD_eq_getElem?_getD, List.getElem?_append_right (by omega), h]
    rfl
  have hlen : ((crc ++ leBytes p.length 2 ++ [t.code.toUInt8]).drop 4).take 2 = leBytes p.length 2 := by
    rw [List.append_assoc, List.drop_left' h4, List.take_left' h2l]
  have hcrc : (crc ++ leBytes p.length 2 ++ [t.code.toUInt8]).take 4 = crc := by
    rw [List.append_assoc, List.take_left' h4]
  simp only [h1, dite_false, hhdr, hbody, hz, h6, ofCode_code, hlen, hcrc, leNat_leBytes2 _ hp,
    List.take_left' rfl, List.drop_left' rfl]
  have h2 : ¬ (c + HEADER_LEN + p.length > g.B) := by simp only [HEADER_LEN]; omega
  simp [h2, HEADER_LEN, Raw.ev]

/-- zeros at the cursor (any number of them): end of log -/
theorem scanBlockFrom_zeros' (g : Geom) (m : Nat) (c : Nat) (h : 7 ≤ g.B - c) :
    scanBlockFrom g (zeros m) c = ([], .zeroHeader c) := by
  rw [scanBlockFrom]
  have h1 : ¬ (g.B - c < HEADER_LEN) := by simp only [HEADER_LEN]; omega
  simp [h1, take_zeros, isAllZero_zeros]

/-- a torn header: at most 6 bytes, not all zero, then zeros -/
theorem scanBlockFrom_torn (g : Geom) (hd : Bytes) (m : Nat) (r : Bytes) (c : Nat) (h : 7 ≤ g.B - c)
    (hl : hd.length ≤ 6) (hm : 7 ≤ hd.length + m) (hnz : isAllZero hd = false) :
    scanBlockFrom g (hd ++ zeros m ++ r) c = ([.corrupt], .needNext c) := by
  rw [scanBlockFrom]
  have h1 : ¬ (g.B - c < HEADER_LEN) := by simp only [HEADER_LEN]; omega
  have htake : (hd ++ zeros m ++ r).take HEADER_LEN = hd ++ zeros (7 - hd.length) := by
    rw [List.take_append_of_le_length (by simp [HEADER_LEN]; omega), List.take_append,
      List.take_of_length_le (by simp [HEADER_LEN]; omega), take_zeros]
    simp only [HEADER_LEN]; congr 2; omega
  have hz : isAllZero (hd ++ zeros (7 - hd.length)) = false := by
    rw [isAllZero_append, hnz]; rfl
  have h6 : (hd ++ zeros (7 - hd.length)).getD 6 0 = 0 := by
    rw [List.getD_eq_getElem?_getD, List.getElem?_append_right (by omega)]
    simp only [zeros, List.getElem?_replicate]
    split <;> rfl
  simp only [h1, dite_false, htake, hz, h6]
  rfl

theorem scanB_raw (g : Geom) (cur : Blk) (c : Nat) (rest : List Blk) (x : Raw) (r : Bytes)
    (hd : cur.data.drop c = x.bytes ++ r) (h4 : x.1.length = 4)
    (hfit : c + 7 + x.2.2.length ≤ g.B) (hp : x.2.2.length < 65536) :
    scanB g cur c rest =
      (tagEvs cur.file [x.ev] ++ (scanB g cur (c + 7 + x.2.2.length) rest).1,
        (scanB g cur (c + 7 + x.2.2.length) rest).2) := by
  have hr : cur.data.drop (c + 7 + x.2.2.length) = r := by
    have : c + 7 + x.2.2.length = c + (7 + x.2.2.length) := by omega
    rw [this, ← List.drop_drop, hd, List.drop_left' (length_raw_bytes x h4)]
  have h1 : scanBlock g cur.data c =
      (x.ev :: (scanBlock g cur.data (c + 7 + x.2.2.length)).1,
        (scanBlock g cur.data (c + 7 + x.2.2.length)).2) := by
    unfold scanBlock
    rw [hd, hr]
    exact scanBlockFrom_raw g x r c h4 hfit hp
  have ht : ∀ evs, tagEvs cur.file (x.ev :: evs) = tagEvs cur.file [x.ev] ++ tagEvs cur.file evs := by
    intro evs; cases x.ev <;> simp [tagEvs]
  cases rest with
  | nil =>
    unfold scanB
    rw [h1]
    rcases scanBlock g cur.data (c + 7 + x.2.2.length) with ⟨evs, e⟩
    cases e <;> simp only [ht evs]
  | cons b rest =>
    unfold scanB
    rw [h1]
    rcases scanBlock g cur.data (c + 7 + x.2.2.length) with ⟨evs, e⟩
    cases e <;> simp only [ht evs, List.append_assoc]

theorem scanB_torn (g : Geom) (cur b : Blk) (c : Nat) (rest : List Blk) (hd : Bytes) (m : Nat) (r : Bytes)
    (hdata : cur.data.drop c = hd ++ zeros m ++ r) (h : 7 ≤ g.B - c)
    (hl : hd.length ≤ 6) (hm : 7 ≤ hd.length + m) (hnz : isAllZero hd = false) :
    scanB g cur c (b :: rest) = (RdEv.corrupt cur.file :: (scanB g b 0 rest).1, (scanB g b 0 rest).2) := by
  have hs : scanBlock g cur.data c = ([.corrupt], .needNext c) := by
    unfold scanBlock; rw [hdata]; exact scanBlockFrom_torn g hd m r c h hl hm hnz
  conv => lhs; unfold scanB
  rw [hs]
  rfl

theorem scanB_zeros' (g : Geom) (cur : Blk) (c : Nat) (rest : List Blk) (m : Nat)
    (hd : cur.data.drop c = zeros m) (h : 7 ≤ g.B - c) :
    scanB g cur c rest = ([], ⟨cur.file, cur.idx, c⟩) := by
  unfold scanB
  simp [scanBlock, hd, scanBlockFrom_zeros' g m c h, tagEvs]

/-! ### the reader over a layout of raw frames, compositionally -/

/-- the reader at `(k, c)` of `T0` emits `evs`, then goes on at `(k + j, c')` where the `total`
    bytes after the cursor end, with `R` ahead -/
def Cont (g : Geom) (f : Nat) (T0 : Bytes) (k n c : Nat) (evs : List RdEv) (total : Nat) (R : Bytes) : Prop :=
  ∃ j n' c', n = j + n' ∧ c' < g.B ∧ k * g.B + c + total = (k + j) * g.B + c' ∧
    (T0.drop (j * g.B)).drop c' = R ∧ (T0.drop (j * g.B)).length = (n' + 1) * g.B ∧
    readFrom g f T0 k n c =
      (evs ++ (readFrom g f (T0.drop (j * g.B)) (k + j) n' c').1,
        (readFrom g f (T0.drop (j * g.B)) (k + j) n' c').2)

theorem tagEvs_append (f : Nat) (a b : List FrameEv) : tagEvs f (a ++ b) = tagEvs f a ++ tagEvs f b := by
  induction a with
  | nil => rfl
  | cons x a ih => cases x <;> simp [tagEvs, ih]

/-- shifting a continuation found one block further back to the current block -/
theorem Cont.shift {g : Geom} {f : Nat} {T0 : Bytes} {k n c : Nat} {pre evs : List RdEv}
    {tot1 total : Nat} {R : Bytes}
    (h : Cont g f (T0.drop g.B) (k + 1) n 0 evs total R)
    (hr : readFrom g f T0 k (n + 1) c =
      (pre ++ (readFrom g f (T0.drop g.B) (k + 1) n 0).1, (readFrom g f (T0.drop g.B) (k + 1) n 0).2))
    (ht : c + tot1 = g.B) :
    Cont g f T0 k (n + 1) c (pre ++ evs) (tot1 + total) R := by
  obtain ⟨j, n', c', h1, h2, h3, h4, h5, h6⟩ := h
  have hdd : (T0.drop g.B).drop (j * g.B) = T0.drop ((j + 1) * g.B) := by
    rw [List.drop_drop, Nat.add_mul, Nat.one_mul, Nat.add_comm]
  rw [hdd] at h4 h5 h6
  refine ⟨j + 1, n', c', by omega, h2, ?_, h4, h5, ?_⟩
  · rw [Nat.add_mul, Nat.one_mul] at h3
    have : k + (j + 1) = k + 1 + j := by omega
    rw [this, Nat.add_mul (k + 1) j, Nat.add_mul k 1, Nat.one_mul]
    rw [Nat.add_mul (k + 1) j, Nat.add_mul k 1, Nat.one_mul] at h3
    omega
  · have : k + (j + 1) = k + 1 + j := by omega
    rw [this, hr, h6, List.append_assoc]

theorem readFrom_raw (g : Geom) (hB : g.B ≤ 65542) (f : Nat) (xs : List Raw) :
    ∀ (T0 : Bytes) (k n c : Nat) (R : Bytes), c < g.B → FitsRaw g c xs → T0.length = (n + 1) * g.B →
      T0.drop c = (rawLayout g c xs).flatten ++ R → 0 < R.length →
      Cont g f T0 k n c (tagEvs f (xs.map Raw.ev)) (totalLen (rawLayout g c xs)) R := by
  have hB7 := g.hB
  simp only [HEADER_LEN] at hB7
  induction xs with
  | nil =>
    intro T0 k n c R hc _ hlen hT _
    refine ⟨0, n, c, by omega, hc, by simp [rawLayout], ?_, ?_, ?_⟩
    · simpa [rawLayout] using hT
    · simpa using hlen
    · simp [tagEvs]
  | cons x xs ih =>
    -- the frame at a good cursor
    have goodc : ∀ (T0 : Bytes) (k n c : Nat) (R : Bytes), c < g.B → 7 ≤ g.B - c → FitsRaw g c (x :: xs) →
        T0.length = (n + 1) * g.B → T0.drop c = (rawLayout g c (x :: xs)).flatten ++ R → 0 < R.length →
        Cont g f T0 k n c (tagEvs f ((x :: xs).map Raw.ev)) (totalLen (rawLayout g c (x :: xs))) R := by
      intro T0 k n c R hc h7 hf hlen hT hR
      obtain ⟨h4, hf1, hf2⟩ := hf
      have hf1' : x.2.2.length ≤ g.B - c - 7 := by simpa [maxFrameLen, HEADER_LEN, h7] using hf1
      have hfw : rawWrites g c x = [x.bytes] := by simp [rawWrites, HEADER_LEN]; omega
      have hfe : frameEndCursor g c x.2.2.length = adv g c (7 + x.2.2.length) := by
        simp [frameEndCursor, HEADER_LEN]; omega
      rw [hfe] at hf2
      have hxl := length_raw_bytes x h4
      simp only [rawLayout, hfw, hfe, List.cons_append, List.nil_append, List.flatten_cons,
        totalLen_cons, hxl, List.append_assoc, List.map_cons] at hT ⊢
      have hev : tagEvs f (x.ev :: xs.map Raw.ev) = tagEvs f [x.ev] ++ tagEvs f (xs.map Raw.ev) :=
        tagEvs_append f [x.ev] _
      rw [hev]
      have hstep : readFrom g f T0 k n c =
          (tagEvs f [x.ev] ++ (readFrom g f T0 k n (c + 7 + x.2.2.length)).1,
            (readFrom g f T0 k n (c + 7 + x.2.2.length)).2) := by
        unfold readFrom
        have hd : (T0.take g.B).drop c = x.bytes ++
            (((rawLayout g (adv g c (7 + x.2.2.length)) xs).flatten ++ R).take (g.B - c - (7 + x.2.2.length))) := by
          rw [take_drop_comm, hT, List.take_append, List.take_of_length_le (by rw [hxl]; omega), hxl]
        exact scanB_raw g ⟨f, k, T0.take g.B, _⟩ c _ x _ hd h4 (by omega) (by omega)
      have hTd : T0.drop (c + 7 + x.2.2.length) = (rawLayout g (adv g c (7 + x.2.2.length)) xs).flatten ++ R := by
        have : c + 7 + x.2.2.length = c + (7 + x.2.2.length) := by omega
        rw [this, ← List.drop_drop, hT, List.drop_left' hxl]
      by_cases hend : c + (7 + x.2.2.length) = g.B
      · have hadv : adv g c (7 + x.2.2.length) = 0 := by simp [adv, hend]
        rw [hadv] at hTd hf2 ⊢
        have hl : T0.length - g.B = ((rawLayout g 0 xs).flatten ++ R).length := by
          have := congrArg List.length hTd
          rw [List.length_drop] at this
          rw [← this]; congr 1; omega
        cases n with
        | zero => simp at hlen hl; omega
        | succ n =>
          have hlen2 : (T0.drop g.B).length = (n + 1) * g.B := by
            rw [List.length_drop, hlen, Nat.add_mul (n + 1) 1, Nat.one_mul]; omega
          have hT2 : (T0.drop g.B).drop 0 = (rawLayout g 0 xs).flatten ++ R := by
            rw [List.drop_zero, ← hTd]; congr 1; omega
          have hc0 := ih (T0.drop g.B) (k + 1) n 0 R (by omega) hf2 hlen2 hT2 hR
          refine Cont.shift hc0 ?_ hend
          rw [hstep, readFrom_skip g f T0 k n (c + 7 + x.2.2.length) (by omega)]
      · have hadv : adv g c (7 + x.2.2.length) = c + 7 + x.2.2.length := by simp [adv, hend]; omega
        rw [hadv] at hTd hf2 ⊢
        obtain ⟨j, n', c', h1, h2, h3, h4', h5, h6⟩ :=
          ih T0 k n (c + 7 + x.2.2.length) R (by omega) hf2 hlen hTd hR
        refine ⟨j, n', c', h1, h2, by omega, h4', h5, ?_⟩
        rw [hstep, h6, List.append_assoc]
    intro T0 k n c R hc hf hlen hT hR
    by_cases h7 : 7 ≤ g.B - c
    · exact goodc T0 k n c R hc h7 hf hlen hT hR
    · have hbad : g.B - c < 7 := by omega
      rw [rawLayout_bad g c _ _ hbad] at hT ⊢
      simp only [List.flatten_cons, List.append_assoc, totalLen_cons, length_zeros] at hT ⊢
      have hl : T0.length - c = (zeros (g.B - c) ++ ((rawLayout g 0 (x :: xs)).flatten ++ R)).length := by
        have := congrArg List.length hT
        simpa using this
      have hf0 : FitsRaw g 0 (x :: xs) := by
        obtain ⟨h4, h1, h2⟩ := hf
        have hm : maxFrameLen g c = maxFrameLen g 0 := by
          unfold maxFrameLen; simp only [HEADER_LEN, Nat.sub_zero]
          rw [if_neg (by omega), if_pos (by omega)]
        have hfe : frameEndCursor g c x.2.2.length = frameEndCursor g 0 x.2.2.length := by
          unfold frameEndCursor; simp only [HEADER_LEN, Nat.sub_zero]
          rw [if_pos hbad, if_neg (by omega)]
        rw [hm] at h1; rw [hfe] at h2
        exact ⟨h4, h1, h2⟩
      cases n with
      | zero => simp at hlen hl; omega
      | succ n =>
        have hlen2 : (T0.drop g.B).length = (n + 1) * g.B := by
          rw [List.length_drop, hlen, Nat.add_mul (n + 1) 1, Nat.one_mul]; omega
        have hT2 : (T0.drop g.B).drop 0 = (rawLayout g 0 (x :: xs)).flatten ++ R := by
          have : g.B = c + (g.B - c) := by omega
          rw [List.drop_zero]
          conv => lhs; rw [this, ← List.drop_drop, hT, List.drop_left' (length_zeros _)]
        have hc0 := goodc (T0.drop g.B) (k + 1) n 0 R (by omega) (by omega) hf0 hlen2 hT2 hR
        have := Cont.shift (pre := []) hc0 (by rw [readFrom_skip g f T0 k n c hbad]; simp) (show c + (g.B - c) = g.B by omega)
        simpa using this

/-! ### ends -/

/-- only zeros ahead: the reader stops, at the cursor or at the start of the next block -/
theorem readFrom_zeros (g : Geom) (f : Nat) (T0 : Bytes) (k n c m : Nat) (hc : c < g.B)
    (hlen : T0.length = (n + 1) * g.B) (hT : T0.drop c = zeros m) (hm : 7 ≤ m) :
    readFrom g f T0 k n c = ([], if 7 ≤ g.B - c then ⟨f, k, c⟩ else ⟨f, k + 1, 0⟩) := by
  have hB7 := g.hB
  simp only [HEADER_LEN] at hB7
  by_cases h7 : 7 ≤ g.B - c
  · rw [if_pos h7]
    unfold readFrom
    have hd : (T0.take g.B).drop c = zeros (min (g.B - c) m) := by
      rw [take_drop_comm, hT, take_zeros]
    exact scanB_zeros' g _ c _ _ hd h7
  · rw [if_neg h7]
    have hl : T0.length - c = m := by
      have := congrArg List.length hT
      simpa using this
    cases n with
    | zero => simp at hlen; omega
    | succ n =>
      rw [readFrom_skip g f T0 k n c (by omega)]
      unfold readFrom
      have hd : ((T0.drop g.B).take g.B).drop 0 = zeros (min g.B (m - (g.B - c))) := by
        have : g.B = c + (g.B - c) := by omega
        rw [List.drop_zero]
        conv => lhs; rw [this, ← List.drop_drop, hT, drop_zeros, take_zeros]
        congr 2; omega
      exact scanB_zeros' g _ 0 _ _ hd (by omega)

/-- the end position of `readFrom_zeros` as an absolute offset -/
theorem endpos_zeros (g : Geom) (f k c : Nat) (hc : c < g.B) :
    (if 7 ≤ g.B - c then (⟨f, k, c⟩ : EndPos) else ⟨f, k + 1, 0⟩).idx * g.B +
      (if 7 ≤ g.B - c then (⟨f, k, c⟩ : EndPos) else ⟨f, k + 1, 0⟩).cursor = finalPos g (k * g.B + c) ∧
    (if 7 ≤ g.B - c then (⟨f, k, c⟩ : EndPos) else ⟨f, k + 1, 0⟩).file = f := by
  by_cases h7 : 7 ≤ g.B - c
  · rw [if_pos h7, finalPos_good g k c hc h7]; exact ⟨rfl, rfl⟩
  · rw [if_neg h7, finalPos_bad g k c hc (by omega)]; exact ⟨by simp, rfl⟩

/-- a torn header at a good cursor, zeros up to the end of the block: a corrupt event, and the
    reader goes on at the start of the next block -/
theorem readFrom_torn (g : Geom) (f : Nat) (T0 : Bytes) (k n c : Nat) (hd : Bytes) (m : Nat) (r : Bytes)
    (h7 : 7 ≤ g.B - c) (hT : T0.drop c = hd ++ zeros m ++ r) (hl : hd.length ≤ 6)
    (hm : g.B - c ≤ hd.length + m) (hnz : isAllZero hd = false) :
    readFrom g f T0 k (n + 1) c =
      (RdEv.corrupt f :: (readFrom g f (T0.drop g.B) (k + 1) n 0).1,
        (readFrom g f (T0.drop g.B) (k + 1) n 0).2) := by
  unfold readFrom
  rw [fileBlocks_succ]
  have hdata : (T0.take g.B).drop c = hd ++ zeros (g.B - c - hd.length) ++ [] := by
    rw [take_drop_comm, hT, List.append_assoc, List.take_append, List.take_of_length_le (by omega),
      List.take_append_of_le_length (by simp; omega), take_zeros, List.append_nil]
    congr 2; omega
  have := scanB_torn g ⟨f, k, T0.take g.B, if k = 0 then 1 else 1⟩
    ⟨f, k + 1, (T0.drop g.B).take g.B, if k + 1 = 0 then 1 else 1⟩ c
    (fileBlocks g f ((T0.drop g.B).drop g.B) 1 (k + 1 + 1) n) hd (g.B - c - hd.length) [] hdata h7 hl (by omega) hnz
  exact this

end MRL.Torn
