/-
A crash while the GC pass unlinks the files, from a relaxed state: a prefix of the deletable
files is gone; `open` succeeds, the recovered log satisfies the relaxed invariant again and its
queues are the in-memory ones up to the file handles.
-/
import MRL.Proofs.LPhase
import MRL.Proofs.HUnlink

namespace MRL.L
open MRL Codec Consts G H Torn Log Buf C05 C01J

theorem unlink_phase_crashX (g : Geom) (hB : g.B ≤ 65542) {l2 : Log} {J2 : List JE} {D2 : Image}
    (h : CInvX g l2 J2 D2) (order : List Bytes) (names : List Bytes)
    (hj : gcJ g l2 order = touchesJ g l2 names)
    (hr : (runGc g l2 order).1 = { (writeTouches g l2 names).1 with
      files := (gcFiles ((writeTouches g l2 names).1.canDelete l2.cur) (writeTouches g l2 names).1.files).1 })
    (hwf : ∀ j ∈ J2 ++ touchesJ g l2 names, C07.WF j.e)
    (k : Nat) (hk0 : 0 < k)
    (hk : k ≤ (gcFiles ((writeTouches g l2 names).1.canDelete l2.cur) (writeTouches g l2 names).1.files).2.length) :
    XInvRes g l2.queues l2.queues
      (applyOsOps (applyOsOps D2 (directOps (writeTouches g l2 names).2.1))
        (((gcFiles ((writeTouches g l2 names).1.canDelete l2.cur) (writeTouches g l2 names).1.files).2.take k).map
          OsOp.unlink)) := by
  intro policy
  obtain ⟨init, t, x, res, ais, lead, gs, hx⟩ := h.disk
  obtain ⟨i3, t3, x3, r3, ais3, gs3, y3, _⟩ := touches_extX g (l2.files.headD 0) lead names l2 D2 J2 init t x res ais gs hx
  have k1 := y3.tape
  rcases hg : gcFiles ((writeTouches g l2 names).1.canDelete l2.cur) (writeTouches g l2 names).1.files
    with ⟨rem, del⟩
  rw [hg] at hk hr
  simp only at hk hr ⊢
  obtain ⟨hsplit, hcan, hne⟩ := gcFiles_spec _ _ _ _ hg
  rw [k1.files] at hsplit
  obtain ⟨hdel, hrem⟩ := range'_split _ _ _ _ hsplit
  have hdl : del.length ≤ i3.length := by
    apply Classical.byContradiction
    intro hn
    have hmem : (writeTouches g l2 names).1.cur ∈ del := by
      rw [hdel, k1.cur, List.mem_range'_1]; omega
    have := hcan _ hmem
    simp [canDelete] at this
  have hlen : del.length + rem.length = i3.length + 1 + (if x3 then 1 else 0) := by
    have := congrArg List.length hsplit
    simp only [List.length_range', List.length_append] at this
    omega
  have hkinit : k ≤ i3.length := by omega
  have hdeltake : del.take k = List.range' (l2.files.headD 0) k := by
    rw [hdel, take_range' _ _ _ hk]
  rw [hdeltake]
  -- the journal
  have hJ' := jinv_gc g order h.jinv
  rw [hj] at hJ'
  -- the disk after `k` unlinks
  obtain ⟨afs', lead', gs', c1⟩ := gc_diskX g y3 k hkinit
  have hd := c1.diskX
  -- the new first file
  have hF'' : (runGc g l2 order).1.files.headD 0 = l2.files.headD 0 + del.length := by
    rw [hr]
    show rem.headD 0 = _
    rw [hrem]
    cases hrl : rem.length with
    | zero => omega
    | succ n => rw [List.range'_succ]; rfl
  obtain ⟨qb, hqb, hqe⟩ := rep_at g order h.jinv (l2.files.headD 0 + k) (by omega) (by rw [hF'']; omega)
  rw [hj] at hqb
  obtain ⟨J', lp, io, hrec, hc, hw, hab, hpol, hhead⟩ := open_diskX g hB hd hwf hJ'.chunk.wf hJ'.chunk.mono qb hqb policy
  exact ⟨J', lp, io, _, hrec, hhead, hc, hw, hpol, Or.inl (hab.symm.trans (AbsEq.of_qsEquiv hqe))⟩

end MRL.L
