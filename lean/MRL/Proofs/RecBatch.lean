/-
A batch through an arbitrary replay (C12): after the entry `append name p b` has been replayed,
whatever entries follow, the records of queue `name` are
  (records of earlier entries) ++ (a suffix of `b`) ++ (records of later entries),
and if the suffix is a proper one nothing is left before it.
-/
import MRL.Proofs.RecReplay

namespace MRL.Rec
open MRL Consts

/-! ### lookups after `set` / `remove` / `ackPosition` -/

theorem find_map_replace_same (n : Bytes) (q : MemQueue) : ∀ qs : MemQueues, qs.contains n = true →
    ((qs.map fun kv => if kv.1 == n then (n, q) else kv).find? (·.1 == n)).map (·.2) = some q := by
  intro qs
  induction qs with
  | nil => intro h; cases h
  | cons kv qs ih =>
    intro h
    simp only [List.map_cons, List.find?_cons]
    by_cases hk : (kv.1 == n) = true
    · simp [hk]
    · simp only [Bool.not_eq_true] at hk
      simp only [hk, Bool.false_eq_true, if_false]
      apply ih
      simpa [MemQueues.contains, hk] using h

theorem find_map_replace_other (n n' : Bytes) (q : MemQueue) (hne : n' ≠ n) : ∀ qs : MemQueues,
    (qs.map fun kv => if kv.1 == n then (n, q) else kv).find? (·.1 == n') = qs.find? (·.1 == n') := by
  intro qs
  induction qs with
  | nil => rfl
  | cons kv qs ih =>
    simp only [List.map_cons, List.find?_cons]
    by_cases hk : (kv.1 == n) = true
    · have h1 : kv.1 = n := by simpa using hk
      have h2 : (n == n') = false := by simp; exact fun h => hne h.symm
      have h3 : (kv.1 == n') = false := by rw [h1]; exact h2
      simp only [hk, if_true, h2, h3]
      exact ih
    · simp only [Bool.not_eq_true] at hk
      simp only [hk, Bool.false_eq_true, if_false]
      split
      · rfl
      · exact ih

theorem get_set_same (qs : MemQueues) (n : Bytes) (q : MemQueue) : (qs.set n q).get? n = some q := by
  unfold MemQueues.set MemQueues.get?
  split
  · rename_i h; exact find_map_replace_same n q qs h
  · rename_i h
    have : qs.find? (·.1 == n) = none := by
      rw [List.find?_eq_none]
      intro x hx hxn
      apply h
      simp only [MemQueues.contains, List.any_eq_true]
      exact ⟨x, hx, hxn⟩
    simp [List.find?_append, this]

theorem get_set_other (qs : MemQueues) (n n' : Bytes) (q : MemQueue) (hne : n' ≠ n) :
    (qs.set n q).get? n' = qs.get? n' := by
  unfold MemQueues.set MemQueues.get?
  split
  · rw [find_map_replace_other n n' q hne]
  · have h2 : (n == n') = false := by simp; exact fun h => hne h.symm
    simp [List.find?_append, h2]

theorem get_remove_same (qs : MemQueues) (n : Bytes) : (qs.remove n).get? n = none := by
  unfold MemQueues.remove MemQueues.get?
  rw [Option.map_eq_none_iff, List.find?_eq_none]
  intro x hx
  have := (List.mem_filter.mp hx).2
  simpa using this

theorem get_remove_other (qs : MemQueues) (n n' : Bytes) (hne : n' ≠ n) :
    (qs.remove n).get? n' = qs.get? n' := by
  unfold MemQueues.remove MemQueues.get?
  congr 1
  induction qs with
  | nil => rfl
  | cons kv qs ih =>
    simp only [List.filter_cons]
    by_cases hk : kv.1 = n
    · have h2 : (kv.1 == n') = false := by simp [hk]; exact fun h => hne h.symm
      have h3 : (kv.1 != n) = false := by simp [hk]
      simp only [h3, Bool.false_eq_true, if_false, List.find?_cons, h2, ih]
    · have : (kv.1 != n) = true := by simpa using hk
      simp only [this, if_true, List.find?_cons, ih]

theorem get_ack_other (qs : MemQueues) (n n' : Bytes) (next : Nat) (hne : n' ≠ n) :
    (qs.ackPosition n next).get? n' = qs.get? n' := by
  unfold MemQueues.ackPosition
  split
  · split
    · exact get_set_other qs n n' _ hne
    · rfl
  · exact get_set_other qs n n' _ hne

/-- after `ack_position` the queue exists; it is the old one or an empty one -/
theorem get_ack_same (qs : MemQueues) (n : Bytes) (next : Nat) :
    ∃ q', (qs.ackPosition n next).get? n = some q' ∧ (qs.get? n = some q' ∨ plain q' = []) := by
  unfold MemQueues.ackPosition
  split
  · rename_i q hq
    split
    · exact ⟨_, get_set_same qs n _, Or.inr rfl⟩
    · exact ⟨q, hq, Or.inl hq⟩
  · exact ⟨_, get_set_same qs n _, Or.inr rfl⟩

/-! ### the shape of a queue that received batch `b` -/

/-- no `truncate name` among the entries -/
def noTrunc (name : Bytes) : List (Nat × Entry) → Bool
  | [] => true
  | (_, .truncate q _) :: es => q != name && noTrunc name es
  | (_, .append _ _ _) :: es => noTrunc name es
  | (_, .touch _ _) :: es => noTrunc name es
  | (_, .delete _ _) :: es => noTrunc name es

/-- State of queue `name` some time after batch `b` was appended to it: either the queue is gone,
    or its records are `pre ++ b.drop k ++ post` — records `pre` of entries before the batch
    (triples in `A`), a suffix of the batch, records `post` of entries after it (triples in `P`) —
    and if part of the batch's head is gone (`0 < k`) so is everything before it. With `nt`
    (no truncation since), the batch is whole (`k = 0`) or entirely gone (`b.length ≤ k`). -/
def Whole (b : List (Nat × Bytes)) (name : Bytes) (A P : List (Bytes × Nat × Bytes)) (nt : Bool) :
    Option MemQueue → Prop
  | none => True
  | some q => ∃ pre k post, plain q = pre ++ b.drop k ++ post ∧ (0 < k → pre = []) ∧
      (∀ r ∈ pre, (name, r.1, r.2) ∈ A) ∧ (∀ r ∈ post, (name, r.1, r.2) ∈ P) ∧
      (nt = true → k = 0 ∨ b.length ≤ k)

variable {b : List (Nat × Bytes)} {name : Bytes} {A P : List (Bytes × Nat × Bytes)} {nt : Bool}

theorem Whole.mono {x : Option MemQueue} {P' : List (Bytes × Nat × Bytes)} {nt' : Bool}
    (h : Whole b name A P nt x) (hP : ∀ t ∈ P, t ∈ P') (hnt : nt' = true → nt = true) :
    Whole b name A P' nt' x := by
  cases x with
  | none => trivial
  | some q =>
    obtain ⟨pre, k, post, h1, h2, h3, h4, h5⟩ := h
    exact ⟨pre, k, post, h1, h2, h3, fun r hr => hP _ (h4 r hr), fun h => h5 (hnt h)⟩

/-- same records -/
theorem Whole.same {q q' : MemQueue} (h : Whole b name A P nt (some q)) (hp : plain q' = plain q) :
    Whole b name A P nt (some q') := by
  obtain ⟨pre, k, post, h1, h2, h3, h4, h5⟩ := h
  exact ⟨pre, k, post, by rw [hp, h1], h2, h3, h4, h5⟩

/-- more records at the end -/
theorem Whole.app {q q' : MemQueue} {recs : List (Nat × Bytes)} {P' : List (Bytes × Nat × Bytes)}
    (h : Whole b name A P nt (some q)) (hp : plain q' = plain q ++ recs)
    (hP : ∀ t ∈ P, t ∈ P') (hr : ∀ r ∈ recs, (name, r.1, r.2) ∈ P') :
    Whole b name A P' nt (some q') := by
  obtain ⟨pre, k, post, h1, h2, h3, h4, h5⟩ := h
  refine ⟨pre, k, post ++ recs, by rw [hp, h1]; simp, h2, h3, ?_, h5⟩
  intro r hr'
  rcases List.mem_append.mp hr' with h | h
  · exact hP _ (h4 r h)
  · exact hr r h

/-- a fresh queue whose records all come from later entries (in particular an empty one) -/
theorem Whole.fresh {q' : MemQueue} (hp : ∀ r ∈ plain q', (name, r.1, r.2) ∈ P) :
    Whole b name A P nt (some q') :=
  ⟨[], b.length, plain q', by simp, fun _ => rfl, (fun r hr => by cases hr), hp, fun _ => Or.inr (Nat.le_refl _)⟩

/-- a prefix of the records dropped -/
theorem Whole.dropped {q q' : MemQueue} {j : Nat} (h : Whole b name A P nt (some q))
    (hp : plain q' = (plain q).drop j) : Whole b name A P false (some q') := by
  obtain ⟨pre, k, post, h1, h2, h3, h4, _⟩ := h
  rw [h1, List.append_assoc, List.drop_append] at hp
  by_cases hj : j ≤ pre.length
  · -- only part of `pre` goes
    have h0 : j - pre.length = 0 := by omega
    rw [h0, List.drop_zero] at hp
    refine ⟨pre.drop j, k, post, by rw [hp, List.append_assoc], ?_, ?_, h4, (fun h => by cases h)⟩
    · intro hk; rw [h2 hk]; simp
    · intro r hr; exact h3 r (List.mem_of_mem_drop hr)
  · -- all of `pre` goes, and `j - pre.length` records of the rest
    have hpre : pre.drop j = [] := List.drop_of_length_le (by omega)
    rw [hpre, List.nil_append, List.drop_append, List.drop_drop] at hp
    by_cases hb : j - pre.length ≤ (b.drop k).length
    · have h0 : j - pre.length - (b.drop k).length = 0 := by omega
      rw [h0, List.drop_zero] at hp
      by_cases hz : k + (j - pre.length) = 0
      · -- nothing dropped at all (j = 0, pre = [])
        refine ⟨[], 0, post, by rw [hp, hz]; rfl, fun _ => rfl, (fun r hr => by cases hr), h4,
          (fun h => by cases h)⟩
      · refine ⟨[], k + (j - pre.length), post, by rw [hp]; rfl, fun _ => rfl,
          (fun r hr => by cases hr), h4, (fun h => by cases h)⟩
    · -- the whole batch goes, and part of `post`
      have hbd : (b.drop k).drop (j - pre.length) = [] := List.drop_of_length_le (by omega)
      rw [List.drop_drop] at hbd
      rw [hbd, List.nil_append] at hp
      refine ⟨[], b.length, post.drop (j - pre.length - (b.drop k).length), by rw [hp]; simp,
        fun _ => rfl, (fun r hr => by cases hr), fun r hr => h4 r (List.mem_of_mem_drop hr),
        (fun h => by cases h)⟩

/-! ### one replayed entry -/

theorem mem_recordsOf_append (f : Nat) (q : Bytes) (pos : Nat) (recs : List (Nat × Bytes))
    (r : Nat × Bytes) (hr : r ∈ recs) : (q, r.1, r.2) ∈ recordsOf [(f, Entry.append q pos recs)] := by
  simp only [recordsOf, List.append_nil, List.mem_map]
  exact ⟨r, hr, rfl⟩

theorem noTrunc_single (name : Bytes) (f : Nat) (e : Entry) :
    noTrunc name [(f, e)] = match e with | .truncate q _ => q != name | _ => true := by
  cases e <;> simp [noTrunc]

theorem Whole_replayEntry {qs qs' : MemQueues} {file : Nat} {e : Entry}
    (h : replayEntry qs file e = some qs') (hW : Whole b name A P nt (qs.get? name)) :
    Whole b name A (P ++ recordsOf [(file, e)]) (nt && noTrunc name [(file, e)]) (qs'.get? name) := by
  have hPsub : ∀ t ∈ P, t ∈ P ++ recordsOf [(file, e)] := fun t ht => List.mem_append_left _ ht
  have hnt : (nt && noTrunc name [(file, e)]) = true → nt = true := by
    intro h; simp only [Bool.and_eq_true] at h; exact h.1
  cases e with
  | append q pos recs =>
    simp only [replayEntry] at h
    by_cases hq : q = name
    · subst hq
      -- the queue the batch is appended to: the old one, or an empty one
      have hmq : ∀ mq, (if qs.contains q then qs else qs.ackPosition q pos).get? q = some mq →
          qs.get? q = some mq ∨ plain mq = [] := by
        intro mq hmq
        split at hmq
        · exact Or.inl hmq
        · obtain ⟨q', h1, h2⟩ := get_ack_same qs q pos
          rw [h1] at hmq
          simp only [Option.some.injEq] at hmq
          subst hmq
          exact h2
      generalize (if qs.contains q then qs else qs.ackPosition q pos) = qs1 at h hmq
      cases hg : qs1.get? q with
      | none => rw [hg] at h; cases h
      | some mq =>
        rw [hg] at h
        simp only at h
        cases ha : Log.appendAll mq file recs with
        | none => rw [ha] at h; cases h
        | some mq' =>
          rw [ha] at h
          simp only [Option.map_some, Option.some.injEq] at h
          subst h
          rw [get_set_same]
          have hp := plain_appendAll file recs mq mq' ha
          have hrecs : ∀ r ∈ recs, (q, r.1, r.2) ∈ P ++ recordsOf [(file, Entry.append q pos recs)] :=
            fun r hr => List.mem_append_right _ (mem_recordsOf_append file q pos recs r hr)
          rcases hmq mq hg with h1 | h1
          · rw [h1] at hW
            exact (hW.app hp hPsub hrecs).mono (fun t ht => ht) hnt
          · apply Whole.fresh
            intro r hr
            rw [hp, h1, List.nil_append] at hr
            exact hrecs r hr
    · -- another queue: `name` is untouched
      have hne : name ≠ q := fun h => hq h.symm
      have hsame : (if qs.contains q then qs else qs.ackPosition q pos).get? name = qs.get? name := by
        split
        · rfl
        · exact get_ack_other qs q name pos hne
      generalize (if qs.contains q then qs else qs.ackPosition q pos) = qs1 at h hsame
      cases hg : qs1.get? q with
      | none => rw [hg] at h; cases h
      | some mq =>
        rw [hg] at h
        simp only at h
        cases ha : Log.appendAll mq file recs with
        | none => rw [ha] at h; cases h
        | some mq' =>
          rw [ha] at h
          simp only [Option.map_some, Option.some.injEq] at h
          subst h
          rw [get_set_other _ _ _ _ hne, hsame]
          exact hW.mono hPsub hnt
  | truncate q p =>
    simp only [replayEntry] at h
    cases hg : qs.get? q with
    | none =>
      rw [hg] at h; simp only [Option.some.injEq] at h; subst h
      exact hW.mono hPsub hnt
    | some mq =>
      rw [hg] at h
      simp only [Option.some.injEq] at h
      subst h
      by_cases hq : q = name
      · subst hq
        rw [get_set_same]
        rw [hg] at hW
        obtain ⟨k, hk⟩ := plain_truncateHead mq p
        exact (hW.dropped hk).mono hPsub (fun h => by simp [noTrunc] at h)
      · have hne : name ≠ q := fun h => hq h.symm
        rw [get_set_other _ _ _ _ hne]
        exact hW.mono hPsub hnt
  | touch q p =>
    simp only [replayEntry, Option.some.injEq] at h
    subst h
    by_cases hq : q = name
    · subst hq
      obtain ⟨q', h1, h2⟩ := get_ack_same qs q p
      rw [h1]
      rcases h2 with h2 | h2
      · rw [h2] at hW; exact hW.mono hPsub hnt
      · exact Whole.fresh (fun r hr => by rw [h2] at hr; cases hr)
    · have hne : name ≠ q := fun h => hq h.symm
      rw [get_ack_other _ _ _ _ hne]
      exact hW.mono hPsub hnt
  | delete q p =>
    simp only [replayEntry, Option.some.injEq] at h
    subst h
    by_cases hq : q = name
    · subst hq; rw [get_remove_same]; trivial
    · have hne : name ≠ q := fun h => hq h.symm
      rw [get_remove_other _ _ _ hne]
      exact hW.mono hPsub hnt

theorem noTrunc_cons (name : Bytes) (fe : Nat × Entry) (es : List (Nat × Entry)) :
    noTrunc name (fe :: es) = (noTrunc name [fe] && noTrunc name es) := by
  obtain ⟨f, e⟩ := fe
  cases e <;> simp [noTrunc]

theorem Whole_replayEntries (es : List (Nat × Entry)) :
    ∀ (P : List (Bytes × Nat × Bytes)) (nt : Bool) (qs qs' : MemQueues),
      replayEntries qs es = some qs' → Whole b name A P nt (qs.get? name) →
      Whole b name A (P ++ recordsOf es) (nt && noTrunc name es) (qs'.get? name) := by
  induction es with
  | nil =>
    intro P nt qs qs' h hW
    simp only [replayEntries, Option.some.injEq] at h
    subst h
    exact hW.mono (fun t ht => List.mem_append_left _ ht) (fun h => by simpa [noTrunc] using h)
  | cons fe es ih =>
    intro P nt qs qs' h hW
    obtain ⟨f, e⟩ := fe
    simp only [replayEntries] at h
    cases h1 : replayEntry qs f e with
    | none => rw [h1] at h; cases h
    | some qs1 =>
      rw [h1] at h
      have := ih _ _ qs1 qs' h (Whole_replayEntry h1 hW)
      have hsplit : recordsOf ((f, e) :: es) = recordsOf [(f, e)] ++ recordsOf es :=
        recordsOf_append [(f, e)] es
      rw [hsplit, ← List.append_assoc, noTrunc_cons, ← Bool.and_assoc]
      exact this

/-- right after the batch's own entry: the queue is (records of earlier entries) ++ the batch -/
theorem Whole_after_append {qs qs' : MemQueues} {file : Nat} {pos : Nat}
    (h : replayEntry qs file (Entry.append name pos b) = some qs') (hA : AllIn A qs) :
    Whole b name A [] true (qs'.get? name) := by
  simp only [replayEntry] at h
  have hmq : ∀ mq, (if qs.contains name then qs else qs.ackPosition name pos).get? name = some mq →
      qs.get? name = some mq ∨ plain mq = [] := by
    intro mq hmq
    split at hmq
    · exact Or.inl hmq
    · obtain ⟨q', h1, h2⟩ := get_ack_same qs name pos
      rw [h1] at hmq
      simp only [Option.some.injEq] at hmq
      subst hmq
      exact h2
  generalize (if qs.contains name then qs else qs.ackPosition name pos) = qs1 at h hmq
  cases hg : qs1.get? name with
  | none => rw [hg] at h; cases h
  | some mq =>
    rw [hg] at h
    simp only at h
    cases ha : Log.appendAll mq file b with
    | none => rw [ha] at h; cases h
    | some mq' =>
      rw [ha] at h
      simp only [Option.map_some, Option.some.injEq] at h
      subst h
      rw [get_set_same]
      have hp := plain_appendAll file b mq mq' ha
      refine ⟨plain mq, 0, [], by rw [hp]; simp, fun h => by omega, ?_, (fun r hr => by cases hr),
        fun _ => Or.inl rfl⟩
      intro r hr
      rcases hmq mq hg with h1 | h1
      · exact hA (name, mq) (get_mem h1) r hr
      · rw [h1] at hr; cases hr

end MRL.Rec
