/-
Shared by the restart legs (C04R, C06R, C13R, C14R, C16R, C18R): the end-to-end system state as a
record, running calls on it, and what one restart of a reachable state gives back.
-/
import MRL.Props.C01Restart
import MRL.Proofs.StepGc

namespace MRL.Restart
open MRL Log C01R C01J G

/-- (log, journal, OS image, `BufWriter` state) -/
structure Sys where
  l : Log
  J : List JE
  img : Image
  b : BufSt

/-- reachable, as in `C01R.ReachD` -/
def Reach (g : Geom) (cap : Nat) (s : Sys) : Prop := ReachD g cap s.l s.J s.img s.b

/-- serialisable journal (`C07.WF`) -/
def WFJ (s : Sys) : Prop := ∀ j ∈ s.J, C07.WF j.e

/-- one API call -/
def Sys.step (g : Geom) (cap : Nat) (s : Sys) (c : Call) (tick : Bool) (order : List Bytes) : Sys :=
  { l := (s.l.step g c tick order).1
    J := s.J ++ s.l.stepJ g c order
    img := applyOsOps s.img (toOsOps cap s.b (s.l.step g c tick order).2.2).2
    b := (toOsOps cap s.b (s.l.step g c tick order).2.2).1 }

/-- a history of calls -/
def Sys.run (g : Geom) (cap : Nat) (s : Sys) : List (Call × Bool × List Bytes) → Sys
  | [] => s
  | (c, tick, order) :: cs => Sys.run g cap (s.step g cap c tick order) cs

/-- the disk once the `BufWriter` is dropped -/
def Sys.disk (s : Sys) : Image := C01R.flushDisk s.img s.b

/-- `s'` is `s` restarted with `policy` (GC order oracle `order`) -/
def Reopens (g : Geom) (cap : Nat) (s : Sys) (policy : Policy) (order : List Bytes) (s' : Sys) : Prop :=
  ∃ lp e0 io r, recoverPre g s.disk policy none = .ok (lp, e0, io) ∧
    recover g s.disk policy order none = .ok r ∧
    s' = { l := r.log, J := s.J ++ lp.gcJ g order,
           img := applyOsOps s.disk (toOsOps cap {} r.effects).2, b := (toOsOps cap {} r.effects).1 }

variable {g : Geom} {cap : Nat}

theorem Reach.step {s : Sys} (h : Reach g cap s) (c : Call) (tick : Bool) (order : List Bytes) :
    Reach g cap (s.step g cap c tick order) := ReachD.step c tick order h

theorem Reach.run {s : Sys} (h : Reach g cap s) (cs : List (Call × Bool × List Bytes)) :
    Reach g cap (s.run g cap cs) := by
  induction cs generalizing s with
  | nil => exact h
  | cons x cs ih => obtain ⟨c, tick, order⟩ := x; exact ih (h.step c tick order)

theorem Reach.reopen {s s' : Sys} {policy : Policy} {order : List Bytes} (h : Reach g cap s)
    (hr : Reopens g cap s policy order s') : Reach g cap s' := by
  obtain ⟨lp, e0, io, r, hpre, hrec, rfl⟩ := hr
  exact ReachD.reopen policy order lp e0 io r h hpre hrec

theorem run_log (s : Sys) (cs : List (Call × Bool × List Bytes)) :
    (s.run g cap cs).l = C05.run g s.l cs := by
  induction cs generalizing s with
  | nil => rfl
  | cons x cs ih => obtain ⟨c, tick, order⟩ := x; exact ih _

theorem run_journal (s : Sys) (cs : List (Call × Bool × List Bytes)) :
    ∃ J', (s.run g cap cs).J = s.J ++ J' := by
  induction cs generalizing s with
  | nil => exact ⟨[], by simp [Sys.run]⟩
  | cons x cs ih =>
    obtain ⟨c, tick, order⟩ := x
    obtain ⟨J', hJ⟩ := ih (s.step g cap c tick order)
    exact ⟨s.l.stepJ g c order ++ J', by rw [Sys.run, hJ]; simp [Sys.step]⟩

theorem WFJ.of_run {s : Sys} {cs : List (Call × Bool × List Bytes)} (h : WFJ (s.run g cap cs)) : WFJ s := by
  obtain ⟨J', hJ⟩ := run_journal (g := g) (cap := cap) s cs
  intro j hj
  exact h j (by rw [hJ]; exact List.mem_append_left _ hj)

theorem WFJ.of_reopen {s s' : Sys} {policy : Policy} {order : List Bytes}
    (hr : Reopens g cap s policy order s') (h : WFJ s') : WFJ s := by
  obtain ⟨lp, e0, io, r, _, _, rfl⟩ := hr
  intro j hj
  exact h j (List.mem_append_left _ hj)

/-- the log invariant of C05 at every reachable state -/
theorem Reach.inv (hB : g.B ≤ 65542) {s : Sys} (h : Reach g cap s) (hwf : WFJ s) : C05.Inv s.l := by
  have := (reach_rinv g hB cap h hwf).c.jinv
  obtain ⟨hH, _⟩ := this
  exact hH.inv

/-- **What a restart gives back**: the log before the final GC pass has the same files, the same
    current file, the requested policy and equivalent queues; the returned log is its GC pass. -/
theorem reopen_facts (hB : g.B ≤ 65542) {s : Sys} (h : Reach g cap s) (hwf : WFJ s)
    (policy : Policy) (order : List Bytes) (lp : Log) (e0 : List Effect) (io : Nat) (r : Recovered)
    (hpre : recoverPre g s.disk policy none = .ok (lp, e0, io))
    (hrec : recover g s.disk policy order none = .ok r) :
    r.log = (runGc g lp order).1 ∧ lp.files = s.l.files ∧ lp.cur = s.l.cur ∧ lp.policy = policy ∧
    QsEquiv lp.queues s.l.queues ∧ QsEquiv r.log.queues s.l.queues := by
  have hc := (reach_rinv g hB cap h hwf).c
  obtain ⟨hH, chunk, qs, hrep, heq, hqwf⟩ := hc.jinv
  have hfirst := hfirst_of hc.mono2 chunk hc.first
  obtain ⟨lp', io', hrec', hfiles, hcur, hqs, hpol, _⟩ := read_disk g hB hc.disk policy qs hrep hwf hfirst
  have hpre' : recoverPre g s.disk policy none = _ := hrec'
  rw [hpre] at hpre'
  simp only [Except.ok.injEq, Prod.mk.injEq] at hpre'
  obtain ⟨rfl, _, _⟩ := hpre'
  obtain ⟨lp2, e2, io2, hpre2, hlog, _⟩ := Step.recover_ok g s.disk policy order none r hrec
  rw [hpre] at hpre2
  simp only [Except.ok.injEq, Prod.mk.injEq] at hpre2
  obtain ⟨rfl, _, _⟩ := hpre2
  have hq : QsEquiv lp.queues s.l.queues := by rw [hqs]; exact heq
  refine ⟨hlog, hfiles, hcur, hpol, hq, ?_⟩
  rw [hlog, runGc_queues]
  exact hq

/-- a restart of a reachable state always succeeds -/
theorem reopens_exists (hB : g.B ≤ 65542) {s : Sys} (h : Reach g cap s) (hwf : WFJ s)
    (policy : Policy) (order : List Bytes) : ∃ s', Reopens g cap s policy order s' := by
  obtain ⟨lp, e0, io, r, hpre, hrec⟩ := reopen_ok g hB cap s.l s.J s.img s.b h hwf policy order
  exact ⟨_, lp, e0, io, r, hpre, hrec, rfl⟩

/-- the first `open` of an empty directory, as a system state -/
theorem reach_init (hB : g.B ≤ 65542) (policy : Policy) (order : List Bytes) :
    ∃ s, Reach g cap s ∧ s.J = [] := by
  obtain ⟨r, hr⟩ := init_ok g hB policy order
  exact ⟨⟨r.log, [], _, _⟩, ReachD.init policy order r hr, rfl⟩

end MRL.Restart
