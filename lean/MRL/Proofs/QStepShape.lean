/-
Shape lemmas: what `Log.step` does to `queues` and which outcome it returns, call by call
(the WAL byte counts and the effects are existentially hidden).
-/
import MRL.Proofs.QMemQueue

namespace MRL
namespace Log

variable (g : Geom) (l : Log) (tick : Bool) (order : List Bytes)

theorem step_create_some (q : Bytes) (mq : MemQueue) (hg : l.queues.get? q = some mq) :
    step g l (.create q) tick order = (l, .alreadyExists, []) := by
  have hc : l.queues.contains q = true := by rw [contains_eq_isSome, hg]; rfl
  simp [step, hc]

theorem step_create_none (q : Bytes) (hg : l.queues.get? q = none) :
    (step g l (.create q) tick order).1.queues = l.queues.set q {} ∧
    ∃ n, (step g l (.create q) tick order).2.1 = .created n := by
  have hc : l.queues.contains q = false := by rw [contains_eq_isSome, hg]; rfl
  rcases hw : writeEntry g l (.touch q 0) with ⟨l1, e1, n⟩
  have h1 : l1.queues = l.queues := by
    have := writeEntry_queues g l (.touch q 0); rwa [hw] at this
  simp only [step, hc, hw, h1]
  exact ⟨rfl, _, rfl⟩

theorem step_delete_none (q : Bytes) (hg : l.queues.get? q = none) :
    step g l (.delete q) tick order = (l, .missingQueue, []) := by
  simp [step, hg]

theorem step_delete_some (q : Bytes) (mq : MemQueue) (hg : l.queues.get? q = some mq) :
    (step g l (.delete q) tick order).1.queues = l.queues.remove q ∧
    ∃ n, (step g l (.delete q) tick order).2.1 = .deleted n := by
  rcases hw : writeEntry g l (.delete q mq.nextPosition) with ⟨l1, e1, n1⟩
  have h1 : l1.queues = l.queues := by
    have := writeEntry_queues g l (.delete q mq.nextPosition); rwa [hw] at this
  rcases hgc : runGc g { l1 with queues := l1.queues.remove q } order with ⟨l3, e3, n3⟩
  have h3 : l3.queues = l1.queues.remove q := by
    have := runGc_queues g { l1 with queues := l1.queues.remove q } order; rwa [hgc] at this
  simp only [step, hg, hw, hgc]
  exact ⟨by rw [h3, h1], _, rfl⟩

theorem step_truncate_none (q : Bytes) (p : Nat) (hg : l.queues.get? q = none) :
    step g l (.truncate q p) tick order = (l, .missingQueue, []) := by
  simp [step, hg]

theorem step_truncate_some (q : Bytes) (p : Nat) (mq : MemQueue) (hg : l.queues.get? q = some mq) :
    (step g l (.truncate q p) tick order).1.queues = l.queues.set q (mq.truncateHead p).1 ∧
    ∃ n, (step g l (.truncate q p) tick order).2.1 = .truncated (mq.truncateHead p).2 n := by
  rcases hw : writeEntry g l (.truncate q p) with ⟨l1, e1, n1⟩
  have h1 : l1.queues = l.queues := by
    have := writeEntry_queues g l (.truncate q p); rwa [hw] at this
  rcases hgc : runGc g { l1 with queues := l1.queues.set q (mq.truncateHead p).1 } order with ⟨l3, e3, n3⟩
  have h3 : l3.queues = l1.queues.set q (mq.truncateHead p).1 := by
    have := runGc_queues g { l1 with queues := l1.queues.set q (mq.truncateHead p).1 } order
    rwa [hgc] at this
  simp only [step, hg, hw, hgc]
  exact ⟨by rw [h3, h1], _, rfl⟩

theorem step_append_none (q : Bytes) (pos? : Option Nat) (pls : List Bytes)
    (hg : l.queues.get? q = none) :
    step g l (.append q pos? pls) tick order = (l, .missingQueue, []) := by
  simp [step, hg]

theorem step_append_retry (q : Bytes) (mq : MemQueue) (p : Nat) (pls : List Bytes)
    (hg : l.queues.get? q = some mq) (hp : p + 1 = mq.nextPosition) :
    step g l (.append q (some p) pls) tick order = (l, .appended none 0, []) := by
  simp [step, hg, hp]

theorem step_append_past (q : Bytes) (mq : MemQueue) (p : Nat) (pls : List Bytes)
    (hg : l.queues.get? q = some mq) (hp : p + 1 ≠ mq.nextPosition) (hp2 : p < mq.nextPosition) :
    step g l (.append q (some p) pls) tick order = (l, .past, []) := by
  simp [step, hg, hp, hp2]

/-- the position at which an append that passes the checks writes -/
def appendPos (mq : MemQueue) : Option Nat → Nat
  | some p => p
  | none => mq.nextPosition

theorem step_append_empty (q : Bytes) (mq : MemQueue) (pos? : Option Nat)
    (hg : l.queues.get? q = some mq) (hp : ∀ p, pos? = some p → mq.nextPosition ≤ p) :
    step g l (.append q pos? []) tick order = (l, .appended none 0, []) := by
  cases pos? with
  | none => simp [step, hg]
  | some p =>
    have := hp p rfl
    have h1 : ¬ (p + 1 = mq.nextPosition) := by omega
    have h2 : ¬ (p < mq.nextPosition) := by omega
    simp [step, hg, h1, h2]

theorem step_append_ok (q : Bytes) (mq mq' : MemQueue) (pos? : Option Nat) (pls : List Bytes)
    (hg : l.queues.get? q = some mq) (hp : ∀ p, pos? = some p → mq.nextPosition ≤ p)
    (hne : pls ≠ [])
    (hall : appendAll mq l.cur (numberFrom (appendPos mq pos?) pls) = some mq') :
    (step g l (.append q pos? pls) tick order).1.queues = l.queues.set q mq' ∧
    ∃ n, (step g l (.append q pos? pls) tick order).2.1 =
      .appended (some (appendPos mq pos? + pls.length - 1)) n := by
  have hemp : pls.isEmpty = false := by cases pls <;> simp_all
  rcases hw : writeEntry g l (.append q (appendPos mq pos?) (numberFrom (appendPos mq pos?) pls))
    with ⟨l1, e1, n1⟩
  have h1 : l1.queues = l.queues := by
    have := writeEntry_queues g l (.append q (appendPos mq pos?) (numberFrom (appendPos mq pos?) pls))
    rwa [hw] at this
  cases pos? with
  | none =>
    simp only [appendPos] at hall hw ⊢
    simp only [step, hg, hemp, hw, hall, h1]
    exact ⟨rfl, _, rfl⟩
  | some p =>
    have := hp p rfl
    have hp1 : ¬ (p + 1 = mq.nextPosition) := by omega
    have hp2 : ¬ (p < mq.nextPosition) := by omega
    simp only [appendPos] at hall hw ⊢
    simp only [step, hg, hp1, hp2, if_false, hemp, hw, hall, h1]
    exact ⟨rfl, _, rfl⟩

theorem step_persist (a : PersistAction) :
    step g l (.persist a) tick order = (l, .persisted, l.persistEffects a) := rfl

end Log
end MRL
