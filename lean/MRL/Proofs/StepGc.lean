/-
Second batch of step lemmas, shared by C06 and C03: exact equations of `step` for the calls that
write, a refined shape theorem (which calls run GC, which force a sync), what the write path
leaves alone (queues, policy), monotonicity of the current file, `gcFiles`, the unlinks of an
effect list, and the decomposition of `recover`.
-/
import MRL.Props.C17
import MRL.Proofs.StepLemmas
import MRL.Model.Recovery

namespace MRL.Step
open MRL MRL.Log

variable (g : Geom) (l : Log)

/-! ### Exact equations -/

theorem step_create_eq (q : Bytes) (tick : Bool) (order : List Bytes) (hc : l.queues.contains q = false) :
    step g l (.create q) tick order =
      ({ (l.writeEntry g (.touch q 0)).1 with queues := (l.writeEntry g (.touch q 0)).1.queues.set q {} },
       .created (l.writeEntry g (.touch q 0)).2.2,
       (l.writeEntry g (.touch q 0)).2.1 ++ (l.writeEntry g (.touch q 0)).1.persistEffects .flushAndFsync) := by
  simp [step, hc]

theorem step_delete_eq (q : Bytes) (mq : MemQueue) (tick : Bool) (order : List Bytes)
    (hq : l.queues.get? q = some mq) :
    step g l (.delete q) tick order =
      let r1 := l.writeEntry g (.delete q mq.nextPosition)
      let r3 := runGc g { r1.1 with queues := r1.1.queues.remove q } order
      (r3.1, .deleted (r1.2.2 + r3.2.2), r1.2.1 ++ r3.2.1 ++ r3.1.persistEffects .flushAndFsync) := by
  simp only [step, hq]

theorem step_truncate_eq (q : Bytes) (p : Nat) (mq : MemQueue) (tick : Bool) (order : List Bytes)
    (hq : l.queues.get? q = some mq) :
    step g l (.truncate q p) tick order =
      let r1 := l.writeEntry g (.truncate q p)
      let r3 := runGc g { r1.1 with queues := r1.1.queues.set q (mq.truncateHead p).1 } order
      (r3.1, .truncated (mq.truncateHead p).2 (r1.2.2 + r3.2.2), r1.2.1 ++ r3.2.1 ++ r3.1.policyEffects tick) := by
  simp only [step, hq]

/-- calls that end with a GC pass -/
def isGcCall : Call → Bool
  | .delete _ | .truncate _ _ => true
  | _ => false

/-- calls that end with an unconditional `persist(FlushAndFsync)` -/
def isForced : Call → Bool
  | .create _ | .delete _ => true
  | _ => false

/-- the sync effects that end a writing call -/
def tailSync (l' : Log) (c : Call) (tick : Bool) : List Effect :=
  if isForced c then l'.persistEffects .flushAndFsync else l'.policyEffects tick

/-- **Refined shape of one API call**: as `step_shape`, with the GC flag and the final sync
    effects determined by the kind of call. -/
theorem step_shape2 (c : Call) (tick : Bool) (order : List Bytes) :
    (∃ out, step g l c tick order = (l, out, [])) ∨
    (∃ a, c = .persist a ∧ step g l c tick order = (l, .persisted, l.persistEffects a)) ∨
    (∃ (e : Entry) (qs' : MemQueues) (out : Outcome),
      let r1 := l.writeEntry g e
      let l2 : Log := { r1.1 with queues := qs' }
      let r3 := if isGcCall c then l2.runGc g order else (l2, [], 0)
      step g l c tick order = (r3.1, out, r1.2.1 ++ r3.2.1 ++ tailSync r3.1 c tick)) := by
  cases c with
  | create q =>
    by_cases hc : l.queues.contains q = true
    · left; exact ⟨.alreadyExists, by simp [step, hc]⟩
    · right; right
      refine ⟨.touch q 0, (l.writeEntry g (.touch q 0)).1.queues.set q {},
        .created (l.writeEntry g (.touch q 0)).2.2, ?_⟩
      rw [step_create_eq g l q tick order (by simpa using hc)]
      simp [isGcCall, tailSync, isForced, persistEffects]
  | persist a => right; left; exact ⟨a, rfl, rfl⟩
  | delete q =>
    cases hq : l.queues.get? q with
    | none => left; exact ⟨.missingQueue, by simp [step, hq]⟩
    | some mq =>
      right; right
      exact ⟨.delete q mq.nextPosition, _, _, step_delete_eq g l q mq tick order hq⟩
  | truncate q p =>
    cases hq : l.queues.get? q with
    | none => left; exact ⟨.missingQueue, by simp [step, hq]⟩
    | some mq =>
      right; right
      exact ⟨.truncate q p, _, _, step_truncate_eq g l q p mq tick order hq⟩
  | append q pos? pls =>
    cases hq : l.queues.get? q with
    | none => left; exact ⟨.missingQueue, by simp [step, hq]⟩
    | some mq =>
      have main : ∀ pos : Nat, mq.nextPosition ≤ pos →
          (∀ mq', appendAll mq l.cur (numberFrom pos pls) = some mq' →
            step g l (.append q pos? pls) tick order =
              ({ (l.writeEntry g (.append q pos (numberFrom pos pls))).1 with
                  queues := (l.writeEntry g (.append q pos (numberFrom pos pls))).1.queues.set q mq' },
               .appended (some (pos + pls.length - 1)) (l.writeEntry g (.append q pos (numberFrom pos pls))).2.2,
               (l.writeEntry g (.append q pos (numberFrom pos pls))).2.1 ++
                 (l.writeEntry g (.append q pos (numberFrom pos pls))).1.policyEffects tick)) →
          ∃ (e : Entry) (qs' : MemQueues) (out : Outcome),
            let r1 := l.writeEntry g e
            let l2 : Log := { r1.1 with queues := qs' }
            let r3 := if isGcCall (.append q pos? pls) then l2.runGc g order else (l2, [], 0)
            step g l (.append q pos? pls) tick order =
              (r3.1, out, r1.2.1 ++ r3.2.1 ++ tailSync r3.1 (.append q pos? pls) tick) := by
        intro pos hpos hstep
        obtain ⟨mq', hmq'⟩ := appendAll_isSome l.cur pls mq pos hpos
        refine ⟨.append q pos (numberFrom pos pls),
          (l.writeEntry g (.append q pos (numberFrom pos pls))).1.queues.set q mq',
          .appended (some (pos + pls.length - 1)) (l.writeEntry g (.append q pos (numberFrom pos pls))).2.2, ?_⟩
        rw [hstep mq' hmq']
        simp [isGcCall, tailSync, isForced]
        rfl
      cases pos? with
      | none =>
        by_cases hne : pls.isEmpty = true
        · left; exact ⟨.appended none 0, by simp [step, hq, hne]⟩
        · right; right
          exact main mq.nextPosition (Nat.le_refl _) (fun mq' h => by simp [step, hq, hne, h])
      | some p =>
        by_cases h1 : p + 1 = mq.nextPosition
        · left; exact ⟨.appended none 0, by simp [step, hq, h1]⟩
        · by_cases h2 : p < mq.nextPosition
          · left; exact ⟨.past, by simp [step, hq, h1, h2]⟩
          · by_cases hne : pls.isEmpty = true
            · left; exact ⟨.appended none 0, by simp [step, hq, h1, h2, hne]⟩
            · right; right
              exact main p (by omega) (fun mq' h => by simp [step, hq, h1, h2, hne, h])

/-! ### What the write path leaves alone, and the direction in which `cur` moves -/

theorem writeBuf_queues (buf : Bytes) : (writeBuf g l buf).1.queues = l.queues := by
  unfold writeBuf
  split
  · rfl
  · split
    · split <;> rfl
    · rfl

theorem writeBuf_cur_le (buf : Bytes) : l.cur ≤ (writeBuf g l buf).1.cur := by
  unfold writeBuf
  split
  · exact Nat.le_refl _
  · split
    · split
      · rename_i nf h
        unfold nextFile at h
        have := List.find?_some h
        simp only [decide_eq_true_eq] at this
        exact Nat.le_of_lt this
      · exact Nat.le_succ _
    · exact Nat.le_refl _

theorem writeBufs_queues (bufs : List Bytes) : ∀ l : Log, (writeBufs g l bufs).1.queues = l.queues := by
  induction bufs with
  | nil => intro l; rfl
  | cons b bs ih => intro l; rw [writeBufs_cons]; simp only [ih, writeBuf_queues]

theorem writeBufs_cur_le (bufs : List Bytes) : ∀ l : Log, l.cur ≤ (writeBufs g l bufs).1.cur := by
  induction bufs with
  | nil => intro l; exact Nat.le_refl _
  | cons b bs ih =>
    intro l; rw [writeBufs_cons]
    exact Nat.le_trans (writeBuf_cur_le g l b) (ih _)

theorem writeEntry_queues (e : Entry) : (l.writeEntry g e).1.queues = l.queues := by
  rw [writeEntry_eq]; exact writeBufs_queues g _ l

theorem writeEntry_cur_le (e : Entry) : l.cur ≤ (l.writeEntry g e).1.cur := by
  rw [writeEntry_eq]; exact writeBufs_cur_le g _ l

theorem writeTouches_queues (names : List Bytes) :
    ∀ l : Log, (writeTouches g l names).1.queues = l.queues := by
  induction names with
  | nil => intro l; rfl
  | cons n ns ih => intro l; rw [writeTouches_cons]; simp only [ih, writeEntry_queues]

theorem writeTouches_cur_le (names : List Bytes) : ∀ l : Log, l.cur ≤ (writeTouches g l names).1.cur := by
  induction names with
  | nil => intro l; exact Nat.le_refl _
  | cons n ns ih =>
    intro l; rw [writeTouches_cons]
    exact Nat.le_trans (writeEntry_cur_le g l _) (ih _)

/-! ### `gcFiles` -/

theorem gcFiles_split (canDel : Nat → Bool) (files : List Nat) :
    (gcFiles canDel files).2 ++ (gcFiles canDel files).1 = files := by
  fun_induction gcFiles canDel files with
  | case1 f f' rest h r d hrec ih =>
    simp only [hrec] at ih
    simp [ih]
  | case2 f f' rest h => rfl
  | case3 fs h => rfl

/-- everything deleted was deletable -/
theorem gcFiles_deleted (canDel : Nat → Bool) (files : List Nat) :
    ∀ f ∈ (gcFiles canDel files).2, canDel f = true := by
  fun_induction gcFiles canDel files with
  | case1 f f' rest h r d hrec ih =>
    simp only [hrec] at ih
    intro x hx
    rcases List.mem_cons.mp hx with rfl | hx
    · exact h
    · exact ih x hx
  | case2 f f' rest h => intro x hx; cases hx
  | case3 fs h => intro x hx; cases hx

/-- the never-delete-the-last rule -/
theorem gcFiles_ne_nil (canDel : Nat → Bool) (files : List Nat) (h : files ≠ []) :
    (gcFiles canDel files).1 ≠ [] := by
  fun_induction gcFiles canDel files with
  | case1 f f' rest hd r d hrec ih =>
    simp only [hrec] at ih
    exact ih (by simp)
  | case2 f f' rest hd => simp
  | case3 fs hfs => exact h

/-- the oldest file kept is not deletable, unless it is the only one left -/
theorem gcFiles_head (canDel : Nat → Bool) (files : List Nat) (f₀ : Nat)
    (h : (gcFiles canDel files).1.head? = some f₀) :
    (gcFiles canDel files).1 = [f₀] ∨ canDel f₀ = false := by
  fun_induction gcFiles canDel files with
  | case1 f f' rest hd r d hrec ih =>
    simp only [hrec] at ih
    exact ih h
  | case2 f f' rest hd =>
    simp only [List.head?_cons, Option.some.injEq] at h
    subst h
    right
    simpa using hd
  | case3 fs hfs =>
    left
    match fs, hfs, h with
    | [x], _, h =>
      simp only [List.head?_cons, Option.some.injEq] at h
      rw [h]
    | x :: y :: rest, hfs, _ => exact absurd rfl (hfs x y rest)

/-! ### `runGc`, case by case -/

/-- the result of a GC pass that does run -/
def gcResult (order : List Bytes) : Log × List Effect × Nat :=
  let r := writeTouches g l (gcNames l order)
  let gc := gcFiles (r.1.canDelete l.cur) r.1.files
  ({ r.1 with files := gc.1 }, r.2.1 ++ r.1.persistEffects .flushAndFsync ++ gc.2.map Effect.unlink, r.2.2)

theorem runGc_run (order : List Bytes) (f f' : Nat) (rest : List Nat) (hf : l.files = f :: f' :: rest)
    (hd : l.canDelete l.cur f = true) : runGc g l order = gcResult g l order := by
  unfold runGc
  simp only [hf, hd, if_true]
  rfl

theorem runGc_skip (order : List Bytes) (f f' : Nat) (rest : List Nat) (hf : l.files = f :: f' :: rest)
    (hd : l.canDelete l.cur f = false) : runGc g l order = (l, [], 0) := by
  unfold runGc
  simp [hf, hd]

theorem runGc_short (order : List Bytes) (hf : ∀ f f' rest, l.files ≠ f :: f' :: rest) :
    runGc g l order = (l, [], 0) := by
  unfold runGc
  split
  · rename_i f f' rest h
    exact absurd h (hf f f' rest)
  · rfl

/-- the three ways a GC pass can go -/
theorem runGc_trichotomy (order : List Bytes) :
    (runGc g l order = gcResult g l order ∧ ∃ f f' rest, l.files = f :: f' :: rest ∧ l.canDelete l.cur f = true) ∨
    (runGc g l order = (l, [], 0) ∧ ∃ f f' rest, l.files = f :: f' :: rest ∧ l.canDelete l.cur f = false) ∨
    (runGc g l order = (l, [], 0) ∧ ∀ f f' rest, l.files ≠ f :: f' :: rest) := by
  match hfs : l.files with
  | f :: f' :: rest =>
    cases hd : l.canDelete l.cur f with
    | true => exact .inl ⟨runGc_run g l order f f' rest hfs hd, f, f', rest, rfl, hd⟩
    | false => exact .inr (.inl ⟨runGc_skip g l order f f' rest hfs hd, f, f', rest, rfl, hd⟩)
  | [] => exact .inr (.inr ⟨runGc_short g l order (by simp [hfs]), by simp⟩)
  | [x] => exact .inr (.inr ⟨runGc_short g l order (by simp [hfs]), by simp⟩)

/-! ### Unlinks of an effect list -/

/-- the file numbers unlinked by a list of effects, in order -/
def unlinked : List Effect → List Nat
  | [] => []
  | .unlink f :: es => f :: unlinked es
  | _ :: es => unlinked es

theorem mem_unlinked {es : List Effect} {f : Nat} : f ∈ unlinked es ↔ Effect.unlink f ∈ es := by
  induction es with
  | nil => simp [unlinked]
  | cons e es ih => cases e <;> simp [unlinked, ih]

theorem unlinked_append (a b : List Effect) : unlinked (a ++ b) = unlinked a ++ unlinked b := by
  induction a with
  | nil => rfl
  | cons e es ih => cases e <;> simp [unlinked, ih]

theorem unlinked_map (fs : List Nat) : unlinked (fs.map Effect.unlink) = fs := by
  induction fs with
  | nil => rfl
  | cons f fs ih => simp [unlinked, ih]

theorem unlinked_persist (a : PersistAction) : unlinked (l.persistEffects a) = [] := by
  cases a <;> rfl

theorem unlinked_policy (tick : Bool) : unlinked (l.policyEffects tick) = [] := by
  rcases policyEffects_isSync l tick with h | ⟨a, h⟩ <;> rw [h]
  · rfl
  · exact unlinked_persist l a

theorem unlinked_tailSync (c : Call) (tick : Bool) : unlinked (tailSync l c tick) = [] := by
  unfold tailSync
  split
  · exact unlinked_persist l _
  · exact unlinked_policy l tick

theorem writeBuf_unlinked (buf : Bytes) : unlinked (writeBuf g l buf).2 = [] := by
  unfold writeBuf
  split
  · rfl
  · split
    · split <;> rfl
    · rfl

theorem writeBufs_unlinked (bufs : List Bytes) : ∀ l : Log, unlinked (writeBufs g l bufs).2 = [] := by
  induction bufs with
  | nil => intro l; rfl
  | cons b bs ih => intro l; rw [writeBufs_cons, unlinked_append, writeBuf_unlinked, ih]; rfl

theorem writeEntry_unlinked (e : Entry) : unlinked (l.writeEntry g e).2.1 = [] := by
  rw [writeEntry_eq]; exact writeBufs_unlinked g _ l

theorem writeTouches_unlinked (names : List Bytes) : ∀ l : Log, unlinked (writeTouches g l names).2.1 = [] := by
  induction names with
  | nil => intro l; rfl
  | cons n ns ih => intro l; rw [writeTouches_cons, unlinked_append, writeEntry_unlinked, ih]; rfl

/-! ### `recover` -/

/-- a successful `open` is `recoverPre` followed by one GC pass -/
theorem recover_ok (img : Image) (policy : Policy) (order : List Bytes) (failAt : Option Nat) (r : Recovered)
    (h : recover g img policy order failAt = .ok r) :
    ∃ lp e0 io, recoverPre g img policy failAt = .ok (lp, e0, io) ∧
      r.log = (lp.runGc g order).1 ∧ r.effects = e0 ++ (lp.runGc g order).2.1 := by
  unfold recover at h
  split at h
  · cases h
  · rename_i lp e0 io hpre
    simp only at h
    split at h
    · cases h
    · injection h with h
      subst h
      exact ⟨lp, e0, io, hpre, rfl, rfl⟩

/-- the effects before the GC pass of `open` are those of preparing the directory -/
theorem recoverPre_effects (img : Image) (policy : Policy) (failAt : Option Nat) (lp : Log) (e0 : List Effect)
    (io : Nat) (h : recoverPre g img policy failAt = .ok (lp, e0, io)) : e0 = (prepareImage g img).2 := by
  unfold recoverPre at h
  simp only at h
  split at h
  · cases h
  · split at h
    · cases h
    · split at h
      · cases h
      · split at h
        · cases h
        · injection h with h
          injection h with _ h
          injection h with h _
          exact h.symm

theorem prepareImage_unlinked (img : Image) : unlinked (prepareImage g img).2 = [] := by
  unfold prepareImage
  split
  · rfl
  · split <;> rfl

end MRL.Step
