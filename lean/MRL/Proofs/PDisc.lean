/-
The effects of every call, and of every run of calls, obey the power-loss discipline `pd` (with
the file being written as current file), as long as no tracked file lies beyond the current one
(`NoNext`: true of every reachable log; a roll-over then creates the next file).
-/
import MRL.Proofs.PSem
import MRL.Proofs.StepGc
import MRL.Proofs.KRun

namespace MRL.P
open MRL Buf H L Log K

/-- no tracked file beyond the current one -/
def NoNext (l : Log) : Prop := nextFile l.files l.cur = none

/-- the discipline state matches the log: the current file is the one written, it is not empty -/
structure PDL (σ : PD) (l : Log) : Prop where
  wf : σ.wf = l.cur
  wrt : σ.wrt = true
  nn : NoNext l

theorem nextFile_none_iff (files : List Nat) (cur : Nat) : nextFile files cur = none ↔ ∀ f ∈ files, ¬ cur < f := by
  unfold nextFile
  rw [List.find?_eq_none]
  simp

/-- one buffer -/
theorem pd_writeBuf (g : Geom) (l : Log) (buf : Bytes) (σ : PD) (h : PDL σ l) :
    ∃ σ', pd σ (writeBuf g l buf).2 = some σ' ∧ PDL σ' (writeBuf g l buf).1 := by
  obtain ⟨hw, hwrt, hnn⟩ := h
  by_cases hb : buf = []
  · subst hb
    exact ⟨σ, by simp [writeBuf, pd], hw, hwrt, hnn⟩
  · by_cases hroll : l.off + buf.length > g.fileBytes
    · rw [L.writeBuf_roll_none g l buf hb hroll hnn]
      refine ⟨{ σ with wf := l.cur + 1, dirty := true, named := false, wrt := true, clean := false }, ?_, rfl, rfl, ?_⟩
      · simp [pd, pd1, hw, hwrt, hb]
      · show nextFile (l.files ++ [l.cur + 1]) (l.cur + 1) = none
        rw [nextFile_none_iff]
        have := (nextFile_none_iff _ _).mp hnn
        intro f hf
        rcases List.mem_append.mp hf with hf | hf
        · have := this f hf; omega
        · simp only [List.mem_singleton] at hf; omega
    · rw [L.writeBuf_noroll g l buf hb hroll]
      refine ⟨{ σ with dirty := true, wrt := true, clean := false }, ?_, hw, rfl, hnn⟩
      simp [pd, pd1, hw, hb]

/-- a list of buffers -/
theorem pd_writeBufs (g : Geom) (bufs : List Bytes) : ∀ (l : Log) (σ : PD), PDL σ l →
    ∃ σ', pd σ (writeBufs g l bufs).2 = some σ' ∧ PDL σ' (writeBufs g l bufs).1 := by
  induction bufs with
  | nil => intro l σ h; exact ⟨σ, rfl, h⟩
  | cons b bs ih =>
    intro l σ h
    obtain ⟨σ1, h1, p1⟩ := pd_writeBuf g l b σ h
    obtain ⟨σ2, h2, p2⟩ := ih _ σ1 p1
    refine ⟨σ2, ?_, by rw [Step.writeBufs_cons]; exact p2⟩
    rw [Step.writeBufs_cons]
    simp only
    rw [pd_append, h1]
    exact h2

theorem pd_writeEntry (g : Geom) (l : Log) (e : Entry) (σ : PD) (h : PDL σ l) :
    ∃ σ', pd σ (Log.writeEntry g l e).2.1 = some σ' ∧ PDL σ' (Log.writeEntry g l e).1 := by
  rw [Step.writeEntry_eq]
  exact pd_writeBufs g _ l σ h

theorem pd_writeTouches (g : Geom) (names : List Bytes) : ∀ (l : Log) (σ : PD), PDL σ l →
    ∃ σ', pd σ (writeTouches g l names).2.1 = some σ' ∧ PDL σ' (writeTouches g l names).1 := by
  induction names with
  | nil => intro l σ h; exact ⟨σ, rfl, h⟩
  | cons n ns ih =>
    intro l σ h
    obtain ⟨σ1, h1, p1⟩ := pd_writeEntry g l (Step.touchEntry l n) σ h
    obtain ⟨σ2, h2, p2⟩ := ih _ σ1 p1
    refine ⟨σ2, ?_, by rw [Step.writeTouches_cons]; exact p2⟩
    rw [Step.writeTouches_cons]
    simp only
    rw [pd_append, h1]
    exact h2

/-- `persist`: afterwards the buffer is empty; after `FlushAndFsync` everything is durable -/
theorem pd_persist (l : Log) (a : PersistAction) (σ : PD) (h : PDL σ l) :
    ∃ σ', pd σ (l.persistEffects a) = some σ' ∧ PDL σ' l ∧ σ'.clean = true ∧
      (a = .flushAndFsync → σ'.dirty = false ∧ σ'.named = true) := by
  obtain ⟨hw, hwrt, hnn⟩ := h
  cases a with
  | flush =>
    exact ⟨{ σ with clean := true }, by simp [persistEffects, pd, pd1], ⟨hw, hwrt, hnn⟩, rfl, fun hx => by cases hx⟩
  | flushAndFsync =>
    exact ⟨{ σ with clean := true, dirty := false, named := true }, by simp [persistEffects, pd, pd1, hw, hwrt],
      ⟨hw, hwrt, hnn⟩, rfl, fun _ => ⟨rfl, rfl⟩⟩

theorem PDL.congr {σ : PD} {l l' : Log} (h : PDL σ l) (hf : l'.files = l.files) (hc : l'.cur = l.cur) : PDL σ l' :=
  ⟨by rw [hc]; exact h.wf, h.wrt, by unfold NoNext; rw [hf, hc]; exact h.nn⟩

/-- unlinking files other than the current one, when everything is durable -/
theorem pd_unlinks (fs : List Nat) (σ : PD) (hne : ∀ f ∈ fs, f ≠ σ.wf) (hd : σ.dirty = false) (hn : σ.named = true)
    (hc : σ.clean = true) : pd σ (fs.map Effect.unlink) = some σ := by
  induction fs with
  | nil => rfl
  | cons f fs ih =>
    simp only [List.map_cons, pd, pd1]
    rw [if_pos ⟨hne f List.mem_cons_self, hd, hn, hc⟩]
    exact ih (fun f' hf' => hne f' (List.mem_cons_of_mem _ hf'))

/-- a GC pass -/
theorem pd_runGc (g : Geom) (l : Log) (order : List Bytes) (σ : PD) (h : PDL σ l) :
    ∃ σ', pd σ (runGc g l order).2.1 = some σ' ∧ PDL σ' (runGc g l order).1 := by
  rcases G.runGc_full g l order with ⟨h1, _⟩ | ⟨names, _, h2⟩
  · rw [h1]; exact ⟨σ, rfl, h⟩
  · rw [h2]
    simp only
    obtain ⟨σ1, q1, p1⟩ := pd_writeTouches g names l σ h
    obtain ⟨σ2, q2, p2, c2, a2⟩ := pd_persist (writeTouches g l names).1 .flushAndFsync σ1 p1
    obtain ⟨hd, hn⟩ := a2 rfl
    rcases hg : gcFiles ((writeTouches g l names).1.canDelete l.cur) (writeTouches g l names).1.files with ⟨rem, del⟩
    obtain ⟨hsplit, hcan, _⟩ := gcFiles_spec _ _ _ _ hg
    have hdel : ∀ f ∈ del, f ≠ σ2.wf := by
      intro f hf
      have := hcan f hf
      rw [p2.wf]
      intro e
      rw [e] at this
      simp [canDelete] at this
    refine ⟨σ2, ?_, ⟨p2.wf, p2.wrt, ?_⟩⟩
    · rw [pd_append, pd_append, q1]
      simp only [Option.bind_some]
      rw [q2]
      exact pd_unlinks del σ2 hdel hd hn c2
    · show nextFile rem (writeTouches g l names).1.cur = none
      rw [nextFile_none_iff]
      have := (nextFile_none_iff _ _).mp p2.nn
      intro f hf
      exact this f (by rw [hsplit]; exact List.mem_append_right _ hf)

/-- the sync tail of a call -/
theorem pd_tailSync (l : Log) (c : Call) (tick : Bool) (σ : PD) (h : PDL σ l) :
    ∃ σ', pd σ (Step.tailSync l c tick) = some σ' ∧ PDL σ' l := by
  unfold Step.tailSync
  split
  · obtain ⟨σ', h1, h2, _⟩ := pd_persist l .flushAndFsync σ h
    exact ⟨σ', h1, h2⟩
  · unfold policyEffects
    split
    · obtain ⟨σ', h1, h2, _⟩ := pd_persist l _ σ h
      exact ⟨σ', h1, h2⟩
    · split
      · obtain ⟨σ', h1, h2, _⟩ := pd_persist l _ σ h
        exact ⟨σ', h1, h2⟩
      · exact ⟨σ, rfl, h⟩
    · exact ⟨σ, rfl, h⟩

/-- **one call** -/
theorem pd_step (g : Geom) (l : Log) (c : Call) (tick : Bool) (order : List Bytes) (σ : PD) (h : PDL σ l) :
    ∃ σ', pd σ (l.step g c tick order).2.2 = some σ' ∧ PDL σ' (l.step g c tick order).1 := by
  rcases Step.step_shape2 g l c tick order with ⟨out, hs⟩ | ⟨a, _, hs⟩ | ⟨e, qs', out, hs⟩
  · rw [hs]; exact ⟨σ, rfl, h⟩
  · rw [hs]
    obtain ⟨σ', h1, h2, _⟩ := pd_persist l a σ h
    exact ⟨σ', h1, h2⟩
  · rw [hs]
    simp only
    obtain ⟨σ1, q1, p1⟩ := pd_writeEntry g l e σ h
    have p1' : PDL σ1 ({ (Log.writeEntry g l e).1 with queues := qs' } : Log) := p1.congr rfl rfl
    cases hgc : Step.isGcCall c with
    | false =>
      simp only [hgc, Bool.false_eq_true, if_false, List.append_nil]
      obtain ⟨σ3, q3, p3⟩ := pd_tailSync _ c tick σ1 p1'
      exact ⟨σ3, by rw [pd_append, q1]; exact q3, p3⟩
    | true =>
      simp only [hgc, if_true]
      obtain ⟨σ2, q2, p2⟩ := pd_runGc g _ order σ1 p1'
      obtain ⟨σ3, q3, p3⟩ := pd_tailSync _ c tick σ2 p2
      refine ⟨σ3, ?_, p3⟩
      rw [pd_append, pd_append, q1]
      simp only [Option.bind_some]
      rw [q2]
      exact q3

/-- **a run of calls** -/
theorem pd_effsD (g : Geom) (cs : List (Call × Bool × List Bytes)) : ∀ (l : Log) (σ : PD), PDL σ l →
    ∃ σ', pd σ (effsD g l cs) = some σ' ∧ PDL σ' (logD g l cs) := by
  induction cs with
  | nil => intro l σ h; exact ⟨σ, rfl, h⟩
  | cons x cs ih =>
    intro l σ h
    obtain ⟨c, tick, order⟩ := x
    obtain ⟨σ1, q1, p1⟩ := pd_step g l c tick order σ h
    obtain ⟨σ2, q2, p2⟩ := ih _ σ1 p1
    refine ⟨σ2, ?_, p2⟩
    simp only [effsD]
    rw [pd_append, q1]
    exact q2

/-- effects ending with `flush, fsync(file), fsync(dir)`: everything is durable -/
theorem pd_triple_end (σ σ' : PD) (pre : List Effect) (f : Nat)
    (h : pd σ (pre ++ [.flush, .fsyncFile f, .fsyncDir]) = some σ') : σ'.dirty = false ∧ σ'.named = true := by
  rw [pd_append] at h
  cases h1 : pd σ pre with
  | none => rw [h1] at h; cases h
  | some σ1 =>
    rw [h1] at h
    simp only [Option.bind_some, pd, pd1] at h
    split at h
    · simp only [Option.bind_some] at h
      split at h
      · rename_i hc
        simp only [Option.bind_some, Option.some.injEq] at h
        subst h
        exact ⟨rfl, rfl⟩
      · cases h
    · cases h

end MRL.P
