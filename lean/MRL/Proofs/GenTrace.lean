/-
C08 (genuineness), the reassembly half: an event list in which every frame event is a genuine
frame of the layout, frames appear in layout order, and two frame events with no corrupt event
between them are adjacent frames of the layout (`Trace`), is reassembled into a SUB-SEQUENCE of
the written entries.
-/
import MRL.Proofs.TornDamage

namespace MRL.Gen
open MRL Consts Codec Torn

/-- `Trace f R tight evs`: the events `evs` (all of file `f`) against the frames `R` of the layout
    that lie ahead. A frame event is the head of `R`; frames of `R` may be skipped only when a
    corrupt event occurred since the last frame event (`tight = false`). -/
inductive Trace (f : Nat) : List Frm → Bool → List RdEv → Prop
  | nil {R : List Frm} {tight : Bool} : Trace f R tight []
  | corrupt {R : List Frm} {tight : Bool} {evs : List RdEv} :
      Trace f R false evs → Trace f R tight (RdEv.corrupt f :: evs)
  | frame {R' : List Frm} {tight : Bool} {evs : List RdEv} {t : FrameType} {p : Bytes} :
      Trace f R' true evs → Trace f ((t, p) :: R') tight (RdEv.frame f t p :: evs)
  | skip {R' sk : List Frm} {evs : List RdEv} :
      Trace f R' false evs → Trace f (sk ++ R') false evs

/-- the frames ahead, outside an entry: the rest of a group (Middle/Last frames), then whole
    groups for the entries `esR` -/
def Shape (R : List Frm) (esR : List Bytes) : Prop :=
  ∃ junk GR, R = junk ++ GR ∧ (junk = [] ∨ EntryFrames false junk) ∧ EntriesFrames esR GR

theorem tail_of_group {b : Bool} {a : Frm} {l : List Frm} (h : EntryFrames b (a :: l)) :
    l = [] ∨ EntryFrames false l := by
  have h' : a.1 = FrameType.ofFlags b l.isEmpty ∧ (l ≠ [] → EntryFrames false l) := h
  by_cases hl : l = []
  · exact Or.inl hl
  · exact Or.inr (h'.2 hl)

/-- dropping one frame ahead -/
theorem Shape.drop_one {a : Frm} {R : List Frm} {esR : List Bytes} (h : Shape (a :: R) esR) :
    ∃ esR', Shape R esR' ∧ List.Sublist esR' esR := by
  obtain ⟨junk, GR, hR, hj, hG⟩ := h
  cases junk with
  | cons b junk1 =>
    simp only [List.cons_append, List.cons.injEq] at hR
    obtain ⟨rfl, rfl⟩ := hR
    rcases hj with hj | hj
    · cases hj
    · exact ⟨esR, ⟨junk1, GR, rfl, tail_of_group hj, hG⟩, List.Sublist.refl _⟩
  | nil =>
    simp only [List.nil_append] at hR
    cases hG with
    | nil => cases hR
    | @cons e es fs fss h1 h2 h3 =>
      cases fs with
      | nil => exact h1.elim
      | cons b gs =>
        simp only [List.cons_append, List.cons.injEq] at hR
        obtain ⟨rfl, rfl⟩ := hR
        exact ⟨es, ⟨gs, fss, rfl, tail_of_group h1, h3⟩, List.sublist_cons_self _ _⟩

theorem Shape.drop {sk R : List Frm} : ∀ {esR : List Bytes}, Shape (sk ++ R) esR →
    ∃ esR', Shape R esR' ∧ List.Sublist esR' esR := by
  induction sk with
  | nil => intro esR h; exact ⟨esR, h, List.Sublist.refl _⟩
  | cons a sk ih =>
    intro esR h
    obtain ⟨es1, h1, s1⟩ := Shape.drop_one h
    obtain ⟨es2, h2, s2⟩ := ih h1
    exact ⟨es2, h2, s2.trans s1⟩

theorem entriesOf_cons_entry (a : Nat) (b : Bytes) (l : List RecEv) :
    entriesOf (RecEv.entry a b :: l) = RecEv.entry a b :: entriesOf l := rfl

theorem entriesOf_cons_corrupt (l : List RecEv) : entriesOf (RecEv.corrupt :: l) = entriesOf l := rfl

/-- **reassembly of a trace** -/
theorem asm_trace (f : Nat) {R : List Frm} {tight : Bool} {evs : List RdEv} (h : Trace f R tight evs) :
    ∀ st : AsmSt, st.attr = f →
      (st.within = false → ∀ esR, Shape R esR →
        List.Sublist (entriesOf (assemble st evs)) (esR.map (RecEv.entry f))) ∧
      (st.within = true → tight = true → ∀ (e : Bytes) (gt GR : List Frm) (esR : List Bytes),
        R = gt ++ GR → gt ≠ [] → EntryFrames false gt → st.buf ++ payloadOf gt = e → EntriesFrames esR GR →
        List.Sublist (entriesOf (assemble st evs)) ((e :: esR).map (RecEv.entry f))) := by
  induction h with
  | nil => intro st _; exact ⟨fun _ _ _ => by simp [assemble, entriesOf], fun _ _ _ _ _ _ _ _ _ _ _ => by simp [assemble, entriesOf]⟩
  | @corrupt R tight evs _ ih =>
    intro st hst
    have hstep : assemble st (RdEv.corrupt f :: evs) =
        RecEv.corrupt :: assemble { within := false, buf := st.buf, attr := f } evs := rfl
    rw [hstep, entriesOf_cons_corrupt]
    obtain ⟨ihA, _⟩ := ih { within := false, buf := st.buf, attr := f } rfl
    refine ⟨fun _ esR hS => ihA rfl esR hS, fun _ _ e gt GR esR hR _ hE _ hG => ?_⟩
    have := ihA rfl esR ⟨gt, GR, hR, Or.inr hE, hG⟩
    exact this.trans (by simp)
  | @frame R' tight evs t p _ ih =>
    intro st hst
    constructor
    · -- outside an entry
      intro hw esR hS
      obtain ⟨junk, GR, hR, hj, hG⟩ := hS
      cases junk with
      | cons b junk1 =>
        -- a Middle/Last frame of a group already given up: ignored
        simp only [List.cons_append, List.cons.injEq] at hR
        obtain ⟨rfl, rfl⟩ := hR
        rcases hj with hj | hj
        · cases hj
        · have hj' : t = FrameType.ofFlags false junk1.isEmpty ∧ (junk1 ≠ [] → EntryFrames false junk1) := hj
          have hfirst : t.isFirst = false := by rw [hj'.1]; cases junk1.isEmpty <;> rfl
          have hstep : assemble st (RdEv.frame f t p :: evs) = assemble st evs := by
            simp only [assemble, hw, hfirst, Bool.or_false, Bool.false_eq_true, if_false]
          rw [hstep]
          exact (ih st hst).1 hw esR ⟨junk1, GR, rfl, tail_of_group hj, hG⟩
      | nil =>
        simp only [List.nil_append] at hR
        cases hG with
        | nil => cases hR
        | @cons e es fs fss h1 h2 h3 =>
          cases fs with
          | nil => exact h1.elim
          | cons b gs =>
            simp only [List.cons_append, List.cons.injEq] at hR
            obtain ⟨rfl, rfl⟩ := hR
            have h1' : t = FrameType.ofFlags true gs.isEmpty ∧ (gs ≠ [] → EntryFrames false gs) := h1
            have hfirst : t.isFirst = true := by rw [h1'.1]; cases gs.isEmpty <;> rfl
            have hw2 : (st.within || t.isFirst) = true := by rw [hfirst]; simp
            cases gs with
            | nil =>
              -- a Full frame: its entry is delivered
              have hlast : t.isLast = true := by rw [h1'.1]; rfl
              rw [assemble_last st f t p evs hlast hw2, hfirst, entriesOf_cons_entry, hst]
              have hp : p = e := by simpa [payloadOf] using h2
              simp only [if_true, List.nil_append, hp, List.map_cons]
              exact List.Sublist.cons_cons _ ((ih _ rfl).1 rfl es ⟨[], fss, rfl, Or.inl rfl, h3⟩)
            | cons b2 gs2 =>
              -- a First frame: inside the entry from now on
              have hlast : t.isLast = false := by rw [h1'.1]; rfl
              rw [assemble_more st f t p evs hlast hw2, hfirst]
              simp only [if_true, List.nil_append]
              exact (ih { within := true, buf := p, attr := st.attr } hst).2 rfl rfl e (b2 :: gs2) fss es rfl
                (by simp) (h1'.2 (by simp)) (by simpa [payloadOf] using h2) h3
    · -- inside an entry: the frame is the next one of the group
      intro hw _ e gt GR esR hR hne hE hbuf hG
      cases gt with
      | nil => exact absurd rfl hne
      | cons b gt1 =>
        simp only [List.cons_append, List.cons.injEq] at hR
        obtain ⟨rfl, rfl⟩ := hR
        have hE' : t = FrameType.ofFlags false gt1.isEmpty ∧ (gt1 ≠ [] → EntryFrames false gt1) := hE
        have hfirst : t.isFirst = false := by rw [hE'.1]; cases gt1.isEmpty <;> rfl
        have hw2 : (st.within || t.isFirst) = true := by rw [hw]; simp
        cases gt1 with
        | nil =>
          have hlast : t.isLast = true := by rw [hE'.1]; rfl
          rw [assemble_last st f t p evs hlast hw2, hfirst, entriesOf_cons_entry, hst]
          have hp : st.buf ++ p = e := by simpa [payloadOf] using hbuf
          simp only [Bool.false_eq_true, if_false, hp, List.map_cons]
          exact List.Sublist.cons_cons _ ((ih _ rfl).1 rfl esR ⟨[], GR, rfl, Or.inl rfl, hG⟩)
        | cons b2 gt2 =>
          have hlast : t.isLast = false := by rw [hE'.1]; rfl
          rw [assemble_more st f t p evs hlast hw2, hfirst]
          simp only [Bool.false_eq_true, if_false]
          exact (ih { within := true, buf := st.buf ++ p, attr := st.attr } hst).2 rfl rfl e (b2 :: gt2) GR esR rfl
            (by simp) (hE'.2 (by simp)) (by simpa [payloadOf, List.append_assoc] using hbuf) hG
  | @skip R' sk evs _ ih =>
    intro st hst
    refine ⟨fun hw esR hS => ?_, fun _ ht => by cases ht⟩
    obtain ⟨esR', hS', hsub⟩ := Shape.drop hS
    exact ((ih st hst).1 hw esR' hS').trans (hsub.map _)

/-- from the initial state: the delivered entries are a sub-sequence of the entries -/
theorem asm_trace_init (f : Nat) (es : List Bytes) (fs : List Frm) (hG : EntriesFrames es fs) (tight : Bool)
    (evs : List RdEv) (h : Trace f fs tight evs) :
    List.Sublist (entriesOf (assemble { within := false, buf := [], attr := f } evs)) (es.map (RecEv.entry f)) :=
  (asm_trace f h _ rfl).1 rfl es ⟨[], fs, rfl, Or.inl rfl, hG⟩

end MRL.Gen
