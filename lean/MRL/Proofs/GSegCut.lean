/-
A GC pass on the disk: after unlinking the first `k` tracked files the invariant holds again with
first file `F + k`: the frames left are the tail of the entry straddling the cut (now "lead"
frames) followed by the segments of the journal entries located at or after `F + k`.
Also: the touches written by the GC pass.
-/
import MRL.Proofs.GCut
import MRL.Proofs.JSuffix

namespace MRL.G
open MRL Codec Consts Log

theorem append_split {α} (P : α → Prop) (X Y A B : List α) (h : X ++ Y = A ++ B)
    (hA : ∀ a ∈ A, P a) (hY : ∀ y ∈ Y, ¬ P y) : ∃ X', X = A ++ X' ∧ B = X' ++ Y := by
  rcases List.append_eq_append_iff.mp h with ⟨a', h1, h2⟩ | ⟨c', h1, h2⟩
  · have : a' = [] := by
      cases a' with
      | nil => rfl
      | cons x xs =>
        exfalso
        exact hY x (by rw [h2]; simp) (hA x (by rw [h1]; simp))
    subst this
    exact ⟨[], by simpa using h1.symm, by simpa using h2.symm⟩
  · exact ⟨c', h1, h2⟩

theorem entryFrames_false_nonfirst : ∀ (fs : List Frm), EntryFrames false fs → ∀ fr ∈ fs, fr.1.isFirst = false := by
  intro fs
  induction fs with
  | nil => intro h; exact h.elim
  | cons x fs ih =>
    intro h fr hfr
    rcases List.mem_cons.mp hfr with rfl | hfr
    · rw [h.1]; cases fs.isEmpty <;> rfl
    · cases fs with
      | nil => cases hfr
      | cons y ys => exact ih (h.2 (by simp)) fr hfr

theorem seg_tail_nonfirst (hd : TFrm) (tl : List TFrm) (h : EntryFrames true (untag (hd :: tl))) :
    ∀ a ∈ tl, a.2.1.isFirst = false := by
  intro a ha
  cases tl with
  | nil => cases ha
  | cons y ys =>
    have h2 := h.2 (by simp [untag])
    exact entryFrames_false_nonfirst _ h2 a.2 (List.mem_map_of_mem (f := fun x : TFrm => x.2) ha)

theorem sublist_flatMap_of_mem {segs : List Seg} {s : Seg} (h : s ∈ segs) :
    s.2.Sublist (segs.flatMap (·.2)) := by
  induction segs with
  | nil => cases h
  | cons x segs ih =>
    rw [List.flatMap_cons]
    rcases List.mem_cons.mp h with rfl | h
    · exact List.sublist_append_left _ _
    · exact (ih h).trans (List.sublist_append_right _ _)

theorem Chain_dropWhile (P : Seg → Bool) : ∀ segs : List Seg, Chain segs → Chain (segs.dropWhile P) := by
  intro segs
  induction segs with
  | nil => intro h; exact h
  | cons s segs ih =>
    intro h
    rw [List.dropWhile_cons]
    split
    · exact ih h.tail
    · exact h

theorem segs_cut {F F' : Nat} {J : List JE} {afs fa fb : List TFrm} (hF : F ≤ F')
    (hmono : J.Pairwise (fun a b => a.loc ≤ b.loc)) (hS : Segs F J afs) (hsplit : afs = fa ++ fb)
    (hfa : ∀ a ∈ fa, a.1 < F') (hfb : ∀ a ∈ fb, F' ≤ a.1) (hpw : afs.Pairwise (fun a b => a.1 ≤ b.1)) :
    Segs F' J fb := by
  obtain ⟨lead, segs, hafs, hlead, hmap, hsok, hchain⟩ := hS
  let P : Seg → Bool := fun s => decide (s.1.loc < F')
  have hsegmono : segs.Pairwise (fun a b => a.1.loc ≤ b.1.loc) := by
    have h1 : (segs.map (·.1)).Pairwise (fun a b => a.loc ≤ b.loc) := by
      rw [hmap]; exact hmono.sublist List.filter_sublist
    rw [List.pairwise_map] at h1; exact h1
  have hclosed : segs.Pairwise (fun a b => P b = true → P a = true) := by
    refine hsegmono.imp ?_
    intro a b hab; simp only [P, decide_eq_true_eq]; omega
  have hA : ∀ s ∈ segs.takeWhile P, s.1.loc < F' := by
    intro s hs; simpa [P] using mem_takeWhile_sat P _ s hs
  have hBf : segs.dropWhile P = segs.filter (fun s => !P s) := dropWhile_eq_filter_of_pairwise _ _ hclosed
  have hB : ∀ s ∈ segs.dropWhile P, F' ≤ s.1.loc ∧ s ∈ segs := by
    intro s hs
    rw [hBf] at hs
    have := List.mem_filter.mp hs
    refine ⟨?_, this.1⟩
    have h2 := this.2
    simp only [P, Bool.not_eq_eq_eq_not, Bool.not_true, decide_eq_false_iff_not] at h2
    omega
  have hsegs : segs = segs.takeWhile P ++ segs.dropWhile P := List.takeWhile_append_dropWhile.symm
  -- every frame of a retained segment has a tag ≥ F'
  have hY : ∀ y ∈ (segs.dropWhile P).flatMap (·.2), ¬ y.1 < F' := by
    intro y hy
    obtain ⟨s, hs, hys⟩ := List.mem_flatMap.mp hy
    obtain ⟨hloc, hsm⟩ := hB s hs
    have hso := hsok s hsm
    have hsub : s.2.Pairwise (fun a b => a.1 ≤ b.1) := by
      refine hpw.sublist ?_
      rw [hafs]
      exact (sublist_flatMap_of_mem hsm).trans (List.sublist_append_right _ _)
    cases hs2 : s.2 with
    | nil => rw [hs2] at hys; cases hys
    | cons hd tl =>
      rw [hs2] at hys hsub
      have hhd : hd.1 = s.1.loc := hso.first hd (by rw [hs2]; rfl)
      rcases List.mem_cons.mp hys with rfl | hy
      · omega
      · have := (List.pairwise_cons.mp hsub).1 y hy; omega
  have heq : (lead ++ (segs.takeWhile P).flatMap (·.2)) ++ (segs.dropWhile P).flatMap (·.2) = fa ++ fb := by
    rw [← hsplit, hafs, List.append_assoc, ← List.flatMap_append, ← hsegs]
  obtain ⟨X', hX, hfbeq⟩ := append_split (fun a : TFrm => a.1 < F') _ _ _ _ heq hfa hY
  refine ⟨X', segs.dropWhile P, hfbeq, ?_, ?_, fun s hs => hsok s (hB s hs).2, Chain_dropWhile P segs hchain⟩
  · intro a ha
    have hge : F' ≤ a.1 := hfb a (by rw [hfbeq]; exact List.mem_append_left _ ha)
    have hin : a ∈ lead ++ (segs.takeWhile P).flatMap (·.2) := by rw [hX]; exact List.mem_append_right _ ha
    rcases List.mem_append.mp hin with h | h
    · exact hlead a h
    · obtain ⟨s, hs, has⟩ := List.mem_flatMap.mp h
      have hloc := hA s hs
      have hso := hsok s (by rw [hsegs]; exact List.mem_append_left _ hs)
      cases hs2 : s.2 with
      | nil => rw [hs2] at has; cases has
      | cons hd tl =>
        rw [hs2] at has
        have hhd : hd.1 = s.1.loc := hso.first hd (by rw [hs2]; rfl)
        rcases List.mem_cons.mp has with rfl | hy
        · omega
        · have hfr := hso.frames
          rw [hs2] at hfr
          exact seg_tail_nonfirst hd tl hfr a hy
  · have hJ : J.filter (fun j => decide (F' ≤ j.loc)) =
        (J.filter (fun j => decide (F ≤ j.loc))).filter (fun j => decide (F' ≤ j.loc)) := by
      rw [List.filter_filter]
      apply List.filter_congr
      intro j _
      by_cases h1 : F' ≤ j.loc
      · have : F ≤ j.loc := by omega
        simp [h1, this]
      · simp [h1]
    rw [hBf, hJ, ← hmap, List.filter_map]
    congr 1
    apply List.filter_congr
    intro s _
    by_cases h1 : F' ≤ s.1.loc
    · have : ¬ s.1.loc < F' := by omega
      simp [P, h1, this]
    · have : s.1.loc < F' := by omega
      simp [P, h1, this]

theorem flatten_drop_full (fb : Nat) : ∀ (cs : List Bytes) (k : Nat), (∀ c ∈ cs, c.length = fb) →
    k ≤ cs.length → cs.flatten.drop (k * fb) = (cs.drop k).flatten
  | cs, 0, _, _ => by simp
  | [], k + 1, _, h => by simp at h
  | c :: cs, k + 1, hf, h => by
    have hc : c.length = fb := hf c List.mem_cons_self
    rw [List.flatten_cons, Nat.add_mul, Nat.one_mul, Nat.add_comm, ← List.drop_drop,
      show fb = c.length from hc.symm, List.drop_left' rfl, List.drop_succ_cons, hc]
    exact flatten_drop_full fb cs k (fun c' hc' => hf c' (List.mem_cons_of_mem _ hc')) (by simpa using h)

/-- unlinking the first `k` tracked files -/
theorem gc_disk (g : Geom) {l : Log} {D : Image} {F : Nat} {init : List Bytes} {t : Bytes}
    {J : List JE} {afs : List TFrm} (hT : Tape g l D F init t) (hL : FLay g F (init.flatten ++ t) afs)
    (hS : Segs F J afs) (hC : CurTag afs l.cur) (hmono : J.Pairwise (fun a b => a.loc ≤ b.loc))
    (k : Nat) (hk : k ≤ init.length) :
    ∃ afs', Tape g { l with files := List.range' (F + k) (init.length + 1 - k) }
        (applyOsOps D ((List.range' F k).map OsOp.unlink)) (F + k) (init.drop k) t ∧
      FLay g (F + k) ((init.drop k).flatten ++ t) afs' ∧ Segs (F + k) J afs' ∧ CurTag afs' l.cur ∧
      ((init.flatten ++ t).length = endPos g 0 (untag afs) →
        ((init.drop k).flatten ++ t).length = endPos g 0 (untag afs')) := by
  have hfb := fileBytes_pos g
  have hPl := hT.P_length
  have hE := layout0_length g (untag afs) hL.fits
  -- the cut lies inside the frames
  have hcut : k * g.fileBytes ≤ endPos g 0 (untag afs) := by
    have hkl : k * g.fileBytes ≤ init.length * g.fileBytes := Nat.mul_le_mul_right _ hk
    rcases hL.len with h1 | h1
    · omega
    · apply Classical.byContradiction
      intro hn
      have hlt : endPos g 0 (untag afs) < k * g.fileBytes := by omega
      have hle := hdrPos_le_block g _ _ (mul_fileBytes_mod g k) hlt
      have hkeq : init.length * g.fileBytes = k * g.fileBytes := by omega
      cases hafs : afs.getLast? with
      | none =>
        rw [List.getLast?_eq_none_iff] at hafs
        subst hafs
        simp only [untag, List.map_nil, endPos] at h1 hlt hle
        have : hdrPos g 0 = 0 := by
          unfold hdrPos; rw [Nat.zero_mod, if_neg (by have := Bpos g; omega)]
        omega
      | some a =>
        have hc := hC a hafs
        obtain ⟨h, _, h2, h3⟩ := tag_pos g F afs 0 hL.tagged a (List.mem_of_getLast? hafs)
        rw [hT.cur] at hc
        have : h / g.fileBytes < init.length := by
          rw [Nat.div_lt_iff_lt_mul hfb]; omega
        omega
  obtain ⟨fa, fb, e1, e2, e3, e4, e5, e6⟩ :=
    layout_cut g F k afs 0 (Nat.zero_le _) hcut (by rw [zero_mod]; exact hL.fits) hL.tagged
  rw [zero_mod, Nat.sub_zero] at e2
  have hshift := endPos_shift g (k * g.fileBytes) (mul_fileBytes_mod g k) (untag fb) 0
  rw [Nat.zero_add, e5] at hshift
  have hPdrop : ((init.drop k).flatten ++ t) = (init.flatten ++ t).drop (k * g.fileBytes) := by
    rw [List.drop_append_of_le_length (by
      rw [flatten_length_full _ _ hT.full]; exact Nat.mul_le_mul_right _ hk),
      flatten_drop_full _ _ _ hT.full hk]
  have hlen' : ((init.drop k).flatten ++ t).length = (init.flatten ++ t).length - k * g.fileBytes := by
    rw [hPdrop, List.length_drop]
  refine ⟨fb, ⟨?_, ?_, hT.tlen, hT.off_le, ?_, ?_⟩, ⟨?_, e3, ?_, ?_⟩, ?_, ?_,
    fun h1 => by rw [hlen']; omega⟩
  · show applyOsOps D _ = _
    rw [hT.img, unlink_prefix k _ F (by simp; omega), List.drop_append_of_le_length hk]
  · intro c hc; exact hT.full c (List.mem_of_mem_drop hc)
  · show List.range' (F + k) (init.length + 1 - k) = _
    rw [List.length_drop]; congr 1; omega
  · show l.cur = _
    rw [hT.cur, List.length_drop]; omega
  · -- bytes
    rw [hlen', hPdrop]
    conv => lhs; rw [hL.bytes]
    rw [List.drop_append_of_le_length (by rw [hE]; exact hcut), e2]
    congr 2
    omega
  · have := (Tagged_shift g F k fb 0).mp (by rw [Nat.zero_add]; exact e4)
    exact this
  · rw [hlen']
    rcases hL.len with h1 | h1
    · left; omega
    · right
      rw [h1, hshift, hdrPos_shift g _ _ (mul_fileBytes_mod g k)]
      omega
  · have hfbtags : ∀ a ∈ fb, F + k ≤ a.1 := by
      intro a ha
      have ht := (Tagged_shift g F k fb 0).mp (by rw [Nat.zero_add]; exact e4)
      obtain ⟨h, _, _, h3⟩ := tag_pos g (F + k) fb 0 ht a ha
      rw [h3]; exact Nat.le_add_right _ _
    exact segs_cut (Nat.le_add_right F k) hmono hS e1 e6 hfbtags (tags_mono g F afs 0 hL.tagged)
  · intro a ha
    apply hC a
    rw [e1, List.getLast?_append, ha]
    rfl

end MRL.G
