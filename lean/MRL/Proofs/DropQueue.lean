/-
C09 (replay level): `replayEntry` seen from one queue name (`opQ`), and what the queue operations
do to positions and payloads (file handles ignored).
-/
import MRL.Proofs.DropRun
import MRL.Proofs.RecReplay

namespace MRL.Drop
open MRL Log C05 Rec

/-- what `replayEntry` does to the queue the entry addresses; outer `none` = failure -/
def opQ (x : Option MemQueue) (f : Nat) : Entry → Option (Option MemQueue)
  | .append _ pos recs => (appendAll (x.getD (MemQueue.withNextPosition pos)) f recs).map some
  | .truncate _ p => some (x.map fun y => (y.truncateHead p).1)
  | .touch _ p => some (some (MemQueue.withNextPosition p))
  | .delete _ _ => some none

theorem replayEntry_opQ {qs qs' : MemQueues} {f : Nat} {e : Entry} (h : replayEntry qs f e = some qs') :
    opQ (qs.get? e.queue) f e = some (qs'.get? e.queue) ∧ ∀ n, n ≠ e.queue → qs'.get? n = qs.get? n := by
  cases e with
  | touch q p =>
    simp only [replayEntry, Option.some.injEq] at h; subst h
    exact ⟨by simp [opQ, Entry.queue, MemQueues.get?_ackPosition_same],
      fun n hn => MemQueues.get?_ackPosition_other _ _ _ _ hn⟩
  | delete q p =>
    simp only [replayEntry, Option.some.injEq] at h; subst h
    exact ⟨by simp [opQ, Entry.queue, MemQueues.get?_remove_same],
      fun n hn => MemQueues.get?_remove_other _ _ _ hn⟩
  | truncate q p =>
    simp only [replayEntry] at h
    cases hg : qs.get? q with
    | none =>
      rw [hg] at h; cases h
      exact ⟨by simp [opQ, Entry.queue, hg], fun _ _ => rfl⟩
    | some mq =>
      rw [hg] at h; cases h
      exact ⟨by simp [opQ, Entry.queue, hg, MemQueues.get?_set_same],
        fun n hn => MemQueues.get?_set_other _ _ _ _ hn⟩
  | append q pos recs =>
    simp only [replayEntry] at h
    have hget : (if qs.contains q then qs else qs.ackPosition q pos).get? q =
        some ((qs.get? q).getD (MemQueue.withNextPosition pos)) := by
      cases hg : qs.get? q with
      | none =>
        have : qs.contains q = false := by rw [MemQueues.contains_isSome, hg]; rfl
        simp [this, MemQueues.get?_ackPosition_same]
      | some mq =>
        have : qs.contains q = true := by rw [MemQueues.contains_isSome, hg]; rfl
        simp [this, hg]
    have hother : ∀ n, n ≠ q → (if qs.contains q then qs else qs.ackPosition q pos).get? n = qs.get? n := by
      intro n hn
      split
      · rfl
      · exact MemQueues.get?_ackPosition_other _ _ _ _ hn
    rw [hget] at h
    simp only at h
    cases ha : appendAll ((qs.get? q).getD (MemQueue.withNextPosition pos)) f recs with
    | none => rw [ha] at h; cases h
    | some mq' =>
      rw [ha] at h
      simp only [Option.map_some, Option.some.injEq] at h
      subst h
      refine ⟨by simp [opQ, Entry.queue, ha, MemQueues.get?_set_same], fun n hn => ?_⟩
      have hn' : n ≠ q := hn
      rw [MemQueues.get?_set_other _ _ _ _ hn']; exact hother n hn'

theorem opQ_replayEntry {qs : MemQueues} {f : Nat} {e : Entry} {r : Option MemQueue}
    (h : opQ (qs.get? e.queue) f e = some r) :
    ∃ qs', replayEntry qs f e = some qs' ∧ qs'.get? e.queue = r ∧ ∀ n, n ≠ e.queue → qs'.get? n = qs.get? n := by
  have key : ∃ qs', replayEntry qs f e = some qs' := by
    cases e with
    | touch q p => exact ⟨_, rfl⟩
    | delete q p => exact ⟨_, rfl⟩
    | truncate q p =>
      simp only [replayEntry]
      cases qs.get? q <;> exact ⟨_, rfl⟩
    | append q pos recs =>
      simp only [opQ, Entry.queue] at h
      have hget : (if qs.contains q then qs else qs.ackPosition q pos).get? q =
          some ((qs.get? q).getD (MemQueue.withNextPosition pos)) := by
        cases hg : qs.get? q with
        | none =>
          have : qs.contains q = false := by rw [MemQueues.contains_isSome, hg]; rfl
          simp [this, MemQueues.get?_ackPosition_same]
        | some mq =>
          have : qs.contains q = true := by rw [MemQueues.contains_isSome, hg]; rfl
          simp [this, hg]
      simp only [replayEntry, hget]
      cases ha : appendAll ((qs.get? q).getD (MemQueue.withNextPosition pos)) f recs with
      | none => rw [ha] at h; cases h
      | some mq' => exact ⟨_, rfl⟩
  obtain ⟨qs', hqs⟩ := key
  obtain ⟨h1, h2⟩ := replayEntry_opQ hqs
  rw [h] at h1
  exact ⟨qs', hqs, (Option.some.inj h1).symm, h2⟩

/-! ### positions and payloads -/

theorem plain_wnp (p : Nat) : plain (MemQueue.withNextPosition p) = [] := rfl
theorem next_wnp (p : Nat) : (MemQueue.withNextPosition p).nextPosition = p := rfl

/-- a well-formed batch at or above the next position is appended -/
theorem appendAll_ok (q : MemQueue) (f pos : Nat) (pls : List Bytes) (hq : QInv q) (hp : q.nextPosition ≤ pos)
    (hne : pls ≠ []) :
    ∃ q', appendAll q f (numberFrom pos pls) = some q' ∧ plain q' = plain q ++ numberFrom pos pls ∧
      q'.nextPosition = pos + pls.length := by
  obtain ⟨q', h1, h2, h3, _, _⟩ := appendAll_spec f pls q pos hq.1 hq.2 hp
  exact ⟨q', h1, h2, h3 hne⟩

/-- a successful non-empty batch was at or above the next position -/
theorem appendAll_le {q q' : MemQueue} {f pos : Nat} {pls : List Bytes} (hne : pls ≠ [])
    (h : appendAll q f (numberFrom pos pls) = some q') : q.nextPosition ≤ pos := by
  cases pls with
  | nil => exact absurd rfl hne
  | cons p ps =>
    simp only [numberFrom, appendAll] at h
    cases h1 : q.appendRecord f pos p with
    | none => rw [h1] at h; cases h
    | some q1 => exact appendRecord_some_le h1

theorem truncate_plain (q : MemQueue) (p : Nat) (hq : QInv q) :
    plain (q.truncateHead p).1 = (plain q).filter (fun r => decide (p < r.1)) ∧
    (q.truncateHead p).1.nextPosition = max q.nextPosition (p + 1) := by
  obtain ⟨h1, h2, _, _, _⟩ := MemQueue.truncateHead_spec q p hq.1 hq.2
  refine ⟨?_, h2⟩
  unfold plain
  rw [h1, List.filter_map]
  rfl

end MRL.Drop
