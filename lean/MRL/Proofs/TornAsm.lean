/-
Reassembly over a crash image (C02, C09): whole groups of frames give their entries, a proper
prefix of a group gives nothing, a corrupt event resets; what follows (the frames of entries
written after recovery) is reassembled from whatever state is left.
-/
import MRL.Proofs.TornRead

namespace MRL.Torn
open MRL Consts Codec

/-- the entries among record events (corrupt events dropped) -/
def entriesOf (l : List RecEv) : List RecEv :=
  l.filter fun ev => match ev with | .entry _ _ => true | .corrupt => false

theorem entriesOf_append (a b : List RecEv) : entriesOf (a ++ b) = entriesOf a ++ entriesOf b := by
  simp [entriesOf]

theorem entriesOf_entries (f : Nat) (es : List Bytes) : entriesOf (es.map (RecEv.entry f)) = es.map (RecEv.entry f) := by
  induction es with
  | nil => rfl
  | cons e es ih => simp only [List.map_cons, entriesOf, List.filter_cons]; simp

theorem tagEvs_good (f : Nat) (fs : List Frm) : tagEvs f ((fs.map good).map Raw.ev) = tagF f fs := by
  induction fs with
  | nil => rfl
  | cons fr fs ih => simp only [List.map_cons, good_ev, tagEvs, ih, tagF]

/-- whole groups: their entries, then the rest from a state that is again attributed to `f` -/
theorem asm_groups (f : Nat) {es : List Bytes} {G : List Frm} (h : EntriesFrames es G) :
    ∀ (st : AsmSt) (evs : List RdEv), st.attr = f →
      ∃ st', st'.attr = f ∧ assemble st (tagF f G ++ evs) = es.map (RecEv.entry f) ++ assemble st' evs := by
  induction h with
  | nil => intro st evs hst; exact ⟨st, hst, by simp [tagF]⟩
  | cons h1 h2 _ ih =>
    intro st evs hst
    rw [tagF_append, List.append_assoc, assemble_entryFrames f _ true st _ h1 (Or.inl rfl)]
    obtain ⟨st', hs', he⟩ := ih { within := false, buf := (if true = true then [] else st.buf) ++ payloadOf _, attr := f } evs rfl
    refine ⟨st', hs', ?_⟩
    rw [he, hst]
    simp [h2]

/-- a proper prefix of a group delivers nothing -/
theorem asm_partial (f : Nat) (gp : List Frm) : ∀ (b : Bool) (gs : List Frm) (st : AsmSt) (evs : List RdEv),
    gs ≠ [] → EntryFrames b (gp ++ gs) → (b = true ∨ st.within = true) → st.attr = f →
    ∃ st', st'.attr = f ∧ assemble st (tagF f gp ++ evs) = assemble st' evs := by
  induction gp with
  | nil => intro b gs st evs _ _ _ hst; exact ⟨st, hst, by simp [tagF]⟩
  | cons fr gp ih =>
    intro b gs st evs hgs hE hw hst
    obtain ⟨t, p⟩ := fr
    have hE' : t = FrameType.ofFlags b (gp ++ gs).isEmpty ∧ (gp ++ gs ≠ [] → EntryFrames false (gp ++ gs)) := hE
    obtain ⟨ht, htail⟩ := hE'
    have hne : gp ++ gs ≠ [] := by simp [hgs]
    have hemp : (gp ++ gs).isEmpty = false := by simpa using hne
    simp only [hemp] at ht
    have hlast : t.isLast = false := by rw [ht]; cases b <;> rfl
    have hfirst : t.isFirst = b := by rw [ht]; cases b <;> rfl
    have hw2 : (st.within || t.isFirst) = true := by
      rw [hfirst]; rcases hw with h | h <;> simp [h]
    show ∃ st', st'.attr = f ∧ assemble st (RdEv.frame f t p :: (tagF f gp ++ evs)) = assemble st' evs
    rw [assemble_more st f t p _ hlast hw2]
    exact ih false gs _ evs hgs (htail hne) (Or.inr rfl) hst

/-- **reassembly of a crash image followed by new entries.** The reader returned the frames of
    the first `j` entries, a proper prefix `gp` of the next one (maybe empty), maybe a corrupt
    event, then the frames of `es'`: the entries delivered are `es.take j ++ es'`. -/
theorem asm_prefix (f : Nat) (esj : List Bytes) (G gp : List Frm) (hG : EntriesFrames esj G)
    (hgp : gp = [] ∨ ∃ gs, gs ≠ [] ∧ EntryFrames true (gp ++ gs))
    (C : List RdEv) (hC : C = [] ∨ C = [RdEv.corrupt f]) (es' : List Bytes) (fs' : List Frm)
    (h' : EntriesFrames es' fs') :
    entriesOf (assemble { within := false, buf := [], attr := f } (tagF f (G ++ gp) ++ (C ++ tagF f fs'))) =
      (esj ++ es').map (RecEv.entry f) := by
  rw [tagF_append, List.append_assoc]
  obtain ⟨st1, hs1, he1⟩ := asm_groups f hG { within := false, buf := [], attr := f } (tagF f gp ++ (C ++ tagF f fs')) rfl
  rw [he1]
  have hpart : ∃ st2, st2.attr = f ∧ assemble st1 (tagF f gp ++ (C ++ tagF f fs')) = assemble st2 (C ++ tagF f fs') := by
    rcases hgp with h | ⟨gs, hgs, hE⟩
    · subst h; exact ⟨st1, hs1, by simp [tagF]⟩
    · exact asm_partial f gp true gs st1 _ hgs hE (Or.inl rfl) hs1
  obtain ⟨st2, hs2, he2⟩ := hpart
  rw [he2]
  have hnew : ∀ st : AsmSt, st.attr = f → assemble st (tagF f fs') = es'.map (RecEv.entry f) := by
    intro st hst
    obtain ⟨st', _, he⟩ := asm_groups f h' st [] hst
    simpa [assemble] using he
  rcases hC with h | h
  · subst h
    rw [List.nil_append, hnew st2 hs2, entriesOf_append, entriesOf_entries, entriesOf_entries, List.map_append]
  · subst h
    have : assemble st2 ([RdEv.corrupt f] ++ tagF f fs') =
        RecEv.corrupt :: assemble { within := false, buf := st2.buf, attr := f } (tagF f fs') := rfl
    rw [this, hnew _ rfl, entriesOf_append, entriesOf_entries]
    simp [entriesOf, List.map_append]

end MRL.Torn
