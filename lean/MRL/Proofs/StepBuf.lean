/-
Transparency of the `BufWriter` model: for effect lists in which the buffer is used the way the
rolling writer uses it (contiguous non-empty writes, a flush before every file-level operation and
before switching files), the image obtained after a final flush is the image obtained by applying
every effect *directly*, unbuffered. Used by C14 (`flush`/`fsync` do not change the final image).
-/
import MRL.Model.Disk

namespace MRL.Buf
open MRL

/-! ### Overwriting -/

theorem mapFile_mapFile (img : Image) (f : Nat) (g1 g2 : Bytes → Bytes) :
    mapFile (mapFile img f g1) f g2 = mapFile img f (fun c => g2 (g1 c)) := by
  unfold mapFile
  rw [List.map_map]
  apply List.map_congr_left
  intro kv _
  by_cases h : kv.1 = f <;> simp [h]

/-- writing `p` at `o` and then `d` right behind it is writing `p ++ d` at `o` -/
theorem overwrite_append (c : Bytes) (o : Nat) (p d : Bytes) :
    overwrite (overwrite c o p) (o + p.length) d = overwrite c o (p ++ d) := by
  unfold overwrite
  generalize hc' : (if c.length < o then c ++ zeros (o - c.length) else c) = c'
  have hlen : o ≤ c'.length := by
    rw [← hc']
    split
    · simp [zeros]; omega
    · omega
  have htl : (c'.take o).length = o := by simp [List.length_take]; omega
  simp only
  have hr1 : ¬ (c'.take o ++ p ++ c'.drop (o + p.length)).length < o + p.length := by
    simp [List.length_append, List.length_take, List.length_drop]; omega
  rw [if_neg hr1]
  have h1 : (c'.take o ++ p ++ c'.drop (o + p.length)).take (o + p.length) = c'.take o ++ p := by
    apply List.take_left'
    simp [htl]
  have h2 : (c'.take o ++ p ++ c'.drop (o + p.length)).drop (o + p.length + d.length) =
      c'.drop (o + (p ++ d).length) := by
    have : (c'.take o ++ p).length = o + p.length := by simp [htl]
    rw [show o + p.length + d.length = (c'.take o ++ p).length + d.length by omega,
      ← List.drop_drop, List.drop_left, List.drop_drop, List.length_append]
    congr 1
    omega
  rw [h1, h2]
  simp [List.append_assoc]

theorem write_write (img : Image) (f o : Nat) (p d : Bytes) :
    applyOs (applyOs img (.write f o p)) (.write f (o + p.length) d) = applyOs img (.write f o (p ++ d)) := by
  simp only [applyOs, mapFile_mapFile, overwrite_append]

/-! ### Direct (unbuffered) semantics -/

def direct : Effect → List OsOp
  | .write f off data => [.write f off data]
  | .flush => []
  | .fsyncFile _ => [.sync]
  | .fsyncDir => [.sync]
  | .create f => [.create f]
  | .setLen f n => [.setLen f n]
  | .ensureLen f n => [.ensureLen f n]
  | .unlink f => [.unlink f]
  | .listDir | .openFile _ | .readBlock _ => []

def directOps (es : List Effect) : List OsOp := es.flatMap direct

theorem applyOsOps_append (img : Image) (a b : List OsOp) :
    applyOsOps img (a ++ b) = applyOsOps (applyOsOps img a) b := by
  simp [applyOsOps, List.foldl_append]

/-! ### Disciplined use of the buffer -/

/-- abstract buffer state: `none` = known clean; `some (f, o)` = possibly dirty, and if dirty the
    pending bytes end at offset `o` of file `f` -/
abbrev St := Option (Nat × Nat)

/-- one effect: `none` when the discipline is violated -/
def run1 (st : St) : Effect → Option St
  | .write f off data =>
    if data ≠ [] ∧ (st = none ∨ st = some (f, off)) then some (some (f, off + data.length)) else none
  | .flush => some none
  | .fsyncFile _ | .fsyncDir | .listDir | .openFile _ | .readBlock _ => some st
  | .create _ | .setLen _ _ | .ensureLen _ _ | .unlink _ => if st = none then some none else none

def run : St → List Effect → Option St
  | st, [] => some st
  | st, e :: es => (run1 st e).bind fun st' => run st' es

theorem run_append (a b : List Effect) : ∀ st, run st (a ++ b) = (run st a).bind fun st' => run st' b := by
  induction a with
  | nil => intro st; rfl
  | cons e es ih =>
    intro st
    simp only [List.cons_append, run]
    cases run1 st e with
    | none => rfl
    | some st' => simp [ih]

/-- concrete buffer vs abstract state -/
def Inv (cap : Nat) (b : BufSt) (st : St) : Prop :=
  (b.pend = [] ∨ st = some (b.file, b.off + b.pend.length)) ∧ b.pend.length ≤ cap

theorem flushOps_nil (b : BufSt) (h : b.pend = []) : b.flushOps = [] := by simp [BufSt.flushOps, h]

theorem flushOps_ne (b : BufSt) (h : b.pend ≠ []) : b.flushOps = [.write b.file b.off b.pend] := by
  simp [BufSt.flushOps, h]

theorem inv_empty (cap : Nat) (st : St) : Inv cap {} st := ⟨.inl rfl, Nat.zero_le _⟩

/-- the buffer after pushing `data` (the two places of `bufStep` that do it) -/
def push (b : BufSt) (f off : Nat) (data : Bytes) : BufSt :=
  if b.pend.isEmpty then { pend := data, file := f, off := off } else { b with pend := b.pend ++ data }

theorem push_ok (cap : Nat) (b : BufSt) (st : St) (f off : Nat) (data : Bytes) (hne : data ≠ [])
    (hinv : Inv cap b st) (hst : st = none ∨ st = some (f, off)) (hfit : b.pend.length + data.length ≤ cap) :
    Inv cap (push b f off data) (some (f, off + data.length)) ∧
    ∀ img, applyOsOps img (push b f off data).flushOps =
      applyOsOps (applyOsOps img b.flushOps) [.write f off data] := by
  by_cases hp : b.pend = []
  · have hpush : push b f off data = { pend := data, file := f, off := off } := by simp [push, hp]
    rw [hpush]
    refine ⟨⟨.inr rfl, by simpa [hp] using hfit⟩, fun img => ?_⟩
    rw [flushOps_nil b hp, flushOps_ne _ hne]
    rfl
  · have hpush : push b f off data = { b with pend := b.pend ++ data } := by
      simp [push, hp]
    have hs : st = some (b.file, b.off + b.pend.length) := by
      rcases hinv.1 with h | h
      · exact absurd h hp
      · exact h
    have hfo : f = b.file ∧ off = b.off + b.pend.length := by
      rcases hst with h | h
      · rw [h] at hs; cases hs
      · rw [h] at hs
        injection hs with hs
        injection hs with h1 h2
        exact ⟨h1, h2⟩
    obtain ⟨rfl, rfl⟩ := hfo
    rw [hpush]
    refine ⟨⟨.inr ?_, by simpa using hfit⟩, fun img => ?_⟩
    · simp [List.length_append, Nat.add_assoc]
    · have hne' : b.pend ++ data ≠ [] := by simp [hp]
      rw [flushOps_ne b hp, flushOps_ne _ hne']
      simp only [applyOsOps, List.foldl_cons, List.foldl_nil]
      exact (write_write img b.file b.off b.pend data).symm

theorem bufStep_write (cap : Nat) (b : BufSt) (f off : Nat) (data : Bytes) :
    bufStep cap b (.write f off data) =
      if data.length < cap - b.pend.length then (push b f off data, [])
      else if data.length > cap - b.pend.length then
        if data.length ≥ cap then ({}, b.flushOps ++ [.write f off data])
        else (push {} f off data, b.flushOps)
      else
        if data.length ≥ cap then (b, [.write f off data])
        else (push b f off data, []) := by
  unfold bufStep push
  by_cases h1 : data.length < cap - b.pend.length
  · simp only [h1, if_true]
  · simp only [h1, if_false]
    by_cases h2 : data.length > cap - b.pend.length
    · simp only [h2, if_true]
    · simp only [h2, if_false, List.nil_append]

/-- file-level operations: only with a clean buffer -/
theorem file_op (cap : Nat) (b : BufSt) (st st' : St) (e : Effect) (hinv : Inv cap b st)
    (hr : (if st = none then some none else none) = some st')
    (hb : (bufStep cap b e).1 = b) (hd : (bufStep cap b e).2 = direct e) :
    Inv cap (bufStep cap b e).1 st' ∧
    ∀ img, applyOsOps (applyOsOps img (bufStep cap b e).2) (bufStep cap b e).1.flushOps =
      applyOsOps (applyOsOps img b.flushOps) (direct e) := by
  split at hr
  · rename_i hst
    injection hr with hr
    subst hr
    have hp : b.pend = [] := by
      rcases hinv.1 with h | h
      · exact h
      · rw [hst] at h; cases h
    rw [hb, hd]
    refine ⟨⟨.inl hp, hinv.2⟩, fun img => ?_⟩
    simp [flushOps_nil b hp, applyOsOps]
  · cases hr

/-- one effect: the buffered run followed by a flush equals the direct application -/
theorem bufStep_ok (cap : Nat) (b : BufSt) (st st' : St) (e : Effect) (hinv : Inv cap b st)
    (hr : run1 st e = some st') :
    Inv cap (bufStep cap b e).1 st' ∧
    ∀ img, applyOsOps (applyOsOps img (bufStep cap b e).2) (bufStep cap b e).1.flushOps =
      applyOsOps (applyOsOps img b.flushOps) (direct e) := by
  cases e with
  | write f off data =>
    simp only [run1] at hr
    split at hr
    · rename_i hc
      obtain ⟨hne, hst⟩ := hc
      injection hr with hr
      subst hr
      rw [bufStep_write]
      simp only [direct]
      by_cases h1 : data.length < cap - b.pend.length
      · rw [if_pos h1]
        have := push_ok cap b st f off data hne hinv hst (by omega)
        exact ⟨this.1, fun img => this.2 img⟩
      · rw [if_neg h1]
        by_cases h2 : data.length > cap - b.pend.length
        · rw [if_pos h2]
          by_cases h3 : data.length ≥ cap
          · rw [if_pos h3]
            refine ⟨inv_empty cap _, fun img => ?_⟩
            simp [applyOsOps_append, flushOps_nil]
            rfl
          · rw [if_neg h3]
            have := push_ok cap {} none f off data hne (inv_empty cap none) (.inl rfl)
              (by simp; omega)
            refine ⟨this.1, fun img => ?_⟩
            rw [this.2]
            simp [flushOps_nil]
            rfl
        · rw [if_neg h2]
          by_cases h3 : data.length ≥ cap
          · rw [if_pos h3]
            have hp : b.pend = [] := by
              have := hinv.2
              apply List.eq_nil_of_length_eq_zero
              have hd : data.length ≠ 0 := fun h => hne (List.eq_nil_of_length_eq_zero h)
              omega
            refine ⟨⟨.inl hp, by simp [hp]⟩, fun img => ?_⟩
            simp [flushOps_nil b hp, applyOsOps]
          · rw [if_neg h3]
            have := push_ok cap b st f off data hne hinv hst (by have := hinv.2; omega)
            exact ⟨this.1, fun img => this.2 img⟩
    · cases hr
  | flush =>
    injection hr with hr
    subst hr
    exact ⟨inv_empty cap _, fun img => by simp [bufStep, direct, flushOps_nil, applyOsOps]⟩
  | fsyncFile f =>
    injection hr with hr
    subst hr
    exact ⟨hinv, fun img => by simp [bufStep, direct, applyOsOps, applyOs]⟩
  | fsyncDir =>
    injection hr with hr
    subst hr
    exact ⟨hinv, fun img => by simp [bufStep, direct, applyOsOps, applyOs]⟩
  | listDir =>
    injection hr with hr
    subst hr
    exact ⟨hinv, fun img => by simp [bufStep, direct, applyOsOps]⟩
  | openFile f =>
    injection hr with hr
    subst hr
    exact ⟨hinv, fun img => by simp [bufStep, direct, applyOsOps]⟩
  | readBlock f =>
    injection hr with hr
    subst hr
    exact ⟨hinv, fun img => by simp [bufStep, direct, applyOsOps]⟩
  | create f => exact file_op cap b st st' _ hinv hr rfl rfl
  | setLen f n => exact file_op cap b st st' _ hinv hr rfl rfl
  | ensureLen f n => exact file_op cap b st st' _ hinv hr rfl rfl
  | unlink f => exact file_op cap b st st' _ hinv hr rfl rfl

theorem toOsOps_cons (cap : Nat) (b : BufSt) (e : Effect) (es : List Effect) :
    toOsOps cap b (e :: es) =
      ((toOsOps cap (bufStep cap b e).1 es).1, (bufStep cap b e).2 ++ (toOsOps cap (bufStep cap b e).1 es).2) := rfl

theorem toOsOps_append (cap : Nat) (a c : List Effect) : ∀ b : BufSt,
    toOsOps cap b (a ++ c) =
      ((toOsOps cap (toOsOps cap b a).1 c).1, (toOsOps cap b a).2 ++ (toOsOps cap (toOsOps cap b a).1 c).2) := by
  induction a with
  | nil => intro b; simp [toOsOps]
  | cons e es ih =>
    intro b
    rw [List.cons_append, toOsOps_cons, toOsOps_cons, ih]
    simp [List.append_assoc]

theorem directOps_cons (e : Effect) (es : List Effect) : directOps (e :: es) = direct e ++ directOps es := by
  simp [directOps]

theorem directOps_append (a b : List Effect) : directOps (a ++ b) = directOps a ++ directOps b := by
  simp [directOps]

/-- a disciplined effect list: buffered run then flush = direct application -/
theorem toOsOps_ok (cap : Nat) (es : List Effect) : ∀ (b : BufSt) (st st' : St), Inv cap b st →
    run st es = some st' →
    Inv cap (toOsOps cap b es).1 st' ∧
    ∀ img, applyOsOps (applyOsOps img (toOsOps cap b es).2) (toOsOps cap b es).1.flushOps =
      applyOsOps (applyOsOps img b.flushOps) (directOps es) := by
  induction es with
  | nil =>
    intro b st st' hinv hr
    injection hr with hr
    subst hr
    exact ⟨hinv, fun img => by simp [toOsOps, directOps, applyOsOps]⟩
  | cons e es ih =>
    intro b st st' hinv hr
    simp only [run] at hr
    cases h1 : run1 st e with
    | none => rw [h1] at hr; cases hr
    | some st1 =>
      rw [h1] at hr
      simp only [Option.bind_some] at hr
      obtain ⟨hinv1, hstep⟩ := bufStep_ok cap b st st1 e hinv h1
      obtain ⟨hinv2, hrest⟩ := ih (bufStep cap b e).1 st1 st' hinv1 hr
      rw [toOsOps_cons]
      refine ⟨hinv2, fun img => ?_⟩
      simp only
      rw [applyOsOps_append, hrest, hstep, directOps_cons, applyOsOps_append]

/-- **Buffer transparency.** Starting with an empty buffer, a disciplined effect list followed by
    a flush leaves the image that applying every effect directly would leave. -/
theorem flushed_image (cap : Nat) (img : Image) (es : List Effect) (h : (run none es).isSome) :
    applyOsOps img (toOsOps cap {} (es ++ [.flush])).2 = applyOsOps img (directOps es) := by
  obtain ⟨st', hst'⟩ := Option.isSome_iff_exists.mp h
  obtain ⟨_, hk⟩ := toOsOps_ok cap es {} none st' (inv_empty cap none) hst'
  rw [toOsOps_append]
  simp only [toOsOps, bufStep, List.append_nil]
  rw [applyOsOps_append, hk]
  simp [flushOps_nil, applyOsOps]

end MRL.Buf
