/-
A GC pass whose unlink phase stopped after `k` unlinks, seen from the IN-MEMORY log: the log that
still tracks the files not yet unlinked satisfies the relaxed invariant on the disk where only the
first `k` files are gone (`gc_partial`; `L.unlink_phase_crashX` states this for the log READ BACK from
that disk). Each file is present when it is unlinked.
-/
import MRL.Proofs.PDCList
import MRL.Proofs.PDLJournal

namespace MRL.PDC
open MRL Codec Consts G H Torn Log Buf C05 C01J L

/-- the replay from any first file between the old and the new one -/
theorem rep_at0 (g : Geom) {l2 : Log} {J2 : List JE} (order : List Bytes) (hJ : JInv l2 J2) (Fo : Nat)
    (h1 : l2.files.headD 0 ≤ Fo) (h2 : Fo ≤ (runGc g l2 order).1.files.headD 0) :
    ∃ qo, replayJ Fo [] (J2 ++ gcJ g l2 order) = some qo ∧ QsEquiv qo l2.queues ∧ QsWF qo := by
  rcases Nat.lt_or_ge (l2.files.headD 0) Fo with hlt | hge
  · obtain ⟨qb, hb1, hb2⟩ := rep_at g order hJ Fo hlt h2
    exact ⟨qb, hb1, hb2, replayJ_wf Fo _ QsWF.nil hb1⟩
  · have hFo : Fo = l2.files.headD 0 := by omega
    subst hFo
    obtain ⟨hH, chunk, qs, hrep, heq, hwf⟩ := hJ
    have hF2 : l2.files.headD 0 ≤ l2.cur := head_le_of_mem hH.files.sorted hH.files.cur_mem
    obtain ⟨_, _, _, hreplay, _⟩ := gc_facts g l2 order hH (l2.files.headD 0) hF2
    exact extend_rep hH.inv hrep heq hwf hreplay

theorem gc_partial (g : Geom) {l2 : Log} {J2 : List JE} {D2 : Image} (h : CInvX g l2 J2 D2)
    (order : List Bytes) (names : List Bytes) (hj : gcJ g l2 order = touchesJ g l2 names)
    (hr : (runGc g l2 order).1 = { (writeTouches g l2 names).1 with
      files := (gcFiles ((writeTouches g l2 names).1.canDelete l2.cur) (writeTouches g l2 names).1.files).1 })
    (k : Nat)
    (hk : k ≤ (gcFiles ((writeTouches g l2 names).1.canDelete l2.cur) (writeTouches g l2 names).1.files).2.length) :
    CInvX g { (runGc g l2 order).1 with
        files := (gcFiles ((writeTouches g l2 names).1.canDelete l2.cur) (writeTouches g l2 names).1.files).2.drop k ++
          (runGc g l2 order).1.files }
      (J2 ++ gcJ g l2 order)
      (applyOsOps (applyOsOps D2 (directOps (writeTouches g l2 names).2.1))
        (((gcFiles ((writeTouches g l2 names).1.canDelete l2.cur) (writeTouches g l2 names).1.files).2.take k).map
          OsOp.unlink)) := by
  obtain ⟨init, t, x, res, ais, lead, gs, hx⟩ := h.disk
  obtain ⟨i3, t3, x3, r3, ais3, gs3, y3, _⟩ := touches_extX g (l2.files.headD 0) lead names l2 D2 J2 init t x res ais gs hx
  have k1 := y3.tape
  rcases hg : gcFiles ((writeTouches g l2 names).1.canDelete l2.cur) (writeTouches g l2 names).1.files
    with ⟨rem, del⟩
  rw [hg] at hk hr
  simp only at hk hr ⊢
  obtain ⟨hsplit, hcan, hne⟩ := gcFiles_spec _ _ _ _ hg
  rw [k1.files] at hsplit
  obtain ⟨hdel, hrem⟩ := range'_split _ _ _ _ hsplit
  have hdl : del.length ≤ i3.length := by
    apply Classical.byContradiction
    intro hn
    have hmem : (writeTouches g l2 names).1.cur ∈ del := by
      rw [hdel, k1.cur, List.mem_range'_1]; omega
    have := hcan _ hmem
    simp [canDelete] at this
  have hlen : del.length + rem.length = i3.length + 1 + (if x3 then 1 else 0) := by
    have := congrArg List.length hsplit
    simp only [List.length_range', List.length_append] at this
    omega
  have hkinit : k ≤ i3.length := by omega
  have hdeltake : del.take k = List.range' (l2.files.headD 0) k := by
    rw [hdel, take_range' _ _ _ hk]
  -- the tracked files of the partial log
  have hfiles : del.drop k ++ rem =
      List.range' (l2.files.headD 0 + k) (i3.length + 1 - k + (if x3 then 1 else 0)) := by
    have hs2 : List.range' (l2.files.headD 0) (i3.length + 1 + (if x3 then 1 else 0)) =
        del.take k ++ (del.drop k ++ rem) := by
      rw [← List.append_assoc, List.take_append_drop]; exact hsplit
    obtain ⟨_, hb⟩ := range'_split _ _ _ _ hs2
    rw [hb]
    have hl2 : (del.take k).length = k := by rw [List.length_take]; omega
    rw [hl2]
    congr 1
    simp only [List.length_append, List.length_drop]
    omega
  rw [hdeltake, hr]
  simp only
  rw [hfiles]
  -- the disk
  obtain ⟨afs', lead', gs', c1⟩ := gc_diskX g y3 k hkinit
  -- the journal
  have hJ' := jinv_gc g order h.jinv
  have hq' : (runGc g l2 order).1.queues = l2.queues := runGc_queues g l2 order
  have hF'' : (runGc g l2 order).1.files.headD 0 = l2.files.headD 0 + del.length := by
    rw [hr]
    show rem.headD 0 = _
    rw [hrem]
    cases hrl : rem.length with
    | zero => omega
    | succ n => rw [List.range'_succ]; rfl
  obtain ⟨qo, ho1, ho2, ho3⟩ := rep_at0 g order h.jinv (l2.files.headD 0 + k) (Nat.le_add_right _ _)
    (by rw [hF'']; omega)
  have hHr := hJ'.h
  rw [hr] at hHr
  have hchunk := hJ'.chunk
  rw [hr] at hchunk
  have hposlen : 0 < i3.length + 1 - k + (if x3 then 1 else 0) := by omega
  have hhead : (List.range' (l2.files.headD 0 + k) (i3.length + 1 - k + (if x3 then 1 else 0))).headD 0 =
      l2.files.headD 0 + k := by
    obtain ⟨m, hm⟩ : ∃ m, i3.length + 1 - k + (if x3 then 1 else 0) = m + 1 := ⟨_, (Nat.succ_pred_eq_of_pos hposlen).symm⟩
    rw [hm, List.range'_succ]; rfl
  refine ⟨⟨⟨⟨List.pairwise_lt_range', ?_⟩, hHr.inv, ?_⟩, hchunk, ⟨qo, ?_, ?_, ho3⟩⟩, ?_⟩
  · -- the current file is tracked
    show (writeTouches g l2 names).1.cur ∈ _
    rw [k1.cur, List.mem_range'_1]
    omega
  · -- handles on tracked files
    intro kv hkv r hr' f hf
    have := hHr.handles kv hkv r hr' f hf
    show f ∈ List.range' _ _
    rw [← hfiles]
    exact List.mem_append_right _ this
  · show replayJ ((List.range' _ _).headD 0) [] _ = _
    rw [hhead]; exact ho1
  · show QsEquiv qo (writeTouches g l2 names).1.queues
    have : (writeTouches g l2 names).1.queues = l2.queues := by
      have := hq'; rw [hr] at this; exact this
    rw [this]; exact ho2
  · show ∃ init t x res ais lead gs, XInvX g _ _ ((List.range' _ _).headD 0) _ init t x res ais lead gs
    rw [hhead, hj]
    exact ⟨_, _, _, _, _, _, _, c1⟩

end MRL.PDC
