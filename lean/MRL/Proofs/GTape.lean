/-
The raw tape: the tracked files `F … cur` hold, back to back, the bytes `P` written so far
followed by zeros. One `writeBuf` of a non-empty buffer that does not cross a block end appends
the buffer to `P` (rolling over to a fresh file exactly when the current one is full).
-/
import MRL.Proofs.GDisk
import MRL.Proofs.CodecLayout
import MRL.Proofs.JWriter
import MRL.Proofs.StepLemmas

namespace MRL.G
open MRL Codec Log

/-- files `F … F + init.length` of `D`: the full chunks `init`, then `t` followed by zeros;
    the writer stands right after `t` -/
structure Tape (g : Geom) (l : Log) (D : Image) (F : Nat) (init : List Bytes) (t : Bytes) : Prop where
  img : D = imgOf F (init ++ [t ++ zeros (g.fileBytes - l.off)])
  full : ∀ c ∈ init, c.length = g.fileBytes
  tlen : t.length = l.off
  off_le : l.off ≤ g.fileBytes
  files : l.files = List.range' F (init.length + 1)
  cur : l.cur = F + init.length

theorem fileBytes_mod (g : Geom) : g.fileBytes % g.B = 0 := Nat.mul_mod_right _ _

theorem fileBytes_pos (g : Geom) : 0 < g.fileBytes :=
  Nat.mul_pos (Nat.lt_trans (Nat.succ_pos _) g.hB) g.hK

theorem B_le_fileBytes (g : Geom) : g.B ≤ g.fileBytes := by
  unfold Geom.fileBytes
  exact Nat.le_mul_of_pos_right _ g.hK

/-- a buffer that stays inside its block stays inside the file -/
theorem fits_file (g : Geom) (off len : Nat) (h : off < g.fileBytes) (hc : off % g.B + len ≤ g.B) :
    off + len ≤ g.fileBytes := by
  have hB : 0 < g.B := Nat.lt_trans (Nat.succ_pos _) g.hB
  have hq : off / g.B < g.K := by
    rw [Nat.div_lt_iff_lt_mul hB, Nat.mul_comm]; exact h
  have hd := Nat.div_add_mod off g.B
  have h1 : g.B * (off / g.B + 1) ≤ g.B * g.K := Nat.mul_le_mul_left _ hq
  rw [Nat.mul_add, Nat.mul_one] at h1
  unfold Geom.fileBytes
  omega

theorem flatten_length_full (fb : Nat) : ∀ (cs : List Bytes), (∀ c ∈ cs, c.length = fb) →
    cs.flatten.length = cs.length * fb
  | [], _ => by simp
  | c :: cs, h => by
    simp only [List.flatten_cons, List.length_append, List.length_cons]
    rw [flatten_length_full fb cs (fun c' hc' => h c' (List.mem_cons_of_mem _ hc')),
      h c List.mem_cons_self, Nat.add_mul, Nat.one_mul, Nat.add_comm]

theorem Tape.P_length {g : Geom} {l : Log} {D : Image} {F : Nat} {init : List Bytes} {t : Bytes}
    (h : Tape g l D F init t) : (init.flatten ++ t).length = init.length * g.fileBytes + l.off := by
  rw [List.length_append, flatten_length_full _ _ h.full, h.tlen]

theorem nextFile_range (F n : Nat) : nextFile (List.range' F (n + 1)) (F + n) = none := by
  unfold nextFile
  rw [List.find?_eq_none]
  intro x hx
  rw [List.mem_range'_1] at hx
  simp only [decide_eq_true_eq]
  omega

theorem range'_snoc (F n : Nat) : List.range' F n ++ [F + n] = List.range' F (n + 1) := by
  rw [List.range'_concat]; simp

theorem div_fileBytes (fb a off : Nat) (h : off < fb) : (a * fb + off) / fb = a := by
  have hfb : 0 < fb := by omega
  rw [Nat.add_comm, Nat.add_mul_div_right _ _ hfb, Nat.div_eq_of_lt h, Nat.zero_add]

/-- one buffer -/
theorem writeBuf_tape (g : Geom) {l : Log} {D : Image} {F : Nat} {init : List Bytes} {t : Bytes}
    (h : Tape g l D F init t) (buf : Bytes) (hne : buf ≠ []) (hnc : l.off % g.B + buf.length ≤ g.B) :
    ∃ init' t', Tape g (writeBuf g l buf).1 (applyOsOps D (Buf.directOps (writeBuf g l buf).2)) F init' t' ∧
      init'.flatten ++ t' = init.flatten ++ t ++ buf ∧
      (writeBuf g l buf).1.cur = F + (init.flatten ++ t).length / g.fileBytes ∧
      (writeBuf g l buf).1.off % g.B = adv g (l.off % g.B) buf.length := by
  have he : buf.isEmpty = false := by cases buf <;> simp_all
  have hlen : 0 < buf.length := List.length_pos_iff.mpr hne
  have hB : 0 < g.B := Nat.lt_trans (Nat.succ_pos _) g.hB
  have hPl := h.P_length
  by_cases hroll : l.off + buf.length > g.fileBytes
  · -- roll over: the file is full
    have hfull : l.off = g.fileBytes := by
      have := h.off_le
      by_cases hlt : l.off < g.fileBytes
      · have := fits_file g l.off buf.length hlt hnc; omega
      · omega
    have hmod : l.off % g.B = 0 := by rw [hfull]; exact fileBytes_mod g
    have hbl : buf.length ≤ g.fileBytes := by have := B_le_fileBytes g; omega
    have hnf : nextFile l.files l.cur = none := by rw [h.files, h.cur]; exact nextFile_range F _
    have hw : writeBuf g l buf =
        ({ l with files := l.files ++ [l.cur + 1], cur := l.cur + 1, off := buf.length },
         [Effect.flush, .fsyncFile l.cur, .fsyncDir] ++
           [.create (l.cur + 1), .setLen (l.cur + 1) g.fileBytes, .write (l.cur + 1) 0 buf]) := by
      unfold writeBuf
      simp only [he, Bool.false_eq_true, if_false, hroll, if_true, hnf]
    rw [hw]
    have hlast : t ++ zeros (g.fileBytes - l.off) = t := by rw [hfull]; simp [zeros]
    refine ⟨init ++ [t], buf, ⟨?_, ?_, rfl, hbl, ?_, ?_⟩, ?_, ?_, ?_⟩
    · -- the image
      have hnum : l.cur + 1 = F + (init ++ [t]).length := by rw [h.cur]; simp; omega
      simp only [Buf.directOps, List.flatMap_cons, List.flatMap_nil, Buf.direct, List.cons_append,
        List.nil_append, List.append_nil, applyOsOps, List.foldl_cons, List.foldl_nil, applyOs]
      rw [h.img, hlast, hnum, insertFile_end, mapFile_last, mapFile_last, setLenBytes_nil]
      have := overwrite_tail [] g.fileBytes buf hbl
      simp only [List.nil_append, List.length_nil] at this
      rw [this]
    · intro c hc
      rcases List.mem_append.mp hc with hc | hc
      · exact h.full c hc
      · simp only [List.mem_singleton] at hc; rw [hc, h.tlen, hfull]
    · show l.files ++ [l.cur + 1] = _
      rw [h.files, h.cur]
      have e : (init ++ [t]).length = init.length + 1 := by simp
      rw [e]
      exact range'_snoc F (init.length + 1)
    · show l.cur + 1 = _
      rw [h.cur]; simp; omega
    · simp
    · show l.cur + 1 = _
      rw [hPl, hfull, h.cur]
      have : init.length * g.fileBytes + g.fileBytes = (init.length + 1) * g.fileBytes + 0 := by
        rw [Nat.add_mul, Nat.one_mul]; rfl
      rw [this, div_fileBytes _ _ _ (fileBytes_pos g)]
      omega
    · show buf.length % g.B = _
      rw [hmod]
      unfold adv
      split
      · rename_i h1; rw [Nat.zero_add] at h1; rw [h1, Nat.mod_self]
      · rename_i h1; rw [Nat.zero_add] at h1 ⊢; exact Nat.mod_eq_of_lt (by omega)
  · -- same file
    have hw : writeBuf g l buf = ({ l with off := l.off + buf.length }, [.write l.cur l.off buf]) := by
      unfold writeBuf
      simp only [he, Bool.false_eq_true, if_false, hroll]
    rw [hw]
    have hle : l.off + buf.length ≤ g.fileBytes := by omega
    refine ⟨init, t ++ buf, ⟨?_, h.full, ?_, hle, h.files, h.cur⟩, ?_, ?_, ?_⟩
    · simp only [Buf.directOps, List.flatMap_cons, List.flatMap_nil, Buf.direct, List.append_nil,
        applyOsOps, List.foldl_cons, List.foldl_nil, applyOs]
      rw [h.img, h.cur, mapFile_last, ← h.tlen, overwrite_tail t _ buf (by rw [h.tlen]; omega)]
      congr 3
      rw [Nat.sub_sub]
    · simp [h.tlen]
    · simp
    · show l.cur = _
      rw [hPl, h.cur, div_fileBytes _ _ _ (by omega)]
    · show (l.off + buf.length) % g.B = _
      have hd := Nat.div_add_mod l.off g.B
      unfold adv
      split
      · rename_i h1
        have : l.off + buf.length = g.B * (l.off / g.B + 1) := by rw [Nat.mul_add, Nat.mul_one]; omega
        rw [this, Nat.mul_mod_right]
      · rename_i h1
        have : l.off + buf.length = (l.off % g.B + buf.length) + g.B * (l.off / g.B) := by omega
        rw [this, Nat.add_mul_mod_self_left, Nat.mod_eq_of_lt (by omega)]

/-- a list of buffers -/
theorem writeBufs_tape (g : Geom) (bufs : List Bytes) : ∀ {l : Log} {D : Image} {F : Nat}
    {init : List Bytes} {t : Bytes}, Tape g l D F init t → NoCross g (l.off % g.B) bufs →
    ∃ init' t', Tape g (writeBufs g l bufs).1 (applyOsOps D (Buf.directOps (writeBufs g l bufs).2)) F init' t' ∧
      init'.flatten ++ t' = init.flatten ++ t ++ bufs.flatten ∧
      (bufs ≠ [] → (writeBufs g l bufs).1.cur =
        F + ((init.flatten ++ t).length + totalLen bufs.dropLast) / g.fileBytes) := by
  induction bufs with
  | nil =>
    intro l D F init t h _
    exact ⟨init, t, by simpa [writeBufs, Buf.directOps, applyOsOps] using h, by simp, fun h => absurd rfl h⟩
  | cons b bs ih =>
    intro l D F init t h hnc
    obtain ⟨h1, h2, h3⟩ := hnc
    have hne : b ≠ [] := by intro e; rw [e] at h1; simp at h1
    obtain ⟨i1, t1, ht1, hp1, hcur1, hc1⟩ := writeBuf_tape g h b hne h2
    rw [← hc1] at h3
    obtain ⟨i2, t2, ht2, hp2, hcur2⟩ := ih ht1 h3
    refine ⟨i2, t2, ?_, ?_, ?_⟩
    · rw [Step.writeBufs_cons]
      simp only [Buf.directOps_append, Buf.applyOsOps_append]
      exact ht2
    · rw [hp2, hp1]; simp [List.append_assoc]
    · intro _
      rw [Step.writeBufs_cons]
      simp only
      cases bs with
      | nil =>
        simp only [writeBufs, List.dropLast_singleton, totalLen_nil, Nat.add_zero]
        exact hcur1
      | cons b2 bs2 =>
        rw [hcur2 (by simp), hp1, List.dropLast_cons_cons, totalLen_cons, List.length_append]
        congr 2; omega

end MRL.G
