/-
`Gen.asm_trace` a third time: the genuine frames of a crash-reachable tape also contain DEAD
groups — a proper, non-empty prefix of the frames of an entry that was never finished (an orphan
First, Middle* run without Last). `assemble` starts an entry on such a run and abandons it at the
next First/Full frame (which resets the buffer) or at a corrupt event. The entries delivered are
still a sub-sequence of the entries of the LIVE groups.
-/
import MRL.Proofs.ImgTrace

namespace MRL.Img
open MRL Consts Codec Torn Gen

/-- groups of frames: live ones (the frames of an entry `e`) and dead ones (a non-empty proper
    prefix of the frames of some entry) -/
inductive Chunks : List Bytes → List Frm → Prop
  | nil : Chunks [] []
  | live {e : Bytes} {es : List Bytes} {fs G : List Frm} :
      EntryFrames true fs → payloadOf fs = e → Chunks es G → Chunks (e :: es) (fs ++ G)
  | dead {es : List Bytes} {fs G : List Frm} :
      fs ≠ [] → (∃ rest, rest ≠ [] ∧ EntryFrames true (fs ++ rest)) → Chunks es G → Chunks es (fs ++ G)

/-- the frames ahead, outside an entry: non-first frames, then groups -/
def ShapeX (R : List Frm) (esR : List Bytes) : Prop :=
  ∃ junk GR, R = junk ++ GR ∧ (∀ a ∈ junk, a.1.isFirst = false) ∧ Chunks esR GR

theorem nonfirst_prefix_tail {b : Bool} {x : Frm} {l rest : List Frm} (h : EntryFrames b (x :: l ++ rest)) :
    ∀ a ∈ l, a.1.isFirst = false := by
  have := nonfirst_of_group_tail (b := b) (x := x) (l := l ++ rest) h
  exact fun a ha => this a (List.mem_append_left _ ha)

theorem ShapeX.drop_one {a : Frm} {R : List Frm} {esR : List Bytes} (h : ShapeX (a :: R) esR) :
    ∃ esR', ShapeX R esR' ∧ List.Sublist esR' esR := by
  obtain ⟨junk, GR, hR, hj, hG⟩ := h
  cases junk with
  | cons b junk1 =>
    simp only [List.cons_append, List.cons.injEq] at hR
    obtain ⟨rfl, rfl⟩ := hR
    exact ⟨esR, ⟨junk1, GR, rfl, fun x hx => hj x (List.mem_cons_of_mem _ hx), hG⟩, List.Sublist.refl _⟩
  | nil =>
    simp only [List.nil_append] at hR
    cases hG with
    | nil => cases hR
    | @live e es fs G h1 h2 h3 =>
      cases fs with
      | nil => exact h1.elim
      | cons b gs =>
        simp only [List.cons_append, List.cons.injEq] at hR
        obtain ⟨rfl, rfl⟩ := hR
        exact ⟨es, ⟨gs, G, rfl, nonfirst_of_group_tail h1, h3⟩, List.sublist_cons_self _ _⟩
    | @dead es fs G hne h1 h3 =>
      cases fs with
      | nil => exact absurd rfl hne
      | cons b gs =>
        simp only [List.cons_append, List.cons.injEq] at hR
        obtain ⟨rfl, rfl⟩ := hR
        obtain ⟨rest, _, hE⟩ := h1
        exact ⟨esR, ⟨gs, G, rfl, nonfirst_prefix_tail (rest := rest) hE, h3⟩, List.Sublist.refl _⟩

theorem ShapeX.drop {sk R : List Frm} : ∀ {esR : List Bytes}, ShapeX (sk ++ R) esR →
    ∃ esR', ShapeX R esR' ∧ List.Sublist esR' esR := by
  induction sk with
  | nil => intro esR h; exact ⟨esR, h, List.Sublist.refl _⟩
  | cons a sk ih =>
    intro esR h
    obtain ⟨es1, h1, s1⟩ := ShapeX.drop_one h
    obtain ⟨es2, h2, s2⟩ := ih h1
    exact ⟨es2, h2, s2.trans s1⟩

/-- the rest of a dead group: Middle frames, never a Last -/
def DeadRest (gt : List Frm) : Prop := gt = [] ∨ ∃ rest, rest ≠ [] ∧ EntryFrames false (gt ++ rest)

theorem DeadRest.nonfirst {gt : List Frm} (h : DeadRest gt) : ∀ a ∈ gt, a.1.isFirst = false := by
  rcases h with h | ⟨rest, _, hE⟩
  · intro a ha; rw [h] at ha; cases ha
  · exact fun a ha => nonfirst_of_tail _ hE a (List.mem_append_left _ ha)

/-- **reassembly of a trace over a tape with dead groups** -/
theorem asm_traceX (f : Nat) {R : List Frm} {tight : Bool} {evs : List RdEv} (h : Trace f R tight evs) :
    ∀ st : AsmSt, st.attr = f →
      (st.within = false → ∀ esR, ShapeX R esR →
        List.Sublist (entriesOf (assemble st evs)) (esR.map (RecEv.entry f))) ∧
      (st.within = true → tight = true → ∀ (e : Bytes) (gt GR : List Frm) (esR : List Bytes),
        R = gt ++ GR → gt ≠ [] → EntryFrames false gt → st.buf ++ payloadOf gt = e → Chunks esR GR →
        List.Sublist (entriesOf (assemble st evs)) ((e :: esR).map (RecEv.entry f))) ∧
      (st.within = true → tight = true → ∀ (gt GR : List Frm) (esR : List Bytes),
        R = gt ++ GR → DeadRest gt → Chunks esR GR →
        List.Sublist (entriesOf (assemble st evs)) (esR.map (RecEv.entry f))) := by
  induction h with
  | nil =>
    intro st _
    exact ⟨fun _ _ _ => by simp [assemble, entriesOf], fun _ _ _ _ _ _ _ _ _ _ _ => by simp [assemble, entriesOf],
      fun _ _ _ _ _ _ _ _ => by simp [assemble, entriesOf]⟩
  | @corrupt R tight evs _ ih =>
    intro st hst
    have hstep : assemble st (RdEv.corrupt f :: evs) =
        RecEv.corrupt :: assemble { within := false, buf := st.buf, attr := f } evs := rfl
    rw [hstep, Gen.entriesOf_cons_corrupt]
    obtain ⟨ihA, _, _⟩ := ih { within := false, buf := st.buf, attr := f } rfl
    refine ⟨fun _ esR hS => ihA rfl esR hS, fun _ _ e gt GR esR hR _ hE _ hG => ?_,
      fun _ _ gt GR esR hR hD hG => ?_⟩
    · have := ihA rfl esR ⟨gt, GR, hR, nonfirst_of_tail gt hE, hG⟩
      exact this.trans (by simp)
    · exact ihA rfl esR ⟨gt, GR, hR, hD.nonfirst, hG⟩
  | @frame R' tight evs t p _ ih =>
    intro st hst
    -- the frame is the first frame of a group (whatever `within`)
    have firstCase : ∀ (st : AsmSt), st.attr = f → ∀ esR, Chunks esR ((t, p) :: R') →
        List.Sublist (entriesOf (assemble st (RdEv.frame f t p :: evs))) (esR.map (RecEv.entry f)) := by
      intro st hst esR hG
      generalize hGR : (t, p) :: R' = GR at hG
      cases hG with
      | nil => cases hGR
      | @live e es fs G h1 h2 h3 =>
        cases fs with
        | nil => exact h1.elim
        | cons b gs =>
          simp only [List.cons_append, List.cons.injEq] at hGR
          obtain ⟨rfl, rfl⟩ := hGR
          have h1' : t = FrameType.ofFlags true gs.isEmpty ∧ (gs ≠ [] → EntryFrames false gs) := h1
          have hfirst : t.isFirst = true := by rw [h1'.1]; cases gs.isEmpty <;> rfl
          have hw2 : (st.within || t.isFirst) = true := by rw [hfirst]; simp
          cases gs with
          | nil =>
            have hlast : t.isLast = true := by rw [h1'.1]; rfl
            rw [assemble_last st f t p evs hlast hw2, hfirst, Gen.entriesOf_cons_entry, hst]
            have hp : p = e := by simpa [payloadOf] using h2
            simp only [if_true, List.nil_append, hp, List.map_cons]
            exact List.Sublist.cons_cons _ ((ih _ rfl).1 rfl es ⟨[], G, rfl, (fun _ h => by cases h), h3⟩)
          | cons b2 gs2 =>
            have hlast : t.isLast = false := by rw [h1'.1]; rfl
            rw [assemble_more st f t p evs hlast hw2, hfirst]
            simp only [if_true, List.nil_append]
            exact (ih { within := true, buf := p, attr := st.attr } hst).2.1 rfl rfl e (b2 :: gs2) G es rfl
              (by simp) (h1'.2 (by simp)) (by simpa [payloadOf] using h2) h3
      | @dead es fs G hne h1 h3 =>
        cases fs with
        | nil => exact absurd rfl hne
        | cons b gs =>
          simp only [List.cons_append, List.cons.injEq] at hGR
          obtain ⟨rfl, rfl⟩ := hGR
          obtain ⟨rest, hrest, hE⟩ := h1
          have hne2 : gs ++ rest ≠ [] := by simp [hrest]
          have hE' : t = FrameType.ofFlags true (gs ++ rest).isEmpty ∧ (gs ++ rest ≠ [] → EntryFrames false (gs ++ rest)) := hE
          have hemp : (gs ++ rest).isEmpty = false := by simpa using hne2
          have hfirst : t.isFirst = true := by rw [hE'.1, hemp]; rfl
          have hlast : t.isLast = false := by rw [hE'.1, hemp]; rfl
          have hw2 : (st.within || t.isFirst) = true := by rw [hfirst]; simp
          rw [assemble_more st f t p evs hlast hw2]
          exact (ih { within := true, buf := (if t.isFirst then [] else st.buf) ++ p, attr := st.attr } hst).2.2
            rfl rfl gs G esR rfl (Or.inr ⟨rest, hrest, hE'.2 hne2⟩) h3
    refine ⟨?_, ?_, ?_⟩
    · intro hw esR hS
      obtain ⟨junk, GR, hR, hj, hG⟩ := hS
      cases junk with
      | cons b junk1 =>
        simp only [List.cons_append, List.cons.injEq] at hR
        obtain ⟨rfl, rfl⟩ := hR
        have hfirst : t.isFirst = false := hj (t, p) List.mem_cons_self
        have hstep : assemble st (RdEv.frame f t p :: evs) = assemble st evs := by
          simp only [assemble, hw, hfirst, Bool.or_false, Bool.false_eq_true, if_false]
        rw [hstep]
        exact (ih st hst).1 hw esR ⟨junk1, GR, rfl, fun x hx => hj x (List.mem_cons_of_mem _ hx), hG⟩
      | nil =>
        simp only [List.nil_append] at hR
        rw [← hR] at hG
        exact firstCase st hst esR hG
    · intro hw _ e gt GR esR hR hne hE hbuf hG
      cases gt with
      | nil => exact absurd rfl hne
      | cons b gt1 =>
        simp only [List.cons_append, List.cons.injEq] at hR
        obtain ⟨rfl, rfl⟩ := hR
        have hE' : t = FrameType.ofFlags false gt1.isEmpty ∧ (gt1 ≠ [] → EntryFrames false gt1) := hE
        have hfirst : t.isFirst = false := by rw [hE'.1]; cases gt1.isEmpty <;> rfl
        have hw2 : (st.within || t.isFirst) = true := by rw [hw]; simp
        cases gt1 with
        | nil =>
          have hlast : t.isLast = true := by rw [hE'.1]; rfl
          rw [assemble_last st f t p evs hlast hw2, hfirst, Gen.entriesOf_cons_entry, hst]
          have hp : st.buf ++ p = e := by simpa [payloadOf] using hbuf
          simp only [Bool.false_eq_true, if_false, hp, List.map_cons]
          exact List.Sublist.cons_cons _ ((ih _ rfl).1 rfl esR ⟨[], GR, rfl, (fun _ h => by cases h), hG⟩)
        | cons b2 gt2 =>
          have hlast : t.isLast = false := by rw [hE'.1]; rfl
          rw [assemble_more st f t p evs hlast hw2, hfirst]
          simp only [Bool.false_eq_true, if_false]
          exact (ih { within := true, buf := st.buf ++ p, attr := st.attr } hst).2.1 rfl rfl e (b2 :: gt2) GR esR rfl
            (by simp) (hE'.2 (by simp)) (by simpa [payloadOf, List.append_assoc] using hbuf) hG
    · intro hw _ gt GR esR hR hD hG
      cases gt with
      | nil =>
        -- the dead run is over: the frame starts the next group
        simp only [List.nil_append] at hR
        rw [← hR] at hG
        exact firstCase st hst esR hG
      | cons b gt1 =>
        simp only [List.cons_append, List.cons.injEq] at hR
        obtain ⟨rfl, rfl⟩ := hR
        rcases hD with hD | ⟨rest, hrest, hE⟩
        · cases hD
        · have hne2 : gt1 ++ rest ≠ [] := by simp [hrest]
          have hE' : t = FrameType.ofFlags false (gt1 ++ rest).isEmpty ∧
              (gt1 ++ rest ≠ [] → EntryFrames false (gt1 ++ rest)) := hE
          have hemp : (gt1 ++ rest).isEmpty = false := by simpa using hne2
          have hfirst : t.isFirst = false := by rw [hE'.1, hemp]; rfl
          have hlast : t.isLast = false := by rw [hE'.1, hemp]; rfl
          have hw2 : (st.within || t.isFirst) = true := by rw [hw]; simp
          rw [assemble_more st f t p evs hlast hw2]
          exact (ih { within := true, buf := (if t.isFirst then [] else st.buf) ++ p, attr := st.attr } hst).2.2
            rfl rfl gt1 GR esR rfl (Or.inr ⟨rest, hrest, hE'.2 hne2⟩) hG
  | @skip R' sk evs _ ih =>
    intro st hst
    refine ⟨fun hw esR hS => ?_, (fun _ ht => by cases ht), (fun _ ht => by cases ht)⟩
    obtain ⟨esR', hS', hsub⟩ := ShapeX.drop hS
    exact ((ih st hst).1 hw esR' hS').trans (hsub.map _)

end MRL.Img
