/-
From tagged frames to replayed entries: `assemble` over the frame events of a list of journal
segments (one `EntryFrames true` group per journal entry, preceded by non-first "lead" frames)
delivers one record event per entry, attributed to the tag of the last frame of the previous
segment; replaying those events is `replayJ`.
-/
import MRL.Proofs.GRead
import MRL.Proofs.Journal
import MRL.Props.C07

namespace MRL.G
open MRL Codec Consts

/-- tag of the last frame (`d` if there is none) -/
def lastTag (fs : List TFrm) (d : Nat) : Nat := (fs.getLast?.map (·.1)).getD d

theorem lastTag_cons_cons (a b : TFrm) (fs : List TFrm) (d : Nat) :
    lastTag (a :: b :: fs) d = lastTag (b :: fs) d := by
  simp [lastTag, List.getLast?_cons_cons]

theorem evsOf_append (a b : List TFrm) : evsOf (a ++ b) = evsOf a ++ evsOf b := by simp [evsOf]

theorem evsOf_cons (a : TFrm) (fs : List TFrm) : evsOf (a :: fs) = RdEv.frame a.1 a.2.1 a.2.2 :: evsOf fs := rfl

/-- non-first frames met outside an entry are skipped -/
theorem assemble_lead (st : AsmSt) (hst : st.within = false) : ∀ (lead : List TFrm) (evs : List RdEv),
    (∀ a ∈ lead, a.2.1.isFirst = false) → assemble st (evsOf lead ++ evs) = assemble st evs := by
  intro lead
  induction lead with
  | nil => intro evs _; rfl
  | cons a lead ih =>
    intro evs h
    have h1 := h a List.mem_cons_self
    rw [evsOf_cons, List.cons_append]
    simp only [assemble, hst, h1, Bool.or_self, Bool.false_eq_true, if_false]
    exact ih evs fun a' ha' => h a' (List.mem_cons_of_mem _ ha')

theorem assemble_tagged (afs : List TFrm) :
    ∀ (b : Bool) (st : AsmSt) (evs : List RdEv), EntryFrames b (untag afs) → (b = true ∨ st.within = true) →
      assemble st (evsOf afs ++ evs) =
        RecEv.entry st.attr ((if b then [] else st.buf) ++ payloadOf (untag afs)) ::
          assemble { within := false, buf := (if b then [] else st.buf) ++ payloadOf (untag afs),
                     attr := lastTag afs 0 } evs := by
  induction afs with
  | nil => intro b st evs h; exact h.elim
  | cons a afs ih =>
    intro b st evs h hw
    obtain ⟨f, t, p⟩ := a
    simp only [untag, List.map_cons] at h
    obtain ⟨ht, htail⟩ := h
    simp only at ht
    have hfirst : t.isFirst = b := by
      subst ht; cases b <;> cases (List.map (fun x : TFrm => x.2) afs) <;> rfl
    have hw2 : (st.within || t.isFirst) = true := by
      rw [hfirst]; rcases hw with h | h <;> simp [h]
    cases afs with
    | nil =>
      have hlast : t.isLast = true := by subst ht; cases b <;> rfl
      show assemble st (RdEv.frame f t p :: evs) = _
      rw [assemble_last st f t p evs hlast hw2, hfirst]
      simp [untag, lastTag]
    | cons a2 afs =>
      have h2 := htail (by simp)
      have hlast : t.isLast = false := by subst ht; cases b <;> rfl
      show assemble st (RdEv.frame f t p :: (evsOf (a2 :: afs) ++ evs)) = _
      rw [assemble_more st f t p _ hlast hw2, hfirst, ih false _ evs h2 (Or.inr rfl), lastTag_cons_cons]
      simp [untag, List.append_assoc]

/-! ### journal segments -/

/-- a journal entry with its tagged frames -/
abbrev Seg := JE × List TFrm

structure SegOK (s : Seg) : Prop where
  frames : EntryFrames true (untag s.2)
  payload : payloadOf (untag s.2) = s.1.e.encode
  first : ∀ a, s.2.head? = some a → a.1 = s.1.loc

/-- what `assemble` delivers: each entry attributed to the tag of the last frame before it -/
def readerOut : Nat → List Seg → List RecEv
  | _, [] => []
  | a, s :: rest => .entry a s.1.e.encode :: readerOut (lastTag s.2 0) rest

theorem assemble_segs : ∀ (segs : List Seg) (a : Nat) (buf : Bytes), (∀ s ∈ segs, SegOK s) →
    assemble { within := false, buf := buf, attr := a } (evsOf (segs.flatMap (·.2))) = readerOut a segs := by
  intro segs
  induction segs with
  | nil => intro a buf _; simp [evsOf, assemble, readerOut]
  | cons s segs ih =>
    intro a buf h
    have hs := h s List.mem_cons_self
    rw [List.flatMap_cons, evsOf_append,
      assemble_tagged s.2 true _ _ hs.frames (Or.inl rfl)]
    simp only [if_true, List.nil_append, hs.payload, readerOut]
    rw [ih _ _ fun s' hs' => h s' (List.mem_cons_of_mem _ hs')]

/-- the reader's attributions are the journal's (clamped at `F`) -/
def AttrOK (F : Nat) : Nat → List Seg → Prop
  | _, [] => True
  | a, s :: rest => a = max s.1.attr F ∧ AttrOK F (lastTag s.2 0) rest

/-- consecutive segments: the next entry is attributed to the file where the previous one ended -/
def Chain : List Seg → Prop
  | [] => True
  | [_] => True
  | s1 :: s2 :: rest => lastTag s1.2 0 = s2.1.attr ∧ Chain (s2 :: rest)

theorem Chain.tail {s : Seg} {rest : List Seg} (h : Chain (s :: rest)) : Chain rest := by
  cases rest with
  | nil => trivial
  | cons s2 rest => exact h.2

theorem lastTag_ge {F : Nat} {fs : List TFrm} (hne : fs ≠ []) (h : ∀ x ∈ fs, F ≤ x.1) :
    F ≤ lastTag fs 0 := by
  unfold lastTag
  cases hl : fs.getLast? with
  | none => rw [List.getLast?_eq_none_iff] at hl; exact absurd hl hne
  | some a => exact h a (List.mem_of_getLast? hl)

theorem AttrOK_of_chain (F : Nat) : ∀ (segs : List Seg) (a : Nat),
    (∀ s ∈ segs, s.2 ≠ [] ∧ ∀ x ∈ s.2, F ≤ x.1) → Chain segs →
    (∀ s, segs.head? = some s → a = max s.1.attr F) → AttrOK F a segs := by
  intro segs
  induction segs with
  | nil => intro a _ _ _; trivial
  | cons s segs ih =>
    intro a hs hc hh
    refine ⟨hh s rfl, ih _ (fun s' hs' => hs s' (List.mem_cons_of_mem _ hs')) hc.tail ?_⟩
    intro s2 h2
    cases segs with
    | nil => cases h2
    | cons s2' rest =>
      simp only [List.head?_cons, Option.some.injEq] at h2
      subst h2
      have h1 := hc.1
      have h3 := lastTag_ge (hs s List.mem_cons_self).1 (hs s List.mem_cons_self).2
      rw [← h1]; omega

theorem replay_readerOut (F : Nat) : ∀ (segs : List Seg) (a : Nat) (qs : MemQueues),
    (∀ s ∈ segs, C07.WF s.1.e ∧ F ≤ s.1.loc) → AttrOK F a segs →
    replay qs (readerOut a segs) = replayJ F qs (segs.map (·.1)) := by
  intro segs
  induction segs with
  | nil => intro a qs _ _; rfl
  | cons s segs ih =>
    intro a qs hw ha
    obtain ⟨h1, h2⟩ := hw s List.mem_cons_self
    have hn : ¬ s.1.loc < F := by omega
    simp only [readerOut, replay, C07.decode_encode _ h1, List.map_cons, replayJ, hn, if_false, ← ha.1]
    cases replayEntry qs a s.1.e with
    | none => rfl
    | some qs' =>
      simp only [Option.bind_some]
      exact ih _ qs' (fun s' hs' => hw s' (List.mem_cons_of_mem _ hs')) ha.2

theorem replayJ_filter (F : Nat) : ∀ (J : List JE) (qs : MemQueues),
    replayJ F qs J = replayJ F qs (J.filter fun j => decide (F ≤ j.loc)) := by
  intro J
  induction J with
  | nil => intro qs; rfl
  | cons j J ih =>
    intro qs
    by_cases h : j.loc < F
    · have : decide (F ≤ j.loc) = false := by simp; omega
      simp only [replayJ, h, if_true, List.filter_cons, this, Bool.false_eq_true, if_false]
      exact ih qs
    · have : decide (F ≤ j.loc) = true := by simp; omega
      simp only [replayJ, h, if_false, List.filter_cons, this, if_true]
      cases replayEntry qs (max j.attr F) j.e with
      | none => rfl
      | some qs' => simp only [Option.bind_some]; exact ih qs'

end MRL.G
