/-
One call seen from the journal: the journal entries `stepJ` writes are well formed and ordered
(`Chunk`), and replaying them on the in-memory queues of the log gives exactly the queues after
`step` (the GC touches being no-ops). Shape of `runGc`.
-/
import MRL.Proofs.JWriter
import MRL.Proofs.JCongr

namespace MRL
open C05

/-- journal entries as the log writes them: an append carries consecutively numbered payloads -/
def EntryWF : Entry → Prop
  | .append _ pos recs => ∃ pls, pls ≠ [] ∧ recs = Log.numberFrom pos pls
  | _ => True

/-- a piece of journal written while the writer's current file went from `c` to `c'` -/
structure Chunk (c : Nat) (js : List JE) (c' : Nat) : Prop where
  le : c ≤ c'
  bounds : ∀ j ∈ js, c ≤ j.attr ∧ j.attr ≤ j.loc ∧ j.loc ≤ c'
  mono : js.Pairwise (fun a b => a.loc ≤ b.loc)
  wf : ∀ j ∈ js, EntryWF j.e

theorem Chunk.nil {c c' : Nat} (h : c ≤ c') : Chunk c [] c' := by
  refine ⟨h, ?_, List.Pairwise.nil, ?_⟩
  · intro j hj; cases hj
  · intro j hj; cases hj

theorem Chunk.append {c c1 c2 : Nat} {a b : List JE} (ha : Chunk c a c1) (hb : Chunk c1 b c2) :
    Chunk c (a ++ b) c2 := by
  refine ⟨Nat.le_trans ha.le hb.le, ?_, ?_, ?_⟩
  · intro j hj
    rcases List.mem_append.mp hj with h | h
    · have := ha.bounds j h; have := hb.le; omega
    · have := hb.bounds j h; have := ha.le; omega
  · rw [List.pairwise_append]
    refine ⟨ha.mono, hb.mono, ?_⟩
    intro x hx y hy
    have := ha.bounds x hx; have := hb.bounds y hy; omega
  · intro j hj
    rcases List.mem_append.mp hj with h | h
    · exact ha.wf j h
    · exact hb.wf j h

namespace Log

theorem je_chunk (g : Geom) (l : Log) (e : Entry) (hwf : FilesWF l) (he : EntryWF e) :
    Chunk l.cur [l.je g e] (writeEntry g l e).1.cur := by
  have h1 := nextLoc_ge g l
  have h2 := writeEntry_cur_ge_nextLoc g l e hwf
  refine ⟨Nat.le_trans h1 h2, ?_, List.pairwise_singleton _ _, ?_⟩
  · intro j hj
    simp only [List.mem_singleton] at hj; subst hj
    exact ⟨Nat.le_refl _, h1, h2⟩
  · intro j hj
    simp only [List.mem_singleton] at hj; subst hj
    exact he

theorem touchesJ_chunk (g : Geom) (names : List Bytes) : ∀ l : Log, FilesWF l →
    Chunk l.cur (touchesJ g l names) (writeTouches g l names).1.cur := by
  induction names with
  | nil => intro l _; exact Chunk.nil (Nat.le_refl _)
  | cons n ns ih =>
    intro l hwf
    rw [touchesJ_cons, writeTouches_cons]
    have h1 := je_chunk g l (.touch n (touchNext l n)) hwf trivial
    have h2 := ih _ (writeEntry_grow g l (.touch n (touchNext l n)) hwf).wf
    exact Chunk.append h1 h2

theorem touchesJ_entries (g : Geom) (names : List Bytes) : ∀ l : Log,
    (touchesJ g l names).map (fun j => j.e.queue) = names ∧
    ∀ j ∈ touchesJ g l names, ∃ n p, j.e = .touch n p := by
  induction names with
  | nil => intro l; exact ⟨rfl, fun _ h => by cases h⟩
  | cons n ns ih =>
    intro l
    rw [touchesJ_cons]
    obtain ⟨i1, i2⟩ := ih (writeEntry g l (.touch n (touchNext l n))).1
    refine ⟨by rw [List.map_cons, i1]; rfl, ?_⟩
    intro j hj
    rcases List.mem_cons.mp hj with rfl | hj
    · exact ⟨n, _, rfl⟩
    · exact i2 j hj

/-! ### empty queue names -/

theorem mem_emptyNames {qs : MemQueues} (hn : (qs.map (·.1)).Nodup) (n : Bytes) :
    n ∈ qs.emptyNames ↔ ∃ q, qs.get? n = some q ∧ q.recs = [] := by
  unfold MemQueues.emptyNames
  simp only [List.mem_map, List.mem_filter]
  constructor
  · rintro ⟨kv, ⟨hm, he⟩, rfl⟩
    refine ⟨kv.2, AL.get?_of_mem_nodup hn hm, ?_⟩
    simpa [MemQueue.isEmpty] using he
  · rintro ⟨q, hg, he⟩
    refine ⟨(n, q), ⟨AL.get?_mem hg, ?_⟩, rfl⟩
    simp [MemQueue.isEmpty, he]

theorem emptyNames_nodup {qs : MemQueues} (hn : (qs.map (·.1)).Nodup) : qs.emptyNames.Nodup := by
  unfold MemQueues.emptyNames
  exact (List.filter_sublist.map _).nodup hn

theorem subset_of_nodup_length {a : List Bytes} (ha : a.Nodup) : ∀ b : List Bytes,
    (∀ x ∈ a, x ∈ b) → b.length ≤ a.length → ∀ x ∈ b, x ∈ a := by
  induction a with
  | nil =>
    intro b _ hl x hx
    have : b = [] := List.eq_nil_of_length_eq_zero (Nat.le_zero.mp hl)
    rw [this] at hx; cases hx
  | cons y a ih =>
    intro b hs hl x hx
    rw [List.nodup_cons] at ha
    have hy : y ∈ b := hs y List.mem_cons_self
    have h1 : ∀ z ∈ a, z ∈ b.erase y := by
      intro z hz
      have hne : z ≠ y := fun e => ha.1 (e ▸ hz)
      exact (List.mem_erase_of_ne hne).mpr (hs z (List.mem_cons_of_mem _ hz))
    have h2 : (b.erase y).length ≤ a.length := by
      rw [List.length_erase_of_mem hy]
      simp only [List.length_cons] at hl
      omega
    by_cases hxy : x = y
    · subst hxy; exact List.mem_cons_self
    · exact List.mem_cons_of_mem _ (ih ha.2 _ h1 h2 x ((List.mem_erase_of_ne hxy).mpr hx))

theorem isPermOf_mem {a b : List Bytes} (hb : b.Nodup) (h : isPermOf a b = true) :
    ∀ x, x ∈ a ↔ x ∈ b := by
  unfold isPermOf at h
  simp only [Bool.and_eq_true, beq_iff_eq, List.all_eq_true] at h
  obtain ⟨hl, hc⟩ := h
  have hcb : ∀ x, b.count x ≤ 1 := List.nodup_iff_count.mp hb
  have hab : ∀ x ∈ a, x ∈ b := by
    intro x hx
    have h1 : 0 < a.count x := List.count_pos_iff.mpr hx
    have h2 := hc x hx
    exact List.count_pos_iff.mp (by omega)
  have ha : a.Nodup := by
    rw [List.nodup_iff_count]
    intro x
    by_cases hx : x ∈ a
    · have := hc x hx; have := hcb x; omega
    · rw [List.count_eq_zero.mpr hx]; omega
  intro x
  exact ⟨hab x, subset_of_nodup_length ha b hab (by omega) x⟩

/-! ### shape of `runGc` -/

theorem runGc_shape (g : Geom) (l : Log) (order : List Bytes) (hn : (l.queues.map (·.1)).Nodup) :
    (gcJ g l order = [] ∧ (runGc g l order).1 = l) ∨
    (∃ names rem del,
      gcJ g l order = touchesJ g l names ∧
      (runGc g l order).1 = { (writeTouches g l names).1 with files := rem } ∧
      gcFiles ((writeTouches g l names).1.canDelete l.cur) (writeTouches g l names).1.files = (rem, del) ∧
      (∀ n, n ∈ names ↔ n ∈ l.queues.emptyNames)) := by
  cases hf : l.files with
  | nil => left; constructor <;> simp [gcJ, runGc, hf]
  | cons f fs =>
    cases fs with
    | nil => left; constructor <;> simp [gcJ, runGc, hf]
    | cons f' rest =>
      by_cases hc : l.canDelete l.cur f = true
      · right
        have hnames0 : ∀ n, n ∈ (if isPermOf order l.queues.emptyNames then order
            else l.queues.emptyNames) ↔ n ∈ l.queues.emptyNames := by
          intro n
          split
          · rename_i hp; exact isPermOf_mem (emptyNames_nodup hn) hp n
          · exact Iff.rfl
        generalize hnm : (if isPermOf order l.queues.emptyNames then order
            else l.queues.emptyNames) = names at hnames0
        rcases hwt : writeTouches g l names with ⟨l1, e1, n⟩
        rcases hg : gcFiles (l1.canDelete l.cur) l1.files with ⟨rem, del⟩
        refine ⟨names, rem, del, ?_, ?_, ?_, hnames0⟩
        · simp only [gcJ, hf, hc, if_true, hnm]
        · simp only [runGc, hf, hc, if_true, hnm, hwt, hg]
        · simp only [hwt]; exact hg
      · left; constructor <;> simp [gcJ, runGc, hf, hc]

/-! ### exact replay of the touches -/

theorem ackPosition_noop {qs : MemQueues} {n : Bytes} {q : MemQueue} (hg : qs.get? n = some q)
    (he : q.recs = []) : qs.ackPosition n q.nextPosition = qs := by
  unfold MemQueues.ackPosition
  simp only [hg, MemQueue.isEmpty, he, List.isEmpty_nil, Bool.not_true, bne_self_eq_false,
    Bool.or_self, Bool.false_eq_true, if_false]

theorem touches_replay (g : Geom) (F : Nat) (names : List Bytes) : ∀ l : Log, FilesWF l →
    F ≤ l.cur → (l.queues.map (·.1)).Nodup → (∀ n ∈ names, n ∈ l.queues.emptyNames) →
    replayJ F l.queues (touchesJ g l names) = some l.queues := by
  induction names with
  | nil => intro l _ _ _ _; rfl
  | cons n ns ih =>
    intro l hwf hF hn hsub
    rw [touchesJ_cons]
    have hloc : ¬ (l.je g (.touch n (touchNext l n))).loc < F := by
      have := nextLoc_ge g l
      simp only [je]; omega
    obtain ⟨q, hg, he⟩ := (mem_emptyNames hn n).mp (hsub n List.mem_cons_self)
    have hnext : touchNext l n = q.nextPosition := by simp only [touchNext, hg]
    simp only [replayJ, hloc, if_false]
    have hre : replayEntry l.queues (max (l.je g (.touch n (touchNext l n))).attr F)
        (l.je g (.touch n (touchNext l n))).e = some l.queues := by
      simp only [je, replayEntry, hnext, ackPosition_noop hg he]
    rw [hre, Option.bind_some]
    have hgrow := writeEntry_grow g l (.touch n (touchNext l n)) hwf
    have := ih (writeEntry g l (.touch n (touchNext l n))).1 hgrow.wf
      (Nat.le_trans hF hgrow.cur_le) (by rw [hgrow.queues]; exact hn)
      (by rw [hgrow.queues]; exact fun m hm => hsub m (List.mem_cons_of_mem _ hm))
    rw [hgrow.queues] at this
    exact this

/-! ### shape of one call -/

/-- what a call does, in journal terms: nothing; one entry; or one entry followed by a GC pass -/
theorem step_shape (g : Geom) (l : Log) (hI : Inv l) (c : Call) (tick : Bool) (order : List Bytes) :
    (l.stepJ g c order = [] ∧ (l.step g c tick order).1 = l) ∨
    (∃ e qs', EntryWF e ∧ replayEntry l.queues l.cur e = some qs' ∧
      ((l.stepJ g c order = [l.je g e] ∧
          (l.step g c tick order).1 = { (writeEntry g l e).1 with queues := qs' }) ∨
       (l.stepJ g c order = l.je g e :: gcJ g { (writeEntry g l e).1 with queues := qs' } order ∧
          (l.step g c tick order).1 =
            (runGc g { (writeEntry g l e).1 with queues := qs' } order).1))) := by
  cases c with
  | persist a => left; exact ⟨rfl, rfl⟩
  | create q =>
    cases hc : l.queues.contains q with
    | true => left; simp [stepJ, step, hc]
    | false =>
      right
      have hg : l.queues.get? q = none := by
        rw [MemQueues.contains_isSome] at hc
        cases h : l.queues.get? q with
        | none => rfl
        | some _ => rw [h] at hc; cases hc
      refine ⟨.touch q 0, l.queues.set q {}, trivial, ?_, Or.inl ⟨by simp [stepJ, hc], ?_⟩⟩
      · simp only [replayEntry, MemQueues.ackPosition, hg]; rfl
      · rcases hw : writeEntry g l (.touch q 0) with ⟨l1, e1, n⟩
        have h1 : l1.queues = l.queues := by
          have := writeEntry_queues g l (.touch q 0); rwa [hw] at this
        simp only [step, hc, hw, h1]
        rfl
  | delete q =>
    cases hg : l.queues.get? q with
    | none => left; simp [stepJ, step, hg]
    | some mq =>
      right
      refine ⟨.delete q mq.nextPosition, l.queues.remove q, trivial, rfl, Or.inr ⟨?_, ?_⟩⟩
      · simp only [stepJ, hg, writeEntry_queues]
      · rcases hw : writeEntry g l (.delete q mq.nextPosition) with ⟨l1, e1, n1⟩
        have h1 : l1.queues = l.queues := by
          have := writeEntry_queues g l (.delete q mq.nextPosition); rwa [hw] at this
        rcases hgc : runGc g { l1 with queues := l.queues.remove q } order with ⟨l3, e3, n3⟩
        simp only [step, hg, hw, h1, hgc]
  | truncate q p =>
    cases hg : l.queues.get? q with
    | none => left; simp [stepJ, step, hg]
    | some mq =>
      right
      refine ⟨.truncate q p, l.queues.set q (mq.truncateHead p).1, trivial, ?_, Or.inr ⟨?_, ?_⟩⟩
      · simp only [replayEntry, hg]
      · simp only [stepJ, hg, writeEntry_queues]
      · rcases hw : writeEntry g l (.truncate q p) with ⟨l1, e1, n1⟩
        have h1 : l1.queues = l.queues := by
          have := writeEntry_queues g l (.truncate q p); rwa [hw] at this
        rcases hgc : runGc g { l1 with queues := l.queues.set q (mq.truncateHead p).1 } order
          with ⟨l3, e3, n3⟩
        simp only [step, hg, hw, h1, hgc]
  | append q pos? pls =>
    cases hg : l.queues.get? q with
    | none => left; simp [stepJ, step, hg]
    | some mq =>
      have hmq := hI.get hg
      by_cases hretry : ∃ p, pos? = some p ∧ p + 1 = mq.nextPosition
      · obtain ⟨p, rfl, hp⟩ := hretry
        left; simp [stepJ, step, hg, hp]
      by_cases hpast : ∃ p, pos? = some p ∧ p < mq.nextPosition
      · obtain ⟨p, rfl, hp⟩ := hpast
        have hp1 : p + 1 ≠ mq.nextPosition := fun h => hretry ⟨p, rfl, h⟩
        left; simp [stepJ, step, hg, hp, hp1]
      have hp : ∀ p, pos? = some p → mq.nextPosition ≤ p := by
        intro p h
        have : ¬ p < mq.nextPosition := fun h' => hpast ⟨p, h, h'⟩
        omega
      cases hpl : pls with
      | nil =>
        left
        cases pos? with
        | none => simp [stepJ, step, hg]
        | some p =>
          have := hp p rfl
          have h1 : ¬ (p + 1 = mq.nextPosition) := by omega
          have h2 : ¬ (p < mq.nextPosition) := by omega
          simp [stepJ, step, hg, h1, h2]
      | cons pl pls' =>
        right
        rw [← hpl]
        have hne : pls ≠ [] := by rw [hpl]; simp
        have hemp : pls.isEmpty = false := by rw [hpl]; rfl
        have hpos : mq.nextPosition ≤ appendPos mq pos? := by
          cases pos? with
          | none => exact Nat.le_refl _
          | some p => exact hp p rfl
        obtain ⟨mq', hall, _, _, _, _⟩ :=
          appendAll_spec l.cur pls mq (appendPos mq pos?) hmq.1 hmq.2 hpos
        have hcont : l.queues.contains q = true := by rw [MemQueues.contains_isSome, hg]; rfl
        refine ⟨.append q (appendPos mq pos?) (numberFrom (appendPos mq pos?) pls),
          l.queues.set q mq', ⟨pls, hne, rfl⟩, ?_, Or.inl ⟨?_, ?_⟩⟩
        · simp only [replayEntry, hcont, if_true, hg, hall, Option.map_some]
        · cases pos? with
          | none => simp only [stepJ, hg, hemp, appendPos]; rfl
          | some p =>
            have := hp p rfl
            have h1 : ¬ (p + 1 = mq.nextPosition) := by omega
            have h2 : ¬ (p < mq.nextPosition) := by omega
            simp only [stepJ, hg, h1, h2, if_false, hemp, appendPos]
            rfl
        · rcases hw : writeEntry g l (.append q (appendPos mq pos?) (numberFrom (appendPos mq pos?) pls))
            with ⟨l1, e1, n1⟩
          have h1 : l1.queues = l.queues := by
            have := writeEntry_queues g l
              (.append q (appendPos mq pos?) (numberFrom (appendPos mq pos?) pls))
            rwa [hw] at this
          cases pos? with
          | none =>
            simp only [appendPos] at hall hw ⊢
            simp only [step, hg, hemp, hw, hall, h1]
            rfl
          | some p =>
            have := hp p rfl
            have hp1 : ¬ (p + 1 = mq.nextPosition) := by omega
            have hp2 : ¬ (p < mq.nextPosition) := by omega
            simp only [appendPos] at hall hw ⊢
            simp only [step, hg, hp1, hp2, if_false, hemp, hw, hall, h1]
            rfl

end Log
end MRL
