/-
What the effects of a history look like, for the lazy-directory analysis:
* `SyncPat`: every `fsync(file)` is immediately followed by `fsync(dir)`;
* `CEPat` / `ce_pend`: a `create` or an `ensureLen` is issued only when no unlink is pending (right
  after `fsync(dir)` for a roll-over; at a `reopen`, because of `noReopenPend`);
* `unl_present`: a file is there when it is unlinked;
* `und_of_pend`: no pending unlink in the model when none is pending in the effect list.
-/
import MRL.Proofs.PDCRun
import MRL.Proofs.PDCSem

namespace MRL.PDC
open MRL Codec Consts G H Torn Log Buf C05 C01J L PX PD P

/-! ### `fsync(file)` is followed by `fsync(dir)` -/

def SyncPat (es : List Effect) : Prop := ∀ i f, es[i]? = some (Effect.fsyncFile f) → es[i + 1]? = some Effect.fsyncDir

theorem syncPat_of_none {es : List Effect} (h : ∀ f, Effect.fsyncFile f ∉ es) : SyncPat es :=
  fun i f hi => absurd (List.mem_of_getElem? hi) (h f)

theorem SyncPat.append {a b : List Effect} (ha : SyncPat a) (hb : SyncPat b) : SyncPat (a ++ b) := by
  intro i f hi
  by_cases hlt : i < a.length
  · rw [List.getElem?_append_left hlt] at hi
    have h1 := ha i f hi
    have hlt' : i + 1 < a.length := by
      apply Classical.byContradiction
      intro hn
      rw [List.getElem?_eq_none (by omega)] at h1; cases h1
    rw [List.getElem?_append_left hlt']; exact h1
  · rw [List.getElem?_append_right (by omega)] at hi
    have h1 := hb _ f hi
    rw [List.getElem?_append_right (by omega)]
    have : i + 1 - a.length = i - a.length + 1 := by omega
    rw [this]; exact h1

theorem syncPat_persist (l : Log) (a : PersistAction) : SyncPat (l.persistEffects a) := by
  intro i f hi
  cases a with
  | flush => rcases i with _ | i <;> simp [persistEffects] at hi
  | flushAndFsync =>
    rcases i with _ | _ | _ | i <;> simp [persistEffects] at hi ⊢

theorem syncPat_writeBuf (g : Geom) (l : Log) (buf : Bytes) : SyncPat (writeBuf g l buf).2 := by
  by_cases hb : buf = []
  · subst hb; simp only [writeBuf]; exact syncPat_of_none (fun _ h => by cases h)
  · by_cases hroll : l.off + buf.length > g.fileBytes
    · cases hn : nextFile l.files l.cur with
      | none =>
        rw [L.writeBuf_roll_none g l buf hb hroll hn]
        intro i f hi
        rcases i with _ | _ | _ | _ | _ | _ | i <;> simp at hi ⊢
      | some nf =>
        rw [L.writeBuf_roll_some g l buf hb hroll nf hn]
        intro i f hi
        rcases i with _ | _ | _ | _ | _ | _ | i <;> simp at hi ⊢
    · rw [L.writeBuf_noroll g l buf hb hroll]
      exact syncPat_of_none (fun f h => by simp at h)

theorem syncPat_writeBufs (g : Geom) (bufs : List Bytes) : ∀ l : Log, SyncPat (writeBufs g l bufs).2 := by
  induction bufs with
  | nil => intro l; exact syncPat_of_none (fun _ h => by cases h)
  | cons b bs ih => intro l; rw [Step.writeBufs_cons]; exact (syncPat_writeBuf g l b).append (ih _)

theorem syncPat_writeEntry (g : Geom) (l : Log) (e : Entry) : SyncPat (Log.writeEntry g l e).2.1 := by
  rw [Step.writeEntry_eq]; exact syncPat_writeBufs g _ l

theorem syncPat_writeTouches (g : Geom) (names : List Bytes) : ∀ l : Log, SyncPat (writeTouches g l names).2.1 := by
  induction names with
  | nil => intro l; exact syncPat_of_none (fun _ h => by cases h)
  | cons n ns ih => intro l; rw [Step.writeTouches_cons]; exact (syncPat_writeEntry g l _).append (ih _)

theorem syncPat_unlinks (fs : List Nat) : SyncPat (fs.map Effect.unlink) :=
  syncPat_of_none (fun f h => by obtain ⟨x, _, hx⟩ := List.mem_map.mp h; cases hx)

theorem syncPat_runGc (g : Geom) (l : Log) (order : List Bytes) : SyncPat (runGc g l order).2.1 := by
  rcases G.runGc_full g l order with ⟨h1, _⟩ | ⟨names, _, h2⟩
  · rw [h1]; exact syncPat_of_none (fun _ h => by cases h)
  · rw [h2]
    exact ((syncPat_writeTouches g names l).append (syncPat_persist _ _)).append (syncPat_unlinks _)

theorem syncPat_tailSync (l : Log) (c : Call) (tick : Bool) : SyncPat (Step.tailSync l c tick) := by
  unfold Step.tailSync
  split
  · exact syncPat_persist _ _
  · unfold policyEffects
    split
    · exact syncPat_persist _ _
    · split
      · exact syncPat_persist _ _
      · exact syncPat_of_none (fun _ h => by cases h)
    · exact syncPat_of_none (fun _ h => by cases h)

theorem syncPat_step (g : Geom) (l : Log) (c : Call) (tick : Bool) (order : List Bytes) :
    SyncPat (l.step g c tick order).2.2 := by
  rcases Step.step_shape2 g l c tick order with ⟨out, hs⟩ | ⟨a, _, hs⟩ | ⟨e, qs', out, hs⟩
  · rw [hs]; exact syncPat_of_none (fun _ h => by cases h)
  · rw [hs]; exact syncPat_persist l a
  · rw [hs]
    simp only
    cases hgc : Step.isGcCall c with
    | false =>
      simp only [hgc, Bool.false_eq_true, if_false, List.append_nil]
      exact (syncPat_writeEntry g l e).append (syncPat_tailSync _ c tick)
    | true =>
      simp only [hgc, if_true]
      exact ((syncPat_writeEntry g l e).append (syncPat_runGc g _ order)).append (syncPat_tailSync _ c tick)

/-! ### `create` / `ensureLen` only with nothing pending -/

def CEPat (es : List Effect) : Prop :=
  ∀ i e, es[i]? = some e → isCE e = true → ∀ p, pendAfter p (es.take i) = false

theorem cePat_of_none {es : List Effect} (h : ∀ e ∈ es, isCE e = false) : CEPat es := by
  intro i e hi hce
  have := h e (List.mem_of_getElem? hi)
  rw [this] at hce; cases hce

theorem CEPat.append {a b : List Effect} (ha : CEPat a) (hb : CEPat b) : CEPat (a ++ b) := by
  intro i e hi hce p
  by_cases hlt : i < a.length
  · rw [List.getElem?_append_left hlt] at hi
    rw [List.take_append_of_le_length (by omega)]
    exact ha i e hi hce p
  · rw [List.getElem?_append_right (by omega)] at hi
    rw [List.take_append, List.take_of_length_le (by omega), pendAfter_append]
    exact hb _ e hi hce _

theorem cePat_writeBuf (g : Geom) (l : Log) (buf : Bytes) : CEPat (writeBuf g l buf).2 := by
  by_cases hb : buf = []
  · subst hb; simp only [writeBuf]; exact cePat_of_none (fun _ h => by cases h)
  · by_cases hroll : l.off + buf.length > g.fileBytes
    · cases hn : nextFile l.files l.cur with
      | none =>
        rw [L.writeBuf_roll_none g l buf hb hroll hn]
        intro i e hi hce p
        simp only [List.cons_append, List.nil_append] at hi ⊢
        rcases i with _ | _ | _ | _ | _ | _ | i
        · simp at hi; subst hi; cases hce
        · simp at hi; subst hi; cases hce
        · simp at hi; subst hi; cases hce
        · show pendAfter p [Effect.flush, Effect.fsyncFile l.cur, Effect.fsyncDir] = false
          simp [pendAfter, isDS, isUnl]
        · simp at hi; subst hi; cases hce
        · simp at hi; subst hi; cases hce
        · simp at hi
      | some nf =>
        rw [L.writeBuf_roll_some g l buf hb hroll nf hn]
        intro i e hi hce p
        simp only [List.cons_append, List.nil_append] at hi ⊢
        rcases i with _ | _ | _ | _ | _ | _ | i
        · simp at hi; subst hi; cases hce
        · simp at hi; subst hi; cases hce
        · simp at hi; subst hi; cases hce
        · simp at hi; subst hi; cases hce
        · show pendAfter p [Effect.flush, Effect.fsyncFile l.cur, Effect.fsyncDir, Effect.openFile nf] = false
          simp [pendAfter, isDS, isUnl]
        · simp at hi; subst hi; cases hce
        · simp at hi
    · rw [L.writeBuf_noroll g l buf hb hroll]
      exact cePat_of_none (fun e h => by simp at h; subst h; rfl)

theorem cePat_writeBufs (g : Geom) (bufs : List Bytes) : ∀ l : Log, CEPat (writeBufs g l bufs).2 := by
  induction bufs with
  | nil => intro l; exact cePat_of_none (fun _ h => by cases h)
  | cons b bs ih => intro l; rw [Step.writeBufs_cons]; exact (cePat_writeBuf g l b).append (ih _)

theorem cePat_writeEntry (g : Geom) (l : Log) (e : Entry) : CEPat (Log.writeEntry g l e).2.1 := by
  rw [Step.writeEntry_eq]; exact cePat_writeBufs g _ l

theorem cePat_writeTouches (g : Geom) (names : List Bytes) : ∀ l : Log, CEPat (writeTouches g l names).2.1 := by
  induction names with
  | nil => intro l; exact cePat_of_none (fun _ h => by cases h)
  | cons n ns ih => intro l; rw [Step.writeTouches_cons]; exact (cePat_writeEntry g l _).append (ih _)

theorem cePat_persist (l : Log) (a : PersistAction) : CEPat (l.persistEffects a) := by
  apply cePat_of_none
  intro e h
  cases a <;> simp [persistEffects] at h
  · subst h; rfl
  · rcases h with rfl | rfl | rfl <;> rfl

theorem cePat_unlinks (fs : List Nat) : CEPat (fs.map Effect.unlink) := by
  apply cePat_of_none
  intro e h
  obtain ⟨x, _, rfl⟩ := List.mem_map.mp h
  rfl

theorem cePat_runGc (g : Geom) (l : Log) (order : List Bytes) : CEPat (runGc g l order).2.1 := by
  rcases G.runGc_full g l order with ⟨h1, _⟩ | ⟨names, _, h2⟩
  · rw [h1]; exact cePat_of_none (fun _ h => by cases h)
  · rw [h2]
    exact ((cePat_writeTouches g names l).append (cePat_persist _ _)).append (cePat_unlinks _)

theorem cePat_tailSync (l : Log) (c : Call) (tick : Bool) : CEPat (Step.tailSync l c tick) := by
  unfold Step.tailSync
  split
  · exact cePat_persist _ _
  · unfold policyEffects
    split
    · exact cePat_persist _ _
    · split
      · exact cePat_persist _ _
      · exact cePat_of_none (fun _ h => by cases h)
    · exact cePat_of_none (fun _ h => by cases h)

theorem cePat_step (g : Geom) (l : Log) (c : Call) (tick : Bool) (order : List Bytes) :
    CEPat (l.step g c tick order).2.2 := by
  rcases Step.step_shape2 g l c tick order with ⟨out, hs⟩ | ⟨a, _, hs⟩ | ⟨e, qs', out, hs⟩
  · rw [hs]; exact cePat_of_none (fun _ h => by cases h)
  · rw [hs]; exact cePat_persist l a
  · rw [hs]
    simp only
    cases hgc : Step.isGcCall c with
    | false =>
      simp only [hgc, Bool.false_eq_true, if_false, List.append_nil]
      exact (cePat_writeEntry g l e).append (cePat_tailSync _ c tick)
    | true =>
      simp only [hgc, if_true]
      exact ((cePat_writeEntry g l e).append (cePat_runGc g _ order)).append (cePat_tailSync _ c tick)

/-! ### histories -/

theorem syncPat_hist (g : Geom) (hB : g.B ≤ 65542) (evs : List Ev) : ∀ {l : Log} {J : List JE} {D : Image},
    CInvX g l J D → (∀ j ∈ J, C07.WF j.e) → (∀ j ∈ jourX g l D evs, C07.WF j.e) → TornEffs (effsX g l D evs) →
    SyncPat (effsX g l D evs) := by
  induction evs with
  | nil => intro l J D _ _ _ _; exact syncPat_of_none (fun _ h => by cases h)
  | cons e es ih =>
    intro l J D h hw hwf htorn
    simp only [jourX, effsX] at hwf htorn ⊢
    obtain ⟨⟨J1, hc1, hw1⟩, _, _, _⟩ := ev_facts g hB h hw e
      (fun j hj => hwf j (List.mem_append_left _ hj)) (torn_left htorn)
    refine SyncPat.append ?_ (ih hc1 hw1 (fun j hj => hwf j (List.mem_append_right _ hj)) (torn_right htorn))
    cases e with
    | call c tick order => exact syncPat_step g l c tick order
    | reopen policy order =>
      obtain ⟨J', lp, io, r, _, _, _, _, _, _, _, e2, _⟩ := reopen_eval g hB h hw policy order
      rw [e2]
      have : Effect.flush :: ([Effect.ensureLen (lp.files.headD 0) g.fileBytes] ++ (runGc g lp order).2.1) =
          [Effect.flush, Effect.ensureLen (lp.files.headD 0) g.fileBytes] ++ (runGc g lp order).2.1 := rfl
      rw [this]
      exact (syncPat_of_none (fun f h => by simp at h)).append (syncPat_runGc g lp order)

/-- in a history without `reopen` while unlinks are pending, `create` and `ensureLen` are issued
    only when no unlink is pending -/
theorem ce_pend (g : Geom) (hB : g.B ≤ 65542) (evs : List Ev) : ∀ {l : Log} {J : List JE} {D : Image} (p : Bool),
    CInvX g l J D → (∀ j ∈ J, C07.WF j.e) → (∀ j ∈ jourX g l D evs, C07.WF j.e) → TornEffs (effsX g l D evs) →
    noReopenPend g l D p evs = true →
    ∀ i e, (effsX g l D evs)[i]? = some e → isCE e = true → pendAfter p ((effsX g l D evs).take i) = false := by
  induction evs with
  | nil => intro l J D p _ _ _ _ _ i e hi; simp [effsX] at hi
  | cons ev es ih =>
    intro l J D p h hw hwf htorn hnr i e hi hce
    simp only [jourX, effsX] at hwf htorn hi ⊢
    simp only [noReopenPend, Bool.and_eq_true] at hnr
    obtain ⟨⟨J1, hc1, hw1⟩, _, _, _⟩ := ev_facts g hB h hw ev
      (fun j hj => hwf j (List.mem_append_left _ hj)) (torn_left htorn)
    by_cases hlt : i < (evEffs g l D ev).length
    · rw [List.getElem?_append_left hlt] at hi
      rw [List.take_append_of_le_length (by omega)]
      cases ev with
      | call c tick order => exact cePat_step g l c tick order i e hi hce p
      | reopen policy order =>
        obtain ⟨J', lp, io, r, _, _, _, _, _, _, _, e2, _⟩ := reopen_eval g hB h hw policy order
        have hp : p = false := by simpa using hnr.1
        rw [e2] at hi ⊢
        rcases i with _ | _ | i
        · simp at hi; subst hi; cases hce
        · rw [hp]; rfl
        · simp only [List.cons_append, List.nil_append, List.getElem?_cons_succ] at hi
          have := cePat_runGc g lp order i e hi hce
            (pendAfter p [Effect.flush, Effect.ensureLen (lp.files.headD 0) g.fileBytes])
          simp only [List.cons_append, List.nil_append, List.take_succ_cons]
          have hsplit : Effect.flush :: Effect.ensureLen (lp.files.headD 0) g.fileBytes ::
              List.take i (runGc g lp order).2.1 =
              [Effect.flush, Effect.ensureLen (lp.files.headD 0) g.fileBytes] ++ List.take i (runGc g lp order).2.1 := rfl
          rw [hsplit, pendAfter_append]
          exact this
    · rw [List.getElem?_append_right (by omega)] at hi
      rw [List.take_append, List.take_of_length_le (by omega), pendAfter_append]
      exact ih _ hc1 hw1 (fun j hj => hwf j (List.mem_append_right _ hj)) (torn_right htorn) hnr.2 _ e hi hce

/-- a file is there when it is unlinked -/
theorem unl_present (g : Geom) (hB : g.B ≤ 65542) (evs : List Ev) : ∀ {l : Log} {J : List JE} {D : Image},
    CInvX g l J D → (∀ j ∈ J, C07.WF j.e) → (∀ j ∈ jourX g l D evs, C07.WF j.e) → TornEffs (effsX g l D evs) →
    ∀ i f, (effsX g l D evs)[i]? = some (Effect.unlink f) →
      f ∈ (applyOsOps D (directOps ((effsX g l D evs).take i))).map (·.1) := by
  induction evs with
  | nil => intro l J D _ _ _ _ i f hi; simp [effsX] at hi
  | cons ev es ih =>
    intro l J D h hw hwf htorn i f hi
    simp only [jourX, effsX] at hwf htorn hi ⊢
    have hwe := fun j hj => hwf j (List.mem_append_left _ hj)
    obtain ⟨⟨J1, hc1, hw1⟩, _, _, _⟩ := ev_facts g hB h hw ev hwe (torn_left htorn)
    obtain ⟨A, U, S, hL, hA, hS, _, hgc⟩ := ev_struct g hB h hw ev hwe
    by_cases hlt : i < (evEffs g l D ev).length
    · rw [List.getElem?_append_left hlt] at hi
      rw [List.take_append_of_le_length (by omega)]
      rw [hL] at hi hlt ⊢
      have hlen : (A ++ U.map Effect.unlink).length = A.length + U.length := by simp
      by_cases h1 : i < A.length
      · rw [List.append_assoc, List.getElem?_append_left h1] at hi
        have := hA _ (List.mem_of_getElem? hi)
        cases this
      · by_cases h2 : i < A.length + U.length
        · have hk : i - A.length < U.length := by omega
          rw [List.getElem?_append_left (by rw [hlen]; exact h2), List.getElem?_append_right (by omega),
            List.getElem?_map] at hi
          have hUk : U[i - A.length]? = some f := by
            cases hu : U[i - A.length]? with
            | none => rw [hu] at hi; cases hi
            | some x => rw [hu] at hi; simp only [Option.map_some, Option.some.injEq, Effect.unlink.injEq] at hi; rw [hi]
          have htk := take_mid A U S (i - A.length) (Nat.le_of_lt hk)
          rw [show A.length + (i - A.length) = i by omega] at htk
          rw [htk, directOps_append, applyOsOps_append, directOps_unl]
          obtain ⟨Jv, hcv, _⟩ := hgc (i - A.length) (Nat.le_of_lt hk)
          have hsh := dshape_of_cinvx hcv
          rw [← hsh.files]
          show f ∈ U.drop (i - A.length) ++ _
          apply List.mem_append_left
          have : U.drop (i - A.length) = f :: U.drop (i - A.length + 1) := by
            rw [List.drop_eq_getElem_cons hk]
            congr 1
            have := List.getElem?_eq_getElem hk
            rw [hUk] at this
            exact (Option.some.inj this).symm
          rw [this]; exact List.mem_cons_self
        · rw [List.getElem?_append_right (by rw [hlen]; omega)] at hi
          have := noUnl_sync hS _ (List.mem_of_getElem? hi)
          cases this
    · rw [List.getElem?_append_right (by omega)] at hi
      rw [List.take_append, List.take_of_length_le (by omega), directOps_append, applyOsOps_append]
      exact ih hc1 hw1 (fun j hj => hwf j (List.mem_append_right _ hj)) (torn_right htorn) _ f hi

/-- nothing pending in the effect list: nothing pending in the model -/
theorem und_of_pend : ∀ (es : List Effect) (d : DState) (p : Bool), (d.und ≠ [] → p = true) →
    (prunD d (directOpsP es)).und ≠ [] → pendAfter p es = true := by
  intro es
  induction es with
  | nil => intro d p h hne; exact h hne
  | cons e es ih =>
    intro d p h hne
    rw [directOpsP_cons, prunD_append] at hne
    simp only [pendAfter, List.foldl_cons]
    apply ih (prunD d (directP e)) _ _ hne
    intro hne'
    cases e with
    | fsyncDir => exact absurd rfl hne'
    | unlink f => rfl
    | fsyncFile f => exact h hne'
    | flush => exact h hne'
    | listDir => exact h hne'
    | openFile f => exact h hne'
    | readBlock f => exact h hne'
    | write f off dt => rw [prunD_directP_quiet d _ rfl rfl] at hne'; exact h hne'
    | create f => rw [prunD_directP_quiet d _ rfl rfl] at hne'; exact h hne'
    | setLen f n => rw [prunD_directP_quiet d _ rfl rfl] at hne'; exact h hne'
    | ensureLen f n => rw [prunD_directP_quiet d _ rfl rfl] at hne'; exact h hne'

theorem noReopenPend_append (g : Geom) (a b : List Ev) : ∀ (l : Log) (D : Image) (p : Bool),
    noReopenPend g l D p (a ++ b) =
      (noReopenPend g l D p a && noReopenPend g (logX g l D a) (diskXs g l D a) (pendAfter p (effsX g l D a)) b) := by
  induction a with
  | nil => intro l D p; simp [noReopenPend, logX, diskXs, effsX, pendAfter]
  | cons e a ih =>
    intro l D p
    simp only [List.cons_append, noReopenPend, logX, diskXs, effsX, ih, pendAfter_append, Bool.and_assoc]

end MRL.PDC
