/-
The disk invariant: the bytes written so far are the layout of tagged frames (`FLay`), which are
the frames of the retained journal entries preceded by the tail of an entry cut by a file deletion
(`Segs`); the last frame lies in the writer's current file (`CurTag`). Writing one entry keeps it.
-/
import MRL.Proofs.GAssemble
import MRL.Proofs.GBlocks

namespace MRL.G
open MRL Codec Consts Log

/-- the written bytes `P` are the layout of the tagged frames `afs`, possibly followed by the
    padding up to the next block (a restarted writer stands after it) -/
structure FLay (g : Geom) (F : Nat) (P : Bytes) (afs : List TFrm) : Prop where
  bytes : P = (layoutBufs g 0 (untag afs)).flatten ++ zeros (P.length - endPos g 0 (untag afs))
  fits : Fits g 0 (untag afs)
  tagged : Tagged g F 0 afs
  len : P.length = endPos g 0 (untag afs) ∨ P.length = hdrPos g (endPos g 0 (untag afs))

/-- the tagged frames are: non-first frames, then one segment per retained journal entry -/
def Segs (F : Nat) (J : List JE) (afs : List TFrm) : Prop :=
  ∃ (lead : List TFrm) (segs : List Seg),
    afs = lead ++ segs.flatMap (·.2) ∧ (∀ a ∈ lead, a.2.1.isFirst = false) ∧
    segs.map (·.1) = J.filter (fun j => decide (F ≤ j.loc)) ∧ (∀ s ∈ segs, SegOK s) ∧ Chain segs

/-- the last frame was written in the current file -/
def CurTag (afs : List TFrm) (cur : Nat) : Prop := ∀ a, afs.getLast? = some a → a.1 = cur

/-! ### small facts -/

theorem zero_mod (g : Geom) : 0 % g.B = 0 := Nat.zero_mod _

theorem layout0_length (g : Geom) (fs : List Frm) (h : Fits g 0 fs) :
    (layoutBufs g 0 fs).flatten.length = endPos g 0 fs := by
  have := totalLen_layout_pos g fs 0 (by rw [zero_mod]; exact h)
  rw [zero_mod, Nat.zero_add] at this
  rw [← totalLen_eq]; exact this

theorem tape_mod (g : Geom) (a off : Nat) : (a * g.fileBytes + off) % g.B = off % g.B := by
  unfold Geom.fileBytes
  rw [Nat.mul_comm g.B g.K, ← Nat.mul_assoc, Nat.add_comm, Nat.add_mul_mod_self_right]

theorem tagFrom_append (g : Geom) (F : Nat) (a b : List Frm) : ∀ p,
    tagFrom g F p (a ++ b) = tagFrom g F p a ++ tagFrom g F (endPos g p a) b := by
  induction a with
  | nil => intro p; rfl
  | cons fr a ih => intro p; simp only [List.cons_append, tagFrom, endPos, ih]

theorem hdr_end_eq (g : Geom) (W E : Nat) (fs0 : List Frm) (h : W = E ∨ W = hdrPos g E) :
    hdrPos g (endPos g W fs0) = hdrPos g (endPos g E fs0) := by
  rcases h with rfl | rfl
  · rfl
  · cases fs0 with
    | nil => simp only [endPos, hdrPos_idem]
    | cons fr fs0 => rw [endPos_hdrPos g E _ (by simp)]

/-- all buffers of a layout but the last one end at the header of the last frame -/
theorem layout_dropLast_len (g : Geom) (p : Nat) (fs0 : List Frm) (frL : Frm)
    (hf : Fits g (p % g.B) (fs0 ++ [frL])) :
    p + totalLen (layoutBufs g (p % g.B) (fs0 ++ [frL])).dropLast = hdrPos g (endPos g p fs0) := by
  rw [Fits_append] at hf
  rw [layoutBufs_append, endCursor_pos g fs0 p hf.1]
  have h0 := totalLen_layout_pos g fs0 p hf.1
  simp only [layoutBufs, List.append_nil]
  unfold frameWrites hdrPos
  simp only [HEADER_LEN]
  split
  · rw [show ∀ (A : List Bytes) (x y : Bytes), (A ++ [x, y]).dropLast = A ++ [x] from
      fun A x y => by rw [show A ++ [x, y] = (A ++ [x]) ++ [y] by simp, List.dropLast_concat]]
    simp only [totalLen_append, totalLen_cons, totalLen_nil, length_zeros]
    omega
  · rw [List.dropLast_concat]
    omega

theorem nextLoc_tag (g : Geom) {l : Log} {D : Image} {F : Nat} {init : List Bytes} {t : Bytes}
    (h : Tape g l D F init t) :
    l.nextLoc g = F + hdrPos g (init.length * g.fileBytes + l.off) / g.fileBytes := by
  have hB := Bpos g
  have hfb := fileBytes_pos g
  have hm : l.off % g.B < g.B := Nat.mod_lt _ (by omega)
  have hroll : l.rollTarget = l.cur + 1 := by
    unfold rollTarget
    rw [h.files, h.cur, nextFile_range]
  rw [nextLoc_eq, hroll, h.cur]
  unfold off1 hdrPos
  rw [tape_mod]
  simp only [HEADER_LEN]
  have hle := h.off_le
  have full : ∀ a, (a * g.fileBytes + g.fileBytes) / g.fileBytes = a + 1 := by
    intro a
    have : a * g.fileBytes + g.fileBytes = (a + 1) * g.fileBytes + 0 := by
      rw [Nat.add_mul, Nat.one_mul]; rfl
    rw [this, div_fileBytes _ _ _ hfb]
  by_cases hp : g.B - l.off % g.B < 7
  · simp only [hp, if_true]
    have hlt : l.off < g.fileBytes := by
      apply Classical.byContradiction
      intro hn
      have : l.off = g.fileBytes := by omega
      rw [this, fileBytes_mod] at hp
      omega
    have hfit := fits_file g l.off (g.B - l.off % g.B) hlt (by omega)
    by_cases he : l.off + (g.B - l.off % g.B) ≥ g.fileBytes
    · have : l.off + (g.B - l.off % g.B) = g.fileBytes := by omega
      rw [if_pos he, Nat.add_assoc (init.length * g.fileBytes), this, full]; omega
    · rw [if_neg he, Nat.add_assoc (init.length * g.fileBytes), div_fileBytes _ _ _ (by omega)]
  · simp only [hp, if_false]
    by_cases he : l.off ≥ g.fileBytes
    · have : l.off = g.fileBytes := by omega
      rw [if_pos he, this, full]; omega
    · rw [if_neg he, div_fileBytes _ _ _ (by omega)]

/-! ### appending frames -/

theorem flay_append (g : Geom) (F : Nat) (P : Bytes) (afs : List TFrm) (h : FLay g F P afs)
    (fs : List Frm) (hne : fs ≠ []) (hf : Fits g (P.length % g.B) fs) :
    FLay g F (P ++ (layoutBufs g (P.length % g.B) fs).flatten)
      (afs ++ tagFrom g F (endPos g 0 (untag afs)) fs) ∧
    (P ++ (layoutBufs g (P.length % g.B) fs).flatten).length = endPos g 0 (untag afs ++ fs) := by
  have hE := layout0_length g (untag afs) h.fits
  -- in both positions of the writer the layout from the un-normalised end is the same bytes
  have hbytes : (layoutBufs g (endPos g 0 (untag afs) % g.B) fs).flatten =
      zeros (P.length - endPos g 0 (untag afs)) ++ (layoutBufs g (P.length % g.B) fs).flatten := by
    rcases h.len with h1 | h1
    · rw [h1]; simp [zeros]
    · rw [h1]; exact layout_hdrPos g _ fs hne
  have hfits : Fits g (endPos g 0 (untag afs) % g.B) fs := by
    rcases h.len with h1 | h1
    · rw [← h1]; exact hf
    · rw [h1] at hf; exact Fits_hdrPos g _ fs hne hf
  have hend : endPos g P.length fs = endPos g (endPos g 0 (untag afs)) fs := by
    rcases h.len with h1 | h1
    · rw [h1]
    · rw [h1, endPos_hdrPos g _ fs hne]
  have hlen : (P ++ (layoutBufs g (P.length % g.B) fs).flatten).length = endPos g 0 (untag afs ++ fs) := by
    rw [List.length_append, ← totalLen_eq, totalLen_layout_pos g fs _ hf, hend, endPos_append]
  have hcur : endCursor g 0 (untag afs) = endPos g 0 (untag afs) % g.B := by
    have := endCursor_pos g (untag afs) 0 (by rw [zero_mod]; exact h.fits)
    rwa [zero_mod] at this
  refine ⟨⟨?_, ?_, ?_, ?_⟩, hlen⟩
  · rw [untag_append, untag_tagFrom, hlen, Nat.sub_self]
    simp only [zeros, List.replicate_zero, List.append_nil]
    rw [layoutBufs_append, hcur, List.flatten_append, hbytes, ← List.append_assoc, ← h.bytes]
  · rw [untag_append, untag_tagFrom, Fits_append, hcur]; exact ⟨h.fits, hfits⟩
  · rw [Tagged_append]; exact ⟨h.tagged, Tagged_tagFrom g F fs _⟩
  · left; rw [hlen, untag_append, untag_tagFrom]

theorem Chain_snoc : ∀ (segs : List Seg) (s : Seg), Chain segs →
    (∀ s0, segs.getLast? = some s0 → lastTag s0.2 0 = s.1.attr) → Chain (segs ++ [s]) := by
  intro segs
  induction segs with
  | nil => intro s _ _; trivial
  | cons s1 segs ih =>
    intro s hc hl
    cases segs with
    | nil => exact ⟨hl s1 rfl, trivial⟩
    | cons s2 rest =>
      refine ⟨hc.1, ih s hc.2 ?_⟩
      intro s0 h0
      exact hl s0 (by rw [List.getLast?_cons_cons]; exact h0)

theorem getLast?_flatMap_snoc (segs : List Seg) (s0 : Seg) (lead : List TFrm) (hne : s0.2 ≠ [])
    (h : segs.getLast? = some s0) :
    (lead ++ segs.flatMap (·.2)).getLast? = s0.2.getLast? := by
  obtain ⟨ys, rfl⟩ := List.getLast?_eq_some_iff.mp h
  rw [List.flatMap_append, ← List.append_assoc]
  simp only [List.flatMap_cons, List.flatMap_nil, List.append_nil]
  rw [List.getLast?_append]
  cases hl : s0.2.getLast? with
  | none => rw [List.getLast?_eq_none_iff] at hl; exact absurd hl hne
  | some a => rfl

/-- writing one entry -/
theorem entry_disk (g : Geom) {l : Log} {D : Image} {F : Nat} {init : List Bytes} {t : Bytes}
    {J : List JE} {afs : List TFrm} (hT : Tape g l D F init t) (hL : FLay g F (init.flatten ++ t) afs)
    (hS : Segs F J afs) (hC : CurTag afs l.cur) (e : Entry) :
    ∃ init' t' afs', Tape g (Log.writeEntry g l e).1
        (applyOsOps D (Buf.directOps (Log.writeEntry g l e).2.1)) F init' t' ∧
      FLay g F (init'.flatten ++ t') afs' ∧ Segs F (J ++ [l.je g e]) afs' ∧
      CurTag afs' (Log.writeEntry g l e).1.cur ∧ afs' ≠ [] ∧
      (init'.flatten ++ t').length = endPos g 0 (untag afs') := by
  have hB := Bpos g
  have hc : l.off % g.B < g.B := Nat.mod_lt _ (by omega)
  obtain ⟨fs, hbufs, hef, hpay, hfit⟩ := writeEntryBufs_layout g (l.off % g.B) true e.encode hc
  have hne : fs ≠ [] := hef.ne_nil
  have hPl := hT.P_length
  have hmod : (init.flatten ++ t).length % g.B = l.off % g.B := by rw [hPl, tape_mod]
  have hwe : Log.writeEntry g l e =
      ((writeBufs g l (layoutBufs g (l.off % g.B) fs)).1, (writeBufs g l (layoutBufs g (l.off % g.B) fs)).2,
        totalLen (layoutBufs g (l.off % g.B) fs)) := by
    rw [Step.writeEntry_eq]
    unfold Step.entryBufs MRL.writeEntry
    rw [hbufs]
  rw [hwe]
  obtain ⟨init', t', hT', hP', hcur'⟩ := writeBufs_tape g (layoutBufs g (l.off % g.B) fs) hT
    (noCross_layoutBufs g _ fs hc hfit)
  have hfit' : Fits g ((init.flatten ++ t).length % g.B) fs := by rw [hmod]; exact hfit
  obtain ⟨hL', hlen'⟩ := flay_append g F _ afs hL fs hne hfit'
  rw [hmod] at hL' hlen'
  rw [← hP'] at hL' hlen'
  -- the new segment
  obtain ⟨lead, segs, hafs, hlead, hmap, hsok, hchain⟩ := hS
  have hlocF : F ≤ (l.je g e).loc := by
    have := nextLoc_ge g l
    have := hT.cur
    simp only [je]; omega
  obtain ⟨fs0, frL, hfs⟩ : ∃ fs0 frL, fs = fs0 ++ [frL] := by
    rcases List.eq_nil_or_concat fs with h | ⟨fs0, frL, h⟩
    · exact absurd h hne
    · exact ⟨fs0, frL, by rw [h, List.concat_eq_append]⟩
  have hnonempty : tagFrom g F (endPos g 0 (untag afs)) fs ≠ [] := by
    cases fs with
    | nil => exact absurd rfl hne
    | cons fr fs => simp [tagFrom]
  -- tag of the last frame = new current file
  have hlast : ∀ a, (tagFrom g F (endPos g 0 (untag afs)) fs).getLast? = some a →
      a.1 = (writeBufs g l (layoutBufs g (l.off % g.B) fs)).1.cur := by
    intro a ha
    have hb : layoutBufs g (l.off % g.B) fs ≠ [] := by
      intro hnil
      cases fs with
      | nil => exact hne rfl
      | cons fr fs' =>
        have := layout_ne_nil g (l.off % g.B) fr fs'
        rw [hnil] at this
        simp at this
    rw [hcur' hb]
    rw [hfs, tagFrom_append] at ha
    simp only [tagFrom, List.getLast?_append, List.getLast?_singleton, Option.some_or,
      Option.some.injEq] at ha
    subst ha
    simp only
    congr 2
    have h1 := layout_dropLast_len g (init.flatten ++ t).length fs0 frL (by rw [← hfs]; exact hfit')
    rw [hmod, ← hfs] at h1
    rw [h1]
    exact (hdr_end_eq g _ _ fs0 hL.len).symm
  refine ⟨init', t', afs ++ tagFrom g F (endPos g 0 (untag afs)) fs, hT', hL', ?_, ?_, ?_,
    by rw [hlen', untag_append, untag_tagFrom]⟩
  · refine ⟨lead, segs ++ [(l.je g e, tagFrom g F (endPos g 0 (untag afs)) fs)], ?_, hlead, ?_, ?_, ?_⟩
    · rw [hafs, List.flatMap_append]; simp [List.append_assoc]
    · rw [List.map_append, hmap, List.filter_append]
      simp [hlocF]
    · intro s hs
      rcases List.mem_append.mp hs with hs | hs
      · exact hsok s hs
      · simp only [List.mem_singleton] at hs
        subst hs
        refine ⟨by simpa [untag_tagFrom] using hef, by simpa [untag_tagFrom, je] using hpay, ?_⟩
        intro a ha
        cases fs with
        | nil => exact absurd rfl hne
        | cons fr fs' =>
          simp only [tagFrom, List.head?_cons, Option.some.injEq] at ha
          subst ha
          simp only [je]
          rw [nextLoc_tag g hT, ← hPl]
          congr 2
          rcases hL.len with h1 | h1
          · rw [h1]
          · rw [h1, hdrPos_idem]
    · apply Chain_snoc segs _ hchain
      intro s0 h0
      have hs0 := hsok s0 (List.mem_of_getLast? h0)
      have hne0 : s0.2 ≠ [] := by
        intro hnil
        have := hs0.frames.ne_nil
        rw [hnil] at this; exact this rfl
      have hl := getLast?_flatMap_snoc segs s0 lead hne0 h0
      rw [← hafs] at hl
      show lastTag s0.2 0 = l.cur
      unfold lastTag
      cases hg : s0.2.getLast? with
      | none => rw [List.getLast?_eq_none_iff] at hg; exact absurd hg hne0
      | some a =>
        rw [hg] at hl
        exact hC a hl
  · intro a ha
    rw [List.getLast?_append] at ha
    cases hg : (tagFrom g F (endPos g 0 (untag afs)) fs).getLast? with
    | none => rw [List.getLast?_eq_none_iff] at hg; exact absurd hg hnonempty
    | some a' =>
      rw [hg] at ha
      simp only [Option.some_or, Option.some.injEq] at ha
      subst ha
      exact hlast a' hg
  · intro h
    have := List.append_eq_nil_iff.mp h
    exact hnonempty this.2

end MRL.G
