/-
Putting the layers together: the combined invariant of a (log, journal, flushed disk) triple, its
preservation by one entry write and by a GC pass, and the `open` lemma: on such a disk
`recoverPre` succeeds and returns a log that satisfies the invariant again, with queues
observationally equal to the in-memory ones.
-/
import MRL.Proofs.GReadLog
import MRL.Proofs.GJournalX
import MRL.Proofs.GStepFull
import MRL.Proofs.RecReplay
import MRL.Props.C14

namespace MRL.G
open MRL Log C05 C01J Codec

/-- invariant of (log, journal, flushed disk) -/
structure CInv (g : Geom) (l : Log) (J : List JE) (D : Image) : Prop where
  jinv : JInv l J
  mono2 : Mono2 J
  first : FirstOK (l.files.headD 0) J l.cur
  disk : DInvF g l D J (l.files.headD 0)

/-- writing one entry and installing the queues it produces -/
theorem jinv_write (g : Geom) {l : Log} {J : List JE} (hJ : JInv l J) (e : Entry) (qs' : MemQueues)
    (hewf : EntryWF e) (hre : replayEntry l.queues l.cur e = some qs')
    (hinv : Inv ({ (Log.writeEntry g l e).1 with queues := qs' } : Log)) :
    JInv ({ (Log.writeEntry g l e).1 with queues := qs' } : Log) (J ++ [l.je g e]) := by
  obtain ⟨h, chunk, qs, hrep, heq, hwf⟩ := hJ
  have hF : l.files.headD 0 ≤ l.cur := head_le_of_mem h.files.sorted h.files.cur_mem
  have hgrow := writeEntry_grow g l e h.files
  have h2 := write_hinv g l e qs' h hre hinv
  refine ⟨h2, chunk.append (je_chunk g l e h.files hewf), ?_⟩
  obtain ⟨qs1, r1, r2, r3⟩ := extend_rep h.inv hrep heq hwf (replay_je g l e qs' _ hF hre)
  have hhead : ({ (Log.writeEntry g l e).1 with queues := qs' } : Log).files.headD 0 = l.files.headD 0 := by
    have := hgrow.head h.files; exact this
  rw [hhead]
  exact ⟨qs1, r1, r2, r3⟩

theorem cinv_write (g : Geom) {l : Log} {J : List JE} {D : Image} (h : CInv g l J D) (e : Entry)
    (qs' : MemQueues) (hewf : EntryWF e) (hre : replayEntry l.queues l.cur e = some qs')
    (hinv : Inv ({ (Log.writeEntry g l e).1 with queues := qs' } : Log)) :
    CInv g ({ (Log.writeEntry g l e).1 with queues := qs' } : Log) (J ++ [l.je g e])
      (applyOsOps D (Buf.directOps (Log.writeEntry g l e).2.1)) := by
  have hgrow := writeEntry_grow g l e h.jinv.h.files
  have hhead : ({ (Log.writeEntry g l e).1 with queues := qs' } : Log).files.headD 0 = l.files.headD 0 := by
    have := hgrow.head h.jinv.h.files; exact this
  have hc1 := je_chunk g l e h.jinv.h.files hewf
  refine ⟨jinv_write g h.jinv e qs' hewf hre hinv, ?_, ?_, ?_⟩
  · exact mono2_extend h.mono2 h.jinv.chunk hc1 (List.pairwise_singleton _ _)
  · rw [hhead]
    apply firstOK_extend h.first
    · intro hn; cases hn
    · intro j1 hj1
      simp only [List.head?_cons, Option.some.injEq] at hj1
      subst hj1
      exact ⟨rfl, nextLoc_ge g l⟩
  · rw [hhead]
    exact (entry_dinv g h.disk e).congr rfl rfl rfl

theorem cinv_gc (g : Geom) {l : Log} {J : List JE} {D : Image} (h : CInv g l J D) (order : List Bytes) :
    CInv g (runGc g l order).1 (J ++ gcJ g l order)
      (applyOsOps D (Buf.directOps (runGc g l order).2.1)) := by
  have hJ' := jinv_gc g order h.jinv
  have hc2 := gcJ_chunk g l order h.jinv.h
  refine ⟨hJ', mono2_extend h.mono2 h.jinv.chunk hc2 (mono2_gcJ g l order h.jinv.h),
    firstOK_gc g order h.jinv h.first, ?_⟩
  obtain ⟨F', hd⟩ := rungc_dinv g h.disk order hJ'.chunk.mono
  rw [hd.head]; exact hd

/-- one call -/
theorem cinv_step (g : Geom) {l : Log} {J : List JE} {D : Image} (h : CInv g l J D) (c : Call)
    (tick : Bool) (order : List Bytes) :
    CInv g (l.step g c tick order).1 (J ++ l.stepJ g c order)
      (applyOsOps D (Buf.directOps (l.step g c tick order).2.2)) := by
  have hInv' : Inv (l.step g c tick order).1 := (C05_refines g l h.jinv.h.inv c tick order).2.2
  rcases step_full g l h.jinv.h.inv c tick order with
    ⟨hj, hl, hsy⟩ | ⟨e, qs', sy, hewf, hre, hsy, (⟨hj, hl, heff⟩ | ⟨hj, hl, heff⟩)⟩
  · rw [hj, hl, List.append_nil, hsy]; exact h
  · rw [hl] at hInv'
    rw [hj, hl, heff, Buf.directOps_append, Buf.applyOsOps_append, hsy]
    exact cinv_write g h e qs' hewf hre hInv'
  · have hq' : (runGc g { (Log.writeEntry g l e).1 with queues := qs' } order).1.queues = qs' :=
      runGc_queues g _ order
    rw [hl] at hInv'
    have hInv2 : Inv ({ (Log.writeEntry g l e).1 with queues := qs' } : Log) :=
      Inv.of_queues (l := (runGc g { (Log.writeEntry g l e).1 with queues := qs' } order).1) hq'.symm hInv'
    have h2 := cinv_write g h e qs' hewf hre hInv2
    have h3 := cinv_gc g h2 order
    rw [hj, hl, heff, Buf.directOps_append, Buf.directOps_append, Buf.applyOsOps_append,
      Buf.applyOsOps_append, hsy]
    have e1 : J ++ l.je g e :: gcJ g { (Log.writeEntry g l e).1 with queues := qs' } order =
        J ++ [l.je g e] ++ gcJ g { (Log.writeEntry g l e).1 with queues := qs' } order := by simp
    rw [e1]
    exact h3

/-- **the `open` lemma** -/
theorem open_ok (g : Geom) (hB : g.B ≤ 65542) {l : Log} {J : List JE} {D : Image} (h : CInv g l J D)
    (hwf : ∀ j ∈ J, C07.WF j.e) (policy : Policy) :
    ∃ lp io, recoverPre g D policy none = .ok (lp, [.ensureLen (l.files.headD 0) g.fileBytes], io) ∧
      CInv g lp J D ∧ QsEquiv lp.queues l.queues ∧ lp.files = l.files ∧ lp.policy = policy := by
  obtain ⟨hH, chunk, qs, hrep, heq, hqwf⟩ := h.jinv
  have hfirst := hfirst_of h.mono2 chunk h.first
  obtain ⟨lp, io, hrec, hfiles, hcur, hqs, hpol, hdisk⟩ := read_disk g hB h.disk policy qs hrep hwf hfirst
  have hInvlp : Inv lp := by
    obtain ⟨b0, rest, trail, evs, e, _, _, hr⟩ := Rec.recoverPre_ok_replay hrec
    exact Rec.QsInv_replay _ [] _ hr Rec.QsInv_nil
  have heq' : QsEquiv lp.queues l.queues := by rw [hqs]; exact heq
  refine ⟨lp, io, hrec, ⟨⟨⟨⟨?_, ?_⟩, hInvlp, ?_⟩, ?_, ?_⟩, h.mono2, ?_, ?_⟩, heq', hfiles, hpol⟩
  · rw [hfiles]; exact hH.files.sorted
  · rw [hfiles, hcur]; exact hH.files.cur_mem
  · intro kv hkv r hr f hf
    rw [hfiles]
    have hget : lp.queues.get? kv.1 = some kv.2 := AL.get?_of_mem_nodup hInvlp.1 hkv
    obtain ⟨y, hy, hxy⟩ := heq'.get_some hget
    rw [hxy.1] at hr
    exact hH.handles (kv.1, y) (get_mem hy) r hr f hf
  · rw [hcur]; exact chunk
  · rw [hfiles]
    exact ⟨qs, hrep, by rw [hqs]; exact QsEquiv.refl _, hqwf⟩
  · rw [hfiles, hcur]; exact h.first
  · rw [hfiles]; exact hdisk

/-- `recover` on such a disk -/
theorem recover_ok (g : Geom) (hB : g.B ≤ 65542) {l : Log} {J : List JE} {D : Image} (h : CInv g l J D)
    (hwf : ∀ j ∈ J, C07.WF j.e) (policy : Policy) (order : List Bytes) :
    ∃ lp io r, recoverPre g D policy none = .ok (lp, [.ensureLen (l.files.headD 0) g.fileBytes], io) ∧
      recover g D policy order none = .ok r ∧ r.log = (runGc g lp order).1 ∧
      r.effects = [.ensureLen (l.files.headD 0) g.fileBytes] ++ (runGc g lp order).2.1 ∧
      CInv g lp J D ∧ QsEquiv lp.queues l.queues ∧ lp.files = l.files ∧ lp.policy = policy := by
  obtain ⟨lp, io, hrec, hc, hq, hf, hp⟩ := open_ok g hB h hwf policy
  refine ⟨lp, io, (⟨(runGc g lp order).1,
      [.ensureLen (l.files.headD 0) g.fileBytes] ++ (runGc g lp order).2.1,
      io + Rec.countOpen (runGc g lp order).2.1⟩ : Recovered), hrec, ?_, rfl, rfl, hc, hq, hf, hp⟩
  rw [Rec.recover_none, hrec]

end MRL.G
