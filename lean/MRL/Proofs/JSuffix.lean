/-
The suffix lemma: dropping the files below `F'` (replaying only the journal entries located at
or after `F'`) rebuilds the same queues, provided every retained record is attributed to a file
`≥ F'` and every empty queue was touched at the end of the journal in a file `≥ F'`.
Simulation between the `F`-replay (state `A`) and the `F'`-replay (state `B`) of the same journal.
-/
import MRL.Proofs.JGhostSpec
import MRL.Proofs.JStep

namespace MRL
open C05

/-- attribution as seen by a reader whose first file is `F'` -/
def clamp (F' : Nat) (r : GRec) : GRec := { r with attr := max r.attr F' }

/-- `y` holds a tail of `x`'s records (re-attributed), the rest of `x` is older than `F'` -/
structure PreSync (F' : Nat) (x y : GQ) : Prop where
  ex : ∃ older tail, x.recs = older ++ tail ∧ y.recs = tail.map (clamp F') ∧ ∀ r ∈ older, r.attr < F'
  invx : GInv x
  invy : GInv y

structure Synced (F' : Nat) (x y : GQ) : Prop where
  pre : PreSync F' x y
  next : x.nextPosition = y.nextPosition

/-- relation between queue `n` in the `F`-replay and in the `F'`-replay -/
def NRel (F' : Nat) : Option GQ → Option GQ → Prop
  | some x, some y => Synced F' x y
  | some x, none => (∀ r ∈ x.recs, r.attr < F') ∧ GInv x
  | none, none => True
  | none, some _ => False

def SRel (F' : Nat) (A B : GQs) : Prop := ∀ n, NRel F' (AL.get? A n) (AL.get? B n)

theorem clamp_mkG (F' f : Nat) (r : Nat × Bytes) : clamp F' (mkG f r) = mkG (max f F') r := rfl

theorem synced_append {F' : Nat} {x0 y0 x' : GQ} (hp : PreSync F' x0 y0) {pos fa : Nat}
    {pls : List Bytes} (hy : y0.nextPosition ≤ pos) (hne : pls ≠ [])
    (hx : x0.appendAll fa (Log.numberFrom pos pls) = some x') :
    ∃ y', y0.appendAll (max fa F') (Log.numberFrom pos pls) = some y' ∧ Synced F' x' y' := by
  obtain ⟨y', hy'⟩ := GQ.appendAll_succeeds hp.invy hy (max fa F') pls
  obtain ⟨a1, a2, a3, _⟩ := GQ.appendAll_ok hp.invx hne hx
  obtain ⟨b1, b2, b3, _⟩ := GQ.appendAll_ok hp.invy hne hy'
  obtain ⟨older, tail, e1, e2, e3⟩ := hp.ex
  refine ⟨y', hy', ⟨⟨⟨older, tail ++ (Log.numberFrom pos pls).map (mkG fa), ?_, ?_, e3⟩, a3, b3⟩, ?_⟩⟩
  · rw [a1, e1, List.append_assoc]
  · rw [b1, e2, List.map_append, List.map_map]
    congr 1
  · rw [a2, b2]

theorem synced_truncate {F' : Nat} {x y : GQ} (h : Synced F' x y) (p : Nat) :
    Synced F' (x.truncateHead p) (y.truncateHead p) := by
  obtain ⟨a1, a2, a3⟩ := GQ.truncateHead_ok h.pre.invx p
  obtain ⟨b1, b2, b3⟩ := GQ.truncateHead_ok h.pre.invy p
  obtain ⟨older, tail, e1, e2, e3⟩ := h.pre.ex
  refine ⟨⟨⟨older.filter (fun r => p < r.pos), tail.filter (fun r => p < r.pos), ?_, ?_, ?_⟩, a3, b3⟩, ?_⟩
  · rw [a1, e1, List.filter_append]
  · rw [b1, e2, List.filter_map]; rfl
  · intro r hr; exact e3 r (List.mem_filter.mp hr).1
  · rw [a2, b2, h.next]

theorem unsynced_truncate {F' : Nat} {x : GQ} (h : (∀ r ∈ x.recs, r.attr < F') ∧ GInv x) (p : Nat) :
    (∀ r ∈ (x.truncateHead p).recs, r.attr < F') ∧ GInv (x.truncateHead p) := by
  obtain ⟨a1, _, a3⟩ := GQ.truncateHead_ok h.2 p
  refine ⟨?_, a3⟩
  intro r hr
  rw [a1] at hr
  exact h.1 r (List.mem_filter.mp hr).1

theorem synced_wnp (F' p : Nat) : Synced F' (GQ.withNextPosition p) (GQ.withNextPosition p) :=
  ⟨⟨⟨[], [], rfl, rfl, fun _ h => by cases h⟩, GInv_withNextPosition p, GInv_withNextPosition p⟩, rfl⟩

/-- lookup of the queue an append works on, after the `ack_position` that creates it if absent -/
theorem get?_ensure (gs : GQs) (q : Bytes) (pos : Nat) :
    AL.get? (if AL.contains gs q then gs else gs.ackPosition q pos) q =
      some ((AL.get? gs q).getD (GQ.withNextPosition pos)) := by
  rw [AL.contains_eq_isSome]
  cases h : AL.get? gs q with
  | none => simp only [Option.isSome_none, Bool.false_eq_true, if_false, GQs.get?_ackPosition_same]; rfl
  | some x => simp only [Option.isSome_some, if_true, h]; rfl

theorem get?_ensure_other (gs : GQs) (q n : Bytes) (pos : Nat) (h : n ≠ q) :
    AL.get? (if AL.contains gs q then gs else gs.ackPosition q pos) n = AL.get? gs n := by
  split
  · rfl
  · exact GQs.get?_ackPosition_other _ _ _ _ h

/-- one journal entry processed by both replays -/
theorem sim_entry {F' fa : Nat} {A B A' : GQs} {e : Entry} (hR : SRel F' A B) (he : EntryWF e)
    (hA : replayEntryG A fa e = some A') :
    ∃ B', replayEntryG B (max fa F') e = some B' ∧ SRel F' A' B' := by
  cases e with
  | touch q p =>
    simp only [replayEntryG, Option.some.injEq] at hA ⊢; subst hA
    refine ⟨_, rfl, ?_⟩
    intro n
    by_cases hn : n = q
    · subst hn
      rw [GQs.get?_ackPosition_same, GQs.get?_ackPosition_same]
      exact synced_wnp F' p
    · rw [GQs.get?_ackPosition_other _ _ _ _ hn, GQs.get?_ackPosition_other _ _ _ _ hn]
      exact hR n
  | delete q p =>
    simp only [replayEntryG, Option.some.injEq] at hA ⊢; subst hA
    refine ⟨_, rfl, ?_⟩
    intro n
    by_cases hn : n = q
    · subst hn; rw [AL.get?_remove_same, AL.get?_remove_same]; trivial
    · rw [AL.get?_remove_other _ _ _ hn, AL.get?_remove_other _ _ _ hn]; exact hR n
  | truncate q p =>
    simp only [replayEntryG] at hA ⊢
    have hq := hR q
    cases ha : AL.get? A q with
    | none =>
      rw [ha] at hA hq; cases hA
      cases hb : AL.get? B q with
      | none => exact ⟨B, rfl, hR⟩
      | some y => rw [hb] at hq; exact hq.elim
    | some x =>
      rw [ha] at hA hq; cases hA
      cases hb : AL.get? B q with
      | none =>
        rw [hb] at hq
        refine ⟨B, rfl, ?_⟩
        intro n
        by_cases hn : n = q
        · subst hn; rw [AL.get?_set_same, hb]; exact unsynced_truncate hq p
        · rw [AL.get?_set_other _ _ _ _ hn]; exact hR n
      | some y =>
        rw [hb] at hq
        refine ⟨_, rfl, ?_⟩
        intro n
        by_cases hn : n = q
        · subst hn; rw [AL.get?_set_same, AL.get?_set_same]; exact synced_truncate hq p
        · rw [AL.get?_set_other _ _ _ _ hn, AL.get?_set_other _ _ _ _ hn]; exact hR n
  | append q pos recs =>
    obtain ⟨pls, hne, rfl⟩ := he
    simp only [replayEntryG, get?_ensure] at hA ⊢
    cases hx : ((AL.get? A q).getD (GQ.withNextPosition pos)).appendAll fa (Log.numberFrom pos pls) with
    | none => rw [hx] at hA; cases hA
    | some x' =>
      rw [hx] at hA
      simp only [Option.map_some, Option.some.injEq] at hA; subst hA
      have hq := hR q
      -- the two queues the append works on are pre-synced, and `B`'s accepts the position
      have hpre : PreSync F' ((AL.get? A q).getD (GQ.withNextPosition pos))
          ((AL.get? B q).getD (GQ.withNextPosition pos)) ∧
          ((AL.get? B q).getD (GQ.withNextPosition pos)).nextPosition ≤ pos := by
        cases ha : AL.get? A q with
        | none =>
          rw [ha] at hq
          cases hb : AL.get? B q with
          | none => exact ⟨(synced_wnp F' pos).pre, Nat.le_refl _⟩
          | some y => rw [hb] at hq; exact hq.elim
        | some x =>
          rw [ha] at hq hx
          simp only [Option.getD_some] at hx ⊢
          cases hb : AL.get? B q with
          | none =>
            rw [hb] at hq
            exact ⟨⟨⟨x.recs, [], by simp, rfl, hq.1⟩, hq.2, GInv_withNextPosition pos⟩, Nat.le_refl _⟩
          | some y =>
            rw [hb] at hq
            have hle := (GQ.appendAll_ok hq.pre.invx hne hx).2.2.2
            exact ⟨hq.pre, by simp only [Option.getD_some]; rw [← hq.next]; exact hle⟩
      obtain ⟨y', hy', hs⟩ := synced_append hpre.1 hpre.2 hne hx
      rw [hy']
      refine ⟨_, rfl, ?_⟩
      intro n
      by_cases hn : n = q
      · subst hn; rw [AL.get?_set_same, AL.get?_set_same]; exact hs
      · rw [AL.get?_set_other _ _ _ _ hn, AL.get?_set_other _ _ _ _ hn,
          get?_ensure_other _ _ _ _ hn, get?_ensure_other _ _ _ _ hn]
        exact hR n

/-- one journal entry located before `F'`: only the `F`-replay sees it -/
theorem a_only_entry {F' fa : Nat} {A A' : GQs} {e : Entry} (hR : SRel F' A []) (hfa : fa < F')
    (he : EntryWF e) (hA : replayEntryG A fa e = some A') : SRel F' A' [] := by
  have hB : ∀ n, AL.get? ([] : GQs) n = none := fun _ => rfl
  cases e with
  | touch q p =>
    simp only [replayEntryG, Option.some.injEq] at hA; subst hA
    intro n
    by_cases hn : n = q
    · subst hn
      rw [GQs.get?_ackPosition_same, hB]
      exact ⟨(by intro r h; cases h), GInv_withNextPosition p⟩
    · rw [GQs.get?_ackPosition_other _ _ _ _ hn]; exact hR n
  | delete q p =>
    simp only [replayEntryG, Option.some.injEq] at hA; subst hA
    intro n
    by_cases hn : n = q
    · subst hn; rw [AL.get?_remove_same, hB]; trivial
    · rw [AL.get?_remove_other _ _ _ hn]; exact hR n
  | truncate q p =>
    simp only [replayEntryG] at hA
    cases ha : AL.get? A q with
    | none => rw [ha] at hA; cases hA; exact hR
    | some x =>
      rw [ha] at hA; cases hA
      have hq := hR q
      rw [ha, hB] at hq
      intro n
      by_cases hn : n = q
      · subst hn; rw [AL.get?_set_same, hB]; exact unsynced_truncate hq p
      · rw [AL.get?_set_other _ _ _ _ hn]; exact hR n
  | append q pos recs =>
    obtain ⟨pls, hne, rfl⟩ := he
    simp only [replayEntryG, get?_ensure] at hA
    cases hx : ((AL.get? A q).getD (GQ.withNextPosition pos)).appendAll fa (Log.numberFrom pos pls) with
    | none => rw [hx] at hA; cases hA
    | some x' =>
      rw [hx] at hA
      simp only [Option.map_some, Option.some.injEq] at hA; subst hA
      have h0 : (∀ r ∈ ((AL.get? A q).getD (GQ.withNextPosition pos)).recs, r.attr < F') ∧
          GInv ((AL.get? A q).getD (GQ.withNextPosition pos)) := by
        have hq := hR q
        rw [hB] at hq
        cases ha : AL.get? A q with
        | none => exact ⟨(by intro r h; cases h), GInv_withNextPosition pos⟩
        | some x => rw [ha] at hq; exact hq
      obtain ⟨a1, _, a3, _⟩ := GQ.appendAll_ok h0.2 hne hx
      intro n
      by_cases hn : n = q
      · subst hn
        rw [AL.get?_set_same, hB]
        refine ⟨?_, a3⟩
        intro r hr
        rw [a1] at hr
        rcases List.mem_append.mp hr with h | h
        · exact h0.1 r h
        · obtain ⟨r0, _, rfl⟩ := List.mem_map.mp h
          exact hfa
      · rw [AL.get?_set_other _ _ _ _ hn, get?_ensure_other _ _ _ _ hn]; exact hR n

/-! ### lists of entries -/

theorem replayJG_append (F : Nat) (js js' : List JE) : ∀ gs : GQs,
    replayJG F gs (js ++ js') = (replayJG F gs js).bind fun gs' => replayJG F gs' js' := by
  induction js with
  | nil => intro gs; rfl
  | cons j js ih =>
    intro gs
    simp only [List.cons_append, replayJG]
    split
    · exact ih gs
    · cases replayEntryG gs (max j.attr F) j.e with
      | none => rfl
      | some g1 => simp only [Option.bind_some]; exact ih g1

theorem replayJG_skip (F' : Nat) (gs : GQs) : ∀ js : List JE, (∀ j ∈ js, j.loc < F') →
    replayJG F' gs js = some gs := by
  intro js
  induction js with
  | nil => intro _; rfl
  | cons j js ih =>
    intro h
    have h1 := h j List.mem_cons_self
    simp only [replayJG, h1, if_true]
    exact ih fun j' hj' => h j' (List.mem_cons_of_mem _ hj')

theorem phase1 (F F' : Nat) (hFF : F < F') : ∀ (js : List JE) (A A' : GQs),
    (∀ j ∈ js, j.loc < F' ∧ j.attr ≤ j.loc ∧ EntryWF j.e) → SRel F' A [] →
    replayJG F A js = some A' → SRel F' A' [] := by
  intro js
  induction js with
  | nil => intro A A' _ hR h; cases h; exact hR
  | cons j js ih =>
    intro A A' hjs hR h
    obtain ⟨h1, h2, h3⟩ := hjs j List.mem_cons_self
    have hrest : ∀ j' ∈ js, j'.loc < F' ∧ j'.attr ≤ j'.loc ∧ EntryWF j'.e :=
      fun j' hj' => hjs j' (List.mem_cons_of_mem _ hj')
    simp only [replayJG] at h
    split at h
    · exact ih A A' hrest hR h
    · cases hA : replayEntryG A (max j.attr F) j.e with
      | none => rw [hA] at h; cases h
      | some A1 =>
        rw [hA] at h
        exact ih A1 A' hrest (a_only_entry hR (by omega) h3 hA) h

theorem phase2 (F F' : Nat) (hFF : F ≤ F') : ∀ (js : List JE) (A B A' : GQs),
    (∀ j ∈ js, F' ≤ j.loc ∧ EntryWF j.e) → SRel F' A B →
    replayJG F A js = some A' → ∃ B', replayJG F' B js = some B' ∧ SRel F' A' B' := by
  intro js
  induction js with
  | nil => intro A B A' _ hR h; cases h; exact ⟨B, rfl, hR⟩
  | cons j js ih =>
    intro A B A' hjs hR h
    obtain ⟨h1, h3⟩ := hjs j List.mem_cons_self
    have hrest : ∀ j' ∈ js, F' ≤ j'.loc ∧ EntryWF j'.e :=
      fun j' hj' => hjs j' (List.mem_cons_of_mem _ hj')
    have hn1 : ¬ j.loc < F := by omega
    have hn2 : ¬ j.loc < F' := by omega
    simp only [replayJG, hn1, hn2, if_false] at h ⊢
    cases hA : replayEntryG A (max j.attr F) j.e with
    | none => rw [hA] at h; cases h
    | some A1 =>
      rw [hA] at h
      obtain ⟨B1, hB1, hR1⟩ := sim_entry hR h3 hA
      have hmax : max (max j.attr F) F' = max j.attr F' := by omega
      rw [hmax] at hB1
      rw [hB1]
      exact ih A1 B1 A' hrest hR1 h

theorem touches_keep (F' : Nat) (n : Bytes) : ∀ (js : List JE) (B B' : GQs),
    (∀ j ∈ js, ∃ m p, j.e = .touch m p) → AL.get? B n ≠ none →
    replayJG F' B js = some B' → AL.get? B' n ≠ none := by
  intro js
  induction js with
  | nil => intro B B' _ hB h; cases h; exact hB
  | cons j js ih =>
    intro B B' hjs hB h
    have hrest : ∀ j' ∈ js, ∃ m p, j'.e = .touch m p :=
      fun j' hj' => hjs j' (List.mem_cons_of_mem _ hj')
    obtain ⟨m, p, hj⟩ := hjs j List.mem_cons_self
    simp only [replayJG] at h
    split at h
    · exact ih B B' hrest hB h
    · rw [hj] at h
      simp only [replayEntryG, Option.bind_some] at h
      refine ih _ B' hrest ?_ h
      by_cases hm : n = m
      · subst hm; rw [GQs.get?_ackPosition_same]; simp
      · rw [GQs.get?_ackPosition_other _ _ _ _ hm]; exact hB

theorem touches_present (F' : Nat) : ∀ (js : List JE) (B B' : GQs),
    (∀ j ∈ js, F' ≤ j.loc ∧ ∃ m p, j.e = .touch m p) →
    replayJG F' B js = some B' → ∀ j ∈ js, AL.get? B' j.e.queue ≠ none := by
  intro js
  induction js with
  | nil => intro B B' _ _ j hj; cases hj
  | cons j js ih =>
    intro B B' hjs h j' hj'
    have hrest : ∀ j' ∈ js, F' ≤ j'.loc ∧ ∃ m p, j'.e = .touch m p :=
      fun j' hj' => hjs j' (List.mem_cons_of_mem _ hj')
    obtain ⟨hloc, m, p, hj⟩ := hjs j List.mem_cons_self
    have hn : ¬ j.loc < F' := by omega
    simp only [replayJG, hn, if_false] at h
    rw [hj] at h
    simp only [replayEntryG, Option.bind_some] at h
    rcases List.mem_cons.mp hj' with rfl | hj'
    · rw [hj]
      simp only [Entry.queue]
      exact touches_keep F' m js _ B' (fun j2 h2 => (hrest j2 h2).2)
        (by rw [GQs.get?_ackPosition_same]; simp) h
    · exact ih _ B' hrest h j' hj'

/-- end of the simulation: if nothing older than `F'` is left in `A` and every empty queue of
    `A` exists in `B`, the two states are observationally equal -/
theorem sim_finish {F' : Nat} {A B : GQs} (hR : SRel F' A B)
    (hattr : ∀ n x, AL.get? A n = some x → ∀ r ∈ x.recs, F' ≤ r.attr)
    (hempty : ∀ n x, AL.get? A n = some x → x.recs = [] → AL.get? B n ≠ none) :
    QsEquiv (toMemS B) (toMemS A) := by
  rw [qsEquiv_iff]
  intro n
  rw [toMemS_get?, toMemS_get?]
  have hq := hR n
  cases ha : AL.get? A n with
  | none =>
    rw [ha] at hq
    cases hb : AL.get? B n with
    | none => trivial
    | some y => rw [hb] at hq; exact hq.elim
  | some x =>
    rw [ha] at hq
    cases hb : AL.get? B n with
    | none =>
      rw [hb] at hq
      have hx : x.recs = [] := by
        cases hr : x.recs with
        | nil => rfl
        | cons r rs =>
          have h1 := hq.1 r (by rw [hr]; simp)
          have h2 := hattr n x ha r (by rw [hr]; simp)
          omega
      exact absurd hb (hempty n x ha hx)
    | some y =>
      rw [hb] at hq
      obtain ⟨older, tail, e1, e2, e3⟩ := hq.pre.ex
      have hold : older = [] := by
        cases ho : older with
        | nil => rfl
        | cons r rs =>
          have h1 := e3 r (by rw [ho]; simp)
          have h2 := hattr n x ha r (by rw [e1, ho]; simp)
          omega
      subst hold
      simp only [List.nil_append] at e1
      have hy : y.recs = x.recs := by
        rw [e2, ← e1]
        conv => rhs; rw [← List.map_id x.recs]
        apply List.map_congr_left
        intro r hr
        have := hattr n x ha r hr
        simp only [clamp, id]
        cases r with
        | mk p pl a => simp only [GRec.mk.injEq, true_and]; simp only at this; omega
      simp only [Option.map_some, OEquiv]
      refine ⟨?_, ?_⟩
      · simp only [GQ.toMem, hy]
      · rw [GQ.toMem_nextPosition, GQ.toMem_nextPosition, hq.next]

theorem mem_takeWhile_sat {α} (P : α → Bool) : ∀ (l : List α) (x : α), x ∈ l.takeWhile P → P x = true := by
  intro l
  induction l with
  | nil => intro x h; cases h
  | cons a l ih =>
    intro x h
    rw [List.takeWhile_cons] at h
    split at h
    · rename_i ha
      rcases List.mem_cons.mp h with rfl | h
      · exact ha
      · exact ih x h
    · cases h

/-- **Suffix lemma.** -/
theorem suffix_lemma (F F' : Nat) (hFF : F < F') (J0 T : List JE)
    (hmono : (J0 ++ T).Pairwise (fun a b => a.loc ≤ b.loc))
    (hwf : ∀ j ∈ J0 ++ T, j.attr ≤ j.loc ∧ EntryWF j.e)
    (hT : ∀ j ∈ T, F' ≤ j.loc ∧ ∃ n p, j.e = .touch n p)
    (qa : MemQueues) (hrep : replayJ F [] (J0 ++ T) = some qa)
    (hhandles : ∀ n x, qa.get? n = some x → ∀ r ∈ x.recs, ∀ f, r.file = some f → F' ≤ f)
    (hempty : ∀ n x, qa.get? n = some x → x.recs = [] → ∃ j ∈ T, j.e.queue = n) :
    ∃ qb, replayJ F' [] (J0 ++ T) = some qb ∧ QsEquiv qb qa := by
  -- split `J0` at the first entry located at or after `F'`
  let P : JE → Bool := fun j => decide (j.loc < F')
  have hsplit : J0 = J0.takeWhile P ++ J0.dropWhile P := List.takeWhile_append_dropWhile.symm
  have hmono0 : J0.Pairwise (fun a b => a.loc ≤ b.loc) := (List.pairwise_append.mp hmono).1
  have hclosed : J0.Pairwise (fun a b => P b = true → P a = true) := by
    refine hmono0.imp ?_
    intro a b hab; simp only [P, decide_eq_true_eq]; omega
  have h1 : ∀ j ∈ J0.takeWhile P, j.loc < F' := by
    intro j hj
    have := mem_takeWhile_sat P _ j hj
    simpa [P] using this
  have h2 : ∀ j ∈ J0.dropWhile P, F' ≤ j.loc := by
    intro j hj
    rw [dropWhile_eq_filter_of_pairwise _ _ hclosed] at hj
    have := (List.mem_filter.mp hj).2
    simp only [P, Bool.not_eq_eq_eq_not, Bool.not_true, decide_eq_false_iff_not] at this
    omega
  generalize J0.takeWhile P = J1 at hsplit h1
  generalize J0.dropWhile P = J2 at hsplit h2
  subst hsplit
  have hwf1 : ∀ j ∈ J1, j.loc < F' ∧ j.attr ≤ j.loc ∧ EntryWF j.e := by
    intro j hj
    have := hwf j (by simp [hj])
    exact ⟨h1 j hj, this.1, this.2⟩
  have hwf2 : ∀ j ∈ J2 ++ T, F' ≤ j.loc ∧ EntryWF j.e := by
    intro j hj
    have hw := hwf j (by simp only [List.mem_append] at hj ⊢; rcases hj with h | h <;> simp [h])
    rcases List.mem_append.mp hj with h | h
    · exact ⟨h2 j h, hw.2⟩
    · exact ⟨(hT j h).1, hw.2⟩
  -- the `F`-replay, at ghost level
  have hg := replayJ_toMemS F (J1 ++ J2 ++ T) []
  have hnil : toMemS [] = ([] : MemQueues) := rfl
  rw [hnil, hrep] at hg
  cases hga : replayJG F [] (J1 ++ J2 ++ T) with
  | none => rw [hga] at hg; cases hg
  | some ga =>
    rw [hga] at hg
    simp only [Option.map_some, Option.some.injEq] at hg
    rw [List.append_assoc, replayJG_append] at hga
    cases hA1 : replayJG F [] J1 with
    | none => rw [hA1] at hga; cases hga
    | some A1 =>
      rw [hA1] at hga
      simp only [Option.bind_some] at hga
      have hR0 : SRel F' ([] : GQs) [] := fun _ => trivial
      have hR1 := phase1 F F' hFF J1 [] A1 hwf1 hR0 hA1
      obtain ⟨B3, hB3, hR3⟩ := phase2 F F' (Nat.le_of_lt hFF) (J2 ++ T) A1 [] ga hwf2 hR1 hga
      -- the touches at the end make every touched queue present in `B3`
      have hpres : ∀ j ∈ T, AL.get? B3 j.e.queue ≠ none := by
        rw [replayJG_append] at hB3
        cases hB2 : replayJG F' [] J2 with
        | none => rw [hB2] at hB3; cases hB3
        | some B2 =>
          rw [hB2] at hB3
          exact touches_present F' T B2 B3 hT hB3
      have hB : replayJG F' [] (J1 ++ J2 ++ T) = some B3 := by
        rw [List.append_assoc, replayJG_append, replayJG_skip F' [] J1 h1]
        exact hB3
      refine ⟨toMemS B3, ?_, ?_⟩
      · have := replayJ_toMemS F' (J1 ++ J2 ++ T) []
        rw [hnil, hB] at this
        exact this
      · rw [hg]
        apply sim_finish hR3
        · intro n x hx r hr
          obtain ⟨h, hh, hf⟩ := attr_has_handle x.recs r hr
          have hq : qa.get? n = some x.toMem := by rw [hg, toMemS_get?, hx]; rfl
          exact hhandles n x.toMem hq h hh r.attr hf
        · intro n x hx hxe
          have hq : qa.get? n = some x.toMem := by rw [hg, toMemS_get?, hx]; rfl
          have hme : x.toMem.recs = [] := by simp only [GQ.toMem, hxe]; rfl
          obtain ⟨j, hj, hjn⟩ := hempty n x.toMem hq hme
          rw [← hjn]
          exact hpres j hj

end MRL
