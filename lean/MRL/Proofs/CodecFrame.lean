/-
One frame: the reader decodes what `encodeFrame` produced (C07).
-/
import MRL.Proofs.CodecBytes

namespace MRL.Codec
open MRL Consts

theorem frameCrc_lt (t : FrameType) (p : Bytes) : frameCrc t p < 2 ^ 32 :=
  UInt32.toNat_lt _

theorem ofCode_code (t : FrameType) : FrameType.ofCode (t.code.toUInt8).toNat = some t := by
  cases t <;> decide

theorem code_ne_zero (t : FrameType) : (t.code.toUInt8 == 0) = false := by
  cases t <;> decide

theorem length_encodeHeader (t : FrameType) (p : Bytes) : (encodeHeader t p).length = 7 := by
  simp [encodeHeader, length_leBytes]

theorem length_encodeFrame (t : FrameType) (p : Bytes) : (encodeFrame t p).length = 7 + p.length := by
  simp [encodeFrame, length_encodeHeader]

theorem isAllZero_encodeHeader (t : FrameType) (p : Bytes) : isAllZero (encodeHeader t p) = false := by
  simp [encodeHeader, isAllZero, code_ne_zero]

theorem isAllZero_encodeFrame (t : FrameType) (p : Bytes) : isAllZero (encodeFrame t p) = false := by
  simp [encodeFrame, isAllZero_append, isAllZero_encodeHeader]

theorem encodeHeader_take4 (t : FrameType) (p : Bytes) :
    (encodeHeader t p).take 4 = leBytes (frameCrc t p) 4 := by
  unfold encodeHeader
  rw [List.append_assoc, List.take_left' (length_leBytes _ _)]

theorem encodeHeader_len (t : FrameType) (p : Bytes) :
    ((encodeHeader t p).drop 4).take 2 = leBytes p.length 2 := by
  unfold encodeHeader
  rw [List.append_assoc, List.drop_left' (length_leBytes _ _), List.take_left' (length_leBytes _ _)]

theorem encodeHeader_getD6 (t : FrameType) (p : Bytes) :
    (encodeHeader t p).getD 6 0 = t.code.toUInt8 := by
  unfold encodeHeader
  have h : (leBytes (frameCrc t p) 4 ++ leBytes p.length 2).length = 6 := by
    simp [length_leBytes]
  rw [List.getD_eq_getElem?_getD, List.getElem?_append_right (by omega), h]
  rfl

/-- `scanBlockFrom` unfolds through a well-formed frame that fits in the block. -/
theorem scanBlockFrom_frame (g : Geom) (t : FrameType) (p r : Bytes) (c : Nat)
    (hfit : c + 7 + p.length ≤ g.B) (hp : p.length < 65536) :
    scanBlockFrom g (encodeFrame t p ++ r) c =
      (FrameEv.frame t p :: (scanBlockFrom g r (c + 7 + p.length)).1,
        (scanBlockFrom g r (c + 7 + p.length)).2) := by
  rw [scanBlockFrom]
  have h1 : ¬ (g.B - c < HEADER_LEN) := by simp only [HEADER_LEN]; omega
  have hhdr : (encodeFrame t p ++ r).take HEADER_LEN = encodeHeader t p := by
    unfold encodeFrame
    rw [List.append_assoc, List.take_left' (length_encodeHeader t p)]
  have hbody : (encodeFrame t p ++ r).drop HEADER_LEN = p ++ r := by
    unfold encodeFrame
    rw [List.append_assoc, List.drop_left' (length_encodeHeader t p)]
  simp only [h1, dite_false, hhdr, hbody, isAllZero_encodeHeader, encodeHeader_getD6, ofCode_code,
    encodeHeader_len, encodeHeader_take4, leNat_leBytes2 _ hp, leNat_leBytes4 _ (frameCrc_lt t p),
    List.take_left' rfl, List.drop_left' rfl]
  have h2 : ¬ (c + HEADER_LEN + p.length > g.B) := by simp only [HEADER_LEN]; omega
  simp [h2, HEADER_LEN]

/-- fewer than `HEADER_LEN` bytes left: the reader asks for the next block whatever the bytes are -/
theorem scanBlockFrom_short (g : Geom) (r : Bytes) (c : Nat) (h : g.B - c < 7) :
    scanBlockFrom g r c = ([], .needNext c) := by
  rw [scanBlockFrom]
  simp [HEADER_LEN, h]

/-- an all-zero header: end of log -/
theorem scanBlockFrom_zeros (g : Geom) (m : Nat) (r : Bytes) (c : Nat) (h : 7 ≤ g.B - c) (hm : 7 ≤ m) :
    scanBlockFrom g (zeros m ++ r) c = ([], .zeroHeader c) := by
  rw [scanBlockFrom]
  have h1 : ¬ (g.B - c < HEADER_LEN) := by simp only [HEADER_LEN]; omega
  have hz : (zeros m ++ r).take HEADER_LEN = zeros 7 := by
    rw [List.take_append_of_le_length (by simp [HEADER_LEN]; omega), take_zeros]
    simp only [HEADER_LEN]; congr 1; omega
  simp [h1, hz, isAllZero_zeros]

end MRL.Codec
