/-
Kernel-evaluable twins of the model functions, for concrete (non-vacuity) examples.

`writeEntryBufs` is defined by well-founded recursion on a lexicographic measure; the kernel cannot
unfold it, so `decide` gets stuck on any closed term that writes an entry (`Log.step`, `runGc`,
`recover`, `stepJ`, …). `C06X.webF` is the same function with fuel (`C06X.web_eq`). Here: the model
functions that write entries, restated on `webF` with the fuel `2 * length + 2`, and proved EQUAL to
the originals for all arguments. A concrete evaluation is then `rw [step_twin]; decide +kernel`
(kernel reduction only: no compiler, no axiom beyond `propext`/`Quot.sound`).
-/
import MRL.Props.C06Crash
import MRL.Proofs.Journal

namespace MRL.Twin
open MRL Log

deriving instance DecidableEq for MRL.BufSt
deriving instance DecidableEq for MRL.Outcome
deriving instance DecidableEq for MRL.JE

variable (g : Geom)

/-- `Log.writeEntry` on the fuel version of `writeEntryBufs` -/
def writeEntryT (l : Log) (e : Entry) : Log × List Effect × Nat :=
  let bufs := C06X.webF g (2 * e.encode.length + 2) (l.off % g.B) true e.encode
  let (l1, effs) := writeBufs g l bufs
  (l1, effs, totalLen bufs)

theorem writeEntry_twin (l : Log) (e : Entry) : l.writeEntry g e = writeEntryT g l e := by
  unfold Log.writeEntry writeEntryT MRL.writeEntry
  rw [C06X.web_eq g (2 * e.encode.length + 2) (l.off % g.B) true e.encode _ (by split <;> omega)]

def writeTouchesT (l : Log) : List Bytes → Log × List Effect × Nat
  | [] => (l, [], 0)
  | name :: rest =>
    let next := match l.queues.get? name with
      | some q => q.nextPosition
      | none => 0
    let (l1, e1, n1) := writeEntryT g l (.touch name next)
    let (l2, e2, n2) := writeTouchesT l1 rest
    (l2, e1 ++ e2, n1 + n2)

theorem writeTouches_twin (names : List Bytes) : ∀ l : Log, writeTouches g l names = writeTouchesT g l names := by
  induction names with
  | nil => intro l; rfl
  | cons n ns ih =>
    intro l
    simp only [writeTouches, writeTouchesT, writeEntry_twin, ih]
    rfl

def runGcT (l : Log) (order : List Bytes) : Log × List Effect × Nat :=
  match l.files with
  | f :: _ :: _ =>
    if l.canDelete l.cur f then
      let pinned := l.cur
      let names := if isPermOf order l.queues.emptyNames then order else l.queues.emptyNames
      let (l1, e1, n) := writeTouchesT g l names
      let e2 := l1.persistEffects .flushAndFsync
      let (remaining, deleted) := gcFiles (l1.canDelete pinned) l1.files
      ({ l1 with files := remaining }, e1 ++ e2 ++ deleted.map Effect.unlink, n)
    else (l, [], 0)
  | _ => (l, [], 0)

theorem runGc_twin (l : Log) (order : List Bytes) : runGc g l order = runGcT g l order := by
  unfold runGc runGcT
  simp only [writeTouches_twin]
  rfl

def stepT (l : Log) (c : Call) (tick : Bool) (order : List Bytes) : Log × Outcome × List Effect :=
  match c with
  | .create q =>
    if l.queues.contains q then (l, .alreadyExists, [])
    else
      let (l1, e1, n) := writeEntryT g l (.touch q 0)
      let e2 := l1.persistEffects .flushAndFsync
      ({ l1 with queues := l1.queues.set q {} }, .created n, e1 ++ e2)
  | .delete q =>
    match l.queues.get? q with
    | none => (l, .missingQueue, [])
    | some mq =>
      let (l1, e1, n1) := writeEntryT g l (.delete q mq.nextPosition)
      let l2 := { l1 with queues := l1.queues.remove q }
      let (l3, e3, n3) := runGcT g l2 order
      (l3, .deleted (n1 + n3), e1 ++ e3 ++ l3.persistEffects .flushAndFsync)
  | .append q pos? payloads =>
    match l.queues.get? q with
    | none => (l, .missingQueue, [])
    | some mq =>
      let next := mq.nextPosition
      let noop : Log × Outcome × List Effect := (l, .appended none 0, [])
      match (match pos? with
             | some p => if p + 1 = next then some none else if p < next then none else some (some p)
             | none => some (some next)) with
      | none => (l, .past, [])
      | some none => noop
      | some (some pos) =>
        if payloads.isEmpty then noop
        else
          let recs := numberFrom pos payloads
          let file := l.cur
          let (l1, e1, n) := writeEntryT g l (.append q pos recs)
          let e2 := l1.policyEffects tick
          match appendAll mq file recs with
          | none => (l1, .past, e1 ++ e2)
          | some mq' =>
            ({ l1 with queues := l1.queues.set q mq' },
             .appended (some (pos + payloads.length - 1)) n, e1 ++ e2)
  | .truncate q p =>
    match l.queues.get? q with
    | none => (l, .missingQueue, [])
    | some mq =>
      let (l1, e1, n1) := writeEntryT g l (.truncate q p)
      let (mq', evicted) := mq.truncateHead p
      let l2 := { l1 with queues := l1.queues.set q mq' }
      let (l3, e3, n3) := runGcT g l2 order
      (l3, .truncated evicted (n1 + n3), e1 ++ e3 ++ l3.policyEffects tick)
  | .persist a => (l, .persisted, l.persistEffects a)

theorem step_twin (l : Log) (c : Call) (tick : Bool) (order : List Bytes) :
    l.step g c tick order = stepT g l c tick order := by
  unfold Log.step stepT
  simp only [writeEntry_twin, runGc_twin]
  rfl

def recoverT (img : Image) (policy : Policy) (order : List Bytes) (failAt : Option Nat) :
    Except OpenErr Recovered :=
  match recoverPre g img policy failAt with
  | .error e => .error e
  | .ok (l, e0, io) =>
    let (l', e1, _) := runGcT g l order
    let nOpen := (e1.filter fun e => match e with | .openFile _ => true | _ => false).length
    if ioFails failAt io (io + nOpen) then .error .io
    else .ok { log := l', effects := e0 ++ e1, ioCalls := io + nOpen }

theorem recover_twin (img : Image) (policy : Policy) (order : List Bytes) (failAt : Option Nat) :
    recover g img policy order failAt = recoverT g img policy order failAt := by
  unfold recover recoverT
  simp only [runGc_twin]
  rfl

def touchesJT (l : Log) : List Bytes → List JE
  | [] => []
  | name :: rest =>
    let next := match l.queues.get? name with
      | some q => q.nextPosition
      | none => 0
    let e := Entry.touch name next
    l.je g e :: touchesJT (writeEntryT g l e).1 rest

theorem touchesJ_twin (names : List Bytes) : ∀ l : Log, touchesJ g l names = touchesJT g l names := by
  induction names with
  | nil => intro l; rfl
  | cons n ns ih =>
    intro l
    simp only [touchesJ, touchesJT, writeEntry_twin, ih]
    rfl

def gcJT (l : Log) (order : List Bytes) : List JE :=
  match l.files with
  | f :: _ :: _ =>
    if l.canDelete l.cur f then
      let names := if isPermOf order l.queues.emptyNames then order else l.queues.emptyNames
      touchesJT g l names
    else []
  | _ => []

theorem gcJ_twin (l : Log) (order : List Bytes) : gcJ g l order = gcJT g l order := by
  unfold gcJ gcJT
  simp only [touchesJ_twin]
  rfl

def stepJT (l : Log) (c : Call) (order : List Bytes) : List JE :=
  match c with
  | .create q => if l.queues.contains q then [] else [l.je g (.touch q 0)]
  | .delete q =>
    match l.queues.get? q with
    | none => []
    | some mq =>
      let e := Entry.delete q mq.nextPosition
      let l1 := (writeEntryT g l e).1
      let l2 := { l1 with queues := l1.queues.remove q }
      l.je g e :: gcJT g l2 order
  | .append q pos? payloads =>
    match l.queues.get? q with
    | none => []
    | some mq =>
      let next := mq.nextPosition
      match (match pos? with
             | some p => if p + 1 = next then some none else if p < next then none else some (some p)
             | none => some (some next)) with
      | none => []
      | some none => []
      | some (some pos) =>
        if payloads.isEmpty then [] else [l.je g (.append q pos (numberFrom pos payloads))]
  | .truncate q p =>
    match l.queues.get? q with
    | none => []
    | some mq =>
      let e := Entry.truncate q p
      let l1 := (writeEntryT g l e).1
      let l2 := { l1 with queues := l1.queues.set q (mq.truncateHead p).1 }
      l.je g e :: gcJT g l2 order
  | .persist _ => []

theorem stepJ_twin (l : Log) (c : Call) (order : List Bytes) : l.stepJ g c order = stepJT g l c order := by
  unfold Log.stepJ stepJT
  simp only [writeEntry_twin, gcJ_twin]
  rfl

end MRL.Twin
