/-
`PDC.hinvD` with `ensureLen` allowed while unlinks are pending, on a file that is none of the unlinked
ones (generated from MRL/Proofs/PDCSem.lean; only the hypotheses `hce` / `hens` and the cases
`create` / `ensureLen` differ).
-/
import MRL.Proofs.PDCSem

namespace MRL.PDA
open MRL Buf G H L Log K C01J Codec P PX PD PDC

/-- **the invariant holds along effects obeying the discipline** -/
theorem hinvD2 (fb : Nat) (hfb : 0 < fb) (es : List Effect) (σ : PDX) (S : PState) (hI : PInvX σ S)
    (hd : σ.dirty = false) (hn : σ.named = true) (σe : PDX) (hpd : PX.pd fb σ es = some σe)
    (hfoe : ∀ i, i ≤ es.length → FullOrEmpty fb (applyOsOps S.vol (directOps (es.take i))))
    (hsort : SortedK S.vol)
    (hce : ∀ i f, es[i]? = some (Effect.create f) →
      (prunD ⟨S, [], false⟩ (directOpsP (es.take i))).und = [])
    (hens : ∀ i f m, es[i]? = some (Effect.ensureLen f m) →
      ∀ kv ∈ (prunD ⟨S, [], false⟩ (directOpsP (es.take i))).und, kv.1 ≠ f)
    (hpres : ∀ i f, es[i]? = some (Effect.unlink f) →
      f ∈ (applyOsOps S.vol (directOps (es.take i))).map (·.1))
    (hsp : ∀ i f, es[i]? = some (Effect.fsyncFile f) → i + 1 < es.length → es[i + 1]? = some Effect.fsyncDir) :
    ∀ n, n ≤ es.length → HInvD fb σ S es n := by
  intro n
  induction n with
  | zero =>
    intro _
    refine ⟨rfl, ?_, ?_, ?_, ?_⟩
    · intro σn _ kv hkv; simp [prunD, directOpsP] at hkv
    · intro σn _ h; simp [prunD, directOpsP] at h
    · intro h; simp [prunD, directOpsP] at h
    · intro u; simp [prunD, directOpsP, skipLate, directOps]
  | succ n ih =>
    intro hle
    have ihn := ih (by omega)
    obtain ⟨e, he⟩ : ∃ e, es[n]? = some e := ⟨es[n], by simp [List.getElem?_eq_getElem (by omega : n < es.length)]⟩
    have htk := take_succ_get' he
    have hrunD : prunD ⟨S, [], false⟩ (directOpsP (es.take (n + 1))) =
        prunD (prunD ⟨S, [], false⟩ (directOpsP (es.take n))) (directP e) := by
      rw [htk, directOpsP_append, prunD_append]
      simp [directOpsP]
    obtain ⟨p, σn, hp, hpdn, hIn, himg⟩ := PX.power_prefix fb hfb es σ S hI hd hn σe hpd hfoe n (by omega)
    have hsplit : es = es.take n ++ e :: es.drop (n + 1) := split_at' he
    obtain ⟨σ1, hσ1⟩ : ∃ σ1, PX.pd1 fb σn e = some σ1 := by
      rw [hsplit, PX.pd_append, hpdn] at hpd
      simp only [Option.bind_some, PX.pd] at hpd
      cases h1 : PX.pd1 fb σn e with
      | none => rw [h1] at hpd; cases hpd
      | some σ1 => exact ⟨σ1, rfl⟩
    have hpdn1 : PX.pd fb σ (es.take (n + 1)) = some σ1 := by
      rw [htk, PX.pd_append, hpdn]
      simp only [Option.bind_some, PX.pd, hσ1]
    obtain ⟨c0, k0, nm0, hf0, hi0⟩ := ihn
    have k0' := k0 σn hpdn
    have nm0' := nm0 σn hpdn
    generalize hdn : prunD ⟨S, [], false⟩ (directOpsP (es.take n)) = dn at *
    have hdns : dn.s = prun S (directOpsP (es.take n)) := by rw [← hdn]; exact prunD_s _ _
    rw [← hdns] at hIn
    have hvoln : dn.s.vol = applyOsOps S.vol (directOps (es.take n)) := by rw [hdns]; exact prun_vol_direct _ _
    have hsn : SortedK dn.s.vol := by rw [hvoln]; exact sorted_applyOsOps _ _ hsort
    have hV1 : applyOsOps S.vol (directOps (es.take (n + 1))) =
        applyOsOps (applyOsOps S.vol (directOps (es.take n))) (direct e) := by
      rw [htk, directOps_append, applyOsOps_append]
      simp [directOps]
    have hwfmono := pd1_wf_mono fb hσ1
    -- no `hard` state can be followed by anything but `fsync(dir)`
    have hnohard : (∀ f, e ≠ Effect.fsyncFile f) → e ≠ Effect.fsyncDir → dn.hard = false := by
      intro h1 h2
      cases hh : dn.hard with
      | false => rfl
      | true =>
        exfalso
        obtain ⟨_, f', hn1, hf'⟩ := hf0 hh
        have := hsp (n - 1) f' hf' (by omega)
        rw [show n - 1 + 1 = n by omega, he] at this
        exact h2 (Option.some.inj this)
    -- the final packaging, for effects that keep the pending unlinks
    have hkeep : ∀ (hund : (prunD dn (directP e)).und = dn.und)
        (hhard : (prunD dn (directP e)).hard = true → dn.und ≠ [] ∧ ∃ f, e = Effect.fsyncFile f)
        (hnc : ∀ f, e ≠ Effect.create f) (hnu : isUnl e = false) (hnd : isDS e = false)
        (himg' : ∀ u, (dn.und.drop u).foldr (fun kv acc => putFile acc kv.1 kv.2)
            (applyOsOps (applyOsOps S.vol (directOps (es.take n))) (direct e)) =
          applyOsOps (applyOsOps S.vol (directOps (skipLate u (es.take n)))) (direct e)),
        HInvD fb σ S es (n + 1) := by
      intro hund hhard hnc hnu hnd himg'
      refine HInvD.of _ hrunD ?_ ?_ ?_ ?_ ?_
      · rw [hund, c0, htk, lateCount_snoc, if_neg (by simp [hnd]), if_neg (by simp [hnu])]
      · intro σx hx kv hkv
        rw [hpdn1] at hx; injection hx with hx; subst hx
        rw [hund] at hkv
        exact Nat.lt_of_lt_of_le (k0' kv hkv) hwfmono
      · intro σx hx hne
        rw [hpdn1] at hx; injection hx with hx; subst hx
        rw [hund] at hne
        exact pd1_named fb hσ1 (nm0' hne) hnc
      · intro hh
        obtain ⟨h1, f, hf⟩ := hhard hh
        rw [hund]
        exact ⟨h1, f, by omega, by rw [Nat.add_sub_cancel, he, hf]⟩
      · intro u
        rw [hund, hV1, htk, skipLate_snoc, if_neg (by simp [hnd]), if_neg (by simp [hnu]), directOps_append,
          applyOsOps_append]
        have : directOps [e] = direct e := by simp [directOps]
        rw [this]
        exact himg' u
    cases e with
    | flush =>
      exact hkeep rfl (fun hh => by
        have : dn.hard = false := hnohard (fun f h => by cases h) (fun h => by cases h)
        rw [show prunD dn (directP Effect.flush) = dn from rfl, this] at hh; cases hh)
        (fun f h => by cases h) rfl rfl (fun u => hi0 u)
    | listDir =>
      exact hkeep rfl (fun hh => by
        have : dn.hard = false := hnohard (fun f h => by cases h) (fun h => by cases h)
        rw [show prunD dn (directP Effect.listDir) = dn from rfl, this] at hh; cases hh)
        (fun f h => by cases h) rfl rfl (fun u => hi0 u)
    | openFile f0 =>
      exact hkeep rfl (fun hh => by
        have : dn.hard = false := hnohard (fun f h => by cases h) (fun h => by cases h)
        rw [show prunD dn (directP (Effect.openFile f0)) = dn from rfl, this] at hh; cases hh)
        (fun f h => by cases h) rfl rfl (fun u => hi0 u)
    | readBlock f0 =>
      exact hkeep rfl (fun hh => by
        have : dn.hard = false := hnohard (fun f h => by cases h) (fun h => by cases h)
        rw [show prunD dn (directP (Effect.readBlock f0)) = dn from rfl, this] at hh; cases hh)
        (fun f h => by cases h) rfl rfl (fun u => hi0 u)
    | fsyncFile f0 =>
      refine hkeep rfl ?_ (fun f h => by cases h) rfl rfl ?_
      · intro hh
        have hhd : (prunD dn (directP (Effect.fsyncFile f0))).hard =
            (dn.hard || (!dn.und.isEmpty && (match lookupF dn.s.vol f0 with
              | some c => lookupF dn.s.dur f0 != some c
              | none => false))) := rfl
        rw [hhd] at hh
        refine ⟨?_, f0, rfl⟩
        cases hh1 : dn.hard with
        | true => exact (hf0 hh1).1
        | false =>
          rw [hh1] at hh
          simp only [Bool.false_or, Bool.and_eq_true] at hh
          intro hnil
          rw [hnil] at hh
          simp at hh
      · intro u
        have : direct (Effect.fsyncFile f0) = [OsOp.sync] := rfl
        rw [this, applyOsOps_single, applyOsOps_single]
        exact hi0 u
    | write f0 off dt =>
      simp only [PX.pd1] at hσ1
      split at hσ1
      · rename_i hc
        obtain ⟨rfl, _⟩ := hc
        have hq := prunD_directP_quiet dn (.write σn.wf off dt) rfl rfl
        refine hkeep (by rw [hq]) ?_ (fun f h => by cases h) rfl rfl ?_
        · intro hh
          have : dn.hard = false := hnohard (fun f h => by cases h) (fun h => by cases h)
          rw [hq, this] at hh; cases hh
        · intro u
          have : direct (Effect.write σn.wf off dt) = [OsOp.write σn.wf off dt] := rfl
          rw [this, applyOsOps_single, applyOsOps_single]
          simp only [applyOs]
          rw [foldr_put_mapFile _ _ _ _ (fun kv hkv => Nat.ne_of_lt (k0' kv (List.mem_of_mem_drop hkv))), hi0 u]
      · cases hσ1
    | setLen f0 m =>
      simp only [PX.pd1] at hσ1
      split at hσ1
      · rename_i hc
        obtain ⟨rfl, _⟩ := hc
        have hq := prunD_directP_quiet dn (.setLen σn.wf m) rfl rfl
        refine hkeep (by rw [hq]) ?_ (fun f h => by cases h) rfl rfl ?_
        · intro hh
          have : dn.hard = false := hnohard (fun f h => by cases h) (fun h => by cases h)
          rw [hq, this] at hh; cases hh
        · intro u
          have : direct (Effect.setLen σn.wf m) = [OsOp.setLen σn.wf m] := rfl
          rw [this, applyOsOps_single, applyOsOps_single]
          simp only [applyOs]
          rw [foldr_put_mapFile _ _ _ _ (fun kv hkv => Nat.ne_of_lt (k0' kv (List.mem_of_mem_drop hkv))), hi0 u]
      · cases hσ1
    | create f0 =>
      have hu0 : dn.und = [] := by
        have := hce n f0 he
        rw [hdn] at this; exact this
      have hq := prunD_directP_quiet dn (.create f0) rfl rfl
      refine HInvD.of _ hrunD ?_ ?_ ?_ ?_ ?_
      · rw [hq]
        show dn.und.length = _
        rw [c0, htk, lateCount_snoc]; rfl
      · intro σx _ kv hkv
        rw [hq] at hkv
        have : kv ∈ dn.und := hkv
        rw [hu0] at this; cases this
      · intro σx _ hne
        rw [hq] at hne
        exact absurd hu0 hne
      · intro hh
        have : dn.hard = false := hnohard (fun f h => by cases h) (fun h => by cases h)
        rw [hq] at hh
        have : dn.hard = true := hh
        rw [hnohard (fun f h => by cases h) (fun h => by cases h)] at this; cases this
      · intro u
        rw [hq]
        show (dn.und.drop u).foldr _ _ = _
        rw [hu0, hV1, htk, skipLate_snoc]
        simp only [isDS, isUnl, Bool.false_eq_true, if_false, List.drop_nil, List.foldr_nil]
        rw [directOps_append, applyOsOps_append]
        have h0 := hi0 u
        rw [hu0] at h0
        simp only [List.drop_nil, List.foldr_nil] at h0
        rw [← h0]
        simp [directOps]
    | ensureLen f0 m =>
      have hq := prunD_directP_quiet dn (.ensureLen f0 m) rfl rfl
      have hne : ∀ kv ∈ dn.und, kv.1 ≠ f0 := by
        have := hens n f0 m he
        rw [hdn] at this; exact this
      refine hkeep (by rw [hq]) ?_ (fun f h => by cases h) rfl rfl ?_
      · intro hh
        have : dn.hard = false := hnohard (fun f h => by cases h) (fun h => by cases h)
        rw [hq, this] at hh; cases hh
      · intro u
        have : direct (Effect.ensureLen f0 m) = [OsOp.ensureLen f0 m] := rfl
        rw [this, applyOsOps_single, applyOsOps_single]
        simp only [applyOs]
        rw [foldr_put_mapFile _ _ _ _ (fun kv hkv => hne kv (List.mem_of_mem_drop hkv)), hi0 u]
    | fsyncDir =>
      have hund : (prunD dn (directP Effect.fsyncDir)).und = [] := rfl
      have hhard : (prunD dn (directP Effect.fsyncDir)).hard = false := rfl
      refine HInvD.of _ hrunD ?_ ?_ ?_ ?_ ?_
      · rw [hund, htk, lateCount_snoc]; rfl
      · intro σx _ kv hkv; rw [hund] at hkv; cases hkv
      · intro σx _ hne; exact absurd hund hne
      · intro hh; rw [hhard] at hh; cases hh
      · intro u
        rw [hund, htk, skipLate_snoc]
        simp [isDS]
    | unlink f0 =>
      simp only [PX.pd1] at hσ1
      split at hσ1
      · rename_i hc
        obtain ⟨hlt, hdd, hnn, _⟩ := hc
        injection hσ1 with hσ1
        subst hσ1
        -- the file is there
        have hmemk := hpres n f0 he
        rw [← hvoln] at hmemk
        obtain ⟨kv0, hkv0, hk0⟩ := List.mem_map.mp hmemk
        have hl : lookupF dn.s.vol f0 = some kv0.2 := by rw [← hk0]; exact lookupF_of_mem hIn.nodup hkv0
        have hmem : (f0, kv0.2) ∈ dn.s.vol := lookupF_some_mem hl
        have hold := hIn.old (f0, kv0.2) hmem (by show f0 ≠ σn.wf; omega)
        have hstep : prunD dn (directP (Effect.unlink f0)) = pstepD dn (.unlink f0) := rfl
        have hund : (prunD dn (directP (Effect.unlink f0))).und = dn.und ++ [(f0, kv0.2)] := by
          rw [hstep]
          simp only [pstepD, hl, hold.1, if_true]
          have : lookupF dn.s.dur f0 = some kv0.2 := hold.2
          rw [this, Option.getD_some, fitLen_self]
        have hkeeph : (pstepD dn (.unlink f0)).hard = dn.hard := by
          simp only [pstepD]
          split
          · split <;> rfl
          · rfl
        refine HInvD.of _ hrunD ?_ ?_ ?_ ?_ ?_
        · rw [hund, List.length_append, c0, htk, lateCount_snoc]; rfl
        · intro σx hx kv hkv
          rw [hpdn1] at hx; injection hx with hx; subst hx
          rw [hund] at hkv
          rcases List.mem_append.mp hkv with hkv | hkv
          · exact k0' kv hkv
          · rw [List.mem_singleton] at hkv; rw [hkv]; exact hlt
        · intro σx hx _
          rw [hpdn1] at hx; injection hx with hx; subst hx
          exact hnn
        · intro hh
          rw [hstep, hkeeph] at hh
          rw [hnohard (fun f h => by cases h) (fun h => by cases h)] at hh; cases hh
        · intro u
          have hV' : applyOsOps (applyOsOps S.vol (directOps (es.take n))) (direct (Effect.unlink f0)) =
              dn.s.vol.filter (fun x => x.1 != f0) := by rw [← hvoln]; rfl
          rw [hund, hV1, hV', htk, skipLate_snoc]
          simp only [isDS, isUnl, Bool.false_eq_true, if_false, if_true]
          by_cases hlu : lateCount (es.take n) < u
          · rw [if_pos hlu, List.drop_of_length_le (by simp; omega)]
            simp only [List.foldr_nil]
            rw [directOps_append, applyOsOps_append]
            have h0 := hi0 u
            rw [List.drop_of_length_le (by omega)] at h0
            simp only [List.foldr_nil] at h0
            rw [← h0, ← hvoln]
            rfl
          · rw [if_neg hlu, List.append_nil, List.drop_append_of_le_length (by omega), List.foldr_append]
            simp only [List.foldr_cons, List.foldr_nil]
            rw [putFile_filter _ f0 kv0.2 hsn hmem, hvoln]
            exact hi0 u
      · cases hσ1

end MRL.PDA
