/-
Reading a damaged image (C08/C12 about `recover`): the tape of a disk satisfying the disk
invariant; an image of the same shape (same file numbers, same file lengths); what `recover`
scans on it; and — under the no-accidental-frame hypothesis — the entries delivered are a
sub-sequence of the retained journal entries.
-/
import MRL.Proofs.ImgTrace
import MRL.Proofs.GReadLog

namespace MRL.Img
open MRL Consts Codec Torn Gen G

/-- the file contents back to back -/
def streamOf (W : Image) : Bytes := (W.map (·.2)).flatten

/-- same file numbers, same file lengths -/
def SameShape (W W' : Image) : Prop :=
  W'.map (fun kv => (kv.1, kv.2.length)) = W.map (fun kv => (kv.1, kv.2.length))

/-- `fs` is a frame layout of the tape of `W`: the stream is the layout of `fs` from position 0,
    then zeros -/
def TapeLayout (g : Geom) (W : Image) (fs : List Frm) : Prop :=
  Fits g 0 fs ∧ ∃ z, streamOf W = (layoutBufs g 0 fs).flatten ++ zeros z

/-- **the collision clause for images**: wherever the reader's acceptance test passes on the stream
    of `W'`, the tape of `W` has that very frame (type and payload) at that very location -/
def NoAccidentalFrameImg (g : Geom) (W W' : Image) : Prop :=
  ∀ fs, TapeLayout g W fs → NoAcc g (locs g 0 fs) (streamOf W')

theorem streamOf_imgOf : ∀ (cs : List Bytes) (F : Nat), streamOf (imgOf F cs) = cs.flatten
  | [], _ => rfl
  | c :: cs, F => by
    have := streamOf_imgOf cs (F + 1)
    simp only [streamOf] at this ⊢
    simp [imgOf, this]

theorem sameShape_imgOf : ∀ (cs : List Bytes) (F : Nat) (W' : Image), SameShape (imgOf F cs) W' →
    W' = imgOf F (W'.map (·.2)) ∧ (W'.map (·.2)).map List.length = cs.map List.length
  | [], F, W', h => by
    unfold SameShape at h
    simp only [imgOf, List.map_nil, List.map_eq_nil_iff] at h
    subst h; exact ⟨rfl, rfl⟩
  | c :: cs, F, W', h => by
    unfold SameShape at h
    cases W' with
    | nil => simp [imgOf] at h
    | cons kv W' =>
      simp only [imgOf, List.map_cons, List.cons.injEq, Prod.mk.injEq] at h
      obtain ⟨⟨h1, h2⟩, h3⟩ := h
      obtain ⟨i1, i2⟩ := sameShape_imgOf cs (F + 1) W' h3
      obtain ⟨k, v⟩ := kv
      simp only at h1 h2
      subst h1
      refine ⟨?_, by simp [h2, i2]⟩
      simp only [List.map_cons, imgOf]
      rw [← i1]

/-- what the disk invariant says about the tape -/
theorem tape_of_dinv {g : Geom} {l : Log} {D : Image} {J : List JE} {F : Nat} (h : DInvF g l D J F) :
    ∃ (cs : List Bytes) (afs lead : List TFrm) (segs : List Seg),
      D = imgOf F cs ∧ cs ≠ [] ∧ (∀ c ∈ cs, c.length = g.fileBytes) ∧
      TapeLayout g D (untag afs) ∧ afs = lead ++ segs.flatMap (·.2) ∧
      (∀ a ∈ lead, a.2.1.isFirst = false) ∧
      segs.map (·.1) = J.filter (fun j => decide (F ≤ j.loc)) ∧ (∀ s ∈ segs, SegOK s) := by
  obtain ⟨init, t, afs, hT, hL, hS, _, _⟩ := h
  obtain ⟨lead, segs, hafs, hlead, hmap, hsok, _⟩ := hS
  have hlastlen : (t ++ zeros (g.fileBytes - l.off)).length = g.fileBytes := by
    have := hT.off_le
    simp [hT.tlen]; omega
  have hfull : ∀ c ∈ init ++ [t ++ zeros (g.fileBytes - l.off)], c.length = g.fileBytes := by
    intro c hc
    rcases List.mem_append.mp hc with hc | hc
    · exact hT.full c hc
    · simp only [List.mem_singleton] at hc; rw [hc]; exact hlastlen
  refine ⟨init ++ [t ++ zeros (g.fileBytes - l.off)], afs, lead, segs, hT.img, by simp, hfull,
    ⟨hL.fits, ?_⟩, hafs, hlead, hmap, hsok⟩
  refine ⟨(init.flatten ++ t).length - endPos g 0 (untag afs) + (g.fileBytes - l.off), ?_⟩
  rw [hT.img, streamOf_imgOf, List.flatten_append, List.flatten_singleton, ← List.append_assoc]
  conv => lhs; rw [hL.bytes]
  rw [List.append_assoc, ← zeros_add]

/-- the frames of the segments are the groups of the encoded entries -/
theorem segs_entriesFrames : ∀ (segs : List Seg), (∀ s ∈ segs, SegOK s) →
    EntriesFrames (segs.map fun s => s.1.e.encode) (untag (segs.flatMap (·.2)))
  | [], _ => EntriesFrames.nil
  | s :: segs, h => by
    have hs := h s List.mem_cons_self
    rw [List.flatMap_cons, untag_append, List.map_cons]
    exact EntriesFrames.cons hs.frames hs.payload (segs_entriesFrames segs fun s' hs' => h s' (List.mem_cons_of_mem _ hs'))

/-- the blocks `recover` scans on an image of full files `F, F+1, …` -/
theorem blocks_of_full (g : Geom) (F : Nat) (cs : List Bytes) (hne : cs ≠ [])
    (hfull : ∀ c ∈ cs, c.length = g.fileBytes) :
    ∃ m trail, (m + 1) * g.B = cs.flatten.length ∧
      blocksOf g (prepareImage g (imgOf F cs)).1 1 =
        (blkAt g F cs.flatten 0 :: blksFrom g F cs.flatten 1 m, trail) := by
  obtain ⟨c0, cs', rfl⟩ : ∃ c0 cs', cs = c0 :: cs' := by
    cases cs with
    | nil => exact absurd rfl hne
    | cons c0 cs' => exact ⟨c0, cs', rfl⟩
  have hprep := prepare_full g F c0 cs' (hfull c0 List.mem_cons_self)
  have hblocks := blocksOf_imgOf g F (c0 :: cs') 0 [] hfull (by simp)
  simp only [Nat.add_zero, List.nil_append, Nat.zero_mul] at hblocks
  have hNpos : 0 < (c0 :: cs').length * g.K := Nat.mul_pos (by simp) g.hK
  obtain ⟨m, hm⟩ : ∃ m, (c0 :: cs').length * g.K = m + 1 := ⟨(c0 :: cs').length * g.K - 1, by omega⟩
  rcases hbo : blocksOf g (imgOf F (c0 :: cs')) 1 with ⟨bs, trail⟩
  rw [hbo] at hblocks
  simp only at hblocks
  rw [hm, blksFrom_succ] at hblocks
  refine ⟨m, trail, ?_, ?_⟩
  · rw [flatten_length_full _ _ hfull, mul_fb, hm]
  · rw [hprep, hbo, hblocks]

/-- **the entries delivered from a damaged image** (as bytes) are a sub-sequence of the encoded
    retained journal entries -/
theorem img_delivered (g : Geom) (F : Nat) (cs' : List Bytes) (hne : cs' ≠ [])
    (hfull : ∀ c ∈ cs', c.length = g.fileBytes) (afs lead : List TFrm) (segs : List Seg)
    (hafs : afs = lead ++ segs.flatMap (·.2)) (hlead : ∀ a ∈ lead, a.2.1.isFirst = false)
    (hsok : ∀ s ∈ segs, SegOK s)
    (hN : NoAcc g (locs g 0 (untag afs)) cs'.flatten)
    (b0 : Blk) (rest : List Blk) (trail : Nat) (rdEvs : List RdEv) (e : EndPos) (io : Nat)
    (hb : blocksOf g (prepareImage g (imgOf F cs')).1 1 = (b0 :: rest, trail))
    (hs : scanBlocks g none trail b0.cost b0 0 rest = some (rdEvs, e, io)) :
    List.Sublist (bytesOf (assemble { within := false, buf := [], attr := b0.file } rdEvs))
      (segs.map fun s => s.1.e.encode) := by
  obtain ⟨m, trail', hlen, hb'⟩ := blocks_of_full g F cs' hne hfull
  rw [hb] at hb'
  simp only [Prod.mk.injEq, List.cons.injEq] at hb'
  obtain ⟨⟨hb0, hrest⟩, _⟩ := hb'
  subst hb0 hrest
  obtain ⟨io', hio⟩ := scanBlocks_eq_scanB g trail (blkAt g F cs'.flatten 0).cost (blkAt g F cs'.flatten 0) 0
    (blksFrom g F cs'.flatten 1 m)
  rw [hs] at hio
  simp only [Option.some.injEq, Prod.mk.injEq] at hio
  obtain ⟨hev, _, _⟩ := hio
  -- up to tags, the events of the stream read as one file
  have hre := scan_multi_single g F F cs'.flatten m
  rw [← hev] at hre
  -- they form a trace of the tape's frames
  have hL := located_locs g (untag afs) 0
  have htr := trace_blocks g F _ hL cs'.flatten hN m 0 0 (by simpa using hlen.symm) (Nat.zero_le _) false
    (fun h => by cases h)
  simp only [Nat.zero_mul, List.drop_zero, Nat.zero_add] at htr
  have hall : ahead (locs g 0 (untag afs)) 0 = locs g 0 (untag afs) := by
    unfold ahead
    rw [List.filter_eq_self]
    intro y _; simp
  rw [hall, locs_snd, ← hre] at htr
  -- reassembly
  have hshape : Shape' (untag afs) (segs.map fun s => s.1.e.encode) := by
    refine ⟨untag lead, untag (segs.flatMap (·.2)), by rw [hafs, untag_append], ?_, segs_entriesFrames segs hsok⟩
    intro a ha
    obtain ⟨x, hx, rfl⟩ := List.mem_map.mp ha
    exact hlead x hx
  have hsub := (asm_trace' F htr { within := false, buf := [], attr := F } rfl).1 rfl _ hshape
  have hb := bytesOf_sublist hsub
  rw [bytesOf_entriesOf, bytesOf_entries] at hb
  rw [assemble_retag F rdEvs { within := false, buf := [], attr := (blkAt g F cs'.flatten 0).file }
    { within := false, buf := [], attr := F } rfl rfl]
  exact hb

end MRL.Img
