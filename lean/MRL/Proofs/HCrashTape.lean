/-
Crash states of the tape: stopping the effects of `writeBuf`/`writeBufs`/`writeEntry`/
`writeTouches` at any point (the last write possibly cut at any byte) leaves the tracked files
holding the old bytes followed by a prefix of the new ones and zeros — possibly with the next
file already created but still empty.
-/
import MRL.Proofs.HBufCrash
import MRL.Proofs.GGc

namespace MRL.H
open MRL Buf G Codec Log

theorem CutState.cons_inv {img : Image} {v : Effect} {V : List Effect} {X : Image}
    (h : CutState img (v :: V) X) :
    X = img ∨ (∃ f off d c, v = .write f off d ∧ X = applyOs img (.write f off (d.take c))) ∨
      CutState (applyOsOps img (direct v)) V X := by
  cases h with
  | stop => exact Or.inl rfl
  | part _ f off d c _ => exact Or.inr (Or.inl ⟨f, off, d, c, rfl, rfl⟩)
  | next _ _ _ _ h1 => exact Or.inr (Or.inr h1)

theorem CutState.nil_inv {img X : Image} (h : CutState img [] X) : X = img := by
  cases h; rfl

/-- effects that change no image and are not writes -/
def IsSyncL (sy : List Effect) : Prop := ∀ v ∈ sy, v = .flush ∨ (∃ f, v = .fsyncFile f) ∨ v = .fsyncDir

theorem isSyncL_direct (v : Effect) (h : v = .flush ∨ (∃ f, v = .fsyncFile f) ∨ v = .fsyncDir)
    (img : Image) : applyOsOps img (direct v) = img := by
  rcases h with rfl | ⟨f, rfl⟩ | rfl <;> rfl

theorem cut_syncL {sy : List Effect} (hs : IsSyncL sy) : ∀ {img X : Image}, CutState img sy X → X = img := by
  induction sy with
  | nil => intro img X h; exact h.nil_inv
  | cons v sy ih =>
    intro img X h
    have hv := hs v List.mem_cons_self
    rcases h.cons_inv with h1 | ⟨f, off, d, c, hw, _⟩ | h1
    · exact h1
    · rcases hv with h2 | ⟨f', h2⟩ | h2 <;> rw [h2] at hw <;> cases hw
    · rw [isSyncL_direct v hv] at h1
      exact ih (fun v' hv' => hs v' (List.mem_cons_of_mem _ hv')) h1

theorem syncL_apply {sy : List Effect} (hs : IsSyncL sy) (img : Image) :
    applyOsOps img (directOps sy) = img := by
  induction sy with
  | nil => rfl
  | cons v sy ih =>
    rw [directOps_cons, applyOsOps_append, isSyncL_direct v (hs v List.mem_cons_self),
      ih (fun v' hv' => hs v' (List.mem_cons_of_mem _ hv'))]

theorem isSyncL_persist (l : Log) (a : PersistAction) : IsSyncL (l.persistEffects a) := by
  intro v hv
  cases a <;> simp [persistEffects] at hv
  · exact Or.inl hv
  · rcases hv with h | h | h
    · exact Or.inl h
    · exact Or.inr (Or.inl ⟨_, h⟩)
    · exact Or.inr (Or.inr h)

theorem isSyncL_policy (l : Log) (tick : Bool) : IsSyncL (l.policyEffects tick) := by
  unfold policyEffects
  split
  · exact isSyncL_persist l _
  · split
    · exact isSyncL_persist l _
    · intro v hv; cases hv
  · intro v hv; cases hv

/-- crash states of a list of `unlink`s: a prefix of them was done -/
theorem cut_unlinks (fs : List Nat) : ∀ {img X : Image}, CutState img (fs.map Effect.unlink) X →
    ∃ k, k ≤ fs.length ∧ X = applyOsOps img ((fs.take k).map OsOp.unlink) := by
  induction fs with
  | nil => intro img X h; exact ⟨0, Nat.le_refl _, h.nil_inv⟩
  | cons f fs ih =>
    intro img X h
    rcases h.cons_inv with h1 | ⟨_, _, _, _, hw, _⟩ | h1
    · exact ⟨0, Nat.zero_le _, by rw [h1]; rfl⟩
    · cases hw
    · obtain ⟨k, hk, hX⟩ := ih h1
      refine ⟨k + 1, by simpa using hk, ?_⟩
      rw [hX]
      simp [applyOsOps, direct]

/-! ### crash tapes -/

/-- the files `F, F+1, …` of `X` are full-size and hold `Pm` followed by zeros; the next file may
    exist, empty -/
def CTape (g : Geom) (F : Nat) (Pm : Bytes) (X : Image) : Prop :=
  ∃ cs : List Bytes, cs ≠ [] ∧ (∀ c ∈ cs, c.length = g.fileBytes) ∧ (∃ z, cs.flatten = Pm ++ zeros z) ∧
    (X = imgOf F cs ∨ X = imgOf F cs ++ [(F + cs.length, [])])

theorem ctape_of_tape {g : Geom} {l : Log} {D : Image} {F : Nat} {init : List Bytes} {t : Bytes}
    (h : Tape g l D F init t) : CTape g F (init.flatten ++ t) D := by
  refine ⟨init ++ [t ++ zeros (g.fileBytes - l.off)], by simp, ?_, ⟨g.fileBytes - l.off, by simp⟩, Or.inl h.img⟩
  intro c hc
  rcases List.mem_append.mp hc with hc | hc
  · exact h.full c hc
  · simp only [List.mem_singleton] at hc
    have := h.off_le
    rw [hc]; simp [h.tlen]; omega

/-- `Pm` is `Pf` cut somewhere at or after the end of `P` -/
def PrefixCut (P Pf Pm : Bytes) : Prop := ∃ m, P.length ≤ m ∧ m ≤ Pf.length ∧ Pm = Pf.take m

theorem PrefixCut.extend {P Pf Pm : Bytes} (R : Bytes) (h : PrefixCut P Pf Pm) : PrefixCut P (Pf ++ R) Pm := by
  obtain ⟨m, h1, h2, h3⟩ := h
  exact ⟨m, h1, by simp; omega, by rw [h3, List.take_append_of_le_length h2]⟩

theorem PrefixCut.shift {P Q Pf Pm : Bytes} (h : PrefixCut (P ++ Q) Pf Pm) : PrefixCut P Pf Pm := by
  obtain ⟨m, h1, h2, h3⟩ := h
  exact ⟨m, by simp at h1; omega, h2, h3⟩

theorem PrefixCut.take (P B : Bytes) (m : Nat) : PrefixCut P (P ++ B) (P ++ B.take m) := by
  by_cases hm : m ≤ B.length
  · refine ⟨P.length + m, by omega, by rw [List.length_append]; omega, ?_⟩
    have h1 : P.take (P.length + m) = P := List.take_of_length_le (by omega)
    rw [List.take_append, h1]
    congr 2
    omega
  · refine ⟨P.length + B.length, by omega, by rw [List.length_append]; omega, ?_⟩
    have h1 : B.take m = B := List.take_of_length_le (by omega)
    have h2 : (P ++ B).take (P.length + B.length) = P ++ B :=
      List.take_of_length_le (by rw [List.length_append]; omega)
    rw [h1, h2]

/-- one buffer -/
theorem writeBuf_cut (g : Geom) {l : Log} {D : Image} {F : Nat} {init : List Bytes} {t : Bytes}
    (h : Tape g l D F init t) (buf : Bytes) (hne : buf ≠ []) (hnc : l.off % g.B + buf.length ≤ g.B)
    {X : Image} (hX : CutState D (writeBuf g l buf).2 X) :
    ∃ m, CTape g F (init.flatten ++ t ++ buf.take m) X := by
  have he : buf.isEmpty = false := by cases buf <;> simp_all
  have hlen : 0 < buf.length := List.length_pos_iff.mpr hne
  have hafter := writeBuf_tape g h buf hne hnc
  obtain ⟨i', t', hT', hP', _, _⟩ := hafter
  have hfull : ∃ m, CTape g F (init.flatten ++ t ++ buf.take m)
      (applyOsOps D (directOps (writeBuf g l buf).2)) :=
    ⟨buf.length, by rw [List.take_length, ← hP']; exact ctape_of_tape hT'⟩
  have hnone : ∃ m, CTape g F (init.flatten ++ t ++ buf.take m) D := ⟨0, by simpa using ctape_of_tape h⟩
  by_cases hroll : l.off + buf.length > g.fileBytes
  · have hfullf : l.off = g.fileBytes := by
      have := h.off_le
      by_cases hlt : l.off < g.fileBytes
      · have := fits_file g l.off buf.length hlt hnc; omega
      · omega
    have hbl : buf.length ≤ g.fileBytes := by
      have := B_le_fileBytes g
      have : l.off % g.B = 0 := by rw [hfullf]; exact fileBytes_mod g
      omega
    have hnf : nextFile l.files l.cur = none := by rw [h.files, h.cur]; exact nextFile_range F _
    have hw : (writeBuf g l buf).2 =
        [Effect.flush, .fsyncFile l.cur, .fsyncDir, .create (l.cur + 1), .setLen (l.cur + 1) g.fileBytes,
          .write (l.cur + 1) 0 buf] := by
      unfold writeBuf
      simp only [he, Bool.false_eq_true, if_false, hroll, if_true, hnf]
      rfl
    rw [hw] at hX hfull
    have hlast : t ++ zeros (g.fileBytes - l.off) = t := by rw [hfullf]; simp [zeros]
    have hnum : l.cur + 1 = F + (init ++ [t]).length := by rw [h.cur]; simp; omega
    have hfullcs : ∀ c ∈ init ++ [t], c.length = g.fileBytes := by
      intro c hc
      rcases List.mem_append.mp hc with hc | hc
      · exact h.full c hc
      · simp only [List.mem_singleton] at hc; rw [hc, h.tlen, hfullf]
    have hD : D = imgOf F (init ++ [t]) := by rw [h.img, hlast]
    -- flush, fsync, fsync
    rcases hX.cons_inv with h1 | ⟨_, _, _, _, hw1, _⟩ | hX
    · rw [h1]; exact hnone
    · cases hw1
    rcases hX.cons_inv with h1 | ⟨_, _, _, _, hw1, _⟩ | hX
    · rw [h1]; exact hnone
    · cases hw1
    rcases hX.cons_inv with h1 | ⟨_, _, _, _, hw1, _⟩ | hX
    · rw [h1]; exact hnone
    · cases hw1
    simp only [direct, applyOsOps, List.foldl_nil, List.foldl_cons, applyOs] at hX
    -- create
    rcases hX.cons_inv with h1 | ⟨_, _, _, _, hw1, _⟩ | hX
    · rw [h1]; exact hnone
    · cases hw1
    simp only [direct, applyOsOps, List.foldl_nil, List.foldl_cons, applyOs] at hX
    rw [hD, hnum, insertFile_end] at hX
    -- setLen
    rcases hX.cons_inv with h1 | ⟨_, _, _, _, hw1, _⟩ | hX
    · refine ⟨0, init ++ [t], by simp, hfullcs, ⟨0, by simp [zeros]⟩, Or.inr ?_⟩
      rw [h1, imgOf_append]
      simp [imgOf]
    · cases hw1
    simp only [direct, applyOsOps, List.foldl_nil, List.foldl_cons, applyOs] at hX
    rw [mapFile_last, setLenBytes_nil] at hX
    have hfullcs2 : ∀ (x : Bytes), x.length = g.fileBytes → ∀ c ∈ (init ++ [t]) ++ [x], c.length = g.fileBytes := by
      intro x hx c hc
      rcases List.mem_append.mp hc with hc | hc
      · exact hfullcs c hc
      · simp only [List.mem_singleton] at hc; rw [hc, hx]
    -- write
    rcases hX.cons_inv with h1 | ⟨f, off, d, c, hw1, h1⟩ | hX
    · refine ⟨0, (init ++ [t]) ++ [zeros g.fileBytes], by simp, hfullcs2 _ (by simp),
        ⟨g.fileBytes, by simp⟩, Or.inl h1⟩
    · injection hw1 with e1 e2 e3
      subst e1 e2 e3
      have hcl : (buf.take c).length ≤ g.fileBytes := by simp; omega
      have hov := overwrite_tail [] g.fileBytes (buf.take c) hcl
      simp only [List.nil_append, List.length_nil] at hov
      simp only [applyOs] at h1
      rw [mapFile_last, hov] at h1
      refine ⟨c, (init ++ [t]) ++ [buf.take c ++ zeros (g.fileBytes - (buf.take c).length)], by simp,
        hfullcs2 _ (by simp; omega), ⟨g.fileBytes - (buf.take c).length, by simp⟩, Or.inl h1⟩
    · have := hX.nil_inv
      rw [this]
      have hfin : applyOsOps D (directOps [Effect.flush, .fsyncFile l.cur, .fsyncDir, .create (l.cur + 1),
          .setLen (l.cur + 1) g.fileBytes, .write (l.cur + 1) 0 buf]) =
          applyOsOps (imgOf F (init ++ [t] ++ [zeros g.fileBytes])) (direct (Effect.write (F + (init ++ [t]).length) 0 buf)) := by
        simp only [directOps, List.flatMap_cons, List.flatMap_nil, direct, List.cons_append, List.nil_append,
          List.append_nil, applyOsOps, List.foldl_cons, List.foldl_nil, applyOs]
        rw [hD, hnum, insertFile_end, mapFile_last, setLenBytes_nil]
      rw [← hfin]; exact hfull
  · have hw : (writeBuf g l buf).2 = [.write l.cur l.off buf] := by
      unfold writeBuf
      simp only [he, Bool.false_eq_true, if_false, hroll]
    rw [hw] at hX hfull
    rcases hX.cons_inv with h1 | ⟨f, off, d, c, hw1, h1⟩ | hX
    · rw [h1]; exact hnone
    · injection hw1 with e1 e2 e3
      subst e1 e2 e3
      have hcl : (buf.take c).length ≤ g.fileBytes - l.off := by simp; omega
      simp only [applyOs] at h1
      rw [h.img, h.cur, mapFile_last, ← h.tlen, overwrite_tail t _ _ (by rw [h.tlen]; exact hcl)] at h1
      refine ⟨c, init ++ [t ++ buf.take c ++ zeros (g.fileBytes - t.length - (buf.take c).length)], by simp,
        ?_, ⟨g.fileBytes - t.length - (buf.take c).length, by simp⟩, Or.inl h1⟩
      intro x hx
      rcases List.mem_append.mp hx with hx | hx
      · exact h.full x hx
      · simp only [List.mem_singleton] at hx
        rw [hx]
        simp only [List.length_append, length_zeros]
        have h1 := h.tlen
        have h2 := h.off_le
        omega
    · have := hX.nil_inv
      rw [this]
      exact hfull

/-- a list of buffers -/
theorem writeBufs_cut (g : Geom) (bufs : List Bytes) : ∀ {l : Log} {D : Image} {F : Nat}
    {init : List Bytes} {t : Bytes}, Tape g l D F init t → NoCross g (l.off % g.B) bufs →
    ∀ {X : Image}, CutState D (writeBufs g l bufs).2 X →
    ∃ Pm, CTape g F Pm X ∧ PrefixCut (init.flatten ++ t) (init.flatten ++ t ++ bufs.flatten) Pm := by
  induction bufs with
  | nil =>
    intro l D F init t h _ X hX
    have : X = D := by simpa [writeBufs] using hX.nil_inv
    rw [this]
    refine ⟨_, ctape_of_tape h, ⟨(init.flatten ++ t).length, Nat.le_refl _, by simp, ?_⟩⟩
    simp only [List.flatten_nil, List.append_nil, List.take_length]
  | cons b bs ih =>
    intro l D F init t h hnc X hX
    obtain ⟨h1, h2, h3⟩ := hnc
    have hne : b ≠ [] := by intro e; rw [e] at h1; simp at h1
    rw [Step.writeBufs_cons] at hX
    rcases CutState.of_append _ hX with hX | hX
    · obtain ⟨m, hm⟩ := writeBuf_cut g h b hne h2 hX
      refine ⟨_, hm, ?_⟩
      have := (PrefixCut.take (init.flatten ++ t) b m).extend bs.flatten
      simpa [List.append_assoc] using this
    · obtain ⟨i1, t1, ht1, hp1, _, hc1⟩ := writeBuf_tape g h b hne h2
      rw [← hc1] at h3
      obtain ⟨Pm, hc, hp⟩ := ih ht1 h3 hX
      refine ⟨Pm, hc, ?_⟩
      rw [hp1] at hp
      have := hp.shift
      simpa [List.append_assoc] using this

end MRL.H
