/-
The write phase of a call (its entry, then the GC touches): explicit-witness invariant after the
touches, crash states, and what `recoverPre` returns on any crash state of the write phase.
-/
import MRL.Proofs.HCall

namespace MRL.H
open MRL Codec Consts G Torn Log Buf

/-- the GC touches, with explicit witnesses and crash states -/
theorem touches_ext (g : Geom) (F : Nat) (lead : List TFrm) (names : List Bytes) :
    ∀ (l : Log) (D : Image) (J : List JE) (init : List Bytes) (t : Bytes) (afs : List TFrm) (segs : List Seg),
    XInv g l D F J init t afs lead segs →
    ∃ init' t' ntf newsegs B,
      XInv g (writeTouches g l names).1 (applyOsOps D (directOps (writeTouches g l names).2.1)) F
        (J ++ touchesJ g l names) init' t' (afs ++ ntf) lead (segs ++ newsegs) ∧
      (names ≠ [] → ntf ≠ [] ∧ (init'.flatten ++ t').length = endPos g 0 (untag (afs ++ ntf))) ∧
      (names = [] → ntf = [] ∧ newsegs = [] ∧ B = []) ∧
      init'.flatten ++ t' = init.flatten ++ t ++ B ∧
      (∀ X, CutState D (writeTouches g l names).2.1 X →
        ∃ Pm, CTape g F Pm X ∧ PrefixCut (init.flatten ++ t) (init'.flatten ++ t') Pm) ∧
      (∀ a ∈ ntf, ∃ f off, Effect.write f off (encodeFrame a.2.1 a.2.2) ∈ (writeTouches g l names).2.1) := by
  induction names with
  | nil =>
    intro l D J init t afs segs h
    refine ⟨init, t, [], [], [], ?_, fun h => absurd rfl h, fun _ => ⟨rfl, rfl, rfl⟩, by simp, ?_, ?_⟩
    · simpa [writeTouches, touchesJ, directOps, applyOsOps] using h
    · intro X hX
      have : X = D := by simpa [writeTouches] using hX.nil_inv
      rw [this]
      exact ⟨_, ctape_of_tape h.tape, ⟨_, Nat.le_refl _, Nat.le_refl _, (List.take_length).symm⟩⟩
    · intro a ha; cases ha
  | cons n ns ih =>
    intro l D J init t afs segs h
    have he : Step.touchEntry l n = .touch n (touchNext l n) := rfl
    obtain ⟨i1, t1, ntf1, B1, x1, hne1, hlen1, hP1, hcut1, hmem1⟩ := entry_ext g h (.touch n (touchNext l n))
    obtain ⟨i2, t2, ntf2, ns2, B2, x2, hlen2, hnil2, hP2, hcut2, hmem2⟩ := ih _ _ _ _ _ _ _ x1
    refine ⟨i2, t2, ntf1 ++ ntf2, (l.je g (.touch n (touchNext l n)), ntf1) :: ns2, B1 ++ B2, ?_,
      fun _ => ⟨by simp [hne1], ?_⟩, (fun h => by cases h), ?_, ?_, ?_⟩
    · rw [Step.writeTouches_cons, touchesJ_cons, he]
      simp only [directOps_append, applyOsOps_append]
      have : J ++ l.je g (.touch n (touchNext l n)) ::
          touchesJ g (Log.writeEntry g l (.touch n (touchNext l n))).1 ns =
          J ++ [l.je g (.touch n (touchNext l n))] ++
            touchesJ g (Log.writeEntry g l (.touch n (touchNext l n))).1 ns := by simp
      rw [this, ← List.append_assoc afs, show segs ++ (l.je g (.touch n (touchNext l n)), ntf1) :: ns2 =
        segs ++ [(l.je g (.touch n (touchNext l n)), ntf1)] ++ ns2 by simp]
      exact x2
    · by_cases hns : ns = []
      · obtain ⟨a1, a2, a3⟩ := hnil2 hns
        subst a1
        rw [List.append_nil]
        have : i2.flatten ++ t2 = i1.flatten ++ t1 := by rw [hP2, a3, List.append_nil]
        rw [this]
        exact hlen1
      · rw [← List.append_assoc]; exact (hlen2 hns).2
    · rw [hP2, hP1]; simp [List.append_assoc]
    · intro X hX
      rw [Step.writeTouches_cons, he] at hX
      rcases CutState.of_append _ hX with hX | hX
      · obtain ⟨Pm, c1, c2⟩ := hcut1 X hX
        refine ⟨Pm, c1, ?_⟩
        rw [hP2]
        exact c2.extend B2
      · obtain ⟨Pm, c1, c2⟩ := hcut2 X hX
        refine ⟨Pm, c1, ?_⟩
        rw [hP1] at c2
        exact c2.shift
    · intro a ha
      rw [Step.writeTouches_cons, he]
      rcases List.mem_append.mp ha with ha | ha
      · obtain ⟨f, off, hm⟩ := hmem1 a ha
        exact ⟨f, off, List.mem_append_left _ hm⟩
      · obtain ⟨f, off, hm⟩ := hmem2 a ha
        exact ⟨f, off, List.mem_append_right _ hm⟩

theorem touchesJ_take (g : Geom) (names : List Bytes) : ∀ (l : Log) (i : Nat),
    (touchesJ g l names).take i = touchesJ g l (names.take i) := by
  induction names with
  | nil => intro l i; simp [touchesJ]
  | cons n ns ih =>
    intro l i
    cases i with
    | zero => simp [touchesJ]
    | succ i => rw [touchesJ_cons, List.take_succ_cons, List.take_succ_cons, touchesJ_cons, ih]

/-- reading any crash state of a write phase -/
theorem phase_read (g : Geom) (hB : g.B ≤ 65542) {l l3 : Log} {D D3 : Image} {F : Nat} {J Jnew : List JE}
    {init init3 : List Bytes} {t t3 : Bytes} {afs ntf lead : List TFrm} {segs newsegs : List Seg}
    (h0 : XInv g l D F J init t afs lead segs)
    (h3 : XInv g l3 D3 F (J ++ Jnew) init3 t3 (afs ++ ntf) lead (segs ++ newsegs))
    (hlen3 : (init3.flatten ++ t3).length = endPos g 0 (untag (afs ++ ntf)))
    (hnewloc : ∀ j ∈ Jnew, F ≤ j.loc)
    (hwf : ∀ j ∈ J ++ Jnew, C07.WF j.e)
    (hfirst : ∀ j, ((J ++ Jnew).filter (fun j => decide (F ≤ j.loc))).head? = some j → j.attr ≤ F)
    (qf : MemQueues) (hrep : replayJ F [] (J ++ Jnew) = some qf)
    (htorn : ∀ a ∈ ntf, TornFrame a.2.1 a.2.2)
    (X : Image) (Pm : Bytes) (hX : CTape g F Pm X)
    (hcut : PrefixCut (init.flatten ++ t) (init3.flatten ++ t3) Pm) (policy : Policy) :
    ∃ i qs lp e0 io, i ≤ Jnew.length ∧ replayJ F [] (J ++ Jnew.take i) = some qs ∧
      recoverPre g X policy none = .ok (lp, e0, io) ∧ lp.queues = qs := by
  obtain ⟨cs, hne, hfull, ⟨z, hflat⟩, hXform⟩ := hX
  obtain ⟨m, hm1, hm2, hPm⟩ := hcut
  -- the final bytes are exactly the layout
  have hPf : init3.flatten ++ t3 = (layoutBufs g 0 (untag (afs ++ ntf))).flatten := by
    have := h3.lay.bytes
    rw [hlen3, Nat.sub_self] at this
    simpa [zeros] using this
  have hnewmap : newsegs.map (·.1) = Jnew := by
    have hm := h3.hmap
    rw [List.map_append, List.filter_append, h0.hmap] at hm
    have := List.append_cancel_left hm
    rw [this, List.filter_eq_self]
    intro j hj; simpa using hnewloc j hj
  have hE0 : endPos g 0 (untag afs) ≤ (init.flatten ++ t).length := by
    rcases h0.lay.len with h | h
    · omega
    · have := le_hdrPos g (endPos g 0 (untag afs)); omega
  have hrepf : replayJ F [] ((segs ++ newsegs).map (·.1)) = some qf := by
    rw [h3.hmap, ← replayJ_filter]; exact hrep
  obtain ⟨j1, qs, lp, e0, io, hj1, hj2, hq, hrec, hlq⟩ := crash_read g hB F cs hne hfull X hXform
    (afs ++ ntf) h3.lay.fits h3.lay.tagged lead (segs ++ newsegs) h3.hafs h3.hlead h3.hsok h3.hchain
    (by
      intro s hs
      have : s.1 ∈ (segs ++ newsegs).map (·.1) := List.mem_map_of_mem (f := (·.1)) hs
      rw [h3.hmap] at this
      have := List.mem_filter.mp this
      exact ⟨hwf _ this.1, by simpa using this.2⟩)
    (by
      intro s hs
      apply hfirst
      rw [← h3.hmap]
      cases hsg : segs ++ newsegs with
      | nil => rw [hsg] at hs; cases hs
      | cons s' rest =>
        rw [hsg] at hs
        simp only [List.head?_cons, Option.some.injEq] at hs
        subst hs; rfl)
    qf hrepf m z (by rw [← hlen3]; exact hm2) (by rw [hflat, hPm, hPf])
    segs.length (by simp)
    (by
      rw [List.take_left' rfl, ← h0.hafs]
      omega)
    (by
      intro fs1 tt p fs2 hsplit hlt
      -- the cut frame is a new one
      have hmem : (tt, p) ∈ untag ntf := by
        rw [untag_append] at hsplit
        rcases List.append_eq_append_iff.mp hsplit with ⟨a', h1, h2⟩ | ⟨c', h1, h2⟩
        · -- fs1 = untag afs ++ a'
          cases a' with
          | nil =>
            simp only [List.append_nil] at h1 h2
            rw [h2]; simp
          | cons x xs =>
            rw [h2]
            simp
        · -- untag afs = fs1 ++ c' with (tt,p) :: fs2 = c' ++ untag ntf
          cases c' with
          | nil =>
            simp only [List.nil_append] at h2
            rw [← h2]; simp
          | cons x xs =>
            exfalso
            simp only [List.cons_append, List.cons.injEq] at h2
            obtain ⟨rfl, _⟩ := h2
            have : endPos g 0 (fs1 ++ [(tt, p)]) ≤ endPos g 0 (untag afs) := by
              rw [h1, show fs1 ++ (tt, p) :: xs = (fs1 ++ [(tt, p)]) ++ xs by simp]
              exact endPos_mono g 0 _ _
            omega
      obtain ⟨a, ha, hae⟩ := List.mem_map.mp hmem
      have := htorn a ha
      have h1 : a.2.1 = tt := by rw [hae]
      have h2 : a.2.2 = p := by rw [hae]
      rw [h1, h2] at this; exact this)
    policy
  refine ⟨j1 - segs.length, qs, lp, e0, io, ?_, ?_, hrec, hlq⟩
  · rw [← hnewmap]; simp at hj2 ⊢; omega
  · rw [replayJ_filter, List.filter_append, ← h0.hmap]
    have htk : (segs ++ newsegs).take j1 = segs ++ newsegs.take (j1 - segs.length) := by
      rw [List.take_append, List.take_of_length_le hj1]
    rw [htk, List.map_append] at hq
    have hfl : (Jnew.take (j1 - segs.length)).filter (fun j => decide (F ≤ j.loc)) =
        Jnew.take (j1 - segs.length) := by
      rw [List.filter_eq_self]
      intro j hj; simpa using hnewloc j (List.mem_of_mem_take hj)
    rw [hfl, ← hnewmap, ← List.map_take]
    exact hq

end MRL.H
